/* C06 direct oracle: determinism and isolation of contexts.
 *
 *   c06_isolation <seed> <ncases> <max-enum> <nthreads> <module>...
 *   c06_isolation --replay <file>
 *
 * One case = a call script X on the observed context (load T, start, pin the
 * random state, control calls and frames) and a script Y for another context.
 * Everything a caller can observe of X (return codes, PCM bytes, frame info) is
 * folded into a digest.  The digest of X run
 *
 *   solo       on a fresh context, nothing else happening
 *   twice      a second time in the same process (other fresh context)
 *   interleave in every single-threaded interleaving of X and Y (enumerated
 *              when there are at most <max-enum>, otherwise that many sampled)
 *   reuse      on a context with a random earlier load/play/release history
 *   threads    while <nthreads> threads drive their own contexts (Y-like
 *              scripts, context creation/destruction, format list, module tests)
 *
 * must be identical.  Y's own digest must equal Y solo as well.
 * Output: `fail <variant> ...` lines; exit status 0 unless a sanitizer aborts.
 */
#include "c06_script.h"
#include <pthread.h>

static struct c06_mods mods;

struct iso_case {
	struct c06_script X, Y, hist;
	unsigned rng;
};

static uint64_t run_solo(const struct c06_script *s, struct c06_obs *o)
{
	xmp_context c = xmp_create_context();
	int i;
	c06_obs_init(o);
	for (i = 0; i < s->n; i++)
		c06_apply(c, &s->op[i], &mods, o);
	xmp_free_context(c);
	return o->h;
}

/* order: string over {x,y} with X.n x's and Y.n y's */
static void run_interleaved(const struct iso_case *ic, const char *order, uint64_t *hx, uint64_t *hy)
{
	xmp_context cx = xmp_create_context(), cy = xmp_create_context();
	struct c06_obs ox, oy;
	int ix = 0, iy = 0;
	const char *q;
	c06_obs_init(&ox);
	c06_obs_init(&oy);
	for (q = order; *q; q++) {
		if (*q == 'x' && ix < ic->X.n)
			c06_apply(cx, &ic->X.op[ix++], &mods, &ox);
		else if (*q == 'y' && iy < ic->Y.n)
			c06_apply(cy, &ic->Y.op[iy++], &mods, &oy);
	}
	xmp_free_context(cy);
	xmp_free_context(cx);
	*hx = ox.h;
	*hy = oy.h;
}

static uint64_t run_reused(const struct iso_case *ic)
{
	xmp_context c = xmp_create_context();
	struct c06_obs junk, o;
	int i;
	c06_obs_init(&junk);
	for (i = 0; i < ic->hist.n; i++)
		c06_apply(c, &ic->hist.op[i], &mods, &junk);
	c06_obs_init(&o);
	for (i = 0; i < ic->X.n; i++)
		c06_apply(c, &ic->X.op[i], &mods, &o);
	xmp_free_context(c);
	return o.h;
}

/* ---- threads ----------------------------------------------------------- */

struct worker {
	pthread_t th;
	const struct c06_script *s;
	int *stop;
	long rounds;
	uint64_t expect, bad;
};

static void *worker_main(void *arg)
{
	struct worker *w = (struct worker *)arg;
	struct c06_obs o;
	do {
		uint64_t h = run_solo(w->s, &o);
		if (w->rounds == 0 && w->expect == 0)
			w->expect = h;
		else if (h != w->expect)
			w->bad++;
		w->rounds++;
	} while (!__atomic_load_n(w->stop, __ATOMIC_ACQUIRE));
	return NULL;
}

static uint64_t run_threaded(const struct iso_case *ic, int nthreads, uint64_t yexpect, long *rounds, long *ybad)
{
	struct worker w[16];
	int stop = 0;
	struct c06_obs o;
	uint64_t h = 0;
	int i, rep;
	if (nthreads > 16) nthreads = 16;
	for (i = 0; i < nthreads; i++) {
		memset(&w[i], 0, sizeof(w[i]));
		w[i].s = &ic->Y;
		w[i].stop = &stop;
		w[i].expect = yexpect;
		pthread_create(&w[i].th, NULL, worker_main, &w[i]);
	}
	/* the observed context runs X several times while the others keep going */
	for (rep = 0; rep < 3; rep++) {
		uint64_t hh = run_solo(&ic->X, &o);
		if (rep == 0)
			h = hh;
		else if (hh != h)
			h = ~hh;	/* differs between repetitions: certainly != solo */
	}
	__atomic_store_n(&stop, 1, __ATOMIC_RELEASE);
	*rounds = 0;
	*ybad = 0;
	for (i = 0; i < nthreads; i++) {
		pthread_join(w[i].th, NULL);
		*rounds += w[i].rounds;
		*ybad += (long)w[i].bad;
	}
	return h;
}

/* the very first xmp_get_format_list() calls of the process, made concurrently */
static void *fmtlist_main(void *arg)
{
	const char *const *l = xmp_get_format_list();
	uint64_t h = FNV_INIT;
	int i;
	for (i = 0; l[i] != NULL; i++)
		h = c06_str(h, l[i]);
	*(uint64_t *)arg = h;
	return NULL;
}

static int fmtlist_first_call(int nthreads)
{
	pthread_t th[16];
	uint64_t h[16];
	int i, bad = 0;
	if (nthreads > 16) nthreads = 16;
	for (i = 0; i < nthreads; i++)
		pthread_create(&th[i], NULL, fmtlist_main, &h[i]);
	for (i = 0; i < nthreads; i++)
		pthread_join(th[i], NULL);
	for (i = 1; i < nthreads; i++)
		if (h[i] != h[0]) bad = 1;
	printf("fmtlist_first_call threads %d %s\n", nthreads, bad ? "DIFFER" : "same");
	return bad;
}

/* ---- generation -------------------------------------------------------- */

static void gen_ctx_script(struct c06_script *s, int nctl, unsigned rng, int with_globals, int small)
{
	struct c06_op *op;
	int i;
	s->n = 0;
	if (with_globals && vrng_chance(50)) {
		op = &s->op[s->n++]; memset(op, 0, sizeof(*op));
		op->kind = vrng_chance(50) ? OP_FMTLIST : OP_TESTMOD; op->a = vrng_below(mods.n);
	}
	op = &s->op[s->n++]; memset(op, 0, sizeof(*op));
	op->kind = vrng_chance(70) ? OP_LOAD : OP_LOADMEM; op->a = vrng_below(mods.n);
	op = &s->op[s->n++]; memset(op, 0, sizeof(*op));
	op->kind = OP_START; op->a = c06_rates[vrng_below(5)]; op->b = vrng_below(8);
	op = &s->op[s->n++]; memset(op, 0, sizeof(*op));
	op->kind = OP_SETRNG; op->a = (int)(rng & 0x7fffffff) | 1;
	for (i = 0; i < nctl; i++) {
		op = &s->op[s->n++];
		if (i == nctl - 1 || vrng_chance(45)) {
			memset(op, 0, sizeof(*op));
			op->kind = OP_FRAMES; op->a = vrng_range(2, 10);
		} else {
			c06_gen_play_op(op, 1);
		}
	}
	if (!small && vrng_chance(40)) {
		/* a second cycle on the same context */
		op = &s->op[s->n++]; memset(op, 0, sizeof(*op));
		op->kind = vrng_chance(50) ? OP_END : OP_RELEASE;
		if (vrng_chance(70)) {
			op = &s->op[s->n++]; memset(op, 0, sizeof(*op));
			op->kind = OP_LOAD; op->a = vrng_below(mods.n);
			op = &s->op[s->n++]; memset(op, 0, sizeof(*op));
			op->kind = OP_START; op->a = c06_rates[vrng_below(5)]; op->b = vrng_below(8);
			op = &s->op[s->n++]; memset(op, 0, sizeof(*op));
			op->kind = OP_FRAMES; op->a = vrng_range(2, 8);
		}
	}
}

static void gen_case(struct iso_case *ic, int small)
{
	int i, k = 0;
	ic->rng = (unsigned)vrng_next();
	/* small cases: 4-5 calls per context, all interleavings are enumerated */
	gen_ctx_script(&ic->X, small ? vrng_range(1, 2) : vrng_range(1, 4), ic->rng, 0, small);
	gen_ctx_script(&ic->Y, small ? vrng_range(1, 2) : vrng_range(1, 4), (unsigned)vrng_next(), !small, small);
	/* often both contexts work on the same module (usually at different rates / formats) */
	if (vrng_chance(40)) {
		int tx = -1;
		for (i = 0; i < ic->X.n; i++)
			if (ic->X.op[i].kind == OP_LOAD || ic->X.op[i].kind == OP_LOADMEM) { tx = ic->X.op[i].a; break; }
		for (i = 0; tx >= 0 && i < ic->Y.n; i++)
			if (ic->Y.op[i].kind == OP_LOAD || ic->Y.op[i].kind == OP_LOADMEM) { ic->Y.op[i].a = tx; break; }
	}
	c06_gen_history(&ic->hist, vrng_range(2, 14), mods.n);
	/* the reused context keeps the default persistent settings */
	for (i = 0; i < ic->hist.n; i++) {
		struct c06_op *op = &ic->hist.op[i];
		int persistent = op->kind == OP_INSPATH || (op->kind == OP_SETPLAYER &&
			(op->a == XMP_PLAYER_FLAGS || op->a == XMP_PLAYER_SMPCTL || op->a == XMP_PLAYER_DEFPAN || op->a == XMP_PLAYER_VOICES));
		/* smix sessions may be opened in the history; slot filling needs the same module state on both sides */
		if (op->kind == OP_SMIXLOAD)
			persistent = 1;
		if (!persistent)
			ic->hist.op[k++] = *op;
	}
	/* every session is closed before the observed script starts (closing is refused while playing) */
	if (k + 2 <= C06_MAXOPS) {
		memset(&ic->hist.op[k], 0, 2 * sizeof(struct c06_op));
		ic->hist.op[k++].kind = OP_END;
		ic->hist.op[k++].kind = OP_SMIXEND;
	}
	ic->hist.n = k;
}

static void print_script(const char *tag, const struct c06_script *s)
{
	int i;
	for (i = 0; i < s->n; i++) {
		printf("%s ", tag);
		c06_print_op(stdout, &s->op[i]);
		if (s->op[i].kind == OP_LOAD || s->op[i].kind == OP_LOADMEM || s->op[i].kind == OP_TESTMOD)
			printf(" %s", mods.path[s->op[i].a]);
		printf("\n");
	}
}

/* next interleaving in lexicographic order of a string over {x,y}; returns 0 at the end */
static int next_order(char *o, int n)
{
	int i = n - 2, j, nx = 0, ny = 0;
	/* find rightmost "xy" and swap to "yx", then sort the tail ascending (x before y) */
	while (i >= 0 && !(o[i] == 'x' && o[i + 1] == 'y'))
		i--;
	if (i < 0)
		return 0;
	o[i] = 'y'; o[i + 1] = 'x';
	for (j = i + 2; j < n; j++) {
		if (o[j] == 'x') nx++; else ny++;
	}
	for (j = i + 2; j < n; j++)
		o[j] = nx-- > 0 ? 'x' : 'y';
	(void)ny;
	return 1;
}

static double binom(int n, int k)
{
	double r = 1;
	int i;
	for (i = 1; i <= k; i++)
		r = r * (n - k + i) / i;
	return r;
}

static int check_case(int id, const struct iso_case *ic, int maxenum, int nthreads, const char *only_order)
{
	struct c06_obs ox, oy, o2;
	uint64_t hx, hy, h, h2;
	char order[2 * C06_MAXOPS + 1];
	int n = ic->X.n + ic->Y.n, i, bad = 0, count = 0;
	long rounds = 0, ybad = 0;

	hx = run_solo(&ic->X, &ox);
	hy = run_solo(&ic->Y, &oy);
	printf("solo %016llx frames %ld pcm_bytes %ld nonzero %ld y %016llx yframes %ld\n", (unsigned long long)hx, ox.frames,
		ox.pcm_bytes, ox.nonzero, (unsigned long long)hy, oy.frames);
	h = run_solo(&ic->X, &o2);
	if (h != hx) {
		printf("fail twice %016llx\n", (unsigned long long)h);
		bad = 1;
	}
	if (only_order) {
		run_interleaved(ic, only_order, &h, &h2);
		if (h != hx || h2 != hy) {
			printf("fail interleave %s %016llx %016llx\n", only_order, (unsigned long long)h, (unsigned long long)h2);
			bad = 1;
		}
		count = 1;
	} else if (binom(n, ic->X.n) <= maxenum) {
		for (i = 0; i < n; i++)
			order[i] = i < ic->X.n ? 'x' : 'y';
		order[n] = 0;
		do {
			run_interleaved(ic, order, &h, &h2);
			count++;
			if (h != hx || h2 != hy) {
				printf("fail interleave %s %016llx %016llx\n", order, (unsigned long long)h, (unsigned long long)h2);
				bad = 1;
				break;
			}
		} while (next_order(order, n));
		printf("interleavings enumerated %d\n", count);
	} else {
		int k;
		for (k = 0; k < maxenum; k++) {
			int rx = ic->X.n, ry = ic->Y.n;
			for (i = 0; i < n; i++) {
				if (rx > 0 && (ry == 0 || (int)vrng_below(rx + ry) < rx)) { order[i] = 'x'; rx--; }
				else { order[i] = 'y'; ry--; }
			}
			order[n] = 0;
			run_interleaved(ic, order, &h, &h2);
			count++;
			if (h != hx || h2 != hy) {
				printf("fail interleave %s %016llx %016llx\n", order, (unsigned long long)h, (unsigned long long)h2);
				bad = 1;
				break;
			}
		}
		printf("interleavings sampled %d\n", count);
	}
	h = run_reused(ic);
	if (h != hx) {
		printf("fail reuse %016llx\n", (unsigned long long)h);
		bad = 1;
	}
	if (nthreads > 0) {
		h = run_threaded(ic, nthreads, hy, &rounds, &ybad);
		if (h != hx) {
			printf("fail threads %016llx\n", (unsigned long long)h);
			bad = 1;
		}
		if (ybad) {
			printf("fail threads_other %ld\n", ybad);
			bad = 1;
		}
		printf("threads %d rounds %ld\n", nthreads, rounds);
	}
	(void)id;
	return bad;
}

/* ---- replay ------------------------------------------------------------ */

static int replay(const char *file)
{
	FILE *f = fopen(file, "r");
	char line[4096], path[2048], order[2 * C06_MAXOPS + 1];
	struct iso_case *ic = (struct iso_case *)calloc(1, sizeof(*ic));
	char **paths = (char **)calloc(2048, sizeof(char *));
	int npaths = 0, nthreads = 0, have_order = 0, bad, i;

	if (!f) {
		fprintf(stderr, "cannot open %s\n", file);
		return 2;
	}
	while (fgets(line, sizeof(line), f)) {
		struct c06_script *s = NULL;
		if (!strncmp(line, "X ", 2)) s = &ic->X;
		else if (!strncmp(line, "Y ", 2)) s = &ic->Y;
		else if (!strncmp(line, "H ", 2)) s = &ic->hist;
		else if (sscanf(line, "order %2000s", order) == 1) have_order = 1;
		else if (sscanf(line, "nthreads %d", &nthreads) == 1) {}
		if (s && s->n < C06_MAXOPS) {
			struct c06_op *op = &s->op[s->n];
			if (c06_parse_op(line + 2, op) == 0) {
				if (op->kind == OP_LOAD || op->kind == OP_LOADMEM || op->kind == OP_TESTMOD) {
					char nm[32]; int a, b2, c2, d2;
					if (sscanf(line + 2, "%31s %d %d %d %d %2047s", nm, &a, &b2, &c2, &d2, path) == 6) {
						paths[npaths] = strdup(path);
						op->a = npaths++;
					}
				}
				s->n++;
			}
		}
	}
	fclose(f);
	c06_mods_init(&mods, npaths, paths);
	for (i = 0; i < mods.n; i++)
		mods.data[i] = read_file(mods.path[i], &mods.size[i]);
	bad = check_case(0, ic, 4000, nthreads, have_order ? order : NULL);
	printf(bad ? "REPLAY: property violated (see fail lines)\n" : "REPLAY: no observable difference\n");
	return bad ? 1 : 0;
}

int main(int argc, char **argv)
{
	int ncases, maxenum, nthreads, i;
	uint64_t seed;

	if (argc >= 3 && !strcmp(argv[1], "--replay"))
		return replay(argv[2]);
	if (argc < 6) {
		fprintf(stderr, "usage: c06_isolation <seed> <ncases> <max-enum> <nthreads> <module>...\n");
		return 2;
	}
	seed = strtoull(argv[1], NULL, 10);
	ncases = atoi(argv[2]);
	maxenum = atoi(argv[3]);
	nthreads = atoi(argv[4]);
	c06_mods_init(&mods, argc - 5, argv + 5);
	/* preload so that worker threads never fill the cache concurrently */
	for (i = 0; i < mods.n; i++)
		mods.data[i] = read_file(mods.path[i], &mods.size[i]);
	vrng_seed(seed);
	if (nthreads > 1)
		fmtlist_first_call(nthreads);
	for (i = 0; i < ncases; i++) {
		struct iso_case *ic = (struct iso_case *)calloc(1, sizeof(*ic));
		gen_case(ic, i % 2 == 0);
		printf("case %d iso nx %d ny %d nthreads %d\n", i, ic->X.n, ic->Y.n, nthreads);
		print_script("X", &ic->X);
		print_script("Y", &ic->Y);
		print_script("H", &ic->hist);
		check_case(i, ic, maxenum, nthreads, NULL);
		printf("end\n");
		fflush(stdout);
		free(ic);
	}
	return 0;
}
