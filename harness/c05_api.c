/* C05 harness: random sequences of public API calls against the real library
 * (ASan+UBSan build), one forked child per sequence.
 *
 *   c05_api gen <seed> <nseq> <maxlen> <wav> <module>...      random sequences
 *   c05_api replay <file> <wav> <module>...                   replays the `seq`/`c` lines of <file>
 *
 * Output per sequence (see lean/Drv/C05.lean for the consumer):
 *   seq <id> <first-seed>
 *   c <fname> <a1> <a2> <a3> <a4>        printed and flushed BEFORE the call; a1..a4 determine the call
 *   o <ret> <env…> | <snapshot…>         after the call: return value, externally decided inputs, white-box snapshot
 *   endseq <id>
 *   crash <id> <status> <kind>           (parent) the child died inside the last `c` without `o`
 *
 * Pointer arguments are always valid (contexts non-NULL, buffers large enough,
 * info structures writable); every int argument is unconstrained.
 */
#include <limits.h>
#include <math.h>
#include <signal.h>
#include <sys/wait.h>
#include <unistd.h>
#include <fcntl.h>
#include "vcommon.h"
#include "xmp.h"
#include "common.h"
#include "mixer.h"

#define MAXMOD 64
#define PBUF 16384

static int nmod;
static const char *modpath[MAXMOD];
static unsigned char *modbuf[MAXMOD];
static long modsize[MAXMOD];
static const char *wavpath;
static unsigned char garbage[512];

static xmp_context ctx;
static struct context_data *cd;
static unsigned char pbuf[PBUF];

/* ---------------------------------------------------------------- */

struct cbmem { const unsigned char *p; long size, pos; };
static unsigned long cb_read(void *dest, unsigned long len, unsigned long nmemb, void *priv)
{
	struct cbmem *m = (struct cbmem *)priv;
	unsigned long want = len * nmemb, can;
	if (len == 0 || nmemb == 0)
		return 0;
	can = (unsigned long)(m->size - m->pos);
	if (want > can)
		want = can - can % len;
	memcpy(dest, m->p + m->pos, want);
	m->pos += (long)want;
	return want / len;
}
static int cb_seek(void *priv, long off, int whence)
{
	struct cbmem *m = (struct cbmem *)priv;
	long np = whence == SEEK_SET ? off : whence == SEEK_CUR ? m->pos + off : m->size + off;
	if (np < 0 || np > m->size)
		return -1;
	m->pos = np;
	return 0;
}
static long cb_tell(void *priv) { return ((struct cbmem *)priv)->pos; }
static struct xmp_callbacks cbs = { cb_read, cb_seek, cb_tell, NULL };

/* ---------------------------------------------------------------- */

static void put_snapshot(void)
{
	struct player_data *p = &cd->p;
	struct mixer_data *s = &cd->s;
	struct module_data *m = &cd->m;
	struct smix_data *sx = &cd->smix;
	int i;
	printf("%d %d %d %d %d %d %d %d %d %d %d %d %d %d %d %d %d %d %d %d ",
	       cd->state, s->amplify, s->mix, s->interp, s->dsp, p->player_flags, p->flags, m->smpctl,
	       p->master_vol, p->smix_vol, m->defpan, p->mode, s->numvoc,
	       m->mod.chn, m->mod.len, m->mod.ins, sx->chn, sx->ins, p->pos, sx->xxi != NULL);
	for (i = 0; i < XMP_MAX_CHANNELS; i++) {
		int v = p->channel_mute[i];
		putchar(v == 0 ? '0' : v == 1 ? '1' : 'x');
	}
	putchar(' ');
	for (i = 0; i < XMP_MAX_CHANNELS; i++) {
		int v = p->channel_vol[i];
		if (v < 0 || v > 255)
			printf("xx");
		else
			printf("%02x", v);
	}
}

struct envv {
	int early, res, newpos, rows, tempo_ok, mixer_type;
};

static void put_o(int ret, const struct envv *e)
{
	struct module_data *m = &cd->m;
	int i;
	printf("o %d %d %d %d %d %d %d %d %d %d %d %d ", ret, e->early, e->res, m->mod.chn, m->mod.len, m->mod.ins,
	       cd->p.flags, cd->p.mode, cd->p.pos, e->rows, e->tempo_ok, e->mixer_type);
	for (i = 0; i < XMP_MAX_CHANNELS; i++)
		putchar((m->mod.xxc[i].flg & XMP_CHANNEL_MUTE) ? '1' : '0');
	printf(" | ");
	put_snapshot();
	putchar('\n');
	fflush(stdout);
}

static const double tempo_tab[] = { NAN, -INFINITY, -1.0, -0.0, 0.0, 1e-300, 0.001, 0.01, 0.25, 0.5, 1.0, 1.5, 2.0, 10.0,
	128.0, 1e9, 1e300, INFINITY };
#define NTEMPO ((int)(sizeof(tempo_tab) / sizeof(tempo_tab[0])))

static double tempo_val(int idx, int milli)
{
	if (idx >= 0 && idx < NTEMPO)
		return tempo_tab[idx];
	return milli / 1000.0;
}

/* Executes one call given by name and a1..a4; returns 0, or -1 for an unknown name. */
static int do_call(const char *fn, int a1, int a2, int a3, int a4)
{
	struct envv e;
	int ret = 0;
	struct player_data *p;
	struct module_data *m;

	memset(&e, 0, sizeof(e));
	e.rows = -1;
	e.tempo_ok = 1;
	p = &cd->p;
	m = &cd->m;

	if (!strcmp(fn, "recreate")) {
		xmp_free_context(ctx);
		ctx = xmp_create_context();
		cd = (struct context_data *)ctx;
		if (ctx == NULL) {
			printf("fatal no context\n");
			exit(3);
		}
	} else if (!strcmp(fn, "version")) {
		ret = (xmp_version != NULL && xmp_version[0] != 0 && xmp_vercode == XMP_VERCODE) ? 0 : -100;
	} else if (!strcmp(fn, "get_format_list")) {
		const char *const *l = xmp_get_format_list();
		ret = (l != NULL && l[0] != NULL) ? 0 : -100;
	} else if (!strcmp(fn, "syserrno")) {
		(void)xmp_syserrno();
	} else if (!strcmp(fn, "test_module") || !strcmp(fn, "load_module")) {
		/* a1 kind (0 path,1 mem,2 file,3 callbacks), a2 size override (mem) / 1, a3 which: >=0 module, -1 garbage, -2 missing, -3 truncated */
		int load = fn[0] == 'l';
		int kind = a1 & 3, which = a3;
		const unsigned char *buf;
		long size;
		const char *path;
		struct xmp_test_info ti;
		if (which >= nmod)
			which = nmod - 1;
		if (which >= 0) {
			buf = modbuf[which];
			size = modsize[which];
			path = modpath[which];
		} else if (which == -3) {
			buf = modbuf[0];
			size = modsize[0] / 3 + 1;
			path = "/nonexistent/verif-c05-truncated";
			if (kind == 0 || kind == 2)
				kind = 1;
		} else {
			buf = garbage;
			size = sizeof(garbage);
			path = "/nonexistent/verif-c05-missing";
			if (which == -1 && (kind == 0 || kind == 2))
				kind = 1;
		}
		if (which == -2)
			kind = 0;
		if (kind == 0) {
			e.early = which == -2;
			ret = load ? xmp_load_module(ctx, path) : xmp_test_module(path, &ti);
			/* a path load unpacks before it touches the context: a container that will not
			 * unpack leaves the context (and a module loaded before) as it was */
			if (load && ret == -XMP_ERROR_DEPACK)
				e.early = 1;
		} else if (kind == 1) {
			long sz = a2 <= 0 ? (long)a2 : size;
			if (a2 == INT_MIN)
				sz = LONG_MIN;
			ret = load ? xmp_load_module_from_memory(ctx, buf, sz) : (sz > 0 ? xmp_test_module_from_memory(buf, sz, &ti) : xmp_test_module_from_memory(buf, size, NULL));
		} else if (kind == 2) {
			FILE *f = fopen(path, "rb");
			if (f == NULL) {
				printf("fatal cannot open %s\n", path);
				exit(3);
			}
			ret = load ? xmp_load_module_from_file(ctx, f, size) : xmp_test_module_from_file(f, &ti);
			fclose(f);
		} else {
			struct cbmem cm;
			cm.p = buf;
			cm.size = size;
			cm.pos = 0;
			ret = load ? xmp_load_module_from_callbacks(ctx, &cm, cbs) : xmp_test_module_from_callbacks(&cm, cbs, &ti);
		}
		e.res = ret;
	} else if (!strcmp(fn, "release_module")) {
		xmp_release_module(ctx);
	} else if (!strcmp(fn, "scan_module")) {
		xmp_scan_module(ctx);
	} else if (!strcmp(fn, "get_module_info")) {
		struct xmp_module_info mi;
		int st = cd->state;
		size_t i;
		memset(&mi, 0xa5, sizeof(mi));
		xmp_get_module_info(ctx, &mi);
		if (st < XMP_STATE_LOADED) {
			for (i = 0; i < sizeof(mi); i++)
				if (((unsigned char *)&mi)[i] != 0xa5)
					ret = -100;	/* not ignored */
		} else if (mi.mod != &cd->m.mod) {
			ret = -101;
		}
	} else if (!strcmp(fn, "get_frame_info")) {
		static struct xmp_frame_info fi;
		int st = cd->state;
		size_t i;
		memset(&fi, 0xa5, sizeof(fi));
		xmp_get_frame_info(ctx, &fi);
		if (st < XMP_STATE_LOADED) {
			for (i = 0; i < sizeof(fi); i++)
				if (((unsigned char *)&fi)[i] != 0xa5)
					ret = -100;
		} else if (fi.pos < 0 || (fi.pos >= cd->m.mod.len && fi.pos != 0) || fi.total_size != XMP_MAX_FRAMESIZE) {
			ret = -101;
		}
	} else if (!strcmp(fn, "start_player")) {
		ret = xmp_start_player(ctx, a1, a2);
		e.res = (ret == -XMP_ERROR_INTERNAL || ret == -XMP_ERROR_SYSTEM) ? ret : 0;
	} else if (!strcmp(fn, "play_frame")) {
		ret = xmp_play_frame(ctx);
		e.res = ret;
	} else if (!strcmp(fn, "play_buffer")) {
		/* a1: NULL buffer, a2 size (capped to the real buffer), a3 loop */
		int size = a2 > PBUF ? PBUF : a2;
		ret = xmp_play_buffer(ctx, a1 ? NULL : pbuf, size, a3);
		e.res = ret;
	} else if (!strcmp(fn, "end_player")) {
		xmp_end_player(ctx);
	} else if (!strcmp(fn, "next_position")) {
		ret = xmp_next_position(ctx);
	} else if (!strcmp(fn, "prev_position")) {
		ret = xmp_prev_position(ctx);
	} else if (!strcmp(fn, "set_position")) {
		ret = xmp_set_position(ctx, a1);
	} else if (!strcmp(fn, "set_row")) {
		if (cd->state >= XMP_STATE_LOADED) {
			int pos = p->pos, pat;
			if (pos < 0 || pos >= m->mod.len)
				pos = 0;
			pat = m->mod.xxo[pos];
			e.rows = pat < m->mod.pat ? m->mod.xxp[pat]->rows : -1;
		}
		ret = xmp_set_row(ctx, a1);
	} else if (!strcmp(fn, "set_tempo_factor")) {
		/* a1 = (val > 0 and not NaN), a2 = table index or -1, a3 = thousandths */
		double v = tempo_val(a2, a3);
		if (cd->state >= XMP_STATE_PLAYING) {
			int ts = libxmp_mixer_get_ticksize(cd->s.freq, v * 10, m->rrate, p->bpm);
			e.tempo_ok = ts >= 0 && ts <= XMP_MAX_FRAMESIZE / 4;
		}
		ret = xmp_set_tempo_factor(ctx, v);
	} else if (!strcmp(fn, "stop_module")) {
		xmp_stop_module(ctx);
	} else if (!strcmp(fn, "restart_module")) {
		xmp_restart_module(ctx);
	} else if (!strcmp(fn, "seek_time")) {
		ret = xmp_seek_time(ctx, a1);
	} else if (!strcmp(fn, "channel_mute")) {
		ret = xmp_channel_mute(ctx, a1, a2);
	} else if (!strcmp(fn, "channel_vol")) {
		ret = xmp_channel_vol(ctx, a1, a2);
	} else if (!strcmp(fn, "inject_event")) {
		/* benign event derived from a2: note, instrument, volume; no effects */
		struct xmp_event ev;
		memset(&ev, 0, sizeof(ev));
		ev.note = (unsigned char)(a2 & 1 ? 0 : 1 + (a2 >> 1) % 96);
		ev.ins = (unsigned char)(m->mod.ins > 0 ? 1 + (a2 >> 8) % m->mod.ins : 0);
		ev.vol = (unsigned char)((a2 >> 4) % 65);
		if (a3 != 0) {
			/* arbitrary event: every field is caller-controlled data (a3, a4 carry the bytes) */
			ev.note = (unsigned char)(a3 & 0xff);
			ev.ins = (unsigned char)((a3 >> 8) & 0xff);
			ev.vol = (unsigned char)((a3 >> 16) & 0xff);
			ev.fxt = (unsigned char)((a3 >> 24) & 0xff);
			ev.fxp = (unsigned char)(a4 & 0xff);
			ev.f2t = (unsigned char)((a4 >> 8) & 0xff);
			ev.f2p = (unsigned char)((a4 >> 16) & 0xff);
		}
		xmp_inject_event(ctx, a1, &ev);
	} else if (!strcmp(fn, "set_player")) {
		ret = xmp_set_player(ctx, a1, a2);
		/* environment: the rescan under the new mode found nothing playable */
		if (a1 == XMP_PLAYER_MODE && a2 >= XMP_MODE_AUTO && a2 <= XMP_MODE_ITSMP &&
		    cd->state >= XMP_STATE_PLAYING && ret == -XMP_ERROR_INVALID)
			e.res = 1;
	} else if (!strcmp(fn, "get_player")) {
		ret = xmp_get_player(ctx, a1);
		if (a1 == XMP_PLAYER_MIXER_TYPE && cd->state >= XMP_STATE_PLAYING)
			e.mixer_type = ret;
	} else if (!strcmp(fn, "set_instrument_path")) {
		ret = xmp_set_instrument_path(ctx, a1 ? NULL : "/nonexistent/verif-c05-instruments");
	} else if (!strcmp(fn, "start_smix")) {
		ret = xmp_start_smix(ctx, a1, a2);
		e.res = ret == -XMP_ERROR_INTERNAL ? ret : 0;
	} else if (!strcmp(fn, "smix_play_instrument")) {
		ret = xmp_smix_play_instrument(ctx, a1, a2, a3, a4);
	} else if (!strcmp(fn, "smix_play_sample")) {
		ret = xmp_smix_play_sample(ctx, a1, a2, a3, a4);
	} else if (!strcmp(fn, "smix_channel_pan")) {
		ret = xmp_smix_channel_pan(ctx, a1, a2);
	} else if (!strcmp(fn, "smix_load_sample")) {
		/* a2: the documented outcome class -- 0 a mono WAV (success), 1 a file that cannot be read
		 * (-XMP_ERROR_SYSTEM), 2 a file that is not a usable mono PCM WAV (-XMP_ERROR_FORMAT);
		 * a3 selects the file within the class (files written by tools/checks/c05.py make_wav):
		 *   class 0: 0 8-bit, 1 16-bit (<wav>.16)
		 *   class 1: 0 missing file, 1 data size larger than the file (<wav>.short)
		 *   class 2: 0 a module, 1 data size 0xfffffffc (.neg), 2 4-bit (.b4), 3 1-bit (.b1),
		 *            4 stereo (.st), 5 data size 0x7ffffffc (.big) */
		static char alt[4096];
		static const char *const sfx0[] = { "", ".16" };
		static const char *const sfx1[] = { NULL, ".short" };
		static const char *const sfx2[] = { NULL, ".neg", ".b4", ".b1", ".st", ".big" };
		const char *path = a2 == 0 ? wavpath : a2 == 1 ? "/nonexistent/verif-c05.wav" : modpath[0];
		const char *sfx = NULL;
		if (a2 == 0 && a3 >= 0 && a3 < 2) sfx = sfx0[a3];
		if (a2 == 1 && a3 >= 0 && a3 < 2) sfx = sfx1[a3];
		if (a2 == 2 && a3 >= 0 && a3 < 6) sfx = sfx2[a3];
		if (sfx != NULL && sfx[0]) {
			snprintf(alt, sizeof(alt), "%s%s", wavpath, sfx);
			if (access(alt, R_OK) == 0)
				path = alt;
		}
		ret = xmp_smix_load_sample(ctx, a1, path);
	} else if (!strcmp(fn, "smix_release_sample")) {
		ret = xmp_smix_release_sample(ctx, a1);
	} else if (!strcmp(fn, "end_smix")) {
		xmp_end_smix(ctx);
	} else {
		return -1;
	}
	put_o(ret, &e);
	return 0;
}

static void call(const char *fn, int a1, int a2, int a3, int a4)
{
	printf("c %s %d %d %d %d\n", fn, a1, a2, a3, a4);
	fflush(stdout);
	if (do_call(fn, a1, a2, a3, a4) < 0) {
		printf("fatal unknown call %s\n", fn);
		exit(3);
	}
}

/* ---------------------------------------------------------------- */
/* generators */

/* boundary-biased int: {INT_MIN,-2,-1,0,1,n-1,n,n+1,63,64,255,256,INT_MAX} u small u in-range u uniform */
static int gen_int(int n)
{
	static const int fixed[] = { INT_MIN, -2, -1, 0, 1, 63, 64, 255, 256, INT_MAX, 2, 100, 101, 200, 201, 65, 254 };
	int r = (int)vrng_below(100);
	if (r < 30)
		return fixed[vrng_below(sizeof(fixed) / sizeof(fixed[0]))];
	if (r < 45)
		return n - 1 + (int)vrng_below(3);
	if (r < 75)
		return n > 0 ? (int)vrng_below((uint32_t)n) : 0;
	if (r < 90)
		return vrng_range(-4, 300);
	return (int)(uint32_t)vrng_next();
}

static int gen_rate(void)
{
	static const int rates[] = { 0, -1, 3999, 4000, 7999, 8000, 11025, 22050, 44100, 48000, 48001, 49170, 49171, INT_MAX, INT_MIN, 96000 };
	if (vrng_chance(70))
		return vrng_range(8000, 48000);
	return rates[vrng_below(sizeof(rates) / sizeof(rates[0]))];
}

static int gen_format(void)
{
	if (vrng_chance(80))
		return (int)vrng_below(8);
	return gen_int(8);
}

static int gen_parm(void)
{
	if (vrng_chance(88))
		return (int)vrng_below(14);
	return gen_int(14);
}

static int gen_parm_val(int parm)
{
	switch (parm) {
	case XMP_PLAYER_AMP: return vrng_chance(60) ? (int)vrng_below(4) : gen_int(4);
	case XMP_PLAYER_MIX: return vrng_chance(50) ? vrng_range(-100, 100) : gen_int(101);
	case XMP_PLAYER_INTERP: return vrng_chance(60) ? (int)vrng_below(3) : gen_int(3);
	case XMP_PLAYER_VOLUME:
	case XMP_PLAYER_SMIX_VOLUME: return vrng_chance(50) ? vrng_range(0, 200) : gen_int(201);
	case XMP_PLAYER_DEFPAN: return vrng_chance(50) ? vrng_range(0, 100) : gen_int(101);
	case XMP_PLAYER_MODE: return vrng_chance(60) ? (int)vrng_below(11) : gen_int(11);
	case XMP_PLAYER_VOICES: return vrng_chance(70) ? vrng_range(0, 256) : gen_int(128);
	case XMP_PLAYER_FLAGS:
	case XMP_PLAYER_CFLAGS: return vrng_chance(70) ? (int)vrng_below(16) : gen_int(16);
	case XMP_PLAYER_DSP:
	case XMP_PLAYER_SMPCTL: return vrng_chance(70) ? (int)vrng_below(2) : gen_int(2);
	}
	return gen_int(4);
}

static void random_call(void)
{
	struct module_data *m = &cd->m;
	struct smix_data *sx = &cd->smix;
	int chn = m->mod.chn, len = m->mod.len, ins = m->mod.ins;
	int r = (int)vrng_below(1000);
	int t;

	/* keep a playing context alive longer: most of the calls that leave PLAYING are re-drawn */
	if (cd->state == XMP_STATE_PLAYING && (r < 10 || (r >= 45 && r < 110) || (r >= 310 && r < 325)) && vrng_chance(70))
		r = 110 + (int)vrng_below(890);

	if (r < 10) call("recreate", 0, 0, 0, 0);
	else if (r < 15) call("version", 0, 0, 0, 0);
	else if (r < 20) call("get_format_list", 0, 0, 0, 0);
	else if (r < 25) call("syserrno", 0, 0, 0, 0);
	else if (r < 45) {
		int kind = (int)vrng_below(4), which;
		t = (int)vrng_below(10);
		which = t < 6 ? (int)vrng_below((uint32_t)nmod) : t < 8 ? -1 : t < 9 ? -2 : -3;
		if (which == -2)
			kind = 0;
		else if (which < 0 && (kind == 0 || kind == 2))
			kind = 1;
		call("test_module", kind, 1, which, 0);
	} else if (r < 95) {
		int kind = (int)vrng_below(4);
		int size = 1;
		int which;
		t = (int)vrng_below(20);
		which = t < 14 ? (int)vrng_below((uint32_t)nmod) : t < 16 ? -1 : t < 18 ? -2 : -3;
		if (which == -2)
			kind = 0;
		else if (which < 0 && (kind == 0 || kind == 2))
			kind = 1;
		if (kind == 1 && vrng_chance(15)) {
			static const int bad[] = { 0, -1, INT_MIN, -4096 };
			size = bad[vrng_below(4)];
		}
		call("load_module", kind, size, which, 0);
	} else if (r < 110) call("release_module", 0, 0, 0, 0);
	else if (r < 120) call("scan_module", 0, 0, 0, 0);
	else if (r < 135) call("get_module_info", 0, 0, 0, 0);
	else if (r < 155) call("get_frame_info", 0, 0, 0, 0);
	else if (r < 215) call("start_player", gen_rate(), gen_format(), 0, 0);
	else if (r < 275) call("play_frame", 0, 0, 0, 0);
	else if (r < 310) {
		int null = vrng_chance(12);
		int size = vrng_chance(60) ? vrng_range(1, 4000) : gen_int(PBUF);
		call("play_buffer", null, size, vrng_chance(60) ? (int)vrng_below(3) : gen_int(2), 0);
	} else if (r < 325) call("end_player", 0, 0, 0, 0);
	else if (r < 350) call("next_position", 0, 0, 0, 0);
	else if (r < 375) call("prev_position", 0, 0, 0, 0);
	else if (r < 415) call("set_position", gen_int(len), 0, 0, 0);
	else if (r < 445) call("set_row", gen_int(64), 0, 0, 0);
	else if (r < 470) {
		int idx = vrng_chance(60) ? (int)vrng_below(NTEMPO) : -1;
		int milli = vrng_range(1, 4000);
		double v = tempo_val(idx, milli);
		call("set_tempo_factor", (v > 0.0 && v == v) ? 1 : 0, idx, milli, 0);
	} else if (r < 480) call("stop_module", 0, 0, 0, 0);
	else if (r < 495) call("restart_module", 0, 0, 0, 0);
	else if (r < 520) call("seek_time", vrng_chance(60) ? vrng_range(0, 200000) : gen_int(1000), 0, 0, 0);
	else if (r < 580) {
		static const int st[] = { -1, -1, -1, 0, 1, 2, 0, 1, 2, 3, -2, INT_MAX, INT_MIN, 255, 256 };
		call("channel_mute", gen_int(chn + sx->chn), st[vrng_below(sizeof(st) / sizeof(st[0]))], 0, 0);
	} else if (r < 640) {
		int v = vrng_chance(30) ? -1 : vrng_chance(60) ? vrng_range(0, 100) : gen_int(101);
		call("channel_vol", gen_int(chn + sx->chn), v, 0, 0);
	} else if (r < 665) {
		int a3 = 0, a4 = 0;
		if (vrng_chance(50)) {
			static const unsigned char bv[] = { 0, 1, 2, 0x0f, 0x10, 0x1f, 0x20, 0x3f, 0x40, 0x7f, 0x80, 0xf0, 0xfe, 0xff };
			int insv = vrng_chance(50) ? ins + sx->ins + vrng_range(-2, 2) : (int)vrng_below(256);
			a3 = (int)(vrng_below(256) | ((uint32_t)(insv & 0xff) << 8) | ((uint32_t)bv[vrng_below(sizeof(bv))] << 16) |
				   ((uint32_t)(vrng_chance(50) ? vrng_below(0x30) : vrng_below(256)) << 24));
			a4 = (int)(bv[vrng_below(sizeof(bv))] | ((vrng_chance(50) ? vrng_below(0x30) : vrng_below(256)) << 8) |
				   ((uint32_t)bv[vrng_below(sizeof(bv))] << 16));
			if (a3 == 0)
				a3 = 1;
		}
		call("inject_event", gen_int(chn + sx->chn), (int)vrng_below(1 << 16), a3, a4);
	}
	else if (r < 745) {
		int parm = gen_parm();
		call("set_player", parm, gen_parm_val(parm), 0, 0);
	} else if (r < 835) call("get_player", gen_parm(), 0, 0, 0);
	else if (r < 845) call("set_instrument_path", vrng_chance(40), 0, 0, 0);
	else if (r < 875) {
		int c = vrng_chance(60) ? vrng_range(0, 8) : gen_int(64 - chn);
		int s = vrng_chance(60) ? vrng_range(0, 4) : gen_int(255);
		call("start_smix", c, s, 0, 0);
	} else if (r < 900) call("smix_play_instrument", gen_int(ins), vrng_chance(70) ? vrng_range(0, 120) : gen_int(255),
				 vrng_chance(70) ? vrng_range(0, 64) : gen_int(255), gen_int(sx->chn));
	else if (r < 925) call("smix_play_sample", gen_int(sx->ins), vrng_chance(70) ? vrng_range(0, 120) : gen_int(255),
			       vrng_chance(70) ? vrng_range(0, 64) : gen_int(255), gen_int(sx->chn));
	else if (r < 945) call("smix_channel_pan", gen_int(sx->chn), vrng_chance(60) ? vrng_range(0, 255) : gen_int(256), 0, 0);
	else if (r < 970) {
		t = (int)vrng_below(10);
		t = t < 6 ? 0 : t < 7 ? 1 : 2;
		call("smix_load_sample", gen_int(sx->ins), t, (int)vrng_below(t == 2 ? 6 : 2), 0);
	} else if (r < 985) call("smix_release_sample", gen_int(sx->ins), 0, 0, 0);
	else call("end_smix", 0, 0, 0, 0);
}

static void gen_sequence(int maxlen)
{
	int n = vrng_range(1, maxlen), i;
	int style = (int)vrng_below(10);

	/* prefixes that reach the deeper states quickly */
	if (style >= 8 && n > 8) {
		/* voice-lifetime cases start from a player with two loaded external samples */
		call("start_smix", vrng_range(2, 4), vrng_range(2, 3), 0, 0);
		call("smix_load_sample", 0, 0, (int)vrng_below(2), 0);
		call("smix_load_sample", 1, 0, (int)vrng_below(2), 0);
		call("load_module", (int)vrng_below(4), 1, (int)vrng_below((uint32_t)nmod), 0);
		call("start_player", vrng_range(8000, 48000), (int)vrng_below(8), 0, 0);
		/* every mixer table must serve every voice format: player flags (A500 Paula mixer, ...),
		 * interpolation and DSP can only be chosen once the player runs */
		if (vrng_chance(60)) {
			call("set_player", vrng_chance(50) ? XMP_PLAYER_FLAGS : XMP_PLAYER_CFLAGS, (int)vrng_below(16), 0, 0);
			n--;
		}
		if (vrng_chance(30)) {
			call("set_player", XMP_PLAYER_INTERP, (int)vrng_below(3), 0, 0);
			n--;
		}
		if (vrng_chance(20)) {
			call("set_player", XMP_PLAYER_DSP, (int)vrng_below(2), 0, 0);
			n--;
		}
		n -= 5;
	} else if (style >= 2 && n > 4) {
		if (style >= 7) {
			call("start_smix", vrng_range(0, 4), vrng_range(0, 3), 0, 0);
			if (vrng_chance(70))
				call("smix_load_sample", 0, 0, 0, 0);
			n -= 2;
		}
		call("load_module", (int)vrng_below(4), 1, (int)vrng_below((uint32_t)nmod), 0);
		n--;
		if (style >= 3) {
			call("start_player", vrng_range(8000, 48000), (int)vrng_below(8), 0, 0);
			n--;
		}
	}
	/* voice-lifetime style: external samples are released / reloaded / re-triggered while
	 * they sound, on modules of every instrument/sample layout */
	if (style >= 8 && n > 3) {
		int k = vrng_range(3, 12);
		for (i = 0; i < k && n > 0; i++, n--) {
			int slot = vrng_chance(85) ? (int)vrng_below(2) : gen_int(4);
			switch (vrng_below(7)) {
			case 0:
			case 1:
				call("smix_play_sample", slot, vrng_range(24, 96), vrng_range(16, 64), (int)vrng_below(2));
				break;
			case 2:
				call("smix_play_instrument", (int)vrng_below(4), vrng_range(24, 96), vrng_range(16, 64), (int)vrng_below(4));
				break;
			case 3:
				call("smix_release_sample", slot, 0, 0, 0);
				break;
			case 4:
				/* a refused reload must leave the sounding sample alone */
				if (vrng_chance(25))
					call("smix_load_sample", slot, 2, (int)vrng_below(6), 0);
				else
					call("smix_load_sample", slot, 0, (int)vrng_below(2), 0);
				break;
			default:
				call("play_frame", 0, 0, 0, 0);
				break;
			}
		}
	}
	for (i = 0; i < n; i++)
		random_call();
}

/* ---------------------------------------------------------------- */

static void child_setup(const char *errpath)
{
	int fd = open(errpath, O_WRONLY | O_CREAT | O_TRUNC, 0600);
	if (fd >= 0) {
		dup2(fd, 2);
		close(fd);
	}
	alarm(60);
	ctx = xmp_create_context();
	cd = (struct context_data *)ctx;
	if (ctx == NULL)
		exit(3);
}

static void child_finish(void)
{
	/* leave a clean heap: end_smix is the caller's duty */
	if (cd->state >= XMP_STATE_PLAYING)
		xmp_end_player(ctx);
	xmp_end_smix(ctx);
	xmp_free_context(ctx);
}

static void report_crash(const char *id, int status, const char *errpath)
{
	char kind[200] = "unknown", where[100] = "?";
	FILE *f = fopen(errpath, "r");
	if (WIFSIGNALED(status) && WTERMSIG(status) == SIGALRM)
		strcpy(kind, "timeout");
	if (f) {
		char line[1024];
		while (fgets(line, sizeof(line), f)) {
			char *q;
			if ((q = strstr(line, "Sanitizer: ")) != NULL && strstr(line, "ERROR")) {
				q += 11;
				snprintf(kind, sizeof(kind), "%s", q);
				break;
			}
			if ((q = strstr(line, "runtime error: ")) != NULL) {
				snprintf(kind, sizeof(kind), "ub:%s", q + 15);
				break;
			}
		}
		/* innermost library frame */
		while (fgets(line, sizeof(line), f)) {
			char *q = strstr(line, " in ");
			if (strstr(line, "    #") && q && !strstr(line, "interceptor") && !strstr(line, "__asan") && !strstr(line, "__ubsan")) {
				sscanf(q + 4, "%99s", where);
				break;
			}
		}
		fclose(f);
	}
	{
		char *q;
		for (q = kind; *q; q++)
			if (*q == ' ' || *q == '\n')
				*q = (*q == '\n') ? 0 : '_';
		if ((q = strstr(kind, "_on_address")) != NULL)
			*q = 0;
	}
	printf("endseq %s\ncrash %s %d %s@%s\n", id, id, status, kind, where);
	fflush(stdout);
	/* keep the full report for the log */
	f = fopen(errpath, "r");
	if (f) {
		char line[1024];
		int n = 0;
		while (fgets(line, sizeof(line), f) && n++ < 40)
			fputs(line, stderr);
		fclose(f);
	}
}

static void load_inputs(int argc, char **argv, int first)
{
	int i;
	for (i = first; i < argc && nmod < MAXMOD; i++) {
		long sz;
		unsigned char *b = read_file(argv[i], &sz);
		if (b == NULL || sz <= 0) {
			fprintf(stderr, "cannot read %s\n", argv[i]);
			continue;
		}
		modpath[nmod] = argv[i];
		modbuf[nmod] = b;
		modsize[nmod] = sz;
		nmod++;
	}
	if (nmod == 0) {
		fprintf(stderr, "no modules\n");
		exit(2);
	}
	for (i = 0; i < (int)sizeof(garbage); i++)
		garbage[i] = (unsigned char)(i * 37 + 11);
}

int main(int argc, char **argv)
{
	char errpath[256];
	snprintf(errpath, sizeof(errpath), "/tmp/c05-harness-%d.err", (int)getpid());

	if (argc >= 7 && !strcmp(argv[1], "gen")) {
		uint64_t seed = strtoull(argv[2], NULL, 10);
		int nseq = atoi(argv[3]), maxlen = atoi(argv[4]), i;
		wavpath = argv[5];
		load_inputs(argc, argv, 6);
		for (i = 0; i < nseq; i++) {
			char id[64];
			pid_t pid;
			int status;
			snprintf(id, sizeof(id), "%llu.%d", (unsigned long long)seed, i);
			printf("seq %s 0\n", id);
			fflush(stdout);
			pid = fork();
			if (pid == 0) {
				child_setup(errpath);
				vrng_seed(seed * 1000003ULL + (uint64_t)i);
				gen_sequence(maxlen);
				child_finish();
				printf("endseq %s\n", id);
				fflush(stdout);
				_exit(0);
			}
			waitpid(pid, &status, 0);
			if (!WIFEXITED(status) || WEXITSTATUS(status) != 0)
				report_crash(id, status, errpath);
		}
		unlink(errpath);
		return 0;
	}
	if (argc >= 5 && !strcmp(argv[1], "replay")) {
		/* every `seq <id>` block of the file is replayed in its own process */
		FILE *f = fopen(argv[2], "r");
		char line[512], id[64] = "replay";
		int rc = 0;
		long block_start = -1;
		wavpath = argv[3];
		load_inputs(argc, argv, 4);
		if (f == NULL) {
			fprintf(stderr, "cannot open %s\n", argv[2]);
			return 2;
		}
		for (;;) {
			long here = ftell(f);
			int eof = fgets(line, sizeof(line), f) == NULL;
			int is_seq = !eof && !strncmp(line, "seq ", 4);
			if (!eof && !is_seq && block_start < 0 && line[0] == 'c')
				block_start = here;	/* file without seq header */
			if ((eof || is_seq) && block_start >= 0) {
				long resume = ftell(f);
				pid_t pid;
				int status;
				printf("seq %s 0\n", id);
				fflush(stdout);
				pid = fork();
				if (pid == 0) {
					child_setup(errpath);
					fseek(f, block_start, SEEK_SET);
					while (fgets(line, sizeof(line), f) && strncmp(line, "seq ", 4)) {
						char fn[64];
						int a1, a2, a3, a4;
						if (sscanf(line, "c %63s %d %d %d %d", fn, &a1, &a2, &a3, &a4) == 5)
							call(fn, a1, a2, a3, a4);
					}
					child_finish();
					printf("endseq %s\n", id);
					fflush(stdout);
					_exit(0);
				}
				waitpid(pid, &status, 0);
				if (!WIFEXITED(status) || WEXITSTATUS(status) != 0) {
					report_crash(id, status, errpath);
					rc = 1;
				}
				fseek(f, resume, SEEK_SET);
				block_start = -1;
			}
			if (eof)
				break;
			if (is_seq) {
				sscanf(line, "seq %63s", id);
				block_start = ftell(f);
			}
		}
		unlink(errpath);
		return rc;
	}
	fprintf(stderr, "usage: c05_api gen <seed> <nseq> <maxlen> <wav> <module>... | replay <file> <wav> <module>...\n");
	return 2;
}
