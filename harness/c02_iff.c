/* C02 — the IFF chunk walker (src/loaders/iff.c) on generated chunked files, both stream back-ends.
 *
 * iff.c is compiled into this translation unit with hio_eof / hio_tell / hio_seek / hio_read routed through
 * recording wrappers, so every loop test, every chunk (position of its body, id), every loader call (size) and
 * every seek target of the real walker is observed.  Case lines on stdin (same protocol as lean/Drv/C02.lean):
 *
 *   iff <idSize> <flags> <clamp 0|1> <start> <handlers> <filehex>
 *        clamp 1 = memory handle, 0 = FILE handle (a scratch file); handlers: `-` or `<idhex>:<code>,...`
 *        code 0 = loader returns 0, 1 = returns -1, 2 = reads size + 16 bytes first, 3 = rewinds the stream first
 *   -> ret <0|-1> tests <number of hio_eof loop tests> { T<pos>:<idhex> [L<size>] [S<target>] }
 *
 * usage: c02_iff <scratchdir>
 */
#include "vcommon.h"
#include "common.h"
#include "hio.h"
#include "loader.h"
#include "iff.h"
#include <unistd.h>

static char trace[1 << 18];
static size_t tl;
static int eof_tests;
static unsigned char last_id[32];
static size_t last_id_len;

static void rec(const char *fmt, long v)
{
	if (tl + 64 < sizeof(trace))
		tl += (size_t)sprintf(trace + tl, fmt, v);
}

static void rec_hex(const unsigned char *p, size_t n)
{
	static const char d[] = "0123456789abcdef";
	size_t i;
	if (n == 0 && tl + 2 < sizeof(trace))
		trace[tl++] = '-';
	for (i = 0; i < n && tl + 4 < sizeof(trace); i++) {
		trace[tl++] = d[p[i] >> 4];
		trace[tl++] = d[p[i] & 15];
	}
	trace[tl] = 0;
}

/* loaders (use the real hio functions: defined before the recording macros) */
static int h_ok(struct module_data *m, int size, HIO_HANDLE *f, void *parm)
{
	(void)m; (void)f; (void)parm;
	rec(" L%ld", size);
	return 0;
}

static int h_fail(struct module_data *m, int size, HIO_HANDLE *f, void *parm)
{
	(void)m; (void)f; (void)parm;
	rec(" L%ld", size);
	return -1;
}

static int h_readpast(struct module_data *m, int size, HIO_HANDLE *f, void *parm)
{
	unsigned char *b = (unsigned char *)malloc((size_t)size + 16);
	(void)m; (void)parm;
	rec(" L%ld", size);
	if (b) {
		hio_read(b, 1, (size_t)size + 16, f);
		free(b);
	}
	hio_read32b(f);
	return 0;
}

static int h_rewind(struct module_data *m, int size, HIO_HANDLE *f, void *parm)
{
	(void)m; (void)parm;
	rec(" L%ld", size);
	hio_seek(f, 0, SEEK_SET);
	return 0;
}

static int spy_eof(HIO_HANDLE *f)
{
	eof_tests++;
	return hio_eof(f);
}

static long spy_tell(HIO_HANDLE *f)
{
	long p = hio_tell(f);
	rec(" T%ld:", p);
	rec_hex(last_id, last_id_len);
	return p;
}

static int spy_seek(HIO_HANDLE *f, long ofs, int whence)
{
	rec(" S%ld", ofs);
	return hio_seek(f, ofs, whence);
}

static size_t spy_read(void *buf, size_t size, size_t num, HIO_HANDLE *f)
{
	size_t r = hio_read(buf, size, num, f);
	if (r == num && size * num <= sizeof(last_id)) {
		memcpy(last_id, buf, size * num);
		last_id_len = size * num;
	}
	return r;
}

#define hio_eof spy_eof
#define hio_tell spy_tell
#define hio_seek spy_seek
#define hio_read spy_read
#include "iff.c"
#undef hio_eof
#undef hio_tell
#undef hio_seek
#undef hio_read

static char line[1 << 20];

int main(int argc, char **argv)
{
	const char *scratch = argc > 1 ? argv[1] : "/tmp";
	char path[4096];
	snprintf(path, sizeof(path), "%s/c02_iff_%ld.bin", scratch, (long)getpid());

	while (fgets(line, sizeof(line), stdin)) {
		char *tok[8];
		int nt = 0, id_size, flags, clamp, ret;
		long start, n;
		unsigned char *data = NULL;
		char *p = strtok(line, " \r\n");
		iff_handle h;
		HIO_HANDLE *f;

		while (p && nt < 8) {
			tok[nt++] = p;
			p = strtok(NULL, " \r\n");
		}
		if (nt != 7 || strcmp(tok[0], "iff")) {
			printf("?\n");
			continue;
		}
		id_size = atoi(tok[1]);
		flags = atoi(tok[2]);
		clamp = atoi(tok[3]);
		start = atol(tok[4]);
		n = get_hex(tok[6], &data);
		if (n < 0) {
			printf("?\n");
			continue;
		}
		h = libxmp_iff_new();
		if (!h)
			return 3;
		libxmp_iff_id_size(h, id_size);
		libxmp_iff_set_quirk(h, flags);
		if (strcmp(tok[5], "-")) {
			char *e = tok[5];
			while (e && *e) {
				char *comma = strchr(e, ',');
				char *colon;
				unsigned char *idb = NULL;
				char idz[8] = { 0 };
				long il;
				int code;
				if (comma)
					*comma = 0;
				colon = strchr(e, ':');
				if (!colon)
					return 4;
				*colon = 0;
				il = get_hex(e, &idb);
				if (il < 0 || il > 4)
					return 4;
				memcpy(idz, idb, (size_t)il);
				free(idb);
				code = atoi(colon + 1);
				if (libxmp_iff_register(h, idz, code == 1 ? h_fail : code == 2 ? h_readpast : code == 3 ? h_rewind : h_ok) < 0)
					return 3;
				e = comma ? comma + 1 : NULL;
			}
		}
		if (clamp) {
			f = hio_open_const_mem(data, n);
		} else {
			FILE *w = fopen(path, "wb");
			if (!w)
				return 5;
			if (n > 0 && fwrite(data, 1, (size_t)n, w) != (size_t)n)
				return 5;
			fclose(w);
			f = hio_open(path, "rb");
		}
		if (!f) {
			/* hio refuses empty memory buffers: nothing to walk */
			printf("noopen\n");
			libxmp_iff_release(h);
			free(data);
			continue;
		}
		hio_seek(f, start, SEEK_SET);
		tl = 0;
		trace[0] = 0;
		eof_tests = 0;
		last_id_len = 0;
		ret = libxmp_iff_load(h, NULL, f, NULL);
		printf("ret %d tests %d%s\n", ret, eof_tests, trace);
		fflush(stdout);
		hio_close(f);
		libxmp_iff_release(h);
		free(data);
	}
	unlink(path);
	return 0;
}
