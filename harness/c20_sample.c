/* C20 harness: the real libxmp_load_sample on generated cases.
 *
 * usage: c20_sample random <seed> <ncases>
 *        c20_sample big    <seed> <ncases>
 *        c20_sample exh    <shard> <nshards> [points]  exhaustive small space (thorough tier); points = loop-grid
 *                                                      points per combination in part 0 (default 3)
 *        c20_sample short  <seed> <ncases>             random cases through a *callback* HIO handle whose read function
 *                                                      comes back short after <limit> bytes (0 = fails outright)
 *        c20_sample exhs   <shard> <nshards>           every width x len 1..6 x {complete, truncated, longer} stream x
 *                                                      every limit 0..need+1 on 8 flag sets, callback handle
 *        c20_sample cuts   <maxcuts> <module>...       loader-level truncation: the module is loaded whole (recording where
 *                                                      each sample's stored bytes start and end), then cut at
 *                                                      sample_start + {-1..6} and sample_end - {0,1,2} of EVERY sample and
 *                                                      loaded through memory, FILE and callbacks; every exposed sample must be a
 *                                                      prefix of what the whole file exposes and not longer than what is present
 *        c20_sample replay <file>                      case lines (other lines ignored)
 *        c20_sample corpus <maxbytes> <module>...     load real modules from memory; every call a loader makes to
 *                                                      libxmp_load_sample is intercepted (-Wl,--wrap), recorded as a
 *                                                      case and passed on to the real function
 * env C20_FLUSH=1: flush after every case line (to name the case a sanitizer abort happened in)
 *
 * Output per case (the case line is also the model driver's input, see lean/Drv/C20.lean):
 *   case <id> <flags> <len> <lps> <lpe> <flg> <skip> <pos> <filehex> <bufhex> [<limit>]
 *   R <id> <ret> <len> <lps> <lpe> <flg> <tell> <allochex|NULL>
 *   O <id> <what>            only when a built-in oracle fails: shape (loop range, guard replication) right after the load;
 *                            `playback-modified`: the allocation differs from its load-time content after the sample was
 *                            played (module built around it, looped note, nearest/linear/spline, loop end == len too);
 *                            `final-loop-range`: a sample of a successfully loaded module has loop points outside its data
 *   epi <id> <hasdata> <len> <lps> <lpe> <flg> <sus> <sue>     one sample header as libxmp_load_epilogue found it (model input)
 *   ER <id> <lps> <lpe> <flg>                                   ... and as it left it (compared with LoadPost.epilogueLoop)
 *
 * The handle is a memory HIO handle over the bytes of <filehex>, positioned at <pos> (pos = -1: NULL
 * handle); <bufhex> is the SAMPLE_FLAG_NOLOAD buffer, allocated with exactly its size so that ASan
 * sees any over-read.  With <limit> the handle is hio_open_callbacks() over the same bytes: hio_size() reports the
 * whole file, but the read callback delivers only <limit> bytes from <pos> on (fread semantics: all bytes it has are
 * copied, the number of *complete items* is returned), every later read returns 0.  skip: bit 0 = pass a module_data, bit 1 = its smpctl has XMP_SMPCTL_SKIP.
 * allochex = data[-4 .. bytelen+extralen) where bytelen is recomputed from the *resulting* len.
 */
#include "vcommon.h"
#include <limits.h>
#include <xmp.h>
#include "common.h"
#include "loader.h"
#include "hio.h"

/* built with -Wl,--wrap=libxmp_load_sample: every reference (the loaders' and ours) goes to the spy below */
int __real_libxmp_load_sample(struct module_data *, HIO_HANDLE *, int, struct xmp_sample *, const void *);
static int spy_on;
static long spy_max_bytes, spy_seen, spy_recorded, spy_unrecorded, spy_nonmem, spy_toolarge, spy_preset, spy_skippath, spy_filehandle;
static char spy_prefix[24];

static struct module_data fake_m;
static int do_flush;
static long ncases_run;

struct tcase {
	char id[40];
	int flags, len, lps, lpe, flg, skip;
	long pos;
	unsigned char *file;
	long filelen;
	unsigned char *buf;
	long buflen;
	int cb;			/* 1: callback handle with a short-reading read function */
	long limit;		/* bytes it delivers from pos on */
};

static int frame_len(int flg)
{
	int fl = 1;
	if (flg & XMP_SAMPLE_16BIT)
		fl *= 2;
	if (flg & XMP_SAMPLE_STEREO)
		fl *= 2;
	return fl;
}

static void shape_oracle(const struct tcase *c, const struct xmp_sample *s, int ret)
{
	int fl = frame_len(s->flg), i;
	long bytelen = (long)s->len * fl;
	const unsigned char *d = s->data;

	if (ret != 0 || d == NULL)
		return;
	if (!(0 <= s->lps && s->lps <= s->lpe && s->lpe <= s->len)) {
		printf("O %s loop-range lps=%d lpe=%d len=%d\n", c->id, s->lps, s->lpe, s->len);
		return;
	}
	if ((s->flg & XMP_SAMPLE_LOOP) && !(s->lps < s->lpe)) {
		printf("O %s loop-flag-empty lps=%d lpe=%d\n", c->id, s->lps, s->lpe);
		return;
	}
	if ((s->flg & XMP_SAMPLE_LOOP_BIDIR) && !(s->flg & XMP_SAMPLE_LOOP)) {
		printf("O %s bidir-without-loop\n", c->id);
		return;
	}
	if (s->len > c->len) {
		printf("O %s len-grew %d > %d\n", c->id, s->len, c->len);
		return;
	}
	if (s->len > 0) {
		for (i = 0; i < 4 * fl; i++) {
			if (d[bytelen + i] != d[bytelen - fl + (i % fl)]) {
				printf("O %s end-guard byte %d\n", c->id, i);
				return;
			}
		}
		for (i = 1; i <= 4; i++) {
			if (d[-i] != d[(4 * fl - i) % fl]) {
				printf("O %s start-guard byte -%d\n", c->id, i);
				return;
			}
		}
	} else {
		for (i = -4; i < 4 * fl; i++) {
			if (d[i] != 0) {
				printf("O %s empty-guard byte %d\n", c->id, i);
				return;
			}
		}
	}
}

/* ---------------------------------------------------------------- callback stream that reads short */

struct cbstream {
	const unsigned char *data;
	long size, pos, left;	/* left: bytes the read function will still deliver */
	long reads, short_reads;
};

static unsigned long cb_read(void *dest, unsigned long len, unsigned long nmemb, void *priv)
{
	struct cbstream *st = (struct cbstream *)priv;
	unsigned long want = len * nmemb, n = want;

	st->reads++;
	if (len == 0 || nmemb == 0)
		return 0;
	if ((long)n > st->size - st->pos)
		n = st->pos < st->size ? (unsigned long)(st->size - st->pos) : 0;
	if ((long)n > st->left)
		n = (unsigned long)st->left;
	memcpy(dest, st->data + st->pos, n);
	st->pos += (long)n;
	st->left -= (long)n;
	if (n < want)
		st->short_reads++;
	return n / len;
}

static int cb_seek(void *priv, long offset, int whence)
{
	struct cbstream *st = (struct cbstream *)priv;
	long ofs = offset;
	if (whence == SEEK_CUR)
		ofs += st->pos;
	else if (whence == SEEK_END)
		ofs += st->size;
	else if (whence != SEEK_SET)
		return -1;
	if (ofs < 0)
		return -1;
	if (ofs > st->size)
		ofs = st->size;
	st->pos = ofs;
	return 0;
}

static long cb_tell(void *priv)
{
	return ((struct cbstream *)priv)->pos;
}

static int cb_close(void *priv)
{
	(void)priv;
	return 0;
}

/* ---------------------------------------------------------------- play phase */

void libxmp_load_prologue(struct context_data *);
void libxmp_load_epilogue(struct context_data *);

static long play_every = 1, plays_done;

/* first byte at which the allocation of `s` differs from `snap`, -1 if none */
static long alloc_diff(const struct xmp_sample *s, const unsigned char *snap, size_t n)
{
	size_t i;
	const unsigned char *a = s->data - 4;
	for (i = 0; i < n; i++)
		if (a[i] != snap[i])
			return (long)i;
	return -1;
}

/* Build a one-instrument module around the loaded sample (private headers, the way test-dev/simple_module.c does),
 * play one looped note with each interpolator for a few ticks and check that the sample memory - PCM and guard
 * frames - is what the load left.  Header variants: as loaded; forward loop ending at len; bidirectional inner loop. */
static void play_phase(const struct tcase *c, struct xmp_sample *s)
{
	static const int interps[3] = { XMP_INTERP_NEAREST, XMP_INTERP_LINEAR, XMP_INTERP_SPLINE };
	int fl = frame_len(s->flg), variant, ip, k, frames, nframes;
	size_t n = 4 + (size_t)s->len * fl + 4 * fl;
	unsigned char *snap;
	static unsigned char other[40], other_snap[40];
	xmp_context opaque;
	struct context_data *ctx;
	struct module_data *m;
	struct xmp_module *mod;
	struct xmp_event *e;
	long d;

	if (s->len <= 0 || s->len > 2048 || (s->flg & XMP_SAMPLE_SYNTH))
		return;
	snap = (unsigned char *)malloc(n);
	memcpy(snap, s->data - 4, n);
	frames = 3 + s->len / 128;

	opaque = xmp_create_context();
	ctx = (struct context_data *)opaque;
	m = &ctx->m;
	mod = &m->mod;
	libxmp_load_prologue(ctx);
	mod->len = 1;
	mod->pat = 1;
	mod->ins = 2;
	mod->chn = 1;
	mod->trk = 1;
	mod->smp = 2;
	mod->xxo[0] = 0;
	libxmp_init_pattern(mod);
	libxmp_alloc_pattern_tracks(mod, 0, 64);
	libxmp_init_instrument(m);
	for (k = 0; k < 2; k++) {
		mod->xxi[k].nsm = 1;
		libxmp_alloc_subinstrument(mod, k, 1);
		mod->xxi[k].sub[0].pan = 0x80;
		mod->xxi[k].sub[0].vol = 0x40;
		mod->xxi[k].sub[0].sid = k;
	}
	/* second instrument: a small looped 8-bit sample of our own, the partner of the Protracker sample swaps */
	for (k = 0; k < 32; k++)
		other[4 + k] = (unsigned char)(k * 37 + 11);
	memset(other, other[4], 4);
	memset(other + 36, other[35], 4);
	memcpy(other_snap, other, sizeof(other));
	e = &mod->xxt[mod->xxp[0]->index[0]]->event[0];
	e->note = 49 + (s->len % 36);
	e->ins = 1;
	/* instrument numbers without a note: in Protracker mode the named sample takes over at the loop end of the playing one */
	mod->xxt[mod->xxp[0]->index[0]]->event[1].ins = 2;
	mod->xxt[mod->xxp[0]->index[0]]->event[2].ins = 1;
	mod->xxt[mod->xxp[0]->index[0]]->event[3].ins = 2;

	for (variant = 0; variant < 4; variant++) {
		struct xmp_sample v = *s;
		if (variant == 1) {
			v.flg = (v.flg & ~(XMP_SAMPLE_LOOP_BIDIR | XMP_SAMPLE_LOOP_REVERSE | XMP_SAMPLE_LOOP_FULL)) | XMP_SAMPLE_LOOP;
			v.lps = v.len / 2;
			v.lpe = v.len;	/* loop end == len: the mixer's epilogue lies in the guard frames */
			if (v.lps >= v.lpe)
				continue;
		} else if (variant == 2) {
			if (v.len < 4)
				continue;
			v.flg |= XMP_SAMPLE_LOOP | XMP_SAMPLE_LOOP_BIDIR;
			v.lps = 1;
			v.lpe = v.len - 2;
		} else if (variant == 3) {
			/* Protracker sample swaps between two looped samples */
			if (v.len < 4 || v.len > 1024)
				continue;
			v.flg = (v.flg & ~(XMP_SAMPLE_LOOP_BIDIR | XMP_SAMPLE_LOOP_REVERSE | XMP_SAMPLE_LOOP_FULL)) | XMP_SAMPLE_LOOP;
			v.lps = v.len / 3 + 1;
			v.lpe = v.len - 1;
			m->quirk |= QUIRK_PROTRACK;
			m->read_event_type = READ_EVENT_MOD;
		}
		mod->xxs[0] = v;
		memset(&mod->xxs[1], 0, sizeof(mod->xxs[1]));
		mod->xxs[1].len = 32;
		mod->xxs[1].lps = 8;
		mod->xxs[1].lpe = 24;
		mod->xxs[1].flg = XMP_SAMPLE_LOOP;
		mod->xxs[1].data = other + 4;
		nframes = variant == 3 ? 26 : frames;
		libxmp_load_epilogue(ctx);	/* every exposed header went through it (sustain loop vs m->xtra, loop range) */
		if (variant == 0) {
			libxmp_prepare_scan(ctx);
			libxmp_scan_sequences(ctx);
			ctx->state = XMP_STATE_LOADED;
		}
		for (ip = (variant == 3 ? 1 : 0); ip < 3; ip++) {
			if (xmp_start_player(opaque, 8000, (c->len & 1) ? XMP_FORMAT_MONO : 0) != 0)
				continue;
			xmp_set_player(opaque, XMP_PLAYER_INTERP, interps[ip]);
			d = -1;
			for (k = 0; k < nframes && d < 0; k++) {
				if (xmp_play_frame(opaque) != 0)
					break;
				d = alloc_diff(s, snap, n);
			}
			xmp_end_player(opaque);
			if (d < 0)
				d = alloc_diff(s, snap, n);
			if (d < 0 && memcmp(other, other_snap, sizeof(other)) != 0) {
				printf("O %s playback-modified the partner sample of the swap, header variant %d, interp %d\n", c->id, variant, ip);
				memcpy(other, other_snap, sizeof(other));
				goto done;
			}
			if (d >= 0) {
				printf("O %s playback-modified byte %ld (data[%ld]) of %lu, header variant %d loop=[%d,%d) flg=%d, interp %d\n",
				       c->id, d, d - 4, (unsigned long)n, variant, v.lps, v.lpe, v.flg, ip);
				memcpy(s->data - 4, snap, n);
				goto done;
			}
		}
	}
    done:
	plays_done++;
	mod->xxs[0].data = NULL;	/* the sample memory stays ours */
	mod->xxs[1].data = NULL;
	xmp_release_module(opaque);
	xmp_free_context(opaque);
	free(snap);
}

static void run_case(struct tcase *c)
{
	struct xmp_sample s;
	HIO_HANDLE *f = NULL;
	unsigned char *nbuf = NULL;
	struct module_data *m = NULL;
	struct cbstream st;
	int ret;
	long tell = -1;

	fputs("case ", stdout);
	printf("%s %d %d %d %d %d %d %ld ", c->id, c->flags, c->len, c->lps, c->lpe, c->flg, c->skip, c->pos);
	put_hex(stdout, c->file, c->filelen);
	fputc(' ', stdout);
	put_hex(stdout, c->buf, c->buflen);
	if (c->cb)
		printf(" %ld", c->limit);
	fputc('\n', stdout);
	if (do_flush)
		fflush(stdout);

	memset(&s, 0, sizeof(s));
	s.len = c->len;
	s.lps = c->lps;
	s.lpe = c->lpe;
	s.flg = c->flg;
	s.data = NULL;

	if (c->pos >= 0 && c->cb) {
		struct xmp_callbacks cbs;
		cbs.read_func = cb_read;
		cbs.seek_func = cb_seek;
		cbs.tell_func = cb_tell;
		cbs.close_func = cb_close;
		memset(&st, 0, sizeof(st));
		st.data = c->file;
		st.size = c->filelen;
		st.left = c->filelen;
		f = hio_open_callbacks(&st, cbs);
		if (f == NULL) {
			fprintf(stderr, "cannot open callback handle\n");
			exit(3);
		}
		hio_seek(f, c->pos, SEEK_SET);
		st.left = c->limit;
	} else if (c->pos >= 0) {
		f = hio_open_const_mem(c->file, c->filelen);
		if (f == NULL) {
			fprintf(stderr, "cannot open memory handle (size %ld)\n", c->filelen);
			exit(3);
		}
		hio_seek(f, c->pos, SEEK_SET);
	}
	if (c->buflen >= 0 && c->buf != NULL && (c->flags & SAMPLE_FLAG_NOLOAD)) {
		nbuf = (unsigned char *)malloc(c->buflen ? c->buflen : 1);
		memcpy(nbuf, c->buf, c->buflen);
	}
	if (c->skip & 1) {
		m = &fake_m;
		m->smpctl = (c->skip & 2) ? XMP_SMPCTL_SKIP : 0;
	}

	ret = __real_libxmp_load_sample(m, f, c->flags, &s, nbuf);

	if (f)
		tell = hio_tell(f);
	printf("R %s %d %d %d %d %d %ld ", c->id, ret, s.len, s.lps, s.lpe, s.flg, tell);
	if (ret == 0 && s.data != NULL) {
		int fl = frame_len(s.flg);
		put_hex(stdout, s.data - 4, 4 + (size_t)s.len * fl + 4 * fl);
	} else {
		fputs("NULL", stdout);
	}
	fputc('\n', stdout);
	shape_oracle(c, &s, ret);
	if (ret == 0 && s.data != NULL && play_every > 0 && ncases_run % play_every == 0)
		play_phase(c, &s);
	ncases_run++;

	libxmp_free_sample(&s);
	if (f)
		hio_close(f);
	free(nbuf);
}


/* ---------------------------------------------------------------- corpus spy */

static int frame_len(int flg);

/* ---------------------------------------------------------------- cuts: where each sample's stored bytes are */

struct smprec {
	int valid, flags, len_decl, flg;
	long pos, consumed;
};
static struct smprec cut_rec[MAX_SAMPLES], cut_rec2[MAX_SAMPLES];	/* whole file ; the cut file being loaded */
static const unsigned char *cut_base;
static int cut_recording;

int __wrap_libxmp_load_sample(struct module_data *m, HIO_HANDLE *f, int flags, struct xmp_sample *xxs, const void *buffer)
{
	int len = xxs->len, lps = xxs->lps, lpe = xxs->lpe, flg = xxs->flg, ret, fl, record = spy_on;
	long pos = -1, remaining = 0, need = 0, take = 0, buflen = 0, tell = -1;
	unsigned char *mem = NULL;
	char id[48];

	if (cut_recording && m != NULL && f != NULL && m->mod.xxs != NULL && xxs >= m->mod.xxs && xxs < m->mod.xxs + m->mod.smp
	    && xxs - m->mod.xxs < MAX_SAMPLES
	    && (cut_recording == 2 || (HIO_HANDLE_TYPE(f) == HIO_HANDLE_TYPE_MEMORY && hio_get_underlying_memory(f) == cut_base))) {
		struct smprec *r = (cut_recording == 2 ? cut_rec2 : cut_rec) + (xxs - m->mod.xxs);
		r->valid = !r->valid && xxs->data == NULL;	/* loaded exactly once, from the module's own stream */
		r->flags = flags;
		r->len_decl = xxs->len;
		r->flg = xxs->flg;
		r->pos = hio_tell(f);
		ret = __real_libxmp_load_sample(m, f, flags, xxs, buffer);
		r->consumed = hio_tell(f) - r->pos;
		if (ret != 0 || r->pos < 0 || r->consumed < 0)
			r->valid = 0;
		return ret;
	}
	if (!spy_on)
		return __real_libxmp_load_sample(m, f, flags, xxs, buffer);
	spy_seen++;
	fl = frame_len(flg);
	if (xxs->data != NULL) {
		record = 0;
		spy_preset++;
	}
	if (len > 0 && len <= MAX_SAMPLE_SIZE)
		need = (flags & SAMPLE_FLAG_ADPCM) ? 16 + (((long)len * fl + 1) >> 1) : (long)len * fl;
	if (f != NULL) {
		if (HIO_HANDLE_TYPE(f) == HIO_HANDLE_TYPE_CBFILE) {
			record = 0;
			spy_nonmem++;
		} else {
			if (HIO_HANDLE_TYPE(f) == HIO_HANDLE_TYPE_FILE)
				spy_filehandle++;
			pos = hio_tell(f);
			remaining = hio_size(f) - pos;
			if (remaining < 0 || pos < 0)
				record = 0;
			/* only the first need+8 bytes can matter (C20_truncation_prefix); a longer rest is cut */
			take = remaining > need + 8 ? need + 8 : remaining;
			if (len > MAX_SAMPLE_SIZE || (m && (m->smpctl & XMP_SMPCTL_SKIP))) {
				record = 0;	/* the seek distance would depend on the cut */
				spy_skippath++;
			}
		}
	}
	if ((flags & SAMPLE_FLAG_NOLOAD) && len > 0 && len <= MAX_SAMPLE_SIZE && !(flags & SAMPLE_FLAG_ADLIB))
		buflen = buffer ? (long)len * fl : 0;
	if (take + buflen > spy_max_bytes) {
		record = 0;
		spy_toolarge++;
	}
	if (record) {
		snprintf(id, sizeof(id), "%s_%ld", spy_prefix, spy_seen);
		printf("case %s %d %d %d %d %d %d %d ", id, flags, len, lps, lpe, flg,
		       m ? ((m->smpctl & XMP_SMPCTL_SKIP) ? 3 : 1) : 0, f ? 1 : -1);
		if (f) {
			fputs("00", stdout);
			if (take > 0) {
				/* read ahead through the handle itself (memory or FILE), then seek back */
				mem = (unsigned char *)malloc(take);
				if (hio_read(mem, 1, take, f) != (size_t)take) {
					fprintf(stderr, "spy: short read-ahead\n");
					exit(3);
				}
				hio_seek(f, pos, SEEK_SET);
				put_hex(stdout, mem, take);
				free(mem);
			}
		} else {
			fputc('-', stdout);
		}
		fputc(' ', stdout);
		put_hex(stdout, buffer, buflen);
		fputc('\n', stdout);
		if (do_flush)
			fflush(stdout);
	}
	ret = __real_libxmp_load_sample(m, f, flags, xxs, buffer);
	if (record) {
		if (f)
			tell = hio_tell(f) - pos + 1;
		printf("R %s %d %d %d %d %d %ld ", id, ret, xxs->len, xxs->lps, xxs->lpe, xxs->flg, tell);
		if (ret == 0 && xxs->data != NULL) {
			int fl2 = frame_len(xxs->flg);
			put_hex(stdout, xxs->data - 4, 4 + (size_t)xxs->len * fl2 + 4 * fl2);
		} else {
			fputs("NULL", stdout);
		}
		fputc('\n', stdout);
		spy_recorded++;
		ncases_run++;
	} else {
		spy_unrecorded++;
	}
	return ret;
}

/* ---------------------------------------------------------------- epilogue spy, final headers, corpus playback */

void __real_libxmp_load_epilogue(struct context_data *);
static long epi_recorded, final_checked, corpus_played;

void __wrap_libxmp_load_epilogue(struct context_data *ctx)
{
	struct module_data *m = &ctx->m;
	struct xmp_module *mod = &m->mod;
	struct pre {
		int has, len, lps, lpe, flg, sus, sue;
	} *pre = NULL;
	int i, n = 0;

	if (spy_on && mod->xxs != NULL && m->xtra != NULL && mod->smp > 0) {
		n = mod->smp > MAX_SAMPLES ? MAX_SAMPLES : mod->smp;
		pre = (struct pre *)calloc(n, sizeof(*pre));
		for (i = 0; i < n; i++) {
			pre[i].has = mod->xxs[i].data != NULL;
			pre[i].len = mod->xxs[i].len;
			pre[i].lps = mod->xxs[i].lps;
			pre[i].lpe = mod->xxs[i].lpe;
			pre[i].flg = mod->xxs[i].flg;
			pre[i].sus = m->xtra[i].sus;
			pre[i].sue = m->xtra[i].sue;
		}
	}
	__real_libxmp_load_epilogue(ctx);
	for (i = 0; i < n; i++) {
		printf("epi %s_e%d %d %d %d %d %d %d %d\n", spy_prefix, i, pre[i].has, pre[i].len, pre[i].lps, pre[i].lpe, pre[i].flg,
		       pre[i].sus, pre[i].sue);
		printf("ER %s_e%d %d %d %d\n", spy_prefix, i, mod->xxs[i].lps, mod->xxs[i].lpe, mod->xxs[i].flg);
		epi_recorded++;
	}
	free(pre);
}

/* the sample as finally exposed by a successful load: loop points inside the data, LOOP => non-empty loop */
static void final_headers(struct context_data *ctx)
{
	struct xmp_module *mod = &ctx->m.mod;
	int i;
	for (i = 0; i < mod->smp; i++) {
		struct xmp_sample *x = &mod->xxs[i];
		if (x->data == NULL)
			continue;
		final_checked++;
		if (!(0 <= x->lps && x->lps <= x->lpe && x->lpe <= x->len) || ((x->flg & XMP_SAMPLE_LOOP) && !(x->lps < x->lpe)))
			printf("O %s_e%d final-loop-range len=%d lps=%d lpe=%d flg=%d\n", spy_prefix, i, x->len, x->lps, x->lpe, x->flg);
	}
}

/* play the loaded module for a few frames with every interpolator: the sample memory must stay what the load exposed */
static void corpus_play(xmp_context opaque)
{
	static const int interps[3] = { XMP_INTERP_NEAREST, XMP_INTERP_LINEAR, XMP_INTERP_SPLINE };
	struct context_data *ctx = (struct context_data *)opaque;
	struct xmp_module *mod = &ctx->m.mod;
	unsigned char **snap;
	size_t *sz, total = 0;
	int i, ip, k, bad = -1;

	if (mod->smp <= 0)
		return;
	snap = (unsigned char **)calloc(mod->smp, sizeof(*snap));
	sz = (size_t *)calloc(mod->smp, sizeof(*sz));
	for (i = 0; i < mod->smp; i++) {
		struct xmp_sample *x = &mod->xxs[i];
		int fl = frame_len(x->flg);
		if (x->data == NULL || x->len <= 0 || (x->flg & XMP_SAMPLE_SYNTH))
			continue;
		sz[i] = 4 + (size_t)x->len * fl + 4 * fl;
		total += sz[i];
		if (total > (8u << 20)) {
			sz[i] = 0;
			continue;
		}
		snap[i] = (unsigned char *)malloc(sz[i]);
		memcpy(snap[i], x->data - 4, sz[i]);
	}
	for (ip = 0; ip < 3 && bad < 0; ip++) {
		if (xmp_start_player(opaque, 8000, 0) != 0)
			break;
		xmp_set_player(opaque, XMP_PLAYER_INTERP, interps[ip]);
		for (k = 0; k < 12; k++)
			if (xmp_play_frame(opaque) != 0)
				break;
		xmp_end_player(opaque);
		for (i = 0; i < mod->smp && bad < 0; i++) {
			if (snap[i] && mod->xxs[i].data && alloc_diff(&mod->xxs[i], snap[i], sz[i]) >= 0) {
				bad = i;
				printf("O %s_e%d playback-modified byte %ld of %lu after 12 frames, loop=[%d,%d) flg=%d len=%d, interp %d\n", spy_prefix, i,
				       alloc_diff(&mod->xxs[i], snap[i], sz[i]), (unsigned long)sz[i], mod->xxs[i].lps, mod->xxs[i].lpe,
				       mod->xxs[i].flg, mod->xxs[i].len, ip);
			}
		}
	}
	corpus_played++;
	for (i = 0; i < mod->smp; i++)
		free(snap[i]);
	free(snap);
	free(sz);
}

static int corpus(long maxbytes, int nfiles, char **files)
{
	int i;
	spy_max_bytes = maxbytes;
	for (i = 0; i < nfiles; i++) {
		long size = 0;
		unsigned char *data = read_file(files[i], &size);
		xmp_context ctx;
		int r;
		if (!data || size <= 0) {
			free(data);
			continue;
		}
		snprintf(spy_prefix, sizeof(spy_prefix), "c%08lx", (unsigned long)(fnv1a(FNV_INIT, files[i], strlen(files[i])) & 0xffffffff));
		ctx = xmp_create_context();
		spy_on = 1;
		spy_seen = 0;
		r = xmp_load_module_from_memory(ctx, data, size);
		spy_on = 0;
		if (r == 0) {
			final_headers((struct context_data *)ctx);
			corpus_play(ctx);
			xmp_release_module(ctx);
		}
		xmp_free_context(ctx);
		free(data);
		printf("file %s ret=%d calls=%ld\n", files[i], r, spy_seen);
	}
	fprintf(stderr, "recorded %ld unrecorded %ld\n", spy_recorded, spy_unrecorded);
	printf("spy recorded=%ld unrecorded=%ld callback_handle=%ld toolarge=%ld preset=%ld skippath=%ld file_handle=%ld "
	       "epilogue_headers=%ld final_headers=%ld modules_played=%ld\n", spy_recorded,
	       spy_unrecorded, spy_nonmem, spy_toolarge, spy_preset, spy_skippath, spy_filehandle, epi_recorded, final_checked, corpus_played);
	return 0;
}

/* ---------------------------------------------------------------- cuts mode */

struct fullsmp {
	int has, len, flg;
	unsigned char *pcm;
};

static int cmp_long(const void *a, const void *b)
{
	long x = *(const long *)a, y = *(const long *)b;
	return x < y ? -1 : x > y;
}

static int load_entry(xmp_context ctx, int entry, const unsigned char *data, long n)
{
	if (entry == 0) {
		return xmp_load_module_from_memory(ctx, data, n);
	} else if (entry == 1) {
		FILE *fp = tmpfile();
		int r;
		if (!fp)
			return -99;
		if (fwrite(data, 1, n, fp) != (size_t)n) {
			fclose(fp);
			return -99;
		}
		rewind(fp);
		r = xmp_load_module_from_file(ctx, fp, n);
		fclose(fp);
		return r;
	} else {
		static struct cbstream st;
		struct xmp_callbacks cbs;
		cbs.read_func = cb_read;
		cbs.seek_func = cb_seek;
		cbs.tell_func = cb_tell;
		cbs.close_func = cb_close;
		memset(&st, 0, sizeof(st));
		st.data = data;
		st.size = n;
		st.left = LONG_MAX / 2;	/* a budget over all reads: unlimited here */
		return xmp_load_module_from_callbacks(ctx, &st, cbs);
	}
}

static long cut_loads, cut_rejected, cut_compared, cut_rulec, cut_truncated_seen, cut_empty_seen, cut_modules, cut_other_layout;

static void cuts_one(const char *path, int maxcuts)
{
	static const char *ename[3] = { "memory", "file", "callbacks" };
	long size = 0, *cuts, total = 0;
	unsigned char *data = read_file(path, &size);
	xmp_context ctx;
	struct context_data *c;
	struct fullsmp *full;
	int nsmp, i, j, k, ncuts = 0, entry, r, fails = 0;
	int w_pat, w_trk, w_chn, w_ins, w_len;
	char prefix[24], w_type[XMP_NAME_SIZE];

	if (!data || size <= 8 || size > 600000) {
		free(data);
		return;
	}
	snprintf(prefix, sizeof(prefix), "c%08lx", (unsigned long)(fnv1a(FNV_INIT, path, strlen(path)) & 0xffffffff));
	memset(cut_rec, 0, sizeof(cut_rec));
	ctx = xmp_create_context();
	c = (struct context_data *)ctx;
	cut_base = data;
	cut_recording = 1;
	r = xmp_load_module_from_memory(ctx, data, size);
	cut_recording = 0;
	if (r != 0 || c->m.mod.smp <= 0 || c->m.mod.smp > 256) {
		if (r == 0)
			xmp_release_module(ctx);
		xmp_free_context(ctx);
		free(data);
		return;
	}
	nsmp = c->m.mod.smp;
	w_pat = c->m.mod.pat;
	w_trk = c->m.mod.trk;
	w_chn = c->m.mod.chn;
	w_ins = c->m.mod.ins;
	w_len = c->m.mod.len;
	memcpy(w_type, c->m.mod.type, sizeof(w_type));
	full = (struct fullsmp *)calloc(nsmp, sizeof(*full));
	cuts = (long *)malloc(sizeof(long) * (nsmp * 11 + 1));
	for (i = 0; i < nsmp; i++) {
		struct xmp_sample *x = &c->m.mod.xxs[i];
		struct smprec *rc = &cut_rec[i];
		int fl = frame_len(x->flg);
		full[i].has = x->data != NULL && x->len > 0;
		full[i].len = x->len;
		full[i].flg = x->flg;
		if (full[i].has && !(x->flg & XMP_SAMPLE_SYNTH) && total + (long)x->len * fl < (4L << 20)) {
			full[i].pcm = (unsigned char *)malloc((size_t)x->len * fl);
			memcpy(full[i].pcm, x->data, (size_t)x->len * fl);
			total += (long)x->len * fl;
		} else {
			rc->valid = 0;
		}
		if (rc->valid && rc->len_decl > 0 && !(rc->flags & SAMPLE_FLAG_NOLOAD)) {
			long e = rc->pos + rc->consumed;
			for (k = -1; k <= 6; k++)
				cuts[ncuts++] = rc->pos + k;
			for (k = 0; k <= 2; k++)
				cuts[ncuts++] = e - k;
		}
	}
	xmp_release_module(ctx);
	xmp_free_context(ctx);
	qsort(cuts, ncuts, sizeof(long), cmp_long);
	for (i = 0, j = 0; i < ncuts; i++)
		if (cuts[i] > 0 && cuts[i] < size && (j == 0 || cuts[j - 1] != cuts[i]))
			cuts[j++] = cuts[i];
	ncuts = j;
	cut_modules++;

	for (i = 0; i < ncuts && fails < 4; i++) {
		long cut;
		/* at most maxcuts cut positions per module, spread over all samples */
		if (ncuts > maxcuts && (i * (long)maxcuts / ncuts) == ((i + 1) * (long)maxcuts / ncuts))
			continue;
		cut = cuts[i];
		for (entry = 0; entry < 3; entry++) {
			ctx = xmp_create_context();
			c = (struct context_data *)ctx;
			memset(cut_rec2, 0, sizeof(cut_rec2));
			cut_recording = 2;
			r = load_entry(ctx, entry, data, cut);
			cut_recording = 0;
			cut_loads++;
			if (r != 0) {
				cut_rejected++;
				xmp_free_context(ctx);
				continue;
			}
			/* the rules below presuppose that the cut file is read as the same module: several loaders size their
			 * tables from the file length (or another loader claims the shorter file) */
			if (c->m.mod.smp != nsmp || c->m.mod.pat != w_pat || c->m.mod.trk != w_trk || c->m.mod.chn != w_chn
			    || c->m.mod.ins != w_ins || c->m.mod.len != w_len || memcmp(c->m.mod.type, w_type, sizeof(w_type)) != 0) {
				cut_other_layout++;
				xmp_release_module(ctx);
				xmp_free_context(ctx);
				continue;
			}
			for (j = 0; j < nsmp && j < c->m.mod.smp; j++) {
				struct xmp_sample *x = &c->m.mod.xxs[j];
				struct smprec *rc = &cut_rec[j];
				int fl = frame_len(full[j].flg), haspcm = x->data != NULL && x->len > 0, planar;
				long avail, limit, expect;
				if (!rc->valid || frame_len(x->flg) != fl || (x->flg & XMP_SAMPLE_SYNTH))
					continue;
				if (cut_rec2[j].valid && (cut_rec2[j].len_decl != rc->len_decl || cut_rec2[j].flags != rc->flags))
					continue;	/* declared differently in the cut file */
				cut_compared++;
				avail = cut > rc->pos ? cut - rc->pos : 0;
				limit = (rc->flags & SAMPLE_FLAG_ADPCM) ? (avail > 16 ? 2 * (avail - 16) : 0) : avail;
				planar = (full[j].flg & XMP_SAMPLE_STEREO) && !(rc->flags & SAMPLE_FLAG_INTERLEAVED);
				if (avail < rc->consumed)
					cut_truncated_seen++;
				if (avail == 0)
					cut_empty_seen++;
				if (rc->pos > cut) {
					/* nothing of this sample is stored in the cut file */
					if (haspcm) {
						/* (before cd1ebb4 a truncated sample left its last odd bytes / incomplete ADPCM table unread and a
						 * back-to-back loader decoded them as this sample) */
						printf("O %s_k%ld_e%d cut-exposes-absent-sample (%s): file cut at %ld, sample %d is stored from %ld on, yet %d frames of %d "
						       "bytes are exposed (read from %ld)\n", prefix, cut, j, ename[entry], cut, j, rc->pos, x->len, fl,
						       cut_rec2[j].valid ? cut_rec2[j].pos : -1L);
						fails++;
					}
					continue;
				}
				if (cut_rec2[j].valid && cut_rec2[j].pos != rc->pos) {
					printf("O %s_k%ld_e%d cut-sample-read-from-wrong-offset (%s): file cut at %ld, sample %d is stored at %ld but was read "
					       "from %ld (%d frames exposed, %ld of its bytes present)\n", prefix, cut, j, ename[entry], cut, j, rc->pos,
					       cut_rec2[j].pos, haspcm ? x->len : 0, avail);
					fails++;
					continue;
				}
				if (haspcm && !(rc->flags & SAMPLE_FLAG_NOLOAD) && (long)x->len * fl > limit) {
					printf("O %s_k%ld_e%d cut-exposes-more-than-present (%s): file cut at %ld, sample %d stored at %ld: %ld bytes present, "
					       "%d frames of %d bytes exposed (whole file: %d frames)\n", prefix, cut, j, ename[entry], cut, j, rc->pos,
					       avail, x->len, fl, full[j].len);
					fails++;
					continue;
				}
				if (haspcm && x->len > full[j].len) {
					printf("O %s_k%ld_e%d cut-longer-than-whole (%s): file cut at %ld, sample %d exposes %d frames, the whole file %d\n",
					       prefix, cut, j, ename[entry], cut, j, x->len, full[j].len);
					fails++;
					continue;
				}
				if (haspcm && full[j].pcm && !(planar && x->len < full[j].len)
				    && memcmp(x->data, full[j].pcm, (size_t)x->len * fl) != 0) {
					long d = 0;
					while (x->data[d] == full[j].pcm[d])
						d++;
					printf("O %s_k%ld_e%d cut-foreign-bytes (%s): file cut at %ld, sample %d (stored at %ld, %d frames exposed) differs "
					       "from the decoded stored bytes at byte %ld: %02x, stored %02x\n", prefix, cut, j, ename[entry], cut, j,
					       rc->pos, x->len, d, x->data[d], full[j].pcm[d]);
					fails++;
					continue;
				}
				expect = limit / fl < full[j].len ? limit / fl : full[j].len;
				if ((haspcm ? x->len : 0) != expect && cut_rec2[j].valid && !(rc->flags & SAMPLE_FLAG_NOLOAD)) {
					cut_rulec++;
					printf("O %s_k%ld_e%d cut-present-frames-not-exposed (%s): file cut at %ld, sample %d stored at %ld: %ld bytes present = %ld "
					       "whole frames (whole file: %d), %d exposed\n", prefix, cut, j, ename[entry], cut, j, rc->pos, avail, expect,
					       full[j].len, haspcm ? x->len : 0);
					fails++;
				}
			}
			xmp_release_module(ctx);
			xmp_free_context(ctx);
		}
	}
	for (i = 0; i < nsmp; i++)
		free(full[i].pcm);
	free(full);
	free(cuts);
	free(data);
}

static int cuts_mode(int maxcuts, int nfiles, char **files)
{
	int i;
	for (i = 0; i < nfiles; i++)
		cuts_one(files[i], maxcuts);
	printf("cutstat modules=%ld loads=%ld rejected=%ld compared=%ld truncated_samples=%ld samples_at_or_after_eof=%ld not_all_present_exposed=%ld "
	       "read_as_another_layout=%ld\n",
	       cut_modules, cut_loads, cut_rejected, cut_compared, cut_truncated_seen, cut_empty_seen, cut_rulec, cut_other_layout);
	return 0;
}

/* ---------------------------------------------------------------- generators */

static void fill_random(unsigned char *p, long n)
{
	long i;
	int mode = vrng_below(8);
	for (i = 0; i < n; i++) {
		switch (mode) {
		case 0:
			p[i] = (unsigned char)(i * 7 + 1);
			break;
		case 1:
			p[i] = vrng_chance(50) ? 0xff : 0x7f;
			break;
		default:
			p[i] = (unsigned char)vrng_next();
		}
	}
}

static int need_bytes(int flags, int flg, int len)
{
	long bytelen = (long)len * frame_len(flg);
	if (flags & SAMPLE_FLAG_ADPCM)
		return (int)(16 + ((bytelen + 1) >> 1));
	return (int)bytelen;
}

static int rnd_loop_point(int len)
{
	if (len > 1000000)
		len = 1000000;
	switch (vrng_below(12)) {
	case 0:
		return INT_MIN;
	case 1:
		return INT_MAX;
	case 2:
		return -1;
	case 3:
		return 0;
	case 4:
		return len;
	case 5:
		return len + 1;
	case 6:
		return len - 1;
	default:
		return vrng_range(-3, len + 3);
	}
}

static void random_case(struct tcase *c, long idx, int big)
{
	static const int fbits[12] = { SAMPLE_FLAG_DIFF, SAMPLE_FLAG_UNS, SAMPLE_FLAG_8BDIFF, SAMPLE_FLAG_7BIT,
		SAMPLE_FLAG_NOLOAD, SAMPLE_FLAG_BIGEND, SAMPLE_FLAG_VIDC, SAMPLE_FLAG_INTERLEAVED, SAMPLE_FLAG_FULLREP,
		SAMPLE_FLAG_ADLIB, SAMPLE_FLAG_HSC, SAMPLE_FLAG_ADPCM };
	static const int fprob[12] = { 30, 30, 25, 20, 18, 35, 15, 35, 30, 2, 8, 15 };
	int i, need, avail, prefix, fl;

	snprintf(c->id, sizeof(c->id), "%s%ld", big ? "b" : "r", idx);
	c->flags = 0;
	if (!vrng_chance(8)) {
		for (i = 0; i < 12; i++)
			if (vrng_chance(fprob[i]))
				c->flags |= fbits[i];
	}
	c->flg = 0;
	if (vrng_chance(50))
		c->flg |= XMP_SAMPLE_16BIT;
	if (vrng_chance(45))
		c->flg |= XMP_SAMPLE_STEREO;
	if (vrng_chance(50))
		c->flg |= XMP_SAMPLE_LOOP;
	if (vrng_chance(30))
		c->flg |= XMP_SAMPLE_LOOP_BIDIR;
	if (vrng_chance(10))
		c->flg |= XMP_SAMPLE_LOOP_REVERSE;
	if (vrng_chance(10))
		c->flg |= XMP_SAMPLE_LOOP_FULL;
	if (vrng_chance(25))
		c->flg |= XMP_SAMPLE_SLOOP;
	if (vrng_chance(25))
		c->flg |= XMP_SAMPLE_SLOOP_BIDIR;
	if (vrng_chance(3))
		c->flg |= XMP_SAMPLE_SYNTH;
	if (big) {
		c->len = vrng_chance(50) ? vrng_range(65, 3000) : vrng_range(3000, 70000);
	} else {
		switch (vrng_below(16)) {
		case 0:
			c->len = vrng_range(-3, 0);
			break;
		case 1:
			c->len = vrng_chance(50) ? MAX_SAMPLE_SIZE + 1 + (int)vrng_below(5) : INT_MAX;
			break;
		case 2:
		case 3:
			c->len = vrng_range(1, 4);
			break;
		default:
			c->len = vrng_range(1, 64);
		}
	}
	c->lps = rnd_loop_point(c->len);
	c->lpe = rnd_loop_point(c->len);
	if (vrng_chance(30)) {		/* a well-formed loop */
		c->lps = vrng_range(0, c->len > 0 && c->len < 100000 ? c->len : 1);
		c->lpe = c->lps + vrng_range(0, 8);
	}
	c->skip = vrng_chance(20) ? 1 : 0;
	if (vrng_chance(4))
		c->skip = 3;
	fl = frame_len(c->flg);
	c->pos = 0;
	c->file = NULL;
	c->filelen = 0;
	c->buf = NULL;
	c->buflen = 0;

	if (c->len > MAX_SAMPLE_SIZE) {
		/* skip path: a small file, the seek is clamped */
		prefix = vrng_range(1, 4);
		avail = vrng_range(0, 40);
		c->filelen = prefix + avail;
		c->file = (unsigned char *)malloc(c->filelen);
		fill_random(c->file, c->filelen);
		c->pos = prefix;
		return;
	}
	if ((c->flags & SAMPLE_FLAG_NOLOAD) && c->len > 0) {
		c->buflen = (long)c->len * fl;
		c->buf = (unsigned char *)malloc(c->buflen);
		fill_random(c->buf, c->buflen);
	}
	need = c->len > 0 ? need_bytes(c->flags, c->flg, c->len) : 0;
	switch (vrng_below(10)) {
	case 0:
	case 1:
	case 2:
		avail = need;
		break;
	case 3:
		avail = need + vrng_range(1, 9);
		break;
	default:
		avail = vrng_range(0, need + 3);
	}
	prefix = vrng_range(avail == 0 ? 1 : 0, 5);
	c->filelen = prefix + avail;
	c->file = (unsigned char *)malloc(c->filelen);
	fill_random(c->file, c->filelen);
	c->pos = prefix;
	/* NULL handle: only where the C does not dereference it */
	if (vrng_chance(3) && ((c->flags & SAMPLE_FLAG_NOLOAD) || !(c->skip & 2)))
		c->pos = -1;
}

static void free_case(struct tcase *c)
{
	free(c->file);
	free(c->buf);
	c->file = c->buf = NULL;
}

/* callback handle, random short read */
static void short_case(struct tcase *c, long idx)
{
	int need, tries = 0;
	long avail;

	do {
		if (tries++)
			free_case(c);
		memset(c, 0, sizeof(*c));
		random_case(c, idx, 0);
	} while (c->pos < 0 || c->len > MAX_SAMPLE_SIZE);
	snprintf(c->id, sizeof(c->id), "s%ld", idx);
	if (vrng_chance(60)) {
		/* plain stream samples are where a short read is survivable: bias towards them */
		c->flags &= ~(SAMPLE_FLAG_NOLOAD | SAMPLE_FLAG_ADLIB);
		if (vrng_chance(80))
			c->flags &= ~SAMPLE_FLAG_ADPCM;
		if (c->len <= 0)
			c->len = vrng_range(1, 40);
		c->skip &= 1;
	}
	need = c->len > 0 ? need_bytes(c->flags, c->flg, c->len) : 0;
	avail = c->filelen - c->pos;
	if (vrng_chance(50) && avail < need && !(c->flags & SAMPLE_FLAG_NOLOAD)) {
		/* make the stream complete so that only the read, not the size check, cuts the sample */
		long prefix = c->pos;
		free(c->file);
		c->filelen = prefix + need + vrng_range(0, 3);
		c->file = (unsigned char *)malloc(c->filelen);
		fill_random(c->file, c->filelen);
		avail = c->filelen - prefix;
	}
	c->cb = 1;
	switch (vrng_below(10)) {
	case 0:
		c->limit = 0;	/* the read function fails outright */
		break;
	case 1:
		c->limit = avail + vrng_range(0, 4);	/* delivers everything */
		break;
	case 2:
		c->limit = need > 0 ? need - 1 : 0;
		break;
	case 3:
		c->limit = vrng_range(0, 17);
		break;
	default:
		c->limit = vrng_range(0, need + 1);
	}
}

static void exhaustive_short(long shard, long nshards)
{
	static const int fsets[8] = { 0, SAMPLE_FLAG_DIFF, SAMPLE_FLAG_UNS | SAMPLE_FLAG_BIGEND, SAMPLE_FLAG_INTERLEAVED,
		SAMPLE_FLAG_8BDIFF | SAMPLE_FLAG_7BIT, SAMPLE_FLAG_VIDC | SAMPLE_FLAG_FULLREP, SAMPLE_FLAG_ADPCM,
		SAMPLE_FLAG_ADPCM | SAMPLE_FLAG_INTERLEAVED | SAMPLE_FLAG_UNS };
	long counter = 0;
	int fi, w, len, a, limit;
	struct tcase c;
	unsigned char file[96];

	for (fi = 0; fi < 8; fi++)
		for (w = 0; w < 4; w++)
			for (len = 1; len <= 6; len++) {
				int wf = ((w & 1) ? XMP_SAMPLE_16BIT : 0) | ((w & 2) ? XMP_SAMPLE_STEREO : 0);
				int need = need_bytes(fsets[fi], wf, len);
				for (a = 0; a < 3; a++) {
					int avail = a == 0 ? need : (a == 1 ? need + 3 : need - 1 - (len > 2 ? frame_len(wf) : 0));
					if (avail < 1)
						continue;
					for (limit = 0; limit <= need + 1; limit++) {
						counter++;
						if (counter % nshards != shard)
							continue;
						memset(&c, 0, sizeof(c));
						vrng_seed((uint64_t)counter * 2654435761u + 777);
						snprintf(c.id, sizeof(c.id), "x%ld", counter);
						c.flags = fsets[fi];
						c.len = len;
						c.lps = (int)(counter % 3);
						c.lpe = len - (int)(counter % 2);
						c.flg = wf | ((counter & 4) ? XMP_SAMPLE_LOOP : 0);
						c.pos = 1 + (counter & 1);
						c.filelen = c.pos + avail;
						fill_random(file, c.filelen);
						c.file = file;
						c.cb = 1;
						c.limit = limit;
						run_case(&c);
					}
				}
			}
}

/* exhaustive small space */
static const int LOOPFLG[6] = { 0, XMP_SAMPLE_LOOP, XMP_SAMPLE_LOOP | XMP_SAMPLE_LOOP_BIDIR, XMP_SAMPLE_LOOP_BIDIR,
	XMP_SAMPLE_SLOOP_BIDIR, XMP_SAMPLE_LOOP | XMP_SAMPLE_SLOOP | XMP_SAMPLE_SLOOP_BIDIR | XMP_SAMPLE_LOOP_FULL };
#define GRID (6 * 7 * 6)

static void grid_loop(int g, int len, int *lps, int *lpe, int *lf)
{
	int a = g % 6, b = (g / 6) % 7, c = g / 42;
	static const int off[6] = { -1, 0, 1, -1, 0, 1 };
	*lps = (a < 3 ? 0 : len) + off[a];
	*lpe = b == 6 ? 2 : (b < 3 ? 0 : len) + off[b];
	*lf = LOOPFLG[c];
}

static void exhaustive(long shard, long nshards, int points)
{
	static const int ebits[10] = { SAMPLE_FLAG_DIFF, SAMPLE_FLAG_UNS, SAMPLE_FLAG_8BDIFF, SAMPLE_FLAG_7BIT,
		SAMPLE_FLAG_NOLOAD, SAMPLE_FLAG_BIGEND, SAMPLE_FLAG_VIDC, SAMPLE_FLAG_INTERLEAVED, SAMPLE_FLAG_FULLREP,
		SAMPLE_FLAG_ADPCM };
	long counter = 0, rot = 0;
	int fm, w, len, avail, k, b, part;
	struct tcase c;
	unsigned char file[160], buf[64];

	memset(&c, 0, sizeof(c));
	for (part = 0; part < 2; part++) {
		/* part 0: every flag combination, rotating through the loop grid (`points` per combination);
		 * part 1: the full loop grid on a reduced flag set */
		int nfm = part == 0 ? 1024 : 4;
		for (fm = 0; fm < nfm; fm++) {
			int flags = 0;
			if (part == 0) {
				for (b = 0; b < 10; b++)
					if (fm & (1 << b))
						flags |= ebits[b];
			} else {
				flags = ((fm & 1) ? SAMPLE_FLAG_FULLREP : 0) | ((fm & 2) ? SAMPLE_FLAG_NOLOAD : 0);
			}
			for (w = 0; w < 4; w++) {
				int wf = ((w & 1) ? XMP_SAMPLE_16BIT : 0) | ((w & 2) ? XMP_SAMPLE_STEREO : 0);
				int fl = frame_len(wf);
				for (len = 0; len <= 9; len++) {
					int need = len > 0 ? need_bytes(flags, wf, len) : 0;
					int amax = (flags & SAMPLE_FLAG_NOLOAD) ? 0 : need + 3;
					for (avail = 0; avail <= amax; avail++) {
						int nk = part == 0 ? points : GRID;
						if (part == 1 && !(avail == 0 || avail == 1 || avail == need / 2 || avail == need - 1
								   || avail == need || avail == need + 1))
							continue;
						if (flags & SAMPLE_FLAG_NOLOAD)
							avail = need;	/* the handle is not read */
						for (k = 0; k < nk; k++) {
							int g = part == 0 ? (int)(rot++ % GRID) : k;
							int lf;
							counter++;
							if (counter % nshards != shard)
								continue;
							vrng_seed((uint64_t)counter * 2654435761u + 12345);
							grid_loop(g, len, &c.lps, &c.lpe, &lf);
							snprintf(c.id, sizeof(c.id), "e%ld", counter);
							c.flags = flags;
							if (part == 0 && (counter & 8))
								c.flags |= SAMPLE_FLAG_HSC;
							if (part == 0 && (counter % 61) == 0)
								c.flags |= SAMPLE_FLAG_ADLIB;
							c.len = len;
							c.flg = wf | lf;
							c.skip = (counter % 97) == 0 ? 3 : ((counter % 5) == 0 ? 1 : 0);
							c.pos = 1 + (counter & 1);
							c.filelen = c.pos + avail;
							fill_random(file, c.filelen);
							c.file = file;
							c.buf = NULL;
							c.buflen = 0;
							if ((flags & SAMPLE_FLAG_NOLOAD) && len > 0) {
								c.buflen = len * fl;
								fill_random(buf, c.buflen);
								c.buf = buf;
							}
							run_case(&c);
						}
						if (flags & SAMPLE_FLAG_NOLOAD)
							break;
					}
				}
			}
		}
	}
}

static int replay(const char *path)
{
	FILE *fp = fopen(path, "r");
	size_t cap = 1 << 22;
	char *line = (char *)malloc(cap), *fh, *bh;
	struct tcase c;
	int nf;
	if (!fp) {
		perror(path);
		return 2;
	}
	fh = (char *)malloc(cap);
	bh = (char *)malloc(cap);
	while (fgets(line, cap, fp)) {
		if (strncmp(line, "case ", 5) != 0)
			continue;
		memset(&c, 0, sizeof(c));
		nf = sscanf(line, "case %39s %d %d %d %d %d %d %ld %s %s %ld", c.id, &c.flags, &c.len, &c.lps, &c.lpe, &c.flg,
			    &c.skip, &c.pos, fh, bh, &c.limit);
		if (nf != 10 && nf != 11) {
			fprintf(stderr, "bad case line\n");
			return 2;
		}
		c.cb = nf == 11 && c.limit >= 0;
		c.filelen = get_hex(fh, &c.file);
		c.buflen = get_hex(bh, &c.buf);
		if (c.filelen < 0 || c.buflen < 0) {
			fprintf(stderr, "bad hex\n");
			return 2;
		}
		run_case(&c);
		free_case(&c);
	}
	fclose(fp);
	free(line);
	free(fh);
	free(bh);
	return 0;
}

int main(int argc, char **argv)
{
	static char obuf[1 << 16];
	long i, n;
	struct tcase c;

	setvbuf(stdout, obuf, _IOFBF, sizeof(obuf));
	do_flush = getenv("C20_FLUSH") != NULL;
	if (getenv("C20_PLAY_EVERY"))
		play_every = atol(getenv("C20_PLAY_EVERY"));
	else if (argc > 1 && !strcmp(argv[1], "exh"))
		play_every = 8;
	else if (argc > 1 && !strcmp(argv[1], "big"))
		play_every = 0;
	if (argc < 3) {
		fprintf(stderr, "usage: see the comment at the top of c20_sample.c\n");
		return 2;
	}
	if (!strcmp(argv[1], "replay"))
		return replay(argv[2]);
	if (!strcmp(argv[1], "corpus"))
		return corpus(atol(argv[2]), argc - 3, argv + 3);
	if (!strcmp(argv[1], "cuts"))
		return cuts_mode(atoi(argv[2]), argc - 3, argv + 3);
	if (argc < 4)
		return 2;
	if (!strcmp(argv[1], "exh")) {
		exhaustive(atol(argv[2]), atol(argv[3]), argc > 4 ? atoi(argv[4]) : 3);
	} else if (!strcmp(argv[1], "exhs")) {
		exhaustive_short(atol(argv[2]), atol(argv[3]));
	} else if (!strcmp(argv[1], "short")) {
		vrng_seed((uint64_t)atoll(argv[2]) * 31 + 7);
		n = atol(argv[3]);
		for (i = 0; i < n; i++) {
			short_case(&c, i);
			run_case(&c);
			free_case(&c);
		}
	} else {
		int big = !strcmp(argv[1], "big");
		vrng_seed((uint64_t)atoll(argv[2]) * 31 + big);
		n = atol(argv[3]);
		for (i = 0; i < n; i++) {
			memset(&c, 0, sizeof(c));
			random_case(&c, i, big);
			run_case(&c);
			free_case(&c);
		}
	}
	fprintf(stderr, "cases %ld\n", ncases_run);
	printf("plays %ld\n", plays_done);
	return 0;
}
