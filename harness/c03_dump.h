/* Canonical dump of a loaded module for property C03 (shared by c03_wf.c and
 * c03_inject.c).  The same line format is the input format of raw-module
 * descriptions and the output format of the Lean driver (lean/Drv/C03.lean).
 *
 *   mod <pat> <trk> <chn> <ins> <smp> <spd> <bpm> <len> <rst> <gvl> <volbase> <gvol> <quirk>
 *   name <hex>            char name[XMP_NAME_SIZE]
 *   type <hex>            char type[XMP_NAME_SIZE]
 *   xxo <hex>             unsigned char xxo[XMP_MAX_MOD_LENGTH]
 *   xxc <pan vol flg>*64
 *   tab <xxp!=NULL> <xxt!=NULL>
 *   p <i> <present> <rows> <n> <index>*n
 *   xxt <n> <rows|N>*n
 *   i <i> <namehex> <vol> <nsm> <nsub|-1> <gvl>*nsub
 *   u <i> <nsub> <sid>*nsub                                 (sample id of every sub-instrument; nsub as above, 0 if none)
 *   e <flg> <npt> <sus> <sue> <lps> <lpe> <n> <data>*n      (three per instrument: aei pei fei)
 *   s <i> <namehex> <len> <lps> <lpe> <flg> <hasdata> <guards> <xsus> <xsue>
 *   seq <n> <entry duration>*n
 *   ctl <hex>             sequence_control[XMP_MAX_MOD_LENGTH]
 */
#ifndef C03_DUMP_H
#define C03_DUMP_H

#include "vcommon.h"
#include "common.h"
#if defined(__has_feature)
#if __has_feature(address_sanitizer)
#include <sanitizer/asan_interface.h>
#define C03_ASAN 1
#endif
#endif

static int c03_region_ok(const void *p, size_t n)
{
#ifdef C03_ASAN
	return __asan_region_is_poisoned((void *)p, n) == NULL;
#else
	(void)p; (void)n;
	return 1;
#endif
}

static volatile unsigned c03_sink;
static int c03_no_guard_probe;	/* set by the raw-module injector */

/* guard frames of a sample with data: 4 bytes before, 4 frames after */
static int c03_guards(const struct xmp_sample *s)
{
	long framelen = 1, bytelen;
	long k;
	if (s->data == NULL || (s->flg & XMP_SAMPLE_SYNTH) || c03_no_guard_probe)
		return 1;
	if (s->len < 0)
		return 0;
	if (s->flg & XMP_SAMPLE_16BIT)
		framelen *= 2;
	if (s->flg & XMP_SAMPLE_STEREO)
		framelen *= 2;
	bytelen = (long)s->len * framelen;
	if (!c03_region_ok(s->data - 4, 4 + bytelen + 4 * framelen))
		return 0;
	/* really read them (ASan/UBSan would abort here on a bad pointer) */
	for (k = -4; k < 0; k++)
		c03_sink += s->data[k];
	for (k = 0; k < 4 * framelen; k++)
		c03_sink += s->data[bytelen + k];
	if (bytelen > 0)
		c03_sink += s->data[0] + s->data[bytelen - 1];
	return 1;
}

static void c03_dump_env(FILE *o, const struct xmp_envelope *e, int with_data)
{
	int n = 0, k;
	if (with_data) {
		n = e->npt;
		if (n < 0) n = 0;
		if (n > XMP_MAX_ENV_POINTS) n = XMP_MAX_ENV_POINTS;
		n *= 2;
	}
	fprintf(o, "e %u %d %d %d %d %d %d", (unsigned)e->flg, e->npt, e->sus, e->sue, e->lps, e->lpe, n);
	for (k = 0; k < n; k++)
		fprintf(o, " %d", e->data[k]);
	fputc('\n', o);
}

/* nsub_of(i): number of sub-instrument entries to print for instrument i
 * (the allocation size is not observable on a real module: nsm is used) */
static void c03_dump_ex(FILE *o, struct context_data *ctx, const int *sub_alloc, int raw)
{
	struct module_data *m = &ctx->m;
	struct xmp_module *mod = &m->mod;
	int i, j;

	fprintf(o, "mod %d %d %d %d %d %d %d %d %d %d %d %d %u\n", mod->pat, mod->trk, mod->chn, mod->ins,
		mod->smp, mod->spd, mod->bpm, mod->len, mod->rst, mod->gvl, m->volbase, m->gvol, (unsigned)m->quirk);
	fputs("name ", o); put_hex(o, mod->name, XMP_NAME_SIZE); fputc('\n', o);
	fputs("type ", o); put_hex(o, mod->type, XMP_NAME_SIZE); fputc('\n', o);
	fputs("xxo ", o); put_hex(o, mod->xxo, XMP_MAX_MOD_LENGTH); fputc('\n', o);
	fputs("xxc", o);
	for (i = 0; i < XMP_MAX_CHANNELS; i++)
		fprintf(o, " %d %d %d", mod->xxc[i].pan, mod->xxc[i].vol, mod->xxc[i].flg);
	fputc('\n', o);
	fprintf(o, "tab %d %d\n", mod->xxp != NULL, mod->xxt != NULL);
	if (mod->xxp != NULL) {
		for (i = 0; i < mod->pat; i++) {
			const struct xmp_pattern *p = mod->xxp[i];
			if (p == NULL) {
				fprintf(o, "p %d 0 0 0\n", i);
				continue;
			}
			fprintf(o, "p %d 1 %d %d", i, p->rows, mod->chn > 0 ? mod->chn : 0);
			for (j = 0; j < mod->chn; j++)
				fprintf(o, " %d", p->index[j]);
			fputc('\n', o);
		}
	}
	if (mod->xxt != NULL) {
		fprintf(o, "xxt %d", mod->trk > 0 ? mod->trk : 0);
		for (i = 0; i < mod->trk; i++) {
			if (mod->xxt[i] == NULL)
				fputs(" N", o);
			else
				fprintf(o, " %d", mod->xxt[i]->rows);
		}
		fputc('\n', o);
	} else {
		fputs("xxt 0\n", o);
	}
	for (i = 0; i < mod->ins; i++) {
		const struct xmp_instrument *x = &mod->xxi[i];
		int ns = -1;
		if (x->sub != NULL) {
			ns = sub_alloc ? sub_alloc[i] : (x->nsm > 0 ? x->nsm : 0);
			/* a sub-instrument array shorter than nsm counts as not allocated */
			if (!sub_alloc && ns > 0 && !c03_region_ok(x->sub, (size_t)ns * sizeof(struct xmp_subinstrument)))
				ns = -1;
		}
		fprintf(o, "i %d ", i); put_hex(o, x->name, sizeof(x->name));
		fprintf(o, " %d %d %d", x->vol, x->nsm, ns);
		for (j = 0; j < ns; j++)
			fprintf(o, " %d", x->sub[j].gvl);
		fputc('\n', o);
		fprintf(o, "u %d %d", i, ns > 0 ? ns : 0);
		for (j = 0; j < ns; j++)
			fprintf(o, " %d", x->sub[j].sid);
		fputc('\n', o);
		c03_dump_env(o, &x->aei, 1);
		c03_dump_env(o, &x->pei, 0);
		c03_dump_env(o, &x->fei, 0);
	}
	for (i = 0; i < mod->smp; i++) {
		const struct xmp_sample *s = &mod->xxs[i];
		fprintf(o, "s %d ", i); put_hex(o, s->name, sizeof(s->name));
		fprintf(o, " %d %d %d %u %d %d %d %d\n", s->len, s->lps, s->lpe, (unsigned)s->flg,
			s->data != NULL, c03_guards(s), m->xtra ? m->xtra[i].sus : 0, m->xtra ? m->xtra[i].sue : 0);
	}
	if (raw)		/* the state a format loader left behind: no sequences yet */
		return;
	fprintf(o, "seq %d", m->num_sequences);
	for (i = 0; i < m->num_sequences && i < MAX_SEQUENCES; i++)
		fprintf(o, " %d %d", m->seq_data[i].entry_point, m->seq_data[i].duration);
	fputc('\n', o);
	fputs("ctl ", o); put_hex(o, ctx->p.sequence_control, XMP_MAX_MOD_LENGTH); fputc('\n', o);
}

static void c03_dump(FILE *o, struct context_data *ctx, const int *sub_alloc)
{
	c03_dump_ex(o, ctx, sub_alloc, 0);
}

#endif
