/* C07 harness (correspondence for the model of load.c, `C07_same_core`): the real
 * xmp_load_module* / xmp_test_module* wrappers and the real load_module()/test_module()
 * run over a harness-supplied loader table with ONE recording loader, so that what
 * the core hands to a loader through each entry point becomes visible:
 * m->filename, m->dirname, m->basename, m->size and the handle type.
 *
 * usage: c07_core <seed> <workdir> <ncases>
 *
 * Output per case:
 *   core <hex path> <hex bytes>
 *   seen <entry> filename=<hex|NULL> dirname=<hex|NULL> basename=<hex|NULL> size=<n> backend=<0 file|1 mem|2 cb>
 *   ret <entry> <0|-1>        what the loader returned
 *   L <entry> <rc>            entry: 0 path 1 file 2 mem 3 cb
 *   T <entry> <rc> <type hex>
 * The recording format: "R!" <n:u8> <n bytes>; test = magic, load fails (-1) when the body is short,
 * otherwise returns 0 without building a module (load_module's sanity checks then answer -XMP_ERROR_LOAD).
 */
#include "vcommon.h"
#include <unistd.h>
#include <sys/stat.h>
#include <xmp.h>
#include "common.h"
#include "hio.h"
#include "format.h"
#include "loaders/loader.h"

static int cur_entry;

static void put_str(const char *s)
{
	if (!s)
		printf("NULL");
	else
		put_hex(stdout, s, strlen(s));
}

static int rec_test(HIO_HANDLE *f, char *t, const int start)
{
	if (hio_read16b(f) != 0x5221)
		return -1;
	libxmp_read_title(f, t, 0);
	return 0;
}

static int rec_load(struct module_data *m, HIO_HANDLE *f, const int start)
{
	unsigned char buf[256];
	int n;

	printf("seen %d filename=", cur_entry);
	put_str(m->filename);
	printf(" dirname=");
	put_str(m->dirname);
	printf(" basename=");
	put_str(m->basename);
	printf(" size=%d backend=%d\n", m->size, (int)HIO_HANDLE_TYPE(f));
	hio_read16b(f);
	n = hio_read8(f);
	if ((int)hio_read(buf, 1, (size_t)n, f) != n) {
		printf("ret %d -1\n", cur_entry);
		return -1;
	}
	printf("ret %d 0\n", cur_entry);
	return 0;
}

static const struct format_loader rec_loader = { "rec", rec_test, rec_load };

const struct format_loader *const format_loaders[NUM_FORMATS + 2] = { &rec_loader, NULL };

const char *const *format_list(void)
{
	static const char *const names[] = { "rec", NULL };
	return names;
}

struct cbstate {
	const unsigned char *data;
	long size, pos;
};

static unsigned long cb_read(void *dest, unsigned long len, unsigned long nmemb, void *priv)
{
	struct cbstate *c = (struct cbstate *)priv;
	unsigned long total = len * nmemb, avail, got;
	if (total == 0)
		return 0;
	avail = c->pos < c->size ? (unsigned long)(c->size - c->pos) : 0;
	got = total < avail ? total : avail;
	memcpy(dest, c->data + c->pos, got);
	c->pos += (long)got;
	return got / len;
}

static int cb_seek(void *priv, long offset, int whence)
{
	struct cbstate *c = (struct cbstate *)priv;
	long tg = whence == SEEK_SET ? offset : whence == SEEK_CUR ? offset + c->pos : offset + c->size;
	if (tg < 0)
		return -1;
	c->pos = tg;
	return 0;
}

static long cb_tell(void *priv)
{
	return ((struct cbstate *)priv)->pos;
}

static const struct xmp_callbacks cbs = { cb_read, cb_seek, cb_tell, NULL };

static void mkdirs(const char *path)
{
	char tmp[1024];
	char *p;
	snprintf(tmp, sizeof(tmp), "%s", path);
	for (p = tmp + 1; *p; p++) {
		if (*p == '/') {
			*p = 0;
			mkdir(tmp, 0755);
			*p = '/';
		}
	}
}

static const char *const dirs[] = { "", "d/", "d/e.f/", "./", "d//", "./d/../d/", "with space/" };
static const char *const names[] = { "mod.rec", "x", "a.b.c", "smp.name with space", "-dash", ".hidden" };

int main(int argc, char **argv)
{
	long ncases, i;
	char cwd[1024];

	if (argc < 4) {
		fprintf(stderr, "usage: %s <seed> <workdir> <ncases>\n", argv[0]);
		return 2;
	}
	vrng_seed((uint64_t)atol(argv[1]));
	ncases = atol(argv[3]);
	mkdir(argv[2], 0755);
	if (chdir(argv[2]) < 0 || !getcwd(cwd, sizeof(cwd))) {
		perror(argv[2]);
		return 2;
	}
	for (i = 0; i < ncases; i++) {
		unsigned char bytes[300];
		char path[2048];
		int magic_ok = !vrng_chance(20), n = vrng_range(0, 40), have, size, e, rc;
		int absolute = vrng_chance(30);
		struct cbstate cst;
		struct xmp_test_info ti;
		xmp_context ctx;
		FILE *f;

		have = vrng_chance(30) ? vrng_range(0, n) : n;	/* body shorter than announced: loader fails */
		bytes[0] = 'R';
		bytes[1] = magic_ok ? '!' : '?';
		bytes[2] = (unsigned char)n;
		for (e = 0; e < have; e++)
			bytes[3 + e] = (unsigned char)vrng_below(256);
		size = vrng_chance(10) ? vrng_range(1, 2) : 3 + have;
		snprintf(path, sizeof(path), "%s%s%s%s", absolute ? cwd : "", absolute ? "/" : "",
			 dirs[vrng_below(sizeof(dirs) / sizeof(dirs[0]))], names[vrng_below(sizeof(names) / sizeof(names[0]))]);
		mkdirs(path);
		f = fopen(path, "wb");
		if (!f || fwrite(bytes, 1, (size_t)size, f) != (size_t)size) {
			fprintf(stderr, "cannot write %s\n", path);
			return 2;
		}
		fclose(f);

		printf("core ");
		put_hex(stdout, path, strlen(path));
		putchar(' ');
		put_hex(stdout, bytes, (size_t)size);
		putchar('\n');

		for (e = 0; e < 4; e++) {
			cur_entry = e;
			ctx = xmp_create_context();
			cst.data = bytes;
			cst.size = size;
			cst.pos = 0;
			f = NULL;
			switch (e) {
			case 0: rc = xmp_load_module(ctx, path); break;
			case 1: f = fopen(path, "rb"); rc = xmp_load_module_from_file(ctx, f, size); break;
			case 2: rc = xmp_load_module_from_memory(ctx, bytes, size); break;
			default: rc = xmp_load_module_from_callbacks(ctx, &cst, cbs); break;
			}
			if (f)
				fclose(f);
			printf("L %d %d\n", e, rc);
			xmp_free_context(ctx);
		}
		for (e = 0; e < 4; e++) {
			memset(&ti, 0, sizeof(ti));
			cst.pos = 0;
			f = NULL;
			switch (e) {
			case 0: rc = xmp_test_module(path, &ti); break;
			case 1: f = fopen(path, "rb"); rc = xmp_test_module_from_file(f, &ti); break;
			case 2: rc = xmp_test_module_from_memory(bytes, size, &ti); break;
			default: rc = xmp_test_module_from_callbacks(&cst, cbs, &ti); break;
			}
			if (f)
				fclose(f);
			printf("T %d %d ", e, rc);
			put_hex(stdout, ti.type, strnlen(ti.type, XMP_NAME_SIZE));
			putchar('\n');
		}
		unlink(path);
	}
	return 0;
}
