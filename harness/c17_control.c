/* C17 harness: position control lands exactly where asked.
 *
 * The TU includes control.c and player.c so that the static set_position() and the
 * whole sequencing kernel are the working tree's real code; the call
 * libxmp_virt_reset() inside the reposition block of xmp_play_frame is renamed so
 * that the player state can be dumped right after next_order()+update_from_ord_info()
 * and before read_row() lets effects change speed/bpm/flow ("mid" state).
 *
 * usage:
 *   c17_control gen <seed> <thorough:0|1> <cases_per_module> <module|x.synth>...
 *   c17_control script <module|x.synth> <scriptfile>
 *
 * Output (one record per case; the native driver drv_c17 recomputes ret/post/frame
 * from mod+pre+op):
 *   mod/xxo/rows/ctl/seq/info   module description (once per module)
 *   case <k> / s <step>...      concrete steps executed since the previous case (replayable)
 *   pre <state> / op <name> <arg> / ret <r> / post <state>
 *   frame <rc> <mid?> [<mid state> <time>] k <ord pos row frame seq loopcnt numrows endpoint> fi <...>
 *   oracle ok <class> | oracle fail <signature> <detail>
 *
 * Histories contain player restarts: op start_player 0 = xmp_end_player + xmp_start_player,
 * op start_player 1 = xmp_start_player on the playing context, usually issued while another
 * sub-song is selected and followed by relative / time calls.  The harness tracks the sequence
 * that the history puts in force (exp_seq) and evaluates every sequence clause against it.
 */
#include <signal.h>
#include <unistd.h>
#include "vcommon.h"

#define libxmp_virt_reset spy_libxmp_virt_reset
#define libxmp_scan_sequences spy_libxmp_scan_sequences	/* xmp_set_player's rescans are counted */
#include "control.c"
#include "player.c"
#undef libxmp_virt_reset
#undef libxmp_scan_sequences
void libxmp_virt_reset(struct context_data *);
int libxmp_scan_sequences(struct context_data *);
#include "loaders/loader.h"

void libxmp_load_prologue(struct context_data *);
void libxmp_load_epilogue(struct context_data *);

static FILE *O;
static char cur_what[256] = "?";

/* ---------------------------------------------------------------- state dumps */

static void fmt_state(char *buf, size_t n, struct context_data *ctx)
{
	struct player_data *p = &ctx->p;
	struct flow_control *f = &p->flow;
	snprintf(buf, n, "%d %d %d %d %d %d %d %d %d %d %d %d %d %d %d %d %d %d %d %d %d %d %d %d %d %d",
		 ctx->state >= XMP_STATE_PLAYING, p->ord, p->pos, p->row, p->frame, p->speed, p->bpm,
		 p->gvol, p->loop_count, p->sequence, p->st26_speed,
		 f->pbreak, f->jump, f->delay, f->jumpline, f->loop_dest, f->loop_param, f->loop_start,
		 f->loop_count, f->loop_active_num, f->jump_in_pat, f->num_rows, f->end_point,
		 f->rowdelay, f->rowdelay_set, p->flags);
}

static int rescans, rescan_failed;

int spy_libxmp_scan_sequences(struct context_data *ctx)
{
	int r = libxmp_scan_sequences(ctx);
	rescans++;
	if (r < 0)
		rescan_failed++;
	return r;
}

static int mid_seen, mid_clean;
static char mid_state[512];
static double mid_time;

void spy_libxmp_virt_reset(struct context_data *ctx)
{
	mid_seen = 1;
	fmt_state(mid_state, sizeof mid_state, ctx);
	mid_time = ctx->p.current_time;
	{
		struct flow_control *f = &ctx->p.flow;
		mid_clean = f->pbreak == 0 && f->jump == -1 && f->jumpline == 0 && f->delay == 0 && f->rowdelay == 0 &&
			    f->loop_dest == -1;
	}
	libxmp_virt_reset(ctx);
}

static void on_alarm(int sig)
{
	char b[300];
	int n = snprintf(b, sizeof b, "\nHANG %s\n", cur_what);
	(void)sig;
	if (write(1, b, n) < 0) {
	}
	_exit(3);
}

/* ---------------------------------------------------------------- synthetic modules */

static int load_synth(struct context_data *ctx, const char *path)
{
	struct module_data *m = &ctx->m;
	struct xmp_module *mod = &m->mod;
	FILE *f = fopen(path, "r");
	char line[8192];
	int chn = 4, pat = 1, len = 1, rst = 0, marker = 0, protrack = 0, lpreset = 0, spd = 6, bpm = 125;
	int rows[256], i, built = 0;

	if (!f)
		return -1;
	for (i = 0; i < 256; i++)
		rows[i] = 64;

	libxmp_load_prologue(ctx);
	while (fgets(line, sizeof line, f)) {
		char *s = line + 1;
		int k = 0, v, adv;
		if (line[0] == 'H') {
			sscanf(s, "%d %d %d %d %d %d %d %d %d", &chn, &pat, &len, &rst, &marker, &protrack, &lpreset, &spd, &bpm);
			mod->chn = chn;
			mod->pat = pat;
			mod->len = len;
			mod->rst = rst;
			mod->spd = spd;
			mod->bpm = bpm;
			mod->ins = 1;
			mod->smp = 1;
			mod->trk = pat * chn;
		} else if (line[0] == 'O') {
			while (k < 256 && sscanf(s, "%d%n", &v, &adv) == 1) {
				mod->xxo[k++] = v;
				s += adv;
			}
		} else if (line[0] == 'R') {
			while (k < 256 && sscanf(s, "%d%n", &v, &adv) == 1) {
				rows[k++] = v;
				s += adv;
			}
		} else if (line[0] == 'E') {
			int pt, row, c, note, ins, fxt, fxp, f2t, f2p;
			struct xmp_event *e;
			if (!built) {
				if (libxmp_init_pattern(mod) < 0)
					return -1;
				for (i = 0; i < mod->pat; i++)
					if (libxmp_alloc_pattern_tracks(mod, i, rows[i]) < 0)
						return -1;
				built = 1;
			}
			if (sscanf(s, "%d %d %d %d %d %d %d %d %d", &pt, &row, &c, &note, &ins, &fxt, &fxp, &f2t, &f2p) != 9)
				continue;
			if (pt < 0 || pt >= pat || row < 0 || row >= rows[pt] || c < 0 || c >= chn)
				continue;
			e = &mod->xxt[mod->xxp[pt]->index[c]]->event[row];
			e->note = note;
			e->ins = ins;
			e->fxt = fxt;
			e->fxp = fxp;
			e->f2t = f2t;
			e->f2p = f2p;
		}
	}
	fclose(f);
	if (!built) {
		if (libxmp_init_pattern(mod) < 0)
			return -1;
		for (i = 0; i < mod->pat; i++)
			if (libxmp_alloc_pattern_tracks(mod, i, rows[i]) < 0)
				return -1;
	}
	if (libxmp_init_instrument(m) < 0)
		return -1;
	for (i = 0; i < mod->ins; i++) {
		mod->xxi[i].nsm = 1;
		if (libxmp_alloc_subinstrument(mod, i, 1) < 0)
			return -1;
		mod->xxi[i].sub[0].pan = 0x80;
		mod->xxi[i].sub[0].vol = 0x40;
		mod->xxi[i].sub[0].sid = i;
		mod->xxs[i].len = 1000;
		mod->xxs[i].lps = 0;
		mod->xxs[i].lpe = 1000;
		mod->xxs[i].flg = XMP_SAMPLE_LOOP;
		mod->xxs[i].data = (unsigned char *)calloc(1, 1100);
		mod->xxs[i].data += 4;
	}
	if (marker) {
		m->quirk |= QUIRK_MARKER;
		m->read_event_type = READ_EVENT_IT;
	}
	if (protrack)
		m->quirk |= QUIRK_PROTRACK;
	if (lpreset)
		m->flow_mode |= FLOW_LOOP_PATTERN_RESET;

	libxmp_load_epilogue(ctx);
	if (libxmp_prepare_scan(ctx) < 0)
		return -1;
	if (libxmp_scan_sequences(ctx) < 0) {
		ctx->state = XMP_STATE_LOADED;
		xmp_release_module((xmp_context)ctx);
		return -2;
	}
	ctx->state = XMP_STATE_LOADED;
	return 0;
}

static int is_synth(const char *path)
{
	size_t n = strlen(path);
	return n > 6 && strcmp(path + n - 6, ".synth") == 0;
}

/* ---------------------------------------------------------------- module description */

struct mdesc {
	int len, pat, marker, nseq;
};

static void dump_module(struct context_data *ctx, const char *name)
{
	struct module_data *m = &ctx->m;
	struct xmp_module *mod = &m->mod;
	struct player_data *p = &ctx->p;
	int i;
	const char *b = strrchr(name, '/');
	char nm[200];
	snprintf(nm, sizeof nm, "%s", b ? b + 1 : name);
	for (i = 0; nm[i]; i++)
		if (nm[i] == ' ' || (unsigned char)nm[i] < 33 || (unsigned char)nm[i] > 126)
			nm[i] = '_';
	fprintf(O, "mod %s %d %d %d %d %d %d %d %d\n", nm, mod->len, mod->pat, mod->rst,
		HAS_QUIRK(QUIRK_MARKER) ? 1 : 0, HAS_QUIRK(QUIRK_PROTRACK) ? 1 : 0,
		HAS_FLOW_MODE(FLOW_LOOP_PATTERN_RESET) ? 1 : 0, m->num_sequences, mod->chn);
	fprintf(O, "xxo");
	for (i = 0; i < XMP_MAX_MOD_LENGTH; i++)
		fprintf(O, " %d", mod->xxo[i]);
	fprintf(O, "\nrows");
	for (i = 0; i < mod->pat; i++)
		fprintf(O, " %d", mod->xxp[i]->rows);
	fprintf(O, "\nctl");
	for (i = 0; i < XMP_MAX_MOD_LENGTH; i++)
		fprintf(O, " %d", p->sequence_control[i]);
	fprintf(O, "\nseq");
	for (i = 0; i < m->num_sequences; i++)
		fprintf(O, " %d %d %d %d", m->seq_data[i].entry_point, p->scan[i].ord, p->scan[i].row, p->scan[i].num);
	fprintf(O, "\ninfo");
	for (i = 0; i < mod->len; i++)
		fprintf(O, " %d %d %d %d %d", m->xxo_info[i].speed, m->xxo_info[i].bpm, m->xxo_info[i].gvl,
			m->xxo_info[i].time, m->xxo_info[i].st26_speed);
	fprintf(O, "\n");
}

/* ---------------------------------------------------------------- cases */

enum { OP_SETPOS, OP_NEXT, OP_PREV, OP_SETROW, OP_SEEK, OP_RESTART, OP_STOP, OP_START, OP_FLAGS, OP_CFLAGS, OP_MODE, OP_N };
static const char *const opname[OP_N] = { "set_position", "next_position", "prev_position", "set_row",
					   "seek_time", "restart_module", "stop_module", "start_player",
					   "set_flags", "set_cflags", "set_mode" };

static struct context_data *C;
static xmp_context X;
static int case_no;
/* the sequence that must be in force according to the history: 0 after xmp_start_player, the
 * sequence of the target after an absolute xmp_set_position; relative calls, restart, stop and
 * playback never change it */
static int exp_seq;
/* module generated without jumps, loops, breaks and tempo changes (pattern delays only): one pass
 * of straight playback lasts exactly the duration the scan reports */
static int linear_mod;

static void track_setpos(int t)
{
	if (t >= 0 && t < C->m.mod.len && C->p.sequence_control[t] != 0xff)
		exp_seq = C->p.sequence_control[t];
}

/* linear modules: the time at which straight playback really enters each order of the main
 * sequence in the timing mode in force, measured by rendering one pass (-1: not entered) */
static double real_time[XMP_MAX_MOD_LENGTH];
static int real_valid;

static void dump_module(struct context_data *ctx, const char *name);
static const char *cur_path = "?";

static void measure_times(int as_step)
{
	struct player_data *p = &C->p;
	double t = 0;
	int i, n = 0, last = -1;
	for (i = 0; i < XMP_MAX_MOD_LENGTH; i++)
		real_time[i] = -1;
	fprintf(O, as_step ? "s measure\n" : "s measured\n");
	xmp_restart_module(X);
	alarm(60);
	while (n < 400000 && xmp_play_frame(X) == 0 && p->loop_count == 0) {
		if (p->ord != last && p->ord >= 0 && p->ord < XMP_MAX_MOD_LENGTH && real_time[p->ord] < 0)
			real_time[p->ord] = t;
		last = p->ord;
		t += p->frame_time;
		n++;
	}
	alarm(0);
	real_valid = 1;
}

#define RATE 8000
#define FORMAT (XMP_FORMAT_MONO | XMP_FORMAT_8BIT)

static int valid_ord(int i)
{
	struct module_data *m = &C->m;
	struct xmp_module *mod = &m->mod;
	if (i < 0 || i >= mod->len)
		return 0;
	if (mod->xxo[i] >= mod->pat)
		return 0;
	if (HAS_QUIRK(QUIRK_MARKER) && mod->xxo[i] >= 0xfe)
		return 0;
	return 1;
}

static int member(int i, int q)
{
	return valid_ord(i) && C->p.sequence_control[i] == q;
}

static void step_play(int n)
{
	int i;
	if (n <= 0)
		return;
	fprintf(O, "s play %d\n", n);
	snprintf(cur_what, sizeof cur_what, "play");
	alarm(20);
	for (i = 0; i < n; i++)
		if (xmp_play_frame(X) < 0)
			break;
	alarm(0);
}

static void step_inject(int chn, int fxt, int fxp)
{
	struct xmp_event e;
	if (chn < 0 || chn >= C->m.mod.chn)
		return;
	memset(&e, 0, sizeof e);
	e.fxt = fxt;
	e.fxp = fxp;
	fprintf(O, "s inj %d %d %d\n", chn, fxt, fxp);
	xmp_inject_event(X, chn, &e);
}

static int seek_cand(int seq, int t)
{
	int i;
	for (i = C->m.mod.len - 1; i >= 0; i--)
		if (C->m.mod.xxo[i] < C->m.mod.pat && C->p.sequence_control[i] == seq && C->m.xxo_info[i].time <= t)
			return i;
	return -1;
}

/* a control call executed as a step (no frame rendered after it): leaves a reposition pending */
static void step_call(const char *what, int a)
{
	fprintf(O, "s %s %d\n", what, a);
	if (!strcmp(what, "next"))
		xmp_next_position(X);
	else if (!strcmp(what, "prev"))
		xmp_prev_position(X);
	else if (!strcmp(what, "seek")) {
		if (seek_cand(C->p.sequence, a) < 0)
			track_setpos(0);
		xmp_seek_time(X, a);
	}
}

static void step_plain(const char *what)
{
	fprintf(O, "s %s\n", what);
	if (!strcmp(what, "restart"))
		xmp_restart_module(X);
}

#define FAIL(sig, ...) do { if (!failed) { failed = 1; fprintf(O, "oracle fail %s ", sig); fprintf(O, __VA_ARGS__); fprintf(O, "\n"); } } while (0)

static void do_case(int op, int arg)
{
	struct module_data *m = &C->m;
	struct xmp_module *mod = &m->mod;
	struct player_data *p = &C->p;
	struct xmp_frame_info fi;
	char pre[512], post[512], aft[512];
	int ret = 0, rc, failed = 0;
	int pre_ord = p->ord, pre_pos = p->pos, pre_seq = exp_seq, pending = p->ord != p->pos;
	int seq_real = p->sequence, pre_delay = p->flow.delay;
	int len = mod->len, marker = HAS_QUIRK(QUIRK_MARKER) ? 1 : 0;
	const char *cls = "unconstrained";
	int i;

	if (op == OP_START && arg == 0) {	/* restart of a stopped player; arg 1: start on a playing context */
		fprintf(O, "s endplayer\n");
		xmp_end_player(X);
	}
	fprintf(O, "case %d\n", case_no++);
	rescans = rescan_failed = 0;
	fmt_state(pre, sizeof pre, C);
	fprintf(O, "pre %s\nop %s %d\n", pre, opname[op], arg);
	fflush(O);
	snprintf(cur_what, sizeof cur_what, "%s", opname[op]);
	alarm(10);
	switch (op) {
	case OP_SETPOS: ret = xmp_set_position(X, arg); break;
	case OP_NEXT: ret = xmp_next_position(X); break;
	case OP_PREV: ret = xmp_prev_position(X); break;
	case OP_SETROW: ret = xmp_set_row(X, arg); break;
	case OP_SEEK: ret = xmp_seek_time(X, arg); break;
	case OP_RESTART: xmp_restart_module(X); break;
	case OP_STOP: xmp_stop_module(X); break;
	case OP_START: ret = xmp_start_player(X, RATE, FORMAT); break;
	case OP_FLAGS: ret = xmp_set_player(X, XMP_PLAYER_FLAGS, arg); break;
	case OP_CFLAGS: ret = xmp_set_player(X, XMP_PLAYER_CFLAGS, arg); break;
	case OP_MODE: ret = xmp_set_player(X, XMP_PLAYER_MODE, arg); break;
	}
	fmt_state(post, sizeof post, C);
	fprintf(O, "ret %d\npost %s\n", ret, post);
	if (op == OP_START) {
		if (ret < 0) {
			fprintf(O, "oracle fail ret:xmp_start_player restart of the player failed with %d\n", ret);
			fflush(O);
			exit(4);
		}
		xmp_set_player(X, XMP_PLAYER_INTERP, XMP_INTERP_NEAREST);
		exp_seq = 0;
	}
	if (op >= OP_FLAGS) {
		/* parameter calls: did the scan re-run, how many sequences are there now */
		fprintf(O, "rescan %d %d %d\n", rescans > 0, m->num_sequences, rescan_failed == 0);
		if (rescans > 0) {
			dump_module(C, cur_path);
			if (exp_seq >= m->num_sequences)
				exp_seq = 0;
			len = mod->len;
			marker = HAS_QUIRK(QUIRK_MARKER) ? 1 : 0;
		}
	}
	mid_seen = 0;
	snprintf(cur_what, sizeof cur_what, "%s+frame", opname[op]);
	rc = xmp_play_frame(X);
	alarm(0);
	memset(&fi, 0, sizeof fi);
	xmp_get_frame_info(X, &fi);
	fmt_state(aft, sizeof aft, C);
	fprintf(O, "frame %d %d", rc, mid_seen);
	if (mid_seen) {
		long long t = (long long)mid_time;
		fprintf(O, " %s %lld", mid_state, (double)t == mid_time ? t : -999999);
	}
	fprintf(O, " k %d %d %d %d %d %d %d %d", p->ord, p->pos, p->row, p->frame, p->sequence, p->loop_count,
		p->flow.num_rows, p->flow.end_point);
	fprintf(O, " fi %d %d %d %d %d %d %d\n", fi.pos, fi.pattern, fi.row, fi.num_rows, fi.frame, fi.loop_count, fi.sequence);

	/* ---------------- direct oracle: the property's landing clauses on the real code */
	if (seq_real != pre_seq && op != OP_START)
		FAIL("sequence:in-force", "%s called with sequence %d in force, but the history (last player start / absolute position) selects sequence %d",
		     opname[op], seq_real, pre_seq);
	switch (op) {
	case OP_SETPOS:
		track_setpos(arg);
		if (arg < 0 || arg >= len) {
			cls = "refuse";
			if (ret != -XMP_ERROR_INVALID)
				FAIL(arg < 0 ? "refuse:negative" : "refuse:xmp_set_position", "set_position(%d) len=%d returned %d", arg, len, ret);
			if (strcmp(pre, post))
				FAIL("refuse:state-changed", "set_position(%d) refused but state changed", arg);
		} else if (valid_ord(arg) && p->sequence_control[arg] < m->num_sequences) {
			int q = p->sequence_control[arg];
			int same = arg == pre_ord && arg != 0;
			cls = same ? "set_position:same-order" : (q != pre_seq ? "set_position:other-sequence" : "set_position:landing");
			if (ret != arg)
				FAIL(arg == 0 && ret == -1 ? "ret:xmp_set_position(0)=-1" : "ret:xmp_set_position",
				     "set_position(%d) returned %d", arg, ret);
			if (rc != 0 || fi.pos != arg || fi.row != 0 || fi.frame != 0 || fi.sequence != q || fi.pattern != mod->xxo[arg])
				FAIL(same ? "land:xmp_set_position(current-order)" : (arg < m->seq_data[q].entry_point ? "land:xmp_set_position(before-entry)" : "land:xmp_set_position"),
				     "set_position(%d) seq %d: frame rc=%d pos=%d row=%d frame=%d seq=%d (was ord=%d pos=%d row/frame in pre)",
				     arg, q, rc, fi.pos, fi.row, fi.frame, fi.sequence, pre_ord, pre_pos);
			if (!same && mid_seen && !mid_clean)
				FAIL("flow:xmp_set_position", "set_position(%d): a break/jump/delay/loop of the old position is still pending when the new row is read", arg);
		}
		break;
	case OP_SETROW: {
		int cp = (pre_pos < 0 || pre_pos >= len) ? 0 : pre_pos;
		int pt = mod->xxo[cp];
		int nr = pt < mod->pat ? mod->xxp[pt]->rows : 0;
		if (arg < 0 || arg >= nr) {
			cls = "refuse";
			if (ret != -XMP_ERROR_INVALID)
				FAIL(arg < 0 ? "refuse:negative" : "refuse:xmp_set_row", "set_row(%d) rows=%d returned %d", arg, nr, ret);
			if (strcmp(pre, post))
				FAIL("refuse:state-changed", "set_row(%d) refused but state changed", arg);
		} else if (pre_pos != -2) {
			cls = pending ? "set_row:pending" : "set_row:landing";
			if (ret != arg)
				FAIL("ret:xmp_set_row", "set_row(%d) returned %d", arg, ret);
			if (rc != 0 || fi.row != arg || fi.frame != 0 || fi.pos != cp)
				FAIL("land:xmp_set_row", "set_row(%d) at pos %d: frame rc=%d pos=%d row=%d frame=%d", arg, cp, rc,
				     fi.pos, fi.row, fi.frame);
		}
		break; }
	case OP_NEXT:
	case OP_PREV:
		if (op == OP_NEXT && ret == -1)	/* -1 is the internal restart marker (and -XMP_END), not an order */
			FAIL("ret:xmp_next_position=-1", "next_position returned -1 (pre pos=%d)", pre_pos);
		if (!pending && member(pre_ord, pre_seq)) {
			int fwd = op == OP_NEXT, cur = pre_pos, t, any = 0;
			const char *nm = fwd ? "next_position" : "prev_position";
			char sig[64];
			int start = m->seq_data[pre_seq].entry_point;
			/* the neighbour order, skip markers (0xfe) passed over */
			if (fwd) {
				t = cur + 1;
				while (marker && t < len && mod->xxo[t] == 0xfe)
					t++;
				for (i = cur + 1; i < len; i++)
					any |= member(i, pre_seq);
			} else {
				t = cur - 1;
				while (marker && t > start && mod->xxo[t] == 0xfe)
					t--;
				for (i = cur - 1; i >= 0; i--)
					any |= member(i, pre_seq);
			}
			if (t >= 0 && t < len && (fwd || cur > start) && member(t, pre_seq)) {
				cls = fwd ? "next:inside" : "prev:inside";
				snprintf(sig, sizeof sig, "land:xmp_%s", nm);
				if (ret != t || rc != 0 || fi.pos != t || fi.row != 0 || fi.frame != 0 || fi.sequence != pre_seq)
					FAIL(sig, "%s from %d: expected order %d, ret=%d frame rc=%d pos=%d row=%d frame=%d seq=%d", nm, cur,
					     t, ret, rc, fi.pos, fi.row, fi.frame, fi.sequence);
				if (mid_seen && !mid_clean) {
					snprintf(sig, sizeof sig, "flow:xmp_%s", nm);
					FAIL(sig, "%s: a break/jump/delay/loop of the old position is still pending when the new row is read", nm);
				}
			} else if (!any) {
				/* cur is the last (first) order of the sequence: stay put, i.e. either the call
				 * changes nothing or the next frame is still in order cur */
				cls = fwd ? (cur + 1 >= len ? "next:list-end" : "next:end") : "prev:end";
				snprintf(sig, sizeof sig, "end:xmp_%s", nm);
				if (fwd && cur + 1 >= len) {
					if (strcmp(pre, post) || ret != cur)
						FAIL("list-end:xmp_next_position", "next_position at the last order %d returned %d or changed state", cur, ret);
				} else if (strcmp(pre, post) && (rc != 0 || fi.pos != cur || fi.sequence != pre_seq))
					FAIL(sig, "%s from %d (end of sequence %d, neighbour %d): frame rc=%d pos=%d row=%d seq=%d", nm, cur, pre_seq,
					     t, rc, fi.pos, fi.row, fi.sequence);
			} else {
				/* neighbour is not an order of this sequence but the sequence continues further on */
				cls = fwd ? "next:gap" : "prev:gap";
				snprintf(sig, sizeof sig, "leave:xmp_%s", nm);
				if (strcmp(pre, post) && (rc != 0 || !member(fi.pos, pre_seq) || fi.sequence != pre_seq))
					FAIL(sig, "%s from %d: landed on %d (seq id %d) outside sequence %d", nm, cur, fi.pos,
					     p->sequence_control[fi.pos], pre_seq);
			}
		}
		break;
	case OP_SEEK: {
		int cand = -1;
		for (i = len - 1; i >= 0; i--)
			if (mod->xxo[i] < mod->pat && p->sequence_control[i] == pre_seq && m->xxo_info[i].time <= arg) {
				cand = i;
				break;
			}
		if (linear_mod && real_valid && pre_seq == 0) {
			/* judged against the measured entry times of the timing mode in force */
			int rc_ = -1, amb = 0;
			for (i = 0; i < len; i++)
				if (real_time[i] >= 0 && member(i, 0)) {
					if (real_time[i] - arg > -1.5 && real_time[i] - arg < 1.5)
						amb = 1;
					if (real_time[i] <= arg)
						rc_ = i > rc_ ? i : rc_;
				}
			if (!amb && rc_ >= 0 && ret != rc_)
				FAIL("land:xmp_seek_time(times-in-force)", "seek_time(%d): playback in the timing mode in force (flags %d) enters order %d at %.1f ms (last one not after %d), the call selected order %d",
				     arg, p->flags, rc_, real_time[rc_], arg, ret);
		}
		if (cand >= 0 && valid_ord(cand)) {
			int same = cand == pre_ord && cand != 0;
			cls = same ? "seek:same-order" : "seek:landing";
			if (ret != cand)
				FAIL("ret:xmp_seek_time", "seek_time(%d) seq %d: expected %d returned %d", arg, pre_seq, cand, ret);
			if (!same && (rc != 0 || fi.pos != cand || fi.sequence != pre_seq))
				FAIL("land:xmp_seek_time", "seek_time(%d) seq %d: expected order %d, frame rc=%d pos=%d seq=%d", arg, pre_seq,
				     cand, rc, fi.pos, fi.sequence);
			if (!same && (fi.row != 0 || fi.frame != 0))
				FAIL("row:xmp_seek_time", "seek_time(%d): order %d entered at row %d frame %d", arg, cand, fi.row, fi.frame);
		} else if (cand < 0) {
			/* nothing entered by time t: the code falls back to xmp_set_position(0), i.e. the first
			 * order that is not a skip marker, in the sequence of order 0 */
			int t = 0;
			while (marker && t < len && mod->xxo[t] == 0xfe)
				t++;
			cls = "seek:fallback";
			track_setpos(0);
			if (valid_ord(t) && p->sequence_control[0] < m->num_sequences && !(t == pre_ord && t != 0)) {
				if (ret != t || rc != 0 || fi.pos != t || fi.row != 0 || fi.frame != 0)
					FAIL("fallback:xmp_seek_time", "seek_time(%d) with no candidate: expected order %d, returned %d, frame rc=%d pos=%d row=%d",
					     arg, t, ret, rc, fi.pos, fi.row);
			}
		}
		break; }
	case OP_RESTART: {
		int start = m->seq_data[pre_seq].entry_point, t = start;
		while (t < len && !valid_ord(t) && !(marker && mod->xxo[t] == 0xff))
			t++;
		if (valid_ord(t)) {
			cls = "restart";
			if (rc != 0 || fi.pos != t || fi.row != 0 || fi.frame != 0 || fi.sequence != pre_seq)
				FAIL("land:xmp_restart_module", "restart in sequence %d (entry %d): frame rc=%d pos=%d row=%d frame=%d seq=%d", pre_seq,
				     start, rc, fi.pos, fi.row, fi.frame, fi.sequence);
			/* loop count 0, except for the modules whose very first row is the recorded end point with a
			 * wrapped-around visit count of 0 (storlek_11.it): a fresh xmp_start_player reports 1 there too */
			if (fi.loop_count != 0 && !(p->scan[pre_seq].num == 0 && t == p->scan[pre_seq].ord && 0 == p->scan[pre_seq].row))
				FAIL("loop:xmp_restart_module", "restart: loop count %d in the first frame", fi.loop_count);
			if (!linear_mod && mid_seen && !mid_clean)
				FAIL("flow:xmp_restart_module", "restart: a delay/break/jump/loop of the abandoned row is still pending when row 0 is read");
			if (linear_mod && !failed) {
				/* duration: the pass that starts with this frame must last what the scan reported */
				double sum = p->frame_time;
				int n = 1;
				snprintf(cur_what, sizeof cur_what, "restart_module+pass");
				alarm(60);
				while (n < 200000 && xmp_play_frame(X) == 0 && p->loop_count == 0) {
					sum += p->frame_time;
					n++;
				}
				alarm(0);
				fprintf(O, "s pass %d\n", n);
				if (sum - p->scan[pre_seq].time > 1.5 || sum - p->scan[pre_seq].time < -1.5)
					FAIL("duration:xmp_restart_module", "restart (pre delay=%d): the next pass rendered %d frames = %.1f ms, reported duration %d ms",
					     pre_delay, n, sum, p->scan[pre_seq].time);
				if (mid_seen && !mid_clean)
					FAIL("flow:xmp_restart_module", "restart: a delay/break/jump/loop of the abandoned row is still pending when row 0 is read");
			}
		}
		break; }
	case OP_STOP:
		cls = "stop";
		if (rc != -XMP_END)
			FAIL("end:xmp_stop_module", "frame after xmp_stop_module returned %d", rc);
		break;
	case OP_FLAGS:
	case OP_CFLAGS:
	case OP_MODE:
		cls = op == OP_FLAGS ? "set_flags" : op == OP_CFLAGS ? (rescans ? "set_cflags:rescan" : "set_cflags:same-timing") : "set_mode";
		if (op != OP_MODE && ret != 0)
			FAIL("ret:xmp_set_player", "%s(%d) returned %d", opname[op], arg, ret);
		if (op == OP_MODE && (arg < XMP_MODE_AUTO || arg > XMP_MODE_ITSMP) && (ret != -XMP_ERROR_INVALID || strcmp(pre, post)))
			FAIL("refuse:xmp_set_player", "set_mode(%d) returned %d or changed state", arg, ret);
		if (linear_mod && !failed) {
			/* the order times that position control uses must be those of the timing mode in force:
			 * render one pass of straight playback and compare the time each order is really entered */
			measure_times(0);
			for (i = 0; i < mod->len; i++)
				if (real_time[i] >= 0 && p->sequence_control[i] == 0 &&
				    (real_time[i] - m->xxo_info[i].time > 1.5 || real_time[i] - m->xxo_info[i].time < -1.5)) {
					FAIL("times:xmp_set_player", "after %s(%d) (flags now %d): playback enters order %d at %.1f ms, the table used by xmp_seek_time says %d ms",
					     opname[op], arg, p->flags, i, real_time[i], m->xxo_info[i].time);
					break;
				}
		}
		break;
	case OP_START: {
		/* a (re)started player plays the main sequence from its first pattern */
		int t = 0;
		while (t < len && !valid_ord(t) && !(marker && mod->xxo[t] == 0xff))
			t++;
		cls = arg ? "start:playing" : "start:stopped";
		if (fi.sequence != 0)
			FAIL("sequence:xmp_start_player", "player started after sequence %d was selected: frame info reports sequence %d, not 0", seq_real, fi.sequence);
		if (valid_ord(t)) {
			if (rc != 0 || fi.pos != t || fi.row != 0 || fi.frame != 0)
				FAIL("land:xmp_start_player", "player start: frame rc=%d pos=%d row=%d frame=%d, expected order %d row 0 frame 0", rc, fi.pos,
				     fi.row, fi.frame, t);
			if (fi.loop_count != 0 && !(p->scan[0].num == 0 && t == p->scan[0].ord && 0 == p->scan[0].row))
				FAIL("loop:xmp_start_player", "player start: loop count %d in the first frame", fi.loop_count);
		}
		break; }
	}
	if (!failed)
		fprintf(O, "oracle ok %s\n", cls);
	if (op == OP_STOP)
		step_plain("restart");
	(void)aft;
}

/* ---------------------------------------------------------------- generator */

static int clampi(long long v)
{
	return v > 2147483647LL ? 2147483647 : v < -2147483647LL ? -2147483647 : (int)v;
}

static void gen_cases(int thorough, int ncases)
{
	struct module_data *m = &C->m;
	struct xmp_module *mod = &m->mod;
	struct player_data *p = &C->p;
	int k, len = mod->len;
	int sweep_pos = -2, sweep_row = -1, sweep_seek = 0;
	int total = ncases, after_start = 0;

	if (thorough) {
		/* exhaustive targets: every order (+ both refused neighbours), every info time +-1, rows swept */
		int need = (len + 3) * 2 + len * 3 + 64;
		if (total < need)
			total = need;
	}
	for (k = 0; k < total; k++) {
		int r = vrng_below(100), op, arg = 0;
		if (after_start > 0) {		/* relative / time calls right after a player start */
			after_start--;
			if (vrng_chance(75))
				r = vrng_chance(40) ? 80 : 34 + (int)vrng_below(2) * 14;	/* seek, next or prev */
		}
		/* move to a playback point */
		if (vrng_chance(8))
			step_plain("restart");
		if (vrng_chance(12) && len > 0 && !after_start) {
			int t = vrng_below(len);
			fprintf(O, "s setpos %d\n", t);
			xmp_set_position(X, t);
			track_setpos(t);
		}
		step_play(after_start ? vrng_range(0, 3) : vrng_chance(70) ? vrng_range(0, 12) : vrng_range(0, 90));
		/* pending flow state: injected jump / break / pattern delay / pattern loop / row delay */
		if (linear_mod && vrng_chance(35))
			r = 93;		/* restart, followed by the duration oracle */
		else if (linear_mod && vrng_chance(30))
			r = 80;		/* seek, judged against the measured entry times */
		else if (linear_mod && vrng_chance(35))
			r = 90;		/* timing mode change */
		if (mod->chn > 0 && vrng_chance(45) && !linear_mod) {
			int c = vrng_below(mod->chn), w = vrng_below(7);
			switch (w) {
			case 0: step_inject(c, FX_JUMP, vrng_below(len > 0 ? len : 1)); break;
			case 1: step_inject(c, FX_BREAK, vrng_below(64)); break;
			case 2: step_inject(c, FX_EXTENDED, (EX_PATT_DELAY << 4) | vrng_range(1, 15)); break;
			case 3: step_inject(c, FX_EXTENDED, (EX_PATTERN_LOOP << 4) | 0); break;
			case 4: step_inject(c, FX_EXTENDED, (EX_PATTERN_LOOP << 4) | vrng_range(1, 4)); break;
			case 5: step_inject(c, FX_IT_ROWDELAY, vrng_range(1, 6)); break;
			case 6: step_inject(c, FX_JUMP, vrng_below(len > 0 ? len : 1));
				step_inject((c + 1) % mod->chn, FX_BREAK, vrng_below(64)); break;
			}
			step_play(vrng_range(1, 3));
		}
		if (vrng_chance(6) && !after_start) {		/* call while another reposition is pending */
			int t = vrng_below(len > 0 ? len : 1);
			fprintf(O, "s setpos %d\n", t);
			xmp_set_position(X, t);
			track_setpos(t);
		}
		if (r >= 62 && r < 76 && vrng_chance(35) && len > 0) {
			/* xmp_set_row back to back with another position call: the row must survive the reposition */
			switch (vrng_below(5)) {
			case 0: { int t = vrng_below(len); fprintf(O, "s setpos %d\n", t); xmp_set_position(X, t); track_setpos(t); break; }
			case 1: step_call("next", 0); break;
			case 2: step_call("prev", 0); break;
			case 3: { int tm = m->xxo_info[vrng_below(len)].time; step_call("seek", tm < 0 ? 0 : tm); break; }
			case 4: step_plain("restart"); break;
			}
		}
		/* choose the call */
		if (r < 34) {
			op = OP_SETPOS;
			if (thorough && sweep_pos <= len + 1 && vrng_chance(70)) {
				arg = sweep_pos++;
			} else {
				int w = vrng_below(10);
				arg = w == 0 ? -1 - (int)vrng_below(3) : w == 1 ? len + (int)vrng_below(3) :
				      w == 2 ? (p->ord) : w == 3 ? 0 : (int)vrng_below(len > 0 ? len : 1);
			}
		} else if (r < 48) {
			op = OP_NEXT;
		} else if (r < 62) {
			op = OP_PREV;
		} else if (r < 76) {
			int cp = (p->pos < 0 || p->pos >= len) ? 0 : p->pos;
			int pt = mod->xxo[cp];
			int nr = pt < mod->pat ? mod->xxp[pt]->rows : 0;
			op = OP_SETROW;
			if (thorough && vrng_chance(60)) {
				sweep_row = (sweep_row + 1) % (nr + 2);
				arg = sweep_row - 1;
			} else {
				int w = vrng_below(8);
				arg = w == 0 ? -1 - (int)vrng_below(3) : w == 1 ? nr + (int)vrng_below(3) : w == 2 ? nr - 1 :
				      (int)vrng_below(nr > 0 ? nr : 1);
			}
		} else if (r < 90) {
			op = OP_SEEK;
			if (len > 0) {
				int i = thorough && vrng_chance(70) ? (sweep_seek++ / 3) % len : (int)vrng_below(len);
				int d = thorough ? (sweep_seek % 3) - 1 : vrng_range(-1, 1);
				arg = clampi((long long)m->xxo_info[i].time + d);
				if (vrng_chance(10))
					arg = vrng_chance(50) ? -1 - (int)vrng_below(1000) : clampi((long long)p->scan[p->sequence].time + vrng_range(-2, 500));
				if (vrng_chance(linear_mod ? 70 : 10))
					arg = vrng_below(p->scan[p->sequence].time > 0 ? p->scan[p->sequence].time : 1);
			}
		} else if (r < 92) {
			/* timing mode / personality changes between the position calls */
			int w = vrng_below(linear_mod ? 8 : 10);
			if (w < 5) {
				op = OP_CFLAGS;
				arg = vrng_chance(50) ? XMP_FLAGS_VBLANK : 0;
				if (vrng_chance(15))
					arg |= XMP_FLAGS_FX9BUG;
			} else if (w < 8) {
				op = OP_FLAGS;
				arg = vrng_chance(50) ? XMP_FLAGS_VBLANK : 0;
			} else {
				op = OP_MODE;
				arg = vrng_chance(12) ? (vrng_chance(50) ? -1 : XMP_MODE_ITSMP + 1) :
				      mod->pat > 254 ? vrng_range(XMP_MODE_AUTO, XMP_MODE_PROTRACKER) : vrng_range(XMP_MODE_AUTO, XMP_MODE_ITSMP);
			}
		} else if (r < 94) {
			op = OP_RESTART;
		} else if (r < 97) {
			op = OP_STOP;
		} else {
			/* player restart in the middle of the history, usually while another sub-song is selected */
			op = OP_START;
			arg = vrng_below(2);
			if (m->num_sequences > 1 && vrng_chance(70)) {
				int q = 1 + vrng_below(m->num_sequences - 1), t = m->seq_data[q].entry_point;
				fprintf(O, "s setpos %d\n", t);
				xmp_set_position(X, t);
				track_setpos(t);
				step_play(vrng_range(0, 6));
			}
			after_start = 2;
		}
		do_case(op, arg);
	}
}

static int open_module(const char *path)
{
	int rc;
	const char *bn = strrchr(path, '/');
	linear_mod = strncmp(bn ? bn + 1 : path, "lin", 3) == 0;
	real_valid = 0;
	cur_path = path;
	X = xmp_create_context();
	C = (struct context_data *)X;
	snprintf(cur_what, sizeof cur_what, "load");
	alarm(60);
	rc = is_synth(path) ? load_synth(C, path) : xmp_load_module(X, path);
	alarm(0);
	if (rc < 0) {
		fprintf(O, "skip %s %d\n", path, rc);
		if (!is_synth(path) || rc == -2)
			xmp_free_context(X);
		return -1;
	}
	if (C->m.mod.len <= 0) {	/* no order to position on */
		fprintf(O, "skip %s empty\n", path);
		xmp_release_module(X);
		xmp_free_context(X);
		return -1;
	}
	exp_seq = 0;
	if (xmp_start_player(X, RATE, FORMAT) < 0) {
		fprintf(O, "skip %s start\n", path);
		xmp_release_module(X);
		xmp_free_context(X);
		return -1;
	}
	xmp_set_player(X, XMP_PLAYER_INTERP, XMP_INTERP_NEAREST);
	return 0;
}

static void close_module(void)
{
	xmp_end_player(X);
	xmp_release_module(X);
	xmp_free_context(X);
}

static int run_script(const char *path, const char *script)
{
	FILE *f = fopen(script, "r");
	char line[256], w[64];
	int a, b, c;
	if (!f || open_module(path) < 0)
		return 2;
	dump_module(C, path);
	while (fgets(line, sizeof line, f)) {
		a = b = c = 0;
		if (sscanf(line, "%63s %d %d %d", w, &a, &b, &c) < 1)
			continue;
		if (!strcmp(w, "s")) {
			char w2[64];
			if (sscanf(line, "s %63s %d %d %d", w2, &a, &b, &c) < 1)
				continue;
			strcpy(w, w2);
		}
		if (!strcmp(w, "play"))
			step_play(a);
		else if (!strcmp(w, "inj"))
			step_inject(a, b, c);
		else if (!strcmp(w, "restart"))
			step_plain("restart");
		else if (!strcmp(w, "next") || !strcmp(w, "prev") || !strcmp(w, "seek"))
			step_call(w, a);
		else if (!strcmp(w, "measure"))
			measure_times(1);
		else if (!strcmp(w, "pass") || !strcmp(w, "measured"))
			;	/* rendered by the restart case of a linear module itself */
		else if (!strcmp(w, "endplayer"))
			;	/* emitted by the start_player case itself */
		else if (!strcmp(w, "setpos")) {
			fprintf(O, "s setpos %d\n", a);
			xmp_set_position(X, a);
			track_setpos(a);
		} else if (!strcmp(w, "op")) {
			char nm[64];
			int i;
			if (sscanf(line, "op %63s %d", nm, &a) < 1)
				continue;
			for (i = 0; i < OP_N; i++)
				if (!strcmp(nm, opname[i]))
					do_case(i, a);
		}
	}
	fclose(f);
	close_module();
	return 0;
}

int main(int argc, char **argv)
{
	int i;
	O = stdout;
	signal(SIGALRM, on_alarm);
	if (argc >= 4 && !strcmp(argv[1], "script"))
		return run_script(argv[2], argv[3]);
	if (argc >= 6 && !strcmp(argv[1], "gen")) {
		uint64_t seed = strtoull(argv[2], NULL, 10);
		int thorough = atoi(argv[3]), ncases = atoi(argv[4]);
		for (i = 5; i < argc; i++) {
			const char *b = strrchr(argv[i], '/');
			if (open_module(argv[i]) < 0)
				continue;
			vrng_seed(seed ^ fnv1a(FNV_INIT, b ? b + 1 : argv[i], strlen(b ? b + 1 : argv[i])));
			fprintf(O, "file %s\n", argv[i]);
			dump_module(C, argv[i]);
			case_no = 0;
			if (linear_mod)
				measure_times(1);
			gen_cases(thorough, ncases);
			fprintf(O, "endmod\n");
			close_module();
			fflush(O);
		}
		return 0;
	}
	fprintf(stderr, "usage: see the header of harness/c17_control.c\n");
	return 2;
}
