/* C14 harness, pan stage: src/player.c is included privately (the archive member is then not pulled) with the
 * one call site of libxmp_virt_setpan — the end of process_pan() — redirected to a spy.  For every real
 * process_pan() call the spy reads the pan sources the function used from the channel (`xc->pan.val` = channel /
 * instrument / sample default pan, set-pan effects and pan slides, `panbrello` recovered from
 * `xc->macro.notepan`, the pan envelope value at `xc->p_idx` through the real get_envelope(), the random pan
 * swing `xc->rpv`), the player mode, the output format, surround and the separation `s->mix`, and writes them
 * with the pan the function handed to the mixer as a model case for the Lean driver (drv_c14, command `pp`,
 * Xmp.MixLinear.processPan):
 *
 *   C pp <pan.val> <panbrello> <pan_envelope> <rpv> <it_mode> <mono> <surround> <mix>
 *   E <pan passed to libxmp_virt_setpan> <xc->info_finalpan>
 *
 * usage: c14_pan pp <seed> <nframes> <module>...
 * Per module: `ppstat <module> calls=… cases=… panbrello=… envelope=… rpv=… surround=… moved=… mix=…`
 * (how many calls had a non-zero panbrello, an active pan envelope (value != 32), a non-zero random swing,
 * surround, a pan.val different from the previous call of the channel).
 */
#include "vcommon.h"
#include <xmp.h>
#include "common.h"

void libxmp_virt_setpan(struct context_data *, int, int);
static void c14_spy_setpan(struct context_data *ctx, int chn, int pan);

#define libxmp_virt_setpan c14_spy_setpan
#include "player.c"
#undef libxmp_virt_setpan

#include "rng.h"

static long st_calls, st_cases, st_brello, st_env, st_rpv, st_sur, st_moved, st_nonzero_pan;
static int b_cases, g_on;
static int last_pan[XMP_MAX_CHANNELS * 4];

static void c14_spy_setpan(struct context_data *ctx, int chn, int pan)
{
	struct player_data *p = &ctx->p;
	struct mixer_data *s = &ctx->s;
	struct module_data *m = &ctx->m;
	struct channel_data *xc = &p->xc_data[chn];

	if (g_on) {
		struct xmp_instrument *instrument = libxmp_get_instrument(ctx, xc->ins);
		int penv = get_envelope(&instrument->pei, xc->p_idx, 32);
		int panbrello = xc->macro.notepan - xc->pan.val - 0x80;
		int it = IS_PLAYER_MODE_IT() ? 1 : 0;
		int mono = (s->format & XMP_FORMAT_MONO) ? 1 : 0;
		int interesting = panbrello != 0 || penv != 32 || xc->rpv != 0 || xc->pan.surround;
		int moved = 0;

		st_calls++;
		if (panbrello != 0)
			st_brello++;
		if (penv != 32)
			st_env++;
		if (xc->rpv != 0)
			st_rpv++;
		if (xc->pan.surround)
			st_sur++;
		if (pan != 0 && pan != PAN_SURROUND)
			st_nonzero_pan++;
		if (chn >= 0 && chn < XMP_MAX_CHANNELS * 4) {
			moved = last_pan[chn] != xc->pan.val;
			last_pan[chn] = xc->pan.val;
			st_moved += moved;
		}
		if (b_cases > 0 && (interesting ? vrng_chance(25) : moved ? vrng_chance(20) : vrng_chance(2))) {
			printf("C pp %d %d %d %d %d %d %d %d\nE %d %d\n", xc->pan.val, panbrello, penv, xc->rpv, it, mono,
			       xc->pan.surround ? 1 : 0, s->mix, pan, xc->info_finalpan);
			b_cases--;
			st_cases++;
		}
	}
	libxmp_virt_setpan(ctx, chn, pan);
	(void)m;
}

static const char *base_name(const char *path)
{
	const char *b = strrchr(path, '/');
	return b ? b + 1 : path;
}

static int mode_pp(uint64_t seed, int nframes, const char *path)
{
	static const int rates[] = { 8000, 11025, 22050, 44100, 48000 };
	static const int mixes[] = { 0, 100, -100, 70, -70, 1, -1, 50, 33, -99 };
	xmp_context x = xmp_create_context();
	struct context_data *ctx = (struct context_data *)x;
	const char *b = base_name(path);
	int f, fmt, mix, i;

	vrng_seed(seed * 1000003ULL + fnv1a(FNV_INIT, b, strlen(b)) + 11 * 7919ULL);
	libxmp_set_random(&ctx->rng, 0x12345678u);
	fmt = vrng_chance(85) ? 0 : (int)vrng_below(8);
	mix = vrng_chance(70) ? mixes[vrng_below(10)] : vrng_range(-100, 100);
	if (xmp_load_module(x, path) < 0 || xmp_start_player(x, rates[vrng_below(5)], fmt) < 0) {
		xmp_free_context(x);
		printf("skip %s\n", path);
		return 0;
	}
	libxmp_set_random(&ctx->rng, 0x12345678u);
	xmp_set_player(x, XMP_PLAYER_MIX, mix);
	if (vrng_chance(30))
		xmp_set_position(x, (int)vrng_below(ctx->m.mod.len > 0 ? ctx->m.mod.len : 1));
	st_calls = st_cases = st_brello = st_env = st_rpv = st_sur = st_moved = st_nonzero_pan = 0;
	for (i = 0; i < XMP_MAX_CHANNELS * 4; i++)
		last_pan[i] = -99999;
	b_cases = 160;
	g_on = 1;
	for (f = 0; f < nframes; f++) {
		if (xmp_play_frame(x) < 0)
			break;
		/* the separation may change during playback */
		if (vrng_chance(2)) {
			mix = vrng_chance(60) ? mixes[vrng_below(10)] : vrng_range(-100, 100);
			xmp_set_player(x, XMP_PLAYER_MIX, mix);
		}
	}
	g_on = 0;
	printf("ppstat %s calls=%ld cases=%ld panbrello=%ld envelope=%ld rpv=%ld surround=%ld moved=%ld nonzero_pan=%ld fmt=%d\n", b,
	       st_calls, st_cases, st_brello, st_env, st_rpv, st_sur, st_moved, st_nonzero_pan, fmt);
	xmp_end_player(x);
	xmp_release_module(x);
	xmp_free_context(x);
	return 0;
}

int main(int argc, char **argv)
{
	uint64_t seed;
	int nframes, i;

	if (argc < 5 || strcmp(argv[1], "pp") != 0) {
		fprintf(stderr, "usage: %s pp <seed> <nframes> <module>...\n", argv[0]);
		return 2;
	}
	seed = strtoull(argv[2], NULL, 10);
	nframes = atoi(argv[3]);
	for (i = 4; i < argc; i++) {
		mode_pp(seed, nframes, argv[i]);
		fflush(stdout);
	}
	return 0;
}
