/* C18 harness: reported durations / order start times vs the time actually rendered.
 *
 * usage: c18_duration <rate> <maxframes> <module>...
 *
 * For each module file (written by tools/checks/c18.py from a random linear-flow
 * module): load it with the real library, dump the loaded flow description
 * (input of the Lean model), dump what the real scan recorded, then for every
 * sequence render with xmp_play_frame from the entry point until loop_count
 * first increments and dump the row trace with times.  The direct property
 * oracle is evaluated here, on the real library only (lines `oracle_fail …`).
 *
 * Output per module:
 *   file <path>
 *   loadfail <rc>                                  (then endcase)
 *   mod <marker> <rst> <spd> <bpm> <maxframes> <speedonly>   \   (speedonly = QUIRK_NOBPM || p->flags & XMP_FLAGS_VBLANK)
 *   xxo <o0> <o1> …                                 | model input (driver reads these)
 *   pat <i> <rows> <row>:<s|t|f|d|r|j|x>:<param> …  |   (r = IT row delay SEx; f = FX_SPEED raw: speed or tempo, decided by <speedonly>)
 *   end                                            /
 *   aux chn <n> nobpm <0|1> cmpvbl <m->compare_vblank> tf <time_factor> rrate <rrate> vocab <ok|bad>
 *   scan ok nseq <n>
 *   ctl <sequence_control[0..len)>
 *   info <ord>:<time ms>:<speed>:<bpm> …           (orders with time >= 0)
 *   seq <k> ep <ep> dur <ms> end <ord> <row> <num>
 *   play <k> frames <n> rows <r> total <us> loopinc <true|false>
 *   r <idx> <pos> <row> <speed> <bpm> <nframes> <regular> <us before> <fi.time us>
 *   rowhash <fnv of all (pos,row,speed,bpm,nframes,regular)>
 *   tour <visits> ok <n>                           (reposition tour, multi-sequence modules only)
 *   restarts <visits> ok <n>                       (xmp_end_player + xmp_start_player, xmp_restart_module)
 *   vscan nseq <n> / vseq <k> ep <ep> dur <ms> end <ord> <row> <num>
 *                                                  (the rescan after xmp_set_player(XMP_PLAYER_CFLAGS, … | XMP_FLAGS_VBLANK);
 *                                                   the driver computes the same with the VBlank flag set)
 *   cfg <tag> seqs <n> ok <m>                      (oracle under a configuration change that triggers a rescan, or a
 *                                                   small voice count; failures: oracle_fail … cfg <tag>)
 *   oracle_fail <kind> …
 *   endcase
 *
 * Reposition tour (oracle only): with ONE running player, play part of a sequence, xmp_set_position to
 * the entry point of another one, render it until the loop counter increments and compare the rendered
 * time and the row trace with the reported duration / the trace of the fresh run; go on to the next
 * sequence (and back).  The speed / tempo the previous sequence ended with must not leak.
 */
#include "vcommon.h"
#include <xmp.h>
#include <math.h>
#include "common.h"   /* /repo/src/common.h (private) */
#include "effects.h"

struct rowg {
	int pos, row, speed, bpm, n, regular;
	double t_before;	/* sum of frame_time (ms) before the row */
	int fi_time;		/* xmp_frame_info.time after the first frame of the row */
};

static struct rowg *rows;
static int nrows, caprows;

/* flow effect of every pattern row, as dumped (for the IT row delay repeats) */
static char rowfx_kind[256][256];
static unsigned char rowfx_param[256][256];

/* per sequence: what the fresh run rendered (for the reposition tour) */
static uint64_t fresh_hash[256];
static int fresh_frames[256], fresh_ok[256];

static void push_row(struct rowg *g)
{
	if (nrows == caprows) {
		caprows = caprows ? caprows * 2 : 1024;
		rows = (struct rowg *)realloc(rows, caprows * sizeof(*rows));
	}
	rows[nrows++] = *g;
}

/* classify the flow effect of one (type, parameter) pair; 0 = not a flow effect */
static char classify(struct module_data *m, int fxt, int fxp, int *param)
{
	*param = fxp;
	switch (fxt) {
	case 0:
		return 0;
	case FX_SPEED:
		/* speed or tempo: both scan.c and effects.c decide by QUIRK_NOBPM || p->flags & XMP_FLAGS_VBLANK || fxp < 0x20;
		 * dumped raw, the model decodes it with the flag of the configuration */
		(void)m;
		return fxp ? 'f' : 'x';
	case FX_S3M_SPEED:
		return fxp ? 's' : 'x';
	case FX_S3M_BPM:
		return fxp >= 0x20 ? 't' : 'x';
	case FX_IT_BPM:
		return fxp >= 0x20 ? 't' : 'x';
	case FX_JUMP:
		return 'j';
	case FX_EXTENDED:
		if ((fxp >> 4) == EX_PATT_DELAY) {
			*param = fxp & 0x0f;
			return 'd';
		}
		if ((fxp >> 4) == EX_PATTERN_LOOP)
			return 'x';
		return 0;
	case FX_IT_ROWDELAY:
		return fxp <= 15 ? 'r' : 'x';
	case FX_BREAK:
	case FX_IT_BREAK:
	case FX_LINE_JUMP:
	case FX_SPEED_CP:
	case FX_ICE_SPEED:
	case FX_FAR_TEMPO:
	case FX_FAR_F_TEMPO:
	case FX_ULT_TEMPO:
	case FX_PATT_DELAY:
	case FX_GLOBALVOL:
	case FX_GVOL_SLIDE:
		return 'x';
	}
	return 0;
}

static int dump_module(struct context_data *ctx, int maxframes)
{
	struct module_data *m = &ctx->m;
	struct xmp_module *mod = &m->mod;
	int i, r, c, bad = 0;

	printf("mod %d %d %d %d %d %d\n", (m->quirk & QUIRK_MARKER) ? 1 : 0, mod->rst, mod->spd, mod->bpm, maxframes,
	       ((m->quirk & QUIRK_NOBPM) || (ctx->p.flags & XMP_FLAGS_VBLANK)) ? 1 : 0);
	printf("xxo");
	for (i = 0; i < mod->len; i++)
		printf(" %d", mod->xxo[i]);
	printf("\n");
	for (i = 0; i < mod->pat; i++) {
		int nr = mod->xxp[i]->rows;
		printf("pat %d %d", i, nr);
		if (nr < 1 || nr > 256)
			bad = 1;
		for (r = 0; r < nr; r++) {
			char kind = 0;
			int param = 0, count = 0;
			for (c = 0; c < mod->chn; c++) {
				struct xmp_track *t = mod->xxt[mod->xxp[i]->index[c]];
				struct xmp_event *e;
				int p1, p2;
				char k1, k2;
				if (r >= t->rows)
					continue;
				e = &t->event[r];
				k1 = classify(m, e->fxt, e->fxp, &p1);
				k2 = classify(m, e->f2t, e->f2p, &p2);
				if (k1) {
					kind = k1;
					param = p1;
					count++;
				}
				if (k2) {
					kind = k2;
					param = p2;
					count++;
				}
			}
			if (count > 1)
				kind = 'x';
			if (kind == 'x')
				bad = 1;
			if (i < 256 && r < 256) {
				rowfx_kind[i][r] = kind;
				rowfx_param[i][r] = (unsigned char)param;
			}
			if (kind)
				printf(" %d:%c:%d", r, kind, param);
		}
		printf("\n");
	}
	printf("end\n");
	if (m->time_factor != 10.0 || m->rrate != 250.0 || (ctx->p.flags & XMP_FLAGS_VBLANK))
		bad = 1;
	printf("aux chn %d nobpm %d cmpvbl %d tf %g rrate %g vocab %s\n", mod->chn, (m->quirk & QUIRK_NOBPM) ? 1 : 0,
	       m->compare_vblank ? 1 : 0, m->time_factor, m->rrate, bad ? "bad" : "ok");
	return bad;
}

static long us(double ms)
{
	return (long)floor(ms * 1000.0 + 0.5);
}

/* where play_sequence writes (stdout, or a memory stream when only the oracle lines are wanted) */
static FILE *OUT;

static void play_sequence(xmp_context opaque, int k, int rate, int maxframes)
{
	struct context_data *ctx = (struct context_data *)opaque;
	struct module_data *m = &ctx->m;
	struct player_data *p = &ctx->p;
	struct xmp_module *mod = &m->mod;
	struct xmp_frame_info fi;
	static unsigned char played[256][256];
	static unsigned char entered[256];
	int ep = m->seq_data[k].entry_point;
	int duration = m->seq_data[k].duration;
	double total = 0.0, min_tick = 1e9;
	long total_fi_us = 0, total_samples = 0;
	int frames = 0, loopinc = 0, late = 0, rc, i;
	int repeats = 0;	/* consecutive IT row delay repeats of the current row */
	uint64_t h = FNV_INIT;

	fresh_ok[k & 255] = 0;
	nrows = 0;
	memset(played, 0, sizeof(played));
	memset(entered, 0, sizeof(entered));

	if (xmp_start_player(opaque, rate, XMP_FORMAT_MONO | XMP_FORMAT_8BIT) != 0) {
		fprintf(OUT, "oracle_fail start_player seq %d\n", k);
		return;
	}
	rc = xmp_set_position(opaque, ep);
	if (rc != ep) {
		/* documented: returns the new position; for entry points that are skip markers the
		 * library moves forward, anything else is unexpected */
		fprintf(OUT, "note set_position %d -> %d\n", ep, rc);
	}

	while (frames < maxframes) {
		double ft;
		int expect_size;
		rc = xmp_play_frame(opaque);
		if (rc != 0) {
			fprintf(OUT, "oracle_fail play_frame seq %d frame %d rc %d\n", k, frames, rc);
			break;
		}
		xmp_get_frame_info(opaque, &fi);
		if (fi.sequence != k) {
			fprintf(OUT, "oracle_fail sequence seq %d frame %d reports %d\n", k, frames, fi.sequence);
			break;
		}
		if (fi.loop_count > 0) {
			/* The loop counter must increment exactly on re-entering a row already played
			 * (or on entering an order that belongs to another sequence); the repeats of an
			 * IT row delay (SEx: the row is entered 1 + x times) are not re-entries. */
			int foreign = p->sequence_control[fi.pos] != k;
			int pat = mod->xxo[fi.pos];
			int legit = fi.frame == 0 && nrows > 0 && rows[nrows - 1].pos == fi.pos && rows[nrows - 1].row == fi.row &&
				pat < 256 && fi.row < 256 && rowfx_kind[pat][fi.row] == 'r' && repeats < rowfx_param[pat][fi.row];
			loopinc = 1;
			if (!late && legit) {
				fprintf(OUT, "oracle_fail loop_early seq %d frame %d pos %d row %d: loop counter incremented inside a row delay\n",
				       k, frames, fi.pos, fi.row);
			} else
			if (!late && (fi.frame != 0 || !(played[fi.pos][fi.row & 255] || foreign))) {
				fprintf(OUT, "oracle_fail loop_early seq %d frame %d pos %d row %d fr %d: loop counter incremented on a row not played before\n",
				       k, frames, fi.pos, fi.row, fi.frame);
			}
			break;
		}
		ft = p->frame_time;		/* ms, double */
		if (ft < min_tick)
			min_tick = ft;
		if (fi.frame == 0) {
			struct rowg g;
			int foreign = p->sequence_control[fi.pos] != k;
			int pat = mod->xxo[fi.pos];
			int legit = nrows > 0 && rows[nrows - 1].pos == fi.pos && rows[nrows - 1].row == fi.row &&
				pat < 256 && fi.row < 256 && rowfx_kind[pat][fi.row] == 'r' && repeats < rowfx_param[pat][fi.row];
			repeats = legit ? repeats + 1 : 0;
			if ((played[fi.pos][fi.row & 255] || foreign) && !late && !legit) {
				/* reported once; rendering goes on so that the trace can still be compared with the model */
				late = 1;
				fprintf(OUT, "oracle_fail loop_late seq %d frame %d pos %d row %d: row %s re-entered without loop counter increment\n",
				       k, frames, fi.pos, fi.row, foreign ? "of another sequence" : "already played");
			}
			played[fi.pos][fi.row & 255] = 1;
			if (!entered[fi.pos] && !late) {
				/* first entry of this order: the recorded start time must be the rendered time */
				double rec = m->xxo_info[fi.pos].time;
				entered[fi.pos] = 1;
				if (fabs(rec - total) >= ft) {
					fprintf(OUT, "oracle_fail order_time seq %d pos %d recorded %d ms rendered %.3f ms tick %.3f\n",
					       k, fi.pos, m->xxo_info[fi.pos].time, total, ft);
				}
				/* the public view: frame_info.time after the first frame of the order */
				if (fabs((double)fi.time - (total + ft)) >= ft + 1.0) {
					fprintf(OUT, "oracle_fail order_time_public seq %d pos %d fi.time %d rendered %.3f ms\n",
					       k, fi.pos, fi.time, total + ft);
				}
			}
			g.pos = fi.pos;
			g.row = fi.row;
			g.speed = fi.speed;
			g.bpm = fi.bpm;
			g.n = 1;
			g.regular = 1;
			g.t_before = total;
			g.fi_time = fi.time;
			push_row(&g);
		} else if (nrows == 0) {
			struct rowg g = { fi.pos, fi.row, fi.speed, fi.bpm, 1, 0, 0.0, fi.time };
			push_row(&g);
		} else {
			struct rowg *g = &rows[nrows - 1];
			if (fi.pos != g->pos || fi.row != g->row || fi.speed != g->speed || fi.bpm != g->bpm || fi.frame != g->n)
				g->regular = 0;
			g->n++;
		}
		/* the tick the mixer rendered has the length the reported tempo implies */
		expect_size = (int)(rate * 10.0 * 250.0 / fi.bpm / 1000);
		if (fi.buffer_size != expect_size) {
			fprintf(OUT, "oracle_fail buffer_size seq %d frame %d bpm %d size %d expected %d\n", k, frames, fi.bpm,
			       fi.buffer_size, expect_size);
			break;
		}
		if (fabs(ft - 2500.0 / fi.bpm) > 1e-9 || labs((long)fi.frame_time - (long)(ft * 1000)) > 1) {
			fprintf(OUT, "oracle_fail frame_time seq %d frame %d bpm %d frame_time %.6f fi %d\n", k, frames, fi.bpm, ft, fi.frame_time);
			break;
		}
		total += ft;
		total_fi_us += fi.frame_time;
		total_samples += fi.buffer_size;
		frames++;
	}
	xmp_end_player(opaque);

	if (frames >= maxframes) {
		fprintf(OUT, "cap seq %d\n", k);
		return;
	}
	if (!loopinc)
		return;

	/* duration vs rendered time: within one tick */
	if (min_tick > 1e8)
		min_tick = 0.0;
	if (!late && fabs((double)duration - total) >= min_tick) {
		fprintf(OUT, "oracle_fail duration seq %d reported %d ms rendered %.3f ms (one tick = %.3f ms)\n", k, duration, total, min_tick);
	}
	/* independent sums: the public integer frame_time (us, truncated per frame) and the sample count */
	if (!late && fabs(total_fi_us / 1000.0 - duration) >= min_tick + frames / 1000.0) {
		fprintf(OUT, "oracle_fail duration_public seq %d reported %d ms sum fi.frame_time %.3f ms\n", k, duration, total_fi_us / 1000.0);
	}
	if (!late && fabs(total_samples * 1000.0 / rate - duration) >= min_tick + frames * 1000.0 / rate) {
		fprintf(OUT, "oracle_fail duration_samples seq %d reported %d ms rendered samples %.3f ms\n", k, duration, total_samples * 1000.0 / rate);
	}
	if (fi.total_time != duration) {
		fprintf(OUT, "oracle_fail total_time seq %d frame_info.total_time %d duration %d\n", k, fi.total_time, duration);
	}

	fprintf(OUT, "play %d frames %d rows %d total %ld loopinc %s\n", k, frames, nrows, us(total), loopinc ? "true" : "false");
	for (i = 0; i < nrows; i++) {
		struct rowg *g = &rows[i];
		int v[6], j;
		v[0] = g->pos; v[1] = g->row; v[2] = g->speed; v[3] = g->bpm; v[4] = g->n; v[5] = g->regular;
		for (j = 0; j < 6; j++) {
			h = (h ^ (uint64_t)v[j]) * 0x100000001b3ULL;
		}
		if (i < 40 || i + 5 >= nrows || g->row == 0)
			fprintf(OUT, "r %d %d %d %d %d %d %d %ld %ld\n", i, g->pos, g->row, g->speed, g->bpm, g->n, g->regular,
			       us(g->t_before), (long)g->fi_time * 1000L);
	}
	fprintf(OUT, "rowhash %llu\n", (unsigned long long)h);
	if (!late) {
		fresh_hash[k & 255] = h;
		fresh_frames[k & 255] = frames;
		fresh_ok[k & 255] = 1;
	}
}

/* Render with the running player until the loop counter exceeds `base`; compare what was rendered with
 * sequence k's reported duration and with the trace of its fresh run.  Returns 1 if the loop point was
 * reached (whatever the comparison said), 0 if not (frame budget, error). */
static int measure(xmp_context opaque, int k, int base, int *budget, const char *label, int visit, int *okv)
{
	struct context_data *ctx = (struct context_data *)opaque;
	struct module_data *m = &ctx->m;
	struct player_data *p = &ctx->p;
	struct xmp_frame_info fi;
	int duration = m->seq_data[k].duration;
	int frames = 0, nr = 0, lpos = -1, lrow = -1, ln = 0, lspeed = 0, lbpm = 0, lreg = 1, done = 0, rc;
	double total = 0.0, min_tick = 1e9;
	uint64_t h = FNV_INIT;

	while ((*budget)-- > 0) {
		double ft;
		rc = xmp_play_frame(opaque);
		if (rc != 0) {
			printf("oracle_fail %s_play_frame seq %d visit %d rc %d\n", label, k, visit, rc);
			return 0;
		}
		xmp_get_frame_info(opaque, &fi);
		if (fi.sequence != k) {
			printf("oracle_fail %s_sequence seq %d visit %d reports %d\n", label, k, visit, fi.sequence);
			return 0;
		}
		if (fi.loop_count > base) {
			done = 1;
			break;
		}
		ft = p->frame_time;
		if (ft < min_tick)
			min_tick = ft;
		if (fi.frame == 0) {
			if (nr > 0) {
				int w[6], j;
				w[0] = lpos; w[1] = lrow; w[2] = lspeed; w[3] = lbpm; w[4] = ln; w[5] = lreg;
				for (j = 0; j < 6; j++)
					h = (h ^ (uint64_t)w[j]) * 0x100000001b3ULL;
			}
			nr++;
			lpos = fi.pos; lrow = fi.row; lspeed = fi.speed; lbpm = fi.bpm; ln = 1; lreg = 1;
		} else {
			if (nr == 0 || fi.pos != lpos || fi.row != lrow || fi.speed != lspeed || fi.bpm != lbpm || fi.frame != ln)
				lreg = 0;
			ln++;
		}
		total += ft;
		frames++;
	}
	if (!done)
		return 0;		/* frame budget used up */
	if (nr > 0) {
		int w[6], j;
		w[0] = lpos; w[1] = lrow; w[2] = lspeed; w[3] = lbpm; w[4] = ln; w[5] = lreg;
		for (j = 0; j < 6; j++)
			h = (h ^ (uint64_t)w[j]) * 0x100000001b3ULL;
	}
	if (min_tick > 1e8)
		min_tick = 0.0;
	if (fabs((double)duration - total) >= min_tick) {
		printf("oracle_fail %s_duration seq %d visit %d: reported %d ms rendered %.3f ms (one tick = %.3f ms)\n",
		       label, k, visit, duration, total, min_tick);
	} else if (frames != fresh_frames[k] || h != fresh_hash[k]) {
		printf("oracle_fail %s_rows seq %d visit %d: %d frames hash %llu, fresh run %d frames hash %llu\n",
		       label, k, visit, frames, (unsigned long long)h, fresh_frames[k], (unsigned long long)fresh_hash[k]);
	} else {
		(*okv)++;
	}
	if (fi.total_time != duration)
		printf("oracle_fail %s_total_time seq %d visit %d frame_info.total_time %d duration %d\n", label, k, visit, fi.total_time, duration);
	return 1;
}

static uint64_t lcg(uint64_t *rng)
{
	*rng = *rng * 6364136223846793005ULL + 1442695040888963407ULL;
	return *rng >> 33;
}

static void play_some(xmp_context opaque, int n, int *budget)
{
	for (; n > 0 && *budget > 0; n--, (*budget)--) {
		if (xmp_play_frame(opaque) != 0)
			break;
	}
}

/* Reposition tour: one running player, xmp_set_position from sequence to sequence; then player restarts
 * (xmp_end_player + xmp_start_player after another sequence was selected; xmp_restart_module in the
 * middle of a sequence, preferably in the middle of a pattern-delay / row-delay row). */
static void tour(xmp_context opaque, int rate, int maxframes, uint64_t seed)
{
	struct context_data *ctx = (struct context_data *)opaque;
	struct module_data *m = &ctx->m;
	struct player_data *p = &ctx->p;
	struct xmp_frame_info fi;
	int nseq = m->num_sequences, visits = 0, okv = 0, v, k, i;
	uint64_t rng = seed | 1;
	int budget = maxframes;
	int rvisits = 0, rok = 0;

	if (nseq < 1 || nseq > 255)
		return;
	for (k = 0; k < nseq; k++) {
		if (!fresh_ok[k])
			return;		/* capped or already failing: the per-sequence oracle has reported */
	}
	if (xmp_start_player(opaque, rate, XMP_FORMAT_MONO | XMP_FORMAT_8BIT) != 0) {
		printf("oracle_fail tour_start\n");
		return;
	}
	if (nseq >= 2) {
		/* play a part of the main sequence first, so that the player state is in the middle of it */
		play_some(opaque, (int)(lcg(&rng) % (uint64_t)(fresh_frames[0] + 1)), &budget);
		/* visit every sequence twice, in an order that changes the predecessor: 1, 2, …, n-1, 0, n-1, …, 1, 0 */
		for (v = 0; v < 2 * nseq && budget > 0; v++) {
			int base;
			k = v < nseq ? (v + 1) % nseq : (2 * nseq - 1 - v) % nseq;
			xmp_set_position(opaque, m->seq_data[k].entry_point);
			if (p->pos == p->ord)
				continue;	/* the target (after skip markers) is the order being played: xmp_play_frame sees no
						 * reposition and goes on in the middle of it -- not a run from the sequence start */
			xmp_get_frame_info(opaque, &fi);
			base = fi.loop_count;
			visits++;
			if (!measure(opaque, k, base, &budget, "tour", v, &okv))
				break;
			/* go on into the loop for a while: the next reposition starts from the middle of this sequence */
			play_some(opaque, (int)(lcg(&rng) % (uint64_t)(fresh_frames[k] + 1)), &budget);
		}
	}
	printf("tour %d ok %d\n", visits, okv);

	/* A: another sequence selected, then the player is stopped and started again: order 0 of the main
	 * sequence plays, with the main sequence's duration and end point */
	if (nseq >= 2 && budget > 0) {
		k = 1 + (int)(lcg(&rng) % (uint64_t)(nseq - 1));
		xmp_set_position(opaque, m->seq_data[k].entry_point);
		play_some(opaque, 1 + (int)(lcg(&rng) % (uint64_t)(fresh_frames[k] + 1)), &budget);
		xmp_end_player(opaque);
		if (xmp_start_player(opaque, rate, XMP_FORMAT_MONO | XMP_FORMAT_8BIT) != 0) {
			printf("oracle_fail restart_start\n");
			return;
		}
		rvisits++;
		if (!measure(opaque, 0, 0, &budget, "startplayer", k, &rok))
			goto out;
		play_some(opaque, (int)(lcg(&rng) % (uint64_t)(fresh_frames[0] + 1)), &budget);
	}
	/* B: xmp_restart_module in the middle of each sequence in turn (stopping, if one comes up soon enough, in
	 * the middle of a row that is being delayed): the sequence plays again from its entry point */
	for (v = 0; v < nseq && v < 4 && budget > 0; v++) {
		int limit, found = 0;
		k = v == 0 ? 0 : 1 + (int)(lcg(&rng) % (uint64_t)(nseq - 1));
		if (v > 0) {
			xmp_set_position(opaque, m->seq_data[k].entry_point);
			if (p->pos == p->ord)
				continue;
		} else if (p->sequence != 0) {
			continue;
		}
		play_some(opaque, 1 + (int)(lcg(&rng) % (uint64_t)(fresh_frames[k] + 1)), &budget);
		limit = fresh_frames[k] + 1;
		for (i = 0; i < limit && budget > 0; i++, budget--) {
			if ((p->flow.delay > 0 || p->flow.rowdelay > 0) && p->frame >= 1) {
				found = 1;
				break;
			}
			if (xmp_play_frame(opaque) != 0)
				break;
		}
		xmp_restart_module(opaque);
		rvisits++;
		if (!measure(opaque, k, 0, &budget, found ? "restart_in_delay" : "restart", k, &rok))
			goto out;
	}
out:
	xmp_end_player(opaque);
	printf("restarts %d ok %d\n", rvisits, rok);
}

/* The duration / order time / loop counter oracle under a configuration: a fresh context, the module loaded,
 * the configuration applied (a rescan happens inside the library where the configuration calls for one), then every
 * sequence rendered from its entry point.  Only the oracle lines are kept, tagged with the configuration. */
enum { CFG_CFLAGS_VBLANK, CFG_CFLAGS_OFF, CFG_FLAGS_LOAD, CFG_MODE, CFG_VOICES, CFG_MODE_VOICES, CFG_REFUSED };

/* What the library reports about the scan: a refused xmp_set_player() must leave all of it exactly as it was. */
struct scan_snap {
	int nseq, len, quirk, read_event_type, flow_mode, period_type, mode, flags;
	int ep[256], dur[256], sord[256], srow[256], snum[256], stime[256];
	int otime[256], ospeed[256], obpm[256];
};

static void take_snap(struct context_data *ctx, struct scan_snap *sn)
{
	struct module_data *m = &ctx->m;
	struct player_data *p = &ctx->p;
	int k;

	memset(sn, 0, sizeof(*sn));
	sn->nseq = m->num_sequences;
	sn->len = m->mod.len;
	sn->quirk = m->quirk;
	sn->read_event_type = m->read_event_type;
	sn->flow_mode = m->flow_mode;
	sn->period_type = m->period_type;
	sn->mode = p->mode;
	sn->flags = p->flags;
	for (k = 0; k < m->num_sequences && k < 256; k++) {
		sn->ep[k] = m->seq_data[k].entry_point;
		sn->dur[k] = m->seq_data[k].duration;
		sn->sord[k] = p->scan[k].ord;
		sn->srow[k] = p->scan[k].row;
		sn->snum[k] = p->scan[k].num;
		sn->stime[k] = p->scan[k].time;
	}
	for (k = 0; k < m->mod.len && k < 256; k++) {
		sn->otime[k] = m->xxo_info[k].time;
		sn->ospeed[k] = m->xxo_info[k].speed;
		sn->obpm[k] = m->xxo_info[k].bpm;
	}
}

/* 0 if nothing changed; otherwise one oracle line naming the first difference */
static int same_snap(struct context_data *ctx, const struct scan_snap *a, const char *what, const char *tag)
{
	struct scan_snap b;
	int k;

	take_snap(ctx, &b);
	if (a->nseq != b.nseq || a->len != b.len) {
		printf("oracle_fail refused_changed %s: %d sequences / %d orders before, %d / %d after cfg %s\n", what, a->nseq, a->len, b.nseq, b.len, tag);
		return 1;
	}
	if (a->quirk != b.quirk || a->read_event_type != b.read_event_type || a->flow_mode != b.flow_mode ||
	    a->period_type != b.period_type || a->mode != b.mode || a->flags != b.flags) {
		printf("oracle_fail refused_changed %s: player mode / quirks / flags changed (mode %d -> %d quirk %x -> %x) cfg %s\n", what,
		       a->mode, b.mode, a->quirk, b.quirk, tag);
		return 1;
	}
	for (k = 0; k < a->nseq && k < 256; k++) {
		if (a->ep[k] != b.ep[k] || a->dur[k] != b.dur[k] || a->sord[k] != b.sord[k] || a->srow[k] != b.srow[k] ||
		    a->snum[k] != b.snum[k] || a->stime[k] != b.stime[k]) {
			printf("oracle_fail refused_changed %s: seq %d ep %d dur %d end %d %d %d time %d -> ep %d dur %d end %d %d %d time %d cfg %s\n",
			       what, k, a->ep[k], a->dur[k], a->sord[k], a->srow[k], a->snum[k], a->stime[k],
			       b.ep[k], b.dur[k], b.sord[k], b.srow[k], b.snum[k], b.stime[k], tag);
			return 1;
		}
	}
	for (k = 0; k < a->len && k < 256; k++) {
		if (a->otime[k] != b.otime[k] || a->ospeed[k] != b.ospeed[k] || a->obpm[k] != b.obpm[k]) {
			printf("oracle_fail refused_changed %s: order %d time %d speed %d bpm %d -> %d %d %d cfg %s\n", what, k,
			       a->otime[k], a->ospeed[k], a->obpm[k], b.otime[k], b.ospeed[k], b.obpm[k], tag);
			return 1;
		}
	}
	return 0;
}

static void run_cfg(const char *path, int kind, int arg, int rate, int maxframes)
{
	xmp_context opaque = xmp_create_context();
	struct context_data *ctx = (struct context_data *)opaque;
	struct module_data *m = &ctx->m;
	struct player_data *p = &ctx->p;
	char tag[64];
	int k, nok = 0, flags, rc = 0;
	static struct scan_snap snap;

	if (xmp_load_module(opaque, path) != 0) {
		xmp_free_context(opaque);
		return;
	}
	take_snap(ctx, &snap);
	switch (kind) {
	case CFG_CFLAGS_VBLANK:
	case CFG_CFLAGS_OFF:
		snprintf(tag, sizeof(tag), kind == CFG_CFLAGS_VBLANK ? "vblank_cflags" : "vblank_cflags_off");
		if (xmp_start_player(opaque, rate, XMP_FORMAT_MONO | XMP_FORMAT_8BIT) != 0)
			goto out;
		flags = xmp_get_player(opaque, XMP_PLAYER_CFLAGS);
		rc = xmp_set_player(opaque, XMP_PLAYER_CFLAGS, flags | XMP_FLAGS_VBLANK);
		if (rc == 0 && kind == CFG_CFLAGS_OFF)
			rc = xmp_set_player(opaque, XMP_PLAYER_CFLAGS, flags & ~XMP_FLAGS_VBLANK);
		xmp_end_player(opaque);
		break;
	case CFG_FLAGS_LOAD:
		snprintf(tag, sizeof(tag), "vblank_flags_load");
		if (xmp_start_player(opaque, rate, XMP_FORMAT_MONO | XMP_FORMAT_8BIT) != 0)
			goto out;
		flags = xmp_get_player(opaque, XMP_PLAYER_FLAGS);
		rc = xmp_set_player(opaque, XMP_PLAYER_FLAGS, flags | XMP_FLAGS_VBLANK);
		xmp_end_player(opaque);
		xmp_release_module(opaque);
		if (xmp_load_module(opaque, path) != 0) {
			xmp_free_context(opaque);
			return;
		}
		if (rc == 0 && !(p->flags & XMP_FLAGS_VBLANK))
			printf("oracle_fail flags_not_applied: XMP_PLAYER_FLAGS VBLANK set before the load, module flags %d cfg %s\n", p->flags, tag);
		break;
	case CFG_MODE:
		snprintf(tag, sizeof(tag), "mode%d", arg);
		if (xmp_start_player(opaque, rate, XMP_FORMAT_MONO | XMP_FORMAT_8BIT) != 0)
			goto out;
		rc = xmp_set_player(opaque, XMP_PLAYER_MODE, arg);
		xmp_end_player(opaque);
		break;
	case CFG_MODE_VOICES:
		/* a player mode (its read_event flavour) together with a small voice count: arg = mode | voices << 8 */
		snprintf(tag, sizeof(tag), "mode%d_voices%d", arg & 0xff, arg >> 8);
		if (xmp_start_player(opaque, rate, XMP_FORMAT_MONO | XMP_FORMAT_8BIT) != 0)
			goto out;
		rc = xmp_set_player(opaque, XMP_PLAYER_MODE, arg & 0xff);
		xmp_end_player(opaque);
		if (rc == 0)
			rc = xmp_set_player(opaque, XMP_PLAYER_VOICES, arg >> 8);
		break;
	case CFG_REFUSED: {
		/* calls the library must refuse -- invalid values, wrong state -- before, while and after playing: each must
		 * return an error and change nothing */
		static const int bad[][2] = {
			{ XMP_PLAYER_MODE, 11 }, { XMP_PLAYER_MODE, -1 }, { XMP_PLAYER_INTERP, 99 }, { XMP_PLAYER_AMP, 9 },
			{ XMP_PLAYER_MIX, 1000 }, { XMP_PLAYER_VOLUME, 999 }, { XMP_PLAYER_VOICES, 8 }, { XMP_PLAYER_DEFPAN, 50 },
			{ XMP_PLAYER_SMPCTL, 1 }, { 9999, 0 },
		};
		size_t b;
		char what[48];
		snprintf(tag, sizeof(tag), "refused_calls");
		/* not playing: everything but VOICES is a state error */
		if (xmp_set_player(opaque, XMP_PLAYER_MODE, XMP_MODE_ST3) == 0 || xmp_set_player(opaque, XMP_PLAYER_CFLAGS, XMP_FLAGS_VBLANK) == 0)
			printf("oracle_fail refused_accepted: xmp_set_player(MODE / CFLAGS) accepted while not playing cfg %s\n", tag);
		same_snap(ctx, &snap, "MODE/CFLAGS while not playing", tag);
		if (xmp_start_player(opaque, rate, XMP_FORMAT_MONO | XMP_FORMAT_8BIT) != 0)
			goto out;
		for (k = 0; k < arg; k++) {
			if (xmp_play_frame(opaque) != 0)
				break;
		}
		for (b = 0; b < sizeof(bad) / sizeof(bad[0]); b++) {
			snprintf(what, sizeof(what), "xmp_set_player(%d, %d)", bad[b][0], bad[b][1]);
			if (xmp_set_player(opaque, bad[b][0], bad[b][1]) == 0)
				printf("oracle_fail refused_accepted: %s accepted while playing cfg %s\n", what, tag);
			if (same_snap(ctx, &snap, what, tag))
				break;
		}
		xmp_end_player(opaque);
		rc = 0;
		break; }
	default:
		snprintf(tag, sizeof(tag), "voices%d", arg);
		rc = xmp_set_player(opaque, XMP_PLAYER_VOICES, arg);
		break;
	}
	if (rc != 0) {
		/* the library refused the configuration (a player mode under which nothing is playable, …): everything it
		 * reports about the scan must be exactly what it was, and still equal what is rendered */
		size_t n = strlen(tag);
		snprintf(tag + n, sizeof(tag) - n, "_refused");
		if (kind != CFG_FLAGS_LOAD)
			same_snap(ctx, &snap, "refused configuration", tag);
	}
	if (kind == CFG_CFLAGS_VBLANK) {
		/* the rescan itself, for the correspondence with the model (scan with the VBlank flag set) */
		printf("vscan nseq %d\n", m->num_sequences);
		for (k = 0; k < m->num_sequences; k++)
			printf("vseq %d ep %d dur %d end %d %d %d\n", k, m->seq_data[k].entry_point, m->seq_data[k].duration,
			       p->scan[k].ord, p->scan[k].row, p->scan[k].num);
	}
	for (k = 0; k < m->num_sequences && k < 255; k++) {
		char *buf = NULL, *line, *save = NULL;
		size_t len = 0;
		int failed = 0;
		struct xmp_module_info mi;
		FILE *mem = open_memstream(&buf, &len);
		if (mem == NULL)
			break;
		/* the public view of the (re)scan */
		xmp_get_module_info(opaque, &mi);
		if (mi.num_sequences != m->num_sequences || mi.seq_data[k].duration != m->seq_data[k].duration ||
		    p->scan[k].time != m->seq_data[k].duration)
			printf("oracle_fail module_info seq %d: %d sequences duration %d, scan %d sequences time %d cfg %s\n", k,
			       mi.num_sequences, mi.seq_data[k].duration, m->num_sequences, p->scan[k].time, tag);
		OUT = mem;
		play_sequence(opaque, k, rate, maxframes);
		OUT = stdout;
		fclose(mem);
		for (line = strtok_r(buf, "\n", &save); line; line = strtok_r(NULL, "\n", &save)) {
			if (strncmp(line, "oracle_fail", 11) == 0) {
				printf("%s cfg %s\n", line, tag);
				failed = 1;
			}
		}
		free(buf);
		if (!failed)
			nok++;
	}
	printf("cfg %s seqs %d ok %d\n", tag, m->num_sequences, nok);
out:
	xmp_release_module(opaque);
	xmp_free_context(opaque);
}

int main(int argc, char **argv)
{
	int rate, maxframes, a;

	if (argc < 4) {
		fprintf(stderr, "usage: %s <rate> <maxframes> <module>...\n", argv[0]);
		return 2;
	}
	rate = atoi(argv[1]);
	maxframes = atoi(argv[2]);
	OUT = stdout;

	for (a = 3; a < argc; a++) {
		xmp_context opaque = xmp_create_context();
		struct context_data *ctx = (struct context_data *)opaque;
		struct module_data *m = &ctx->m;
		struct player_data *p = &ctx->p;
		struct xmp_module *mod = &m->mod;
		int rc, i, k, bad;

		printf("file %s\n", argv[a]);
		rc = xmp_load_module(opaque, argv[a]);
		if (rc != 0) {
			printf("loadfail %d\nendcase\n", rc);
			xmp_free_context(opaque);
			continue;
		}
		bad = dump_module(ctx, maxframes);
		printf("scan ok nseq %d\n", m->num_sequences);
		printf("ctl");
		for (i = 0; i < mod->len; i++)
			printf(" %d", p->sequence_control[i]);
		printf("\ninfo");
		for (i = 0; i < mod->len; i++) {
			if (m->xxo_info[i].time >= 0)
				printf(" %d:%d:%d:%d", i, m->xxo_info[i].time, m->xxo_info[i].speed, m->xxo_info[i].bpm);
		}
		printf("\n");
		for (k = 0; k < m->num_sequences; k++) {
			printf("seq %d ep %d dur %d end %d %d %d\n", k, m->seq_data[k].entry_point, m->seq_data[k].duration,
			       p->scan[k].ord, p->scan[k].row, p->scan[k].num);
			if (p->scan[k].time != m->seq_data[k].duration)
				printf("oracle_fail seq_data seq %d scan time %d duration %d\n", k, p->scan[k].time, m->seq_data[k].duration);
			if (!bad)
				play_sequence(opaque, k, rate, maxframes);
			else if (k < 256)
				fresh_ok[k] = 0;
		}
		if (!bad) {
			uint64_t sd = FNV_INIT;
			const char *q = strrchr(argv[a], '/');
			/* a restart position and a 0xff order in a format without markers: the player modes that set
			 * QUIRK_MARKER turn that order into an end marker (regression: 4bf9f85) */
			int marker_mode_matters = 0;
			if (!(m->quirk & QUIRK_MARKER)) {
				for (i = 0; i < mod->len; i++) {
					if (mod->xxo[i] >= 0xfe)
						marker_mode_matters = 1;	/* also decides what is playable: the mode may be refused */
				}
			}
			for (q = q ? q + 1 : argv[a]; *q; q++)
				sd = (sd ^ (uint64_t)(unsigned char)*q) * 0x100000001b3ULL;
			tour(opaque, rate, maxframes, sd ^ (uint64_t)mod->len * 977u);
			xmp_release_module(opaque);
			xmp_free_context(opaque);
			opaque = NULL;
			/* configurations: the VBlank rescan always; one more VBlank route, one player mode and one small
			 * voice count chosen by the file name (IT: one voice always) */
			{
				size_t n = strlen(argv[a]);
				int is_it = n > 3 && strcmp(argv[a] + n - 3, ".it") == 0;
				run_cfg(argv[a], CFG_CFLAGS_VBLANK, 0, rate, maxframes);
				run_cfg(argv[a], CFG_REFUSED, (int)((sd >> 40) % 50), rate, maxframes);
				run_cfg(argv[a], (sd >> 8) & 1 ? CFG_CFLAGS_OFF : CFG_FLAGS_LOAD, 0, rate, maxframes);
				static const int mmode[4] = { XMP_MODE_S3M, XMP_MODE_ST3, XMP_MODE_ST3GUS, XMP_MODE_IT };
				if (strstr(argv[a], "/corpus/") != NULL) {
					int md;		/* regression inputs: every player mode */
					for (md = 1; md <= 10; md++)
						run_cfg(argv[a], CFG_MODE, md, rate, maxframes);
				} else {
					run_cfg(argv[a], CFG_MODE, getenv("C18_CFG_MODE") ? atoi(getenv("C18_CFG_MODE")) :
						marker_mode_matters ? mmode[(sd >> 16) % 4] : 1 + (int)((sd >> 16) % 10),
						rate, maxframes);	/* C18_CFG_MODE: replay of a recorded failure */
				}
				/* small voice counts: one voice always (every channel but the first loses the voice race), one
				 * of 2 / 3 / 4, and one voice under another read_event flavour (MOD / FT2 / ST3 / IT player mode) */
				{
					static const int vmode[4] = { XMP_MODE_MOD, XMP_MODE_FT2, XMP_MODE_ST3, XMP_MODE_IT };
					(void)is_it;
					run_cfg(argv[a], CFG_VOICES, 1, rate, maxframes);
					run_cfg(argv[a], CFG_VOICES, 2 + (int)((sd >> 24) % 3), rate, maxframes);
					run_cfg(argv[a], CFG_MODE_VOICES, vmode[(sd >> 28) % 4] | ((1 + (int)((sd >> 30) & 1)) << 8), rate, maxframes);
				}
			}
		}
		printf("endcase\n");
		fflush(stdout);
		if (opaque != NULL) {
			xmp_release_module(opaque);
			xmp_free_context(opaque);
		}
	}
	free(rows);
	return 0;
}
