/* C14 harness: the mixer is linear (mute means silence, channels superpose, separation mirrors).
 *
 * This translation unit #includes src/mixer.c privately (the archive member is then not
 * pulled).  Every mix kernel of src/mix_all.c / mix_paula.c is reached through a spy wrapper
 * (preprocessor renaming of the names in mixer.c's kernel tables), and
 * libxmp_mixer_softmixer is interposed: the library's own xmp_play_frame calls the
 * function defined here, which runs the real one (renamed real_softmixer).
 *
 * usage: c14_mixlinear <mode> <seed> <nframes> <module>...
 *
 * modes (every module's configuration derives from seed and the module's base name only, so a
 * single-module command line replays exactly):
 *   tie      accumulator-level correspondence.  Per tick: snapshot the voice state, run the real
 *            softmixer (full mix), then per voice restore the snapshot, silence all other voices,
 *            mix into the zeroed buffer; the wrapping sum of the solo buffers must equal the full
 *            buffer bit-for-bit and each voice must end in the same state as in the full mix.
 *            Emits model cases: `C <driver line>` followed by `E <expected answer>`:
 *              sum   solo windows -> full window            (Xmp.MixLinear.tick)
 *              vol   vi->vol, mvol, pan, old_v, rampsize -> kernel args vl vr [delta_l delta_r]
 *              kern  kernel args + sample frames -> words added by the real kernel
 *              dmx   accumulator word -> output sample
 *              vt    one voice's whole tick -> its solo buffer and new state
 *   lowrate  the same at XMP_MIN_SRATE with XMP_FLAGS_A500 from the start of the module (largest
 *            steps; regression configuration for the Paula kernels reading past the sample end).
 *   twin     two contexts, A with master volume 100 / separation 100 / nothing muted, B with
 *            random master, effects-mixer volume, separation and mutes: B's vi->vol / vi->pan
 *            must be the model's function of A's (cases `mst`, `pan`).
 *   silence  direct oracle: master volume 0, or every channel muted => every output sample is
 *            the mid-scale constant from the first frame.
 *   solosum  direct oracle: full render vs the sum of renders of complementary channel groups
 *            (each group soloed): within one step per group where nothing clips, unless the
 *            voice limit was reached.
 *   sep      direct oracle: separation 0 => L == R; separation m vs -m => L/R exchanged
 *            (modules without stereo samples / surround).
 *
 * Oracle failures are printed as `oracle_fail <signature> <details>`; accumulator-level
 * failures as `tie_fail <signature> <details>`.
 */
#include "vcommon.h"
#include <xmp.h>
#include "common.h"
#include "mixer.h"
#include "virtual.h"
#include "player.h"
#include "rng.h"
#include "paula.h"
#include "c14_voice_members.h"	/* generated from src/mixer.h: C14_VOICE_MEMBERS(I, D, P) */

typedef void (*kern_fp)(struct mixer_voice *, int *, int, int, int, int, int, int, int);
static void c14_kernel_call(kern_fp real, const char *name, int stereo, int kind, struct mixer_voice *vi,
			    int *buf, int count, int vl, int vr, int step, int ramp, int dl, int dr);

/* kind: 0 = no LOOP_AC part (nearest), 1 = LOOP_AC, 2 = Paula (vl <<= 8, no LOOP_AC) */
#define K(name, stereo, kind) \
	void libxmp_mix_##name(struct mixer_voice *, int *, int, int, int, int, int, int, int); \
	void spy_mix_##name(struct mixer_voice *vi, int *buf, int count, int vl, int vr, int step, \
			    int ramp, int dl, int dr) \
	{ c14_kernel_call(libxmp_mix_##name, #name, stereo, kind, vi, buf, count, vl, vr, step, ramp, dl, dr); }
K(monoout_mono_8bit_nearest, 0, 0)
K(monoout_mono_16bit_nearest, 0, 0)
K(monoout_stereo_8bit_nearest, 0, 0)
K(monoout_stereo_16bit_nearest, 0, 0)
K(stereoout_mono_8bit_nearest, 1, 0)
K(stereoout_mono_16bit_nearest, 1, 0)
K(stereoout_stereo_8bit_nearest, 1, 0)
K(stereoout_stereo_16bit_nearest, 1, 0)
K(monoout_mono_8bit_linear, 0, 1)
K(monoout_mono_16bit_linear, 0, 1)
K(monoout_stereo_8bit_linear, 0, 1)
K(monoout_stereo_16bit_linear, 0, 1)
K(stereoout_mono_8bit_linear, 1, 1)
K(stereoout_mono_16bit_linear, 1, 1)
K(stereoout_stereo_8bit_linear, 1, 1)
K(stereoout_stereo_16bit_linear, 1, 1)
K(monoout_mono_8bit_spline, 0, 1)
K(monoout_mono_16bit_spline, 0, 1)
K(monoout_stereo_8bit_spline, 0, 1)
K(monoout_stereo_16bit_spline, 0, 1)
K(stereoout_mono_8bit_spline, 1, 1)
K(stereoout_mono_16bit_spline, 1, 1)
K(stereoout_stereo_8bit_spline, 1, 1)
K(stereoout_stereo_16bit_spline, 1, 1)
K(monoout_mono_8bit_linear_filter, 0, 1)
K(monoout_mono_16bit_linear_filter, 0, 1)
K(monoout_stereo_8bit_linear_filter, 0, 1)
K(monoout_stereo_16bit_linear_filter, 0, 1)
K(stereoout_mono_8bit_linear_filter, 1, 1)
K(stereoout_mono_16bit_linear_filter, 1, 1)
K(stereoout_stereo_8bit_linear_filter, 1, 1)
K(stereoout_stereo_16bit_linear_filter, 1, 1)
K(monoout_mono_8bit_spline_filter, 0, 1)
K(monoout_mono_16bit_spline_filter, 0, 1)
K(monoout_stereo_8bit_spline_filter, 0, 1)
K(monoout_stereo_16bit_spline_filter, 0, 1)
K(stereoout_mono_8bit_spline_filter, 1, 1)
K(stereoout_mono_16bit_spline_filter, 1, 1)
K(stereoout_stereo_8bit_spline_filter, 1, 1)
K(stereoout_stereo_16bit_spline_filter, 1, 1)
K(monoout_mono_a500, 0, 2)
K(monoout_mono_a500_filter, 0, 2)
K(stereoout_mono_a500, 1, 2)
K(stereoout_mono_a500_filter, 1, 2)
#define libxmp_mix_monoout_mono_8bit_nearest spy_mix_monoout_mono_8bit_nearest
#define libxmp_mix_monoout_mono_16bit_nearest spy_mix_monoout_mono_16bit_nearest
#define libxmp_mix_monoout_stereo_8bit_nearest spy_mix_monoout_stereo_8bit_nearest
#define libxmp_mix_monoout_stereo_16bit_nearest spy_mix_monoout_stereo_16bit_nearest
#define libxmp_mix_stereoout_mono_8bit_nearest spy_mix_stereoout_mono_8bit_nearest
#define libxmp_mix_stereoout_mono_16bit_nearest spy_mix_stereoout_mono_16bit_nearest
#define libxmp_mix_stereoout_stereo_8bit_nearest spy_mix_stereoout_stereo_8bit_nearest
#define libxmp_mix_stereoout_stereo_16bit_nearest spy_mix_stereoout_stereo_16bit_nearest
#define libxmp_mix_monoout_mono_8bit_linear spy_mix_monoout_mono_8bit_linear
#define libxmp_mix_monoout_mono_16bit_linear spy_mix_monoout_mono_16bit_linear
#define libxmp_mix_monoout_stereo_8bit_linear spy_mix_monoout_stereo_8bit_linear
#define libxmp_mix_monoout_stereo_16bit_linear spy_mix_monoout_stereo_16bit_linear
#define libxmp_mix_stereoout_mono_8bit_linear spy_mix_stereoout_mono_8bit_linear
#define libxmp_mix_stereoout_mono_16bit_linear spy_mix_stereoout_mono_16bit_linear
#define libxmp_mix_stereoout_stereo_8bit_linear spy_mix_stereoout_stereo_8bit_linear
#define libxmp_mix_stereoout_stereo_16bit_linear spy_mix_stereoout_stereo_16bit_linear
#define libxmp_mix_monoout_mono_8bit_spline spy_mix_monoout_mono_8bit_spline
#define libxmp_mix_monoout_mono_16bit_spline spy_mix_monoout_mono_16bit_spline
#define libxmp_mix_monoout_stereo_8bit_spline spy_mix_monoout_stereo_8bit_spline
#define libxmp_mix_monoout_stereo_16bit_spline spy_mix_monoout_stereo_16bit_spline
#define libxmp_mix_stereoout_mono_8bit_spline spy_mix_stereoout_mono_8bit_spline
#define libxmp_mix_stereoout_mono_16bit_spline spy_mix_stereoout_mono_16bit_spline
#define libxmp_mix_stereoout_stereo_8bit_spline spy_mix_stereoout_stereo_8bit_spline
#define libxmp_mix_stereoout_stereo_16bit_spline spy_mix_stereoout_stereo_16bit_spline
#define libxmp_mix_monoout_mono_8bit_linear_filter spy_mix_monoout_mono_8bit_linear_filter
#define libxmp_mix_monoout_mono_16bit_linear_filter spy_mix_monoout_mono_16bit_linear_filter
#define libxmp_mix_monoout_stereo_8bit_linear_filter spy_mix_monoout_stereo_8bit_linear_filter
#define libxmp_mix_monoout_stereo_16bit_linear_filter spy_mix_monoout_stereo_16bit_linear_filter
#define libxmp_mix_stereoout_mono_8bit_linear_filter spy_mix_stereoout_mono_8bit_linear_filter
#define libxmp_mix_stereoout_mono_16bit_linear_filter spy_mix_stereoout_mono_16bit_linear_filter
#define libxmp_mix_stereoout_stereo_8bit_linear_filter spy_mix_stereoout_stereo_8bit_linear_filter
#define libxmp_mix_stereoout_stereo_16bit_linear_filter spy_mix_stereoout_stereo_16bit_linear_filter
#define libxmp_mix_monoout_mono_8bit_spline_filter spy_mix_monoout_mono_8bit_spline_filter
#define libxmp_mix_monoout_mono_16bit_spline_filter spy_mix_monoout_mono_16bit_spline_filter
#define libxmp_mix_monoout_stereo_8bit_spline_filter spy_mix_monoout_stereo_8bit_spline_filter
#define libxmp_mix_monoout_stereo_16bit_spline_filter spy_mix_monoout_stereo_16bit_spline_filter
#define libxmp_mix_stereoout_mono_8bit_spline_filter spy_mix_stereoout_mono_8bit_spline_filter
#define libxmp_mix_stereoout_mono_16bit_spline_filter spy_mix_stereoout_mono_16bit_spline_filter
#define libxmp_mix_stereoout_stereo_8bit_spline_filter spy_mix_stereoout_stereo_8bit_spline_filter
#define libxmp_mix_stereoout_stereo_16bit_spline_filter spy_mix_stereoout_stereo_16bit_spline_filter
#define libxmp_mix_monoout_mono_a500 spy_mix_monoout_mono_a500
#define libxmp_mix_monoout_mono_a500_filter spy_mix_monoout_mono_a500_filter
#define libxmp_mix_stereoout_mono_a500 spy_mix_stereoout_mono_a500
#define libxmp_mix_stereoout_mono_a500_filter spy_mix_stereoout_mono_a500_filter
#undef K

#define libxmp_mixer_softmixer real_softmixer
#include "mixer.c"
#undef libxmp_mixer_softmixer

/* ------------------------------------------------------------------ */
/* global harness state                                                */
/* ------------------------------------------------------------------ */

static int g_tie;			/* interposer active */
static struct context_data *g_ctx;	/* context being mixed */
static int g_in_solo;			/* inside a solo re-run */
static int g_cur_voice_first;		/* voice index whose first kernel call of the tick is pending (-2 none) */
static struct mixer_voice *g_first_seen[1];

/* budgets for emitted model cases, per module */
static int b_sum, b_kern, b_vol, b_dmx, b_vt, b_k2, b_pk, b_vr, b_vr_odd;
static long st_vr_cases, st_freed, st_free_checked, st_reuse, st_reuse_filter, st_reuse_ramp, st_reuse_queued, st_reuse_rev,
	st_reuse_paula;
#define C14_MAXV 1024
static long st_mapped_checked, st_bg_voices_seen, st_maxused, st_maxbg, st_bg_beyond, st_bg_cases;
static int b_bg;
static int g_prev_chn[C14_MAXV], g_owner_root[C14_MAXV], g_slot_had[C14_MAXV], g_have_prev;
static long st_pk_cases;
static long st_k2_cases, st_k2_skipped, st_maxvol, st_maxlevel;
static int p_kern;			/* sampling percentage for kernel calls */

/* statistics */
static long st_ticks, st_voice_solos, st_kernel_calls, st_fail, st_active_voice_ticks, st_multi_voice_ticks,
	st_kern_cases, st_vol_cases, st_sum_cases, st_vt_cases, st_vt_skipped, st_ac_kernel_calls, st_filter_calls,
	st_paula_calls, st_nonzero_words, st_wraps, st_one_frame_calls;
static int g_tick_active;		/* voices the voice loop will look at in the current tick */
static long st_maxactive;		/* most voices mixed in one tick */
static long long st_maxacc;		/* largest exact |sum of the voices' words| of one accumulator word */
static const char *g_modname = "?";

/* spans recorded for the voice-tick case (solo re-run of the chosen voice) */
#define MAXSPANS 64
struct span {
	int count, stereo, kind;
	int *smps;		/* stereo ? 2*count : count */
};
static struct span g_spans[MAXSPANS];
static int g_nspans, g_rec_spans, g_span_overflow, g_span_kind;

static void free_spans(void)
{
	int i;
	for (i = 0; i < g_nspans; i++)
		free(g_spans[i].smps);
	g_nspans = 0;
	g_span_overflow = 0;
}

/* the sample frames a kernel would read: run the real kernel on a copy of the voice with
 * unit levels and no ramp part into a zeroed scratch buffer */
static int *extract_smps(kern_fp real, int stereo, int kind, struct mixer_voice *vi, int count, int step)
{
	struct mixer_voice tmp = *vi;
	int n = stereo ? 2 * count : count, i;
	int *scratch = (int *)calloc(n > 0 ? n : 1, sizeof(int));
	real(&tmp, scratch, count, 1, 1, step, count, 0, 0);
	if (kind == 2) {
		/* Paula kernels scale the level by 256 */
		for (i = 0; i < n; i++)
			scratch[i] /= 256;
	}
	return scratch;
}

static int nwords(struct context_data *ctx);

/* Bit-exact kernel case from a real call of the voice loop (driver command `k2`, Xmp.MixKernel.run): the
 * kernel is named by (interp, table index), the sample window is read from the live sample memory (with the
 * loop wrap-around patches in place), `vi->pos` is passed exactly.  Returns 1 when the case was emitted (the
 * real kernel has then been called). */
static int emit_k2(kern_fp real, const char *name, int stereo, struct mixer_voice *vi, int *buf, int count, int vl, int vr,
		   int step, int ramp, int dl, int dr)
{
	struct module_data *m = &g_ctx->m;
	struct xmp_module *mod = &m->mod;
	struct xmp_sample *xxs;
	int interp = strstr(name, "nearest") ? XMP_INTERP_NEAREST : strstr(name, "spline") ? XMP_INTERP_SPLINE : XMP_INTERP_LINEAR;
	int s16 = strstr(name, "16bit") != NULL, ssmp = strstr(name, "_stereo_") != NULL;
	int id = (s16 ? FLAG_16_BITS : 0) | (ssmp ? FLAG_STEREO : 0) | (stereo ? FLAG_STEREOOUT : 0) |
		 (strstr(name, "filter") ? FLAG_FILTER : 0);
	int chn = ssmp ? 2 : 1, n = stereo ? 2 * count : count, i, e;
	int frac0, pe, tail;
	long pos0, endf, lo, hi, pre;
	int64_t walk;
	long long pm;
	double fr;
	int ex;

	if (vi->smp < 0 || ramp < 0)
		return 0;
	xxs = vi->smp < mod->smp ? &mod->xxs[vi->smp] : &g_ctx->smix.xxs[vi->smp - mod->smp];
	if (vi->sptr == NULL || vi->sptr != (void *)xxs->data || vi->pos < 0)
		return 0;
	pos0 = (long)(int)vi->pos;
	frac0 = (1 << SMIX_SHIFT) * (vi->pos - (int)vi->pos);
	walk = (int64_t)frac0 + (interp == XMP_INTERP_NEAREST ? (1 << (SMIX_SHIFT - 1)) : 0) + (int64_t)count * step;
	endf = pos0 + (long)(walk >> 16);
	lo = (endf < pos0 ? endf : pos0) - 1;
	hi = (endf > pos0 ? endf : pos0) + 2;
	/* load_sample allocates 4 bytes before the data and 4 frames after it */
	pre = 4 / (chn * (s16 ? 2 : 1));
	if (lo < -pre)
		lo = -pre;
	if (hi > xxs->len + 3)
		hi = xxs->len + 3;
	if (hi < lo || hi - lo > 6000) {
		st_k2_skipped++;
		return 0;
	}
	fr = frexp(vi->pos, &ex);
	pm = (long long)ldexp(fr, 53);
	pe = pm == 0 ? 0 : ex - 53;
	/* a tail of untouched words after the span, when the tick buffer has them */
	tail = (int)((g_ctx->s.buf32 + nwords(g_ctx)) - (buf + n));
	if (tail > 2)
		tail = 2;
	if (tail < 0)
		tail = 0;
	printf("C k2 %d %d %d %d %d %d %d %d %d %lld %d %d %d %d %d %d %d %d %d %d 1 %ld %ld", interp, id, count, vl, vr, step, ramp, dl,
	       dr, pm, pe, vi->old_vl, vi->old_vr, vi->filter.l1, vi->filter.l2, vi->filter.r1, vi->filter.r2, vi->filter.a0,
	       vi->filter.b0, vi->filter.b1, lo * chn, (hi - lo + 1) * chn);
	for (e = (int)(lo * chn); e < (int)((hi + 1) * chn); e++)
		printf(" %d", s16 ? (int)((int16 *)vi->sptr)[e] : (int)((int8 *)vi->sptr)[e]);
	printf(" %d", n + tail);
	for (i = 0; i < n + tail; i++)
		printf(" %u", (unsigned)buf[i]);
	printf("\n");
	real(vi, buf, count, vl, vr, step, ramp, dl, dr);
	printf("E %d %d %d %d |", vi->filter.l1, vi->filter.l2, vi->filter.r1, vi->filter.r2);
	for (i = 0; i < n + tail; i++)
		printf(" %u", (unsigned)buf[i]);
	printf("\n");
	st_k2_cases++;
	return 1;
}

/* canonical m * 2^e of a non-negative double: m odd (or 0 0) */
static void dbl_canon(double x, unsigned long long *m, int *e)
{
	int ex;
	double fr = frexp(x, &ex);
	unsigned long long mm = (unsigned long long)ldexp(fr, 53);
	ex -= 53;
	if (mm == 0) {
		*m = 0;
		*e = 0;
		return;
	}
	while ((mm & 1) == 0) {
		mm >>= 1;
		ex++;
	}
	*m = mm;
	*e = ex;
}

/* Bit-exact Paula kernel case from a real call (driver command `pk`, Xmp.MixKernel.Paula.prun): the whole
 * Paula state of the voice goes in, buffer and Paula state after the call are compared. */
static int emit_pk(kern_fp real, const char *name, int stereo, struct mixer_voice *vi, int *buf, int count, int vl, int vr,
		   int step, int ramp, int dl, int dr)
{
	struct paula_state *ps = vi->paula;
	int tab = strstr(name, "filter") != NULL, n = stereo ? 2 * count : count, i, pe, re, fe, tail;
	long pos0, hi;
	long long pm;
	unsigned long long rm, fm;
	double fr;
	int ex;

	if (ps == NULL || vi->sptr == NULL || vi->pos < 0 || step <= 0 || vi->end < 0 || ps->remainder < 0)
		return 0;
	pos0 = (long)(unsigned int)vi->pos;
	hi = pos0 + (long)(((int64_t)count * step + 65536) >> 16) + 1;
	if (hi > vi->end)
		hi = vi->end;	/* PAULA_INPUT never reads beyond sptr[vi->end] */
	if (hi < pos0)
		hi = pos0 < vi->end ? pos0 : vi->end;
	if (hi - (pos0 < hi ? pos0 : hi) > 6000)
		return 0;
	fr = frexp(vi->pos, &ex);
	pm = (long long)ldexp(fr, 53);
	pe = pm == 0 ? 0 : ex - 53;
	dbl_canon(ps->remainder, &rm, &re);
	dbl_canon(ps->fdiv, &fm, &fe);
	tail = (int)((g_ctx->s.buf32 + nwords(g_ctx)) - (buf + n));
	tail = tail > 2 ? 2 : tail < 0 ? 0 : tail;
	printf("C pk %d %d %d %d %d %d %lld %d %d %d %llu %d %llu %d %u", stereo, tab, count, vl, vr, step, pm, pe, vi->end,
	       ps->global_output_level, rm, re, fm, fe, ps->active_bleps);
	for (i = 0; i < (int)ps->active_bleps; i++)
		printf(" %d %d", ps->blepstate[i].level, ps->blepstate[i].age);
	{
		long lo = pos0 < hi ? pos0 : hi, e;
		printf(" 1 %ld %ld", lo, hi - lo + 1);
		for (e = lo; e <= hi; e++)
			printf(" %d", (int)((int8 *)vi->sptr)[e]);
	}
	printf(" %d", n + tail);
	for (i = 0; i < n + tail; i++)
		printf(" %u", (unsigned)buf[i]);
	printf("\n");
	real(vi, buf, count, vl, vr, step, ramp, dl, dr);
	dbl_canon(ps->remainder, &rm, &re);
	printf("E %d %llu %d %u", ps->global_output_level, rm, re, ps->active_bleps);
	for (i = 0; i < (int)ps->active_bleps; i++)
		printf(" %d %d", ps->blepstate[i].level, ps->blepstate[i].age);
	printf(" |");
	for (i = 0; i < n + tail; i++)
		printf(" %u", (unsigned)buf[i]);
	printf("\n");
	st_pk_cases++;
	return 1;
}

static void c14_kernel_call(kern_fp real, const char *name, int stereo, int kind, struct mixer_voice *vi,
			    int *buf, int count, int vl, int vr, int step, int ramp, int dl, int dr)
{
	int n = stereo ? 2 * count : count;
	int first = 0;

	if (!g_tie || g_ctx == NULL) {
		real(vi, buf, count, vl, vr, step, ramp, dl, dr);
		return;
	}

	if (g_in_solo) {
		if (g_rec_spans && kind != 2) {
			if (g_nspans < MAXSPANS) {
				struct span *sp = &g_spans[g_nspans++];
				sp->count = count;
				sp->stereo = stereo;
				sp->kind = kind;
				sp->smps = extract_smps(real, stereo, kind, vi, count, step);
				g_span_kind = kind;
			} else {
				g_span_overflow = 1;
			}
		} else if (g_rec_spans) {
			g_span_overflow = 1;	/* Paula state is not replayable by extraction */
		}
		real(vi, buf, count, vl, vr, step, ramp, dl, dr);
		return;
	}

	st_kernel_calls++;
	if (kind == 1 && count > ramp)
		st_ac_kernel_calls++;
	if (strstr(name, "filter") != NULL)
		st_filter_calls++;
	if (kind == 2)
		st_paula_calls++;
	if (count == 1 && g_tick_active >= 2)
		st_one_frame_calls++;
	if (labs((long)vi->vol) > st_maxvol)
		st_maxvol = labs((long)vi->vol);
	if (labs((long)vl) > st_maxlevel)
		st_maxlevel = labs((long)vl);
	if (labs((long)vr) > st_maxlevel)
		st_maxlevel = labs((long)vr);

	if (g_first_seen[0] != vi) {
		g_first_seen[0] = vi;
		first = 1;
	}

	/* volume stage case: what the kernel receives vs the model's function of the voice */
	if (b_vol > 0 && (first || vrng_chance(10))) {
		struct module_data *m = &g_ctx->m;
		int rampsize = g_ctx->s.ticksize >> ANTICLICK_SHIFT;
		b_vol--;
		st_vol_cases++;
		printf("C vol %d %d %d %d %d %d %d\n", vi->vol, m->mvol, m->mvolbase, vi->pan, vi->old_vl, vi->old_vr,
		       rampsize);
		if (first)
			printf("E * * %d %d %d %d\n", vl, vr, dl, dr);
		else
			printf("E * * %d %d * *\n", vl, vr);
	}

	if (b_k2 > 0 && kind != 2 && count <= 600 && vrng_chance(p_kern) &&
	    emit_k2(real, name, stereo, vi, buf, count, vl, vr, step, ramp, dl, dr)) {
		b_k2--;
		return;
	}

	if (b_pk > 0 && kind == 2 && count <= 600 && vrng_chance(p_kern) &&
	    emit_pk(real, name, stereo, vi, buf, count, vl, vr, step, ramp, dl, dr)) {
		b_pk--;
		return;
	}

	if (b_kern > 0 && kind != 2 && count <= 192 && vrng_chance(p_kern)) {
		int *smps = extract_smps(real, stereo, kind, vi, count, step);
		unsigned *before = (unsigned *)malloc((n > 0 ? n : 1) * sizeof(unsigned));
		int i;
		memcpy(before, buf, n * sizeof(unsigned));
		printf("C kern %d %d %d %d %d %d %d %d %d %d %d", stereo, kind == 1, kind == 2 ? 8 : 0, vl, vr,
		       vi->old_vl, vi->old_vr, dl, dr, ramp < 0 ? 0 : ramp, count);
		for (i = 0; i < n; i++)
			printf(" %d", smps[i]);
		printf("\n");
		real(vi, buf, count, vl, vr, step, ramp, dl, dr);
		printf("E");
		for (i = 0; i < n; i++)
			printf(" %u", (unsigned)buf[i] - before[i]);
		printf("\n");
		free(smps);
		free(before);
		b_kern--;
		st_kern_cases++;
		return;
	}

	real(vi, buf, count, vl, vr, step, ramp, dl, dr);
}

/* ------------------------------------------------------------------ */
/* snapshots of everything libxmp_mixer_softmixer reads or writes      */
/* ------------------------------------------------------------------ */

struct snap {
	int nv, nch, used;
	struct mixer_voice *voices;
	struct virt_channel *vch;
	struct channel_data *xc;
	struct paula_state *paula;	/* contents, per voice (when present) */
};

static void snap_take(struct context_data *ctx, struct snap *sn)
{
	struct player_data *p = &ctx->p;
	int i;
	sn->nv = p->virt.maxvoc;
	sn->nch = p->virt.virt_channels;
	sn->used = p->virt.virt_used;
	sn->voices = (struct mixer_voice *)malloc((sn->nv + 1) * sizeof(struct mixer_voice));
	sn->vch = (struct virt_channel *)malloc((sn->nch + 1) * sizeof(struct virt_channel));
	sn->xc = (struct channel_data *)malloc((sn->nch + 1) * sizeof(struct channel_data));
	sn->paula = (struct paula_state *)calloc(sn->nv + 1, sizeof(struct paula_state));
	memcpy(sn->voices, p->virt.voice_array, sn->nv * sizeof(struct mixer_voice));
	memcpy(sn->vch, p->virt.virt_channel, sn->nch * sizeof(struct virt_channel));
	memcpy(sn->xc, p->xc_data, sn->nch * sizeof(struct channel_data));
	for (i = 0; i < sn->nv; i++) {
		if (p->virt.voice_array[i].paula != NULL)
			sn->paula[i] = *p->virt.voice_array[i].paula;
	}
}

static void snap_restore(struct context_data *ctx, const struct snap *sn)
{
	struct player_data *p = &ctx->p;
	int i;
	p->virt.virt_used = sn->used;
	memcpy(p->virt.voice_array, sn->voices, sn->nv * sizeof(struct mixer_voice));
	memcpy(p->virt.virt_channel, sn->vch, sn->nch * sizeof(struct virt_channel));
	memcpy(p->xc_data, sn->xc, sn->nch * sizeof(struct channel_data));
	for (i = 0; i < sn->nv; i++) {
		if (p->virt.voice_array[i].paula != NULL)
			*p->virt.voice_array[i].paula = sn->paula[i];
	}
}

static void snap_free(struct snap *sn)
{
	free(sn->voices);
	free(sn->vch);
	free(sn->xc);
	free(sn->paula);
}

static int voice_state_equal(const struct snap *a, const struct snap *b, int v)
{
	if (memcmp(&a->voices[v], &b->voices[v], sizeof(struct mixer_voice)) != 0)
		return 0;
	if (a->voices[v].paula != NULL && memcmp(&a->paula[v], &b->paula[v], sizeof(struct paula_state)) != 0)
		return 0;
	return 1;
}

static int nwords(struct context_data *ctx)
{
	int n = ctx->s.ticksize;
	if (~ctx->s.format & XMP_FORMAT_MONO)
		n *= 2;
	return n;
}

/* emit a voice-tick model case for voice v: state s0 -> solo buffer `solo` and state s1 */
static void emit_vt(struct context_data *ctx, const struct snap *s0, const struct snap *s1, int v, const unsigned *solo)
{
	struct mixer_data *s = &ctx->s;
	struct module_data *m = &ctx->m;
	const struct mixer_voice *a = &s0->voices[v], *b = &s1->voices[v];
	int stereo = (~s->format & XMP_FORMAT_MONO) ? 1 : 0;
	int n = nwords(ctx), i, j, total = 0, ended, acafter = -1, stop = 0;

	if (g_span_overflow || g_nspans == 0 || a->chn < 0 || a->period < 1 ||
	    (a->flags & (SAMPLE_QUEUED | SAMPLE_PAUSED)) || (b->flags & (SAMPLE_QUEUED | SAMPLE_PAUSED)) || a->vol == 0) {
		st_vt_skipped++;
		return;
	}
	for (i = 0; i < g_nspans; i++)
		total += g_spans[i].count;
	/* A tick left unfilled: either the sample ended (one-shot; then do_anticlick ramps out over the
	 * rest and the next volume ramps from 0: old_vl = old_vr = 0 afterwards), or the `usmp` guard
	 * of the span loop gave up (loops shorter than one step: every other iteration mixes nothing).
	 * The two are told apart by the volume memory the tick left behind.  A tick filled exactly
	 * has neither. */
	ended = total < s->ticksize && b->old_vl == 0 && b->old_vr == 0;
	if (ended) {
		acafter = s->ticksize - total;
		stop = 1;
	}
	if (b->chn < 0) {
		/* QUIRK_RSTCHN cleared the whole voice: the model's final state is not comparable */
		st_vt_skipped++;
		return;
	}
	printf("C vt %d %d %d %d %d %d %d %d run %d %d %d %d %d 0 %d", stereo, s->ticksize, s->interp > XMP_INTERP_NEAREST,
	       a->old_vl, a->old_vr, a->sleft, a->sright, (a->flags & ANTICLICK) ? 1 : 0, a->vol, a->pan, m->mvol,
	       m->mvolbase, g_span_kind == 1, g_nspans);
	for (i = 0; i < g_nspans; i++) {
		struct span *sp = &g_spans[i];
		int last = (i == g_nspans - 1);
		int w = sp->stereo ? 2 * sp->count : sp->count;
		printf(" %d 1 %d %d", sp->count, last ? acafter : -1, last ? stop : 0);
		for (j = 0; j < w; j++)
			printf(" %d", sp->smps[j]);
	}
	printf("\n");
	/* mono output: the C never writes vi->sright, the model's right half is not compared */
	if (stereo)
		printf("E %d %d %d %d %d |", b->old_vl, b->old_vr, b->sleft, b->sright, (b->flags & ANTICLICK) ? 1 : 0);
	else
		printf("E %d %d %d * %d |", b->old_vl, b->old_vr, b->sleft, (b->flags & ANTICLICK) ? 1 : 0);
	for (i = 0; i < n; i++)
		printf(" %u", solo[i]);
	printf("\n");
	st_vt_cases++;
	b_vt--;
}

static void tie_fail(struct context_data *ctx, const char *sig, const char *fmt, long a, long b, long c)
{
	st_fail++;
	printf("tie_fail %s module=%s tick=%ld ", sig, g_modname, st_ticks);
	printf(fmt, a, b, c);
	printf("\n");
	(void)ctx;
}

static void reset_slot_tracking(void)
{
	int v;
	for (v = 0; v < C14_MAXV; v++) {
		g_prev_chn[v] = -1;
		g_owner_root[v] = -1;
		g_slot_had[v] = 0;
	}
	g_have_prev = 0;
	st_vr_cases = st_freed = st_free_checked = st_reuse = st_reuse_filter = st_reuse_ramp = st_reuse_queued = st_reuse_rev = 0;
	st_reuse_paula = 0;
	st_mapped_checked = st_bg_voices_seen = st_maxused = st_maxbg = st_bg_beyond = st_bg_cases = 0;
}

static void tie_tick(struct context_data *ctx)
{
	struct player_data *p = &ctx->p;
	struct mixer_data *s = &ctx->s;
	struct snap s0, s1, sv;
	unsigned *full, *acc, *solos = NULL;
	long long *acc64;
	char *outcopy;
	int n, nv, v, i, nactive = 0, outbytes, vt_voice = -1;
	int emit_sum, nsolo = 0;

	g_ctx = ctx;
	g_first_seen[0] = NULL;
	snap_take(ctx, &s0);
	nv = s0.nv;
	g_tick_active = 0;
	for (v = 0; v < nv; v++) {
		if (s0.voices[v].chn >= 0)
			g_tick_active++;
	}

	g_in_solo = 0;
	real_softmixer(ctx);
	st_ticks++;

	n = nwords(ctx);
	if (n > XMP_MAX_FRAMESIZE)
		n = XMP_MAX_FRAMESIZE;
	full = (unsigned *)malloc(n * sizeof(unsigned));
	acc = (unsigned *)calloc(n, sizeof(unsigned));
	acc64 = (long long *)calloc(n, sizeof(long long));
	memcpy(full, s->buf32, n * sizeof(unsigned));
	outbytes = n * ((s->format & XMP_FORMAT_8BIT) ? 1 : 2);
	outcopy = (char *)malloc(outbytes);
	memcpy(outcopy, s->buffer, outbytes);
	snap_take(ctx, &s1);

	for (i = 0; i < n; i++) {
		if (full[i])
			st_nonzero_words++;
	}

	/* every voice in use is driven by exactly the virtual channel it names: virt_channel[vi->chn].map == voice.
	 * An orphaned voice keeps sounding with nobody updating (or muting) it. */
	{
		const struct snap *sn[2] = { &s0, &s1 };
		int w;
		for (w = 0; w < 2; w++) {
			for (v = 0; v < sn[w]->nv; v++) {
				int c = sn[w]->voices[v].chn;
				if (c < 0)
					continue;
				st_mapped_checked++;
				if (c >= sn[w]->nch || sn[w]->vch[c].map != v) {
					tie_fail(ctx, "virt:orphan_voice", "voice=%ld names virtual channel %ld whose map is %ld", v, c,
						 c < sn[w]->nch ? sn[w]->vch[c].map : -99);
					w = 2;
					break;
				}
				if (c >= p->virt.num_tracks)
					st_bg_voices_seen++;
			}
		}
		if (s0.used > st_maxused)
			st_maxused = s0.used;
		{
			int bg = 0;
			for (v = 0; v < s0.nv; v++)
				if (s0.voices[v].chn >= p->virt.num_tracks)
					bg++;
			if (bg > st_maxbg)
				st_maxbg = bg;
			if (bg > s0.nv - p->virt.num_tracks && s0.used < s0.nv)
				st_bg_beyond++;
		}
	}

	/* voice slots: a slot whose owner (root channel) changed since it was last seen in use = reuse by another
	 * channel; what the new owner would inherit if the slot had not been cleared is counted by kind */
	for (v = 0; v < nv && v < C14_MAXV; v++) {
		const struct mixer_voice *a = &s0.voices[v];
		if (a->chn < 0)
			continue;
		if (g_owner_root[v] >= 0 && g_owner_root[v] != a->root) {
			st_reuse++;
			if ((a->fidx & FLAG_FILTER) && !(a->filter.cutoff >= 0xfe && a->filter.resonance == 0))
				st_reuse_filter++;
			if (a->paula != NULL && (p->flags & XMP_FLAGS_A500))
				st_reuse_paula++;
			if (g_slot_had[v] & 1)
				st_reuse_ramp++;
			if (g_slot_had[v] & 2)
				st_reuse_queued++;
			if (g_slot_had[v] & 4)
				st_reuse_rev++;
			g_slot_had[v] = 0;
		}
		g_owner_root[v] = a->root;
		if (a->old_vl || a->old_vr || a->sleft || a->sright)
			g_slot_had[v] |= 1;
		if (a->flags & (SAMPLE_QUEUED | SAMPLE_PAUSED))
			g_slot_had[v] |= 2;
		if (a->flags & (VOICE_REVERSE | VOICE_BIDIR))
			g_slot_had[v] |= 4;
	}

	/* free voices (before and after the mixer ran): every member must have the value of a freshly reset voice
	 * (Xmp.MixKernel.resetValue, member list generated from mixer.h) - libxmp_virt_resetvoice / _resetchannel /
	 * virt_reset are the only writers of a free slot.  All free voices are compared with each other here, a sample
	 * of them (those freed since the previous tick first) with the Lean model. */
	{
		const struct snap *sn[2] = { &s0, &s1 };
		int w;
		for (w = 0; w < 2; w++) {
			int ref = -1;
			for (v = 0; v < sn[w]->nv; v++) {
				const struct mixer_voice *a = &sn[w]->voices[v];
				int freed_now;
				if (a->chn >= 0)
					continue;
				st_free_checked++;
				if (ref < 0) {
					ref = v;
				} else {
					const struct mixer_voice *r = &sn[w]->voices[ref];
					int diff = 0;
#define VI(m) if (a->m != r->m) diff++;
#define VD(m) if (a->m != r->m) diff++;
#define VP(m)
					C14_VOICE_MEMBERS(VI, VD, VP)
#undef VI
#undef VD
#undef VP
					if (a->sptr != r->sptr || (a->paula == NULL) != (r->paula == NULL))
						diff++;
					if (diff)
						tie_fail(ctx, "reset:free_voice_state", "voice=%ld differs from free voice %ld in %ld members", v, ref,
							 diff);
				}
				freed_now = v < C14_MAXV && g_have_prev && g_prev_chn[v] >= 0;
				if (w == 1 && s0.voices[v].chn >= 0)
					freed_now = 1;
				if (freed_now)
					st_freed++;
				/* images that are not plainly zero are always worth the model's verdict (own small budget) */
				{
					long nz = 0;
#define VI(m) if (a->m != 0 && strcmp(#m, "chn") != 0 && strcmp(#m, "root") != 0) nz++;
#define VD(m) if (a->m != 0.0) nz++;
#define VP(m) if (strcmp(#m, "paula") != 0 && a->m != NULL) nz++;
					C14_VOICE_MEMBERS(VI, VD, VP)
#undef VI
#undef VD
#undef VP
					if (nz && b_vr_odd > 0) {
						b_vr_odd--;
						b_vr++;
						freed_now = 2;
					}
				}
				if (b_vr > 0 && (freed_now == 2 || (freed_now ? vrng_chance(50) : vrng_chance(1)))) {
					const struct paula_state *ps = a->paula ? &sn[w]->paula[v] : NULL;
					printf("C vr");
#define VI(m) printf(" " #m);
					C14_VOICE_MEMBERS(VI, VI, VI)
#undef VI
					if (ps)
						printf(" paula.global_output_level paula.active_bleps paula.remainder_is_fdiv");
					printf("\nE");
#define VI(m) printf(" %d", (int)a->m);
#define VD(m) printf(" %s", a->m == 0.0 ? "0" : "nonzero");
#define VP(m) printf(" %s", strcmp(#m, "paula") == 0 ? "*" : a->m == NULL ? "0" : "nonnull");
					C14_VOICE_MEMBERS(VI, VD, VP)
#undef VI
#undef VD
#undef VP
					if (ps)
						printf(" %d %u %d", ps->global_output_level, ps->active_bleps, ps->remainder == ps->fdiv);
					printf("\n");
					b_vr--;
					st_vr_cases++;
				}
			}
		}
		for (v = 0; v < nv && v < C14_MAXV; v++)
			g_prev_chn[v] = s1.voices[v].chn;
		g_have_prev = 1;
	}

	/* downmix cases */
	if (b_dmx > 0) {
		int k;
		for (k = 0; k < 4 && b_dmx > 0; k++) {
			int idx = vrng_below(n);
			int eight = (s->format & XMP_FORMAT_8BIT) ? 1 : 0;
			int uns = (s->format & XMP_FORMAT_UNSIGNED) ? 1 : 0;
			long outv;
			if (eight)
				outv = uns ? (long)((unsigned char *)outcopy)[idx] : (long)((signed char *)outcopy)[idx];
			else
				outv = uns ? (long)((unsigned short *)outcopy)[idx] : (long)((short *)outcopy)[idx];
			printf("C dmx %d %d %d %u\nE %ld\n", eight, uns, s->amplify, full[idx], outv);
			b_dmx--;
		}
	}

	for (v = 0; v < nv; v++) {
		if (s0.voices[v].chn >= 0 || (s0.voices[v].flags & ANTICLICK))
			nactive++;
	}
	st_active_voice_ticks += nactive;
	if (nactive > st_maxactive)
		st_maxactive = nactive;
	if (nactive > 1)
		st_multi_voice_ticks++;

	emit_sum = (b_sum > 0 && nactive >= 2 && vrng_chance(12));
	if (emit_sum)
		solos = (unsigned *)malloc((size_t)nactive * n * sizeof(unsigned));
	if (b_vt > 0 && nactive > 0 && vrng_chance(10)) {
		int pick = vrng_below(nactive), k = 0;
		for (v = 0; v < nv; v++) {
			if (s0.voices[v].chn >= 0 || (s0.voices[v].flags & ANTICLICK)) {
				if (k++ == pick)
					vt_voice = v;
			}
		}
	}

	g_in_solo = 1;
	for (v = 0; v < nv; v++) {
		int u;
		if (s0.voices[v].chn < 0 && !(s0.voices[v].flags & ANTICLICK))
			continue;	/* the voice loop skips it entirely */
		snap_restore(ctx, &s0);
		for (u = 0; u < nv; u++) {
			if (u != v) {
				p->virt.voice_array[u].chn = -1;
				p->virt.voice_array[u].flags &= ~ANTICLICK;
			}
		}
		g_rec_spans = (v == vt_voice);
		if (g_rec_spans)
			free_spans();
		real_softmixer(ctx);
		g_rec_spans = 0;
		st_voice_solos++;
		for (i = 0; i < n; i++) {
			acc[i] += (unsigned)s->buf32[i];
			acc64[i] += (long long)s->buf32[i];
		}
		if (emit_sum)
			memcpy(solos + (size_t)nsolo * n, s->buf32, n * sizeof(unsigned));
		nsolo++;
		/* the voice's own evolution must not depend on the others */
		snap_take(ctx, &sv);
		if (!voice_state_equal(&sv, &s1, v))
			tie_fail(ctx, "superposition:voice_state", "voice=%ld chn=%ld (state after solo mix differs from state after full mix)%.0ld",
				 v, s0.voices[v].chn, 0);
		if (v == vt_voice) {
			emit_vt(ctx, &s0, &s1, v, (unsigned *)s->buf32);
			free_spans();
		}
		snap_free(&sv);
	}
	g_in_solo = 0;

	/* the exact integer sum of the solo words: outside the int range = the accumulator wrapped */
	for (i = 0; i < n; i++) {
		long long a = acc64[i] < 0 ? -acc64[i] : acc64[i];
		if (acc64[i] > 2147483647LL || acc64[i] < -2147483648LL)
			st_wraps++;
		if (a > st_maxacc)
			st_maxacc = a;
	}

	for (i = 0; i < n; i++) {
		if (acc[i] != full[i]) {
			tie_fail(ctx, "superposition:accumulator", "word=%ld full=%ld sum_of_solos=%ld", i, (long)(int)full[i],
				 (long)(int)acc[i]);
			break;
		}
	}

	if (emit_sum && nsolo >= 2) {
		int w = n < 40 ? n : 40;
		int off = vrng_chance(40) ? 0 : (int)vrng_below(n - w + 1);
		int k;
		printf("C sum %d %d", nsolo, w);
		for (k = 0; k < nsolo; k++) {
			for (i = 0; i < w; i++)
				printf(" %u", solos[(size_t)k * n + off + i]);
		}
		printf("\nE");
		for (i = 0; i < w; i++)
			printf(" %u", full[off + i]);
		printf("\n");
		b_sum--;
		st_sum_cases++;
	}

	/* put everything back as the full mix left it */
	snap_restore(ctx, &s1);
	memcpy(s->buf32, full, n * sizeof(unsigned));
	memcpy(s->buffer, outcopy, outbytes);

	free(solos);
	free(full);
	free(acc);
	free(acc64);
	free(outcopy);
	snap_free(&s0);
	snap_free(&s1);
	g_ctx = NULL;
}

/* libxmp_virt_setpatch (src/virtual.c) is reached through -Wl,--wrap: when the call moves the channel's old voice to
 * a background (NNA) virtual channel, the channel it chose is compared with the model's search over the map of the
 * background channels as it was before the call (driver command `bg`, Xmp.MixKernel.bgSearch). */
int __real_libxmp_virt_setpatch(struct context_data *, int, int, int, int, int, int, int, int);
int __wrap_libxmp_virt_setpatch(struct context_data *ctx, int chn, int ins, int smp, int note, int key, int nna, int dct, int dca)
{
	struct player_data *p = &ctx->p;
	int nt = p->virt.num_tracks, nc = p->virt.virt_channels, oldvoc = -1, i, r;
	int *maps = NULL;

	/* (a full voice table makes alloc_voice evict a background voice first, which frees a channel: not a case) */
	if (g_tie && !g_in_solo && b_bg > 0 && chn >= 0 && chn < nc && nc > nt && nc - nt <= 4096 &&
	    p->virt.virt_used < (int)p->virt.maxvoc) {
		oldvoc = p->virt.virt_channel[chn].map;
		if (oldvoc >= 0) {
			maps = (int *)malloc((size_t)(nc - nt) * sizeof(int));
			for (i = nt; i < nc; i++)
				maps[i - nt] = p->virt.virt_channel[i].map;
		}
	}
	r = __real_libxmp_virt_setpatch(ctx, chn, ins, smp, note, key, nna, dct, dca);
	if (maps != NULL) {
		/* the duplicate check may have freed background channels before the search: only calls without it are cases */
		if (!dct && oldvoc < (int)p->virt.maxvoc && p->virt.voice_array[oldvoc].chn >= nt &&
		    p->virt.virt_channel[p->virt.voice_array[oldvoc].chn].map == oldvoc) {
			printf("C bg %d", nc - nt);
			for (i = 0; i < nc - nt; i++)
				printf(" %d", maps[i]);
			printf("\nE %d\n", p->virt.voice_array[oldvoc].chn - nt);
			b_bg--;
			st_bg_cases++;
		}
		free(maps);
	}
	return r;
}

void libxmp_mixer_softmixer(struct context_data *ctx)
{
	if (g_tie)
		tie_tick(ctx);
	else
		real_softmixer(ctx);
}

/* ------------------------------------------------------------------ */
/* contexts                                                            */
/* ------------------------------------------------------------------ */

struct cfg {
	int rate, fmt, interp, amp, mix, master, smixvol, dsp, a500, startpos;
	int voices;		/* XMP_PLAYER_VOICES before xmp_start_player (0 = library default): small voice tables, few background
				 * (NNA) virtual channels */
	int jump_frame, jump_pos;	/* xmp_set_position(jump_pos) before frame jump_frame (0 = none): libxmp_virt_reset frees every
					 * voice, the channels then take the slots in a new order */
	int mute[XMP_MAX_CHANNELS];
};

static const char *base_name(const char *path)
{
	const char *b = strrchr(path, '/');
	return b ? b + 1 : path;
}

static void seed_for(uint64_t seed, const char *path, int salt)
{
	const char *b = base_name(path);
	vrng_seed(seed * 1000003ULL + fnv1a(FNV_INIT, b, strlen(b)) + (uint64_t)salt * 7919ULL);
}

static xmp_context open_ctx(const char *path, const struct cfg *c, int apply_mutes)
{
	xmp_context x = xmp_create_context();
	struct context_data *ctx = (struct context_data *)x;
	int i;

	libxmp_set_random(&ctx->rng, 0x12345678u);
	if (xmp_load_module(x, path) < 0) {
		xmp_free_context(x);
		return NULL;
	}
	if (c->voices > 0)
		xmp_set_player(x, XMP_PLAYER_VOICES, c->voices);
	if (xmp_start_player(x, c->rate, c->fmt) < 0) {
		xmp_release_module(x);
		xmp_free_context(x);
		return NULL;
	}
	libxmp_set_random(&ctx->rng, 0x12345678u);
	if (c->a500)	/* Paula kernels for Amiga modules (current-module flags) */
		xmp_set_player(x, XMP_PLAYER_CFLAGS, xmp_get_player(x, XMP_PLAYER_CFLAGS) | XMP_FLAGS_A500);
	xmp_set_player(x, XMP_PLAYER_INTERP, c->interp);
	xmp_set_player(x, XMP_PLAYER_AMP, c->amp);
	xmp_set_player(x, XMP_PLAYER_MIX, c->mix);
	xmp_set_player(x, XMP_PLAYER_VOLUME, c->master);
	xmp_set_player(x, XMP_PLAYER_SMIX_VOLUME, c->smixvol);
	xmp_set_player(x, XMP_PLAYER_DSP, c->dsp);
	if (apply_mutes) {
		for (i = 0; i < XMP_MAX_CHANNELS; i++)
			xmp_channel_mute(x, i, c->mute[i]);
	}
	if (c->startpos > 0)
		xmp_set_position(x, c->startpos);
	return x;
}

static void close_ctx(xmp_context x)
{
	xmp_end_player(x);
	xmp_release_module(x);
	xmp_free_context(x);
}

static const int rates[] = { 8000, 11025, 22050, 44100, 48000, 4000 };

static void random_cfg(struct cfg *c)
{
	int i;
	memset(c, 0, sizeof(*c));
	c->rate = rates[vrng_below(6)];
	c->fmt = vrng_below(8);
	c->interp = vrng_below(3);
	c->amp = vrng_below(4);
	c->mix = vrng_chance(25) ? 100 : vrng_range(-100, 100);
	c->master = vrng_chance(30) ? 100 : vrng_range(1, 200);
	c->smixvol = 100;
	c->dsp = vrng_chance(80) ? XMP_DSP_LOWPASS : 0;
	c->a500 = vrng_chance(25);
	for (i = 0; i < XMP_MAX_CHANNELS; i++)
		c->mute[i] = vrng_chance(10);
	/* small voice tables: the number of background (NNA) virtual channels equals the number of voices */
	c->voices = vrng_chance(30) ? (vrng_chance(50) ? vrng_range(4, 12) : vrng_range(12, 40)) : 0;
	if (getenv("C14_VOICES") != NULL)
		c->voices = atoi(getenv("C14_VOICES"));
	/* optional overrides (part of the replay record): C14_INTERP, C14_RATE, C14_VOICES (and C14_A500, C14_POS below) */
	if (getenv("C14_INTERP") != NULL)
		c->interp = atoi(getenv("C14_INTERP"));
	if (getenv("C14_RATE") != NULL)
		c->rate = atoi(getenv("C14_RATE"));
}

static void env_overrides_late(struct cfg *c)
{
	if (getenv("C14_A500") != NULL)
		c->a500 = atoi(getenv("C14_A500"));
}

static int module_len(const char *path)
{
	/* order-list length via a throw-away context (used to choose a start position) */
	xmp_context x = xmp_create_context();
	struct xmp_module_info mi;
	int len = 0;
	if (xmp_load_module(x, path) >= 0) {
		xmp_get_module_info(x, &mi);
		len = mi.mod->len;
		xmp_release_module(x);
	}
	xmp_free_context(x);
	return len;
}

/* ------------------------------------------------------------------ */
/* mode: tie                                                           */
/* ------------------------------------------------------------------ */

static int mode_tie(uint64_t seed, int nframes, const char *path, int lowrate)
{
	struct cfg c;
	xmp_context x;
	int f, len;

	seed_for(seed, path, lowrate ? 9 : 1);
	random_cfg(&c);
	if (lowrate) {
		/* regression configuration: lowest output rate (largest steps), Paula kernels for
		 * Amiga modules, from the start of the module */
		c.rate = XMP_MIN_SRATE;
		c.a500 = 1;
	}
	env_overrides_late(&c);
	len = module_len(path);
	if (len <= 0) {
		printf("skip %s\n", path);
		return 0;
	}
	c.startpos = (lowrate || vrng_chance(50)) ? 0 : (int)vrng_below(len);
	x = open_ctx(path, &c, 1);
	if (x == NULL) {
		printf("skip %s\n", path);
		return 0;
	}
	g_modname = base_name(path);
	b_sum = 6; b_kern = 10; b_vol = 40; b_dmx = 16; b_vt = 8; b_k2 = 14; b_pk = 10; b_vr = 6; b_vr_odd = 4; b_bg = 12;
	p_kern = 4;
	st_ticks = st_voice_solos = st_kernel_calls = st_fail = st_active_voice_ticks = st_multi_voice_ticks = 0;
	st_kern_cases = st_vol_cases = st_sum_cases = st_vt_cases = st_vt_skipped = st_ac_kernel_calls = 0;
	st_filter_calls = st_paula_calls = st_nonzero_words = st_wraps = st_one_frame_calls = 0;
	st_k2_cases = st_k2_skipped = st_maxvol = st_maxlevel = st_maxactive = 0;
	st_maxacc = 0;
	st_pk_cases = 0;
	reset_slot_tracking();
	printf("begin tie %s rate=%d fmt=%d interp=%d amp=%d mix=%d master=%d dsp=%d a500=%d pos=%d\n", path, c.rate,
	       c.fmt, c.interp, c.amp, c.mix, c.master, c.dsp, c.a500, c.startpos);
	g_tie = 1;
	c.jump_frame = vrng_chance(40) ? vrng_range(nframes / 4, nframes / 2 + 1) : 0;
	c.jump_pos = (int)vrng_below(len);
	for (f = 0; f < nframes; f++) {
		if (c.jump_frame > 0 && f == c.jump_frame) {
			g_tie = 0;
			xmp_set_position(x, c.jump_pos);
			g_tie = 1;
		}
		if (xmp_play_frame(x) < 0)
			break;
	}
	g_tie = 0;
	printf("tiestat %s ticks=%ld solos=%ld multi=%ld kernel_calls=%ld ac_calls=%ld filter_calls=%ld paula_calls=%ld "
	       "one_frame_calls=%ld nonzero_words=%ld fails=%ld sum=%ld vol=%ld kern=%ld vt=%ld vt_skipped=%ld k2=%ld k2_skipped=%ld "
	       "maxvol=%ld maxlevel=%ld maxactive=%ld wraps=%ld maxacc=%lld pk=%ld vr=%ld freed=%ld free_checked=%ld reuse=%ld "
	       "reuse_filter=%ld reuse_ramp=%ld reuse_queued=%ld reuse_rev=%ld reuse_paula=%ld mapped_checked=%ld bg_voices=%ld maxused=%ld "
	       "maxvoc=%d numtracks=%d maxbg=%ld bg_beyond=%ld bg=%ld voices=%d\n", base_name(path), st_ticks,
	       st_voice_solos, st_multi_voice_ticks, st_kernel_calls, st_ac_kernel_calls, st_filter_calls, st_paula_calls,
	       st_one_frame_calls, st_nonzero_words, st_fail, st_sum_cases, st_vol_cases, st_kern_cases, st_vt_cases, st_vt_skipped,
	       st_k2_cases, st_k2_skipped, st_maxvol, st_maxlevel, st_maxactive, st_wraps, st_maxacc, st_pk_cases, st_vr_cases, st_freed,
	       st_free_checked, st_reuse, st_reuse_filter, st_reuse_ramp, st_reuse_queued, st_reuse_rev, st_reuse_paula, st_mapped_checked,
	       st_bg_voices_seen, st_maxused, ((struct context_data *)x)->p.virt.maxvoc, ((struct context_data *)x)->p.virt.num_tracks,
	       st_maxbg, st_bg_beyond, st_bg_cases, c.voices);
	close_ctx(x);
	return 0;
}

/* ------------------------------------------------------------------ */
/* mode: overdrive (how far the accumulator goes with the player's     */
/* default settings: does `*(buffer++) += …` leave the int range?)     */
/* ------------------------------------------------------------------ */

static int mode_overdrive(uint64_t seed, int nframes, const char *path)
{
	xmp_context x = xmp_create_context();
	struct context_data *ctx = (struct context_data *)x;
	int f;

	(void)seed;
	libxmp_set_random(&ctx->rng, 0x12345678u);
	if (xmp_load_module(x, path) < 0 || xmp_start_player(x, 44100, 0) < 0) {
		xmp_free_context(x);
		printf("skip %s\n", path);
		return 0;
	}
	if (getenv("C14_MIX") != NULL)
		xmp_set_player(x, XMP_PLAYER_MIX, atoi(getenv("C14_MIX")));
	if (getenv("C14_MASTER") != NULL)
		xmp_set_player(x, XMP_PLAYER_VOLUME, atoi(getenv("C14_MASTER")));
	g_modname = base_name(path);
	b_sum = b_kern = b_vol = b_dmx = b_vt = b_k2 = b_pk = b_vr = b_vr_odd = b_bg = 0;
	reset_slot_tracking();
	st_ticks = st_fail = st_wraps = st_maxvol = st_maxlevel = st_maxactive = 0;
	st_maxacc = 0;
	printf("begin overdrive %s\n", path);
	g_tie = 1;
	for (f = 0; f < nframes; f++) {
		if (xmp_play_frame(x) < 0)
			break;
	}
	g_tie = 0;
	printf("overdrivestat %s ticks=%ld maxvol=%ld maxlevel=%ld maxactive=%ld maxacc=%lld wraps=%ld mvol=%d mvolbase=%d fails=%ld\n",
	       base_name(path), st_ticks, st_maxvol, st_maxlevel, st_maxactive, st_maxacc, st_wraps, ctx->m.mvol, ctx->m.mvolbase,
	       st_fail);
	close_ctx(x);
	return 0;
}

/* ------------------------------------------------------------------ */
/* mode: twin (player volume tail / pan tail vs the model)             */
/* ------------------------------------------------------------------ */

static int same_voice(const struct mixer_voice *a, const struct mixer_voice *b)
{
	return a->chn == b->chn && a->root == b->root && a->ins == b->ins && a->smp == b->smp &&
	       a->note == b->note && a->key == b->key && a->period == b->period;
}

static int mode_twin(uint64_t seed, int nframes, const char *path)
{
	struct cfg ca, cb;
	xmp_context xa, xb;
	struct context_data *A, *B;
	int f, v, len, budget_m = 60, budget_p = 60, tablefmt;
	long cmp = 0, skipped = 0, nna = 0, muted = 0;

	seed_for(seed, path, 2);
	random_cfg(&cb);
	cb.a500 = 0;
	cb.master = vrng_chance(15) ? 0 : vrng_range(0, 200);
	cb.smixvol = vrng_chance(30) ? 100 : vrng_range(0, 200);
	cb.mix = vrng_chance(15) ? 100 : vrng_chance(18) ? -100 : vrng_range(-100, 100);
	len = module_len(path);
	if (len <= 0) {
		printf("skip %s\n", path);
		return 0;
	}
	cb.startpos = vrng_chance(50) ? 0 : (int)vrng_below(len);
	ca = cb;
	ca.master = 100;
	ca.smixvol = 100;
	ca.mix = 100;
	xa = open_ctx(path, &ca, 0);
	xb = open_ctx(path, &cb, 1);
	if (xa == NULL || xb == NULL) {
		if (xa) close_ctx(xa);
		if (xb) close_ctx(xb);
		printf("skip %s\n", path);
		return 0;
	}
	A = (struct context_data *)xa;
	B = (struct context_data *)xb;
	tablefmt = A->m.vol_table != NULL;
	if (tablefmt && (cb.master == 100 || cb.master == 0)) {
		/* the value relation of a volume-table format needs a master volume that really scales */
		cb.master = vrng_chance(50) ? vrng_range(101, 200) : vrng_range(1, 99);
		xmp_set_player(xb, XMP_PLAYER_VOLUME, cb.master);
	}
	if (tablefmt)
		budget_m = 200;		/* volume translation table formats: the value relation is the only witness of the lookup order */
	printf("begin twin %s fmt=%d mix=%d master=%d smix=%d pos=%d\n", path, cb.fmt, cb.mix, cb.master, cb.smixvol,
	       cb.startpos);
	for (f = 0; f < nframes; f++) {
		int ra = xmp_play_frame(xa), rb = xmp_play_frame(xb);
		int nv = A->p.virt.maxvoc < B->p.virt.maxvoc ? A->p.virt.maxvoc : B->p.virt.maxvoc;
		if (ra < 0 || rb < 0)
			break;
		for (v = 0; v < nv; v++) {
			struct mixer_voice *a = &A->p.virt.voice_array[v], *b = &B->p.virt.voice_array[v];
			int mono = (cb.fmt & XMP_FORMAT_MONO) ? 1 : 0;
			int root_muted;
			if (a->chn < 0)
				continue;
			if (!same_voice(a, b)) {
				skipped++;
				continue;
			}
			cmp++;
			root_muted = (a->root >= 0 && a->root < XMP_MAX_CHANNELS) ? cb.mute[a->root] : 0;
			if (a->chn >= A->p.virt.num_tracks)
				nna++;
			if (root_muted)
				muted++;
			if (budget_m > 0 && (vrng_chance(tablefmt ? 40 : 8) || (a->chn >= A->p.virt.num_tracks && vrng_chance(50)))) {
				printf("C mst %d %d %d %d %d %d %d %d\nE %d\n", a->chn, A->m.mod.chn, A->p.virt.num_tracks,
				       cb.master, cb.smixvol, a->root, root_muted, a->vol, b->vol);
				budget_m--;
			}
			if (budget_p > 0 && vrng_chance(8)) {
				int sur = a->pan == PAN_SURROUND;
				printf("C pan %d %d %d %d\nE %d\n", sur ? 0x80 : a->pan + 0x80, cb.mix, mono, sur, b->pan);
				budget_p--;
			}
		}
	}
	printf("twinstat %s compared=%ld skipped=%ld nna=%ld muted=%ld voltable=%d master=%d smix=%d\n", base_name(path), cmp, skipped, nna, muted,
	       A->m.vol_table != NULL, cb.master, cb.smixvol);
	close_ctx(xa);
	close_ctx(xb);
	return 0;
}

/* ------------------------------------------------------------------ */
/* mode: silence                                                       */
/* ------------------------------------------------------------------ */

static long count_nonsilent(const struct xmp_frame_info *fi, int fmt)
{
	long bad = 0;
	int i;
	if (fmt & XMP_FORMAT_8BIT) {
		const unsigned char *b = (const unsigned char *)fi->buffer;
		unsigned char mid = (fmt & XMP_FORMAT_UNSIGNED) ? 0x80 : 0;
		for (i = 0; i < fi->buffer_size; i++)
			bad += b[i] != mid;
	} else {
		const unsigned short *b = (const unsigned short *)fi->buffer;
		unsigned short mid = (fmt & XMP_FORMAT_UNSIGNED) ? 0x8000 : 0;
		for (i = 0; i < fi->buffer_size / 2; i++)
			bad += b[i] != mid;
	}
	return bad;
}

static int mode_silence(uint64_t seed, int nframes, const char *path)
{
	int variant;

	for (variant = 0; variant < 2; variant++) {
		struct cfg c;
		xmp_context x;
		struct context_data *ctx;
		struct xmp_frame_info fi;
		int f, i, v, reported = 0, len;
		long nna_frames = 0, audible_voice_frames = 0, frames = 0, would_be_audible = 0;

		seed_for(seed, path, 3 + variant);
		random_cfg(&c);
		c.a500 = vrng_chance(5);
		len = module_len(path);
		if (len <= 0) {
			printf("skip %s\n", path);
			return 0;
		}
		c.startpos = vrng_chance(70) ? 0 : (int)vrng_below(len);
		if (variant == 0) {
			c.master = 0;
			for (i = 0; i < XMP_MAX_CHANNELS; i++)
				c.mute[i] = 0;
		} else {
			for (i = 0; i < XMP_MAX_CHANNELS; i++)
				c.mute[i] = 1;
		}
		x = open_ctx(path, &c, 1);
		if (x == NULL) {
			printf("skip %s\n", path);
			return 0;
		}
		ctx = (struct context_data *)x;
		for (f = 0; f < nframes; f++) {
			long bad;
			if (xmp_play_frame(x) < 0)
				break;
			xmp_get_frame_info(x, &fi);
			frames++;
			for (i = 0; i < ctx->m.mod.chn; i++)
				would_be_audible += fi.channel_info[i].volume > 0;
			bad = count_nonsilent(&fi, c.fmt);
			for (v = 0; v < ctx->p.virt.maxvoc; v++) {
				struct mixer_voice *vi = &ctx->p.virt.voice_array[v];
				if (vi->chn >= ctx->p.virt.num_tracks)
					nna_frames++;
			}
			if (bad && !reported) {
				int fg = 0, bg = 0;
				for (v = 0; v < ctx->p.virt.maxvoc; v++) {
					struct mixer_voice *vi = &ctx->p.virt.voice_array[v];
					if (vi->chn < 0 || vi->vol == 0)
						continue;
					audible_voice_frames++;
					if (vi->chn >= ctx->p.virt.num_tracks)
						bg++;
					else
						fg++;
				}
				reported = 1;
				printf("oracle_fail silence:%s%s module=%s variant=%s frame=%d nonsilent_samples=%ld "
				       "voices_with_volume: foreground=%d background=%d fmt=%d rate=%d interp=%d pos=%d\n",
				       variant == 0 ? "master_vol" : "mute", (variant == 0 && fg == 0 && bg > 0) ? ":nna" : "",
				       path, variant == 0 ? "master_vol=0" : "all_muted", f, bad, fg, bg, c.fmt, c.rate,
				       c.interp, c.startpos);
			}
		}
		printf("silencestat %s variant=%d frames=%ld background_voice_frames=%ld channel_frames_with_volume=%ld ok=%d\n",
		       base_name(path), variant, frames, nna_frames, would_be_audible, !reported);
		close_ctx(x);
	}
	return 0;
}

/* ------------------------------------------------------------------ */
/* mode: solosum                                                       */
/* ------------------------------------------------------------------ */

struct render {
	short *pcm;
	long nsamples;
	int maxused, maxvoc, frames;
	int has_background;	/* virtual channels beyond the tracks exist: voices can be evicted */
	int surround, stereo_smp;
};

static int render16(const char *path, const struct cfg *c, int nframes, struct render *r)
{
	xmp_context x = open_ctx(path, c, 1);
	struct context_data *ctx = (struct context_data *)x;
	struct xmp_frame_info fi;
	long cap = 0;
	int f, v, i;

	memset(r, 0, sizeof(*r));
	if (x == NULL)
		return -1;
	r->maxvoc = ctx->p.virt.maxvoc;
	r->has_background = ctx->p.virt.virt_channels > ctx->p.virt.num_tracks;
	for (i = 0; i < ctx->m.mod.smp; i++) {
		if (ctx->m.mod.xxs[i].flg & XMP_SAMPLE_STEREO)
			r->stereo_smp = 1;
	}
	for (f = 0; f < nframes; f++) {
		if (c->jump_frame > 0 && f == c->jump_frame)
			xmp_set_position(x, c->jump_pos);
		if (xmp_play_frame(x) < 0)
			break;
		xmp_get_frame_info(x, &fi);
		if (r->nsamples + fi.buffer_size / 2 > cap) {
			cap = (r->nsamples + fi.buffer_size / 2) * 2 + 4096;
			r->pcm = (short *)realloc(r->pcm, cap * sizeof(short));
		}
		memcpy(r->pcm + r->nsamples, fi.buffer, fi.buffer_size);
		r->nsamples += fi.buffer_size / 2;
		r->frames++;
		if (ctx->p.virt.virt_used > r->maxused)
			r->maxused = ctx->p.virt.virt_used;
		for (v = 0; v < ctx->p.virt.maxvoc; v++) {
			if (ctx->p.virt.voice_array[v].chn >= 0 && ctx->p.virt.voice_array[v].pan == PAN_SURROUND)
				r->surround = 1;
		}
		for (i = 0; i < ctx->p.virt.virt_channels; i++) {
			if (ctx->p.xc_data[i].pan.surround)
				r->surround = 1;
		}
	}
	close_ctx(x);
	return 0;
}

/* returns the number of samples beyond the tolerance (-1: not applicable); `a500`: -1 = as drawn,
 * 0 = forced off (used to attribute a failure to the Paula kernels); quiet = no output */
static long mode_solosum(uint64_t seed, int nframes, const char *path, int a500, int quiet)
{
	struct cfg c, cg;
	struct render full, part;
	long *sum;
	int nchn, g, ngroups, i, len, group_of[XMP_MAX_CHANNELS];
	long k, worst = 0, clipped = 0, compared = 0, exceed = 0, firstbad = -1, hist[4] = { 0, 0, 0, 0 };
	int evict = 0;
	xmp_context x;

	seed_for(seed, path, 5);
	random_cfg(&c);
	c.fmt &= XMP_FORMAT_MONO;	/* 16-bit signed */
	c.amp = vrng_below(2);
	c.a500 = vrng_chance(15);
	env_overrides_late(&c);
	if (a500 >= 0)
		c.a500 = a500;
	c.master = vrng_chance(50) ? 100 : vrng_range(20, 120);
	for (i = 0; i < XMP_MAX_CHANNELS; i++)
		c.mute[i] = 0;
	len = module_len(path);
	if (len <= 0) {
		if (!quiet)
			printf("skip %s\n", path);
		return -1;
	}
	c.startpos = vrng_chance(60) ? 0 : (int)vrng_below(len);
	if (getenv("C14_POS") != NULL)
		c.startpos = atoi(getenv("C14_POS"));
	if (vrng_chance(35) || getenv("C14_JUMP") != NULL) {
		c.jump_frame = vrng_range(nframes / 4, nframes / 2 + 1);
		c.jump_pos = (int)vrng_below(len);
	}

	x = xmp_create_context();
	if (xmp_load_module(x, path) < 0) {
		xmp_free_context(x);
		if (!quiet)
			printf("skip %s\n", path);
		return -1;
	} else {
		struct xmp_module_info mi;
		xmp_get_module_info(x, &mi);
		nchn = mi.mod->chn;
		xmp_release_module(x);
		xmp_free_context(x);
	}
	if (nchn < 2) {
		if (!quiet)
			printf("skip %s\n", path);
		return -1;
	}
	ngroups = nchn <= 6 ? nchn : vrng_range(2, 6);
	if (ngroups == nchn) {
		for (i = 0; i < nchn; i++)
			group_of[i] = i;
	} else {
		for (i = 0; i < nchn; i++)
			group_of[i] = i < ngroups ? i : (int)vrng_below(ngroups);
	}

	if (render16(path, &c, nframes, &full) < 0) {
		if (!quiet)
			printf("skip %s\n", path);
		return -1;
	}
	/* free_voice() only ever evicts background voices (chn >= num_tracks) */
	if (full.has_background && full.maxused >= full.maxvoc)
		evict = 1;
	sum = (long *)calloc(full.nsamples + 1, sizeof(long));
	{
		char *clip = (char *)calloc(full.nsamples + 1, 1);
		for (k = 0; k < full.nsamples; k++) {
			if (full.pcm[k] == 32767 || full.pcm[k] == -32768)
				clip[k] = 1;
		}
		for (g = 0; g < ngroups; g++) {
			cg = c;
			for (i = 0; i < XMP_MAX_CHANNELS; i++)
				cg.mute[i] = (i < nchn && group_of[i] == g) ? 0 : 1;
			if (render16(path, &cg, nframes, &part) < 0 || part.nsamples != full.nsamples) {
				if (!quiet)
					printf("oracle_fail superposition:timeline module=%s group=%d samples=%ld full=%ld (a muted render "
					       "has a different length)\n", path, g, part.nsamples, full.nsamples);
				free(part.pcm);
				free(clip);
				free(sum);
				free(full.pcm);
				return -1;
			}
			if (part.has_background && part.maxused >= part.maxvoc)
				evict = 1;
			for (k = 0; k < full.nsamples; k++) {
				if (part.pcm[k] == 32767 || part.pcm[k] == -32768)
					clip[k] = 1;
				sum[k] += part.pcm[k];
			}
			free(part.pcm);
		}
		for (k = 0; k < full.nsamples; k++) {
			long d;
			if (clip[k]) {
				clipped++;
				continue;
			}
			compared++;
			d = (long)full.pcm[k] - sum[k];
			if (d >= 0 && d < 4)
				hist[d]++;
			if (labs(d) > worst)
				worst = labs(d);
			if (labs(d) > ngroups) {
				exceed++;
				if (firstbad < 0)
					firstbad = k;
			}
		}
		free(clip);
	}
	if (exceed && !evict && !quiet) {
		/* is it the Paula kernels?  the same configuration with the standard kernels decides */
		const char *suffix = "";
		if (c.a500 && mode_solosum(seed, nframes, path, 0, 1) == 0)
			suffix = ":a500";
		printf("oracle_fail superposition:solo_sum%s module=%s groups=%d channels=%d samples_beyond_tolerance=%ld first=%ld "
		       "worst=%ld rate=%d fmt=%d interp=%d amp=%d master=%d mix=%d pos=%d a500=%d jump=%d@%d\n", suffix, path, ngroups, nchn, exceed, firstbad,
		       worst, c.rate, c.fmt, c.interp, c.amp, c.master, c.mix, c.startpos, c.a500, c.jump_pos, c.jump_frame);
	}
	if (!quiet)
		printf("solosumstat %s groups=%d channels=%d frames=%d compared=%ld clipped=%ld worst=%ld d0=%ld d1=%ld d2=%ld d3=%ld "
	       "voice_limit_reached=%d maxused=%d maxvoc=%d beyond=%ld rate=%d interp=%d\n", base_name(path), ngroups, nchn, full.frames, compared,
	       clipped, worst, hist[0], hist[1], hist[2], hist[3], evict, full.maxused, full.maxvoc, exceed, c.rate, c.interp);
	free(sum);
	free(full.pcm);
	return evict ? -1 : exceed;
}

/* ------------------------------------------------------------------ */
/* mode: sep                                                           */
/* ------------------------------------------------------------------ */

static int mode_sep(uint64_t seed, int nframes, const char *path)
{
	struct cfg c, c0, cn;
	struct render rp, rn, r0;
	long k, bad_swap = 0, bad_zero = 0, first_swap = -1, first_zero = -1, differ = 0;
	int i, len, applicable;

	seed_for(seed, path, 6);
	random_cfg(&c);
	c.fmt = 0;	/* 16-bit signed stereo */
	c.a500 = vrng_chance(15);
	env_overrides_late(&c);
	for (i = 0; i < XMP_MAX_CHANNELS; i++)
		c.mute[i] = 0;
	c.mix = vrng_chance(45) ? 100 : vrng_range(1, 100);
	if (getenv("C14_MIX") != NULL)	/* part of the replay record */
		c.mix = atoi(getenv("C14_MIX"));
	len = module_len(path);
	if (len <= 0) {
		printf("skip %s\n", path);
		return 0;
	}
	c.startpos = vrng_chance(60) ? 0 : (int)vrng_below(len);
	if (getenv("C14_POS") != NULL)
		c.startpos = atoi(getenv("C14_POS"));
	cn = c;
	cn.mix = -c.mix;
	c0 = c;
	c0.mix = 0;
	if (render16(path, &c, nframes, &rp) < 0) {
		printf("skip %s\n", path);
		return 0;
	}
	render16(path, &cn, nframes, &rn);
	render16(path, &c0, nframes, &r0);
	applicable = !(rp.surround || rn.surround || r0.surround || rp.stereo_smp);
	if (rn.nsamples != rp.nsamples || r0.nsamples != rp.nsamples) {
		printf("oracle_fail separation:timeline module=%s samples=%ld/%ld/%ld\n", path, rp.nsamples, rn.nsamples,
		       r0.nsamples);
	} else if (applicable) {
		for (k = 0; k + 1 < rp.nsamples; k += 2) {
			if (rp.pcm[k] != rn.pcm[k + 1] || rp.pcm[k + 1] != rn.pcm[k]) {
				bad_swap++;
				if (first_swap < 0)
					first_swap = k / 2;
			}
			if (r0.pcm[k] != r0.pcm[k + 1]) {
				bad_zero++;
				if (first_zero < 0)
					first_zero = k / 2;
			}
			if (rp.pcm[k] != rp.pcm[k + 1])
				differ++;
		}
		if (bad_swap)
			printf("oracle_fail separation:mirror module=%s mix=%d frames_not_swapped=%ld first=%ld rate=%d interp=%d "
			       "amp=%d pos=%d\n", path, c.mix, bad_swap, first_swap, c.rate, c.interp, c.amp, c.startpos);
		if (bad_zero)
			printf("oracle_fail separation:zero module=%s frames_with_L_ne_R=%ld first=%ld rate=%d interp=%d amp=%d "
			       "pos=%d\n", path, bad_zero, first_zero, c.rate, c.interp, c.amp, c.startpos);
	}
	printf("sepstat %s applicable=%d mix=%d frames=%ld L_ne_R_frames=%ld surround=%d stereo_samples=%d rate=%d interp=%d\n",
	       base_name(path), applicable, c.mix, rp.nsamples / 2, differ, rp.surround || rn.surround || r0.surround, rp.stereo_smp,
	       c.rate, c.interp);
	free(rp.pcm);
	free(rn.pcm);
	free(r0.pcm);
	return 0;
}

int main(int argc, char **argv)
{
	uint64_t seed;
	int nframes, i;
	const char *mode;

	if (argc < 5) {
		fprintf(stderr, "usage: %s tie|lowrate|twin|overdrive|silence|solosum|sep <seed> <nframes> <module>...\n", argv[0]);
		return 2;
	}
	mode = argv[1];
	seed = strtoull(argv[2], NULL, 10);
	nframes = atoi(argv[3]);
	for (i = 4; i < argc; i++) {
		if (!strcmp(mode, "tie"))
			mode_tie(seed, nframes, argv[i], 0);
		else if (!strcmp(mode, "lowrate"))
			mode_tie(seed, nframes, argv[i], 1);
		else if (!strcmp(mode, "twin"))
			mode_twin(seed, nframes, argv[i]);
		else if (!strcmp(mode, "overdrive"))
			mode_overdrive(seed, nframes, argv[i]);
		else if (!strcmp(mode, "silence"))
			mode_silence(seed, nframes, argv[i]);
		else if (!strcmp(mode, "solosum"))
			mode_solosum(seed, nframes, argv[i], -1, 0);
		else if (!strcmp(mode, "sep"))
			mode_sep(seed, nframes, argv[i]);
		else
			return 2;
		fflush(stdout);
	}
	return 0;
}
