/* C09 correspondence, part 2: the real depackers' framing + integrity gates.
 *
 *   c09_gates <workdir> <casefile>         casefile lines:  <gzip|arc|arcfs|lzx|xz|zipf> <hex of archive>
 *
 * For every case the archive is written to <workdir>/case.bin, opened with hio_open (FILE
 * backed, as xmp_load_module does) and handed to the real `libxmp_depacker_<fmt>.depack`.
 * The entropy decoders and the exclusion matcher are intercepted at link level
 * (-Wl,--wrap=…: the library objects are unmodified) and every call is logged, so that the
 * Lean model can be run with exactly these functions as its parameters:
 *
 *   dec <inhex> <ok> <outhex>                           libxmp_tinfl_decompress_mem_to_heap
 *   unp <method> <bits> <outlen> <inhex> <ok> <outhex>  libxmp_arc_unpack
 *   lzu <method> <outlen> <inhex> <ok> <outhex>         lzx_unpack
 *   excl <namehex> <0|1>                                libxmp_exclude_match
 *   inf <cap> <consumed-input hex> <outhex>             libxmp_tinfl_decompress calls of one zip member that
 *                                                       ended with TINFL_STATUS_DONE (cap = output buffer size)
 *   lz2 <props> <consumed-input hex> <piece hex>*       xz_dec_lzma2_reset + the xz_dec_lzma2_run calls of
 *                                                       one Block that ended with XZ_STREAM_END
 *   <fmt> [<limit>] <filehex>                           the case, in the driver's syntax
 *   real none | real some <hex>                         what the real depacker answered
 */
#include "vcommon.h"
#include <unistd.h>
#include "common.h"
#include "hio.h"
#include "depackers/depacker.h"
#include "depackers/xz.h"
#include "miniz.h"

static FILE *spy;

void *__real_libxmp_tinfl_decompress_mem_to_heap(const void *src, size_t len, size_t *outlen, int flags);
void *__wrap_libxmp_tinfl_decompress_mem_to_heap(const void *src, size_t len, size_t *outlen, int flags)
{
	void *r = __real_libxmp_tinfl_decompress_mem_to_heap(src, len, outlen, flags);
	if (spy) {
		fputs("dec ", spy); put_hex(spy, src, len);
		if (r) { fputs(" 1 ", spy); put_hex(spy, r, *outlen); }
		else fputs(" 0 -", spy);
		fputc('\n', spy);
	}
	return r;
}

const char *__real_libxmp_arc_unpack(unsigned char *dest, size_t dest_len, const unsigned char *src,
				     size_t src_len, int method, int max_width);
const char *__wrap_libxmp_arc_unpack(unsigned char *dest, size_t dest_len, const unsigned char *src,
				     size_t src_len, int method, int max_width)
{
	const char *r = __real_libxmp_arc_unpack(dest, dest_len, src, src_len, method, max_width);
	if (spy) {
		fprintf(spy, "unp %d %d %lu ", method & 0xff, max_width & 0xff, (unsigned long)dest_len);
		put_hex(spy, src, src_len);
		if (!r) { fputs(" 1 ", spy); put_hex(spy, dest, dest_len); }
		else fputs(" 0 -", spy);
		fputc('\n', spy);
	}
	return r;
}

int __real_lzx_unpack(unsigned char *dest, size_t dest_len, const unsigned char *src, size_t src_len, int method);
int __wrap_lzx_unpack(unsigned char *dest, size_t dest_len, const unsigned char *src, size_t src_len, int method)
{
	int r = __real_lzx_unpack(dest, dest_len, src, src_len, method);
	if (spy) {
		fprintf(spy, "lzu %d %lu ", method & 0xff, (unsigned long)dest_len);
		put_hex(spy, src, src_len);
		if (!r) { fputs(" 1 ", spy); put_hex(spy, dest, dest_len); }
		else fputs(" 0 -", spy);
		fputc('\n', spy);
	}
	return r;
}

int __real_libxmp_exclude_match(const char *name);
int __wrap_libxmp_exclude_match(const char *name)
{
	int r = __real_libxmp_exclude_match(name);
	if (spy) {
		fputs("excl ", spy); put_hex(spy, name, strlen(name));
		fprintf(spy, " %d\n", r ? 1 : 0);
	}
	return r;
}


/* --- tinfl as called by miniz_zip.c (streaming, non-wrapping output buffer) --- */
static unsigned char *ti_in;
static size_t ti_in_len, ti_in_cap, ti_cap, ti_out;
static int ti_live;

tinfl_status __real_libxmp_tinfl_decompress(tinfl_decompressor *r, const mz_uint8 *in, size_t *in_size, mz_uint8 *out_start,
					    mz_uint8 *out_next, size_t *out_size, const mz_uint32 flags);
tinfl_status __wrap_libxmp_tinfl_decompress(tinfl_decompressor *r, const mz_uint8 *in, size_t *in_size, mz_uint8 *out_start,
					    mz_uint8 *out_next, size_t *out_size, const mz_uint32 flags)
{
	int fresh = r->m_state == 0;
	size_t cap0 = *out_size;
	tinfl_status st = __real_libxmp_tinfl_decompress(r, in, in_size, out_start, out_next, out_size, flags);
	if (!spy)
		return st;
	if (fresh) {
		ti_live = 1;
		ti_in_len = 0;
		ti_out = 0;
		ti_cap = cap0 + (size_t)(out_next - out_start);
	}
	if (ti_live) {
		if (ti_in_len + *in_size > ti_in_cap) {
			ti_in_cap = (ti_in_len + *in_size) * 2 + 64;
			ti_in = (unsigned char *)realloc(ti_in, ti_in_cap);
		}
		memcpy(ti_in + ti_in_len, in, *in_size);
		ti_in_len += *in_size;
		ti_out = (size_t)(out_next - out_start) + *out_size;
		if (st == TINFL_STATUS_DONE) {
			fprintf(spy, "inf %lu ", (unsigned long)ti_cap);
			put_hex(spy, ti_in, ti_in_len);
			fputc(' ', spy);
			put_hex(spy, out_start, ti_out);
			fputc('\n', spy);
			ti_live = 0;
		} else if (st != TINFL_STATUS_NEEDS_MORE_INPUT) {
			ti_live = 0;
		}
	}
	return st;
}

/* --- LZMA2 decoder of the xz depacker: one `lz2` line per Block decoded to its end --- */
struct xz_dec_lzma2;
static int lz_props = -1;
static unsigned char *lz_in;		/* compressed bytes consumed so far in this Block */
static size_t lz_in_len, lz_in_cap;
static char *lz_pieces;			/* " <hex>" per non-empty output piece */
static size_t lz_pieces_len;
static FILE *lz_pf;

static void lz_drop(void)
{
	if (lz_pf) { fclose(lz_pf); lz_pf = NULL; }
	free(lz_pieces); lz_pieces = NULL; lz_pieces_len = 0;
	lz_in_len = 0;
	lz_props = -1;
}

enum xz_ret __real_xz_dec_lzma2_reset(struct xz_dec_lzma2 *s, uint8 props);
enum xz_ret __wrap_xz_dec_lzma2_reset(struct xz_dec_lzma2 *s, uint8 props)
{
	enum xz_ret r = __real_xz_dec_lzma2_reset(s, props);
	lz_drop();
	if (spy && r == XZ_OK) {
		lz_props = props;
		lz_pf = open_memstream(&lz_pieces, &lz_pieces_len);
	}
	return r;
}

enum xz_ret __real_xz_dec_lzma2_run(struct xz_dec_lzma2 *s, struct xz_buf *b);
enum xz_ret __wrap_xz_dec_lzma2_run(struct xz_dec_lzma2 *s, struct xz_buf *b)
{
	size_t in0 = b->in_pos, out0 = b->out_pos;
	enum xz_ret r = __real_xz_dec_lzma2_run(s, b);
	if (spy && lz_props >= 0 && lz_pf) {
		size_t n = b->in_pos - in0;
		if (lz_in_len + n > lz_in_cap) {
			lz_in_cap = (lz_in_len + n) * 2 + 64;
			lz_in = (unsigned char *)realloc(lz_in, lz_in_cap);
		}
		memcpy(lz_in + lz_in_len, b->in + in0, n);
		lz_in_len += n;
		if (b->out_pos > out0) {
			fputc(' ', lz_pf);
			put_hex(lz_pf, b->out + out0, b->out_pos - out0);
		}
		if (r == XZ_STREAM_END) {
			fflush(lz_pf);
			fprintf(spy, "lz2 %d ", lz_props);
			put_hex(spy, lz_in, lz_in_len);
			fwrite(lz_pieces, 1, lz_pieces_len, spy);
			fputc('\n', spy);
			lz_drop();
		} else if (r != XZ_OK) {
			lz_drop();
		}
	}
	return r;
}

int main(int argc, char **argv)
{
	char path[4096];
	FILE *cf;
	char *line = NULL;
	size_t cap = 0;
	ssize_t got;

	if (argc < 3) {
		fprintf(stderr, "usage: c09_gates workdir casefile\n");
		return 3;
	}
	snprintf(path, sizeof(path), "%s/case.bin", argv[1]);
	cf = fopen(argv[2], "r");
	if (!cf)
		return 3;
	while ((got = getline(&line, &cap, cf)) > 0) {
		char fmt[16];
		char *sp, *hex;
		unsigned char *data, *out = NULL;
		const struct depacker *d;
		long n, outlen = 0;
		int with_limit = 1, rc;
		char *spybuf = NULL;
		size_t spylen = 0;
		HIO_HANDLE *h;
		FILE *f;

		while (got > 0 && (line[got - 1] == '\n' || line[got - 1] == '\r'))
			line[--got] = 0;
		sp = strchr(line, ' ');
		if (!sp || sp - line >= (long)sizeof(fmt))
			continue;
		memcpy(fmt, line, sp - line);
		fmt[sp - line] = 0;
		hex = sp + 1;
		if (!strcmp(fmt, "gzip")) { d = &libxmp_depacker_gzip; with_limit = 0; }
		else if (!strcmp(fmt, "arc")) d = &libxmp_depacker_arc;
		else if (!strcmp(fmt, "arcfs")) d = &libxmp_depacker_arcfs;
		else if (!strcmp(fmt, "lzx")) d = &libxmp_depacker_lzx;
		else if (!strcmp(fmt, "xz")) { d = &libxmp_depacker_xz; with_limit = 0; }
		else if (!strcmp(fmt, "zipf")) { d = &libxmp_depacker_zip; with_limit = 0; }
		else continue;
		n = get_hex(hex, &data);
		if (n < 0)
			return 3;
		f = fopen(path, "wb");
		if (!f || fwrite(data, 1, n, f) != (size_t)n)
			return 3;
		fclose(f);
		h = hio_open(path, "rb");
		if (!h)
			return 3;
		spy = open_memstream(&spybuf, &spylen);
		rc = d->depack(h, (void **)&out, &outlen);
		fclose(spy);
		spy = NULL;
		hio_close(h);
		fwrite(spybuf, 1, spylen, stdout);
		free(spybuf);
		if (with_limit)
			printf("%s %lu %s\n", fmt, (unsigned long)LIBXMP_DEPACK_LIMIT, hex);
		else
			printf("%s %s\n", fmt, hex);
		if (rc < 0) {
			printf("real none\n");
		} else {
			printf("real some ");
			put_hex(stdout, out, outlen);
			printf("\n");
			free(out);
		}
		free(data);
	}
	unlink(path);
	return 0;
}
