/* C09 correspondence, part 2: the real depackers' framing + integrity gates.
 *
 *   c09_gates <workdir> <casefile>         casefile lines:  <gzip|arc|arcfs|lzx> <hex of archive>
 *
 * For every case the archive is written to <workdir>/case.bin, opened with hio_open (FILE
 * backed, as xmp_load_module does) and handed to the real `libxmp_depacker_<fmt>.depack`.
 * The entropy decoders and the exclusion matcher are intercepted at link level
 * (-Wl,--wrap=…: the library objects are unmodified) and every call is logged, so that the
 * Lean model can be run with exactly these functions as its parameters:
 *
 *   dec <inhex> <ok> <outhex>                           libxmp_tinfl_decompress_mem_to_heap
 *   unp <method> <bits> <outlen> <inhex> <ok> <outhex>  libxmp_arc_unpack
 *   lzu <method> <outlen> <inhex> <ok> <outhex>         lzx_unpack
 *   excl <namehex> <0|1>                                libxmp_exclude_match
 *   <fmt> [<limit>] <filehex>                           the case, in the driver's syntax
 *   real none | real some <hex>                         what the real depacker answered
 */
#include "vcommon.h"
#include "common.h"
#include "hio.h"
#include "depackers/depacker.h"

static FILE *spy;

void *__real_libxmp_tinfl_decompress_mem_to_heap(const void *src, size_t len, size_t *outlen, int flags);
void *__wrap_libxmp_tinfl_decompress_mem_to_heap(const void *src, size_t len, size_t *outlen, int flags)
{
	void *r = __real_libxmp_tinfl_decompress_mem_to_heap(src, len, outlen, flags);
	if (spy) {
		fputs("dec ", spy); put_hex(spy, src, len);
		if (r) { fputs(" 1 ", spy); put_hex(spy, r, *outlen); }
		else fputs(" 0 -", spy);
		fputc('\n', spy);
	}
	return r;
}

const char *__real_libxmp_arc_unpack(unsigned char *dest, size_t dest_len, const unsigned char *src,
				     size_t src_len, int method, int max_width);
const char *__wrap_libxmp_arc_unpack(unsigned char *dest, size_t dest_len, const unsigned char *src,
				     size_t src_len, int method, int max_width)
{
	const char *r = __real_libxmp_arc_unpack(dest, dest_len, src, src_len, method, max_width);
	if (spy) {
		fprintf(spy, "unp %d %d %lu ", method & 0xff, max_width & 0xff, (unsigned long)dest_len);
		put_hex(spy, src, src_len);
		if (!r) { fputs(" 1 ", spy); put_hex(spy, dest, dest_len); }
		else fputs(" 0 -", spy);
		fputc('\n', spy);
	}
	return r;
}

int __real_lzx_unpack(unsigned char *dest, size_t dest_len, const unsigned char *src, size_t src_len, int method);
int __wrap_lzx_unpack(unsigned char *dest, size_t dest_len, const unsigned char *src, size_t src_len, int method)
{
	int r = __real_lzx_unpack(dest, dest_len, src, src_len, method);
	if (spy) {
		fprintf(spy, "lzu %d %lu ", method & 0xff, (unsigned long)dest_len);
		put_hex(spy, src, src_len);
		if (!r) { fputs(" 1 ", spy); put_hex(spy, dest, dest_len); }
		else fputs(" 0 -", spy);
		fputc('\n', spy);
	}
	return r;
}

int __real_libxmp_exclude_match(const char *name);
int __wrap_libxmp_exclude_match(const char *name)
{
	int r = __real_libxmp_exclude_match(name);
	if (spy) {
		fputs("excl ", spy); put_hex(spy, name, strlen(name));
		fprintf(spy, " %d\n", r ? 1 : 0);
	}
	return r;
}

int main(int argc, char **argv)
{
	char path[4096];
	FILE *cf;
	char *line = NULL;
	size_t cap = 0;
	ssize_t got;

	if (argc < 3) {
		fprintf(stderr, "usage: c09_gates workdir casefile\n");
		return 3;
	}
	snprintf(path, sizeof(path), "%s/case.bin", argv[1]);
	cf = fopen(argv[2], "r");
	if (!cf)
		return 3;
	while ((got = getline(&line, &cap, cf)) > 0) {
		char fmt[16];
		char *sp, *hex;
		unsigned char *data, *out = NULL;
		const struct depacker *d;
		long n, outlen = 0;
		int with_limit = 1, rc;
		char *spybuf = NULL;
		size_t spylen = 0;
		HIO_HANDLE *h;
		FILE *f;

		while (got > 0 && (line[got - 1] == '\n' || line[got - 1] == '\r'))
			line[--got] = 0;
		sp = strchr(line, ' ');
		if (!sp || sp - line >= (long)sizeof(fmt))
			continue;
		memcpy(fmt, line, sp - line);
		fmt[sp - line] = 0;
		hex = sp + 1;
		if (!strcmp(fmt, "gzip")) { d = &libxmp_depacker_gzip; with_limit = 0; }
		else if (!strcmp(fmt, "arc")) d = &libxmp_depacker_arc;
		else if (!strcmp(fmt, "arcfs")) d = &libxmp_depacker_arcfs;
		else if (!strcmp(fmt, "lzx")) d = &libxmp_depacker_lzx;
		else continue;
		n = get_hex(hex, &data);
		if (n < 0)
			return 3;
		f = fopen(path, "wb");
		if (!f || fwrite(data, 1, n, f) != (size_t)n)
			return 3;
		fclose(f);
		h = hio_open(path, "rb");
		if (!h)
			return 3;
		spy = open_memstream(&spybuf, &spylen);
		rc = d->depack(h, (void **)&out, &outlen);
		fclose(spy);
		spy = NULL;
		hio_close(h);
		fwrite(spybuf, 1, spylen, stdout);
		free(spybuf);
		if (with_limit)
			printf("%s %lu %s\n", fmt, (unsigned long)LIBXMP_DEPACK_LIMIT, hex);
		else
			printf("%s %s\n", fmt, hex);
		if (rc < 0) {
			printf("real none\n");
		} else {
			printf("real some ");
			put_hex(stdout, out, outlen);
			printf("\n");
			free(out);
		}
		free(data);
	}
	unlink(path);
	return 0;
}
