/* C06 correspondence harness: reset completeness of a libxmp context.
 *
 *   c06_reset <seed> <ncases> <maxhist> <module>...
 *   c06_reset --replay <file>       (file: the lines of one `case` as printed, module paths included)
 *
 * Two kinds of cases, both generated from the seed:
 *
 * hist  a context B gets a random prior history (load/start/play/control/
 *       release cycles on arbitrary modules, through the public API only); a
 *       fresh context A is given B's persistent settings only.  Both then load
 *       the same module and start the player with the same configuration.
 *       The WHOLE context_data image (every leaf of the generated field list,
 *       pointers by pointee) is compared (`diff_start` lines), then the same
 *       control script runs on both, every return code / PCM byte / frame info
 *       is compared (`oracle_fail`), and the image is compared again
 *       (`diff_end`).
 *
 * op    a context C with a short random history; one modelled operation
 *       (create, prologue, epilogue, resetflow, start, end, release, load) is
 *       executed on the real code; the complete image before and after is
 *       printed (`pre`/`post`) together with the externally determined inputs
 *       (`ext`), for the Lean driver to replay on the model.
 */
#include "c06_script.h"

void libxmp_load_prologue(struct context_data *);
void libxmp_load_epilogue(struct context_data *);

static struct c06_mods mods;

static void apply_script(xmp_context c, const struct c06_script *s, struct c06_obs *o)
{
	int i;
	for (i = 0; i < s->n; i++)
		c06_apply(c, &s->op[i], &mods, o);
}

static void print_script(const char *tag, const struct c06_script *s)
{
	int i;
	for (i = 0; i < s->n; i++) {
		printf("%s ", tag);
		c06_print_op(stdout, &s->op[i]);
		if (s->op[i].kind == OP_LOAD || s->op[i].kind == OP_LOADMEM)
			printf(" %s", mods.path[s->op[i].a]);
		printf("\n");
	}
}

/* smix calls of the session that is still open on the reused context (start, slot loads / releases that succeeded) */
static struct c06_op smix_log[C06_MAXOPS];
static int smix_log_n;

static void smix_track(struct context_data *b, const struct c06_op *op, int was_open_tables)
{
	switch (op->kind) {
	case OP_SMIXSTART:
		/* took effect iff not playing and arguments valid: then the tables are new and sized as asked */
		if (b->state <= XMP_STATE_LOADED && b->smix.xxi != NULL && b->smix.chn == op->a && b->smix.smp == op->b) {
			smix_log_n = 0;
			smix_log[smix_log_n++] = *op;
		}
		break;
	case OP_SMIXEND:
		if (b->smix.xxi == NULL && b->smix.xxs == NULL)
			smix_log_n = 0;
		break;
	case OP_SMIXLOAD: case OP_SMIXREL:
		if (was_open_tables && op->a >= 0 && op->a < b->smix.ins && smix_log_n < C06_MAXOPS)
			smix_log[smix_log_n++] = *op;
		break;
	}
}

static void smix_mirror(struct context_data *a, struct context_data *b)
{
	struct c06_obs junk;
	int i;
	c06_obs_init(&junk);
	xmp_end_smix((xmp_context)a);
	printf("P smix %s calls %d\n", b->smix.xxi ? "open" : "closed", smix_log_n);
	if (b->smix.xxi == NULL && b->smix.xxs == NULL)
		return;
	for (i = 0; i < smix_log_n; i++)
		c06_apply((xmp_context)a, &smix_log[i], &mods, &junk);
	/* the slot volumes are the volume base of whatever module was loaded when the slot was filled */
	for (i = 0; i < b->smix.ins && i < a->smix.ins; i++) {
		a->smix.xxi[i].vol = b->smix.xxi[i].vol;
		if (a->smix.xxi[i].sub && b->smix.xxi[i].sub)
			a->smix.xxi[i].sub->vol = b->smix.xxi[i].sub->vol;
	}
}

/* copy the settings documented to persist across loads from B to the fresh context A */
static void copy_persistent(struct context_data *a, struct context_data *b)
{
	a->p.player_flags = b->p.player_flags;
	a->m.smpctl = b->m.smpctl;
	a->m.defpan = b->m.defpan;
	a->s.numvoc = b->s.numvoc;
	xmp_set_instrument_path((xmp_context)a, b->m.instrument_path);
	printf("P p_player_flags %d\nP m_smpctl %d\nP m_defpan %d\nP s_numvoc %d\nP m_instrument_path %s\n",
		b->p.player_flags, b->m.smpctl, b->m.defpan, b->s.numvoc, b->m.instrument_path ? b->m.instrument_path : "-");
	/* the sound-effect mixer session B still has OPEN is a persistent setting too: the fresh context repeats
	 * the calls of that session (see smix_log); a session B has closed leaves nothing behind, then A stays as
	 * created and B's smix members must equal A's. */
	smix_mirror(a, b);
}

struct hist_case {
	int target, rate, fmt, smix_chn, via_mem;
	unsigned rng;
	struct c06_script hist, ctl;
	/* optional earlier player run on the SAME loaded module (reused context only) */
	int pre_rate, pre_fmt, pre_end;
	struct c06_script prerun;
	/* poison the members the model says load / start re-initialise (reused context only) */
	int poison;
};

static int run_hist(const struct hist_case *hc)
{
	xmp_context A = xmp_create_context(), B = xmp_create_context();
	struct context_data *a = (struct context_data *)A, *b = (struct context_data *)B;
	struct c06_obs oa, ob, junk;
	struct c06_image ia, ib;
	struct c06_op op;
	int ra, rb, nd, bad = 0;

	if (hc->smix_chn > 0) {
		xmp_start_smix(A, hc->smix_chn, 2);
		xmp_start_smix(B, hc->smix_chn, 2);
	}
	c06_obs_init(&junk);
	smix_log_n = 0;
	if (hc->smix_chn > 0 && b->smix.xxi != NULL) {
		memset(&smix_log[0], 0, sizeof(smix_log[0]));
		smix_log[0].kind = OP_SMIXSTART; smix_log[0].a = hc->smix_chn; smix_log[0].b = 2;
		smix_log_n = 1;
	}
	{
		int i;
		for (i = 0; i < hc->hist.n; i++) {
			int open_before = b->smix.xxi != NULL;
			c06_apply(B, &hc->hist.op[i], &mods, &junk);
			smix_track(b, &hc->hist.op[i], open_before);
		}
	}
	printf("hist_state %d frames %ld\n", b->state, junk.frames);
	copy_persistent(a, b);
	if (hc->poison && c06_poison_n[0] > 0) {
		/* a load releases a loaded module first; do that now so that the poison is what the load sees */
		if (b->state >= XMP_STATE_LOADED)
			xmp_release_module(B);
		printf("poison load %d\n", c06_poison(b, 0));
	}

	c06_obs_init(&oa);
	c06_obs_init(&ob);
	memset(&op, 0, sizeof(op));
	op.kind = hc->via_mem ? OP_LOADMEM : OP_LOAD;
	op.a = hc->target;
	c06_apply(A, &op, &mods, &oa);
	c06_apply(B, &op, &mods, &ob);
	ra = a->state; rb = b->state;
	if (ra != rb) {
		printf("oracle_fail load_state %d %d\n", ra, rb);
		bad = 1;
	}
	if (ra < XMP_STATE_LOADED) {
		printf("skip load_failed\n");
		goto out;
	}
	if (a->m.mod.chn + a->smix.chn > XMP_MAX_CHANNELS) {
		printf("skip too_many_channels\n");
		goto out;
	}
	/* frame info is available from state LOADED on: it must not show the previous module */
	op.kind = OP_GETINFO;
	c06_apply(A, &op, &mods, &oa);
	c06_apply(B, &op, &mods, &ob);
	if (oa.h != ob.h) {
		printf("oracle_fail loaded_info %016llx %016llx\n", (unsigned long long)oa.h, (unsigned long long)ob.h);
		bad = 1;
	}
	/* what a load re-initialises must already agree now (members start rewrites would mask it later) */
	c06_image_take(a, &ia);
	c06_image_take(b, &ib);
	c06_image_diff(stdout, "diff_loaded", &ia, &ib);
	c06_image_free(&ia);
	c06_image_free(&ib);
	if (hc->poison && hc->prerun.n == 0 && c06_poison_n[1] > 0)
		printf("poison start %d\n", c06_poison(b, 1));
	if (hc->prerun.n > 0) {
		/* B plays the freshly loaded module for a while, then the player is started again on both */
		op.kind = OP_START; op.a = hc->pre_rate; op.b = hc->pre_fmt;
		c06_apply(B, &op, &mods, &junk);
		apply_script(B, &hc->prerun, &junk);
		if (hc->pre_end)
			xmp_end_player(B);
		printf("prerun frames %ld\n", junk.frames);
		/* what did playing change?  (the model's set B must be untouched) */
		c06_image_take(a, &ia);
		c06_image_take(b, &ib);
		c06_image_diff(stdout, "diff_played", &ia, &ib);
		c06_image_free(&ia);
		c06_image_free(&ib);
	}
	op.kind = OP_START; op.a = hc->rate; op.b = hc->fmt;
	c06_apply(A, &op, &mods, &oa);
	c06_apply(B, &op, &mods, &ob);
	if (a->state != XMP_STATE_PLAYING || b->state != XMP_STATE_PLAYING) {
		if (a->state != b->state) {
			printf("oracle_fail start_state %d %d\n", a->state, b->state);
			bad = 1;
		}
		printf("skip start_failed\n");
		goto out;
	}
	libxmp_set_random(&a->rng, hc->rng);
	libxmp_set_random(&b->rng, hc->rng);
	/* ... and right after xmp_start_player, before the first frame */
	op.kind = OP_GETINFO;
	c06_apply(A, &op, &mods, &oa);
	c06_apply(B, &op, &mods, &ob);
	if (oa.h != ob.h) {
		printf("oracle_fail started_info %016llx %016llx\n", (unsigned long long)oa.h, (unsigned long long)ob.h);
		bad = 1;
	}

	c06_image_take(a, &ia);
	c06_image_take(b, &ib);
	nd = c06_image_diff(stdout, "diff_start", &ia, &ib);
	/* the fresh context's values after load;start, for the model's value predictions */
	c06_print_image(stdout, "val", &ia);
	printf("image_start leaves %d differing %d\n", ia.n, nd);
	c06_image_free(&ia);
	c06_image_free(&ib);

	apply_script(A, &hc->ctl, &oa);
	apply_script(B, &hc->ctl, &ob);
	if (oa.h != ob.h || oa.pcm != ob.pcm) {
		printf("oracle_fail observe %016llx %016llx pcm %016llx %016llx frames %ld %ld\n",
			(unsigned long long)oa.h, (unsigned long long)ob.h, (unsigned long long)oa.pcm, (unsigned long long)ob.pcm,
			oa.frames, ob.frames);
		bad = 1;
	}
	c06_image_take(a, &ia);
	c06_image_take(b, &ib);
	nd = c06_image_diff(stdout, "diff_end", &ia, &ib);
	printf("image_end leaves %d differing %d\n", ia.n, nd);
	c06_image_free(&ia);
	c06_image_free(&ib);
	printf("stat frames %ld pcm_bytes %ld nonzero %ld state %d\n", oa.frames, oa.pcm_bytes, oa.nonzero, a->state);
out:
	xmp_free_context(A);
	xmp_free_context(B);
	return bad;
}

static void gen_hist(struct hist_case *hc, int maxhist)
{
	hc->target = vrng_below(mods.n);
	hc->rate = c06_rates[vrng_below(5)];
	hc->fmt = vrng_below(8);
	hc->smix_chn = vrng_chance(25) ? vrng_range(1, 4) : 0;
	hc->via_mem = vrng_chance(30);
	hc->rng = (unsigned)vrng_next() | 1;
	hc->poison = vrng_chance(60);
	c06_gen_history(&hc->hist, vrng_range(1, maxhist), mods.n);
	if (vrng_chance(35) && hc->hist.n + 3 < C06_MAXOPS) {
		/* the same module was played earlier on this context, usually at another rate / format */
		struct c06_op *o = &hc->hist.op[hc->hist.n];
		memset(o, 0, 3 * sizeof(*o));
		o[0].kind = OP_LOAD; o[0].a = hc->target;
		o[1].kind = OP_START; o[1].a = c06_rates[vrng_below(5)]; o[1].b = vrng_below(8);
		o[2].kind = OP_FRAMES; o[2].a = vrng_range(4, 60);
		hc->hist.n += 3;
	}
	c06_gen_control(&hc->ctl, vrng_range(3, 14));
	hc->prerun.n = 0;
	if (vrng_chance(40)) {
		int i, k = 0;
		hc->pre_rate = c06_rates[vrng_below(5)];
		hc->pre_fmt = vrng_below(8);
		hc->pre_end = vrng_chance(50);
		c06_gen_control(&hc->prerun, vrng_range(2, 12));
		/* settings that deliberately stay until the next load are not part of a player run */
		for (i = 0; i < hc->prerun.n; i++) {
			struct c06_op *o = &hc->prerun.op[i];
			if (o->kind == OP_TEMPO || (o->kind == OP_SETPLAYER && (o->a == XMP_PLAYER_MODE || o->a == XMP_PLAYER_CFLAGS)))
				continue;
			if (o->kind == OP_FRAMES)
				o->a *= vrng_range(1, 12);
			hc->prerun.op[k++] = *o;
		}
		hc->prerun.n = k;
	}
}

static void print_hist(int id, const struct hist_case *hc)
{
	printf("case %d hist %s rate %d fmt %d smix %d mem %d rng %u\n", id, mods.path[hc->target], hc->rate, hc->fmt,
		hc->smix_chn, hc->via_mem, hc->rng);
	print_script("H", &hc->hist);
	if (hc->poison)
		printf("PO 1\n");
	if (hc->prerun.n > 0) {
		printf("PR %d %d %d\n", hc->pre_rate, hc->pre_fmt, hc->pre_end);
		print_script("R", &hc->prerun);
	}
	print_script("C", &hc->ctl);
}

/* ---- op cases ---------------------------------------------------------- */

enum { MOP_CREATE, MOP_PROLOGUE, MOP_EPILOGUE, MOP_RESETFLOW, MOP_START, MOP_END, MOP_RELEASE, MOP_LOAD,
       MOP_ENDSMIX, MOP_STARTSMIX, MOP_N };
static const char *const mop_name[MOP_N] = { "create", "prologue", "epilogue", "resetflow", "start", "end", "release", "load",
	"endsmix", "startsmix" };

static void print_ext_start(struct context_data *c)
{
	struct xmp_module *mod = &c->m.mod;
	int i;
	printf("ext patrows");
	for (i = 0; i < mod->pat && i < 257; i++)
		printf(" %d", (mod->xxp && mod->xxp[i]) ? mod->xxp[i]->rows : 0);
	printf("\n");
	printf("ext scan0num %d\n", c->p.scan ? c->p.scan[0].num : 0);
}

static int run_op(int id, int mop, const struct c06_script *hist, int target, int rate, int fmt, int smix_chn)
{
	xmp_context C;
	struct context_data *c;
	struct c06_image pre, post;
	struct c06_obs junk;
	struct c06_op op;
	int r = 0;

	printf("case %d op %s %s rate %d fmt %d smix %d\n", id, mop_name[mop], mods.path[target], rate, fmt, smix_chn);
	print_script("H", hist);
	C = xmp_create_context();
	c = (struct context_data *)C;
	if (mop == MOP_CREATE) {
		c06_image_take(c, &post);
		c06_print_image(stdout, "post", &post);
		c06_image_free(&post);
		xmp_free_context(C);
		return 0;
	}
	if (smix_chn > 0)
		xmp_start_smix(C, smix_chn, 2);
	c06_obs_init(&junk);
	apply_script(C, hist, &junk);

	/* bring the context into a state in which the operation is meaningful */
	memset(&op, 0, sizeof(op));
	switch (mop) {
	case MOP_PROLOGUE:
		if (c->state >= XMP_STATE_LOADED)
			xmp_release_module(C);
		break;
	case MOP_EPILOGUE: case MOP_START:
		if (c->state < XMP_STATE_LOADED || vrng_chance(30)) {
			op.kind = OP_LOAD; op.a = target;
			c06_apply(C, &op, &mods, &junk);
		}
		if (c->state < XMP_STATE_LOADED || c->m.mod.chn + c->smix.chn > XMP_MAX_CHANNELS) {
			printf("skip not_loaded\n");
			xmp_free_context(C);
			return 0;
		}
		if (mop == MOP_EPILOGUE && c->state > XMP_STATE_LOADED)
			xmp_end_player(C);
		break;
	case MOP_RESETFLOW:
		if (c->state < XMP_STATE_PLAYING) {
			printf("skip not_playing\n");
			xmp_free_context(C);
			return 0;
		}
		break;
	default:
		break;
	}
	if (mop == MOP_EPILOGUE) {
		/* vary the values the epilogue sanitises (only fields that index nothing) */
		c->m.mod.rst = vrng_range(-2, 300);
		c->m.mod.spd = vrng_range(-2, 300);
		c->m.mod.bpm = vrng_range(0, 1200);
		c->m.gvol = vrng_range(0, 128);
		c->p.filter = vrng_range(0, 1);
		c->p.mode = vrng_range(0, 10);
		c->p.flags = vrng_range(0, 15);
	}

	c06_image_take(c, &pre);
	c06_print_image(stdout, "pre", &pre);
	c06_image_free(&pre);

	switch (mop) {
	case MOP_PROLOGUE:
		libxmp_load_prologue(c);
		break;
	case MOP_EPILOGUE:
		libxmp_load_epilogue(c);
		break;
	case MOP_RESETFLOW:
		libxmp_reset_flow(c);
		break;
	case MOP_START:
		print_ext_start(c);
		r = xmp_start_player(C, rate, fmt);
		printf("ext ret %d\n", r);
		break;
	case MOP_END:
		xmp_end_player(C);
		break;
	case MOP_RELEASE:
		if (c->state >= XMP_STATE_LOADED)
			xmp_release_module(C);
		else
			printf("ext noop 1\n");
		break;
	case MOP_LOAD:
		r = xmp_load_module(C, mods.path[target]);
		printf("ext ret %d\n", r);
		break;
	case MOP_ENDSMIX:
		xmp_end_smix(C);
		break;
	case MOP_STARTSMIX: {
		int chn = vrng_range(0, 6), smp = vrng_range(0, 5);
		printf("ext smixargs %d %d\n", chn, smp);
		r = xmp_start_smix(C, chn, smp);
		printf("ext smixret %d\n", r);
		break; }
	}
	c06_image_take(c, &post);
	c06_print_image(stdout, "post", &post);
	c06_image_free(&post);
	if (mop == MOP_PROLOGUE)
		xmp_release_module(C);
	xmp_free_context(C);
	return 0;
}

/* ---- replay ------------------------------------------------------------ */

static int replay(const char *file)
{
	FILE *f = fopen(file, "r");
	char line[4096], path[2048];
	struct hist_case *hc = (struct hist_case *)calloc(1, sizeof(*hc));
	char **paths = (char **)calloc(1024, sizeof(char *));
	int npaths = 0, have = 0, bad;

	if (!f) {
		fprintf(stderr, "cannot open %s\n", file);
		return 2;
	}
	while (fgets(line, sizeof(line), f)) {
		struct c06_script *s = NULL;
		const char *body = line + 2;
		if (!strncmp(line, "case ", 5)) {
			int id;
			if (sscanf(line, "case %d hist %2047s rate %d fmt %d smix %d mem %d rng %u", &id, path, &hc->rate, &hc->fmt,
				   &hc->smix_chn, &hc->via_mem, &hc->rng) == 7) {
				paths[npaths] = strdup(path);
				hc->target = npaths++;
				have = 1;
			}
			continue;
		}
		if (!strncmp(line, "H ", 2)) s = &hc->hist;
		else if (!strncmp(line, "C ", 2)) s = &hc->ctl;
		else if (!strncmp(line, "R ", 2)) s = &hc->prerun;
		else if (sscanf(line, "PR %d %d %d", &hc->pre_rate, &hc->pre_fmt, &hc->pre_end) == 3) continue;
		else if (sscanf(line, "PO %d", &hc->poison) == 1) continue;
		if (s && s->n < C06_MAXOPS) {
			struct c06_op *op = &s->op[s->n];
			if (c06_parse_op(body, op) == 0) {
				if (op->kind == OP_LOAD || op->kind == OP_LOADMEM) {
					char nm[32]; int a, b2, c2, d2;
					if (sscanf(body, "%31s %d %d %d %d %2047s", nm, &a, &b2, &c2, &d2, path) == 6) {
						paths[npaths] = strdup(path);
						op->a = npaths++;
					}
				}
				s->n++;
			}
		}
	}
	fclose(f);
	if (!have) {
		fprintf(stderr, "no hist case in %s\n", file);
		return 2;
	}
	c06_mods_init(&mods, npaths, paths);
	print_hist(0, hc);
	bad = run_hist(hc);
	printf("end\n");
	printf(bad ? "REPLAY: property violated (see oracle_fail lines)\n" : "REPLAY: no observable difference\n");
	return bad ? 1 : 0;
}

/* ---- digest mode -------------------------------------------------------
 * c06_reset --digest <module>...   one line per module and load cycle:
 *   dig <cycle> <path> <load rc> <sample data digest> <whole image digest> <observation digest> <frames>
 * Run in two processes whose allocator hands out differently filled memory
 * (ASAN_OPTIONS malloc_fill_byte): every line must be identical, because
 * nothing a context shows may depend on uninitialised heap contents. */
static uint64_t image_digest(struct context_data *c, uint64_t *xxs, int cyc)
{
	struct c06_image im;
	uint64_t h = FNV_INIT;
	int i;
	c06_image_take(c, &im);
	*xxs = 0;
	/* per-member digests, so that a difference between two runs can be attributed */
	printf("digm %d", cyc);
	for (i = 0; i < im.n; i++) {
		const struct c06_ent *e = &im.e[i];
		int addr = e->leaf->kind == K_PTR && (!e->compared || !strcmp(e->leaf->ctor, "m_vol_table"));
		if (!strcmp(e->leaf->ctor, "rng_state"))
			continue;
		printf(" %s=%016llx", e->leaf->ctor,
			(unsigned long long)fnv1a(FNV_INIT, e->v, addr ? sizeof(int64_t) : (size_t)e->n * sizeof(int64_t)));
	}
	printf("\n");
	for (i = 0; i < im.n; i++) {
		const struct c06_ent *e = &im.e[i];
		if (!strcmp(e->leaf->ctor, "rng_state"))
			continue;
		/* address of a constant table: differs between processes (ASLR) */
		if (e->leaf->kind == K_PTR && (!e->compared || !strcmp(e->leaf->ctor, "m_vol_table")))
			h = fnv1a(h, e->v, sizeof(int64_t));	/* NULL-ness only */
		else
			h = fnv1a(h, e->v, (size_t)e->n * sizeof(int64_t));
		if (!strcmp(e->leaf->ctor, "m_mod_xxs"))
			*xxs = (uint64_t)e->v[1];
	}
	c06_image_free(&im);
	return h;
}

static int digest_mode(int n, char **paths)
{
	int i, cyc;
	c06_mods_init(&mods, n, paths);
	for (i = 0; i < n; i++) {
		xmp_context C = xmp_create_context();
		struct context_data *c = (struct context_data *)C;
		for (cyc = 0; cyc < 2; cyc++) {
			struct c06_obs o;
			struct c06_op op;
			uint64_t xxs = 0, img = 0;
			int rc;
			c06_obs_init(&o);
			/* second cycle: from memory, on the context that has just released the same module */
			if (cyc == 0) {
				rc = xmp_load_module(C, paths[i]);
			} else {
				long sz = 0;
				unsigned char *d = read_file(paths[i], &sz);
				rc = d ? xmp_load_module_from_memory(C, d, sz) : -99;
				free(d);
			}
			if (rc == 0 && c->m.mod.chn + c->smix.chn <= XMP_MAX_CHANNELS) {
				img = image_digest(c, &xxs, cyc);
				memset(&op, 0, sizeof(op));
				op.kind = OP_START; op.a = 44100; op.b = 0;
				c06_apply(C, &op, &mods, &o);
				libxmp_set_random(&c->rng, 12345);
				op.kind = OP_FRAMES; op.a = 40;
				c06_apply(C, &op, &mods, &o);
				xmp_end_player(C);
			}
			printf("dig %d %s %d %016llx %016llx %016llx %ld\n", cyc, paths[i], rc, (unsigned long long)xxs,
				(unsigned long long)img, (unsigned long long)o.h, o.frames);
			if (c->state >= XMP_STATE_LOADED)
				xmp_release_module(C);
		}
		xmp_free_context(C);
	}
	return 0;
}

int main(int argc, char **argv)
{
	int ncases, maxhist, i;
	uint64_t seed;

	c06_poison_init();
	if (argc >= 3 && !strcmp(argv[1], "--replay"))
		return replay(argv[2]);
	if (argc >= 3 && !strcmp(argv[1], "--digest"))
		return digest_mode(argc - 2, argv + 2);
	if (argc < 5) {
		fprintf(stderr, "usage: c06_reset <seed> <ncases> <maxhist> <module>...\n");
		return 2;
	}
	seed = strtoull(argv[1], NULL, 10);
	ncases = atoi(argv[2]);
	maxhist = atoi(argv[3]);
	c06_mods_init(&mods, argc - 4, argv + 4);
	vrng_seed(seed);

	for (i = 0; i < ncases; i++) {
		if (i % 3 != 2) {
			struct hist_case *hc = (struct hist_case *)calloc(1, sizeof(*hc));
			gen_hist(hc, maxhist);
			print_hist(i, hc);
			run_hist(hc);
			free(hc);
		} else {
			struct c06_script *h = (struct c06_script *)calloc(1, sizeof(*h));
			int mop = vrng_below(MOP_N);
			c06_gen_history(h, vrng_range(0, maxhist), mods.n);
			run_op(i, mop, h, vrng_below(mods.n), c06_rates[vrng_below(5)], vrng_below(8), vrng_chance(25) ? vrng_range(1, 4) : 0);
			free(h);
		}
		printf("end\n");
		fflush(stdout);
	}
	return 0;
}
