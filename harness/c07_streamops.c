/* C07 harness (correspondence): random operation sequences on the three REAL
 * hio back-ends over the same byte string.
 *
 * usage: c07_streamops <seed> <ncases> <tmpfile> [maxlen]
 *        c07_streamops --replay <casefile> <tmpfile>
 *
 * Back-ends: F = FILE (a real temporary file, hio_open_file / hio_open),
 *            M = memory (hio_open_const_mem),
 *            C = callbacks (hio_open_callbacks) over a memory buffer with a
 *                per-case policy: seek beyond the end allowed/clamped/refused,
 *                partial trailing item stored or not, data moved in random
 *                pieces (legal chunking).
 *
 * Output per case (also the input format of --replay and of the Lean driver):
 *   begin <hex bytes> <seekpast 0|1|2> <partial 0|1> <chunk>
 *   op w <k>             k: 0 u8 1 s8 2 l16 3 b16 4 l24 5 b24 6 l32 7 b32
 *   op read <size> <num>
 *   op seek <off> <whence 0|1|2>
 *   op tell | op eof | op error | op size
 *   F <out> | <errclass> <eof> <pos>      result on each back-end, then the state peeked
 *   M ...                                 after the call: h->error class (0 none, 1 EOF,
 *   C ...                                 2 other), hio_eof()!=0, raw position
 *   end
 * <out> = v <int>  |  d <ret> <hex items> <hex rest-of-buffer>
 * The buffer handed to hio_read is pre-filled with 0xA5; "rest" is everything
 * after the complete items up to size*num bytes (capped), so bytes a back-end
 * did not store show as a5.
 */
#include "vcommon.h"
#include <xmp.h>
#include "common.h"
#include "hio.h"

#define MAXOPS 64
#define BUFCAP 4096
#define SENTINEL 0xA5

struct op {
	int kind;		/* 0 word 1 read 2 seek 3 tell 4 eof 5 error 6 size */
	long a, b;
};

struct cbstate {
	const unsigned char *data;
	long size, pos;
	int seekpast, partial, chunk;
};

static unsigned long cb_read(void *dest, unsigned long len, unsigned long nmemb, void *priv)
{
	struct cbstate *c = (struct cbstate *)priv;
	unsigned long total = len * nmemb, avail, got, r, stored, done;
	unsigned char *d = (unsigned char *)dest;

	if (total == 0)
		return 0;
	avail = c->pos < c->size ? (unsigned long)(c->size - c->pos) : 0;
	got = total < avail ? total : avail;
	r = got / len;
	stored = (got == total || c->partial) ? got : r * len;
	/* move the data in pieces (what a callback reading from a chunked
	 * transport would do); unobservable by contract */
	for (done = 0; done < stored;) {
		unsigned long n = stored - done;
		if (c->chunk > 0) {
			unsigned long piece = 1 + vrng_below((uint32_t)c->chunk);
			if (piece < n)
				n = piece;
		}
		memcpy(d + done, c->data + c->pos + done, n);
		done += n;
	}
	c->pos += (long)got;
	return r;
}

static int cb_seek(void *priv, long offset, int whence)
{
	struct cbstate *c = (struct cbstate *)priv;
	long tg;
	switch (whence) {
	case SEEK_SET: tg = offset; break;
	case SEEK_CUR: tg = offset + c->pos; break;
	case SEEK_END: tg = offset + c->size; break;
	default: return -1;
	}
	if (tg < 0)
		return -1;
	if (tg > c->size) {
		if (c->seekpast == 1)
			tg = c->size;
		else if (c->seekpast == 2)
			return -1;
	}
	c->pos = tg;
	return 0;
}

static long cb_tell(void *priv)
{
	return ((struct cbstate *)priv)->pos;
}

static int errclass(int e)
{
	return e == 0 ? 0 : e == EOF ? 1 : 2;
}

static long rawpos(HIO_HANDLE *h, struct cbstate *c)
{
	switch (HIO_HANDLE_TYPE(h)) {
	case HIO_HANDLE_TYPE_FILE: return ftell(h->handle.file);
	case HIO_HANDLE_TYPE_MEMORY: return (long)h->handle.mem->pos;
	default: return c->pos;
	}
}

static const int whences[3] = { SEEK_SET, SEEK_CUR, SEEK_END };

static void exec_op(char tag, HIO_HANDLE *h, struct cbstate *c, const struct op *o)
{
	static unsigned char buf[BUFCAP];
	long v = 0;

	printf("%c ", tag);
	switch (o->kind) {
	case 0:
		switch (o->a) {
		case 0: v = hio_read8(h); break;
		case 1: v = hio_read8s(h); break;
		case 2: v = hio_read16l(h); break;
		case 3: v = hio_read16b(h); break;
		case 4: v = hio_read24l(h); break;
		case 5: v = hio_read24b(h); break;
		case 6: v = hio_read32l(h); break;
		default: v = hio_read32b(h); break;
		}
		printf("v %ld", v);
		break;
	case 1: {
		size_t total = (size_t)o->a * (size_t)o->b, ret, k;
		if (total > BUFCAP)
			total = BUFCAP;	/* generator keeps size*num <= BUFCAP */
		memset(buf, SENTINEL, total);
		ret = hio_read(buf, (size_t)o->a, (size_t)o->b, h);
		k = ret * (size_t)o->a;
		if (k > total)
			k = total;
		printf("d %lu ", (unsigned long)ret);
		put_hex(stdout, buf, k);
		putchar(' ');
		put_hex(stdout, buf + k, total - k);
		break;
	}
	case 2:
		v = hio_seek(h, o->a, whences[o->b]);
		printf("v %ld", v < 0 ? -1L : v);
		break;
	case 3:
		printf("v %ld", hio_tell(h));
		break;
	case 4:
		printf("v %d", hio_eof(h) != 0);
		break;
	case 5:
		printf("v %d", hio_error(h) != 0);
		break;
	default:
		printf("v %ld", hio_size(h));
		break;
	}
	printf(" | %d %d %ld\n", errclass(h->error), hio_eof(h) != 0, rawpos(h, c));
}

static void print_op(const struct op *o)
{
	static const char *names[] = { "w", "read", "seek", "tell", "eof", "error", "size" };
	printf("op %s", names[o->kind]);
	if (o->kind == 0)
		printf(" %ld", o->a);
	else if (o->kind == 1 || o->kind == 2)
		printf(" %ld %ld", o->a, o->b);
	putchar('\n');
}

/* generator ------------------------------------------------------------- */

static long gen_target(long size)
{
	switch (vrng_below(8)) {
	case 0: return 0;
	case 1: return size;
	case 2: return size + vrng_range(1, 6);		/* beyond the end */
	case 3: return -(long)vrng_range(1, 4);		/* negative */
	case 4: return size > 0 ? size - 1 : 0;
	default: return size > 0 ? (long)vrng_below((uint32_t)size + 1) : 0;
	}
}

static void gen_op(struct op *o, long size, long curpos, int sticky, int tame)
{
	int r = (int)vrng_below(100);
	o->a = o->b = 0;
	if (r < 36) {
		o->kind = 0;
		o->a = vrng_below(8);
	} else if (r < 56) {
		o->kind = 1;
		switch (vrng_below(6)) {
		case 0: o->a = 1; o->b = vrng_range(0, (int)size + 3); break;
		case 1: o->a = vrng_range(0, 5); o->b = vrng_range(0, 6); break;
		case 2: o->a = vrng_range(1, (int)size + 3); o->b = 1; break;
		case 3: o->a = vrng_range(2, 9); o->b = vrng_range(1, 9); break;
		case 4: o->a = 0; o->b = vrng_range(0, 3); break;
		default: o->a = vrng_range(1, 4); o->b = vrng_range(0, 40); break;
		}
		if (tame && (o->a == 0 || o->b == 0) && vrng_chance(80)) {
			o->a = 1;
			o->b = vrng_range(1, 8);
		}
	} else if (r < 78) {
		long tg = gen_target(size);
		o->kind = 2;
		if (tame && (tg < 0 || tg > size) && vrng_chance(90))
			tg = size > 0 ? (long)vrng_below((uint32_t)size + 1) : 0;
		o->b = vrng_below(3);
		o->a = o->b == 0 ? tg : o->b == 1 ? tg - curpos : tg - size;
	} else if (r < 83) {
		o->kind = 3;
	} else if (r < 92) {
		o->kind = 4;
		if (tame && !sticky && curpos >= size && vrng_chance(90))
			o->kind = 3;
	} else if (r < 98) {
		o->kind = 5;
	} else {
		o->kind = 6;
	}
}

/* executor -------------------------------------------------------------- */

static int run_case(const unsigned char *bytes, long size, int seekpast, int partial, int chunk,
		    struct op *ops, int nops, int gen, int tame, const char *tmpfile, int use_path)
{
	static const struct xmp_callbacks cbs = { cb_read, cb_seek, cb_tell, NULL };
	struct cbstate cst;
	HIO_HANDLE *hf, *hm, *hc;
	FILE *f;
	int i, sticky = 0;

	f = fopen(tmpfile, "wb");
	if (!f || (size > 0 && fwrite(bytes, 1, (size_t)size, f) != (size_t)size)) {
		fprintf(stderr, "cannot write %s\n", tmpfile);
		return -1;
	}
	fclose(f);
	if (use_path) {
		hf = hio_open(tmpfile, "rb");
	} else {
		f = fopen(tmpfile, "rb");
		hf = hio_open_file2(f);
	}
	hm = hio_open_const_mem(bytes, size);
	cst.data = bytes;
	cst.size = size;
	cst.pos = 0;
	cst.seekpast = seekpast;
	cst.partial = partial;
	cst.chunk = chunk;
	hc = hio_open_callbacks(&cst, cbs);
	if (!hf || !hm || !hc) {
		fprintf(stderr, "open failed\n");
		return -1;
	}

	printf("begin ");
	put_hex(stdout, bytes, (size_t)size);
	printf(" %d %d %d\n", seekpast, partial, chunk);
	for (i = 0; i < nops; i++) {
		if (gen) {
			long pos = ftell(hf->handle.file);
			gen_op(&ops[i], size, pos, sticky, tame);
			if (ops[i].kind == 1 && (size_t)ops[i].a * (size_t)ops[i].b > BUFCAP)
				ops[i].b = 1;
		}
		print_op(&ops[i]);
		exec_op('F', hf, &cst, &ops[i]);
		exec_op('M', hm, &cst, &ops[i]);
		exec_op('C', hc, &cst, &ops[i]);
		sticky = feof(hf->handle.file) != 0;
	}
	printf("end\n");
	hio_close(hf);
	hio_close(hm);
	hio_close(hc);
	return 0;
}

static int replay(const char *casefile, const char *tmpfile)
{
	FILE *f = fopen(casefile, "r");
	static char line[2 * 70000];
	unsigned char *bytes = NULL;
	long size = 0;
	int seekpast = 0, partial = 1, chunk = 0, nops = 0, have = 0;
	struct op ops[MAXOPS];

	if (!f) {
		perror(casefile);
		return 2;
	}
	while (fgets(line, sizeof(line), f)) {
		char w[32], hex[70000];
		if (sscanf(line, "begin %69999s %d %d %d", hex, &seekpast, &partial, &chunk) == 4) {
			if (have)
				run_case(bytes, size, seekpast, partial, chunk, ops, nops, 0, 0, tmpfile, 0);
			free(bytes);
			size = get_hex(hex, &bytes);
			nops = 0;
			have = 1;
		} else if (sscanf(line, "op %31s", w) == 1 && nops < MAXOPS) {
			struct op *o = &ops[nops];
			o->a = o->b = 0;
			if (!strcmp(w, "w")) { o->kind = 0; sscanf(line, "op w %ld", &o->a); }
			else if (!strcmp(w, "read")) { o->kind = 1; sscanf(line, "op read %ld %ld", &o->a, &o->b); }
			else if (!strcmp(w, "seek")) { o->kind = 2; sscanf(line, "op seek %ld %ld", &o->a, &o->b); }
			else if (!strcmp(w, "tell")) o->kind = 3;
			else if (!strcmp(w, "eof")) o->kind = 4;
			else if (!strcmp(w, "error")) o->kind = 5;
			else o->kind = 6;
			nops++;
		} else if (!strncmp(line, "end", 3) && have) {
			run_case(bytes, size, seekpast, partial, chunk, ops, nops, 0, 0, tmpfile, 0);
			have = 0;
		}
	}
	fclose(f);
	free(bytes);
	return 0;
}

int main(int argc, char **argv)
{
	long seed, ncases, maxlen = 40;
	long i;

	if (argc >= 4 && !strcmp(argv[1], "--replay"))
		return replay(argv[2], argv[3]);
	if (argc < 4) {
		fprintf(stderr, "usage: %s <seed> <ncases> <tmpfile> [maxlen]\n", argv[0]);
		return 2;
	}
	seed = atol(argv[1]);
	ncases = atol(argv[2]);
	if (argc > 4)
		maxlen = atol(argv[4]);
	vrng_seed((uint64_t)seed);
	for (i = 0; i < ncases; i++) {
		unsigned char bytes[1024];
		struct op ops[MAXOPS];
		long size = vrng_chance(15) ? vrng_range(1, 5) : vrng_range(1, (int)maxlen);
		int nops = vrng_range(1, vrng_chance(30) ? MAXOPS : 16);
		int tame = vrng_chance(60);
		long k;
		for (k = 0; k < size; k++)
			bytes[k] = vrng_chance(10) ? 0xff : vrng_chance(10) ? 0x80 : (unsigned char)vrng_below(256);
		if (run_case(bytes, size, (int)vrng_below(3), (int)vrng_below(2), (int)vrng_below(5), ops, nops,
			     1, tame, argv[3], (int)(i & 1)) < 0)
			return 2;
	}
	return 0;
}
