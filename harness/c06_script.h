/* C06: scripts of public API calls on one context, generated from the seed,
 * and their application with a running digest of everything the caller can
 * observe (return codes, PCM bytes, frame info).  Shared by c06_reset.c and
 * c06_isolation.c. */
#ifndef C06_SCRIPT_H
#define C06_SCRIPT_H

#include "c06_image.h"

enum {
	OP_LOAD, OP_LOADMEM, OP_START, OP_FRAMES, OP_SETPLAYER, OP_INJECT, OP_SETPOS, OP_NEXT, OP_PREV,
	OP_SEEK, OP_SETROW, OP_MUTE, OP_CHVOL, OP_STOP, OP_RESTART, OP_END, OP_RELEASE, OP_SCAN,
	OP_TEMPO, OP_PLAYBUF, OP_INSPATH, OP_SMIXPLAY, OP_SETRNG, OP_GETINFO, OP_FMTLIST, OP_TESTMOD, OP_INJECTFX,
	OP_SMIXSTART, OP_SMIXEND, OP_SMIXLOAD, OP_SMIXREL, OP_SMIXPLAYSMP, OP_NKINDS
};

static const char *const c06_opname[OP_NKINDS] = {
	"load", "loadmem", "start", "frames", "setplayer", "inject", "setpos", "next", "prev",
	"seek", "setrow", "mute", "chvol", "stop", "restart", "end", "release", "scan",
	"tempo", "playbuf", "inspath", "smixplay", "setrng", "getinfo", "fmtlist", "testmod", "injectfx",
	"smixstart", "smixend", "smixload", "smixrel", "smixplaysmp"
};

struct c06_op {
	int kind;
	int a, b, c, d;		/* arguments; OP_LOAD/OP_LOADMEM: a = module index */
};

#define C06_MAXOPS 512
struct c06_script {
	int n;
	struct c06_op op[C06_MAXOPS];
};

struct c06_mods {
	int n;
	char **path;
	unsigned char **data;	/* lazily read for OP_LOADMEM */
	long *size;
};

/* per-context observation digest */
struct c06_obs {
	uint64_t h;		/* everything observable */
	uint64_t pcm;		/* PCM bytes only */
	long frames;		/* frames successfully played */
	long pcm_bytes;
	long nonzero;		/* non-zero PCM bytes (for the non-triviality rule) */
};

static void c06_obs_init(struct c06_obs *o)
{
	o->h = FNV_INIT; o->pcm = FNV_INIT; o->frames = 0; o->pcm_bytes = 0; o->nonzero = 0;
}

static void c06_obs_int(struct c06_obs *o, int v)
{
	o->h = fnv1a(o->h, &v, sizeof(v));
}

static void c06_obs_frame(xmp_context c, struct c06_obs *o)
{
	struct xmp_frame_info fi;
	int i;
	memset(&fi, 0, sizeof(fi));
	xmp_get_frame_info(c, &fi);
	if (fi.buffer && fi.buffer_size > 0) {
		const unsigned char *b = (const unsigned char *)fi.buffer;
		o->pcm = fnv1a(o->pcm, fi.buffer, fi.buffer_size);
		o->h = fnv1a(o->h, fi.buffer, fi.buffer_size);
		o->pcm_bytes += fi.buffer_size;
		for (i = 0; i < fi.buffer_size; i++)
			if (b[i] != 0 && b[i] != 0x80) o->nonzero++;
	}
	fi.buffer = NULL;
	o->h = fnv1a(o->h, &fi, sizeof(fi));
}

static const int c06_rates[] = { 8000, 11025, 22050, 44100, 48000 };

static void c06_gen_play_op(struct c06_op *op, int allow_heavy)
{
	int k = vrng_below(100);
	memset(op, 0, sizeof(*op));
	if (k < 40) { op->kind = OP_FRAMES; op->a = vrng_range(1, allow_heavy ? 12 : 4); }
	else if (k < 50) {
		static const int parms[] = { XMP_PLAYER_AMP, XMP_PLAYER_MIX, XMP_PLAYER_INTERP, XMP_PLAYER_DSP, XMP_PLAYER_CFLAGS,
			XMP_PLAYER_VOLUME, XMP_PLAYER_SMIX_VOLUME, XMP_PLAYER_MODE };
		op->kind = OP_SETPLAYER; op->a = parms[vrng_below(8)];
		switch (op->a) {
		case XMP_PLAYER_AMP: op->b = vrng_range(0, 3); break;
		case XMP_PLAYER_MIX: op->b = vrng_range(-100, 100); break;
		case XMP_PLAYER_INTERP: op->b = vrng_range(0, 2); break;
		case XMP_PLAYER_DSP: op->b = vrng_range(0, 1); break;
		case XMP_PLAYER_CFLAGS: op->b = vrng_range(0, 15); break;
		case XMP_PLAYER_VOLUME: case XMP_PLAYER_SMIX_VOLUME: op->b = vrng_range(0, 200); break;
		default: op->b = vrng_range(0, 10); break;
		}
	}
	else if (k < 58) { op->kind = OP_INJECT; op->a = vrng_range(0, 3); op->b = vrng_range(1, 84); op->c = vrng_range(1, 4); op->d = vrng_range(0, 65); }
	else if (k < 60) {
		static const int fx[][2] = { { 0x0e, 0x00 }, { 0x0e, 0x01 }, { 0x0a, 0x20 }, { 0x0c, 0x20 } };
		int j = vrng_below(4);
		op->kind = OP_INJECTFX; op->a = vrng_range(0, 3); op->b = fx[j][0]; op->c = fx[j][1];
	}
	else if (k < 63) { op->kind = OP_SETPOS; op->a = vrng_range(0, 12); }
	else if (k < 66) { op->kind = OP_NEXT; }
	else if (k < 69) { op->kind = OP_PREV; }
	else if (k < 72) { op->kind = OP_SEEK; op->a = vrng_range(0, 60000); }
	else if (k < 75) { op->kind = OP_SETROW; op->a = vrng_range(0, 40); }
	else if (k < 80) { op->kind = OP_MUTE; op->a = vrng_range(0, 63); op->b = vrng_range(-1, 2); }
	else if (k < 84) { op->kind = OP_CHVOL; op->a = vrng_range(0, 63); op->b = vrng_range(-1, 100); }
	else if (k < 86) { op->kind = OP_STOP; }
	else if (k < 88) { op->kind = OP_RESTART; }
	else if (k < 90) { op->kind = OP_SCAN; }
	else if (k < 93) { op->kind = OP_TEMPO; op->a = vrng_range(50, 200); }
	else if (k < 96) { op->kind = OP_PLAYBUF; op->a = vrng_range(1, 6000); op->b = vrng_range(0, 2); }
	else if (k < 97) { op->kind = OP_SMIXPLAYSMP; op->a = vrng_range(0, 2); op->b = vrng_range(1, 84); op->c = vrng_range(0, 64); op->d = vrng_range(0, 3); }
	else if (k < 98) { op->kind = OP_SMIXPLAY; op->a = vrng_range(0, 3); op->b = vrng_range(1, 84); op->c = vrng_range(0, 64); op->d = vrng_range(0, 3); }
	else { op->kind = OP_GETINFO; }
}

/* a history: load/start/play/.../release cycles on arbitrary modules */
static void c06_gen_history(struct c06_script *s, int nops, int nmods)
{
	int i;
	s->n = 0;
	for (i = 0; i < nops && s->n < C06_MAXOPS; i++) {
		struct c06_op *op = &s->op[s->n++];
		int k = vrng_below(100);
		memset(op, 0, sizeof(*op));
		if (k < 18) { op->kind = vrng_chance(70) ? OP_LOAD : OP_LOADMEM; op->a = vrng_below(nmods); }
		else if (k < 34) { op->kind = OP_START; op->a = c06_rates[vrng_below(5)]; op->b = vrng_below(8); }
		else if (k < 38) { op->kind = OP_END; }
		else if (k < 43) { op->kind = OP_RELEASE; }
		else if (k < 50) {
			static const int parms[] = { XMP_PLAYER_FLAGS, XMP_PLAYER_SMPCTL, XMP_PLAYER_DEFPAN, XMP_PLAYER_VOICES };
			op->kind = OP_SETPLAYER; op->a = parms[vrng_below(4)];
			switch (op->a) {
			case XMP_PLAYER_FLAGS: op->b = vrng_range(0, 15); break;
			case XMP_PLAYER_SMPCTL: op->b = vrng_range(0, 1); break;
			case XMP_PLAYER_DEFPAN: op->b = vrng_range(0, 100); break;
			default: op->b = vrng_range(1, 200); break;
			}
		}
		else if (k < 52) { op->kind = OP_INSPATH; op->a = vrng_range(0, 2); }
		/* sound-effect mixer sessions: opened, filled, used and closed like any other part of a history */
		else if (k < 56) { op->kind = OP_SMIXSTART; op->a = vrng_range(0, 4); op->b = vrng_range(0, 3); }
		else if (k < 59) { op->kind = OP_SMIXEND; }
		else if (k < 62) { op->kind = OP_SMIXLOAD; op->a = vrng_range(0, 2); }
		else if (k < 63) { op->kind = OP_SMIXREL; op->a = vrng_range(0, 2); }
		else c06_gen_play_op(op, 1);
	}
}

/* a control script for an already started player */
static void c06_gen_control(struct c06_script *s, int nops)
{
	int i;
	s->n = 0;
	for (i = 0; i < nops && s->n < C06_MAXOPS; i++)
		c06_gen_play_op(&s->op[s->n++], 1);
}

static const char *const c06_inspaths[] = { NULL, "/nonexistent/c06", "/tmp" };

static __thread unsigned char c06_pbuf[8192];

/* apply one op; everything observable goes into `o` */
static void c06_apply(xmp_context c, const struct c06_op *op, struct c06_mods *mods, struct c06_obs *o)
{
	struct context_data *ctx = (struct context_data *)c;
	int i, r;

	c06_obs_int(o, op->kind);
	switch (op->kind) {
	case OP_LOAD:
		c06_obs_int(o, xmp_load_module(c, mods->path[op->a]));
		break;
	case OP_LOADMEM:
		if (mods->data[op->a] == NULL)
			mods->data[op->a] = read_file(mods->path[op->a], &mods->size[op->a]);
		if (mods->data[op->a] != NULL)
			c06_obs_int(o, xmp_load_module_from_memory(c, mods->data[op->a], mods->size[op->a]));
		break;
	case OP_START:
		/* smix channels + module channels must fit the 64 channel tables */
		if (ctx->state >= XMP_STATE_LOADED && ctx->m.mod.chn + ctx->smix.chn > XMP_MAX_CHANNELS)
			break;
		c06_obs_int(o, xmp_start_player(c, op->a, op->b));
		break;
	case OP_FRAMES:
		for (i = 0; i < op->a; i++) {
			if (ctx->state < XMP_STATE_PLAYING)
				break;
			r = xmp_play_frame(c);
			c06_obs_int(o, r);
			if (r != 0)
				break;
			c06_obs_frame(c, o);
			o->frames++;
		}
		break;
	case OP_SETPLAYER:
		c06_obs_int(o, xmp_set_player(c, op->a, op->b));
		break;
	case OP_INJECT: {
		struct xmp_event e;
		memset(&e, 0, sizeof(e));
		e.note = op->b; e.ins = op->c; e.vol = op->d;
		/* instruments of the module only (smix slots are never loaded here) */
		if (e.ins > ctx->m.mod.ins)
			e.ins = ctx->m.mod.ins;
		if (ctx->state >= XMP_STATE_PLAYING && op->a < ctx->m.mod.chn + ctx->smix.chn && op->a < XMP_MAX_CHANNELS)
			xmp_inject_event(c, op->a, &e);
		break; }
	case OP_INJECTFX: {
		struct xmp_event e;
		memset(&e, 0, sizeof(e));
		e.fxt = op->b; e.fxp = op->c;
		if (ctx->state >= XMP_STATE_PLAYING && op->a < ctx->m.mod.chn)
			xmp_inject_event(c, op->a, &e);
		break; }
	case OP_SETPOS: c06_obs_int(o, xmp_set_position(c, op->a)); break;
	case OP_NEXT: c06_obs_int(o, xmp_next_position(c)); break;
	case OP_PREV: c06_obs_int(o, xmp_prev_position(c)); break;
	case OP_SEEK: c06_obs_int(o, xmp_seek_time(c, op->a)); break;
	case OP_SETROW: c06_obs_int(o, xmp_set_row(c, op->a)); break;
	case OP_MUTE: c06_obs_int(o, xmp_channel_mute(c, op->a, op->b)); break;
	case OP_CHVOL: c06_obs_int(o, xmp_channel_vol(c, op->a, op->b)); break;
	case OP_STOP: xmp_stop_module(c); break;
	case OP_RESTART: xmp_restart_module(c); break;
	case OP_END: xmp_end_player(c); break;
	case OP_RELEASE:
		if (ctx->state >= XMP_STATE_LOADED)
			xmp_release_module(c);
		break;
	case OP_SCAN: xmp_scan_module(c); break;
	case OP_TEMPO: c06_obs_int(o, xmp_set_tempo_factor(c, op->a / 100.0)); break;
	case OP_PLAYBUF:
		if (ctx->state >= XMP_STATE_PLAYING) {
			memset(c06_pbuf, 0, op->a);
			r = xmp_play_buffer(c, c06_pbuf, op->a, op->b);
			c06_obs_int(o, r);
			o->h = fnv1a(o->h, c06_pbuf, op->a);
			o->pcm = fnv1a(o->pcm, c06_pbuf, op->a);
		}
		break;
	case OP_INSPATH: c06_obs_int(o, xmp_set_instrument_path(c, c06_inspaths[op->a])); break;
	case OP_SMIXPLAY:
		if (ctx->state >= XMP_STATE_PLAYING)
			c06_obs_int(o, xmp_smix_play_instrument(c, op->a, op->b, op->c, op->d));
		break;
	case OP_SMIXSTART: c06_obs_int(o, xmp_start_smix(c, op->a, op->b)); break;
	case OP_SMIXEND: xmp_end_smix(c); break;
	case OP_SMIXLOAD:
		if (getenv("C06_SMIX_WAV"))
			c06_obs_int(o, xmp_smix_load_sample(c, op->a, getenv("C06_SMIX_WAV")));
		break;
	case OP_SMIXREL: c06_obs_int(o, xmp_smix_release_sample(c, op->a)); break;
	case OP_SMIXPLAYSMP:
		if (ctx->state >= XMP_STATE_PLAYING)
			c06_obs_int(o, xmp_smix_play_sample(c, op->a, op->b, op->c, op->d));
		break;
	case OP_SETRNG: libxmp_set_random(&ctx->rng, (unsigned)op->a); break;
	case OP_GETINFO:
		/* legal from state LOADED on */
		if (ctx->state >= XMP_STATE_LOADED)
			c06_obs_frame(c, o);
		c06_obs_int(o, xmp_get_player(c, XMP_PLAYER_STATE));
		break;
	case OP_FMTLIST: {
		const char *const *l = xmp_get_format_list();
		for (i = 0; l[i] != NULL; i++)
			o->h = c06_str(o->h, l[i]);
		c06_obs_int(o, i);
		break; }
	case OP_TESTMOD: {
		struct xmp_test_info ti;
		memset(&ti, 0, sizeof(ti));
		c06_obs_int(o, xmp_test_module(mods->path[op->a], &ti));
		o->h = fnv1a(o->h, &ti, sizeof(ti));
		break; }
	}
}

static void c06_print_op(FILE *f, const struct c06_op *op)
{
	fprintf(f, "%s %d %d %d %d", c06_opname[op->kind], op->a, op->b, op->c, op->d);
}

static int c06_parse_op(const char *line, struct c06_op *op)
{
	char name[32];
	int k;
	memset(op, 0, sizeof(*op));
	if (sscanf(line, "%31s %d %d %d %d", name, &op->a, &op->b, &op->c, &op->d) < 1)
		return -1;
	for (k = 0; k < OP_NKINDS; k++) {
		if (!strcmp(name, c06_opname[k])) {
			op->kind = k;
			return 0;
		}
	}
	return -1;
}

static void c06_mods_init(struct c06_mods *m, int n, char **paths)
{
	m->n = n;
	m->path = paths;
	m->data = (unsigned char **)calloc(n, sizeof(unsigned char *));
	m->size = (long *)calloc(n, sizeof(long));
}

#endif
