/* Shared helpers for the libxmp verification harnesses.
 * All randomness derives from one xorshift64* state seeded from the command
 * line so that every case replays exactly. */
#ifndef VERIF_VCOMMON_H
#define VERIF_VCOMMON_H

#include <stdio.h>
#include <stdlib.h>
#include <string.h>
#include <stdint.h>
#include <errno.h>

static uint64_t vrng_state = 0x9E3779B97F4A7C15ULL;

static void vrng_seed(uint64_t s)
{
	vrng_state = s * 0x9E3779B97F4A7C15ULL + 0xD1B54A32D192ED03ULL;
	if (vrng_state == 0)
		vrng_state = 1;
}

static uint64_t vrng_next(void)
{
	uint64_t x = vrng_state;
	x ^= x >> 12;
	x ^= x << 25;
	x ^= x >> 27;
	vrng_state = x;
	return x * 0x2545F4914F6CDD1DULL;
}

/* uniform in [0, n) ; n > 0 */
static uint32_t vrng_below(uint32_t n)
{
	return (uint32_t)((vrng_next() >> 16) % n);
}

/* uniform in [lo, hi] */
static int vrng_range(int lo, int hi)
{
	uint64_t span = (uint64_t)((int64_t)hi - (int64_t)lo) + 1;
	return (int)((int64_t)lo + (int64_t)((vrng_next() >> 16) % span));
}

static int vrng_chance(int percent)
{
	return (int)vrng_below(100) < percent;
}

static void put_hex(FILE *f, const void *p, size_t n)
{
	static const char d[] = "0123456789abcdef";
	const unsigned char *b = (const unsigned char *)p;
	size_t i;
	if (n == 0) {
		fputc('-', f);
		return;
	}
	for (i = 0; i < n; i++) {
		fputc(d[b[i] >> 4], f);
		fputc(d[b[i] & 15], f);
	}
}

/* parse hex ("-" = empty) into a malloc'd buffer; returns length or -1 */
static long get_hex(const char *s, unsigned char **out)
{
	size_t n = strlen(s), i;
	unsigned char *b;
	if (n == 1 && s[0] == '-') {
		*out = (unsigned char *)malloc(1);
		return 0;
	}
	if (n & 1)
		return -1;
	b = (unsigned char *)malloc(n / 2 + 1);
	for (i = 0; i < n / 2; i++) {
		unsigned v;
		if (sscanf(s + 2 * i, "%2x", &v) != 1) {
			free(b);
			return -1;
		}
		b[i] = (unsigned char)v;
	}
	*out = b;
	return (long)(n / 2);
}

static unsigned char *read_file(const char *path, long *size)
{
	FILE *f = fopen(path, "rb");
	unsigned char *b;
	long n;
	if (!f)
		return NULL;
	fseek(f, 0, SEEK_END);
	n = ftell(f);
	fseek(f, 0, SEEK_SET);
	b = (unsigned char *)malloc(n > 0 ? n : 1);
	if (n > 0 && fread(b, 1, n, f) != (size_t)n) {
		fclose(f);
		free(b);
		return NULL;
	}
	fclose(f);
	*size = n;
	return b;
}

/* FNV-1a 64 for digests of tables / PCM */
static uint64_t fnv1a(uint64_t h, const void *p, size_t n)
{
	const unsigned char *b = (const unsigned char *)p;
	size_t i;
	for (i = 0; i < n; i++) {
		h ^= b[i];
		h *= 0x100000001b3ULL;
	}
	return h;
}
#define FNV_INIT 0xcbf29ce484222325ULL

#endif
