/* C09 direct oracle: load faulted archives BY PATH through the real library.
 *
 *   c09_corrupt run <workdir> <archive-file> <faults-file> [<first-index>]
 *       each line of the faults file is one fault applied to a fresh copy of the archive:
 *           none | flip <offset> <bit> | sub <offset> <value> | trunc <newlen>
 *       the result is written to <workdir>/<basename(archive-file)> and loaded with
 *       xmp_load_module(); one output line per fault:
 *           <index> <rc> <md5 of the unpacked stream as the library reports it | ->
 *       (index counts lines of the faults file from 0; lines before <first-index> are skipped,
 *       which lets the caller resume after a crash; "at <index>" goes to stderr before each load)
 *   c09_corrupt unpack <file>
 *       runs libxmp_decrunch on the file and prints "<rc> <hex of the stream the loaders would see>"
 */
#include "vcommon.h"
#include <unistd.h>
#include "xmp.h"
#include "common.h"
#include "hio.h"

int libxmp_decrunch(HIO_HANDLE *h, const char *filename, char **temp);

static int do_unpack(const char *file)
{
	HIO_HANDLE *h = hio_open(file, "rb");
	char *temp = NULL;
	unsigned char buf[16384];
	int rc, first = 1;
	size_t n;

	if (!h)
		return 3;
	rc = libxmp_decrunch(h, file, &temp);
	printf("%d ", rc);
	if (rc >= 0) {
		hio_seek(h, 0, SEEK_SET);
		while ((n = hio_read(buf, 1, sizeof(buf), h)) > 0) {
			size_t i;
			for (i = 0; i < n; i++)
				printf("%02x", buf[i]);
			first = 0;
		}
	}
	if (first)
		printf("-");
	printf("\n");
	hio_close(h);
	if (temp) {
		unlink(temp);
		free(temp);
	}
	return 0;
}

int main(int argc, char **argv)
{
	if (argc >= 3 && !strcmp(argv[1], "unpack"))
		return do_unpack(argv[2]);
	if (argc >= 5 && !strcmp(argv[1], "run")) {
		long size = 0, first = argc > 5 ? atol(argv[5]) : 0, idx = -1;
		unsigned char *orig = read_file(argv[3], &size), *cur;
		const char *base = strrchr(argv[3], '/');
		char path[4096], line[256];
		FILE *ff = fopen(argv[4], "r");

		if (!orig || !ff)
			return 3;
		base = base ? base + 1 : argv[3];
		snprintf(path, sizeof(path), "%s/%s", argv[2], base);
		cur = (unsigned char *)malloc(size > 0 ? size : 1);
		while (fgets(line, sizeof(line), ff)) {
			char kind[16] = "";
			long a = 0, b = 0, len = size;
			int rc;
			xmp_context ctx;
			FILE *f;

			idx++;
			if (idx < first)
				continue;
			if (sscanf(line, "%15s %ld %ld", kind, &a, &b) < 1)
				continue;
			memcpy(cur, orig, size);
			if (!strcmp(kind, "flip")) {
				if (a < 0 || a >= size) return 3;
				cur[a] ^= (unsigned char)(1u << (b & 7));
			} else if (!strcmp(kind, "sub")) {
				if (a < 0 || a >= size) return 3;
				cur[a] = (unsigned char)b;
			} else if (!strcmp(kind, "trunc")) {
				if (a < 0 || a > size) return 3;
				len = a;
			} else if (strcmp(kind, "none")) {
				return 3;
			}
			f = fopen(path, "wb");
			if (!f || fwrite(cur, 1, len, f) != (size_t)len)
				return 3;
			fclose(f);
			fprintf(stderr, "at %ld\n", idx);
			ctx = xmp_create_context();
			rc = xmp_load_module(ctx, path);
			if (rc == 0) {
				struct xmp_module_info mi;
				int i;
				xmp_get_module_info(ctx, &mi);
				printf("%ld 0 ", idx);
				for (i = 0; i < 16; i++)
					printf("%02x", mi.md5[i]);
				printf("\n");
				xmp_release_module(ctx);
			} else {
				printf("%ld %d -\n", idx, rc);
			}
			xmp_free_context(ctx);
			if ((idx & 63) == 0)
				fflush(stdout);
		}
		fflush(stdout);
		unlink(path);
		return 0;
	}
	fprintf(stderr, "usage: c09_corrupt run workdir archive faults [first] | unpack file\n");
	return 3;
}
