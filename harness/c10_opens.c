/* C10 direct oracle: every path libxmp hands to the operating system and every
 * process it starts while testing / loading a module, observed by link-time
 * interposition (-Wl,--wrap=...).
 *
 *   c10_opens <planfile> <workdir>
 *
 * The harness chdir()s to <workdir> and executes the plan, one operation per line
 * (strings in hex, "none" = absent):
 *
 *   op <id> <entry> <modpath> <ctx instrument path|none> <env instrument path|none> <helper>
 *        entry  = path | mem | file | cb        (which xmp_test_module* / xmp_load_module* pair)
 *        helper = fail | ok      what a spawned helper does: exit 77 / print file "helper_payload", exit 0
 *   smix <id> <samplepath>
 *
 * Output (on the original stdout, unbuffered, so that a forked child can add to it):
 *   begin <id> <phase>            phase = test | load | smix
 *   sys <function> <hex arg> ...  one line per intercepted call made while the library runs
 *   ret <id> <phase> <return code>
 *
 * The intercepted process functions never execute anything: execvp & co. log their
 * arguments and _exit().
 */
#include "vcommon.h"
#include <unistd.h>
#include <fcntl.h>
#include <dirent.h>
#include <stdarg.h>
#include <spawn.h>
#include <sys/stat.h>
#include <sys/types.h>
#include <sys/wait.h>
#include <xmp.h>

static int logfd = 1;
static volatile int in_library;
static int helper_ok;

static void logf_(const char *fmt, ...)
{
	char buf[40000];
	va_list ap;
	int n;
	va_start(ap, fmt);
	n = vsnprintf(buf, sizeof(buf), fmt, ap);
	va_end(ap);
	if (n > (int)sizeof(buf) - 1)
		n = sizeof(buf) - 1;
	if (write(logfd, buf, n) < 0) {
	}
}

static void hexstr(char *out, size_t cap, const char *s)
{
	static const char d[] = "0123456789abcdef";
	size_t i, n;
	if (s == NULL) {
		snprintf(out, cap, "NULL");
		return;
	}
	n = strlen(s);
	if (n == 0) {
		snprintf(out, cap, "-");
		return;
	}
	for (i = 0; i < n && 2 * i + 2 < cap; i++) {
		out[2 * i] = d[(unsigned char)s[i] >> 4];
		out[2 * i + 1] = d[(unsigned char)s[i] & 15];
	}
	out[2 * i] = 0;
}

static void log1(const char *fn, const char *a)
{
	char h[9000];
	if (!in_library)
		return;
	hexstr(h, sizeof(h), a);
	logf_("sys %s %s\n", fn, h);
}

static void log2(const char *fn, const char *a, const char *b)
{
	char h1[9000], h2[9000];
	if (!in_library)
		return;
	hexstr(h1, sizeof(h1), a);
	hexstr(h2, sizeof(h2), b);
	logf_("sys %s %s %s\n", fn, h1, h2);
}

/* ------------------------------------------------------------- file system */

#define WRAP_PATH1(ret, name, decl, call) \
	ret __real_##name decl; \
	ret __wrap_##name decl { log1(#name, path); return __real_##name call; }

WRAP_PATH1(DIR *, opendir, (const char *path), (path))
WRAP_PATH1(int, stat, (const char *path, struct stat *st), (path, st))
WRAP_PATH1(int, lstat, (const char *path, struct stat *st), (path, st))
WRAP_PATH1(int, access, (const char *path, int mode), (path, mode))
WRAP_PATH1(int, unlink, (const char *path), (path))
WRAP_PATH1(int, remove, (const char *path), (path))
WRAP_PATH1(int, rmdir, (const char *path), (path))
WRAP_PATH1(int, mkdir, (const char *path, mode_t mode), (path, mode))
WRAP_PATH1(int, chdir, (const char *path), (path))
WRAP_PATH1(int, creat, (const char *path, mode_t mode), (path, mode))
WRAP_PATH1(char *, mkdtemp, (char *path), (path))
WRAP_PATH1(char *, mktemp, (char *path), (path))

FILE *__real_fopen(const char *path, const char *mode);
FILE *__wrap_fopen(const char *path, const char *mode)
{
	log2("fopen", path, mode);
	return __real_fopen(path, mode);
}

FILE *__real_fopen64(const char *path, const char *mode);
FILE *__wrap_fopen64(const char *path, const char *mode)
{
	log2("fopen", path, mode);
	return __real_fopen64(path, mode);
}

FILE *__real_freopen(const char *path, const char *mode, FILE *f);
FILE *__wrap_freopen(const char *path, const char *mode, FILE *f)
{
	log2("freopen", path, mode);
	return __real_freopen(path, mode, f);
}

int __real_open(const char *path, int flags, ...);
int __wrap_open(const char *path, int flags, ...)
{
	va_list ap;
	mode_t mode;
	char fl[32];
	va_start(ap, flags);
	mode = va_arg(ap, mode_t);
	va_end(ap);
	snprintf(fl, sizeof(fl), "%x", flags);
	log2("open", path, fl);
	return __real_open(path, flags, mode);
}

int __real_open64(const char *path, int flags, ...);
int __wrap_open64(const char *path, int flags, ...)
{
	va_list ap;
	mode_t mode;
	char fl[32];
	va_start(ap, flags);
	mode = va_arg(ap, mode_t);
	va_end(ap);
	snprintf(fl, sizeof(fl), "%x", flags);
	log2("open", path, fl);
	return __real_open64(path, flags, mode);
}

int __real_openat(int dirfd, const char *path, int flags, ...);
int __wrap_openat(int dirfd, const char *path, int flags, ...)
{
	va_list ap;
	mode_t mode;
	char fl[32];
	va_start(ap, flags);
	mode = va_arg(ap, mode_t);
	va_end(ap);
	snprintf(fl, sizeof(fl), "%x@%d", flags, dirfd);
	log2("openat", path, fl);
	return __real_openat(dirfd, path, flags, mode);
}

int __real_rename(const char *a, const char *b);
int __wrap_rename(const char *a, const char *b)
{
	log2("rename", a, b);
	return __real_rename(a, b);
}

int __real_mkstemp(char *tmpl);
int __wrap_mkstemp(char *tmpl)
{
	char before[4200];
	int fd;
	snprintf(before, sizeof(before), "%s", tmpl ? tmpl : "");
	fd = __real_mkstemp(tmpl);
	log2("mkstemp", before, fd >= 0 ? tmpl : NULL);
	return fd;
}

int __real_mkstemp64(char *tmpl);
int __wrap_mkstemp64(char *tmpl)
{
	char before[4200];
	int fd;
	snprintf(before, sizeof(before), "%s", tmpl ? tmpl : "");
	fd = __real_mkstemp64(tmpl);
	log2("mkstemp", before, fd >= 0 ? tmpl : NULL);
	return fd;
}

FILE *__real_tmpfile(void);
FILE *__wrap_tmpfile(void)
{
	log1("tmpfile", "");
	return __real_tmpfile();
}

/* ---------------------------------------------------------------- processes */

pid_t __real_fork(void);
pid_t __wrap_fork(void)
{
	log1("fork", "");
	return __real_fork();
}

pid_t __real_vfork(void);
pid_t __wrap_vfork(void)
{
	log1("vfork", "");
	return __real_fork();
}

static void log_exec(const char *fn, const char *file, char *const argv[])
{
	char line[38000], h[9000];
	int pos, i;
	hexstr(h, sizeof(h), file);
	pos = snprintf(line, sizeof(line), "sys %s %s", fn, h);
	for (i = 0; argv && argv[i] && i < 40 && pos < (int)sizeof(line) - 9100; i++) {
		hexstr(h, sizeof(h), argv[i]);
		pos += snprintf(line + pos, sizeof(line) - pos, " %s", h);
	}
	logf_("%s\n", line);
}

/* the "helper": never a real program */
static void fake_helper(void)
{
	if (helper_ok) {
		int fd = __real_open("helper_payload", O_RDONLY, 0);
		char buf[4096];
		ssize_t n;
		while (fd >= 0 && (n = read(fd, buf, sizeof(buf))) > 0) {
			if (write(1, buf, n) < 0)
				break;
		}
		_exit(0);
	}
	_exit(77);
}

int __wrap_execvp(const char *file, char *const argv[])
{
	log_exec("execvp", file, argv);
	fake_helper();
	return -1;
}

int __wrap_execv(const char *file, char *const argv[])
{
	log_exec("execv", file, argv);
	fake_helper();
	return -1;
}

int __wrap_execve(const char *file, char *const argv[], char *const envp[])
{
	log_exec("execve", file, argv);
	fake_helper();
	return -1;
}

int __wrap_execvpe(const char *file, char *const argv[], char *const envp[])
{
	log_exec("execvpe", file, argv);
	fake_helper();
	return -1;
}

int __wrap_execl(const char *file, const char *arg, ...)
{
	log2("execl", file, arg);
	_exit(77);
	return -1;
}

int __wrap_execlp(const char *file, const char *arg, ...)
{
	log2("execlp", file, arg);
	_exit(77);
	return -1;
}

int __wrap_execle(const char *file, const char *arg, ...)
{
	log2("execle", file, arg);
	_exit(77);
	return -1;
}

int __wrap_posix_spawn(pid_t *pid, const char *file, const posix_spawn_file_actions_t *fa,
		       const posix_spawnattr_t *at, char *const argv[], char *const envp[])
{
	if (in_library)
		log_exec("posix_spawn", file, argv);
	return ENOSYS;
}

int __wrap_posix_spawnp(pid_t *pid, const char *file, const posix_spawn_file_actions_t *fa,
			const posix_spawnattr_t *at, char *const argv[], char *const envp[])
{
	if (in_library)
		log_exec("posix_spawnp", file, argv);
	return ENOSYS;
}

FILE *__wrap_popen(const char *cmd, const char *mode)
{
	log2("popen", cmd, mode);
	errno = ENOSYS;
	return NULL;
}

int __wrap_system(const char *cmd)
{
	log1("system", cmd);
	return -1;
}

/* ---------------------------------------------------------------- the plan */

struct cbfile {
	unsigned char *data;
	long size, pos;
};

static unsigned long cb_read(void *dest, unsigned long len, unsigned long nmemb, void *priv)
{
	struct cbfile *c = (struct cbfile *)priv;
	unsigned long want = len * nmemb, can = (unsigned long)(c->size - c->pos);
	if (len == 0)
		return 0;
	if (want > can)
		want = can - can % len;
	memcpy(dest, c->data + c->pos, want);
	c->pos += want;
	return want / len;
}

static int cb_seek(void *priv, long offset, int whence)
{
	struct cbfile *c = (struct cbfile *)priv;
	long p = whence == SEEK_SET ? offset : whence == SEEK_CUR ? c->pos + offset : c->size + offset;
	if (p < 0 || p > c->size)
		return -1;
	c->pos = p;
	return 0;
}

static long cb_tell(void *priv)
{
	return ((struct cbfile *)priv)->pos;
}

static char *unhex(const char *s)
{
	unsigned char *b;
	long n;
	if (!strcmp(s, "none"))
		return NULL;
	n = get_hex(s, &b);
	if (n < 0) {
		fprintf(stderr, "bad hex in plan\n");
		exit(2);
	}
	b = (unsigned char *)realloc(b, n + 1);
	b[n] = 0;
	return (char *)b;
}

static void run_op(const char *id, const char *entry, char *modpath, char *ctxins, char *envins)
{
	struct xmp_test_info ti;
	struct xmp_callbacks cb = { cb_read, cb_seek, cb_tell, NULL };
	struct cbfile cbf;
	unsigned char *data = NULL;
	long size = 0;
	FILE *fp = NULL;
	xmp_context ctx;
	int phase, rc = -99;

	if (strcmp(entry, "path") != 0) {
		data = read_file(modpath, &size);
		if (!data) {
			logf_("skip %s cannot read module\n", id);
			return;
		}
	}
	if (envins)
		setenv("XMP_INSTRUMENT_PATH", envins, 1);
	else
		unsetenv("XMP_INSTRUMENT_PATH");

	for (phase = 0; phase < 2; phase++) {
		const char *pn = phase ? "load" : "test";
		ctx = NULL;
		if (phase) {
			ctx = xmp_create_context();
			if (ctxins)
				xmp_set_instrument_path(ctx, ctxins);
		}
		if (!strcmp(entry, "file")) {
			fp = __real_fopen(modpath, "rb");
			if (!fp) {
				logf_("skip %s cannot open module\n", id);
				return;
			}
		}
		cbf.data = data;
		cbf.size = size;
		cbf.pos = 0;
		logf_("begin %s %s\n", id, pn);
		in_library = 1;
		if (!strcmp(entry, "path"))
			rc = phase ? xmp_load_module(ctx, modpath) : xmp_test_module(modpath, &ti);
		else if (!strcmp(entry, "mem"))
			rc = phase ? xmp_load_module_from_memory(ctx, data, size) : xmp_test_module_from_memory(data, size, &ti);
		else if (!strcmp(entry, "file"))
			rc = phase ? xmp_load_module_from_file(ctx, fp, size) : xmp_test_module_from_file(fp, &ti);
		else
			rc = phase ? xmp_load_module_from_callbacks(ctx, &cbf, cb) : xmp_test_module_from_callbacks(&cbf, cb, &ti);
		if (phase) {
			if (rc == 0)
				xmp_release_module(ctx);
			xmp_free_context(ctx);
		}
		in_library = 0;
		logf_("ret %s %s %d\n", id, pn, rc);
		if (fp) {
			fclose(fp);
			fp = NULL;
		}
	}
	free(data);
}

static void run_smix(const char *id, char *path)
{
	xmp_context ctx = xmp_create_context();
	int rc;
	logf_("begin %s smix\n", id);
	in_library = 1;
	rc = xmp_start_smix(ctx, 1, 2);
	if (rc == 0)
		rc = xmp_smix_load_sample(ctx, 0, path);
	xmp_end_smix(ctx);
	xmp_free_context(ctx);
	in_library = 0;
	logf_("ret %s smix %d\n", id, rc);
}

int main(int argc, char **argv)
{
	FILE *plan;
	char *line = NULL;
	size_t cap = 0;

	if (argc < 3) {
		fprintf(stderr, "usage: c10_opens planfile workdir\n");
		return 2;
	}
	logfd = dup(1);
	plan = __real_fopen(argv[1], "r");
	if (!plan || __real_chdir(argv[2]) < 0) {
		perror("c10_opens");
		return 2;
	}
	while (getline(&line, &cap, plan) > 0) {
		char kind[16], id[64], entry[16], a[9000], b[9000], c[9000], helper[16];
		if (sscanf(line, "%15s", kind) != 1)
			continue;
		if (!strcmp(kind, "op")) {
			char *mp, *ci, *ei;
			if (sscanf(line, "%*s %63s %15s %8999s %8999s %8999s %15s", id, entry, a, b, c, helper) != 6)
				continue;
			helper_ok = !strcmp(helper, "ok");
			mp = unhex(a);
			ci = unhex(b);
			ei = unhex(c);
			run_op(id, entry, mp, ci, ei);
			free(mp);
			free(ci);
			free(ei);
		} else if (!strcmp(kind, "smix")) {
			char *p;
			if (sscanf(line, "%*s %63s %8999s", id, a) != 2)
				continue;
			p = unhex(a);
			run_smix(id, p);
			free(p);
		}
	}
	free(line);
	fclose(plan);
	return 0;
}
