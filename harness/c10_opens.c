/* C10 direct oracle: every path libxmp hands to the operating system and every
 * process it starts while testing / loading a module, observed by link-time
 * interposition (-Wl,--wrap=...).
 *
 *   c10_opens <planfile> <workdir>
 *
 * The harness chdir()s to <workdir> and executes the plan, one operation per line
 * (strings in hex, "none" = absent):
 *
 *   op <id> <entry> <modpath> <ctx instrument path|none> <env instrument path|none> <helper>
 *        entry  = path | mem | file | cb        (which xmp_test_module* / xmp_load_module* pair)
 *        helper = fail | ok      what a spawned helper does: exit 77 / print file "helper_payload", exit 0
 *   smix <id> <samplepath>
 *   hist <id> <ctx instrument path|none> / step <sid> <entry> <modpath> <helper> <none|release|play|playrelease> / endhist
 *        a HISTORY on one context: every step is one xmp_load_module* call (any entry point; the file may be a module,
 *        not a module, undepackable, broken, missing), optionally followed by a player run and/or xmp_release_module.
 *        Each step is logged like an op ("begin <sid> load" .. "ret <sid> load <rc>") and followed by
 *        "state <sid> loaded|after <state > UNLOADED> <m->dirname> <m->basename>" read through the private headers.
 *   pair <id> <order> <modpath A> <instrument path A|none> <modpath B> <instrument path B|none>
 *        two threads, one context each, xmp_load_module concurrently.  The fopen interposer parks a thread that is
 *        about to open a companion file until the other thread is about to open one of its own, then both snapshot
 *        the path they were handed (order 0: start together, 1: B starts once A is parked, 2: the reverse;
 *        env C10_NOBARRIER: no parking, for TSan).  Log lines: "tsys <A|B> <function> <args>", "retp <id> <A|B> <rc>".
 *
 * Output (on the original stdout, unbuffered, so that a forked child can add to it):
 *   begin <id> <phase>            phase = test | load | smix
 *   sys <function> <hex arg> ...  one line per intercepted call made while the library runs
 *   ret <id> <phase> <return code>
 *
 * The intercepted process functions never execute anything: execvp & co. log their
 * arguments and _exit().
 */
#include "vcommon.h"
#include <unistd.h>
#include <fcntl.h>
#include <dirent.h>
#include <stdarg.h>
#include <spawn.h>
#include <sys/stat.h>
#include <sys/types.h>
#include <sys/wait.h>
#include "common.h"	/* struct context_data: the history scenario reads m->dirname / m->basename */
#include <xmp.h>
#include <pthread.h>
#include <time.h>

static int logfd = 1;
static volatile int in_library;
static int helper_ok;

static void logf_(const char *fmt, ...)
{
	char buf[40000];
	va_list ap;
	int n;
	va_start(ap, fmt);
	n = vsnprintf(buf, sizeof(buf), fmt, ap);
	va_end(ap);
	if (n > (int)sizeof(buf) - 1)
		n = sizeof(buf) - 1;
	if (write(logfd, buf, n) < 0) {
	}
}

static void hexstr(char *out, size_t cap, const char *s)
{
	static const char d[] = "0123456789abcdef";
	size_t i, n;
	if (s == NULL) {
		snprintf(out, cap, "NULL");
		return;
	}
	n = strlen(s);
	if (n == 0) {
		snprintf(out, cap, "-");
		return;
	}
	for (i = 0; i < n && 2 * i + 2 < cap; i++) {
		out[2 * i] = d[(unsigned char)s[i] >> 4];
		out[2 * i + 1] = d[(unsigned char)s[i] & 15];
	}
	out[2 * i] = 0;
}

/* ---- two-thread scenario: which of the two loading threads is this (0 = neither) */
static __thread int tl_who;
static __thread const char *tl_modpath;
static int pair_barrier;		/* hold threads at companion opens to force interleavings */
static pthread_mutex_t pair_mu = PTHREAD_MUTEX_INITIALIZER;
static pthread_cond_t pair_cv = PTHREAD_COND_INITIALIZER;
static int pair_arrived[2], pair_copied[2], pair_finished[2];

static void pair_wait(int *mine, int *theirs, int other)
{
	/* caller holds pair_mu; wait until the other thread caught up (or is done); bounded, never a deadlock */
	int rounds = 0;
	while (*theirs < *mine && !pair_finished[other] && rounds++ < 40) {
		struct timespec ts;
		clock_gettime(CLOCK_REALTIME, &ts);
		ts.tv_nsec += 100 * 1000 * 1000;
		if (ts.tv_nsec >= 1000000000L) {
			ts.tv_sec++;
			ts.tv_nsec -= 1000000000L;
		}
		pthread_cond_timedwait(&pair_cv, &pair_mu, &ts);
	}
}

/* A thread about to open a companion file is parked until the other thread is about
 * to open one of its own (so both have finished resolving their paths); then both
 * take a snapshot of the path they were handed, and only then either continues. */
static void pair_rendezvous(const char *path, char *snap, size_t cap)
{
	int me = tl_who - 1, ot = 1 - me;
	pthread_mutex_lock(&pair_mu);
	pair_arrived[me]++;
	pthread_cond_broadcast(&pair_cv);
	pair_wait(&pair_arrived[me], &pair_arrived[ot], ot);
	snprintf(snap, cap, "%s", path);
	pair_copied[me]++;
	pthread_cond_broadcast(&pair_cv);
	pair_wait(&pair_copied[me], &pair_copied[ot], ot);
	pthread_mutex_unlock(&pair_mu);
}

static void log1(const char *fn, const char *a)
{
	char h[9000];
	if (!in_library)
		return;
	hexstr(h, sizeof(h), a);
	if (tl_who)
		logf_("tsys %c %s %s\n", 'A' + tl_who - 1, fn, h);
	else
		logf_("sys %s %s\n", fn, h);
}

static void log2(const char *fn, const char *a, const char *b)
{
	char h1[9000], h2[9000];
	if (!in_library)
		return;
	hexstr(h1, sizeof(h1), a);
	hexstr(h2, sizeof(h2), b);
	if (tl_who)
		logf_("tsys %c %s %s %s\n", 'A' + tl_who - 1, fn, h1, h2);
	else
		logf_("sys %s %s %s\n", fn, h1, h2);
}

/* ------------------------------------------------------------- file system */

#define WRAP_PATH1(ret, name, decl, call) \
	ret __real_##name decl; \
	ret __wrap_##name decl { log1(#name, path); return __real_##name call; }

WRAP_PATH1(DIR *, opendir, (const char *path), (path))
WRAP_PATH1(int, stat, (const char *path, struct stat *st), (path, st))
WRAP_PATH1(int, lstat, (const char *path, struct stat *st), (path, st))
WRAP_PATH1(int, access, (const char *path, int mode), (path, mode))
WRAP_PATH1(int, unlink, (const char *path), (path))
WRAP_PATH1(int, remove, (const char *path), (path))
WRAP_PATH1(int, rmdir, (const char *path), (path))
WRAP_PATH1(int, mkdir, (const char *path, mode_t mode), (path, mode))
WRAP_PATH1(int, chdir, (const char *path), (path))
WRAP_PATH1(int, creat, (const char *path, mode_t mode), (path, mode))
WRAP_PATH1(char *, mkdtemp, (char *path), (path))
WRAP_PATH1(char *, mktemp, (char *path), (path))

FILE *__real_fopen(const char *path, const char *mode);
FILE *__wrap_fopen(const char *path, const char *mode)
{
	if (tl_who && pair_barrier && path && tl_modpath && strcmp(path, tl_modpath) != 0) {
		/* what is opened (and logged) is what the buffer holds once both threads have resolved their paths */
		char snap[4200];
		pair_rendezvous(path, snap, sizeof(snap));
		log2("fopen", snap, mode);
		return __real_fopen(snap, mode);
	}
	log2("fopen", path, mode);
	return __real_fopen(path, mode);
}

FILE *__real_fopen64(const char *path, const char *mode);
FILE *__wrap_fopen64(const char *path, const char *mode)
{
	log2("fopen", path, mode);
	return __real_fopen64(path, mode);
}

FILE *__real_freopen(const char *path, const char *mode, FILE *f);
FILE *__wrap_freopen(const char *path, const char *mode, FILE *f)
{
	log2("freopen", path, mode);
	return __real_freopen(path, mode, f);
}

int __real_open(const char *path, int flags, ...);
int __wrap_open(const char *path, int flags, ...)
{
	va_list ap;
	mode_t mode;
	char fl[32];
	va_start(ap, flags);
	mode = va_arg(ap, mode_t);
	va_end(ap);
	snprintf(fl, sizeof(fl), "%x", flags);
	log2("open", path, fl);
	return __real_open(path, flags, mode);
}

int __real_open64(const char *path, int flags, ...);
int __wrap_open64(const char *path, int flags, ...)
{
	va_list ap;
	mode_t mode;
	char fl[32];
	va_start(ap, flags);
	mode = va_arg(ap, mode_t);
	va_end(ap);
	snprintf(fl, sizeof(fl), "%x", flags);
	log2("open", path, fl);
	return __real_open64(path, flags, mode);
}

int __real_openat(int dirfd, const char *path, int flags, ...);
int __wrap_openat(int dirfd, const char *path, int flags, ...)
{
	va_list ap;
	mode_t mode;
	char fl[32];
	va_start(ap, flags);
	mode = va_arg(ap, mode_t);
	va_end(ap);
	snprintf(fl, sizeof(fl), "%x@%d", flags, dirfd);
	log2("openat", path, fl);
	return __real_openat(dirfd, path, flags, mode);
}

int __real_rename(const char *a, const char *b);
int __wrap_rename(const char *a, const char *b)
{
	log2("rename", a, b);
	return __real_rename(a, b);
}

int __real_mkstemp(char *tmpl);
int __wrap_mkstemp(char *tmpl)
{
	char before[4200];
	int fd;
	snprintf(before, sizeof(before), "%s", tmpl ? tmpl : "");
	fd = __real_mkstemp(tmpl);
	log2("mkstemp", before, fd >= 0 ? tmpl : NULL);
	return fd;
}

int __real_mkstemp64(char *tmpl);
int __wrap_mkstemp64(char *tmpl)
{
	char before[4200];
	int fd;
	snprintf(before, sizeof(before), "%s", tmpl ? tmpl : "");
	fd = __real_mkstemp64(tmpl);
	log2("mkstemp", before, fd >= 0 ? tmpl : NULL);
	return fd;
}

FILE *__real_tmpfile(void);
FILE *__wrap_tmpfile(void)
{
	log1("tmpfile", "");
	return __real_tmpfile();
}

/* ---------------------------------------------------------------- processes */

pid_t __real_fork(void);
pid_t __wrap_fork(void)
{
	log1("fork", "");
	return __real_fork();
}

pid_t __real_vfork(void);
pid_t __wrap_vfork(void)
{
	log1("vfork", "");
	return __real_fork();
}

static void log_exec(const char *fn, const char *file, char *const argv[])
{
	char line[38000], h[9000];
	int pos, i;
	hexstr(h, sizeof(h), file);
	pos = snprintf(line, sizeof(line), "sys %s %s", fn, h);
	for (i = 0; argv && argv[i] && i < 40 && pos < (int)sizeof(line) - 9100; i++) {
		hexstr(h, sizeof(h), argv[i]);
		pos += snprintf(line + pos, sizeof(line) - pos, " %s", h);
	}
	logf_("%s\n", line);
}

/* the "helper": never a real program */
static void fake_helper(void)
{
	if (helper_ok) {
		int fd = __real_open("helper_payload", O_RDONLY, 0);
		char buf[4096];
		ssize_t n;
		while (fd >= 0 && (n = read(fd, buf, sizeof(buf))) > 0) {
			if (write(1, buf, n) < 0)
				break;
		}
		_exit(0);
	}
	_exit(77);
}

int __wrap_execvp(const char *file, char *const argv[])
{
	log_exec("execvp", file, argv);
	fake_helper();
	return -1;
}

int __wrap_execv(const char *file, char *const argv[])
{
	log_exec("execv", file, argv);
	fake_helper();
	return -1;
}

int __wrap_execve(const char *file, char *const argv[], char *const envp[])
{
	log_exec("execve", file, argv);
	fake_helper();
	return -1;
}

int __wrap_execvpe(const char *file, char *const argv[], char *const envp[])
{
	log_exec("execvpe", file, argv);
	fake_helper();
	return -1;
}

int __wrap_execl(const char *file, const char *arg, ...)
{
	log2("execl", file, arg);
	_exit(77);
	return -1;
}

int __wrap_execlp(const char *file, const char *arg, ...)
{
	log2("execlp", file, arg);
	_exit(77);
	return -1;
}

int __wrap_execle(const char *file, const char *arg, ...)
{
	log2("execle", file, arg);
	_exit(77);
	return -1;
}

int __wrap_posix_spawn(pid_t *pid, const char *file, const posix_spawn_file_actions_t *fa,
		       const posix_spawnattr_t *at, char *const argv[], char *const envp[])
{
	if (in_library)
		log_exec("posix_spawn", file, argv);
	return ENOSYS;
}

int __wrap_posix_spawnp(pid_t *pid, const char *file, const posix_spawn_file_actions_t *fa,
			const posix_spawnattr_t *at, char *const argv[], char *const envp[])
{
	if (in_library)
		log_exec("posix_spawnp", file, argv);
	return ENOSYS;
}

FILE *__wrap_popen(const char *cmd, const char *mode)
{
	log2("popen", cmd, mode);
	errno = ENOSYS;
	return NULL;
}

int __wrap_system(const char *cmd)
{
	log1("system", cmd);
	return -1;
}

/* ---------------------------------------------------------------- the plan */

struct cbfile {
	unsigned char *data;
	long size, pos;
};

static unsigned long cb_read(void *dest, unsigned long len, unsigned long nmemb, void *priv)
{
	struct cbfile *c = (struct cbfile *)priv;
	unsigned long want = len * nmemb, can = (unsigned long)(c->size - c->pos);
	if (len == 0)
		return 0;
	if (want > can)
		want = can - can % len;
	memcpy(dest, c->data + c->pos, want);
	c->pos += want;
	return want / len;
}

static int cb_seek(void *priv, long offset, int whence)
{
	struct cbfile *c = (struct cbfile *)priv;
	long p = whence == SEEK_SET ? offset : whence == SEEK_CUR ? c->pos + offset : c->size + offset;
	if (p < 0 || p > c->size)
		return -1;
	c->pos = p;
	return 0;
}

static long cb_tell(void *priv)
{
	return ((struct cbfile *)priv)->pos;
}

static char *unhex(const char *s)
{
	unsigned char *b;
	long n;
	if (!strcmp(s, "none"))
		return NULL;
	n = get_hex(s, &b);
	if (n < 0) {
		fprintf(stderr, "bad hex in plan\n");
		exit(2);
	}
	b = (unsigned char *)realloc(b, n + 1);
	b[n] = 0;
	return (char *)b;
}

static void run_op(const char *id, const char *entry, char *modpath, char *ctxins, char *envins)
{
	struct xmp_test_info ti;
	struct xmp_callbacks cb = { cb_read, cb_seek, cb_tell, NULL };
	struct cbfile cbf;
	unsigned char *data = NULL;
	long size = 0;
	FILE *fp = NULL;
	xmp_context ctx;
	int phase, rc = -99;

	if (strcmp(entry, "path") != 0) {
		data = read_file(modpath, &size);
		if (!data) {
			logf_("skip %s cannot read module\n", id);
			return;
		}
	}
	if (envins)
		setenv("XMP_INSTRUMENT_PATH", envins, 1);
	else
		unsetenv("XMP_INSTRUMENT_PATH");

	for (phase = 0; phase < 2; phase++) {
		const char *pn = phase ? "load" : "test";
		ctx = NULL;
		if (phase) {
			ctx = xmp_create_context();
			if (ctxins)
				xmp_set_instrument_path(ctx, ctxins);
		}
		if (!strcmp(entry, "file")) {
			fp = __real_fopen(modpath, "rb");
			if (!fp) {
				logf_("skip %s cannot open module\n", id);
				return;
			}
		}
		cbf.data = data;
		cbf.size = size;
		cbf.pos = 0;
		logf_("begin %s %s\n", id, pn);
		in_library = 1;
		if (!strcmp(entry, "path"))
			rc = phase ? xmp_load_module(ctx, modpath) : xmp_test_module(modpath, &ti);
		else if (!strcmp(entry, "mem"))
			rc = phase ? xmp_load_module_from_memory(ctx, data, size) : xmp_test_module_from_memory(data, size, &ti);
		else if (!strcmp(entry, "file"))
			rc = phase ? xmp_load_module_from_file(ctx, fp, size) : xmp_test_module_from_file(fp, &ti);
		else
			rc = phase ? xmp_load_module_from_callbacks(ctx, &cbf, cb) : xmp_test_module_from_callbacks(&cbf, cb, &ti);
		if (phase) {
			if (rc == 0)
				xmp_release_module(ctx);
			xmp_free_context(ctx);
		}
		in_library = 0;
		logf_("ret %s %s %d\n", id, pn, rc);
		if (fp) {
			fclose(fp);
			fp = NULL;
		}
	}
	free(data);
}

/* ---- histories: several load attempts, through any entry point, on ONE context */
static xmp_context hist_ctx;
static void *hist_keep[64];		/* memory handed to _from_memory stays alive for the whole history */
static int hist_nkeep;

static void hist_state(const char *sid, const char *tag)
{
	struct context_data *c = (struct context_data *)hist_ctx;
	char h1[9000], h2[9000];
	hexstr(h1, sizeof(h1), c->m.dirname);
	hexstr(h2, sizeof(h2), c->m.basename);
	logf_("state %s %s %d %s %s\n", sid, tag, c->state > XMP_STATE_UNLOADED, h1, h2);
}

static void hist_end(void)
{
	int i;
	if (hist_ctx) {
		in_library = 1;
		xmp_free_context(hist_ctx);
		in_library = 0;
	}
	hist_ctx = NULL;
	for (i = 0; i < hist_nkeep; i++)
		free(hist_keep[i]);
	hist_nkeep = 0;
}

static void hist_begin(char *ctxins)
{
	hist_end();
	unsetenv("XMP_INSTRUMENT_PATH");
	hist_ctx = xmp_create_context();
	if (ctxins)
		xmp_set_instrument_path(hist_ctx, ctxins);
}

static void hist_step(const char *sid, const char *entry, char *modpath, const char *after)
{
	struct xmp_callbacks cb = { cb_read, cb_seek, cb_tell, NULL };
	struct cbfile cbf;
	unsigned char *data = NULL;
	long size = 0;
	FILE *fp = NULL;
	int rc;

	if (!hist_ctx)
		return;
	if (strcmp(entry, "path") != 0) {
		data = read_file(modpath, &size);
		if (!data || hist_nkeep >= 64) {
			logf_("skip %s cannot read module\n", sid);
			return;
		}
		hist_keep[hist_nkeep++] = data;
	}
	if (!strcmp(entry, "file") && (fp = __real_fopen(modpath, "rb")) == NULL) {
		logf_("skip %s cannot open module\n", sid);
		return;
	}
	cbf.data = data;
	cbf.size = size;
	cbf.pos = 0;
	logf_("begin %s load\n", sid);
	in_library = 1;
	if (!strcmp(entry, "path"))
		rc = xmp_load_module(hist_ctx, modpath);
	else if (!strcmp(entry, "mem"))
		rc = xmp_load_module_from_memory(hist_ctx, data, size);
	else if (!strcmp(entry, "file"))
		rc = xmp_load_module_from_file(hist_ctx, fp, size);
	else
		rc = xmp_load_module_from_callbacks(hist_ctx, &cbf, cb);
	in_library = 0;
	logf_("ret %s load %d\n", sid, rc);
	if (fp)
		fclose(fp);
	hist_state(sid, "loaded");
	in_library = 1;
	if (strstr(after, "play") && rc == 0 && xmp_start_player(hist_ctx, 8000, 0) == 0)
		xmp_play_frame(hist_ctx);
	if (strstr(after, "release"))
		xmp_release_module(hist_ctx);
	in_library = 0;
	hist_state(sid, "after");
}

struct pair_arg {
	int who, order;
	const char *modpath, *ins;
	int rc;
};

static void *pair_thread(void *p)
{
	struct pair_arg *a = (struct pair_arg *)p;
	xmp_context ctx;
	int me = a->who - 1, ot = 1 - me;

	/* start orders: 0 both at once, 1 B starts when A is parked at its first companion open, 2 the reverse */
	if (pair_barrier && ((a->order == 1 && a->who == 2) || (a->order == 2 && a->who == 1))) {
		int one = 1;
		pthread_mutex_lock(&pair_mu);
		pair_wait(&one, &pair_arrived[ot], ot);
		pthread_mutex_unlock(&pair_mu);
	}
	tl_who = a->who;
	tl_modpath = a->modpath;
	ctx = xmp_create_context();
	if (a->ins)
		xmp_set_instrument_path(ctx, a->ins);
	a->rc = xmp_load_module(ctx, a->modpath);
	if (a->rc == 0)
		xmp_release_module(ctx);
	xmp_free_context(ctx);
	tl_who = 0;
	pthread_mutex_lock(&pair_mu);
	pair_finished[me] = 1;
	pthread_cond_broadcast(&pair_cv);
	pthread_mutex_unlock(&pair_mu);
	return NULL;
}

/* two contexts load two modules concurrently */
static void run_pair(const char *id, int order, char *ma, char *ia, char *mb, char *ib)
{
	struct pair_arg a = { 1, order, ma, ia, -99 }, b = { 2, order, mb, ib, -99 };
	pthread_t ta, tb;

	memset(pair_arrived, 0, sizeof(pair_arrived));
	memset(pair_copied, 0, sizeof(pair_copied));
	memset(pair_finished, 0, sizeof(pair_finished));
	pair_barrier = getenv("C10_NOBARRIER") == NULL;
	unsetenv("XMP_INSTRUMENT_PATH");
	logf_("begin %s pair\n", id);
	in_library = 1;
	pthread_create(&ta, NULL, pair_thread, &a);
	pthread_create(&tb, NULL, pair_thread, &b);
	pthread_join(ta, NULL);
	pthread_join(tb, NULL);
	in_library = 0;
	logf_("retp %s A %d\nretp %s B %d\nendpair %s\n", id, a.rc, id, b.rc, id);
}

static void run_smix(const char *id, char *path)
{
	xmp_context ctx = xmp_create_context();
	int rc;
	logf_("begin %s smix\n", id);
	in_library = 1;
	rc = xmp_start_smix(ctx, 1, 2);
	if (rc == 0)
		rc = xmp_smix_load_sample(ctx, 0, path);
	xmp_end_smix(ctx);
	xmp_free_context(ctx);
	in_library = 0;
	logf_("ret %s smix %d\n", id, rc);
}

int main(int argc, char **argv)
{
	FILE *plan;
	char *line = NULL;
	size_t cap = 0;

	if (argc < 3) {
		fprintf(stderr, "usage: c10_opens planfile workdir\n");
		return 2;
	}
	logfd = dup(1);
	plan = __real_fopen(argv[1], "r");
	if (!plan || __real_chdir(argv[2]) < 0) {
		perror("c10_opens");
		return 2;
	}
	while (getline(&line, &cap, plan) > 0) {
		char kind[16], id[64], entry[16], a[9000], b[9000], c[9000], helper[16];
		if (sscanf(line, "%15s", kind) != 1)
			continue;
		if (!strcmp(kind, "op")) {
			char *mp, *ci, *ei;
			if (sscanf(line, "%*s %63s %15s %8999s %8999s %8999s %15s", id, entry, a, b, c, helper) != 6)
				continue;
			helper_ok = !strcmp(helper, "ok");
			mp = unhex(a);
			ci = unhex(b);
			ei = unhex(c);
			run_op(id, entry, mp, ci, ei);
			free(mp);
			free(ci);
			free(ei);
		} else if (!strcmp(kind, "hist")) {
			char *ci;
			if (sscanf(line, "%*s %63s %8999s", id, a) != 2)
				continue;
			ci = unhex(a);
			hist_begin(ci);
			free(ci);
		} else if (!strcmp(kind, "step")) {
			char after[32], *mp;
			if (sscanf(line, "%*s %63s %15s %8999s %15s %31s", id, entry, a, helper, after) != 5)
				continue;
			helper_ok = !strcmp(helper, "ok");
			mp = unhex(a);
			hist_step(id, entry, mp, after);
			free(mp);
		} else if (!strcmp(kind, "endhist")) {
			hist_end();
		} else if (!strcmp(kind, "pair")) {
			char d[9000];
			int order;
			char *ma, *ia, *mb, *ib;
			if (sscanf(line, "%*s %63s %d %8999s %8999s %8999s %8999s", id, &order, a, b, c, d) != 6)
				continue;
			ma = unhex(a);
			ia = unhex(b);
			mb = unhex(c);
			ib = unhex(d);
			run_pair(id, order, ma, ia, mb, ib);
			free(ma);
			free(ia);
			free(mb);
			free(ib);
		} else if (!strcmp(kind, "smix")) {
			char *p;
			if (sscanf(line, "%*s %63s %8999s", id, a) != 2)
				continue;
			p = unhex(a);
			run_smix(id, p);
			free(p);
		}
	}
	free(line);
	fclose(plan);
	return 0;
}
