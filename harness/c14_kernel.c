/* C14 kernel harness: every real mix kernel of src/mix_all.c, reached through the kernel tables of
 * src/mixer.c (included privately: nearest_mixers[], linear_mixers[], spline_mixers[] indexed by
 * `fidx & FIDX_FLAGMASK`), is called on random voices / sample windows / accumulator buffers.
 * Each call is written as a case line for the Lean driver (drv_c14, command `k2`, evaluated by
 * Xmp.MixKernel.run) followed by what the real kernel left behind:
 *
 *   C k2 <interp> <id> <count> <vl> <vr> <step> <ramp> <dl> <dr> <posM> <posE> <old_vl> <old_vr>
 *        <l1> <l2> <r1> <r2> <a0> <b0> <b1> <nseg> { <base> <n> <sptr[base..base+n-1]> } <nbuf> <buffer before…>
 *   E <l1> <l2> <r1> <r2> | <buffer after…>
 *
 * (`vi->pos = posM * 2^posE` exactly; the buffer has a tail beyond the words the kernel may touch.)
 * The comparison is bit for bit: every accumulator word and the filter memory written back.
 * Everything else of `*vi` must be untouched (`tie_fail kernel:voice_write`).
 *
 * usage: c14_kernel rand <seed> <first> <ncases>     ranges chosen so that no C expression overflows
 *        c14_kernel wrap <seed> <first> <ncases>     full-range accumulator words and large levels: the
 *                                                   accumulation wraps (MIX_OUT adds in unsigned arithmetic;
 *                                                   a signed `+=` would be reported by UBSan here)
 *        c14_kernel paula <seed> <first> <ncases>    the four Paula kernels of mix_paula.c through a500_mixers[] /
 *                                                   a500led_mixers[] on random voices and Paula states:
 *   C pk <stereo> <tab> <count> <vl> <vr> <step> <posM> <posE> <end> <glob> <remM> <remE> <fdivM> <fdivE>
 *        <nbleps> { <level> <age> } <nseg> { <base> <n> <samples> } <nbuf> <buffer before…>
 *   E <glob> <remM> <remE> <nbleps> { <level> <age> } | <buffer after…>       (doubles as m * 2^e, m odd)
 *        c14_kernel edge <seed> <first> <ncases>     extreme sample values / levels / filter memory at the
 *                                                   limits of the ranges the bound theorems assume
 */
#include "vcommon.h"
#include <math.h>
#include <xmp.h>
#include "common.h"
#include "mixer.h"
#include "virtual.h"
#include "player.h"

#include "paula.h"

#include "mixer.c"

static int g_mode;	/* 0 rand, 1 wrap, 2 edge */

/* limits of the filter memory, for input generation only (MIX_FILTER_CLAMP of mix_all.c keeps it inside) */
#define FILTER_MIN (-65536 * (1 << 15))
#define FILTER_MAX (65535 * (1 << 15))

static double rnd_unit(void)
{
	return (double)(vrng_next() >> 11) * (1.0 / 9007199254740992.0);
}

static int rnd_sym(int lim)
{
	return lim <= 0 ? 0 : vrng_range(-lim, lim);
}

/* m, e with x == m * 2^e exactly (x finite) */
static void dbl_exact(double x, long long *m, int *e)
{
	int ex;
	double fr = frexp(x, &ex);
	*m = (long long)ldexp(fr, 53);
	*e = ex - 53;
	if (*m == 0)
		*e = 0;
}

struct seg {
	long lo, hi;	/* frames, inclusive */
};

static void one_case(long idx)
{
	int interp = (int)(idx % 3);
	int id = (int)((idx / 3) % 16);
	int chn = (id & FLAG_STEREO) ? 2 : 1;
	int s16 = (id & FLAG_16_BITS) ? 1 : 0;
	int sout = (id & FLAG_STEREOOUT) ? 1 : 0;
	const MIX_FP *set = interp == XMP_INTERP_NEAREST ? nearest_mixers :
			    interp == XMP_INTERP_SPLINE ? spline_mixers : linear_mixers;
	MIX_FP fn = set[id];
	struct mixer_voice vi, before;
	int count, step, ramp, vl, vr, dl, dr, L, cls;
	long pos0, minf, maxf, nframes, f, i;
	double dpos;
	int frac0;
	int64_t walk;
	long long pm;
	int pe;
	void *block;
	int nbuf, tail, nseg = 0, segcap;
	int32 *buf;
	struct seg *segs;
	int pfrac;
	long ppos;

	/* ---- count / step ---- */
	cls = vrng_below(100);
	count = cls < 30 ? vrng_range(1, 8) : cls < 75 ? vrng_range(1, 64) : vrng_range(1, 400);
	cls = vrng_below(100);
	if (cls < 45)
		step = vrng_range(0x100, 0x30000);
	else if (cls < 70)
		step = -vrng_range(0x100, 0x30000);
	else if (cls < 75)
		step = vrng_chance(50) ? 0x10000 : -0x10000;
	else if (cls < 85)
		step = (vrng_chance(50) ? 1 : -1) * vrng_range(0x30000, 0x200000);
	else if (cls < 93)
		step = (vrng_chance(50) ? 1 : -1) * vrng_range(1, 255);
	else if (cls < 97) {
		/* the largest step the voice loop passes: SHRT_MAX * 65536 */
		step = (vrng_chance(50) ? 1 : -1) * (vrng_chance(50) ? 0x7fff0000 : vrng_range(0x1000000, 0x7fff0000));
		count = vrng_range(1, 3);
	} else
		step = 0;

	/* ---- position ---- */
	{
		double fr = vrng_chance(50) ? (double)vrng_below(65536) / 65536.0 : vrng_chance(60) ? rnd_unit() : 0.0;
		int64_t span = ((int64_t)count * (int64_t)(step < 0 ? -(int64_t)step : step) >> 16) + 3;
		pos0 = step < 0 ? span + vrng_below(40) : vrng_below(60);
		dpos = (double)pos0 + fr;
	}
	frac0 = (1 << SMIX_SHIFT) * (dpos - (int)dpos);
	walk = (int64_t)frac0 + (interp == XMP_INTERP_NEAREST ? (1 << (SMIX_SHIFT - 1)) : 0) + (int64_t)count * step;
	{
		long endf = pos0 + (long)(walk >> 16);	/* arithmetic shift: floor */
		minf = endf < pos0 ? endf : pos0;
		maxf = endf > pos0 ? endf : pos0;
		if (minf < 0)
			minf = 0;
	}
	nframes = maxf + 3 + 2 + 1;	/* frames -2 … maxf+3 */

	/* ---- sample memory ---- */
	block = malloc((size_t)nframes * chn * (s16 ? 2 : 1));
	{
		int ext = (g_mode == 2) ? (int)vrng_below(4) : 3;	/* 0: all max, 1: all min, 2: alternating, 3: random */
		for (i = 0; i < nframes * chn; i++) {
			int v;
			if (ext == 0)
				v = s16 ? 32767 : 127;
			else if (ext == 1)
				v = s16 ? -32768 : -128;
			else if (ext == 2)
				v = (i / chn) & 1 ? (s16 ? 32767 : 127) : (s16 ? -32768 : -128);
			else
				v = s16 ? vrng_range(-32768, 32767) : vrng_range(-128, 127);
			if (s16)
				((int16 *)block)[i] = (int16)v;
			else
				((int8 *)block)[i] = (int8)v;
		}
	}

	/* ---- the voice ---- */
	memset(&vi, 0, sizeof(vi));
	vi.pos = dpos;
	vi.sptr = (char *)block + 2 * chn * (s16 ? 2 : 1);
	vi.chn = 3;
	vi.vol = 77;
	vi.fidx = id;

	cls = vrng_below(100);
	L = cls < 8 ? 0 : cls < 30 ? 64 : cls < 75 ? 1024 : 8192;	/* |level| <= 2L: |sample * level| <= 2^30 */
	if (g_mode == 1)
		L = 8192;
	if (g_mode == 2)
		L = vrng_chance(50) ? 8192 : 1024;
	vl = (g_mode == 2) ? (vrng_chance(50) ? L : -L) : rnd_sym(L);
	vr = (g_mode == 2) ? (vrng_chance(50) ? L : -L) : rnd_sym(L);
	cls = vrng_below(100);
	ramp = cls < 30 ? count : cls < 40 ? 0 : cls < 50 ? count + (int)vrng_below(5) : (int)vrng_below(count + 1);
	if (vrng_chance(15)) {
		dl = dr = 0;
	} else {
		int dmax = (L * 256 + 255) / count;
		dl = rnd_sym(dmax);
		dr = rnd_sym(dmax);
	}
	/* old + i*d stays within +-(2*L*256+255): levels within +-(2L) */
	vi.old_vl = rnd_sym(L * 256 + 255);
	vi.old_vr = rnd_sym(L * 256 + 255);
	if (g_mode == 2 && vrng_chance(50)) {
		vi.old_vl = vrng_chance(50) ? L * 256 + 255 : -(L * 256 + 255);
		vi.old_vr = vrng_chance(50) ? L * 256 + 255 : -(L * 256 + 255);
		dl = dr = 0;
	}

	if (vrng_chance(70)) {
		static const int srates[] = { 4000, 8000, 11025, 22050, 44100, 48000, 49170 };
		libxmp_filter_setup(srates[vrng_below(7)], vrng_range(0, 255), vrng_range(0, 255), &vi.filter.a0, &vi.filter.b0,
				    &vi.filter.b1);
	} else {
		vi.filter.a0 = rnd_sym(1 << 25);
		vi.filter.b0 = rnd_sym(1 << 25);
		vi.filter.b1 = rnd_sym(1 << 25);
	}
	cls = vrng_below(100);
	if (cls < 20) {
		vi.filter.l1 = vi.filter.l2 = vi.filter.r1 = vi.filter.r2 = 0;
	} else if (cls < 60 && g_mode != 2) {
		vi.filter.l1 = rnd_sym(1 << 20);
		vi.filter.l2 = rnd_sym(1 << 20);
		vi.filter.r1 = rnd_sym(1 << 20);
		vi.filter.r2 = rnd_sym(1 << 20);
	} else {
		/* anywhere in [FILTER_MIN, FILTER_MAX], the limits included */
		int *fm[4] = { &vi.filter.l1, &vi.filter.l2, &vi.filter.r1, &vi.filter.r2 };
		int k;
		for (k = 0; k < 4; k++) {
			int c = vrng_below(10);
			*fm[k] = c == 0 ? FILTER_MIN : c == 1 ? FILTER_MAX : (int)((int64_t)FILTER_MIN +
				(int64_t)(vrng_next() % ((uint64_t)FILTER_MAX - (int64_t)FILTER_MIN + 1)));
		}
	}
	vi.filter.cutoff = 100;
	vi.filter.resonance = 10;

	/* ---- the accumulator ---- */
	tail = (int)vrng_below(6);
	nbuf = count * (sout ? 2 : 1) + tail;
	buf = (int32 *)malloc((size_t)nbuf * sizeof(int32));
	for (i = 0; i < nbuf; i++) {
		if (g_mode == 1)
			buf[i] = (int32)(uint32_t)vrng_next();
		else
			buf[i] = vrng_chance(20) ? 0 : rnd_sym(1 << 29);
	}

	/* ---- which sample frames can be read: the walk of UPDATE_POS, margins -1 … +2 frames ---- */
	segcap = count + 2;
	segs = (struct seg *)malloc((size_t)segcap * sizeof(struct seg));
	ppos = pos0;
	pfrac = frac0;
	if (interp == XMP_INTERP_NEAREST) {
		int64_t t = (int64_t)pfrac + (1 << (SMIX_SHIFT - 1));
		ppos += (long)(t >> 16);
		pfrac = (int)(t & SMIX_MASK);
	}
	for (f = 0; f < count; f++) {
		long lo = ppos - 1, hi = ppos + 2;
		int64_t t;
		if (lo < -2)
			lo = -2;
		if (hi > maxf + 3)
			hi = maxf + 3;
		if (nseg > 0 && lo <= segs[nseg - 1].hi + 1 && hi >= segs[nseg - 1].lo - 1) {
			if (lo < segs[nseg - 1].lo)
				segs[nseg - 1].lo = lo;
			if (hi > segs[nseg - 1].hi)
				segs[nseg - 1].hi = hi;
		} else {
			segs[nseg].lo = lo;
			segs[nseg].hi = hi;
			nseg++;
		}
		t = (int64_t)pfrac + step;
		ppos += (long)(t >> 16);
		pfrac = (int)(t & SMIX_MASK);
	}

	/* ---- case line ---- */
	dbl_exact(dpos, &pm, &pe);
	printf("C k2 %d %d %d %d %d %d %d %d %d %lld %d %d %d %d %d %d %d %d %d %d %d", interp, id, count, vl, vr, step, ramp, dl, dr,
	       pm, pe, vi.old_vl, vi.old_vr, vi.filter.l1, vi.filter.l2, vi.filter.r1, vi.filter.r2, vi.filter.a0, vi.filter.b0,
	       vi.filter.b1, nseg);
	for (i = 0; i < nseg; i++) {
		long e0 = segs[i].lo * chn, e1 = (segs[i].hi + 1) * chn, e;
		printf(" %ld %ld", e0, e1 - e0);
		for (e = e0; e < e1; e++)
			printf(" %d", s16 ? (int)((int16 *)vi.sptr)[e] : (int)((int8 *)vi.sptr)[e]);
	}
	printf(" %d", nbuf);
	for (i = 0; i < nbuf; i++)
		printf(" %u", (unsigned)buf[i]);
	printf("\n");

	/* ---- the real kernel ---- */
	before = vi;
	fn(&vi, buf, count, vl, vr, step, ramp, dl, dr);

	printf("E %d %d %d %d |", vi.filter.l1, vi.filter.l2, vi.filter.r1, vi.filter.r2);
	for (i = 0; i < nbuf; i++)
		printf(" %u", (unsigned)buf[i]);
	printf("\n");

	/* nothing but the filter memory may be written */
	before.filter.l1 = vi.filter.l1;
	before.filter.l2 = vi.filter.l2;
	before.filter.r1 = vi.filter.r1;
	before.filter.r2 = vi.filter.r2;
	if (memcmp(&before, &vi, sizeof(vi)) != 0)
		printf("tie_fail kernel:voice_write case=%ld interp=%d id=%d (a kernel wrote a field of *vi other than filter.l1/l2/r1/r2)\n",
		       idx, interp, id);
	printf("kstat interp=%d id=%d count=%d ac=%d filter=%d rev=%d\n", interp, id, count,
	       interp != XMP_INTERP_NEAREST && count > ramp, (id & FLAG_FILTER) != 0 && interp != XMP_INTERP_NEAREST, step < 0);

	free(segs);
	free(buf);
	free(block);
}

/* canonical m * 2^e of a non-negative double: m odd (or 0 0) */
static void dbl_canon(double x, unsigned long long *m, int *e)
{
	int ex;
	double fr = frexp(x, &ex);
	unsigned long long mm = (unsigned long long)ldexp(fr, 53);
	ex -= 53;
	if (mm == 0) {
		*m = 0;
		*e = 0;
		return;
	}
	while ((mm & 1) == 0) {
		mm >>= 1;
		ex++;
	}
	*m = mm;
	*e = ex;
}

static void paula_case(long idx)
{
	static const int srates[] = { 4000, 8000, 11025, 22050, 44100, 48000, 49170, 31400 };
	int stereo = (int)(idx & 1), tab = (int)((idx >> 1) & 1);
	const MIX_FP *set = tab ? a500led_mixers : a500_mixers;
	MIX_FP fn = set[stereo ? FLAG_STEREOOUT : 0];
	struct mixer_voice vi, before;
	struct paula_state ps, ps0;
	int count, step, vl, vr, nbuf, tail, warm, i, blocklen, pe, re, fe, L;
	long pos0, endf;
	double dpos;
	long long pm;
	unsigned long long rm, fm;
	int8 *block;
	int32 *buf, *scratch;

	count = vrng_chance(40) ? vrng_range(1, 8) : vrng_range(1, 200);
	step = vrng_chance(70) ? vrng_range(3000, 0x28000) : vrng_chance(50) ? vrng_range(0x28000, 0x90000) : vrng_range(1, 3000);
	warm = vrng_range(0, 40);
	pos0 = vrng_below(30);
	dpos = (double)pos0 + (vrng_chance(50) ? (double)vrng_below(65536) / 65536.0 : vrng_chance(60) ? rnd_unit() : 0.0);
	endf = pos0 + (long)(((int64_t)(count + warm) * step + 65536) >> 16) + 2;
	blocklen = (int)endf + 8;
	block = (int8 *)malloc((size_t)blocklen);
	{
		int shape = vrng_below(4);
		for (i = 0; i < blocklen; i++)
			block[i] = shape == 0 ? (int8)vrng_range(-128, 127) : shape == 1 ? (int8)((i & 1) ? 127 : -128) :
				   shape == 2 ? (int8)((i / 7) & 1 ? 100 : -100) : (int8)(120.0 * sin(i * 0.37));
	}

	memset(&ps, 0, sizeof(ps));
	ps.fdiv = (double)PAULA_HZ / srates[vrng_below(8)];
	ps.remainder = ps.fdiv;
	memset(&vi, 0, sizeof(vi));
	vi.pos = dpos;
	vi.sptr = block;
	vi.paula = &ps;
	vi.chn = 1;
	vi.vol = 64;
	/* the clamp of PAULA_INPUT: sometimes the end lies inside the walk */
	vi.end = vrng_chance(30) ? (int)(pos0 + vrng_below((uint32_t)(endf - pos0) + 1)) : (int)endf;

	L = vrng_chance(10) ? 0 : 64;
	vl = rnd_sym(L);
	vr = rnd_sym(L);

	if (vrng_chance(70)) {
		/* a realistic state: what the kernel itself leaves after `warm` frames */
		if (warm > 0) {
			scratch = (int32 *)calloc((size_t)warm * 2, sizeof(int32));
			fn(&vi, scratch, warm, vl, vr, step, warm, 0, 0);
			free(scratch);
			vi.pos += (double)step / 65536.0 * warm;	/* as the voice loop does */
		}
	} else {
		/* an arbitrary state */
		int n = vrng_below(MAX_BLEPS), age = 0;
		ps.global_output_level = (int16)vrng_range(-128, 127);
		ps.active_bleps = n;
		for (i = 0; i < n; i++) {
			age += vrng_below(40);
			if (age >= BLEP_SIZE)
				age = BLEP_SIZE - 1;
			ps.blepstate[i].age = (int16)age;
			ps.blepstate[i].level = (int16)vrng_range(-128, 128);	/* keeps the int32 sum of output_sample far from overflow */
		}
		ps.remainder = 16.0 + rnd_unit() * ps.fdiv;
	}
	if ((int)vi.pos + (long)(((int64_t)count * step + 65536) >> 16) + 2 > blocklen - 1 && vi.end > blocklen - 1)
		vi.end = blocklen - 1;

	tail = (int)vrng_below(5);
	nbuf = count * (stereo ? 2 : 1) + tail;
	buf = (int32 *)malloc((size_t)nbuf * sizeof(int32));
	for (i = 0; i < nbuf; i++)
		buf[i] = vrng_chance(20) ? 0 : rnd_sym(1 << 29);

	dbl_exact(vi.pos, &pm, &pe);
	dbl_canon(ps.remainder, &rm, &re);
	dbl_canon(ps.fdiv, &fm, &fe);
	printf("C pk %d %d %d %d %d %d %lld %d %d %d %llu %d %llu %d %u", stereo, tab, count, vl, vr, step, pm, pe, vi.end,
	       ps.global_output_level, rm, re, fm, fe, ps.active_bleps);
	for (i = 0; i < (int)ps.active_bleps; i++)
		printf(" %d %d", ps.blepstate[i].level, ps.blepstate[i].age);
	printf(" 1 0 %d", blocklen);
	for (i = 0; i < blocklen; i++)
		printf(" %d", block[i]);
	printf(" %d", nbuf);
	for (i = 0; i < nbuf; i++)
		printf(" %u", (unsigned)buf[i]);
	printf("\n");

	before = vi;
	ps0 = ps;
	fn(&vi, buf, count, vl, vr, step, count, 0, 0);

	dbl_canon(ps.remainder, &rm, &re);
	printf("E %d %llu %d %u", ps.global_output_level, rm, re, ps.active_bleps);
	for (i = 0; i < (int)ps.active_bleps; i++)
		printf(" %d %d", ps.blepstate[i].level, ps.blepstate[i].age);
	printf(" |");
	for (i = 0; i < nbuf; i++)
		printf(" %u", (unsigned)buf[i]);
	printf("\n");
	if (memcmp(&before, &vi, sizeof(vi)) != 0 || ps.fdiv != ps0.fdiv)
		printf("tie_fail kernel:voice_write case=%ld paula stereo=%d tab=%d (a Paula kernel wrote *vi or paula->fdiv)\n", idx, stereo, tab);
	printf("kstat interp=9 id=%d count=%d ac=0 filter=%d rev=0\n", (stereo ? 4 : 0) | (tab ? 8 : 0), count, tab);
	free(buf);
	free(block);
}

int main(int argc, char **argv)
{
	uint64_t seed;
	long first, n, i;

	if (argc < 5) {
		fprintf(stderr, "usage: %s rand|wrap|edge|paula <seed> <first> <ncases>\n", argv[0]);
		return 2;
	}
	g_mode = !strcmp(argv[1], "wrap") ? 1 : !strcmp(argv[1], "edge") ? 2 : !strcmp(argv[1], "paula") ? 3 : 0;
	seed = strtoull(argv[2], NULL, 10);
	first = atol(argv[3]);
	n = atol(argv[4]);
	for (i = first; i < first + n; i++) {
		/* every case is a function of (seed, mode, index) alone */
		vrng_seed(seed * 1000003ULL + (uint64_t)i * 7919ULL + (uint64_t)g_mode * 104729ULL);
		if (g_mode == 3)
			paula_case(i);
		else
			one_case(i);
	}
	fflush(stdout);
	return 0;
}
