/* C06: canonical image of a libxmp context.
 *
 * Every leaf member of struct context_data (list generated from the headers,
 * c06_ctxfields.h) becomes one entry: scalars / arrays by value, pointers by a
 * digest of what they point to (never by address).  Two contexts are compared
 * entry by entry.  Shared by c06_reset.c and c06_isolation.c. */
#ifndef C06_IMAGE_H
#define C06_IMAGE_H

#include "vcommon.h"
#include <xmp.h>
#include "common.h"
#include "player.h"
#include "mixer.h"
#include "virtual.h"
#include "rng.h"
#include "paula.h"
#include "far_extras.h"
#include "c06_ctxfields.h"

#define C06_MAXENT 256

struct c06_ent {
	const struct c06_leaf *leaf;
	int n;			/* number of values */
	int64_t *v;		/* values; for pointers: v[0] = non-NULL, v[1] = digest of the pointee */
	int compared;		/* 0: pointee not canonicalised (opaque), address ignored */
};

struct c06_image {
	int n;
	struct c06_ent e[C06_MAXENT];
};

static int64_t c06_load(const unsigned char *p, int kind, int esize)
{
	switch (kind) {
	case K_INT:
		switch (esize) {
		case 1: return *(const int8_t *)p;
		case 2: { int16_t x; memcpy(&x, p, 2); return x; }
		case 4: { int32_t x; memcpy(&x, p, 4); return x; }
		default: { int64_t x; memcpy(&x, p, 8); return x; }
		}
	case K_UINT:
		switch (esize) {
		case 1: return *p;
		case 2: { uint16_t x; memcpy(&x, p, 2); return x; }
		case 4: { uint32_t x; memcpy(&x, p, 4); return x; }
		default: { uint64_t x; memcpy(&x, p, 8); return (int64_t)x; }
		}
	case K_F64: { int64_t x; memcpy(&x, p, 8); return x; }	/* bit pattern */
	case K_F32: { int32_t x; memcpy(&x, p, 4); return x; }
	default: return 0;
	}
}

/* value of a floating leaf in 1/1000 units (what the model talks about) */
static int64_t c06_milli(int64_t bits, int kind)
{
	double d;
	if (kind == K_F64) {
		memcpy(&d, &bits, 8);
	} else {
		float f; int32_t b = (int32_t)bits; memcpy(&f, &b, 4); d = f;
	}
	if (d != d) return -999999999;
	if (d > 9e14) return 900000000000000000LL;
	if (d < -9e14) return -900000000000000000LL;
	return (int64_t)(d * 1000.0 + (d < 0 ? -0.5 : 0.5));
}

/* digest of the scalar leaves of a record array (channel_data / mixer_voice); pointer leaves by NULL-ness */
static uint64_t c06_record_digest(uint64_t h, const void *base, int nrec, int recsize, const struct c06_leaf *lv)
{
	int r, i, k;
	for (r = 0; r < nrec; r++) {
		const unsigned char *b = (const unsigned char *)base + (size_t)r * recsize;
		for (i = 0; lv[i].path; i++) {
			for (k = 0; k < lv[i].count; k++) {
				int64_t v;
				if (lv[i].kind == K_PTR) {
					void *q; memcpy(&q, b + lv[i].off + 8 * k, 8);
					v = q != NULL;
					/* mixer_voice.sptr points into sample data: position relative to it is in pos/smp */
					if (!strcmp(lv[i].path, "sptr")) v = 0;
				} else {
					v = c06_load(b + lv[i].off + (size_t)k * lv[i].esize, lv[i].kind, lv[i].esize);
				}
				h = fnv1a(h, &v, 8);
			}
		}
	}
	return h;
}

static uint64_t c06_str(uint64_t h, const char *s)
{
	return s ? fnv1a(h, s, strlen(s) + 1) : h;
}

static int c06_sample_bytes(const struct xmp_sample *s)
{
	long n = s->len;
	if (s->flg & XMP_SAMPLE_SYNTH) return 0;
	if (n <= 0 || s->data == NULL) return 0;
	if (s->flg & XMP_SAMPLE_16BIT) n *= 2;
	if (s->flg & XMP_SAMPLE_STEREO) n *= 2;
	return (int)n;
}

static uint64_t c06_envelope(uint64_t h, const struct xmp_envelope *e)
{
	h = fnv1a(h, &e->flg, 7 * sizeof(int));
	return fnv1a(h, e->data, sizeof(e->data));
}

static uint64_t c06_instruments(uint64_t h, const struct xmp_instrument *xxi, int n)
{
	int i;
	for (i = 0; i < n; i++) {
		const struct xmp_instrument *x = &xxi[i];
		int one = x->extra != NULL;
		h = fnv1a(h, x->name, sizeof(x->name));
		h = fnv1a(h, &x->vol, 3 * sizeof(int));
		h = c06_envelope(h, &x->aei);
		h = c06_envelope(h, &x->pei);
		h = c06_envelope(h, &x->fei);
		h = fnv1a(h, x->map, sizeof(x->map));
		if (x->sub && x->nsm > 0)
			h = fnv1a(h, x->sub, (size_t)x->nsm * sizeof(struct xmp_subinstrument));
		h = fnv1a(h, &one, sizeof(int));
	}
	return h;
}

static uint64_t c06_samples(uint64_t h, const struct xmp_sample *xxs, int n)
{
	int i;
	for (i = 0; i < n; i++) {
		const struct xmp_sample *s = &xxs[i];
		int nb = c06_sample_bytes(s);
		h = fnv1a(h, s->name, sizeof(s->name));
		h = fnv1a(h, &s->len, 4 * sizeof(int));
		if (nb > 0)
			h = fnv1a(h, s->data, nb);
	}
	return h;
}

/* Digest of what a pointer member of context_data points to.  Returns 1 if
 * the pointee was canonicalised, 0 if it is opaque (only NULL-ness compared). */
static int c06_pointee(struct context_data *ctx, const char *ctor, void *ptr, uint64_t *dig)
{
	struct player_data *p = &ctx->p;
	struct module_data *m = &ctx->m;
	struct xmp_module *mod = &m->mod;
	uint64_t h = FNV_INIT;
	int i;

	*dig = 0;
	if (ptr == NULL)
		return 1;
	if (!strcmp(ctor, "p_flow_loop")) {
		h = fnv1a(h, ptr, (size_t)p->virt.virt_channels * sizeof(struct pattern_loop));
	} else if (!strcmp(ctor, "p_scan")) {
		int n = ctx->state >= XMP_STATE_LOADED ? m->num_sequences : 0;
		if (n > mod->len && mod->len > 0) n = mod->len;
		if (n < 1) n = 1;
		h = fnv1a(h, ptr, (size_t)n * sizeof(struct scan_data));
	} else if (!strcmp(ctor, "p_xc_data")) {
		h = c06_record_digest(h, ptr, p->virt.virt_channels, sizeof(struct channel_data), c06_chn_leaves);
	} else if (!strcmp(ctor, "p_virt_virt_channel")) {
		h = fnv1a(h, ptr, (size_t)p->virt.virt_channels * sizeof(struct virt_channel));
	} else if (!strcmp(ctor, "p_virt_voice_array")) {
		h = c06_record_digest(h, ptr, p->virt.maxvoc, sizeof(struct mixer_voice), c06_voice_leaves);
#ifdef LIBXMP_PAULA_SIMULATOR
		for (i = 0; i < p->virt.maxvoc; i++) {
			struct paula_state *ps = p->virt.voice_array[i].paula;
			if (ps)
				h = fnv1a(h, ps, sizeof(struct paula_state));
		}
#endif
	} else if (!strcmp(ctor, "p_buffer_data_in_buffer")) {
		long off = (char *)ptr - ctx->s.buffer;
		h = fnv1a(h, &off, sizeof(off));
	} else if (!strcmp(ctor, "s_buffer")) {
		h = fnv1a(h, ptr, XMP_MAX_FRAMESIZE * sizeof(int16));
	} else if (!strcmp(ctor, "s_buf32")) {
		h = fnv1a(h, ptr, XMP_MAX_FRAMESIZE * sizeof(int32));
	} else if (!strcmp(ctor, "m_mod_xxp")) {
		for (i = 0; i < mod->pat; i++) {
			int z = mod->xxp[i] != NULL;
			h = fnv1a(h, &z, sizeof(int));
			if (z)
				h = fnv1a(h, mod->xxp[i], sizeof(int) * (1 + (mod->chn > 0 ? mod->chn : 0)));
		}
	} else if (!strcmp(ctor, "m_mod_xxt")) {
		for (i = 0; i < mod->trk; i++) {
			int z = mod->xxt[i] != NULL;
			h = fnv1a(h, &z, sizeof(int));
			if (z) {
				h = fnv1a(h, &mod->xxt[i]->rows, sizeof(int));
				h = fnv1a(h, mod->xxt[i]->event, sizeof(struct xmp_event) * (size_t)(mod->xxt[i]->rows > 0 ? mod->xxt[i]->rows : 0));
			}
		}
	} else if (!strcmp(ctor, "m_mod_xxi")) {
		h = c06_instruments(h, mod->xxi, mod->ins);
	} else if (!strcmp(ctor, "m_mod_xxs")) {
		h = c06_samples(h, mod->xxs, mod->smp);
	} else if (!strcmp(ctor, "m_dirname") || !strcmp(ctor, "m_basename") || !strcmp(ctor, "m_filename")
		|| !strcmp(ctor, "m_comment") || !strcmp(ctor, "m_instrument_path")) {
		h = c06_str(h, (const char *)ptr);
	} else if (!strcmp(ctor, "m_vol_table")) {
		/* points to a constant table of the library: same process, same address */
		h = fnv1a(h, &ptr, sizeof(ptr));
	} else if (!strcmp(ctor, "m_scan_cnt")) {
		for (i = 0; i < mod->len; i++) {
			int pat = mod->xxo[i];
			int rows = (pat < mod->pat && mod->xxp && mod->xxp[pat] && mod->xxp[pat]->rows) ? mod->xxp[pat]->rows : 1;
			if (m->scan_cnt[i])
				h = fnv1a(h, m->scan_cnt[i], rows);
		}
	} else if (!strcmp(ctor, "m_xtra")) {
		for (i = 0; i < mod->smp; i++) {
			h = fnv1a(h, &m->xtra[i].c5spd, sizeof(double));
			h = fnv1a(h, &m->xtra[i].sus, 2 * sizeof(int));
		}
	} else if (!strcmp(ctor, "m_midi")) {
		h = fnv1a(h, ptr, sizeof(struct midi_macro_data));
	} else if (!strcmp(ctor, "smix_xxi")) {
		h = c06_instruments(h, ctx->smix.xxi, ctx->smix.ins);
	} else if (!strcmp(ctor, "smix_xxs")) {
		h = c06_samples(h, ctx->smix.xxs, ctx->smix.smp);
	} else if (!strcmp(ctor, "m_extra") && HAS_FAR_MODULE_EXTRAS(*m)) {
		/* FAR module-wide tempo / vibrato state (changed by effects while playing) */
		h = fnv1a(h, ptr, sizeof(struct far_module_extras));
	} else {
		/* m_extra of other formats (tables loaded from the file) and anything new: opaque */
		return 0;
	}
	*dig = h;
	return 1;
}

/* ---- poisoning ----------------------------------------------------------
 * The Lean model (Xmp.Reset.LoadResets / StartResets, printed by drv_c06) says which members a
 * load, resp. xmp_start_player, re-initialises without looking at them.  The file named by
 * $C06_POISON lists them (`load <ctor>` / `start <ctor>` lines); c06_poison() overwrites every
 * element of those (non-pointer) members of a context with a sentinel. */
#define C06_MAXPOISON 200
static const struct c06_leaf *c06_poison_set[2][C06_MAXPOISON];
static int c06_poison_n[2] = { 0, 0 };

static void c06_poison_init(void)
{
	const char *path = getenv("C06_POISON");
	char line[256], what[16], ctor[128];
	FILE *f;
	int i;
	if (!path || !(f = fopen(path, "r")))
		return;
	while (fgets(line, sizeof(line), f)) {
		int w;
		if (sscanf(line, "%15s %127s", what, ctor) != 2)
			continue;
		w = !strcmp(what, "load") ? 0 : !strcmp(what, "start") ? 1 : -1;
		if (w < 0)
			continue;
		for (i = 0; c06_ctx_leaves[i].path; i++) {
			if (!strcmp(c06_ctx_leaves[i].ctor, ctor) && c06_ctx_leaves[i].kind != K_PTR
			    && c06_poison_n[w] < C06_MAXPOISON)
				c06_poison_set[w][c06_poison_n[w]++] = &c06_ctx_leaves[i];
		}
	}
	fclose(f);
}

/* which: 0 = before a load (context UNLOADED), 1 = before xmp_start_player (context LOADED) */
static int c06_poison(struct context_data *ctx, int which)
{
	unsigned char *base = (unsigned char *)ctx;
	int i, j, k;
	for (i = 0; i < c06_poison_n[which]; i++) {
		const struct c06_leaf *l = c06_poison_set[which][i];
		for (j = 0; j < l->outer_n; j++) {
			for (k = 0; k < l->count; k++) {
				unsigned char *q = base + l->off + (size_t)j * l->outer_stride + (size_t)k * l->esize;
				if (l->kind == K_F64) { double d = 23130.5; memcpy(q, &d, 8); }
				else if (l->kind == K_F32) { float d = 23130.5f; memcpy(q, &d, 4); }
				else if (l->esize == 1) { *q = 0x5a; }
				else if (l->esize == 2) { int16_t v = 0x5a5a; memcpy(q, &v, 2); }
				else if (l->esize == 4) { int32_t v = 0x5a5a; memcpy(q, &v, 4); }
				else { int64_t v = 0x5a5a; memcpy(q, &v, 8); }
			}
		}
	}
	return c06_poison_n[which];
}

static void c06_image_free(struct c06_image *im)
{
	int i;
	for (i = 0; i < im->n; i++)
		free(im->e[i].v);
	im->n = 0;
}

static void c06_image_take(struct context_data *ctx, struct c06_image *im)
{
	const unsigned char *base = (const unsigned char *)ctx;
	int i, j, k;

	im->n = 0;
	for (i = 0; c06_ctx_leaves[i].path; i++) {
		const struct c06_leaf *l = &c06_ctx_leaves[i];
		struct c06_ent *e = &im->e[im->n++];
		e->leaf = l;
		e->compared = 1;
		if (l->kind == K_PTR) {
			void *q;
			uint64_t d;
			memcpy(&q, base + l->off, 8);
			e->n = 2;
			e->v = (int64_t *)calloc(2, sizeof(int64_t));
			e->v[0] = q != NULL;
			e->compared = c06_pointee(ctx, l->ctor, q, &d);
			e->v[1] = (int64_t)d;
			continue;
		}
		e->n = l->count * l->outer_n;
		e->v = (int64_t *)calloc(e->n, sizeof(int64_t));
		for (j = 0; j < l->outer_n; j++)
			for (k = 0; k < l->count; k++)
				e->v[j * l->count + k] = c06_load(base + l->off + (size_t)j * l->outer_stride + (size_t)k * l->esize,
								 l->kind, l->esize);
	}
}

/* print one image entry in the model's units: `<tag> <ctor> v0 v1 ...` */
static void c06_print_ent(FILE *f, const char *tag, const struct c06_ent *e)
{
	int k;
	fprintf(f, "%s %s", tag, e->leaf->ctor);
	if (e->leaf->kind == K_PTR) {
		fprintf(f, " %lld\n", (long long)e->v[0]);
		return;
	}
	for (k = 0; k < e->n; k++) {
		int64_t v = e->v[k];
		if (e->leaf->kind == K_F64 || e->leaf->kind == K_F32)
			v = c06_milli(v, e->leaf->kind);
		fprintf(f, " %lld", (long long)v);
	}
	fputc('\n', f);
}

static void c06_print_image(FILE *f, const char *tag, const struct c06_image *im)
{
	int i;
	for (i = 0; i < im->n; i++)
		c06_print_ent(f, tag, &im->e[i]);
}

/* compare two images; prints `diff <ctor> <index> <a> <b>` (first differing index per leaf); returns #leaves differing */
static int c06_image_diff(FILE *f, const char *tag, const struct c06_image *a, const struct c06_image *b)
{
	int i, k, nd = 0;
	for (i = 0; i < a->n && i < b->n; i++) {
		const struct c06_ent *x = &a->e[i], *y = &b->e[i];
		int cnt = 0, first = -1;
		for (k = 0; k < x->n && k < y->n; k++) {
			if (x->v[k] != y->v[k]) {
				if (first < 0) first = k;
				cnt++;
			}
		}
		if (cnt) {
			fprintf(f, "%s %s %d %lld %lld %d\n", tag, x->leaf->ctor, first, (long long)x->v[first], (long long)y->v[first], cnt);
			nd++;
		}
	}
	return nd;
}

#endif
