/* C11 correspondence harness (real code side).
 *
 * usage: c11_strings strings <seed> <ncases>
 *        c11_strings table   <seed> <ncases> <scratchdir> [datafile...]
 *        c11_strings wrap    <seed> <ncases> <scratchdir> [datafile...]
 *
 * Output: lines `Q <request for lean/Drv/C11.lean>` and `A <what the real code answered>`.
 * tools/checks/c11.py feeds the Q lines to the native Lean driver and compares its answers with
 * the A lines.
 *
 * strings: libxmp_copy_adjust, libxmp_adjust_string, libxmp_read_title, pw_read_title on random
 *          byte strings (every byte of the destination buffer is compared).
 * table  : the real test_module()/load_module() of src/load.c (through xmp_test_module_from_memory
 *          and xmp_load_module_from_memory) walking a random table of synthetic loaders
 *          (harness/c11_table.c replaces src/format.c); one of them may be called "prowizard", which
 *          makes test_module run the real pw_check on the data.
 * wrap   : the eight public wrappers on the same synthetic tables: argument checks, open failures,
 *          the depack step (libxmp_decrunch's verdict on the data is passed to the model), the caller's
 *          FILE afterwards, file descriptors left open.
 */
#include "vcommon.h"
#include <unistd.h>
#include <dirent.h>
#include <sys/stat.h>
#include <xmp.h>
#include "common.h"
#include "hio.h"
#include "loader.h"
#include "depackers/depacker.h"
#include "prowizard/prowiz.h"

void vt_set(int i, const struct format_loader *p);

/* ------------------------------------------------------------------ bytes */

static unsigned char rnd_byte(void)
{
	switch (vrng_below(12)) {
	case 0:
		return 0;
	case 1:
	case 2:
		return ' ';
	case 3:
		return (unsigned char)vrng_range(1, 31);
	case 4:
		return (unsigned char)vrng_range(127, 255);
	case 5:
		return '.';
	default:
		return (unsigned char)vrng_range(33, 126);
	}
}

/* title-like bytes, never 0xDD / 0xEE (the garbage markers of the model side) */
static unsigned char rnd_title_byte(int allow_nul)
{
	unsigned char c;
	do {
		c = rnd_byte();
	} while (c == 0xDD || c == 0xEE || (!allow_nul && c == 0));
	return c;
}

static void qa(const char *tag, const char *q)
{
	printf("%s %s", tag, q);
}

/* ---------------------------------------------------------------- strings */

static void case_copy_adjust(void)
{
	int n = vrng_chance(20) ? vrng_range(0, 3) : vrng_range(0, 70);
	int rl = n + vrng_range(0, 6), i;
	unsigned char r[96], s[96];
	for (i = 0; i < rl; i++)
		r[i] = vrng_chance(15) && i > n / 2 ? ' ' : rnd_byte();
	r[rl] = 0;
	if (vrng_chance(30))		/* no NUL inside the first n bytes */
		for (i = 0; i < n; i++)
			if (r[i] == 0)
				r[i] = ' ';
	if (vrng_chance(30) && n >= 3) {	/* the usual shape of a title field: text, blanks, NUL padding */
		int tl = vrng_range(0, n - 1), bl = vrng_range(0, n - tl);
		for (i = 0; i < rl; i++)
			r[i] = i < tl ? (unsigned char)vrng_range(33, 126) : i < tl + bl ? ' ' : 0;
	}
	memset(s, 0xCC, sizeof(s));
	libxmp_copy_adjust((char *)s, r, n);
	printf("Q ca %d ", n);
	put_hex(stdout, r, rl + 1);
	printf("\nA ca ");
	put_hex(stdout, s, n + 1);
	printf("\n");
	if (s[n + 1] != 0xCC)
		printf("A overrun libxmp_copy_adjust wrote past n+1 bytes\n");
}

static void case_adjust_string(void)
{
	int l = vrng_range(1, 70), i;
	unsigned char b[96], o[96];
	for (i = 0; i < l; i++)
		b[i] = vrng_chance(20) ? ' ' : rnd_byte();
	if (vrng_chance(50))
		for (i = 0; i < l; i++)
			if (b[i] == 0)
				b[i] = (unsigned char)vrng_range(1, 255);
	b[l - 1] = 0;
	memcpy(o, b, l);
	o[l] = 0xCC;
	libxmp_adjust_string((char *)o);
	printf("Q as ");
	put_hex(stdout, b, l);
	printf("\nA as ");
	put_hex(stdout, o, l);
	printf("\n");
	if (o[l] != 0xCC)
		printf("A overrun libxmp_adjust_string wrote past the array\n");
}

static void case_read_title(void)
{
	int len = vrng_range(1, 100), pos, s, s1, i, use_file = vrng_chance(40);
	unsigned char data[128], t[160];
	HIO_HANDLE *h;
	FILE *fp = NULL;
	for (i = 0; i < len; i++)
		data[i] = vrng_chance(15) ? ' ' : rnd_byte();
	pos = vrng_range(0, len);
	if (vrng_chance(30)) {		/* text, blanks, NUL padding from pos on */
		int tl = vrng_range(0, 12), bl = vrng_range(0, 8);
		for (i = pos; i < len; i++)
			data[i] = i < pos + tl ? (unsigned char)vrng_range(33, 126) : i < pos + tl + bl ? ' ' : 0;
	}
	s = vrng_chance(10) ? vrng_range(-3, -1) : vrng_chance(15) ? vrng_range(60, 80) : vrng_range(0, 40);
	if (use_file) {
		fp = fmemopen(data, len, "rb");
		h = fp ? hio_open_file(fp) : NULL;
	} else {
		h = hio_open_const_mem(data, len);
	}
	if (h == NULL) {
		if (fp)
			fclose(fp);
		return;
	}
	hio_seek(h, pos, SEEK_SET);
	memset(t, 0xCC, sizeof(t));
	libxmp_read_title(h, (char *)t, s);
	printf("Q rt %d %d ", s, pos);
	put_hex(stdout, data, len);
	printf("\nA rt %ld ", hio_tell(h));
	s1 = s >= XMP_NAME_SIZE ? XMP_NAME_SIZE - 1 : s;
	if (s < 0) {
		printf("none\n");
		s1 = -1;
	} else {
		put_hex(stdout, t, s1 + 1);
		printf("\n");
	}
	for (i = s1 + 1; i < (int)sizeof(t); i++)
		if (t[i] != 0xCC) {
			printf("A overrun libxmp_read_title wrote at offset %d (s=%d)\n", i, s);
			break;
		}
	hio_close(h);
	if (fp)
		fclose(fp);
}

static void case_pw_read_title(void)
{
	int s = vrng_range(0, 30), i, isnull = vrng_chance(15);
	unsigned char b[40], t[64];
	for (i = 0; i < 32; i++)
		b[i] = rnd_byte();
	memset(t, 0xCC, sizeof(t));
	pw_read_title(isnull ? NULL : b, (char *)t, s);
	printf("Q pt %d ", s);
	if (isnull)
		printf("null");
	else
		put_hex(stdout, b, 32);
	printf("\nA pt ");
	put_hex(stdout, t, isnull ? 1 : (s > 20 ? 20 : s) + 1);
	printf("\n");
	if (t[isnull ? 1 : (s > 20 ? 20 : s) + 1] != 0xCC)
		printf("A overrun pw_read_title\n");
}

/* ------------------------------------------------------- synthetic loaders */

#define MAXL 8

struct spec {
	char name[XMP_NAME_SIZE + 40];
	int mod, rem, rcfail, tmode, toff, tlen;
	unsigned char traw[XMP_NAME_SIZE];
	int trawlen;
	int lrc, lmode, sane;
};

static struct spec specs[MAXL];
static int nspecs;
static int loaded_by = -1;

/* link-level spies (-Wl,--wrap): what the two post-load stages of load_module really returned (-99: not called).
 * The values are handed to the model, which has to predict load_module's return code from them. */
int __real_libxmp_prepare_scan(struct context_data *);
int __real_libxmp_scan_sequences(struct context_data *);
static int spy_prep = -99, spy_scan = -99;

int __wrap_libxmp_prepare_scan(struct context_data *ctx)
{
	spy_prep = __real_libxmp_prepare_scan(ctx);
	return spy_prep;
}

int __wrap_libxmp_scan_sequences(struct context_data *ctx)
{
	spy_scan = __real_libxmp_scan_sequences(ctx);
	return spy_scan;
}

static int synth_test(int i, HIO_HANDLE *f, char *t, const int start)
{
	struct spec *sp = &specs[i];
	uint8 b;
	int b0 = 256, hit, rc;

	if (hio_read(&b, 1, 1, f) == 1)
		b0 = b;
	hit = (b0 % sp->mod) == sp->rem;
	rc = hit ? 0 : sp->rcfail;
	if (t != NULL) {
		if (sp->tmode == 1 || (sp->tmode == 3 && hit)) {
			long size = hio_size(f);
			hio_seek(f, sp->toff < size ? sp->toff : size, SEEK_SET);
			libxmp_read_title(f, t, sp->tlen);
		} else if (sp->tmode == 2) {
			memcpy(t, sp->traw, sp->trawlen);
			t[sp->trawlen] = 0;
		}
	}
	return rc;
}

static int synth_load(int i, struct module_data *m, HIO_HANDLE *f, const int start)
{
	struct spec *sp = &specs[i];
	struct xmp_module *mod = &m->mod;
	unsigned char raw[XMP_NAME_SIZE + 1];
	long size = hio_size(f);
	int n, got;

	loaded_by = i;
	if (sp->lrc < 0)
		return sp->lrc;

	n = sp->tlen < 63 ? sp->tlen : 63;
	if (n < 0)
		n = 0;
	hio_seek(f, sp->toff < size ? sp->toff : size, SEEK_SET);
	got = hio_read(raw, 1, n, f);
	raw[got] = 0;
	if (sp->lmode == 0)
		strncpy(mod->name, (char *)raw, n);
	else if (sp->lmode == 1)
		libxmp_copy_adjust(mod->name, raw, got);

	mod->len = 1;
	mod->pat = 1;
	mod->ins = 1;
	mod->smp = 1;
	mod->xxo[0] = 0;
	/* sane >= 2: a loadable module whose order list is what the post-load stages choke on or have to cope with */
	if (sp->sane >= 2)
		m->quirk |= QUIRK_MARKER;	/* 0xfe / 0xff are markers, as in S3M and IT */
	switch (sp->sane) {
	case 2:		/* end marker first, the pattern after it */
		mod->len = 2;
		mod->xxo[0] = 0xff;
		mod->xxo[1] = 0;
		break;
	case 3:		/* nothing but markers */
		mod->len = 2;
		mod->xxo[0] = 0xff;
		mod->xxo[1] = 0xfe;
		break;
	case 4:		/* skip marker first */
		mod->len = 2;
		mod->xxo[0] = 0xfe;
		mod->xxo[1] = 0;
		break;
	case 5:		/* no orders at all */
		mod->len = 0;
		break;
	case 6:		/* an order that names no pattern, then the end marker, then the pattern */
		mod->len = 3;
		mod->xxo[0] = 7;
		mod->xxo[1] = 0xff;
		mod->xxo[2] = 0;
		break;
	}
	if (!sp->sane) {
		mod->chn = XMP_MAX_CHANNELS + 1;
		return 0;
	}
	mod->chn = 1;
	mod->trk = 1;
	if (libxmp_init_pattern(mod) < 0)
		return -1;
	if (libxmp_alloc_pattern_tracks(mod, 0, 4) < 0)
		return -1;
	if (libxmp_init_instrument(m) < 0)
		return -1;
	mod->xxi[0].nsm = 1;
	if (libxmp_alloc_subinstrument(mod, 0, 1) < 0)
		return -1;
	mod->xxi[0].sub[0].vol = 0x40;
	mod->xxi[0].sub[0].pan = 0x80;
	return 0;
}

#define DEF(i) \
	static int st##i(HIO_HANDLE *f, char *t, const int s) { return synth_test(i, f, t, s); } \
	static int sl##i(struct module_data *m, HIO_HANDLE *f, const int s) { return synth_load(i, m, f, s); }
DEF(0) DEF(1) DEF(2) DEF(3) DEF(4) DEF(5) DEF(6) DEF(7)

static struct format_loader synth[MAXL] = {
	{ NULL, st0, sl0 }, { NULL, st1, sl1 }, { NULL, st2, sl2 }, { NULL, st3, sl3 },
	{ NULL, st4, sl4 }, { NULL, st5, sl5 }, { NULL, st6, sl6 }, { NULL, st7, sl7 },
};

/* order-list modes (sane >= 2) only where the observed post-load results are passed to the model (mode `table`) */
static int post_modes;

static void gen_table(int want_pw)
{
	int i, j, pwslot = -1;
	nspecs = vrng_chance(5) ? 0 : vrng_range(1, MAXL);
	if (want_pw && nspecs > 0)
		pwslot = vrng_below(nspecs);
	for (i = 0; i < nspecs; i++) {
		struct spec *sp = &specs[i];
		int nl = vrng_chance(10) ? vrng_range(60, 90) : vrng_range(1, 20);
		for (j = 0; j < nl; j++)
			sp->name[j] = (char)vrng_range(33, 122);
		sp->name[nl] = 0;
		if (i == pwslot)
			strcpy(sp->name, "prowizard");
		sp->mod = vrng_range(1, 6);
		sp->rem = vrng_below(sp->mod + (vrng_chance(30) ? 2 : 0));	/* rem >= mod: never hits */
		sp->rcfail = vrng_chance(85) ? -1 : vrng_chance(50) ? vrng_range(-9, -2) : vrng_range(1, 3);
		sp->tmode = vrng_below(4);
		sp->toff = vrng_range(0, 90);
		sp->tlen = vrng_chance(8) ? vrng_range(-2, -1) : vrng_chance(15) ? vrng_range(60, 80) : vrng_range(0, 40);
		sp->trawlen = vrng_chance(10) ? 63 : vrng_range(0, 40);
		for (j = 0; j < sp->trawlen; j++)
			sp->traw[j] = rnd_title_byte(0);
		sp->lrc = vrng_chance(80) ? 0 : -1;
		sp->lmode = vrng_below(3);
		sp->sane = vrng_chance(10) ? 0 : (post_modes && vrng_chance(35)) ? vrng_range(2, 6) : 1;
		synth[i].name = sp->name;
		vt_set(i, &synth[i]);
	}
	vt_set(nspecs, NULL);
}

static void print_table(void)
{
	int i;
	printf("Q table\n");
	for (i = 0; i < nspecs; i++) {
		struct spec *sp = &specs[i];
		printf("Q L ");
		put_hex(stdout, sp->name, strlen(sp->name));
		printf(" %d %d %d %d %d %d ", sp->mod, sp->rem, sp->rcfail, sp->tmode, sp->toff, sp->tlen);
		put_hex(stdout, sp->traw, sp->trawlen);
		printf(" %d %d %d\n", sp->lrc, sp->lmode, sp->sane);
	}
}

/* data pool: files given on the command line */
static char **pool;
static int npool;

static unsigned char *gen_data(long *size)
{
	unsigned char *d;
	long n, i;
	if (npool > 0 && vrng_chance(35)) {
		d = read_file(pool[vrng_below(npool)], &n);
		if (d != NULL && n > 0) {
			*size = n;
			return d;
		}
		free(d);
	}
	n = vrng_chance(10) ? vrng_range(1, 3) : vrng_range(1, 160);
	d = (unsigned char *)malloc(n);
	for (i = 0; i < n; i++)
		d[i] = vrng_chance(15) ? ' ' : rnd_title_byte(1);
	d[0] = (unsigned char)vrng_below(12);
	*size = n;
	return d;
}

static void fill_info(struct xmp_test_info *ti)
{
	int i;
	for (i = 0; i < XMP_NAME_SIZE; i++) {
		ti->name[i] = (char)vrng_range(1, 255);
		ti->type[i] = (char)vrng_range(1, 255);
	}
}

/* the real pw_check's verdict on the data -> `env` line for the model */
static void print_env(const unsigned char *data, long size)
{
	struct xmp_test_info ti;
	const struct pw_format *fmt;
	HIO_HANDLE *h = hio_open_const_mem(data, size);
	unsigned char g[XMP_NAME_SIZE];

	memset(g, 0xDD, sizeof(g));
	printf("Q env ");
	put_hex(stdout, g, XMP_NAME_SIZE);
	memset(g, 0xEE, sizeof(g));
	printf(" ");
	put_hex(stdout, g, 21);
	memset(&ti, 0xEE, sizeof(ti));
	fmt = h ? pw_check(h, &ti) : NULL;
	if (fmt != NULL) {
		printf(" ");
		put_hex(stdout, ti.name, 21);
		printf(" ");
		put_hex(stdout, fmt->name, strlen(fmt->name));
	}
	printf("\n");
	if (h)
		hio_close(h);
}

static void print_info_q(const struct xmp_test_info *ti)
{
	if (ti == NULL) {
		printf("Q info null\n");
		return;
	}
	printf("Q info ");
	put_hex(stdout, ti->name, XMP_NAME_SIZE);
	printf(" ");
	put_hex(stdout, ti->type, XMP_NAME_SIZE);
	printf("\n");
}

static void print_info_a(const struct xmp_test_info *ti)
{
	if (ti == NULL) {
		printf("null null");
		return;
	}
	put_hex(stdout, ti->name, XMP_NAME_SIZE);
	printf(" ");
	put_hex(stdout, ti->type, XMP_NAME_SIZE);
}

static void case_table(void)
{
	struct xmp_test_info ti, *tip;
	struct xmp_module_info mi;
	unsigned char *data;
	long size;
	xmp_context ctx;
	int rc, lrc;

	post_modes = 1;
	gen_table(vrng_chance(40));
	post_modes = 0;
	data = gen_data(&size);
	print_table();
	print_env(data, size);
	fill_info(&ti);
	tip = vrng_chance(12) ? NULL : &ti;
	print_info_q(tip);

	/* the load first: the observed results of libxmp_prepare_scan / libxmp_scan_sequences are inputs of the model */
	ctx = xmp_create_context();
	loaded_by = -1;
	spy_prep = spy_scan = -99;
	lrc = xmp_load_module_from_memory(ctx, data, size);
	printf("Q post %d %d\n", spy_prep, spy_scan);
	printf("Q run ");
	put_hex(stdout, data, size);
	printf("\n");

	rc = xmp_test_module_from_memory(data, size, tip);
	printf("A test %d ", rc);
	print_info_a(tip);
	printf("\n");

	rc = lrc;
	printf("A load %d %d ", rc, loaded_by >= 0);
	if (rc == 0) {
		xmp_get_module_info(ctx, &mi);
		put_hex(stdout, mi.mod->name, XMP_NAME_SIZE);
	} else {
		printf("-");
	}
	printf(" ");
	if (loaded_by >= 0)
		put_hex(stdout, specs[loaded_by].name, strlen(specs[loaded_by].name));
	else
		printf("-");
	printf("\n");
	if (rc == 0)
		xmp_release_module(ctx);
	xmp_free_context(ctx);
	free(data);
}

/* ---------------------------------------------------------------- wrappers */

static int count_fds(void)
{
	DIR *d = opendir("/proc/self/fd");
	int n = 0;
	if (d == NULL)
		return -1;
	while (readdir(d) != NULL)
		n++;
	closedir(d);
	return n;
}

struct cbdata {
	const unsigned char *p;
	long size, pos;
};

static unsigned long cb_read(void *dest, unsigned long len, unsigned long nmemb, void *priv)
{
	struct cbdata *c = (struct cbdata *)priv;
	unsigned long want = len * nmemb, avail = (unsigned long)(c->size - c->pos), n;
	if (len == 0)
		return 0;
	n = want < avail ? want : avail;
	n -= n % len;
	memcpy(dest, c->p + c->pos, n);
	c->pos += n;
	return n / len;
}

static int cb_seek(void *priv, long offset, int whence)
{
	struct cbdata *c = (struct cbdata *)priv;
	long np = whence == SEEK_SET ? offset : whence == SEEK_CUR ? c->pos + offset : c->size + offset;
	if (np < 0 || np > c->size)
		return -1;
	c->pos = np;
	return 0;
}

static long cb_tell(void *priv)
{
	return ((struct cbdata *)priv)->pos;
}

/* libxmp_decrunch's verdict on the file at `path` (hasname: called with a file name or NULL) */
static void print_decr(const char *path, int hasname, const unsigned char *data, long size)
{
	FILE *fp = fopen(path, "rb");
	HIO_HANDLE *h = fp ? hio_open_file2(fp) : NULL;
	char *temp = NULL;
	long n;
	unsigned char *buf;

	if (h == NULL) {
		printf("np");
		return;
	}
	if (libxmp_decrunch(h, hasname ? path : NULL, &temp) < 0) {
		printf("fail");
	} else {
		n = hio_size(h);
		buf = (unsigned char *)malloc(n > 0 ? n : 1);
		hio_seek(h, 0, SEEK_SET);
		n = hio_read(buf, 1, n, h);
		if (n == size && memcmp(buf, data, n) == 0) {
			printf("np");
		} else {
			printf("dp:");
			put_hex(stdout, buf, n);
		}
		free(buf);
	}
	hio_close(h);
	if (temp) {
		unlink(temp);
		free(temp);
	}
}

static void case_wrap(const char *scratch)
{
	static const char *kinds[] = { "path", "mem", "file", "cb" };
	struct xmp_test_info ti, *tip;
	struct xmp_callbacks cbs;
	struct cbdata cd;
	unsigned char *data;
	long size, msize = 0;
	char path[1024], dirpath[1024];
	const char *arg = "ok";
	int kind = vrng_below(4), sub = vrng_below(10), rc = 0, fds0, fds1, fds2, pipefd[2] = { -1, -1 };
	FILE *fp = NULL;
	xmp_context ctx;
	char argbuf[32];

	gen_table(0);
	data = gen_data(&size);
	snprintf(path, sizeof(path), "%s/c11w-%d.bin", scratch, (int)getpid());
	snprintf(dirpath, sizeof(dirpath), "%s", scratch);
	fp = fopen(path, "wb");
	fwrite(data, 1, size, fp);
	fclose(fp);
	fp = NULL;

	memset(&cbs, 0, sizeof(cbs));
	cbs.read_func = cb_read;
	cbs.seek_func = cb_seek;
	cbs.tell_func = cb_tell;
	cd.p = data;
	cd.size = size;
	cd.pos = 0;

	switch (kind) {
	case 0:
		arg = sub == 0 ? "none" : sub == 1 ? "dir" : "ok";
		break;
	case 1:
		msize = sub == 0 ? 0 : sub == 1 ? -vrng_range(1, 9) : sub == 2 ? vrng_range(1, (int)size) : size;
		snprintf(argbuf, sizeof(argbuf), "%ld", msize);
		arg = argbuf;
		break;
	case 2:
		arg = sub == 0 ? "nosize" : "ok";
		break;
	case 3:
		arg = sub <= 1 ? "bad" : "ok";
		if (sub == 0)
			cbs.read_func = NULL;
		break;
	}

	print_table();
	print_env(data, size);
	fill_info(&ti);
	tip = vrng_chance(12) ? NULL : &ti;
	print_info_q(tip);
	printf("Q wrap %s %s ", kinds[kind], arg);
	if (kind == 0 || kind == 2)
		print_decr(path, kind == 0, data, size);
	else
		printf("np");
	printf(" ");
	put_hex(stdout, data, size);
	printf("\n");

	fflush(stdout);
	fds0 = count_fds();
	/* ---- test ---- */
	switch (kind) {
	case 0:
		rc = xmp_test_module(sub == 0 ? "/nonexistent/c11/x.mod" : sub == 1 ? dirpath : path, tip);
		break;
	case 1:
		rc = xmp_test_module_from_memory(data, msize, tip);
		break;
	case 2:
		if (sub == 0) {
			if (pipe(pipefd) < 0)
				exit(3);
			fp = fdopen(pipefd[0], "rb");
		} else {
			fp = fopen(path, "rb");
		}
		rc = xmp_test_module_from_file(fp, tip);
		break;
	case 3:
		rc = xmp_test_module_from_callbacks(sub == 1 ? NULL : &cd, cbs, tip);
		break;
	}
	printf("A wtest %d ", rc);
	print_info_a(tip);
	if (kind == 2) {
		/* the caller's FILE must still be usable (ASan aborts here if the library closed it) */
		long pos;
		unsigned char c;
		int usable = 1;
		if (sub != 0) {
			usable = fseek(fp, 0, SEEK_SET) == 0 && (pos = ftell(fp)) == 0 && !ferror(fp) &&
				 fread(&c, 1, 1, fp) == 1 && c == data[0];
			rewind(fp);
		} else {
			usable = !ferror(fp) && fileno(fp) == pipefd[0];
		}
		printf(" %d", !usable);
	} else {
		printf(" 0");
	}
	fflush(stdout);
	fds1 = count_fds();
	printf(" %d\n", kind == 0 && sub >= 2 ? (fds1 == fds0) : 0);
	if (fds1 != fds0 + (kind == 2 ? 1 + (sub == 0) : 0))
		printf("A fdleak test %s %s: %d -> %d\n", kinds[kind], arg, fds0, fds1);

	/* ---- load ---- */
	ctx = xmp_create_context();
	loaded_by = -1;
	cd.pos = 0;
	switch (kind) {
	case 0:
		rc = xmp_load_module(ctx, sub == 0 ? "/nonexistent/c11/x.mod" : sub == 1 ? dirpath : path);
		break;
	case 1:
		rc = xmp_load_module_from_memory(ctx, data, msize);
		break;
	case 2:
		rc = xmp_load_module_from_file(ctx, fp, 0);
		break;
	case 3:
		rc = xmp_load_module_from_callbacks(ctx, sub == 1 ? NULL : &cd, cbs);
		break;
	}
	printf("A wload %d ", rc);
	if (rc == -XMP_ERROR_DEPACK || rc == -XMP_ERROR_INVALID || (rc == -XMP_ERROR_SYSTEM && loaded_by < 0))
		printf("-");
	else
		printf("%d", loaded_by >= 0);
	if (kind == 2) {
		int usable = 1;
		if (sub != 0) {
			unsigned char c;
			usable = fseek(fp, 0, SEEK_SET) == 0 && !ferror(fp) && fread(&c, 1, 1, fp) == 1 && c == data[0];
		}
		printf(" %d", !usable);
	} else {
		printf(" 0");
	}
	if (rc == 0)
		xmp_release_module(ctx);
	xmp_free_context(ctx);
	fflush(stdout);
	fds2 = count_fds();
	printf(" %d\n", kind == 0 && sub >= 2 ? (fds2 == fds1) : 0);
	if (fds2 != fds1)
		printf("A fdleak load %s %s: %d -> %d\n", kinds[kind], arg, fds1, fds2);

	if (fp)
		fclose(fp);
	if (pipefd[1] >= 0)
		close(pipefd[1]);
	unlink(path);
	free(data);
}

int main(int argc, char **argv)
{
	int n, i;
	if (argc < 4) {
		fprintf(stderr, "usage: c11_strings strings|table|wrap <seed> <n> [scratch] [files...]\n");
		return 2;
	}
	vrng_seed(strtoull(argv[2], NULL, 10));
	n = atoi(argv[3]);
	if (strcmp(argv[1], "strings") == 0) {
		for (i = 0; i < n; i++) {
			switch (vrng_below(4)) {
			case 0:
				case_copy_adjust();
				break;
			case 1:
				case_adjust_string();
				break;
			case 2:
				case_read_title();
				break;
			default:
				case_pw_read_title();
				break;
			}
		}
		return 0;
	}
	if (argc < 5)
		return 2;
	pool = argv + 5;
	npool = argc - 5;
	for (i = 0; i < n; i++) {
		if (strcmp(argv[1], "table") == 0)
			case_table();
		else
			case_wrap(argv[4]);
	}
	return 0;
}
