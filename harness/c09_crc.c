/* C09 correspondence, part 1: the real CRC routines of libxmp (crc32.o of the sanitized
 * build) on random buffers, start values and chunkings.
 *
 *   c09_crc <seed> <ncases> <maxlen>
 *
 * Output, two lines per case: the case in the driver's input syntax, then `real <hex>`.
 *   crc32 <init8> <hex>     libxmp_crc32_A(buf, n, init)
 *   crc32ni <init8> <hex>   libxmp_crc32_A_no_inv(buf, n, init)
 *   crc16 <init4> <hex>     libxmp_crc16_IBM(buf, n, init)
 *   chunks32 <hex> <hex> …  libxmp_crc32_A chained over the pieces, start 0 (xz/LZX/miniz style)
 *   chunks16 …              same for crc16 (printed as `crc16 0000 <whole>`; real = chained value)
 * The buffer is placed at a random alignment so that the 4-byte unrolled loop is entered with
 * every remainder.
 */
#include "vcommon.h"
#include "common.h"
#include "depackers/crc32.h"

static void fill(unsigned char *b, int n)
{
	int i, mode = vrng_below(4);
	for (i = 0; i < n; i++) {
		switch (mode) {
		case 0: b[i] = (unsigned char)vrng_next(); break;
		case 1: b[i] = 0; break;
		case 2: b[i] = 0xff; break;
		default: b[i] = vrng_chance(90) ? 0 : (unsigned char)vrng_next(); break;
		}
	}
}

int main(int argc, char **argv)
{
	uint64_t seed;
	int n, maxlen, i;
	unsigned char *base;

	if (argc < 4) {
		fprintf(stderr, "usage: c09_crc seed ncases maxlen\n");
		return 3;
	}
	seed = strtoull(argv[1], NULL, 10);
	n = atoi(argv[2]);
	maxlen = atoi(argv[3]);
	vrng_seed(seed);
	base = (unsigned char *)malloc(maxlen + 16);

	for (i = 0; i < n; i++) {
		int kind = vrng_below(5);
		int len = vrng_chance(40) ? (int)vrng_below(12) : (int)vrng_below(maxlen + 1);
		unsigned char *buf = base + vrng_below(8);
		uint32 init32 = vrng_chance(30) ? 0 : vrng_chance(30) ? 0xffffffffu : (uint32)vrng_next();
		uint16 init16 = vrng_chance(40) ? 0 : (uint16)vrng_next();
		fill(buf, len);
		switch (kind) {
		case 0:
			printf("crc32 %08x ", init32); put_hex(stdout, buf, len);
			printf("\nreal %08x\n", libxmp_crc32_A(buf, len, init32));
			break;
		case 1:
			printf("crc32ni %08x ", init32); put_hex(stdout, buf, len);
			printf("\nreal %08x\n", libxmp_crc32_A_no_inv(buf, len, init32));
			break;
		case 2:
			printf("crc16 %04x ", init16); put_hex(stdout, buf, len);
			printf("\nreal %04x\n", libxmp_crc16_IBM(buf, len, init16));
			break;
		case 3: {
			int pos = 0, pieces = 0;
			uint32 c = 0;
			printf("chunks32");
			while (pos < len || pieces == 0) {
				int k = vrng_chance(30) ? (int)vrng_below(6) : (int)vrng_below(len - pos + 1);
				if (pieces > 40 || k > len - pos) k = len - pos;
				fputc(' ', stdout); put_hex(stdout, buf + pos, k);
				c = libxmp_crc32_A(buf + pos, k, c);
				pos += k; pieces++;
			}
			printf("\nreal %08x\n", c);
			break;
		}
		default: {
			int pos = 0, pieces = 0;
			uint16 c = 0;
			while (pos < len || pieces == 0) {
				int k = vrng_chance(30) ? (int)vrng_below(6) : (int)vrng_below(len - pos + 1);
				if (pieces > 40 || k > len - pos) k = len - pos;
				c = libxmp_crc16_IBM(buf + pos, k, c);
				pos += k; pieces++;
			}
			printf("crc16 0000 "); put_hex(stdout, buf, len);
			printf("\nreal %04x\n", c);
			break;
		}
		}
	}
	free(base);
	return 0;
}
