/* C03 direct oracle: load corpus files and structure-aware mutants through the
 * real library and dump every successfully loaded module canonically
 * (c03_dump.h); the Lean driver evaluates the decidable predicate WF on the dump.
 *
 *   c03_wf run <seed> <nmut> <tmpdir> <file>...      all variants of the files
 *   c03_wf one <file> <mutseed> <smpctl> <via 0 mem|1 path|2 FILE|3 callbacks> <tmpdir> [<otherfile>]   one variant (replay)
 *   c03_wf emit <file> <mutseed> [<otherfile>]       print the variant's bytes as hex
 *   c03_wf hdr <mod|s3m|xm|it> <tmpdir> <file>...    each file once through that ONE format loader (header tie)
 *   c03_wf mt <iters> <maxpairs> <file>...           pairs of modules loaded concurrently in two threads, each load
 *                                                    compared with the dump of the module loaded alone
 *
 * Every variant is a deterministic function of (file bytes, other file bytes, mutseed);
 * mutseed 0 is the intact file.  Output per successful load:
 *   begin wf file=<path> mutseed=<n> smpctl=<0|1> via=<mem|path> other=<path|-> what=<load|mode:k|rescan>
 *   <dump lines>            (for what != load only the lines that can change: mod, seq, ctl)
 *   end
 * and one line `load rc=<rc> …` per attempt (for the statistics).  Every load that passes the sanity gate
 * is preceded by
 *   begin rawload file=… what=raw rc=<rc of the load>
 *   <raw dump: the module as the format loader left it, before load_module modifies anything>
 *   cv <0|1>, scan <ep> <chain> <time> <n> <orders marked>*   (the spied scan_module calls)
 *   end
 */
#include <unistd.h>
#include <sys/stat.h>
#include "xmp.h"
#include "common.h"

/* ---- the raw module of a real load -------------------------------------- */
/* src/load.c and src/scan.c are compiled into this unit (the archive members are then not
 * pulled).  The calls of libxmp_adjust_string inside load_module are redirected to a spy: the
 * first one (`mod->name`) comes right after the sanity gate, before anything is modified, so
 * the spy sees the module exactly as the format loader left it (the RAW module the Lean
 * predicate LoaderOblig and the model `finish` are about).  The static scan_module is spied
 * as in c03_inject.c, so the model can be run on the raw dump and compared with the result. */
static int c03_spy_scan_module(struct context_data *ctx, int ep, int chain);
#define scan_module(a, b, c) C03_SM_##a, b, c)
#define C03_SM_ctx c03_spy_scan_module(ctx
#define C03_SM_struct c03_real_scan_module(struct
#include "scan.c"
#undef scan_module

/* `format_loaders` as load.c sees it: normally the library's table; the `hdr` mode narrows it to
 * one loader so that a header the loader refuses is not picked up by another format's test. */
#include "format.h"
#include "loaders/loader.h"
static const struct format_loader *const *c03_format_loaders = format_loaders;
static char *c03_spy_adjust(char *s);
#define libxmp_adjust_string(s) c03_spy_adjust(s)
#define format_loaders c03_format_loaders
#include "load.c"
#undef format_loaders
#undef libxmp_adjust_string

#include "c03_dump.h"

static struct context_data *raw_ctx;	/* context of the load in progress */
static FILE *raw_f;			/* memory stream: raw dump + scan lines */
static char *raw_buf;
static size_t raw_len;
static int raw_taken, raw_scans;

static char *c03_spy_adjust(char *s)
{
	if (raw_ctx != NULL && raw_f != NULL && !raw_taken && s == raw_ctx->m.mod.name) {
		raw_taken = 1;
		c03_dump_ex(raw_f, raw_ctx, NULL, 1);
	}
	return libxmp_adjust_string(s);
}

static int c03_spy_scan_module(struct context_data *ctx, int ep, int chain)
{
	unsigned char before[XMP_MAX_MOD_LENGTH];
	int t, i, n = 0;

	if (ctx != raw_ctx || raw_f == NULL || !raw_taken)
		return c03_real_scan_module(ctx, ep, chain);
	if (raw_scans++ == 0) {
		/* the condition under which libxmp_scan_sequences compares CIA and VBlank timing */
		fprintf(raw_f, "cv %d\n", ctx->m.compare_vblank && !(ctx->p.flags & XMP_FLAGS_VBLANK));
	}
	memcpy(before, ctx->p.sequence_control, XMP_MAX_MOD_LENGTH);
	t = c03_real_scan_module(ctx, ep, chain);
	for (i = 0; i < XMP_MAX_MOD_LENGTH; i++)
		n += before[i] != ctx->p.sequence_control[i];
	fprintf(raw_f, "scan %d %d %d %d", ep, chain, t, n);
	for (i = 0; i < XMP_MAX_MOD_LENGTH; i++) {
		if (before[i] != ctx->p.sequence_control[i])
			fprintf(raw_f, " %d", i);
	}
	fputc('\n', raw_f);
	return t;
}

static void raw_begin(struct context_data *ctx)
{
	raw_ctx = ctx;
	raw_taken = raw_scans = 0;
	raw_buf = NULL;
	raw_len = 0;
	raw_f = open_memstream(&raw_buf, &raw_len);
}

/* ends the observation; returns the text (to be freed) or NULL when the gate was not passed */
static char *raw_end(void)
{
	char *r = NULL;
	if (raw_f != NULL) {
		fclose(raw_f);
		if (raw_taken)
			r = raw_buf;
		else
			free(raw_buf);
	}
	raw_f = NULL;
	raw_buf = NULL;
	raw_ctx = NULL;
	return r;
}

static const char *tmpdir = "/tmp";

/* ---- mutation --------------------------------------------------------- */

/* Format-aware mutants (deterministic, mutseed 1..NSPECIAL): fields that no random
 * mutation finds reliably.  Return NULL when the file is not of that format.
 *   1  FAR: move the last pattern size one slot up, leaving an unreferenced zero-size pattern
 *   2  AMF (DSMI >= 1.4): row count of the first order = 0
 *   3  AMF: row count of the last order = 0
 *   4..8  the tail cut off (1/8, 1/4, 1/2 of the file, 16 bytes, 1000 bytes): sample data with
 *         loops reaching beyond the cut
 *   9  MOD family: restart byte = song length
 *   10 MDL: the name of the first sample (IS chunk) filled with 32 non-blank characters
 *   11 Galaxy 5 (RIFF AM, "AI  INST" chunks): the sample count of the first instrument that has one = 3 */
#define NSPECIAL 11
static unsigned char *special_mutant(const unsigned char *src, long n, int which, long *outn, char *kind)
{
	unsigned char *b;
	if (which == 1) {
		long o, ps;
		int last = -1, i, songlen;
		if (n < 98 || memcmp(src, "FAR\xfe", 4))
			return NULL;
		o = 98 + (src[96] | (src[97] << 8));
		ps = o + 259;
		if (ps + 512 > n)
			return NULL;
		for (i = 0; i < 256; i++)
			if (src[ps + 2 * i] | src[ps + 2 * i + 1]) last = i;
		if (last < 1 || last >= 255)
			return NULL;
		b = (unsigned char *)malloc(n);
		memcpy(b, src, n);
		b[ps + 2 * (last + 1)] = src[ps + 2 * last];
		b[ps + 2 * (last + 1) + 1] = src[ps + 2 * last + 1];
		b[ps + 2 * last] = b[ps + 2 * last + 1] = 0;
		songlen = src[o + 257];
		for (i = 0; i < songlen; i++)
			if (b[o + i] == last) b[o + i] = (unsigned char)(last + 1);
		strcpy(kind, "far-hole");
		*outn = n;
		return b;
	}
	if (which >= 4 && which <= 8) {
		long cut = which == 4 ? n / 8 : which == 5 ? n / 4 : which == 6 ? n / 2 : which == 7 ? 16 : 1000;
		if (n < 64 || cut < 1 || cut * 2 > n + 1)
			return NULL;
		b = (unsigned char *)malloc(n);
		memcpy(b, src, n);
		sprintf(kind, "tailcut%d", which);
		*outn = n - cut;
		return b;
	}
	if (which == 9) {
		static const char *const ids[] = { "M.K.", "M!K!", "M&K!", "FLT4", "4CHN", "6CHN", "8CHN", "CD81", "OCTA" };
		size_t k;
		int ok = 0;
		if (n < 1084)
			return NULL;
		for (k = 0; k < sizeof(ids) / sizeof(ids[0]); k++)
			ok |= !memcmp(src + 1080, ids[k], 4);
		if (!ok)
			return NULL;
		b = (unsigned char *)malloc(n);
		memcpy(b, src, n);
		b[951] = b[950];
		strcpy(kind, "mod-restart");
		*outn = n;
		return b;
	}
	if (which == 11) {
		long o;
		if (n < 400 || memcmp(src, "RIFF", 4) || memcmp(src + 8, "AM  ", 4))
			return NULL;
		for (o = 12; o + 12 + 326 <= n; o++) {
			if (!memcmp(src + o, "AI  INST", 8)) {
				long at = o + 12 + 324;		/* chunk size, then 324 bytes of header / maps / envelopes */
				if ((src[at] | (src[at + 1] << 8)) != 1)
					continue;
				b = (unsigned char *)malloc(n);
				memcpy(b, src, n);
				b[at] = 3;
				strcpy(kind, "gal5-nsm3");
				*outn = n;
				return b;
			}
		}
		return NULL;
	}
	if (which == 10) {
		long o = 5;
		if (n < 16 || memcmp(src, "DMDL", 4))
			return NULL;
		while (o + 6 <= n) {
			unsigned long sz = src[o + 2] | (src[o + 3] << 8) | (src[o + 4] << 16) | ((unsigned long)src[o + 5] << 24);
			if (src[o] == 'I' && src[o + 1] == 'S') {
				long k, at = o + 6 + 1 + 1;	/* count byte, sample number byte */
				if (sz < 34 || at + 32 > n || src[o + 6] == 0)
					return NULL;
				b = (unsigned char *)malloc(n);
				memcpy(b, src, n);
				for (k = 0; k < 32; k++)
					b[at + k] = (unsigned char)('A' + k % 26);
				strcpy(kind, "mdl-name32");
				*outn = n;
				return b;
			}
			if (sz > (unsigned long)(n - o - 6))
				return NULL;
			o += 6 + (long)sz;
		}
		return NULL;
	}
	if (which == 2 || which == 3) {
		int ver, chn, len;
		long off;
		if (n < 80 || memcmp(src, "AMF", 3) || src[3] < 0x0e)
			return NULL;
		ver = src[3];
		len = src[37];
		chn = src[40];
		off = 41 + 32 + 2;
		if (which == 3)
			off += (long)(len - 1) * (2 + 2 * chn);
		if (len < 2 || off + 2 > n)
			return NULL;
		(void)ver;
		b = (unsigned char *)malloc(n);
		memcpy(b, src, n);
		b[off] = b[off + 1] = 0;
		strcpy(kind, "amf-rows0");
		*outn = n;
		return b;
	}
	return NULL;
}

/* ---- name-width sweep ---------------------------------------------------
 * Format-independent: the names the INTACT file loads with (title, first two and last instrument name, first
 * sample name) are located in the file bytes; every occurrence found is then a name field of that format.  Each
 * field is filled completely with non-NUL characters, at and beyond the usual widths:
 *   fixed-width variants  W bytes from the start of the field, W in nf_width[]
 *   length-prefixed       when the byte before the field looks like a length byte (>= the visible length, <= 64):
 *                         the string is replaced by P characters and the prefix set to P, P in nf_plen[]
 * mutseed = NF_BASE + name * 16 + variant; a deterministic function of the file bytes. */
#define NF_BASE 0x4E46000000000000ULL
#define NF_NAMES 5
static const int nf_width[] = { 20, 22, 26, 28, 30, 32, 40, 64 };
static const int nf_plen[] = { 31, 32, 33, 40 };
#define NF_NW ((int)(sizeof(nf_width) / sizeof(nf_width[0])))
#define NF_NP ((int)(sizeof(nf_plen) / sizeof(nf_plen[0])))
#define NF_VARIANTS (NF_NW + NF_NP)

static struct { const unsigned char *src; long n; int cnt; long off[NF_NAMES]; int len[NF_NAMES]; } nf_cache;

static void nf_add(const unsigned char *src, long n, const char *name)
{
	size_t l = strlen(name);
	long o;
	int k;
	if (l < 3 || l > 64 || nf_cache.cnt >= NF_NAMES)
		return;
	for (o = 0; o + (long)l <= n; o++) {
		if (src[o] == (unsigned char)name[0] && !memcmp(src + o, name, l))
			break;
	}
	if (o + (long)l > n)
		return;
	for (k = 0; k < nf_cache.cnt; k++)
		if (nf_cache.off[k] == o) return;
	nf_cache.off[nf_cache.cnt] = o;
	nf_cache.len[nf_cache.cnt] = (int)l;
	nf_cache.cnt++;
}

/* the name fields of the file (found by loading it once, from memory) */
static int nf_fields(const unsigned char *src, long n)
{
	xmp_context opaque;
	struct xmp_module *mod;
	if (nf_cache.src == src && nf_cache.n == n)
		return nf_cache.cnt;
	nf_cache.src = src; nf_cache.n = n; nf_cache.cnt = 0;
	opaque = xmp_create_context();
	if (xmp_load_module_from_memory(opaque, src, n) == 0) {
		mod = &((struct context_data *)opaque)->m.mod;
		nf_add(src, n, mod->name);
		if (mod->ins > 0 && mod->xxi) {
			char tmp[33];
			int i, got = 0;
			for (i = 0; i < mod->ins && got < 2; i++) {
				memcpy(tmp, mod->xxi[i].name, 32); tmp[32] = 0;
				if (strlen(tmp) >= 3) { nf_add(src, n, tmp); got++; }
			}
			memcpy(tmp, mod->xxi[mod->ins - 1].name, 32); tmp[32] = 0;
			nf_add(src, n, tmp);
		}
		if (mod->smp > 0 && mod->xxs) {
			char tmp[33];
			int i;
			for (i = 0; i < mod->smp; i++) {
				memcpy(tmp, mod->xxs[i].name, 32); tmp[32] = 0;
				if (strlen(tmp) >= 3) { nf_add(src, n, tmp); break; }
			}
		}
		xmp_release_module(opaque);
	}
	xmp_free_context(opaque);
	return nf_cache.cnt;
}

static unsigned char *namefill_mutant(const unsigned char *src, long n, uint64_t idx, long *outn, char *kind)
{
	int name = (int)(idx / 16), var = (int)(idx % 16), k;
	long off;
	unsigned char *b;
	if (name >= nf_fields(src, n) || var >= NF_VARIANTS)
		return NULL;
	off = nf_cache.off[name];
	if (var < NF_NW) {
		int w = nf_width[var];
		if (off + w > n)
			return NULL;
		b = (unsigned char *)malloc(n);
		memcpy(b, src, n);
		for (k = 0; k < w; k++)
			b[off + k] = (unsigned char)('A' + k % 26);
		sprintf(kind, "namefill-w%d", w);
		*outn = n;
		return b;
	} else {
		int p = nf_plen[var - NF_NW], old;
		if (off < 1)
			return NULL;
		old = src[off - 1];
		if (old < nf_cache.len[name] || old > 64 || off + old > n)
			return NULL;
		b = (unsigned char *)malloc(n + 64);
		memcpy(b, src, off);
		b[off - 1] = (unsigned char)p;
		for (k = 0; k < p; k++)
			b[off + k] = (unsigned char)('A' + k % 26);
		memcpy(b + off + p, src + off + old, n - off - old);
		sprintf(kind, "namefill-p%d", p);
		*outn = n - old + p;
		return b;
	}
}

static unsigned char *mutate(const unsigned char *src, long n, const unsigned char *oth, long on,
			     uint64_t mutseed, long *outn, char *kind)
{
	unsigned char *b;
	long m = n, i;
	int k, what;

	if (mutseed == 0) {
		b = (unsigned char *)malloc(n > 0 ? n : 1);
		memcpy(b, src, n);
		*outn = n;
		strcpy(kind, "intact");
		return b;
	}
	if (mutseed >= NF_BASE && mutseed < NF_BASE + 16 * NF_NAMES) {
		b = namefill_mutant(src, n, mutseed - NF_BASE, outn, kind);
		if (b == NULL) {
			b = (unsigned char *)malloc(n > 0 ? n : 1);
			memcpy(b, src, n);
			*outn = n;
			strcpy(kind, "intact");
		}
		return b;
	}
	if (mutseed <= NSPECIAL) {
		b = special_mutant(src, n, (int)mutseed, outn, kind);
		if (b == NULL) {		/* not applicable: the intact file */
			b = (unsigned char *)malloc(n > 0 ? n : 1);
			memcpy(b, src, n);
			*outn = n;
			strcpy(kind, "intact");
		}
		return b;
	}
	vrng_seed(mutseed);
	b = (unsigned char *)malloc(n + 65536 + 16);
	memcpy(b, src, n);
	what = (int)vrng_below(100);
	if (what < 30) {
		/* header-field inflation: overwrite 1, 2 or 4 bytes in the header area */
		int cnt = vrng_range(1, 3);
		strcpy(kind, "inflate");
		for (k = 0; k < cnt; k++) {
			long lim = n < 1536 ? n : 1536;
			long pos = lim > 0 ? (long)vrng_below((uint32_t)lim) : 0;
			int w = 1 << vrng_below(3);
			static const unsigned char pats[][4] = {
				{0xff, 0xff, 0xff, 0xff}, {0x7f, 0xff, 0xff, 0xff}, {0xff, 0xff, 0xff, 0x7f},
				{0, 0, 0, 0}, {0x80, 0, 0, 0}, {0, 0, 0, 0x80}, {1, 0, 0, 0}, {0xfe, 0xff, 0, 0},
				{0x40, 0, 0, 0}, {0x00, 0x01, 0, 0}, {0x01, 0x01, 0, 0},
			};
			int p = (int)vrng_below(sizeof(pats) / 4);
			for (i = 0; i < w && pos + i < n; i++)
				b[pos + i] = pats[p][i];
		}
	} else if (what < 55) {
		/* bit flips, biased towards the header */
		int cnt = vrng_range(1, 8);
		strcpy(kind, "bitflip");
		for (k = 0; k < cnt && n > 0; k++) {
			long lim = (vrng_chance(70) && n > 2048) ? 2048 : n;
			long pos = (long)vrng_below((uint32_t)lim);
			b[pos] ^= (unsigned char)(1u << vrng_below(8));
		}
	} else if (what < 75) {
		/* truncation */
		strcpy(kind, "truncate");
		if (n > 1) {
			if (vrng_chance(50))
				m = 1 + (long)vrng_below((uint32_t)(n - 1));
			else
				m = n - 1 - (long)vrng_below((uint32_t)(n > 4096 ? 4096 : n - 1));
			if (m < 1) m = 1;
		}
	} else if (what < 90) {
		/* splice a chunk of the other file (or of this file) over / into this one */
		const unsigned char *from = (on > 0 && vrng_chance(60)) ? oth : src;
		long fn = (from == oth) ? on : n;
		strcpy(kind, "splice");
		if (fn > 0 && n > 0) {
			long len = 1 + (long)vrng_below((uint32_t)(fn > 65536 ? 65536 : fn));
			long so = (long)vrng_below((uint32_t)(fn - len + 1));
			long dn = (long)vrng_below((uint32_t)n);
			if (vrng_chance(50)) {
				/* overwrite */
				for (i = 0; i < len && dn + i < n; i++)
					b[dn + i] = from[so + i];
			} else {
				/* insert */
				memmove(b + dn + len, b + dn, n - dn);
				memcpy(b + dn, from + so, len);
				m = n + len;
			}
		}
	} else {
		/* random bytes in a window + truncation of the tail */
		long lim = n < 4096 ? n : 4096;
		strcpy(kind, "noise");
		if (lim > 0) {
			long pos = (long)vrng_below((uint32_t)lim);
			long len = 1 + (long)vrng_below(16);
			for (i = 0; i < len && pos + i < n; i++)
				b[pos + i] = (unsigned char)vrng_below(256);
		}
	}
	*outn = m;
	return b;
}

/* ---- one variant ------------------------------------------------------ */

static const char *const via_name[] = { "mem", "path", "file", "cb" };

struct cbmem { const unsigned char *b; long n, pos; };
static unsigned long cb_read(void *dest, unsigned long len, unsigned long nmemb, void *priv)
{
	struct cbmem *c = (struct cbmem *)priv;
	unsigned long want = len * nmemb, can = (unsigned long)(c->n - c->pos);
	unsigned long items;
	if (len == 0 || nmemb == 0) return 0;
	if (want > can) want = can;
	items = want / len;
	memcpy(dest, c->b + c->pos, items * len);
	c->pos += (long)(items * len);
	return items;
}
static int cb_seek(void *priv, long offset, int whence)
{
	struct cbmem *c = (struct cbmem *)priv;
	long np = whence == SEEK_SET ? offset : whence == SEEK_CUR ? c->pos + offset : c->n + offset;
	if (np < 0 || np > c->n) return -1;
	c->pos = np;
	return 0;
}
static long cb_tell(void *priv) { return ((struct cbmem *)priv)->pos; }

static char cur_fmt[32] = "?";

/* file names in tags: spaces as %20 (the tag is a space-separated key=value list) */
static const char *enc(const char *path)
{
	static char buf[2][4200];
	static int which;
	char *o = buf[which ^= 1];
	size_t k = 0;
	if (path == NULL)
		return "-";
	for (; *path && k < 4190; path++) {
		if (*path == ' ' || *path == '%') {
			k += (size_t)sprintf(o + k, "%%%02x", (unsigned char)*path);
		} else {
			o[k++] = *path;
		}
	}
	o[k] = 0;
	return o;
}

static void set_fmt(const char *type)
{
	int i;
	for (i = 0; i < 31 && type[i] && type[i] != ' '; i++)
		cur_fmt[i] = ((type[i] >= 'A' && type[i] <= 'Z') || (type[i] >= 'a' && type[i] <= 'z') ||
			      (type[i] >= '0' && type[i] <= '9')) ? type[i] : '_';
	cur_fmt[i] = 0;
	if (i == 0)
		strcpy(cur_fmt, "?");
}

static void tag(const char *file, uint64_t mutseed, int smpctl, int bypath, const char *other, const char *what)
{
	printf("begin wf file=%s mutseed=%llu smpctl=%d via=%s other=%s fmt=%s what=%s\n", enc(file),
	       (unsigned long long)mutseed, smpctl, via_name[bypath & 3], enc(other), cur_fmt, what);
}

static void delta_dump(struct context_data *ctx)
{
	struct module_data *m = &ctx->m;
	struct xmp_module *mod = &m->mod;
	int i;
	printf("mod %d %d %d %d %d %d %d %d %d %d %d %d %u\n", mod->pat, mod->trk, mod->chn, mod->ins,
	       mod->smp, mod->spd, mod->bpm, mod->len, mod->rst, mod->gvl, m->volbase, m->gvol, (unsigned)m->quirk);
	printf("seq %d", m->num_sequences);
	for (i = 0; i < m->num_sequences && i < MAX_SEQUENCES; i++)
		printf(" %d %d", m->seq_data[i].entry_point, m->seq_data[i].duration);
	putchar('\n');
	fputs("ctl ", stdout); put_hex(stdout, ctx->p.sequence_control, XMP_MAX_MOD_LENGTH); putchar('\n');
}

/* returns the load's return code */
static int run_variant(const char *file, const unsigned char *bytes, long n, uint64_t mutseed, int smpctl,
		       int bypath, const char *other, int extra_modes)
{
	xmp_context opaque = xmp_create_context();
	struct context_data *ctx = (struct context_data *)opaque;
	struct xmp_module_info mi;
	char path[4096];
	int rc, k;

	char *rawtxt;

	if (smpctl)
		xmp_set_player(opaque, XMP_PLAYER_SMPCTL, XMP_SMPCTL_SKIP);
	raw_begin(ctx);
	if (bypath == 2) {
		/* FILE* entry point: the bytes through a temporary file */
		FILE *f = tmpfile();
		if (f == NULL) {
			free(raw_end());
			xmp_free_context(opaque);
			return -99;
		}
		fwrite(bytes, 1, n, f);
		rewind(f);
		rc = xmp_load_module_from_file(opaque, f, n);
		fclose(f);
	} else if (bypath == 3) {
		struct cbmem c;
		struct xmp_callbacks cbs;
		c.b = bytes; c.n = n; c.pos = 0;
		cbs.read_func = cb_read; cbs.seek_func = cb_seek; cbs.tell_func = cb_tell; cbs.close_func = NULL;
		rc = xmp_load_module_from_callbacks(opaque, &c, cbs);
	} else if (bypath) {
		if (mutseed == 0) {
			snprintf(path, sizeof(path), "%s", file);
		} else {
			FILE *f;
			const char *base = strrchr(file, '/');
			/* keep the file name: some loaders look at it (and at companion files) */
			snprintf(path, sizeof(path), "%s/%d-%llu", tmpdir, (int)getpid(), (unsigned long long)mutseed);
			mkdir(path, 0700);
			snprintf(path, sizeof(path), "%s/%d-%llu/%s", tmpdir, (int)getpid(),
				 (unsigned long long)mutseed, base ? base + 1 : file);
			f = fopen(path, "wb");
			if (f == NULL) {
				free(raw_end());
				xmp_free_context(opaque);
				return -99;
			}
			fwrite(bytes, 1, n, f);
			fclose(f);
		}
		rc = xmp_load_module(opaque, path);
		if (mutseed != 0) {
			char *s;
			unlink(path);
			s = strrchr(path, '/');
			*s = 0;
			rmdir(path);
		}
	} else {
		rc = xmp_load_module_from_memory(opaque, bytes, n);
	}
	rawtxt = raw_end();
	printf("load rc=%d file=%s mutseed=%llu smpctl=%d via=%s\n", rc, enc(file), (unsigned long long)mutseed, smpctl,
	       via_name[bypath & 3]);
	if (rawtxt != NULL) {
		/* the module as the format loader left it (it passed the gate), the scans, and how the load ended */
		if (rc == 0)
			set_fmt(ctx->m.mod.type);
		else
			strcpy(cur_fmt, "?");
		printf("begin rawload file=%s mutseed=%llu smpctl=%d via=%s other=%s fmt=%s what=raw rc=%d\n", enc(file),
		       (unsigned long long)mutseed, smpctl, via_name[bypath & 3], enc(other), cur_fmt, rc);
		fputs(rawtxt, stdout);
		puts("end");
		free(rawtxt);
	}
	if (rc == 0) {
		/* the public view is the one we dump */
		xmp_get_module_info(opaque, &mi);
		if (mi.mod != &ctx->m.mod || mi.seq_data != ctx->m.seq_data || mi.num_sequences != ctx->m.num_sequences
		    || mi.vol_base != ctx->m.volbase) {
			printf("PUBLICVIEW mismatch\n");
		}
		set_fmt(ctx->m.mod.type);
		tag(file, mutseed, smpctl, bypath, other, "load");
		c03_dump(stdout, ctx, NULL);
		puts("end");
		if (extra_modes) {
			/* the public rescan and the player personalities re-run libxmp_scan_sequences */
			xmp_scan_module(opaque);
			tag(file, mutseed, smpctl, bypath, other, "rescan");
			delta_dump(ctx);
			puts("end");
			if (xmp_start_player(opaque, 8000, 0) == 0) {
				vrng_seed(mutseed * 31 + 7 + (uint64_t)n);
				for (k = 0; k < extra_modes; k++) {
					int mode = vrng_range(XMP_MODE_AUTO, XMP_MODE_ITSMP);
					char what[32];
					if (xmp_set_player(opaque, XMP_PLAYER_MODE, mode) != 0)
						continue;
					snprintf(what, sizeof(what), "mode:%d", mode);
					tag(file, mutseed, smpctl, bypath, other, what);
					delta_dump(ctx);
					puts("end");
				}
				xmp_end_player(opaque);
			}
		}
		xmp_release_module(opaque);
	}
	xmp_free_context(opaque);
	fflush(stdout);
	return rc;
}

/* ---- two contexts loading concurrently -------------------------------- */
#include <pthread.h>

struct mt_job {
	const unsigned char *bytes; long n;
	const char *ref; size_t reflen;
	int iters, mismatches, loads, badrc;
	char first[200];
	pthread_barrier_t *bar;
};

static char *mt_dump(const unsigned char *bytes, long n, size_t *len, int *rc, int *nseq)
{
	xmp_context opaque = xmp_create_context();
	struct context_data *ctx = (struct context_data *)opaque;
	char *buf = NULL;
	*len = 0;
	*rc = xmp_load_module_from_memory(opaque, bytes, n);
	if (*rc == 0) {
		FILE *o = open_memstream(&buf, len);
		c03_dump(o, ctx, NULL);
		fclose(o);
		if (nseq) *nseq = ctx->m.num_sequences;
		xmp_release_module(opaque);
	}
	xmp_free_context(opaque);
	return buf;
}

static void *mt_thread(void *arg)
{
	struct mt_job *j = (struct mt_job *)arg;
	int k;
	for (k = 0; k < j->iters; k++) {
		size_t len;
		int rc;
		char *d;
		pthread_barrier_wait(j->bar);
		d = mt_dump(j->bytes, j->n, &len, &rc, NULL);
		j->loads++;
		if (rc != 0) {
			j->badrc++;
		} else if (len != j->reflen || memcmp(d, j->ref, len)) {
			if (j->mismatches++ == 0) {
				size_t a = 0, b;
				while (a < len && a < j->reflen && d[a] == j->ref[a]) a++;
				while (a > 0 && d[a - 1] != '\n') a--;
				for (b = 0; b < sizeof(j->first) - 1 && a + b < len && d[a + b] != '\n'; b++)
					j->first[b] = d[a + b];
				j->first[b] = 0;
			}
		}
		free(d);
	}
	return NULL;
}

/* c03_wf mt <iters> <maxpairs> <file>...: every module that loads (those with several sequences first) is loaded
 * again and again while another module is being loaded in a second thread; each concurrent load must produce
 * exactly the dump of the module loaded alone. */
static int mt_main(int argc, char **argv)
{
	int iters = atoi(argv[2]), maxpairs = atoi(argv[3]);
	int nf = argc - 4, i, np = 0, pairs = 0;
	struct { const char *file; unsigned char *b; long n; char *ref; size_t reflen; int nseq; } *c;
	c = calloc(nf > 0 ? nf : 1, sizeof(*c));
	for (i = 0; i < nf; i++) {
		long n;
		int rc, nseq = 0;
		size_t len;
		unsigned char *b = read_file(argv[4 + i], &n);
		char *d;
		if (!b || n <= 0)
			continue;
		d = mt_dump(b, n, &len, &rc, &nseq);
		if (rc != 0) {
			free(b);
			continue;
		}
		c[np].file = argv[4 + i]; c[np].b = b; c[np].n = n; c[np].ref = d; c[np].reflen = len; c[np].nseq = nseq;
		np++;
	}
	/* modules with several sequences first */
	for (i = 0; i < np; i++) {
		int k;
		for (k = i + 1; k < np; k++) {
			if (c[k].nseq > c[i].nseq) {
				typeof(c[0]) t = c[i]; c[i] = c[k]; c[k] = t;
			}
		}
	}
	for (i = 0; i + 1 < np && pairs < maxpairs; i += 2, pairs++) {
		pthread_barrier_t bar;
		pthread_t th[2];
		struct mt_job j[2];
		int k;
		pthread_barrier_init(&bar, NULL, 2);
		for (k = 0; k < 2; k++) {
			memset(&j[k], 0, sizeof(j[k]));
			j[k].bytes = c[i + k].b; j[k].n = c[i + k].n; j[k].ref = c[i + k].ref; j[k].reflen = c[i + k].reflen;
			j[k].iters = iters; j[k].bar = &bar;
			pthread_create(&th[k], NULL, mt_thread, &j[k]);
		}
		for (k = 0; k < 2; k++)
			pthread_join(th[k], NULL);
		pthread_barrier_destroy(&bar);
		for (k = 0; k < 2; k++) {
			printf("mt file=%s other=%s nseq=%d loads=%d badrc=%d mismatch=%d first=[%s]\n", enc(c[i + k].file),
			       enc(c[i + 1 - k].file), c[i + k].nseq, j[k].loads, j[k].badrc, j[k].mismatches, j[k].first);
		}
	}
	printf("mt-done candidates=%d pairs=%d\n", np, pairs);
	return 0;
}

int main(int argc, char **argv)
{
	if (argc >= 5 && !strcmp(argv[1], "mt"))
		return mt_main(argc, argv);
	if (argc >= 4 && !strcmp(argv[1], "emit")) {
		long n, on = 0, m;
		unsigned char *src = read_file(argv[2], &n), *oth = NULL, *b;
		char kind[32];
		if (!src) return 2;
		if (argc > 4 && strcmp(argv[4], "-")) oth = read_file(argv[4], &on);
		b = mutate(src, n, oth, on, strtoull(argv[3], NULL, 10), &m, kind);
		put_hex(stdout, b, m);
		putchar('\n');
		return 0;
	}
	if (argc >= 7 && !strcmp(argv[1], "one")) {
		long n, on = 0, m;
		unsigned char *src = read_file(argv[2], &n), *oth = NULL, *b;
		char kind[32];
		uint64_t ms = strtoull(argv[3], NULL, 10);
		if (!src) return 2;
		tmpdir = argv[6];
		if (argc > 7 && strcmp(argv[7], "-")) oth = read_file(argv[7], &on);
		b = mutate(src, n, oth, on, ms, &m, kind);
		run_variant(argv[2], b, m, ms, atoi(argv[4]), atoi(argv[5]), argc > 7 ? argv[7] : NULL, 3);
		return 0;
	}
	if (argc >= 5 && !strcmp(argv[1], "hdr")) {
		/* c03_wf hdr <mod|s3m|xm|it> <tmpdir> <file>...: each file once, from memory, through ONE loader */
		extern const struct format_loader libxmp_loader_mod, libxmp_loader_s3m, libxmp_loader_xm, libxmp_loader_it;
		static const struct format_loader *one[2];
		int fi;
		one[0] = !strcmp(argv[2], "mod") ? &libxmp_loader_mod : !strcmp(argv[2], "s3m") ? &libxmp_loader_s3m :
			 !strcmp(argv[2], "xm") ? &libxmp_loader_xm : &libxmp_loader_it;
		one[1] = NULL;
		c03_format_loaders = one;
		tmpdir = argv[3];
		for (fi = 4; fi < argc; fi++) {
			long n;
			unsigned char *src = read_file(argv[fi], &n);
			if (!src || n <= 0) {
				printf("skip %s\n", argv[fi]);
				continue;
			}
			run_variant(argv[fi], src, n, 0, 0, 0, NULL, 0);
			free(src);
		}
		return 0;
	}
	if (argc >= 6 && !strcmp(argv[1], "run")) {
		uint64_t seed = strtoull(argv[2], NULL, 10);
		int nmut = atoi(argv[3]);
		int nfiles = argc - 5, fi, k;
		tmpdir = argv[4];
		for (fi = 0; fi < nfiles; fi++) {
			const char *file = argv[5 + fi];
			const char *other = argv[5 + (fi * 7 + 3) % nfiles];
			long n, on = 0;
			unsigned char *src = read_file(file, &n), *oth;
			int rc_mem, rc_path = -1, archive;
			if (!src || n <= 0) {
				printf("skip %s\n", file);
				continue;
			}
			oth = read_file(other, &on);
			if (!oth) on = 0;
			/* intact: memory (both sample-control settings) and by path */
			rc_mem = run_variant(file, src, n, 0, 0, 0, NULL, 2);
			run_variant(file, src, n, 0, 1, 0, NULL, 0);
			rc_path = run_variant(file, src, n, 0, 0, 1, NULL, rc_mem == 0 ? 0 : 2);
			archive = (rc_mem != 0 && rc_path == 0);
			if (archive)
				run_variant(file, src, n, 0, 1, 1, NULL, 0);
			/* the two other entry points */
			run_variant(file, src, n, 0, (int)(seed & 1), 2, NULL, 0);
			run_variant(file, src, n, 0, (int)(~seed & 1), 3, NULL, 0);
			for (k = 1; k <= NSPECIAL; k++) {
				long m;
				char kind[32];
				unsigned char *b = special_mutant(src, n, k, &m, kind);
				if (b == NULL)
					continue;
				printf("mutant kind=%s\n", kind);
				run_variant(file, b, m, (uint64_t)k, 0, 0, NULL, 0);
				free(b);
			}
			/* name-width sweep over the name fields of a file that loads */
			if (rc_mem == 0) {
				for (k = 0; k < 16 * NF_NAMES; k++) {
					long m;
					char kind[32];
					unsigned char *b = namefill_mutant(src, n, (uint64_t)k, &m, kind);
					if (b == NULL)
						continue;
					printf("mutant kind=%s\n", kind);
					run_variant(file, b, m, NF_BASE + (uint64_t)k, 0, 0, NULL, 0);
					free(b);
				}
			}
			for (k = 0; k < nmut; k++) {
				uint64_t ms = fnv1a(FNV_INIT ^ seed, file, strlen(file)) * 2654435761ULL + (uint64_t)k * 977 + 1;
				long m;
				char kind[32];
				unsigned char *b;
				int rc;
				if (ms <= NSPECIAL) ms += 1000;
				if (ms >= NF_BASE && ms < NF_BASE + 4096) ms += 4096;
				b = mutate(src, n, oth, on, ms, &m, kind);
				printf("mutant kind=%s\n", kind);
				rc = run_variant(file, b, m, ms, (int)vrng_below(2), archive ? 1 : (k % 3 == 2 ? 2 + (int)vrng_below(2) : 0),
						 other, (k % 2) ? 1 : 0);
				(void)rc;
				free(b);
			}
			free(src);
			free(oth);
		}
		return 0;
	}
	fprintf(stderr, "usage: c03_wf run|one|emit ...\n");
	return 2;
}
