/* C15 correspondence harness: the mixer's sample wrap-around patch.
 *
 * The translation unit includes /repo/src/mixer.c, so the static functions
 * init_sample_wraparound / reset_sample_wraparound are called directly and the
 * real libxmp_mixer_softmixer of this TU (not the archive member) renders.
 *
 * usage: c15_wrap wrap <seed> <ncases>
 *        c15_wrap skel <seed> <nframes> <maxelems> <module>...
 *
 * --- wrap mode: init/reset on random sample arrays and voice parameters -----
 * Samples are allocated by the real libxmp_load_sample (SAMPLE_FLAG_NOLOAD), so
 * the guard sizes are the real ones; the extent of the allocation is asked from
 * ASan (__asan_locate_address), nothing about guard sizes is hard-coded here.
 *   wrap <is16> <stereo> <nearest> <sptrNull> <loop> <sampleLoop> <bidir> <start> <end> <base> <e0,e1,...>
 *        (model input: voice/sample parameters, index of sptr[0] in elements, all
 *         elements of the allocation incl. guards, decimal)
 *   r_init <active> [<start> <end> <first_loop> <16bit> <pnum> <enum> <prologue|-> <epilogue|->] <elems>
 *   r_reset <elems>
 *        (what the real code did; compared with the model driver's output)
 *   o_fail <text>   direct oracle: memory after reset differs from the original
 *
 * --- skel mode: the softmixer's control skeleton on real modules -----------
 * Every mix kernel is intercepted (preprocessor renaming of the kernels'
 * external names); at each kernel call the voice parameters and the sample
 * memory around the loop points are dumped.  The driver replays the sequence
 * through the model's skeleton (init / hotswap / loop change / final reset) and
 * must see the same memory at every kernel call; after every xmp_play_frame
 * all sample allocations must equal their snapshot.
 *   skel_begin <path> interp=<n> rate=<r> fmt=<f>
 *   sample <id> <is16> <stereo> <loop> <base> <elems>     original allocation, before first use
 *   tick
 *   mix <voc> <id> <start> <end> <sampleLoop> <bidir> <nearest> | <window of real memory>
 *   vend <ismodsample> <loop> <sloop> <loopbidir> <sloopbidir> <loopfull> <len> <lps> <lpe> <sus> <sue> <release> <sampleLoop> | <start> <end> <bidir>
 *                                   (before every mix line) what adjust_voice_end reads | the voice's end points
 *   tickend <ndiff>                 number of samples whose allocation differs from the snapshot
 *   skel_end
 */
#include "vcommon.h"
#include <sanitizer/asan_interface.h>

#define KERNELS(X) \
	X(monoout_mono_8bit_nearest) X(monoout_mono_16bit_nearest) X(monoout_stereo_8bit_nearest) X(monoout_stereo_16bit_nearest) \
	X(stereoout_mono_8bit_nearest) X(stereoout_mono_16bit_nearest) X(stereoout_stereo_8bit_nearest) X(stereoout_stereo_16bit_nearest) \
	X(monoout_mono_8bit_linear) X(monoout_mono_16bit_linear) X(monoout_stereo_8bit_linear) X(monoout_stereo_16bit_linear) \
	X(stereoout_mono_8bit_linear) X(stereoout_mono_16bit_linear) X(stereoout_stereo_8bit_linear) X(stereoout_stereo_16bit_linear) \
	X(monoout_mono_8bit_spline) X(monoout_mono_16bit_spline) X(monoout_stereo_8bit_spline) X(monoout_stereo_16bit_spline) \
	X(stereoout_mono_8bit_spline) X(stereoout_mono_16bit_spline) X(stereoout_stereo_8bit_spline) X(stereoout_stereo_16bit_spline) \
	X(monoout_mono_8bit_linear_filter) X(monoout_mono_16bit_linear_filter) X(monoout_stereo_8bit_linear_filter) X(monoout_stereo_16bit_linear_filter) \
	X(stereoout_mono_8bit_linear_filter) X(stereoout_mono_16bit_linear_filter) X(stereoout_stereo_8bit_linear_filter) X(stereoout_stereo_16bit_linear_filter) \
	X(monoout_mono_8bit_spline_filter) X(monoout_mono_16bit_spline_filter) X(monoout_stereo_8bit_spline_filter) X(monoout_stereo_16bit_spline_filter) \
	X(stereoout_mono_8bit_spline_filter) X(stereoout_mono_16bit_spline_filter) X(stereoout_stereo_8bit_spline_filter) X(stereoout_stereo_16bit_spline_filter) \
	X(monoout_mono_a500) X(monoout_mono_a500_filter) X(stereoout_mono_a500) X(stereoout_mono_a500_filter)

/* rename the kernels as seen from mixer.c: its tables then hold the spies */
#define libxmp_mix_monoout_mono_8bit_nearest spy_monoout_mono_8bit_nearest
#define libxmp_mix_monoout_mono_16bit_nearest spy_monoout_mono_16bit_nearest
#define libxmp_mix_monoout_stereo_8bit_nearest spy_monoout_stereo_8bit_nearest
#define libxmp_mix_monoout_stereo_16bit_nearest spy_monoout_stereo_16bit_nearest
#define libxmp_mix_stereoout_mono_8bit_nearest spy_stereoout_mono_8bit_nearest
#define libxmp_mix_stereoout_mono_16bit_nearest spy_stereoout_mono_16bit_nearest
#define libxmp_mix_stereoout_stereo_8bit_nearest spy_stereoout_stereo_8bit_nearest
#define libxmp_mix_stereoout_stereo_16bit_nearest spy_stereoout_stereo_16bit_nearest
#define libxmp_mix_monoout_mono_8bit_linear spy_monoout_mono_8bit_linear
#define libxmp_mix_monoout_mono_16bit_linear spy_monoout_mono_16bit_linear
#define libxmp_mix_monoout_stereo_8bit_linear spy_monoout_stereo_8bit_linear
#define libxmp_mix_monoout_stereo_16bit_linear spy_monoout_stereo_16bit_linear
#define libxmp_mix_stereoout_mono_8bit_linear spy_stereoout_mono_8bit_linear
#define libxmp_mix_stereoout_mono_16bit_linear spy_stereoout_mono_16bit_linear
#define libxmp_mix_stereoout_stereo_8bit_linear spy_stereoout_stereo_8bit_linear
#define libxmp_mix_stereoout_stereo_16bit_linear spy_stereoout_stereo_16bit_linear
#define libxmp_mix_monoout_mono_8bit_spline spy_monoout_mono_8bit_spline
#define libxmp_mix_monoout_mono_16bit_spline spy_monoout_mono_16bit_spline
#define libxmp_mix_monoout_stereo_8bit_spline spy_monoout_stereo_8bit_spline
#define libxmp_mix_monoout_stereo_16bit_spline spy_monoout_stereo_16bit_spline
#define libxmp_mix_stereoout_mono_8bit_spline spy_stereoout_mono_8bit_spline
#define libxmp_mix_stereoout_mono_16bit_spline spy_stereoout_mono_16bit_spline
#define libxmp_mix_stereoout_stereo_8bit_spline spy_stereoout_stereo_8bit_spline
#define libxmp_mix_stereoout_stereo_16bit_spline spy_stereoout_stereo_16bit_spline
#define libxmp_mix_monoout_mono_8bit_linear_filter spy_monoout_mono_8bit_linear_filter
#define libxmp_mix_monoout_mono_16bit_linear_filter spy_monoout_mono_16bit_linear_filter
#define libxmp_mix_monoout_stereo_8bit_linear_filter spy_monoout_stereo_8bit_linear_filter
#define libxmp_mix_monoout_stereo_16bit_linear_filter spy_monoout_stereo_16bit_linear_filter
#define libxmp_mix_stereoout_mono_8bit_linear_filter spy_stereoout_mono_8bit_linear_filter
#define libxmp_mix_stereoout_mono_16bit_linear_filter spy_stereoout_mono_16bit_linear_filter
#define libxmp_mix_stereoout_stereo_8bit_linear_filter spy_stereoout_stereo_8bit_linear_filter
#define libxmp_mix_stereoout_stereo_16bit_linear_filter spy_stereoout_stereo_16bit_linear_filter
#define libxmp_mix_monoout_mono_8bit_spline_filter spy_monoout_mono_8bit_spline_filter
#define libxmp_mix_monoout_mono_16bit_spline_filter spy_monoout_mono_16bit_spline_filter
#define libxmp_mix_monoout_stereo_8bit_spline_filter spy_monoout_stereo_8bit_spline_filter
#define libxmp_mix_monoout_stereo_16bit_spline_filter spy_monoout_stereo_16bit_spline_filter
#define libxmp_mix_stereoout_mono_8bit_spline_filter spy_stereoout_mono_8bit_spline_filter
#define libxmp_mix_stereoout_mono_16bit_spline_filter spy_stereoout_mono_16bit_spline_filter
#define libxmp_mix_stereoout_stereo_8bit_spline_filter spy_stereoout_stereo_8bit_spline_filter
#define libxmp_mix_stereoout_stereo_16bit_spline_filter spy_stereoout_stereo_16bit_spline_filter
#define libxmp_mix_monoout_mono_a500 spy_monoout_mono_a500
#define libxmp_mix_monoout_mono_a500_filter spy_monoout_mono_a500_filter
#define libxmp_mix_stereoout_mono_a500 spy_stereoout_mono_a500
#define libxmp_mix_stereoout_mono_a500_filter spy_stereoout_mono_a500_filter

#define libxmp_mixer_softmixer real_mixer_softmixer
#include "mixer.c"
#undef libxmp_mixer_softmixer

#undef libxmp_mix_monoout_mono_8bit_nearest
#undef libxmp_mix_monoout_mono_16bit_nearest
#undef libxmp_mix_monoout_stereo_8bit_nearest
#undef libxmp_mix_monoout_stereo_16bit_nearest
#undef libxmp_mix_stereoout_mono_8bit_nearest
#undef libxmp_mix_stereoout_mono_16bit_nearest
#undef libxmp_mix_stereoout_stereo_8bit_nearest
#undef libxmp_mix_stereoout_stereo_16bit_nearest
#undef libxmp_mix_monoout_mono_8bit_linear
#undef libxmp_mix_monoout_mono_16bit_linear
#undef libxmp_mix_monoout_stereo_8bit_linear
#undef libxmp_mix_monoout_stereo_16bit_linear
#undef libxmp_mix_stereoout_mono_8bit_linear
#undef libxmp_mix_stereoout_mono_16bit_linear
#undef libxmp_mix_stereoout_stereo_8bit_linear
#undef libxmp_mix_stereoout_stereo_16bit_linear
#undef libxmp_mix_monoout_mono_8bit_spline
#undef libxmp_mix_monoout_mono_16bit_spline
#undef libxmp_mix_monoout_stereo_8bit_spline
#undef libxmp_mix_monoout_stereo_16bit_spline
#undef libxmp_mix_stereoout_mono_8bit_spline
#undef libxmp_mix_stereoout_mono_16bit_spline
#undef libxmp_mix_stereoout_stereo_8bit_spline
#undef libxmp_mix_stereoout_stereo_16bit_spline
#undef libxmp_mix_monoout_mono_8bit_linear_filter
#undef libxmp_mix_monoout_mono_16bit_linear_filter
#undef libxmp_mix_monoout_stereo_8bit_linear_filter
#undef libxmp_mix_monoout_stereo_16bit_linear_filter
#undef libxmp_mix_stereoout_mono_8bit_linear_filter
#undef libxmp_mix_stereoout_mono_16bit_linear_filter
#undef libxmp_mix_stereoout_stereo_8bit_linear_filter
#undef libxmp_mix_stereoout_stereo_16bit_linear_filter
#undef libxmp_mix_monoout_mono_8bit_spline_filter
#undef libxmp_mix_monoout_mono_16bit_spline_filter
#undef libxmp_mix_monoout_stereo_8bit_spline_filter
#undef libxmp_mix_monoout_stereo_16bit_spline_filter
#undef libxmp_mix_stereoout_mono_8bit_spline_filter
#undef libxmp_mix_stereoout_mono_16bit_spline_filter
#undef libxmp_mix_stereoout_stereo_8bit_spline_filter
#undef libxmp_mix_stereoout_stereo_16bit_spline_filter
#undef libxmp_mix_monoout_mono_a500
#undef libxmp_mix_monoout_mono_a500_filter
#undef libxmp_mix_stereoout_mono_a500
#undef libxmp_mix_stereoout_mono_a500_filter

#include "loaders/loader.h"

static void on_mix(struct mixer_voice *vi);

#define REAL_DECL(n) void libxmp_mix_##n(struct mixer_voice *, int32 *, int, int, int, int, int, int, int);
KERNELS(REAL_DECL)
#define SPY_DEF(n) void spy_##n(struct mixer_voice *vi, int32 *b, int c, int vl, int vr, int st, int r, int dl, int dr) \
	{ on_mix(vi); libxmp_mix_##n(vi, b, c, vl, vr, st, r, dl, dr); }
KERNELS(SPY_DEF)

/* ---- allocation extent from ASan ---- */
static int alloc_extent(void *inside, unsigned char **begin, size_t *size)
{
	char name[64];
	void *ra = NULL;
	size_t rs = 0;
	const char *kind = __asan_locate_address(inside, name, sizeof(name), &ra, &rs);
	if (kind == NULL || strcmp(kind, "heap") != 0 || ra == NULL)
		return -1;
	*begin = (unsigned char *)ra;
	*size = rs;
	return 0;
}

static void put_elems(FILE *f, const unsigned char *p, size_t nbytes, int is16)
{
	size_t i, n = is16 ? nbytes / 2 : nbytes;
	if (n == 0) {
		fputc('-', f);
		return;
	}
	for (i = 0; i < n; i++) {
		unsigned v = is16 ? (unsigned)(p[2 * i] | (p[2 * i + 1] << 8)) : p[i];
		fprintf(f, i ? ",%u" : "%u", v);
	}
}

/* ------------------------------------------------------------------ wrap */

static int pick_len(void)
{
	switch (vrng_below(8)) {
	case 0: return 1;
	case 1: return 2;
	case 2: return vrng_range(1, 4);
	default: return vrng_range(1, 24);
	}
}

static int wrap_case(void)
{
	struct xmp_sample xxs;
	struct mixer_data s;
	struct mixer_voice vi;
	struct loop_data ld;
	unsigned char *buf, *begin, *snap;
	size_t size, i;
	int is16 = vrng_chance(50), stereo = vrng_chance(40);
	int len = pick_len();
	int w = (is16 ? 2 : 1), ch = (stereo ? 2 : 1);
	int bytelen = len * w * ch;
	int start, end, nearest, sptr_null, loop, sample_loop, bidir, base;

	/* loop points: 0 <= start <= end <= len, edges favoured */
	switch (vrng_below(6)) {
	case 0: start = 0; end = len; break;
	case 1: start = 0; end = vrng_range(0, len); break;
	case 2: end = len; start = vrng_range(0, len); break;
	case 3: start = end = vrng_range(0, len); break;
	default:
		start = vrng_range(0, len);
		end = vrng_range(start, len);
	}
	/* libxmp_load_sample drops the loop flag unless lps < lpe, so a patched loop has end >= 1
	 * (with end == 0 the bidirectional unrolling of a 16-bit stereo sample would READ in front of
	 * the 4 guard bytes; writes stay inside in any case) */
	if (end < 1)
		end = 1;
	nearest = vrng_chance(10);
	sptr_null = vrng_chance(5);
	loop = !vrng_chance(10);
	sample_loop = vrng_chance(60);
	bidir = vrng_chance(45);

	buf = (unsigned char *)malloc(bytelen);
	for (i = 0; i < (size_t)bytelen; i++)
		buf[i] = (unsigned char)vrng_below(256);
	memset(&xxs, 0, sizeof(xxs));
	xxs.len = len;
	xxs.lps = start;
	xxs.lpe = end;
	xxs.flg = (is16 ? XMP_SAMPLE_16BIT : 0) | (stereo ? XMP_SAMPLE_STEREO : 0);
	if (libxmp_load_sample(NULL, NULL, SAMPLE_FLAG_NOLOAD | SAMPLE_FLAG_INTERLEAVED, &xxs, buf) < 0 || xxs.data == NULL) {
		free(buf);
		printf("skip load_sample\n");
		return 0;
	}
	free(buf);
	if (alloc_extent(xxs.data, &begin, &size) < 0) {
		printf("skip no-extent\n");
		libxmp_free_sample(&xxs);
		return 0;
	}
	/* randomise the guards too: the restore must not depend on their content */
	for (i = 0; i < size; i++) {
		if (begin + i < xxs.data || begin + i >= xxs.data + bytelen)
			begin[i] = (unsigned char)vrng_below(256);
	}
	base = (int)(xxs.data - begin) / w;
	snap = (unsigned char *)malloc(size);
	memcpy(snap, begin, size);

	/* the flag is set here, after load_sample's own loop sanitation */
	xxs.flg = (is16 ? XMP_SAMPLE_16BIT : 0) | (stereo ? XMP_SAMPLE_STEREO : 0) | (loop ? XMP_SAMPLE_LOOP : 0);
	memset(&s, 0, sizeof(s));
	s.interp = nearest ? XMP_INTERP_NEAREST : (vrng_chance(50) ? XMP_INTERP_LINEAR : XMP_INTERP_SPLINE);
	memset(&vi, 0, sizeof(vi));
	vi.sptr = sptr_null ? NULL : xxs.data;
	vi.start = start;
	vi.end = end;
	vi.flags = (sample_loop ? SAMPLE_LOOP : 0) | (bidir ? VOICE_BIDIR : 0) | (vrng_chance(30) ? VOICE_REVERSE : 0);
	memset(&ld, 0x5a, sizeof(ld));

	printf("wrap %d %d %d %d %d %d %d %d %d %d ", is16, stereo, nearest, sptr_null, loop, sample_loop, bidir, start, end, base);
	put_elems(stdout, begin, size, is16);
	printf("\n");

	init_sample_wraparound(&s, &ld, &vi, &xxs);

	if (ld.active) {
		printf("r_init 1 %d %d %d %d %d %d ", ld.start, ld.end, ld.first_loop ? 1 : 0, ld._16bit ? 1 : 0,
		       ld.prologue_num, ld.epilogue_num);
		put_elems(stdout, ld.prologue, (size_t)ld.prologue_num * w, is16);
		printf(" ");
		put_elems(stdout, ld.epilogue, (size_t)ld.epilogue_num * w, is16);
		printf(" ");
	} else {
		printf("r_init 0 ");
	}
	put_elems(stdout, begin, size, is16);
	printf("\n");

	reset_sample_wraparound(&ld);

	printf("r_reset ");
	put_elems(stdout, begin, size, is16);
	printf("\n");
	if (memcmp(snap, begin, size) != 0) {
		for (i = 0; i < size && snap[i] == begin[i]; i++) ;
		printf("o_fail byte %ld of the allocation (sptr%+ld) differs after init+reset\n", (long)i,
		       (long)i - (long)(xxs.data - begin));
	}
	free(snap);
	libxmp_free_sample(&xxs);
	return 0;
}

/* adjust_voice_end on random sample headers / voice flags (also emitted in wrap mode) */
static void vend_case(void)
{
	static struct context_data ctx;	/* only m.mod.smp is read (has_active_sustain_loop) */
	struct xmp_sample xxs;
	struct extra_sample_data xtra;
	struct mixer_voice vi;
	int ismod = vrng_chance(80);
	int len = vrng_chance(10) ? 0 : vrng_range(1, 60);
	int wf = vrng_chance(70);

	memset(&xxs, 0, sizeof(xxs));
	memset(&vi, 0, sizeof(vi));
	ctx.m.mod.smp = 1;
	vi.smp = ismod ? 0 : 1;
	xxs.len = len;
	if (wf && len > 0) {
		xxs.lps = vrng_range(0, len - 1);
		xxs.lpe = vrng_range(xxs.lps + 1, len);
		xtra.sus = vrng_range(0, len - 1);
		xtra.sue = vrng_range(xtra.sus + 1, len);
	} else {
		xxs.lps = vrng_range(-3, len + 3);
		xxs.lpe = vrng_range(-3, len + 3);
		xtra.sus = vrng_range(-3, len + 3);
		xtra.sue = vrng_range(-3, len + 3);
	}
	xtra.c5spd = 8363.0;
	xxs.flg = (vrng_chance(60) ? XMP_SAMPLE_LOOP : 0) | (vrng_chance(40) ? XMP_SAMPLE_SLOOP : 0) |
		  (vrng_chance(40) ? XMP_SAMPLE_LOOP_BIDIR : 0) | (vrng_chance(40) ? XMP_SAMPLE_SLOOP_BIDIR : 0) |
		  (vrng_chance(40) ? XMP_SAMPLE_LOOP_FULL : 0) | (vrng_chance(30) ? XMP_SAMPLE_16BIT : 0);
	vi.flags = (vrng_chance(40) ? VOICE_RELEASE : 0) | (vrng_chance(50) ? SAMPLE_LOOP : 0) |
		   (vrng_chance(50) ? VOICE_BIDIR : 0) | (vrng_chance(30) ? VOICE_REVERSE : 0);
	vi.start = -77;
	vi.end = -77;
	printf("vend %d %d %d %d %d %d %d %d %d %d %d %d %d | ", ismod, (xxs.flg & XMP_SAMPLE_LOOP) ? 1 : 0,
	       (xxs.flg & XMP_SAMPLE_SLOOP) ? 1 : 0, (xxs.flg & XMP_SAMPLE_LOOP_BIDIR) ? 1 : 0,
	       (xxs.flg & XMP_SAMPLE_SLOOP_BIDIR) ? 1 : 0, (xxs.flg & XMP_SAMPLE_LOOP_FULL) ? 1 : 0, xxs.len, xxs.lps, xxs.lpe,
	       xtra.sus, xtra.sue, (vi.flags & VOICE_RELEASE) ? 1 : 0, (vi.flags & SAMPLE_LOOP) ? 1 : 0);
	adjust_voice_end(&ctx, &vi, &xxs, ismod ? &xtra : NULL);
	printf("%d %d %d\n", vi.start, vi.end, (vi.flags & VOICE_BIDIR) ? 1 : 0);
}

/* ------------------------------------------------------------------ skel */

struct snap {
	unsigned char *begin;	/* allocation */
	size_t size;
	unsigned char *copy;
	int printed;
	int is16, stereo;
};

static struct context_data *g_ctx;
static struct snap *g_snap;
static int g_nsnap;
static long g_maxelems;
static long g_mix_lines, g_mix_skipped, g_resync;
static int g_total_bad;

static void put_window(struct snap *sn, long lo, long hi)
{
	int w = sn->is16 ? 2 : 1;
	long n = (long)sn->size / w;
	if (lo < 0) lo = 0;
	if (hi > n) hi = n;
	if (hi <= lo) {
		printf("-");
		return;
	}
	put_elems(stdout, sn->begin + lo * w, (size_t)(hi - lo) * w, sn->is16);
}

static void on_mix(struct mixer_voice *vi)
{
	struct context_data *ctx = g_ctx;
	struct xmp_module *mod = &ctx->m.mod;
	struct xmp_sample *xxs;
	struct snap *sn;
	int voc = (int)(vi - ctx->p.virt.voice_array);
	int w, ch, base;
	long s, e;

	if (vi->smp < 0 || vi->smp >= mod->smp) {	/* smix samples: not part of the module */
		g_mix_skipped++;
		return;
	}
	xxs = &mod->xxs[vi->smp];
	sn = &g_snap[vi->smp];
	if (sn->begin == NULL || vi->sptr != (void *)xxs->data || (long)sn->size > g_maxelems) {
		g_mix_skipped++;
		return;
	}
	w = sn->is16 ? 2 : 1;
	ch = sn->stereo ? 2 : 1;
	base = (int)(xxs->data - sn->begin) / w;
	if (!sn->printed) {
		sn->printed = 1;
		printf("sample %d %d %d %d %d ", vi->smp, sn->is16, sn->stereo, (xxs->flg & XMP_SAMPLE_LOOP) ? 1 : 0, base);
		put_elems(stdout, sn->copy, sn->size, sn->is16);
		printf("\n");
	}
	{
		struct extra_sample_data *xt = &ctx->m.xtra[vi->smp];
		printf("vend 1 %d %d %d %d %d %d %d %d %d %d %d %d | %d %d %d\n", (xxs->flg & XMP_SAMPLE_LOOP) ? 1 : 0,
		       (xxs->flg & XMP_SAMPLE_SLOOP) ? 1 : 0, (xxs->flg & XMP_SAMPLE_LOOP_BIDIR) ? 1 : 0,
		       (xxs->flg & XMP_SAMPLE_SLOOP_BIDIR) ? 1 : 0, (xxs->flg & XMP_SAMPLE_LOOP_FULL) ? 1 : 0, xxs->len, xxs->lps,
		       xxs->lpe, xt->sus, xt->sue, (vi->flags & VOICE_RELEASE) ? 1 : 0, (vi->flags & SAMPLE_LOOP) ? 1 : 0,
		       vi->start, vi->end, (vi->flags & VOICE_BIDIR) ? 1 : 0);
	}
	printf("mix %d %d %d %d %d %d %d | ", voc, vi->smp, vi->start, vi->end, (vi->flags & SAMPLE_LOOP) ? 1 : 0,
	       (vi->flags & VOICE_BIDIR) ? 1 : 0, ctx->s.interp == XMP_INTERP_NEAREST ? 1 : 0);
	s = base + (long)vi->start * ch;
	e = base + (long)vi->end * ch;
	put_window(sn, s - 2 * ch, s + 2 * ch);
	printf(" ");
	put_window(sn, e - 2 * ch, e + 3 * ch);
	printf("\n");
	g_mix_lines++;
}

/* player.c calls this; the real softmixer (this TU's copy of mixer.c) is bracketed */
void libxmp_mixer_softmixer(struct context_data *ctx)
{
	int i, bad = 0;

	if (ctx != g_ctx || g_snap == NULL) {
		real_mixer_softmixer(ctx);
		return;
	}
	/* entry: the player may have applied invert-loop since the last tick (the one legal
	 * writer; judged by the digest oracle, not here): resynchronise the snapshots */
	for (i = 0; i < g_nsnap; i++) {
		struct snap *sn = &g_snap[i];
		if (sn->begin && memcmp(sn->begin, sn->copy, sn->size) != 0) {
			memcpy(sn->copy, sn->begin, sn->size);
			sn->printed = 0;
			g_resync++;
		}
	}
	printf("tick\n");
	real_mixer_softmixer(ctx);
	for (i = 0; i < g_nsnap; i++) {
		struct snap *sn = &g_snap[i];
		if (sn->begin && memcmp(sn->begin, sn->copy, sn->size) != 0) {
			size_t k;
			for (k = 0; k < sn->size && sn->begin[k] == sn->copy[k]; k++) ;
			printf("o_fail sample %d byte sptr%+ld differs when libxmp_mixer_softmixer returns\n", i,
			       (long)k - (long)(ctx->m.mod.xxs[i].data - sn->begin));
			bad++;
			memcpy(sn->copy, sn->begin, sn->size);
			sn->printed = 0;
		}
	}
	printf("tickend %d\n", bad);
	g_total_bad += bad;
}

/* structure-aware variation of a loaded module (states a loader may legitimately produce): looped samples
 * become bidirectional; samples that satisfy the FULLREP condition (lps == 0, len > lpe) get XMP_SAMPLE_LOOP_FULL */
static int vary_loops(struct xmp_module *mod)
{
	int i, n = 0;
	for (i = 0; i < mod->smp; i++) {
		struct xmp_sample *x = &mod->xxs[i];
		if (!(x->flg & XMP_SAMPLE_LOOP) || x->data == NULL)
			continue;
		if (vrng_chance(30)) {
			x->flg ^= XMP_SAMPLE_LOOP_BIDIR;
			n++;
		}
		if (x->lps == 0 && x->len > x->lpe && vrng_chance(50)) {
			x->flg |= XMP_SAMPLE_LOOP_FULL;
			n++;
		}
	}
	return n;
}

static int skel_case(const char *path, int nframes)
{
	xmp_context opaque = xmp_create_context();
	struct context_data *ctx = (struct context_data *)opaque;
	struct xmp_module *mod;
	static const int rates[] = { 8000, 22050, 44100, 48000, 11025 };
	int rate = rates[vrng_below(5)];
	int fmt = (vrng_chance(40) ? XMP_FORMAT_MONO : 0) | (vrng_chance(20) ? XMP_FORMAT_8BIT : 0);
	int interp = vrng_chance(15) ? XMP_INTERP_NEAREST : (vrng_chance(50) ? XMP_INTERP_LINEAR : XMP_INTERP_SPLINE);
	int i, f, total_bad = 0;

	g_ctx = NULL;

	if (xmp_load_module(opaque, path) < 0) {
		printf("skip %s\n", path);
		xmp_free_context(opaque);
		return 0;
	}
	mod = &ctx->m.mod;
	if (vrng_chance(40))
		vary_loops(mod);
	if (vrng_chance(30) && ctx->m.xtra) {
		/* extreme C5 speeds: the mixer step leaves its supported range and the voice is skipped */
		static const double v[] = { 1.0, 3.0, 12.0, 60.0, 400.0, 250000.0 };
		for (i = 0; i < mod->smp; i++)
			if (vrng_chance(35))
				ctx->m.xtra[i].c5spd = v[vrng_below(6)];
	}
	g_ctx = ctx;
	g_nsnap = mod->smp;
	g_snap = (struct snap *)calloc(mod->smp > 0 ? mod->smp : 1, sizeof(struct snap));
	for (i = 0; i < mod->smp; i++) {
		struct xmp_sample *x = &mod->xxs[i];
		struct snap *sn = &g_snap[i];
		if (x->data == NULL || x->len <= 0)
			continue;
		if (alloc_extent(x->data, &sn->begin, &sn->size) < 0) {
			sn->begin = NULL;
			continue;
		}
		sn->is16 = (x->flg & XMP_SAMPLE_16BIT) ? 1 : 0;
		sn->stereo = (x->flg & XMP_SAMPLE_STEREO) ? 1 : 0;
		sn->copy = (unsigned char *)malloc(sn->size);
		memcpy(sn->copy, sn->begin, sn->size);
	}
	if (vrng_chance(20))
		xmp_set_player(opaque, XMP_PLAYER_VOICES, vrng_range(1, 6));	/* few voices: notes evict each other */
	if (xmp_start_player(opaque, rate, fmt) < 0) {
		printf("skip %s\n", path);
		goto out;
	}
	xmp_set_player(opaque, XMP_PLAYER_INTERP, interp);
	if (vrng_chance(50)) {
		/* jump somewhere into the module first */
		xmp_set_position(opaque, vrng_below(mod->len > 0 ? mod->len : 1));
	}
	printf("skel_begin %s interp=%d rate=%d fmt=%d\n", path, interp, rate, fmt);
	g_total_bad = 0;
	for (f = 0; f < nframes; f++) {
		if (xmp_play_frame(opaque) < 0)
			break;
	}
	total_bad = g_total_bad;
	printf("skel_end %d\n", total_bad);
	xmp_end_player(opaque);
out:
	for (i = 0; i < g_nsnap; i++)
		free(g_snap[i].copy);
	free(g_snap);
	g_snap = NULL;
	g_ctx = NULL;
	xmp_release_module(opaque);
	xmp_free_context(opaque);
	return 0;
}

int main(int argc, char **argv)
{
	int i;
	if (argc >= 4 && !strcmp(argv[1], "wrap")) {
		int n = atoi(argv[3]);
		vrng_seed(strtoull(argv[2], NULL, 10));
		for (i = 0; i < n; i++) {
			wrap_case();
			vend_case();
		}
		return 0;
	}
	if (argc >= 6 && !strcmp(argv[1], "skel")) {
		uint64_t seed = strtoull(argv[2], NULL, 10);
		int nframes = atoi(argv[3]);
		g_maxelems = atol(argv[4]);
		for (i = 5; i < argc; i++) {
			vrng_seed(seed + 977 * (uint64_t)i);
			skel_case(argv[i], nframes);
		}
		fprintf(stderr, "mix_lines=%ld mix_skipped=%ld\n", g_mix_lines, g_mix_skipped);
		return 0;
	}
	fprintf(stderr, "usage: c15_wrap wrap <seed> <n> | skel <seed> <nframes> <maxelems> <module>...\n");
	return 2;
}
