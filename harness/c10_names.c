/* C10 correspondence harness: the real sanitiser / directory lookup / path
 * splitting functions of libxmp on random and adversarial byte strings.
 *
 *   c10_names <seed> <ncases> <scratchdir>
 *
 * For every case one line for the model driver (see lean/Drv/C10.lean) and one
 * line "expect <what the real code answered>".  All strings in hex.
 * <scratchdir> must exist and be empty; the harness creates and removes
 * sub-directories c10n-* in it and chdir()s into it.
 */
#include "vcommon.h"
#include <dirent.h>
#include <unistd.h>
#include <ctype.h>
#include <sys/stat.h>
#include <sys/types.h>

/* get_dirname / get_basename are static in load.c: include the file (the
 * archive member load.c.o is then not pulled in). */
#include "load.c"

static void hexs(const char *s)
{
	put_hex(stdout, s, strlen(s));
}

/* ------------------------------------------------------------------ names */

static const char *const templates[] = {
	"..", ".", "../x", "/etc/passwd", "C:\\x", "C:/x", "C:x", "a:b", "a:", "a:/b", "a:\\b", ":a", "\\a",
	"/", "\\", ":", "ST-01:kick", "st-01:Kick.smp", "a..b", "a.b.", "...", "a/../b", "a\\..\\b", "a:b:c", "a:b:",
	"a::b", "a\\b\\c", "", "a", "kick", "x/.", "./x", ".x", "x.", ".:", ".:x", "a:..", "a: ", " ", "~", "\x7f",
	"a\x7f", "a\x1f", "a\x80", "a\xff", "\xc3\xa9", "a\tb", "nul\\dev", "CON", "aux:", "dh0:mods/x", "..:", "a:.",
	"a:.b", "a/b", "a//b", "a\\\\b", "-rf", "$(id)", "`id`", "a;b", "a|b", "a b", "a'b", "a\"b", "*", "?",
	"aaaaaaaaaaaaaaaaaaaaaaaaaaaaaaaaaaaaaaaaaaaaaaaaaaaa",
};
#define NTEMPL ((int)(sizeof(templates) / sizeof(templates[0])))

static const char printable_alpha[] = "abcXYZ019 ._-:/\\.:/\\..";

/* fills buf (capacity 64) with a raw name of *len bytes (may hold NULs); the
 * caller appends the terminating NUL */
static void gen_raw_name(unsigned char *buf, int *len)
{
	int kind = vrng_below(100), n, i;
	if (kind < 15) {			/* any bytes */
		n = vrng_range(0, 40);
		for (i = 0; i < n; i++)
			buf[i] = (unsigned char)vrng_below(256);
	} else if (kind < 40) {			/* printable soup, rich in specials */
		n = vrng_range(0, 40);
		for (i = 0; i < n; i++)
			buf[i] = (unsigned char)printable_alpha[vrng_below(sizeof(printable_alpha) - 1)];
	} else if (kind < 70) {			/* template, sometimes mutated */
		const char *t = templates[vrng_below(NTEMPL)];
		n = (int)strlen(t);
		if (n > 56)
			n = 56;
		memcpy(buf, t, n);
		if (vrng_chance(35)) {		/* insert one byte */
			int pos = vrng_range(0, n);
			memmove(buf + pos + 1, buf + pos, n - pos);
			buf[pos] = vrng_chance(50) ? (unsigned char)vrng_below(256)
				: (unsigned char)printable_alpha[vrng_below(sizeof(printable_alpha) - 1)];
			n++;
		}
		if (vrng_chance(15) && n > 0)	/* replace one byte */
			buf[vrng_below(n)] = (unsigned char)vrng_below(256);
	} else {				/* long plain name with something special near the bound */
		static const char *const specials[] = { "..", ":", ":/", ":\\", ":x", "\\", "/", ".", "\x80", "\x1f", ":." };
		const char *sp = specials[vrng_below(sizeof(specials) / sizeof(specials[0]))];
		int pos = vrng_range(24, 36), sl = (int)strlen(sp);
		n = vrng_range(pos + sl, 44);
		for (i = 0; i < n; i++)
			buf[i] = (unsigned char)('a' + vrng_below(26));
		memcpy(buf + pos, sp, sl);
		if (vrng_chance(30))
			n = pos + sl;		/* special is the tail */
	}
	if (vrng_chance(8) && n > 0)		/* embedded NUL */
		buf[vrng_below(n)] = 0;
	*len = n;
}

static void case_copy(void)
{
	unsigned char raw[72];
	int len, n, r;
	char *dest;

	gen_raw_name(raw, &len);
	raw[len] = 0;
	n = vrng_chance(70) ? 32 : vrng_range(0, 40);
	dest = (char *)malloc(n > 0 ? n : 1);	/* exact size: ASan sees any overrun */
	memset(dest, 0x55, n > 0 ? n : 1);
	r = libxmp_copy_name_for_fopen(dest, (const char *)raw, n);
	printf("copy ");
	put_hex(stdout, raw, len);
	printf(" %d\nexpect ", n);
	if (r != 0) {
		printf("-1\n");
	} else {
		printf("0 ");
		hexs(dest);
		printf("\n");
	}
	free(dest);
}

/* ------------------------------------------------------------ directories */

static const char *const words[] = {
	"kick", "Snare", "HAT.smp", "st-01", "a b", "x;y", "\xc3\xa9t\xc3\xa9", ".hidden", "-dash", "a:b", "bass.1",
	"Bass.1", "BASS.1", "lead", "LEAD", "Lead", "x", "X", "$(id)", "a\\b", "\x80\xff", "zz.NT", "smp.set", "...",
	"..x", "x..", "tab\there", "[", "aaaaaaaaaaaaaaaaaaaaaaaaaaaaaaa", "AAAAAAAAAAAAAAAAAAAAAAAAAAAAAAAA",
};
#define NWORDS ((int)(sizeof(words) / sizeof(words[0])))

static void flip_case(char *s)
{
	for (; *s; s++) {
		if (vrng_chance(40)) {
			if (*s >= 'a' && *s <= 'z')
				*s -= 32;
			else if (*s >= 'A' && *s <= 'Z')
				*s += 32;
		}
	}
}

#define MAXENT 64
struct vdir {
	char path[256];			/* as handed to the library */
	int exists;
	int nent;
	char ent[MAXENT][264];		/* readdir order, includes . and .. */
};

static void list_dir(struct vdir *d)
{
	DIR *dp = opendir(d->path[0] ? d->path : ".");
	struct dirent *e;
	d->nent = 0;
	d->exists = dp != NULL;
	if (!dp)
		return;
	while ((e = readdir(dp)) != NULL && d->nent < MAXENT)
		snprintf(d->ent[d->nent++], sizeof(d->ent[0]), "%s", e->d_name);
	closedir(dp);
}

static int dir_serial;

/* create scratch sub-directory number k with random content; `style` picks how
 * the library is told about it */
static void make_dir(struct vdir *d, int trailing_slash)
{
	char real[128], f[512];
	int n = vrng_range(0, 9), i;

	snprintf(real, sizeof(real), "c10n-%d", dir_serial++);
	mkdir(real, 0700);
	for (i = 0; i < n; i++) {
		char nm[64];
		FILE *fp;
		snprintf(nm, sizeof(nm), "%s", words[vrng_below(NWORDS)]);
		if (vrng_chance(50))
			flip_case(nm);
		snprintf(f, sizeof(f), "%s/%s", real, nm);
		if (vrng_chance(10)) {
			mkdir(f, 0700);
		} else if ((fp = fopen(f, "wb")) != NULL) {
			fputs("x", fp);
			fclose(fp);
		}
	}
	snprintf(d->path, sizeof(d->path), "%s%s", real, trailing_slash ? "/" : "");
	list_dir(d);
}

static void put_listing(const struct vdir *d)
{
	int i;
	if (!d->exists) {
		printf(" nolist");
		return;
	}
	printf(" %d", d->nent);
	for (i = 0; i < d->nent; i++) {
		printf(" ");
		hexs(d->ent[i]);
	}
}

static void put_dir(const struct vdir *d)	/* NULL = absent */
{
	if (!d) {
		printf(" none");
		return;
	}
	printf(" ");
	hexs(d->path);
	put_listing(d);
}

/* a lookup name: related to the directory's content, or hostile */
static void gen_lookup_name(const struct vdir *a, const struct vdir *b, char *out, size_t cap)
{
	int k = vrng_below(100);
	const struct vdir *d = (vrng_chance(50) && b) ? b : a;
	if (k < 55 && d && d->nent > 0) {
		snprintf(out, cap, "%s", d->ent[vrng_below(d->nent)]);
		if (vrng_chance(70))
			flip_case(out);
		if (vrng_chance(10) && strlen(out) + 2 < cap)
			strcat(out, "x");
	} else if (k < 75) {
		snprintf(out, cap, "%s", words[vrng_below(NWORDS)]);
		flip_case(out);
	} else if (k < 85 && d && d->nent > 0) {	/* dir/entry forms */
		static const char *const pre[] = { "./", "../", "x/", "/", "c10n-0/", "../c10n-0/" };
		snprintf(out, cap, "%s%s", pre[vrng_below(6)], d->ent[vrng_below(d->nent)]);
	} else {
		const char *t = templates[vrng_below(NTEMPL)];
		snprintf(out, cap, "%s", t);
	}
}

static struct vdir dirs[24];
static int ndirs;

static void case_cfc(void)
{
	struct vdir *d = &dirs[vrng_below(ndirs)];
	struct vdir missing;
	char name[300], *out;
	int size, r;

	if (vrng_chance(6)) {
		memset(&missing, 0, sizeof(missing));
		snprintf(missing.path, sizeof(missing.path), "c10n-missing-%d", (int)vrng_below(1000));
		list_dir(&missing);
		d = &missing;
	}
	gen_lookup_name(d, NULL, name, sizeof(name));
	size = vrng_chance(60) ? 256 : vrng_range(1, 40);
	if (vrng_chance(20))
		size = (int)strlen(name) + vrng_range(-1, 1);
	if (size < 1)
		size = 1;
	out = (char *)malloc(size);
	memset(out, 0x55, size);
	r = libxmp_check_filename_case(d->path, name, out, size);
	printf("cfc %d ", size);
	hexs(name);
	put_listing(d);
	printf("\nexpect ");
	if (r) {
		printf("1 ");
		hexs(out);
		printf("\n");
	} else {
		printf("0\n");
	}
	free(out);
}

/* find: with_copy = run the sanitiser first on a raw name, as the loaders do */
static void case_find(int with_copy)
{
	struct module_data m;
	struct vdir *ctx = NULL, *env = NULL, *md = NULL, *ins;
	char name[300], tmp[32], *dest;
	unsigned char raw[72];
	int destlen, r, rawlen = 0, rejected = 0;

	memset(&m, 0, sizeof(m));
	/* instrument paths include the empty string (dirs[ndirs-1]) = current directory */
	if (vrng_chance(45))
		ctx = &dirs[vrng_below(ndirs)];
	if (vrng_chance(25))
		env = &dirs[vrng_below(ndirs)];
	if (vrng_chance(80))
		md = &dirs[vrng_below(ndirs)];
	ins = ctx ? ctx : env;
	if (ctx)
		m.instrument_path = ctx->path;
	if (env)
		setenv("XMP_INSTRUMENT_PATH", env->path, 1);
	else
		unsetenv("XMP_INSTRUMENT_PATH");
	/* the module directory is used as a prefix ("%s%s"): only directories
	 * told with a trailing slash, or the empty string, make sense */
	if (md)
		m.dirname = md->path;

	if (with_copy) {
		if (vrng_chance(30)) {
			gen_raw_name(raw, &rawlen);
		} else {
			gen_lookup_name(ins ? ins : md, md, name, 60);
			rawlen = (int)strlen(name);
			memcpy(raw, name, rawlen);
			if (vrng_chance(20) && rawlen > 1)
				raw[vrng_range(1, rawlen - 1)] = vrng_chance(50) ? ':' : '\\';
		}
		raw[rawlen] = 0;
		if (libxmp_copy_name_for_fopen(tmp, (const char *)raw, 32) != 0)
			rejected = 1;
		else
			snprintf(name, sizeof(name), "%s", tmp);
	} else {
		gen_lookup_name(ins ? ins : md, md, name, sizeof(name));
	}
	destlen = vrng_chance(70) ? 4096 : vrng_range(1, 48);
	dest = (char *)malloc(destlen);
	memset(dest, 0x55, destlen);
	r = rejected ? 0 : libxmp_find_instrument_file(&m, dest, destlen, name);

	printf("%s %d ", with_copy ? "ext" : "find", destlen);
	if (with_copy)
		put_hex(stdout, raw, rawlen);
	else
		hexs(name);
	put_dir(ins);
	put_dir(md);
	printf("\nexpect ");
	if (r) {
		printf("1 ");
		hexs(dest);
		printf("\n");
	} else {
		printf("0\n");
	}
	free(dest);
	unsetenv("XMP_INSTRUMENT_PATH");
}

static void case_dirbase(void)
{
	char path[200], *d, *b;
	int n = vrng_range(0, 5), i, pos = 0;
	path[0] = 0;
	if (vrng_chance(40))
		path[pos++] = '/';
	for (i = 0; i < n; i++) {
		const char *w = vrng_chance(20) ? (vrng_chance(50) ? ".." : ".") : words[vrng_below(NWORDS)];
		pos += snprintf(path + pos, sizeof(path) - pos, "%s", w);
		if (i + 1 < n || vrng_chance(15)) {
			path[pos++] = '/';
			if (vrng_chance(10))
				path[pos++] = '/';
		}
	}
	path[pos] = 0;
	d = get_dirname(path);
	b = get_basename(path);
	printf("dirbase ");
	hexs(path);
	printf("\nexpect ");
	hexs(d);
	printf(" ");
	hexs(b);
	printf("\n");
	free(d);
	free(b);
}

static void cleanup(void)
{
	int k, i;
	char f[600];
	for (k = 0; k < dir_serial; k++) {
		struct vdir d;
		snprintf(d.path, sizeof(d.path), "c10n-%d", k);
		list_dir(&d);
		for (i = 0; i < d.nent; i++) {
			if (!strcmp(d.ent[i], ".") || !strcmp(d.ent[i], ".."))
				continue;
			snprintf(f, sizeof(f), "%s/%s", d.path, d.ent[i]);
			if (unlink(f) < 0)
				rmdir(f);
		}
		rmdir(d.path);
	}
}

int main(int argc, char **argv)
{
	int ncases, i;

	if (argc < 4) {
		fprintf(stderr, "usage: c10_names seed ncases scratchdir\n");
		return 2;
	}
	vrng_seed(strtoull(argv[1], NULL, 10));
	ncases = atoi(argv[2]);
	if (chdir(argv[3]) < 0) {
		perror("chdir");
		return 2;
	}
	/* directories: some told with trailing slash (module dir style), some
	 * without (instrument path style), plus the empty string (= ".") */
	ndirs = 0;
	for (i = 0; i < 14; i++)
		make_dir(&dirs[ndirs++], i % 2);
	memset(&dirs[ndirs], 0, sizeof(dirs[0]));
	list_dir(&dirs[ndirs]);			/* "" : the scratch directory itself */
	ndirs++;

	for (i = 0; i < ncases; i++) {
		int k = vrng_below(100);
		if (k < 45)
			case_copy();
		else if (k < 60)
			case_cfc();
		else if (k < 75)
			case_find(0);
		else if (k < 92)
			case_find(1);
		else
			case_dirbase();
	}
	cleanup();
	return 0;
}
