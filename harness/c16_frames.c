/* C16 harness: every frame reports a consistent, in-range player state.
 *
 * usage:
 *   c16_frames play <seed> <ncases> <nframes> <virtdump%> <module|@synth>...
 *        one case per (seed, index): module (corpus file, or "@synth" = seeded synthetic
 *        module built through the private headers), configuration (rate, format, voices,
 *        tempo factor), then <nframes> xmp_play_frame calls with random position-control
 *        calls and injected speed/tempo/flow events in between; in two thirds of the cases some of
 *        the frames are played through xmp_play_buffer (loop limits 0/1/2, buffer sizes from 1 byte
 *        to several frames, going on after -XMP_END without restart; every frame played inside a
 *        buffer call is observed through a --wrap hook on libxmp_mixer_softmixer) and the
 *        xmp_play_buffer(NULL) reset entry is called now and then.
 *   c16_frames case <caseseed> <nframes> <virtdump%> <module|@synth>     (replay of one case)
 *   c16_frames tick <seed> <n>          random libxmp_mixer_get_ticksize / prepare inputs
 *   c16_frames fxall <seed> <first cfg> <ncfg> <thorough 0|1>
 *        effect sweep: per configuration (player mode, quirks, flow mode, flags, time factor; cfg >= 1000: the two
 *        time factors where the tempo minimum of label fx_s3m_bpm leaves the byte range) every effect number x
 *        parameter x lane is put into a row of a silent 4-channel module next to random set-up / partner effects
 *        and the first tick of that row is played (D fxrow / E r; D tslide / E ts for the IT tempo slide tick)
 *   every libxmp_process_fx call of the play/case modes is sampled through a --wrap hook (D fx / E x;
 *   environment C16_FXPM = per mille of the calls with a flow-relevant effect, default 250)
 *
 * Output lines (the check script routes them by prefix):
 *   B <text>          case begins
 *   D <text>          input line for the Lean driver drv_c16
 *   E <text>          what the driver must answer to the preceding D line (from the real code)
 *   O <sig> <text>    direct property oracle FAILED on the real code
 *   A <what> <text>   a monitored model assumption (EffectRange, OpOk, WF) does not hold
 *   N <key> <n>       statistics
 *   Z                 case ends
 */
#include "vcommon.h"
#include <xmp.h>
#include <math.h>
#include <limits.h>
#include "common.h"
#include "loaders/loader.h"
#include "effects.h"
#include "mixer.h"
#include "player.h"

/* ------------------------------------------------------------------ */
/* virtual.c is compiled into this TU with the table-changing entry   */
/* points renamed, so every call from player.c / read_event.c /       */
/* mixer.c / effects.c in libxmp.a lands in the spies below.          */
/* ------------------------------------------------------------------ */
#define libxmp_virt_reset        real_virt_reset
#define libxmp_virt_resetvoice   real_virt_resetvoice
#define libxmp_virt_resetchannel real_virt_resetchannel
#define libxmp_virt_setvol       real_virt_setvol
#define libxmp_virt_setpatch     real_virt_setpatch
#define libxmp_virt_queuepatch   real_virt_queuepatch
#define libxmp_virt_pastnote     real_virt_pastnote
#define libxmp_virt_setnna       real_virt_setnna
#define libxmp_virt_setsmp       real_virt_setsmp
#include "virtual.c"
#undef libxmp_virt_reset
#undef libxmp_virt_resetvoice
#undef libxmp_virt_resetchannel
#undef libxmp_virt_setvol
#undef libxmp_virt_setpatch
#undef libxmp_virt_queuepatch
#undef libxmp_virt_pastnote
#undef libxmp_virt_setnna
#undef libxmp_virt_setsmp

void libxmp_load_prologue(struct context_data *);
void libxmp_load_epilogue(struct context_data *);

static int g_in_frame;		/* inside xmp_play_frame */
static int g_mid_taken;		/* libxmp_virt_reset seen inside this frame (reposition path) */
static int g_mid[4];		/* speed bpm gvol st26 at that moment */
static int g_virt_dump_pct;	/* percentage of spied calls dumped for the driver */
static uint64_t g_vd_state = 88172645463325252ULL;	/* separate stream: does not perturb the case */
static long g_stat_vops, g_stat_vdump, g_stat_reloc, g_stat_steal, g_stat_vfail;
static int g_virt_fail_reported;
static const char *g_virt_sigtag = "";	/* scenario prefix of the voice-table signatures */

static int vd_chance(void)
{
	g_vd_state ^= g_vd_state << 13;
	g_vd_state ^= g_vd_state >> 7;
	g_vd_state ^= g_vd_state << 17;
	return (int)((g_vd_state >> 20) % 100) < g_virt_dump_pct;
}

static void dump_virt(const char *tag, struct context_data *ctx)
{
	struct player_data *p = &ctx->p;
	int i;
	printf("%s %d %d %d %d |", tag, p->virt.num_tracks, p->virt.virt_channels, p->virt.maxvoc, p->virt.virt_used);
	for (i = 0; i < p->virt.maxvoc; i++) {
		struct mixer_voice *v = &p->virt.voice_array[i];
		printf(" %d %d %d %d %d %d %d", v->chn, v->root, v->act, v->vol, v->ins, v->smp, v->key);
	}
	printf(" |");
	for (i = 0; i < p->virt.virt_channels; i++)
		printf(" %d %d", p->virt.virt_channel[i].map, p->virt.virt_channel[i].count);
	printf("\n");
}

static void dump_virt_short(const char *tag, struct context_data *ctx)
{
	struct player_data *p = &ctx->p;
	int i;
	printf("%s %d |", tag, p->virt.virt_used);
	for (i = 0; i < p->virt.maxvoc; i++)
		printf(" %d %d", p->virt.voice_array[i].chn, p->virt.voice_array[i].root);
	printf(" |");
	for (i = 0; i < p->virt.virt_channels; i++)
		printf(" %d %d", p->virt.virt_channel[i].map, p->virt.virt_channel[i].count);
	printf("\n");
}

/* VInv evaluated directly on the real tables (the voice part of the C16 oracle). */
static const char *check_vinv(struct context_data *ctx)
{
	struct player_data *p = &ctx->p;
	int i, used = 0;
	int vc = p->virt.virt_channels, mv = p->virt.maxvoc;
	static int cnt[1024];

	if (mv < 0 || vc < 0 || mv > vc)
		return "maxvoc<=virt_channels";
	if (p->virt.virt_used < 0 || p->virt.virt_used > mv)
		return "0<=virt_used<=maxvoc";
	if (p->virt.num_tracks < 0 || p->virt.num_tracks > vc)
		return "num_tracks";
	if (vc > 1024)
		return NULL;
	memset(cnt, 0, sizeof(int) * (vc > 0 ? vc : 1));
	for (i = 0; i < mv; i++) {
		struct mixer_voice *v = &p->virt.voice_array[i];
		if (v->chn == -1) {
			if (v->root != -1)
				return "free voice has a root";
			continue;
		}
		used++;
		if (v->chn < 0 || v->chn >= vc || v->root < 0 || v->root >= vc)
			return "voice chn/root out of range";
		if (p->virt.virt_channel[v->chn].map != i)
			return "map[voice.chn] != voice";
		cnt[v->root]++;
	}
	if (used != p->virt.virt_used)
		return "virt_used != #voices in use";
	for (i = 0; i < vc; i++) {
		int mp = p->virt.virt_channel[i].map;
		if (mp != -1) {
			if (mp < 0 || mp >= mv)
				return "map out of range";
			if (p->virt.voice_array[mp].chn != i)
				return "voice[map[c]].chn != c";
		}
		if (p->virt.virt_channel[i].count != cnt[i])
			return "count != #voices with that root";
	}
	return NULL;
}

static void after_vop(struct context_data *ctx, const char *op, int dumped)
{
	const char *bad;
	g_stat_vops++;
	if (dumped) {
		dump_virt_short("E v", ctx);
		g_stat_vdump++;
	}
	bad = check_vinv(ctx);
	if (bad && !g_virt_fail_reported) {
		g_virt_fail_reported = 1;
		printf("O virt:%s%s after %s: %s\n", g_virt_sigtag, op, op, bad);
	}
}

/* all seven modelled voice fields: the expected line of the field-only operations (setnna, setsmp, queuepatch on a
 * mapped channel, pastnote OFF/FADE) */
static void dump_virt_full(const char *tag, struct context_data *ctx)
{
	struct player_data *p = &ctx->p;
	int i;
	printf("%s %d |", tag, p->virt.virt_used);
	for (i = 0; i < p->virt.maxvoc; i++) {
		struct mixer_voice *v = &p->virt.voice_array[i];
		printf(" %d %d %d %d %d %d %d", v->chn, v->root, v->act, v->vol, v->ins, v->smp, v->key);
	}
	printf(" |");
	for (i = 0; i < p->virt.virt_channels; i++)
		printf(" %d %d", p->virt.virt_channel[i].map, p->virt.virt_channel[i].count);
	printf("\n");
}

static long g_stat_fops, g_stat_fdump;
static void after_vopf(struct context_data *ctx, const char *op, int dumped)
{
	const char *bad;
	g_stat_fops++;
	if (dumped) {
		dump_virt_full("E vf", ctx);
		g_stat_fdump++;
	}
	bad = check_vinv(ctx);
	if (bad && !g_virt_fail_reported) {
		g_virt_fail_reported = 1;
		printf("O virt:%s%s after %s: %s\n", g_virt_sigtag, op, op, bad);
	}
}

/* may this call be dumped?  only in a playing context with tables allocated */
static int vdump_ok(struct context_data *ctx)
{
	return g_virt_dump_pct > 0 && ctx->p.virt.voice_array != NULL && ctx->p.virt.virt_channel != NULL &&
	       ctx->p.virt.maxvoc <= 160 && vd_chance();
}

/* the field-only operations are rare: dump them six times as often */
static int vdump_ok_field(struct context_data *ctx)
{
	int k, hit = 0;
	for (k = 0; k < 6; k++)
		hit |= vd_chance();
	return g_virt_dump_pct > 0 && ctx->p.virt.voice_array != NULL && ctx->p.virt.virt_channel != NULL &&
	       ctx->p.virt.maxvoc <= 160 && hit;
}

void libxmp_virt_reset(struct context_data *ctx)
{
	int d;
	if (g_in_frame && !g_mid_taken) {
		g_mid_taken = 1;
		g_mid[0] = ctx->p.speed;
		g_mid[1] = ctx->p.bpm;
		g_mid[2] = ctx->p.gvol;
		g_mid[3] = ctx->p.st26_speed;
	}
	d = vdump_ok(ctx);
	if (d) {
		printf("D vop reset ");
		dump_virt("|", ctx);
	}
	real_virt_reset(ctx);
	if (ctx->p.virt.voice_array != NULL)
		after_vop(ctx, "reset", d);
}

void libxmp_virt_resetvoice(struct context_data *ctx, int voc, int mute)
{
	struct player_data *p = &ctx->p;
	int d = vdump_ok(ctx);
	if ((uint32)voc < (uint32)p->virt.maxvoc && p->virt.voice_array[voc].chn == -1)
		printf("A opok resetvoice on a free voice %d\n", voc);
	if (d) {
		printf("D vop resetvoice %d ", voc);
		dump_virt("|", ctx);
	}
	real_virt_resetvoice(ctx, voc, mute);
	after_vop(ctx, "resetvoice", d);
}

void libxmp_virt_resetchannel(struct context_data *ctx, int chn)
{
	int d = vdump_ok(ctx);
	if (d) {
		printf("D vop resetchannel %d ", chn);
		dump_virt("|", ctx);
	}
	real_virt_resetchannel(ctx, chn);
	after_vop(ctx, "resetchannel", d);
}

void libxmp_virt_setvol(struct context_data *ctx, int chn, int vol)
{
	struct player_data *p = &ctx->p;
	int d = vdump_ok(ctx);
	if (d) {
		int voc = map_virt_channel(p, chn), muted = 0;
		if (voc >= 0) {
			int root = p->virt.voice_array[voc].root;
			muted = (root < XMP_MAX_CHANNELS && p->channel_mute[root]) ? 1 : 0;
		}
		printf("D vop setvol %d %d %d ", chn, vol, muted);
		dump_virt("|", ctx);
	}
	real_virt_setvol(ctx, chn, vol);
	after_vop(ctx, "setvol", d);
}

static int spy_setpatch(struct context_data *ctx, int chn, int ins, int smp, int note, int key, int nna, int dct,
			int dca, const char *name)
{
	struct player_data *p = &ctx->p;
	struct module_data *m = &ctx->m;
	int d = vdump_ok(ctx), r, used0 = p->virt.virt_used;
	int voc0 = ((uint32)chn < (uint32)p->virt.virt_channels) ? p->virt.virt_channel[chn].map : -1;
	int reloc = 0;
	if (chn < 0 || chn >= p->virt.num_tracks)
		printf("A opok setpatch on channel %d outside [0,num_tracks=%d)\n", chn, p->virt.num_tracks);
	{
		int i, nfree = 0;
		for (i = 0; i < p->virt.maxvoc; i++)
			if (p->virt.voice_array[i].chn == -1)
				nfree++;
		used0 = nfree;
	}
	if (d) {
		printf("D vop setpatch %d %d %d %d %d %d %d ", chn, ins, smp, key, nna, dct, dca);
		dump_virt("|", ctx);
	}
	r = real_virt_setpatch(ctx, chn, ins, smp, note, key, nna, dct, dca);
	if (voc0 > -1 && r >= 0 && r != chn)
		reloc = 1;
	/* Virt.SetPatchOk: as many background slots as voices (the geometry libxmp_virt_on gives a module that has QUIRK_VIRTUAL
	 * at start), or no NNA relocation.  A player-mode switch can turn QUIRK_VIRTUAL on for a module started without
	 * background slots; judged after the call (the old voice of the channel now sits on another channel), whatever guards
	 * the relocation in the code */
	if (voc0 > -1 && voc0 < p->virt.maxvoc && p->virt.voice_array[voc0].chn != -1 && p->virt.voice_array[voc0].chn != chn &&
	    p->virt.maxvoc > p->virt.virt_channels - p->virt.num_tracks)
		printf("A opok NNA relocation of voice %d from channel %d to channel %d with maxvoc %d > background slots %d\n", voc0, chn,
		       p->virt.voice_array[voc0].chn, p->virt.maxvoc, p->virt.virt_channels - p->virt.num_tracks);
	g_stat_reloc += reloc;
	if (r < 0)
		g_stat_vfail++;
	else if (used0 == 0 && (voc0 <= -1 || reloc))
		g_stat_steal++;	/* no free voice before the call, yet a voice was allocated: stolen */
	after_vop(ctx, name, d);
	return r;
}

int libxmp_virt_setpatch(struct context_data *ctx, int chn, int ins, int smp, int note, int key, int nna, int dct,
			 int dca)
{
	return spy_setpatch(ctx, chn, ins, smp, note, key, nna, dct, dca, "setpatch");
}

int libxmp_virt_queuepatch(struct context_data *ctx, int chn, int ins, int smp, int note)
{
	/* mirrors the dispatch of the real function; the table-changing case is a setpatch */
	struct player_data *p = &ctx->p;
	if ((uint32)chn < (uint32)p->virt.virt_channels) {
		int s2 = ins < 0 ? -1 : smp;
		if (p->virt.virt_channel[chn].map <= -1 && s2 >= 0)
			return spy_setpatch(ctx, chn, ins, smp, note, 0, 0, 0, 0, "queuepatch");
	}
	{
		/* not a setpatch: the sample is queued in the mixer, at most the voice's instrument number changes */
		int d = vdump_ok_field(ctx), r;
		if (d) {
			printf("D vopf queueins %d %d ", chn, ins);
			dump_virt("|", ctx);
		}
		r = real_virt_queuepatch(ctx, chn, ins, smp, note);
		after_vopf(ctx, "queuepatch", d);
		return r;
	}
}

void libxmp_virt_pastnote(struct context_data *ctx, int chn, int act)
{
	int d = (act == VIRT_ACTION_CUT) ? vdump_ok(ctx) : vdump_ok_field(ctx);
	if (d) {
		if (act == VIRT_ACTION_CUT)
			printf("D vop pastnotecut %d ", chn);
		else
			printf("D vopf pastnoteother %d %d ", chn, act);
		dump_virt("|", ctx);
	}
	real_virt_pastnote(ctx, chn, act);
	if (act == VIRT_ACTION_CUT)
		after_vop(ctx, "pastnote", d);
	else
		after_vopf(ctx, "pastnote", d);
}

void libxmp_virt_setnna(struct context_data *ctx, int chn, int nna)
{
	struct module_data *m = &ctx->m;
	int d = vdump_ok_field(ctx);
	if (d) {
		printf("D vopf setnna %d %d %d ", chn, nna, HAS_QUIRK(QUIRK_VIRTUAL) ? 1 : 0);
		dump_virt("|", ctx);
	}
	real_virt_setnna(ctx, chn, nna);
	after_vopf(ctx, "setnna", d);
}

void libxmp_virt_setsmp(struct context_data *ctx, int chn, int smp)
{
	int d = vdump_ok_field(ctx);
	if (d) {
		printf("D vopf setsmp %d %d ", chn, smp);
		dump_virt("|", ctx);
	}
	real_virt_setsmp(ctx, chn, smp);
	after_vopf(ctx, "setsmp", d);
}

/* ------------------------------------------------------------------ */
/* state / module dumps                                                */
/* ------------------------------------------------------------------ */
#define NST 18
static void get_state(struct context_data *ctx, int *v)
{
	struct player_data *p = &ctx->p;
	struct flow_control *f = &p->flow;
	v[0] = p->ord; v[1] = p->pos; v[2] = p->row; v[3] = p->frame; v[4] = p->speed; v[5] = p->bpm;
	v[6] = p->gvol; v[7] = p->st26_speed; v[8] = p->loop_count; v[9] = p->sequence;
	v[10] = f->pbreak; v[11] = f->jump; v[12] = f->delay; v[13] = f->jumpline; v[14] = f->loop_dest;
	v[15] = f->rowdelay; v[16] = f->num_rows; v[17] = f->end_point;
}

static void put_state(const int *v)
{
	int i;
	for (i = 0; i < NST; i++)
		printf(" %d", v[i]);
}

static void dump_module(struct context_data *ctx)
{
	struct module_data *m = &ctx->m;
	struct xmp_module *mod = &m->mod;
	struct player_data *p = &ctx->p;
	int i;
	printf("D mod %d %d %d %d %d %d %d\n", mod->len, mod->pat, mod->rst, HAS_QUIRK(QUIRK_MARKER) ? 1 : 0,
	       HAS_QUIRK(QUIRK_PROTRACK) ? 1 : 0, m->num_sequences, m->volbase);
	printf("D xxo");
	for (i = 0; i < XMP_MAX_MOD_LENGTH; i++)
		printf(" %d", mod->xxo[i]);
	printf("\nD rows");
	for (i = 0; i < mod->pat; i++)
		printf(" %d", mod->xxp[i] ? mod->xxp[i]->rows : 0);
	printf("\nD seqctl");
	for (i = 0; i < XMP_MAX_MOD_LENGTH; i++)
		printf(" %d", p->sequence_control[i]);
	printf("\nD entry");
	for (i = 0; i < m->num_sequences; i++)
		printf(" %d", m->seq_data[i].entry_point);
	printf("\nD scanord");
	for (i = 0; i < m->num_sequences; i++)
		printf(" %d", p->scan[i].ord);
	printf("\nD scanrow");
	for (i = 0; i < m->num_sequences; i++)
		printf(" %d", p->scan[i].row);
	printf("\nD scannum");
	for (i = 0; i < m->num_sequences; i++)
		printf(" %d", p->scan[i].num);
	printf("\nD ospeed");
	for (i = 0; i < XMP_MAX_MOD_LENGTH; i++)
		printf(" %d", m->xxo_info[i].speed);
	printf("\nD obpm");
	for (i = 0; i < XMP_MAX_MOD_LENGTH; i++)
		printf(" %d", m->xxo_info[i].bpm);
	printf("\nD ogvl");
	for (i = 0; i < XMP_MAX_MOD_LENGTH; i++)
		printf(" %d", m->xxo_info[i].gvl);
	printf("\nD ost26");
	for (i = 0; i < XMP_MAX_MOD_LENGTH; i++)
		printf(" %d", m->xxo_info[i].st26_speed);
	printf("\nD otime");
	for (i = 0; i < XMP_MAX_MOD_LENGTH; i++)
		printf(" %d", m->xxo_info[i].time);
	printf("\n");
}

/* OrdWF (Seq.ordWfB) evaluated in C on the live module, written from the clause (not from next_order):
 * every sequence reaches an order holding a pattern through the restart position next_order would wrap it
 * to, at its entry point, or walking forward from the entry point before the end of the list / an 0xff
 * end marker.  The Lean driver evaluates its own definition on the dumped module; both must agree. */
static long g_ow_rst, g_ow_entry, g_ow_reach, g_ow_fail;
static int c_ordwf(struct context_data *ctx)
{
	struct module_data *m = &ctx->m;
	struct xmp_module *mod = &m->mod;
	struct player_data *p = &ctx->p;
	int marker = HAS_QUIRK(QUIRK_MARKER) ? 1 : 0, s, all = 1;
	for (s = 0; s < m->num_sequences; s++) {
		int e = m->seq_data[s].entry_point, j, ok = 0;
		if (mod->rst >= 0 && mod->rst < XMP_MAX_MOD_LENGTH && mod->rst <= mod->len && mod->xxo[mod->rst] < mod->pat &&
		    p->sequence_control[mod->rst] == s) {
			ok = 1;
			g_ow_rst++;
		} else if (e >= 0 && e < XMP_MAX_MOD_LENGTH && mod->xxo[e] < mod->pat) {
			ok = 1;
			g_ow_entry++;
		} else {
			for (j = e + 1; j >= 0 && j < mod->len && j < XMP_MAX_MOD_LENGTH; j++) {
				if (marker && mod->xxo[j] == 0xff)
					break;
				if (mod->xxo[j] < mod->pat) {
					ok = 1;
					g_ow_reach++;
					break;
				}
			}
		}
		if (!ok) {
			all = 0;
			g_ow_fail++;
		}
	}
	return all;
}

/* what the real mixer makes of (rate, time factor, rrate, tempo, format): libxmp_mixer_get_ticksize,
 * libxmp_mixer_prepare and xmp_get_frame_info run on a scratch context (no constant of the cap is
 * repeated here) */
static void real_tick(int freq, double tf, double rr, int bpm, int format, int *t, int *pt, int *bs)
{
	static struct context_data *sc;
	static struct scan_data dummy_scan;
	struct xmp_frame_info fi;
	if (sc == NULL) {
		sc = (struct context_data *)calloc(1, sizeof(*sc));
		sc->s.buf32 = (int32 *)calloc(XMP_MAX_FRAMESIZE, sizeof(int32));
		sc->p.scan = &dummy_scan;
		sc->state = XMP_STATE_LOADED;
	}
	sc->s.freq = freq;
	sc->s.format = format;
	sc->m.time_factor = tf;
	sc->m.rrate = rr;
	sc->p.bpm = bpm;
	*t = libxmp_mixer_get_ticksize(freq, tf, rr, bpm);
	libxmp_mixer_prepare(sc);
	*pt = sc->s.ticksize;
	memset(&fi, 0, sizeof(fi));
	xmp_get_frame_info((xmp_context)sc, &fi);
	*bs = fi.buffer_size;
}

/* exact value of a double as mantissa * 2^exp */
static void put_double(double x)
{
	int e;
	double fr = frexp(x, &e);
	long long mant = (long long)ldexp(fr, 53);
	printf(" %lld %d", mant, e - 53);
}

/* ------------------------------------------------------------------ */
/* every libxmp_process_fx call (effects.c), seen through --wrap        */
/* ------------------------------------------------------------------ */
/* The flow-relevant variables before and after the real call, for the Lean function Fx.processFx.
 * read_event.c calls libxmp_process_fx across translation units, so the linker's --wrap catches every
 * call: rows of real modules, injected events, delayed events. */
#include "far_extras.h"
static int g_fx_dump_pm;	/* per mille of the calls with a flow-relevant effect that are dumped (other effects: a twentieth of it) */
static int g_fx_all;		/* dump every call (exhaustive mode) */
static long g_fx_calls, g_fx_dumped, g_fx_flow_dumped;

static int is_flow_fx(int t)
{
	switch (t) {
	case FX_JUMP: case FX_BREAK: case FX_EXTENDED: case FX_SPEED: case FX_PATT_DELAY: case FX_S3M_SPEED:
	case FX_S3M_BPM: case FX_IT_BPM: case FX_IT_ROWDELAY: case FX_IT_BREAK: case FX_GLOBALVOL: case FX_ICE_SPEED:
	case FX_SPEED_CP: case FX_ULT_TEMPO: case FX_LINE_JUMP: case FX_FAR_TEMPO: case FX_FAR_F_TEMPO:
		return 1;
	}
	return 0;
}

/* module-wide FAR tempo state (tempo_mode coarse_tempo fine_tempo); "1 0 0" without FAR extras */
static void get_far(struct context_data *ctx, int *v)
{
	if (HAS_FAR_MODULE_EXTRAS(ctx->m)) {
		struct far_module_extras *me = FAR_MODULE_EXTRAS(ctx->m);
		v[0] = me->tempo_mode; v[1] = me->coarse_tempo; v[2] = me->fine_tempo;
	} else {
		v[0] = 1; v[1] = 0; v[2] = 0;
	}
}

static void put_env(struct context_data *ctx)
{
	struct module_data *m = &ctx->m;
	printf(" %u %d %d %d", (unsigned)m->quirk, ctx->p.flags, m->read_event_type, m->flow_mode);
	put_double(m->time_factor);
	printf(" %d %d %d", m->gvolbase, m->mod.chn, HAS_FAR_MODULE_EXTRAS(*m) ? 1 : 0);
}

static void put_flow(struct context_data *ctx, int nloops)
{
	struct player_data *p = &ctx->p;
	struct flow_control *f = &p->flow;
	int i, fr[3];
	get_far(ctx, fr);
	printf(" %d %d %d %d %d %d %d %d %d %d %d %d %d %d %d %d %d %d %d |", p->speed, p->bpm, p->gvol, p->st26_speed, f->pbreak,
	       f->jump, f->delay, f->jumpline, f->loop_dest, f->rowdelay, f->rowdelay_set, f->jump_in_pat, f->loop_param,
	       f->loop_start, f->loop_count, f->loop_active_num, fr[0], fr[1], fr[2]);
	for (i = 0; i < nloops; i++)
		printf(" %d %d", f->loop[i].start, f->loop[i].count);
}

void __real_libxmp_process_fx(struct context_data *ctx, struct channel_data *xc, int chn, struct xmp_event *e, int fnum);
void __wrap_libxmp_process_fx(struct context_data *ctx, struct channel_data *xc, int chn, struct xmp_event *e, int fnum)
{
	int fxt = fnum == 0 ? e->fxt : e->f2t, fxp = fnum == 0 ? e->fxp : e->f2p;
	int flowfx = is_flow_fx(fxt), d = 0, nloops = 0;
	int pre_hdr[4], pre_fl[19], pre_lp[2 * XMP_MAX_CHANNELS];
	g_fx_calls++;
	if (ctx->p.flow.loop != NULL && chn >= 0 && chn < ctx->p.virt.virt_channels) {
		if (g_fx_all)
			d = 1;
		else if (g_fx_dump_pm > 0) {
			/* separate random stream: does not perturb the case */
			g_vd_state ^= g_vd_state << 13;
			g_vd_state ^= g_vd_state >> 7;
			g_vd_state ^= g_vd_state << 17;
			d = (int)((g_vd_state >> 20) % 1000) < (flowfx ? g_fx_dump_pm : g_fx_dump_pm / 20);
		}
	}
	if (d) {
		/* the D line is printed after the call: virtual.c spies may print their own D/E pairs inside it */
		nloops = ctx->m.mod.chn > chn + 1 ? ctx->m.mod.chn : chn + 1;
		if (nloops > ctx->p.virt.virt_channels)
			nloops = ctx->p.virt.virt_channels;
		if (nloops > XMP_MAX_CHANNELS)
			d = 0;
	}
	if (d) {
		struct player_data *p = &ctx->p;
		struct flow_control *f = &p->flow;
		int i;
		pre_hdr[0] = p->ord; pre_hdr[1] = p->row; pre_hdr[2] = chn; pre_hdr[3] = xc->vol.memory;
		pre_fl[0] = p->speed; pre_fl[1] = p->bpm; pre_fl[2] = p->gvol; pre_fl[3] = p->st26_speed; pre_fl[4] = f->pbreak;
		pre_fl[5] = f->jump; pre_fl[6] = f->delay; pre_fl[7] = f->jumpline; pre_fl[8] = f->loop_dest; pre_fl[9] = f->rowdelay;
		pre_fl[10] = f->rowdelay_set; pre_fl[11] = f->jump_in_pat; pre_fl[12] = f->loop_param; pre_fl[13] = f->loop_start;
		pre_fl[14] = f->loop_count; pre_fl[15] = f->loop_active_num;
		get_far(ctx, pre_fl + 16);
		for (i = 0; i < nloops; i++) {
			pre_lp[2 * i] = f->loop[i].start;
			pre_lp[2 * i + 1] = f->loop[i].count;
		}
	}
	__real_libxmp_process_fx(ctx, xc, chn, e, fnum);
	if (d) {
		int i;
		printf("D fx");
		put_env(ctx);
		printf(" | %d %d %d %d %d %d |", pre_hdr[0], pre_hdr[1], pre_hdr[2], pre_hdr[3], fxt, fxp);
		for (i = 0; i < 19; i++)
			printf(" %d", pre_fl[i]);
		printf(" |");
		for (i = 0; i < 2 * nloops; i++)
			printf(" %d", pre_lp[i]);
		printf("\n");
		/* the ST3 effect memory is compared for the effects whose use of it is modelled */
		printf("E x");
		put_flow(ctx, nloops);
		if (fxt == FX_S3M_SPEED)
			printf(" | %d\n", xc->vol.memory);
		else
			printf(" | *\n");
		g_fx_dumped++;
		g_fx_flow_dumped += flowfx;
	}
}

/* ------------------------------------------------------------------ */
/* synthetic modules                                                   */
/* ------------------------------------------------------------------ */
static int g_marathon;
static long g_marathon_cases, g_marathon_wraps3, g_marathon_wraps3_reset;
static long g_carry_modules, g_carry_jumps, g_hostile_spd, g_marathon_cases, g_marathon_wraps3, g_marathon_wraps3_reset, g_modesw, g_modesw_ok, g_modesw_seqdrop, g_modesw_lastseq;
static const int flow_fx[] = {
	FX_JUMP, FX_BREAK, FX_IT_BREAK, FX_EXTENDED, FX_EXTENDED, FX_PATT_DELAY, FX_IT_ROWDELAY, FX_SPEED, FX_SPEED,
	FX_S3M_SPEED, FX_S3M_BPM, FX_IT_BPM, FX_ICE_SPEED, FX_LINE_JUMP, FX_SPEED_CP, FX_ULT_TEMPO, FX_GLOBALVOL,
	FX_IT_INSTFUNC,	/* S7x: past note cut/off/fade, set NNA (virtual.c pastnote / setnna) */
	FX_FAR_TEMPO, FX_FAR_F_TEMPO	/* act in modules with FAR extras only (corpus .far files) */
};
#define NFLOWFX ((int)(sizeof(flow_fx) / sizeof(flow_fx[0])))

static void gen_fx(int len, uint8 *fxt, uint8 *fxp)
{
	int t = flow_fx[vrng_below(NFLOWFX)];
	int pr;
	switch (vrng_below(6)) {
	case 0: pr = 0; break;
	case 1: pr = vrng_range(1, 0x1f); break;
	case 2: pr = vrng_range(0x20, 0xff); break;
	case 3: pr = vrng_range(0, len + 1); break;
	case 4: pr = vrng_below(2) ? 0xff : 0xfe; break;
	default: pr = vrng_below(256); break;
	}
	if (t == FX_EXTENDED) {
		static const int ex[] = { EX_PATTERN_LOOP, EX_PATT_DELAY, EX_PATTERN_LOOP, EX_DELAY };
		pr = (ex[vrng_below(4)] << 4) | vrng_below(vrng_chance(50) ? 4 : 16);
	}
	if (t == FX_IT_INSTFUNC)
		pr = vrng_below(8);
	*fxt = (uint8)t;
	*fxp = (uint8)pr;
}

static int create_synth(struct context_data *ctx, char *desc, size_t dsz)
{
	struct module_data *m = &ctx->m;
	struct xmp_module *mod = &m->mod;
	static const int rowchoices[] = { 1, 2, 3, 4, 8, 16, 32, 64, 64, 100, 256 };
	static const int flowmodes[] = { FLOW_MODE_GENERIC, FLOW_MODE_ST3_321, FLOW_MODE_ST3_301, FLOW_MODE_IT_100,
		FLOW_MODE_IT_210, FLOW_MODE_MPT_116, FLOW_MODE_ORPHEUS, FLOW_MODE_LIQUID, FLOW_MODE_LIQUID_COMPAT,
		FLOW_MODE_OCTALYSER };
	int i, j, k, ret, quirk = 0, rmode;
	int density;
	/* "loop carry": a pattern-loop start recorded on a high row of a long pattern, the loop end effect in the next,
	 * shorter pattern without a loop start of its own: the loop target lies beyond the pattern being played */
	int carry = vrng_chance(35), carry_rows[2] = { 0, 0 };
	if (g_marathon)
		carry = 0;

	libxmp_load_prologue(ctx);
	mod->chn = vrng_range(1, 8);
	mod->pat = vrng_range(carry ? 2 : 1, 6);
	mod->ins = vrng_range(1, 4);
	mod->smp = mod->ins;
	mod->trk = mod->pat * mod->chn;
	mod->len = vrng_range(1, 14);
	for (i = 0; i < mod->len; i++) {
		int r = vrng_below(100);
		if (r < 70)
			mod->xxo[i] = vrng_below(mod->pat);
		else if (r < 78)
			mod->xxo[i] = 0xfe;
		else if (r < 86)
			mod->xxo[i] = 0xff;
		else if (r < 92)
			mod->xxo[i] = mod->pat;
		else
			mod->xxo[i] = vrng_range(mod->pat, 255);
	}
	if (vrng_chance(85))
		mod->xxo[0] = vrng_below(mod->pat);
	if (g_marathon) {
		mod->len = vrng_range(2, 4);
		for (i = 0; i < mod->len; i++)
			mod->xxo[i] = vrng_below(mod->pat);
	}
	if (carry) {
		if (mod->len < 2)
			mod->len = 2;
		mod->xxo[0] = 0;
		mod->xxo[1] = 1;
		carry_rows[0] = vrng_range(9, 24);
		carry_rows[1] = vrng_range(1, 8);
	}
	mod->rst = vrng_chance(60) ? 0 : vrng_below(mod->len);
	mod->spd = vrng_chance(70) ? 6 : vrng_range(1, carry ? 6 : 31);
	if (vrng_chance(12)) {
		/* header speeds as the loaders with a 16-bit speed field can deliver them: libxmp_load_epilogue must bring them
		 * back into 1..255 */
		static const int hostile[] = { 255, 256, 0x120, 0xffff, 0, -3, 0x100, 0x7fff };
		mod->spd = hostile[vrng_below(8)];
		g_hostile_spd++;
	}
	if (g_marathon)
		mod->spd = vrng_range(1, 3);
	mod->bpm = vrng_chance(70) ? 125 : vrng_range(20, 255);

	if (libxmp_init_pattern(mod) < 0)
		return -1;
	for (i = 0; i < mod->pat; i++) {
		int rows = rowchoices[vrng_below(11)];
		if (vrng_chance(20))
			rows = vrng_range(1, 64);
		if (carry && i < 2)
			rows = carry_rows[i];
		if (g_marathon)
			rows = vrng_range(1, 6);
		if (libxmp_alloc_pattern_tracks(mod, i, rows) < 0)
			return -1;
	}
	if (libxmp_init_instrument(m) < 0)
		return -1;
	rmode = vrng_below(4);	/* READ_EVENT_MOD / FT2 / ST3 / IT */
	if (vrng_chance(50))
		quirk |= QUIRK_MARKER;
	if (vrng_chance(35))
		quirk |= QUIRK_PROTRACK;
	if (rmode == READ_EVENT_IT || vrng_chance(15))
		quirk |= QUIRK_VIRTUAL;
	if (vrng_chance(30))
		quirk |= QUIRK_RSTCHN;
	if (vrng_chance(30))
		quirk |= QUIRK_S3MLOOP;
	if (vrng_chance(20))
		quirk |= QUIRK_NOBPM;
	if (vrng_chance(20))
		quirk |= QUIRK_FINEFX;
	for (i = 0; i < mod->ins; i++) {
		mod->xxi[i].nsm = 1;
		if (libxmp_alloc_subinstrument(mod, i, 1) < 0)
			return -1;
		mod->xxi[i].sub[0].pan = 0x80;
		mod->xxi[i].sub[0].vol = vrng_chance(80) ? 0x40 : vrng_below(65);
		mod->xxi[i].sub[0].sid = i;
		if (quirk & QUIRK_VIRTUAL) {
			mod->xxi[i].sub[0].nna = vrng_chance(70) ? vrng_range(1, 3) : 0;	/* mostly continue/off/fade: background voices */
			mod->xxi[i].sub[0].dct = vrng_below(4);
			mod->xxi[i].sub[0].dca = vrng_chance(50) ? 0 : vrng_range(2, 3);
		}
		for (k = 0; k < XMP_MAX_KEYS; k++)
			mod->xxi[i].map[k].ins = 0;
		mod->xxs[i].len = vrng_chance(50) ? 10000 : vrng_range(16, 3000);
		mod->xxs[i].lps = 0;
		mod->xxs[i].lpe = mod->xxs[i].len;
		mod->xxs[i].flg = vrng_chance((quirk & QUIRK_VIRTUAL) ? 85 : 60) ? XMP_SAMPLE_LOOP : 0;
		mod->xxs[i].data = (unsigned char *)calloc(1, mod->xxs[i].len + 16);
		if (mod->xxs[i].data == NULL)
			return -1;
		for (k = 0; k < mod->xxs[i].len; k++)
			mod->xxs[i].data[4 + k] = (unsigned char)((k * 37) & 0x7f);
		mod->xxs[i].data += 4;
	}
	density = vrng_range((quirk & QUIRK_VIRTUAL) ? 10 : 2, 25);
	if (g_marathon)
		density = vrng_range(0, 6);
	for (i = 0; i < mod->pat; i++) {
		for (j = 0; j < mod->chn; j++) {
			struct xmp_track *t = mod->xxt[mod->xxp[i]->index[j]];
			for (k = 0; k < t->rows; k++) {
				struct xmp_event *e = &t->event[k];
				if (vrng_chance(density)) {
					if (vrng_chance(60)) {
						e->note = vrng_chance(92) ? vrng_range(30, 90) : XMP_KEY_OFF;
						e->ins = vrng_chance(80) ? vrng_range(1, mod->ins) : 0;
					} else if (vrng_chance(10)) {
						e->ins = vrng_range(1, mod->ins);	/* instrument without note: Protracker sample swap (queuepatch) */
					}
					if (vrng_chance(20))
						e->vol = vrng_range(1, 65);
					if (vrng_chance(45))
						gen_fx(mod->len, &e->fxt, &e->fxp);
					else if (vrng_chance(10)) {
						e->fxt = (uint8)vrng_below(256);	/* hostile: any effect */
						e->fxp = (uint8)vrng_below(256);
					}
					if (vrng_chance(12))
						gen_fx(mod->len, &e->f2t, &e->f2p);
				}
			}
		}
	}
	if (carry) {
		/* loop start on row ra >= rows(pattern 1) of pattern 0, channel c; loop end on row rb of pattern 1, same channel (the
		 * global-target modes take it from any channel); nothing else in the rows in between */
		int c = vrng_below(mod->chn), ra = vrng_range(carry_rows[1], carry_rows[0] - 1), rb = vrng_below(carry_rows[1]);
		int c2 = vrng_chance(70) ? c : (int)vrng_below(mod->chn);
		struct xmp_event *e;
		for (j = 0; j < mod->chn; j++) {
			struct xmp_track *t0 = mod->xxt[mod->xxp[0]->index[j]], *t1 = mod->xxt[mod->xxp[1]->index[j]];
			for (k = ra; k < t0->rows; k++)
				t0->event[k].fxt = t0->event[k].fxp = t0->event[k].f2t = t0->event[k].f2p = 0;
			for (k = 0; k <= rb && k < t1->rows; k++)
				t1->event[k].fxt = t1->event[k].fxp = t1->event[k].f2t = t1->event[k].f2p = 0;
		}
		e = &mod->xxt[mod->xxp[0]->index[c]]->event[ra];
		e->fxt = FX_EXTENDED;
		e->fxp = EX_PATTERN_LOOP << 4;
		e = &mod->xxt[mod->xxp[1]->index[c2]]->event[rb];
		e->fxt = FX_EXTENDED;
		e->fxp = (EX_PATTERN_LOOP << 4) | vrng_range(1, 3);
		g_carry_modules++;
	}
	m->quirk |= quirk;
	m->read_event_type = rmode;
	m->flow_mode = flowmodes[vrng_below(10)];
	if (vrng_chance(10))
		m->time_factor = MED_TIME_FACTOR;
	if (vrng_chance(10))
		m->rrate = NTSC_RATE;

	libxmp_load_epilogue(ctx);
	ret = libxmp_prepare_scan(ctx);
	if (ret >= 0)
		ret = libxmp_scan_sequences(ctx);
	ctx->state = XMP_STATE_LOADED;	/* so that xmp_release_module cleans up */
	snprintf(desc, dsz, "chn=%d pat=%d len=%d quirk=%#x rmode=%d flow=%#x tf=%g", mod->chn, mod->pat, mod->len,
		 m->quirk, rmode, m->flow_mode, m->time_factor);
	return ret;
}

/* ------------------------------------------------------------------ */
/* one case                                                            */
/* ------------------------------------------------------------------ */
static long g_frames, g_ends, g_ctl, g_inject, g_repos, g_rowadv, g_ordadv, g_loopinc, g_tfcalls, g_capped,
	    g_minclamp, g_st26, g_assume;

static int gen_pos_arg(int len, int cur)
{
	switch (vrng_below(9)) {
	case 0: return 0;
	case 1: return len - 1;
	case 2: return len;
	case 3: return -1;
	case 4: return cur;
	case 5: return cur + 1;
	case 6: return vrng_chance(50) ? INT_MAX : INT_MIN;
	default: return vrng_range(-2, len + 1);
	}
}

static void do_control(xmp_context c, struct context_data *ctx, int *stopped, int force)
{
	struct xmp_module *mod = &ctx->m.mod;
	int pre[NST], post[NST], kind, arg = 0, ret = 0;
	struct xmp_frame_info fi;

	xmp_get_frame_info(c, &fi);
	get_state(ctx, pre);
	kind = force >= 0 ? (force == 0 ? 0 : 7) : (int)vrng_below(11);
	switch (kind) {
	case 0: case 1: case 2:
		kind = 0;
		arg = force == 0 ? (int)vrng_below(mod->len > 0 ? mod->len : 1) : gen_pos_arg(mod->len, ctx->p.pos);
		ret = xmp_set_position(c, arg);
		break;
	case 3: case 4:
		kind = 1;
		ret = xmp_next_position(c);
		break;
	case 5: case 6:
		kind = 2;
		ret = xmp_prev_position(c);
		break;
	case 7:
		kind = 3;
		switch (vrng_below(6)) {
		case 0: arg = 0; break;
		case 1: arg = fi.num_rows - 1; break;
		case 2: arg = fi.num_rows; break;
		case 3: arg = -1; break;
		default: arg = vrng_range(-1, 70); break;
		}
		if (force == 3) {
			/* right after a position call: rows of the target pattern vs the cached f->num_rows */
			switch (vrng_below(5)) {
			case 0: arg = fi.num_rows - 1; break;
			case 1: arg = fi.num_rows; break;
			case 2: arg = ctx->p.flow.num_rows - 1; break;
			case 3: arg = ctx->p.flow.num_rows; break;
			default: arg = vrng_range(0, ctx->p.flow.num_rows > fi.num_rows ? ctx->p.flow.num_rows : fi.num_rows + 1); break;
			}
		}
		ret = xmp_set_row(c, arg);
		break;
	case 8:
		kind = 4;
		{
			long long span = fi.total_time > 0 ? (long long)fi.total_time + fi.total_time / 4 + 10 : 1000;
			if (span > INT_MAX)
				span = INT_MAX;
			arg = vrng_chance(15) ? -5 : (vrng_chance(15) ? INT_MAX : (int)vrng_below((uint32)span));
		}
		ret = xmp_seek_time(c, arg);
		break;
	case 9:
		kind = 5;
		xmp_stop_module(c);
		break;
	default:
		kind = 6;
		xmp_restart_module(c);
		break;
	}
	get_state(ctx, post);
	printf("D ctl %d %d", kind, arg);
	put_state(pre);
	printf("\nE c");
	put_state(post);
	printf("\n");
	(void)ret;
	*stopped = (ctx->p.pos == -2);
	g_ctl++;
}

static void do_inject(xmp_context c, struct context_data *ctx)
{
	struct xmp_event ev;
	int chn;
	if (ctx->m.mod.chn <= 0)
		return;
	memset(&ev, 0, sizeof(ev));
	chn = vrng_below(ctx->m.mod.chn);
	gen_fx(ctx->m.mod.len, &ev.fxt, &ev.fxp);
	if (vrng_chance(30))
		gen_fx(ctx->m.mod.len, &ev.f2t, &ev.f2p);
	xmp_inject_event(c, chn, &ev);
	g_inject++;
}

/* each signature is printed once per case */
static const char *g_seen_sig[32];
static int g_nseen;
static int first_time(const char *sig)
{
	int i;
	for (i = 0; i < g_nseen; i++)
		if (!strcmp(g_seen_sig[i], sig))
			return 0;
	if (g_nseen < 32)
		g_seen_sig[g_nseen++] = sig;
	return 1;
}

/* the C16 clauses on xmp_frame_info; prints O lines; returns number of failures */
static int oracle(xmp_context c, struct context_data *ctx, int frameno, int rate, int format, int tf_called,
		  int *prev_loop, const char *what)
{
	struct xmp_frame_info fi;
	struct xmp_module *mod = &ctx->m.mod;
	struct module_data *m = &ctx->m;
	int fails = 0, fb, ticks;
	memset(&fi, 0, sizeof(fi));
	xmp_get_frame_info(c, &fi);
#define FAIL(sig, ...) do { fails++; if (first_time(sig)) { printf("O %s frame %d (%s): ", sig, frameno, what); printf(__VA_ARGS__); printf("\n"); } } while (0)
	if (fi.pos < 0 || fi.pos >= mod->len)
		FAIL("pos:range", "pos %d not in [0,%d)", fi.pos, mod->len);
	else {
		if (fi.pos != ctx->p.pos)
			FAIL("pos:fallback", "reported pos %d but player pos is %d", fi.pos, ctx->p.pos);
		if (fi.pattern != mod->xxo[fi.pos])
			FAIL("pattern:mismatch", "pattern %d but xxo[%d]=%d", fi.pattern, fi.pos, mod->xxo[fi.pos]);
		if (fi.pattern < 0 || fi.pattern >= mod->pat)
			FAIL("pattern:range", "pattern %d is not a real pattern (pat=%d)", fi.pattern, mod->pat);
		else {
			int rows = mod->xxp[fi.pattern]->rows;
			if (fi.num_rows != rows)
				FAIL("rows:mismatch", "num_rows %d but pattern has %d", fi.num_rows, rows);
			if (fi.row < 0 || fi.row >= rows) {
				if (ctx->p.flow.num_rows != rows)
					FAIL("row:stale_num_rows", "row %d not in [0,%d) of pattern %d at pos %d; f->num_rows=%d is stale",
					     fi.row, rows, fi.pattern, fi.pos, ctx->p.flow.num_rows);
				else
					FAIL("row:range", "row %d not in [0,%d) of pattern %d at pos %d", fi.row, rows,
					     fi.pattern, fi.pos);
			}
		}
	}
	if (fi.speed < 1 || fi.speed > 255)
		FAIL("speed:range", "speed %d", fi.speed);
	if (fi.bpm <= 0)
		FAIL("bpm:nonpositive", "bpm %d", fi.bpm);
	if (fi.frame_time <= 0)
		FAIL("frametime:nonpositive", "frame_time %d us (bpm %d time_factor %g rrate %g)", fi.frame_time, fi.bpm,
		     m->time_factor, m->rrate);
	fb = ((format & XMP_FORMAT_MONO) ? 1 : 2) * ((format & XMP_FORMAT_8BIT) ? 1 : 2);
	if (fi.buffer_size <= 0 || fi.buffer_size % fb != 0)
		FAIL("framesize:partial", "buffer_size %d is not a positive multiple of %d", fi.buffer_size, fb);
	ticks = fi.buffer_size / fb;
	if (ticks != ctx->s.ticksize)
		FAIL("framesize:ticksize", "buffer_size %d / %d != s->ticksize %d", fi.buffer_size, fb, ctx->s.ticksize);
	if (fi.buffer_size > XMP_MAX_FRAMESIZE) {
		if (tf_called)
			FAIL("framesize:tempo_factor", "buffer_size %d > XMP_MAX_FRAMESIZE %d (rate %d fmt %d bpm %d time_factor %g rrate %g after xmp_set_tempo_factor)",
			     fi.buffer_size, XMP_MAX_FRAMESIZE, rate, format, fi.bpm, m->time_factor, m->rrate);
		else
			FAIL("framesize:time_factor", "buffer_size %d > XMP_MAX_FRAMESIZE %d (rate %d fmt %d bpm %d time_factor %g rrate %g)",
			     fi.buffer_size, XMP_MAX_FRAMESIZE, rate, format, fi.bpm, m->time_factor, m->rrate);
	}
	if (fi.total_size != XMP_MAX_FRAMESIZE)
		FAIL("framesize:total", "total_size %d", fi.total_size);
	/* "unless the frame-size cap applies": the mixer clamped what libxmp_mixer_get_ticksize asked for
	 * (upper cap / invalid), or the anticlick minimum of 1 << ANTICLICK_SHIFT frames was substituted */
	if (libxmp_mixer_get_ticksize(rate, m->time_factor, m->rrate, fi.bpm) != ticks)
		g_capped++;
	else if (fi.bpm > 0 && (double)rate * m->time_factor * m->rrate / fi.bpm / 1000 < (double)(1 << ANTICLICK_SHIFT))
		g_minclamp++;
	else if (fi.frame_time > 0) {
		/* ticks = floor(rate*X/1000), frame_time = floor(1000*X) us (X in ms): |ticks - rate*ft/1e6| < 1 + rate/1e6 */
		double want = (double)rate * (double)fi.frame_time / 1e6;
		if (fabs((double)ticks - want) > 1.0 + rate / 1e6 + 1e-6)
			FAIL("framesize:disagree", "buffer holds %d frames but rate %d x frame_time %d us = %.3f frames", ticks,
			     rate, fi.frame_time, want);
	}
	if (fi.virt_used < 0 || fi.virt_used > fi.virt_channels)
		FAIL("virt:used", "virt_used %d virt_channels %d", fi.virt_used, fi.virt_channels);
	if (fi.sequence < 0 || fi.sequence >= m->num_sequences)
		FAIL("sequence:range", "sequence %d not in [0,%d)", fi.sequence, m->num_sequences);
	if (*prev_loop >= 0 && fi.loop_count < *prev_loop)
		FAIL("loopcount:decrease", "loop_count %d after %d with no position-control call in between", fi.loop_count,
		     *prev_loop);
	if (fi.loop_count > *prev_loop && *prev_loop >= 0)
		g_loopinc++;
	*prev_loop = fi.loop_count;
	{
		const char *bad = check_vinv(ctx);
		if (bad && !g_virt_fail_reported) {
			g_virt_fail_reported = 1;
			FAIL("virt:tables", "%s", bad);
		}
	}
#undef FAIL
	return fails;
}

/* EffectRange: what the model assumes about the effect-owned variables after a frame */
static void monitor_effrange(const int *v, int frameno)
{
	int st = v[7];
	const char *bad = NULL;
	if (v[10] != 0 && v[10] != 1) bad = "pbreak";
	else if (v[11] < -1 || v[11] > 255) bad = "jump";
	else if (v[13] < 0) bad = "jumpline";
	else if (v[12] < 0) bad = "delay";
	else if (v[15] < 0) bad = "rowdelay";
	else if (v[4] < 1 || v[4] > 255) bad = "speed";
	else if (v[5] < 1) bad = "bpm";
	else if (st != 0 && (st < 0 || st > 0x1ffff || (st & 0xff) == 0 || (st & 0xff00) == 0)) bad = "st26";
	if (bad && first_time("A effrange")) {
		printf("A effrange frame %d: %s out of the assumed range:", frameno, bad);
		put_state(v);
		printf("\n");
		g_assume++;
	}
}

/* xmp_set_tempo_factor against Tick.setTempoFactor: acceptance at the current rate / rrate / tempo; an accepted
 * factor is stored as 10*val, a refused one leaves m->time_factor alone (checked here, in C) */
static long g_tf_acc, g_tf_ref;
static int tempo_factor_logged(xmp_context c, struct context_data *ctx, double tf)
{
	double before = ctx->m.time_factor;
	int r;
	printf("D tfac %d", ctx->s.freq);
	put_double(tf);
	put_double(ctx->m.rrate);
	printf(" %d\n", ctx->p.bpm);
	r = xmp_set_tempo_factor(c, tf);
	printf("E f %d\n", r == 0 ? 1 : 0);
	if (r == 0 ? ctx->m.time_factor != tf * 10 : ctx->m.time_factor != before) {
		printf("A tfac xmp_set_tempo_factor(%g) returned %d, time_factor %g -> %g\n", tf, r, before, ctx->m.time_factor);
		g_assume++;
	}
	if (r == 0)
		g_tf_acc++;
	else
		g_tf_ref++;
	return r;
}

static int do_tempo_factor(xmp_context c, struct context_data *ctx, double tf)
{
	/* now and then a value that must be refused first (separate random stream: the case is not perturbed,
	 * a refused call changes nothing) */
	if (vd_chance() && vd_chance()) {
		static const double badv[] = { 0.0, -2.5, -0.0, 1e300 };
		tempo_factor_logged(c, ctx, badv[(g_vd_state >> 33) & 3]);
	}
	g_tfcalls++;
	return tempo_factor_logged(c, ctx, tf);
}

/* watchdog: a frame that does not return (e.g. next_order spinning on an order list that violates OrdWF) becomes a
 * replayable oracle failure at once instead of a shard time-out */
#include <signal.h>
#include <unistd.h>
static volatile int g_wd_frame;
static void on_alarm(int sig)
{
	(void)sig;
	printf("O hang:xmp_play_frame frame %d: xmp_play_frame did not return within 20 s\nZ\n", g_wd_frame);
	fflush(stdout);
	_exit(0);
}


/* ------------------------------------------------------------------ */
/* frames played inside xmp_play_buffer                                */
/* ------------------------------------------------------------------ */
/* xmp_play_frame ends with a call of libxmp_mixer_softmixer (another TU: the linker's --wrap catches it).
 * While a buffer call is running the hook below reports every frame exactly like the main loop does for a
 * direct xmp_play_frame: kernel correspondence from the state before the frame (= the state at the entry
 * of the buffer call, or after the previous hooked frame: nothing but xmp_play_frame may touch the player
 * state in between), every clause of the oracle, the monitored ranges. */
#define PB_MAXLC 96
static struct {
	int active;
	xmp_context c;
	struct context_data *ctx;
	int rate, format, tf_called, frameno;
	int *prev_loop;
	const char *what;
	int pre[NST];
	int nframes, fails;
	int lcs[PB_MAXLC];
} g_pb;
static long g_pb_calls, g_pb_frames, g_pb_end, g_pb_end_limit, g_pb_zero, g_pb_multi, g_pb_after_end, g_pb_reset;

static void report_ok_frame(xmp_context c, struct context_data *ctx, const int *pre, const int *post, int frameno,
			    int rate, int format, int tf_called, int *prev_loop, const char *what, int *fails)
{
	printf("D frame");
	put_state(pre);
	printf("\n");
	printf("E k ok %d %d %d %d %d %d %d %d %d %d %d %d %d\n", post[0], post[1], post[2], post[3], post[16],
	       post[17], post[8], post[9], g_mid_taken, g_mid_taken ? g_mid[0] : 0, g_mid_taken ? g_mid[1] : 0,
	       g_mid_taken ? g_mid[2] : 0, g_mid_taken ? g_mid[3] : 0);
	g_frames++;
	/* a pattern-loop jump whose target lies at or beyond the end of the pattern being played (statistics) */
	if (!g_mid_taken && post[3] == 0 && pre[10] == 0 && pre[14] >= 0 && pre[14] >= pre[16])
		g_carry_jumps++;
	if (g_mid_taken)
		g_repos++;
	else if (post[0] != pre[0] || (post[3] == 0 && post[2] <= pre[2] && pre[3] >= 0))
		g_ordadv++;
	else if (post[3] == 0)
		g_rowadv++;
	*fails += oracle(c, ctx, frameno, rate, format, tf_called, prev_loop, what);
	monitor_effrange(post, frameno);
	if (ctx->p.frame_time != ctx->m.time_factor * ctx->m.rrate / ctx->p.bpm && first_time("A frametime")) {
		printf("A frametime frame %d: p->frame_time %.9g is not time_factor*rrate/bpm = %.9g (bpm %d, time factor %g)\n",
		       frameno, ctx->p.frame_time, ctx->m.time_factor * ctx->m.rrate / ctx->p.bpm, ctx->p.bpm, ctx->m.time_factor);
		g_assume++;
	}
}

void __real_libxmp_mixer_softmixer(struct context_data *ctx);
void __wrap_libxmp_mixer_softmixer(struct context_data *ctx)
{
	int post[NST];
	__real_libxmp_mixer_softmixer(ctx);
	if (!g_pb.active || ctx != g_pb.ctx)
		return;
	get_state(ctx, post);
	report_ok_frame(g_pb.c, ctx, g_pb.pre, post, g_pb.frameno, g_pb.rate, g_pb.format, g_pb.tf_called, g_pb.prev_loop,
			g_pb.what, &g_pb.fails);
	if (g_pb.nframes < PB_MAXLC)
		g_pb.lcs[g_pb.nframes] = post[8];
	g_pb.nframes++;
	g_pb_frames++;
	memcpy(g_pb.pre, post, sizeof(post));
	g_mid_taken = 0;
}

/* one xmp_play_buffer(out, size, loop) call; returns its return value, *nplayed = frames played inside */
static int do_buffer(xmp_context c, struct context_data *ctx, int frameno, int rate, int format, int tf_called,
		     int *prev_loop, const char *what, int pb_loop, int *fails, int *nplayed)
{
	static char *buf;
	static const int bufcap = 6 * XMP_MAX_FRAMESIZE;
	struct xmp_frame_info fi;
	int bs, fb, size, loop, ret, post[NST], k, prev = *prev_loop;

	if (buf == NULL)
		buf = (char *)malloc(bufcap);
	memset(&fi, 0, sizeof(fi));
	xmp_get_frame_info(c, &fi);
	fb = ((format & XMP_FORMAT_MONO) ? 1 : 2) * ((format & XMP_FORMAT_8BIT) ? 1 : 2);
	bs = fi.buffer_size > 0 ? fi.buffer_size : 64 * fb;
	loop = vrng_chance(75) ? pb_loop : (int)vrng_below(3);
	switch (vrng_below(10)) {
	case 0: size = 1; break;
	case 1: size = fb * vrng_range(1, 9); break;
	case 2: size = bs - 1; break;
	case 3: size = bs; break;
	case 4: size = bs + 1; break;
	case 5: size = 2 * bs + 3; break;
	case 6: size = vrng_range(1, 5 * bs); break;
	case 7: size = vrng_range(2, 12) * bs; break;
	case 8: size = XMP_MAX_FRAMESIZE < 16 * bs ? XMP_MAX_FRAMESIZE : 16 * bs; break;
	default: size = vrng_range(1, bs); break;
	}
	if (size < 1)
		size = 1;
	if (size > bufcap)
		size = bufcap;

	get_state(ctx, g_pb.pre);
	g_pb.c = c; g_pb.ctx = ctx; g_pb.rate = rate; g_pb.format = format; g_pb.tf_called = tf_called;
	g_pb.frameno = frameno; g_pb.prev_loop = prev_loop; g_pb.what = what; g_pb.nframes = 0; g_pb.fails = 0;
	g_pb.active = 1;
	g_in_frame = 1;
	g_mid_taken = 0;
	g_wd_frame = frameno;
	signal(SIGALRM, on_alarm);
	alarm(20);
	ret = xmp_play_buffer(c, buf, size, loop);
	alarm(0);
	g_in_frame = 0;
	g_pb.active = 0;
	get_state(ctx, post);
	g_pb_calls++;
	*fails += g_pb.fails;
	*nplayed = g_pb.nframes;
	if (g_pb.nframes > 1)
		g_pb_multi++;
	if (g_pb.nframes == 0)
		g_pb_zero++;

	/* stop rule (Seq.framesUntilLimit): no frame is played after one that reached the loop limit */
	if (g_pb.nframes <= PB_MAXLC) {
		printf("D pbuf %d", loop);
		for (k = 0; k < g_pb.nframes; k++)
			printf(" %d", g_pb.lcs[k]);
		printf("\nE b %d\n", g_pb.nframes);
	}
	/* Seq.playBuffer: the call leaves the player in the state after its last frame (or untouched) */
	for (k = 0; k < NST; k++) {
		if (post[k] != g_pb.pre[k] && first_time("A pbufstate")) {
			printf("A pbufstate frame %d: xmp_play_buffer(size %d, loop %d) = %d changed player field #%d from %d to %d outside xmp_play_frame\n",
			       frameno, size, loop, ret, k, g_pb.pre[k], post[k]);
			g_assume++;
		}
	}
	/* "between position-control calls the loop counter never decreases": also across the return of the buffer
	 * call, whatever it returns (the per-frame clauses were evaluated inside the call; here once more on the
	 * state the call leaves behind) */
	if (g_pb.nframes > 0)
		*fails += oracle(c, ctx, frameno, rate, format, tf_called, prev_loop, what);
	else {
		memset(&fi, 0, sizeof(fi));
		xmp_get_frame_info(c, &fi);
		if (prev >= 0 && fi.loop_count < prev) {
			(*fails)++;
			if (first_time("loopcount:decrease"))
				printf("O loopcount:decrease frame %d (%s): loop_count %d after %d across xmp_play_buffer(size %d, loop %d) = %d with no position-control call in between\n",
				       frameno, what, fi.loop_count, prev, size, loop, ret);
		}
		if (prev >= 0)
			*prev_loop = fi.loop_count;
	}
	if (ret == -XMP_END) {
		g_pb_end++;
		if (g_pb.nframes > 0)
			g_pb_end_limit++;
	} else if (ret != 0) {
		printf("O buffer:error frame %d: xmp_play_buffer returned %d\n", frameno, ret);
		(*fails)++;
	}
	return ret;
}

/* ------------------------------------------------------------------ */
/* fxall: every effect number with every parameter in a row of a module */
/* ------------------------------------------------------------------ */
/* A silent 4-channel module (3 orders, patterns of 8 and 4 rows) under a configuration (player mode,
 * quirks, flow mode, time factor, flags).  One experiment: a set-up event in row 0 and the events under
 * test in row r of the pattern at order o; xmp_set_position(o) + xmp_play_frame plays row 0 (reposition),
 * the flow record S0 is dumped, xmp_set_row(r) + xmp_play_frame plays the first tick of row r, the flow
 * record S1 is dumped.  The driver computes S1 from S0 with Fx.readRow + Seq.st26Step. */
#define FXCH 4
struct fx_cfg {
	int rmode, quirk, flow, flags, gvolbase, far, notes, voices;
	double tf;
};

static int create_fx_module(struct context_data *ctx, const struct fx_cfg *cf)
{
	struct module_data *m = &ctx->m;
	struct xmp_module *mod = &m->mod;
	int ret;
	libxmp_load_prologue(ctx);
	mod->chn = FXCH;
	mod->pat = 2;
	mod->ins = mod->smp = 1;
	mod->trk = mod->pat * mod->chn;
	mod->len = 3;
	mod->xxo[0] = 0; mod->xxo[1] = 1; mod->xxo[2] = 0;
	mod->rst = 0;
	mod->spd = 6;
	mod->bpm = 125;
	if (libxmp_init_pattern(mod) < 0)
		return -1;
	if (libxmp_alloc_pattern_tracks(mod, 0, 8) < 0 || libxmp_alloc_pattern_tracks(mod, 1, 4) < 0)
		return -1;
	if (libxmp_init_instrument(m) < 0)
		return -1;
	mod->xxi[0].nsm = 1;
	if (libxmp_alloc_subinstrument(mod, 0, 1) < 0)
		return -1;
	mod->xxi[0].sub[0].pan = 0x80;
	mod->xxi[0].sub[0].vol = 0x40;
	mod->xxi[0].sub[0].sid = 0;
	mod->xxs[0].len = 64;
	mod->xxs[0].lps = 0;
	mod->xxs[0].lpe = 64;
	mod->xxs[0].data = (unsigned char *)calloc(1, 64 + 16);
	if (mod->xxs[0].data == NULL)
		return -1;
	mod->xxs[0].data += 4;
	if (cf->notes) {
		/* notes are played: a looped sample keeps its voice busy, "continue" keeps the old voice in the background */
		mod->xxs[0].flg = XMP_SAMPLE_LOOP;
		if (cf->quirk & QUIRK_VIRTUAL)
			mod->xxi[0].sub[0].nna = XMP_INST_NNA_CONT;
	}
	m->quirk |= cf->quirk;
	m->read_event_type = cf->rmode;
	m->flow_mode = cf->flow;
	m->time_factor = cf->tf;
	m->gvolbase = cf->gvolbase;
	if (cf->far) {
		/* what far_load.c does: module extras, initial coarse tempo from the header, speed / tempo from it */
		struct far_module_extras *me;
		if (libxmp_far_new_module_extras(m) != 0)
			return -1;
		me = FAR_MODULE_EXTRAS(*m);
		me->init_coarse_tempo = me->coarse_tempo = cf->far - 1;
		me->fine_tempo = 0;
		me->tempo_mode = 1;
		libxmp_far_translate_tempo(1, 0, me->coarse_tempo, &me->fine_tempo, &mod->spd, &mod->bpm);
	}
	libxmp_load_epilogue(ctx);
	ret = libxmp_prepare_scan(ctx);
	if (ret >= 0)
		ret = libxmp_scan_sequences(ctx);
	ctx->state = XMP_STATE_LOADED;
	return ret;
}

static const int setup_fx[] = {
	FX_JUMP, FX_BREAK, FX_IT_BREAK, FX_EXTENDED, FX_EXTENDED, FX_EXTENDED, FX_PATT_DELAY, FX_IT_ROWDELAY, FX_SPEED,
	FX_S3M_SPEED, FX_S3M_BPM, FX_IT_BPM, FX_ICE_SPEED, FX_LINE_JUMP, FX_SPEED_CP, FX_ULT_TEMPO, FX_GLOBALVOL
};

/* a flow effect without note delay (a delayed event would fire inside a later frame) */
static int g_fx_far;	/* the module of this configuration carries FAR extras */
static int g_fx_notes;	/* events also carry notes (voices are allocated; with few voices some notes get none) */
static long g_fx_novoice;
static void maybe_note(struct xmp_event *e)
{
	if (g_fx_notes && vrng_chance(55)) {
		e->note = (uint8)vrng_range(37, 84);
		e->ins = 1;
	}
}
static void gen_setup_fx(uint8 *t, uint8 *pr)
{
	int x = setup_fx[vrng_below((int)(sizeof(setup_fx) / sizeof(setup_fx[0])))];
	int v = vrng_chance(30) ? (int)vrng_below(4) : (int)vrng_below(256);
	if (g_fx_far && vrng_chance(60)) {
		/* FAR tempo effects: coarse 0..15 / mode, fine up / down (mostly down, to reach negative tempos) / reset */
		if (vrng_chance(45)) {
			x = FX_FAR_TEMPO;
			v = vrng_chance(80) ? (int)vrng_below(16) : (vrng_chance(70) ? (int)vrng_range(1, 2) << 4 : (int)vrng_below(256));
		} else {
			x = FX_FAR_F_TEMPO;
			v = vrng_chance(60) ? (int)vrng_range(8, 15) : (vrng_chance(70) ? (int)vrng_range(1, 15) << 4 : 0);
		}
	}
	if (x == FX_EXTENDED)
		v = ((vrng_chance(70) ? EX_PATTERN_LOOP : EX_PATT_DELAY) << 4) | vrng_below(vrng_chance(50) ? 3 : 16);
	*t = (uint8)x;
	*pr = (uint8)v;
}

static long g_fxrow_n, g_fxrow_flow, g_fxrow_partner, g_tslide_n, g_far_negative, g_far_oldmode;
static int g_fx_extreme_tf;

static void put_chan_events(struct context_data *ctx, int pat, int row, const int *vm)
{
	struct xmp_module *mod = &ctx->m.mod;
	int k;
	for (k = 0; k < FXCH; k++) {
		struct xmp_event *e = &mod->xxt[mod->xxp[pat]->index[k]]->event[row];
		printf(" %d %d %d %d %d", e->fxt, e->fxp, e->f2t, e->f2p, vm[k]);
	}
}

static int row_has_gvolslide(struct context_data *ctx, int pat, int row)
{
	struct xmp_module *mod = &ctx->m.mod;
	int k;
	for (k = 0; k < FXCH; k++) {
		struct xmp_event *e = &mod->xxt[mod->xxp[pat]->index[k]]->event[row];
		if (e->fxt == FX_GVOL_SLIDE || e->f2t == FX_GVOL_SLIDE)
			return 1;
	}
	return 0;
}

static void put_flow_w(struct context_data *ctx, int nloops, int gvol_wild)
{
	struct player_data *p = &ctx->p;
	struct flow_control *f = &p->flow;
	int i, fr[3];
	printf(" %d %d", p->speed, p->bpm);
	if (gvol_wild)
		printf(" *");
	else
		printf(" %d", p->gvol);
	get_far(ctx, fr);
	printf(" %d %d %d %d %d %d %d %d %d %d %d %d %d %d %d %d |", p->st26_speed, f->pbreak, f->jump, f->delay, f->jumpline, f->loop_dest,
	       f->rowdelay, f->rowdelay_set, f->jump_in_pat, f->loop_param, f->loop_start, f->loop_count, f->loop_active_num,
	       fr[0], fr[1], fr[2]);
	for (i = 0; i < nloops; i++)
		printf(" %d %d", f->loop[i].start, f->loop[i].count);
}

/* one experiment; the event under test (fxt, fxp) goes to lane `lane` of channel `tch` in row r */
static int fx_experiment(xmp_context c, struct context_data *ctx, int fxt, int fxp, int lane)
{
	struct xmp_module *mod = &ctx->m.mod;
	int o = vrng_chance(60) ? 0 : 1, pat = mod->xxo[o], rows = mod->xxp[pat]->rows;
	int r = vrng_range(1, rows - 1), tch = vrng_below(FXCH), k, vm[FXCH], gw, pre_bpm;
	struct xmp_event *e;

	for (k = 0; k < mod->trk; k++)
		memset(mod->xxt[k]->event, 0, sizeof(struct xmp_event) * mod->xxt[k]->rows);
	/* xmp_set_position onto the order being played does not reposition: move away first */
	if (o != 0 && ctx->p.ord == o) {
		xmp_set_position(c, 0);
		if (xmp_play_frame(c) != 0)
			return -1;
	}
	/* set-up row: usually one flow effect somewhere, sometimes two */
	if (vrng_chance(75)) {
		e = &mod->xxt[mod->xxp[pat]->index[vrng_below(FXCH)]]->event[0];
		gen_setup_fx(&e->fxt, &e->fxp);
		maybe_note(e);
		if (vrng_chance(25)) {
			e = &mod->xxt[mod->xxp[pat]->index[vrng_below(FXCH)]]->event[0];
			gen_setup_fx(&e->f2t, &e->f2p);
		}
	}
	/* the event under test */
	if (g_fx_notes) {
		/* notes on other channels of the set-up row and of the row under test use up the voices */
		for (k = 0; k < FXCH; k++) {
			maybe_note(&mod->xxt[mod->xxp[pat]->index[k]]->event[0]);
			if (k != tch)
				maybe_note(&mod->xxt[mod->xxp[pat]->index[k]]->event[r]);
		}
	}
	e = &mod->xxt[mod->xxp[pat]->index[tch]]->event[r];
	maybe_note(e);
	if (lane == 0) {
		e->fxt = (uint8)fxt;
		e->fxp = (uint8)fxp;
	} else {
		e->f2t = (uint8)fxt;
		e->f2p = (uint8)fxp;
	}
	/* partner: a flow effect on another channel of the same row, or in the lane of the same event that the
	 * reader handles FIRST (so that the ST3 effect memory the second one meets is the modelled one) */
	if (vrng_chance(55)) {
		int first_lane = ctx->m.read_event_type == READ_EVENT_IT ? 0 : 1;
		uint8 pt, pp;
		gen_setup_fx(&pt, &pp);
		if (vrng_chance(25) && lane != first_lane) {
			if (first_lane == 0) { e->fxt = pt; e->fxp = pp; } else { e->f2t = pt; e->f2p = pp; }
		} else {
			int och = (tch + 1 + (int)vrng_below(FXCH - 1)) % FXCH;
			struct xmp_event *e2 = &mod->xxt[mod->xxp[pat]->index[och]]->event[r];
			e2->fxt = pt;
			e2->fxp = pp;
		}
		g_fxrow_partner++;
	}

	if ((k = xmp_set_position(c, o)) < -1) {	/* -1 = "restart" when o is 0 */
		printf("A fxall xmp_set_position(%d) = %d\n", o, k);
		return -1;
	}
	if ((k = xmp_play_frame(c)) != 0) {
		printf("A fxall set-up frame: xmp_play_frame = %d (ord %d pos %d len %d)\n", k, ctx->p.ord, ctx->p.pos, mod->len);
		return -1;
	}
	for (k = 0; k < FXCH; k++)
		vm[k] = ctx->p.xc_data[k].vol.memory;
	gw = row_has_gvolslide(ctx, pat, 0) || row_has_gvolslide(ctx, pat, r);
	pre_bpm = ctx->p.bpm;
	if (g_fx_far) {
		int fr[3];
		static const int base[16] = { 256, 128, 64, 42, 32, 25, 21, 18, 16, 14, 12, 11, 10, 9, 9, 8 };
		get_far(ctx, fr);
		if (fr[1] >= 0 && fr[1] < 16 && base[fr[1]] + fr[2] < 0)
			g_far_negative++;	/* statistics only */
		if (fr[0] == 0)
			g_far_oldmode++;
	}
	printf("D fxrow");
	put_env(ctx);
	printf(" | %d %d 0 |", o, r);
	put_flow_w(ctx, FXCH, 0);
	printf(" |");
	put_chan_events(ctx, pat, r, vm);
	printf("\n");
	if ((k = xmp_set_row(c, r)) < 0) {
		printf("E r protocol-error\nA fxall xmp_set_row(%d) = %d (pos %d ord %d)\n", r, k, ctx->p.pos, ctx->p.ord);
		return -1;
	}
	if (ctx->p.ord != o || (k = xmp_play_frame(c)) != 0 || ctx->p.frame != 0 || ctx->p.row != r) {
		printf("E r protocol-error\nA fxall row frame: xmp_play_frame = %d, ord %d (want %d) row %d (want %d) frame %d\n", k, ctx->p.ord, o,
		       ctx->p.row, r, ctx->p.frame);
		return -1;
	}
	printf("E r");
	put_flow_w(ctx, FXCH, gw);
	printf("\n");
	{
		/* the speed / tempo clauses of the property on what this frame reports */
		struct xmp_frame_info fi;
		memset(&fi, 0, sizeof(fi));
		xmp_get_frame_info(c, &fi);
		if ((fi.bpm <= 0 || fi.frame_time <= 0) && pre_bpm > 0) {
			const char *sig = g_fx_extreme_tf ? "bpm:min_bpm_clamp" : "bpm:nonpositive";
			if (first_time(sig)) {
				printf("O %s time factor %g, tempo %d before the row, row events (fxt fxp f2t f2p vol.memory per channel):", sig,
				       ctx->m.time_factor, pre_bpm);
				put_chan_events(ctx, pat, r, vm);
				printf(": reported bpm %d, frame_time %d us\n", fi.bpm, fi.frame_time);
			}
		}
		if ((fi.speed < 1 || fi.speed > 255) && first_time("speed:range"))
			printf("O speed:range effect %#x parameter %#x (lane %d): reported speed %d\n", fxt, fxp, lane, fi.speed);
	}
	g_fxrow_n++;
	g_fxrow_flow += is_flow_fx(fxt);
	/* IT tempo slide (T0x / T1x): the next tick of the same row adds each channel's slide and clamps
	 * (Fx.tempoSlideStep); only when no other writer of the tempo can run in that tick */
	if (fxt == FX_IT_BPM && fxp < 0x20 && ctx->p.speed >= 2 && ctx->p.flow.delay == 0) {
		int pending = 0, n = 0, sl[FXCH], bpm0 = ctx->p.bpm;
		for (k = 0; k < ctx->p.virt.virt_channels; k++)
			if (ctx->p.xc_data[k].delay > 0)
				pending = 1;
		for (k = 0; k < FXCH; k++)
			if (ctx->p.xc_data[k].flags & TEMPO_SLIDE)
				sl[n++] = ctx->p.xc_data[k].tempo.slide;
		if (!pending && n > 0 && xmp_play_frame(c) == 0 && ctx->p.frame == 1) {
			printf("D tslide %d", bpm0);
			for (k = 0; k < n; k++)
				printf(" %d", sl[k]);
			printf("\nE ts %d\n", ctx->p.bpm);
			g_tslide_n++;
		}
	}
	return 0;
}

static int run_fxall(uint64_t seed, int cfgidx, int thorough)
{
	static const int rmodes[] = { READ_EVENT_MOD, READ_EVENT_FT2, READ_EVENT_ST3, READ_EVENT_IT, READ_EVENT_MED };
	static const int flows[] = { FLOW_MODE_GENERIC, FLOW_MODE_ST3_321, FLOW_MODE_ST3_301, FLOW_MODE_IT_100, FLOW_MODE_IT_210,
		FLOW_MODE_MPT_116, FLOW_MODE_ORPHEUS, FLOW_MODE_LIQUID, FLOW_MODE_LIQUID_COMPAT, FLOW_MODE_OCTALYSER,
		FLOW_MODE_DTM_203, FLOW_MODE_DTM_19 };
	static const double tfs[] = { DEFAULT_TIME_FACTOR, DEFAULT_TIME_FACTOR, MED_TIME_FACTOR, 40.0, 2.5 };
	static const int sparse[] = { 0x00, 0x01, 0x0f, 0x10, 0x1f, 0x20, 0x2f, 0x30, 0x60, 0x7f, 0x80, 0xd1, 0xe3, 0xff };
	struct fx_cfg cf;
	xmp_context c;
	struct context_data *ctx;
	int fxt, lane, k, bad = 0;

	vrng_seed(seed * 2654435761ULL + (uint64_t)cfgidx * 97);
	cf.rmode = rmodes[cfgidx % 5];	/* consecutive configurations cover every player mode */
	cf.flow = flows[vrng_below(12)];
	cf.quirk = (vrng_chance(40) ? QUIRK_ST3BUGS : 0) | (vrng_chance(30) ? QUIRK_NOBPM : 0) |
		   (vrng_chance(40) ? QUIRK_FT2BUGS : 0) | (vrng_chance(20) ? QUIRK_FINEFX : 0);
	cf.flags = vrng_chance(20) ? XMP_FLAGS_VBLANK : 0;
	cf.gvolbase = vrng_chance(70) ? 0x40 : 0x80;
	cf.tf = tfs[vrng_below(5)];
	/* configurations 1000+: time factors at which (int)(0.5 + time_factor * XMP_MIN_BPM / 10) leaves the byte range
	 * (xmp_set_tempo_factor(12.8) -> 256, (0.02) -> 0); flow effects only */
	g_fx_extreme_tf = cfgidx >= 1000 && cfgidx < 2000;
	if (g_fx_extreme_tf)
		cf.tf = (cfgidx & 1) ? 0.2 : 128.0;
	/* configurations 2000+: a module with FAR extras (what far_load.c sets up), initial coarse tempo 0..15 */
	cf.far = 0;
	if (cfgidx >= 2000) {
		cf.far = 1 + (cfgidx % 16);
		cf.rmode = READ_EVENT_MOD;
		cf.quirk = QUIRK_VSALL | QUIRK_PBALL | QUIRK_VIBALL;
		cf.tf = FAR_TIME_FACTOR;
		cf.flags = 0;
	}
	g_fx_far = cf.far;
	/* notes + few voices: every Impulse Tracker configuration (virtual channels, NNA continue, 1 / 2 / 4 voices: a note that gets
	 * no voice must still run its effects) and a third of the others */
	cf.notes = 0;
	cf.voices = 0;
	if (!cf.far && cfgidx < 1000) {
		static const int vv[] = { 1, 2, 4 };
		if (cf.rmode == READ_EVENT_IT) {
			cf.notes = 1;
			cf.quirk |= QUIRK_VIRTUAL;
			cf.voices = vv[(cfgidx / 5) % 3];
		} else if (cf.rmode != READ_EVENT_MED && vrng_chance(33)) {	/* (the MED reader needs MED extras for notes) */
			cf.notes = 1;
			cf.voices = vrng_chance(50) ? vv[vrng_below(3)] : 0;
		}
	}
	g_fx_notes = cf.notes;
	g_nseen = 0;
	c = xmp_create_context();
	ctx = (struct context_data *)c;
	if (create_fx_module(ctx, &cf) < 0) {
		printf("N fx_unloadable 1\n");
		xmp_release_module(c);
		xmp_free_context(c);
		return -1;
	}
	if (cf.flags)
		xmp_set_player(c, XMP_PLAYER_FLAGS, cf.flags);
	if (cf.voices)
		xmp_set_player(c, XMP_PLAYER_VOICES, cf.voices);
	printf("B fxall %llu cfg=%d rmode=%d quirk=%#x flow=%#x flags=%d tf=%g gvolbase=%d far=%d notes=%d voices=%d\n", (unsigned long long)seed, cfgidx,
	       cf.rmode, cf.quirk, cf.flow, cf.flags, cf.tf, cf.gvolbase, cf.far, cf.notes, cf.voices);
	fprintf(stderr, "CASE fxall %llu cfg=%d\n", (unsigned long long)seed, cfgidx);
	if (xmp_start_player(c, 8000, XMP_FORMAT_MONO) < 0) {
		printf("N start_failed 1\nZ\n");
		xmp_release_module(c);
		xmp_free_context(c);
		return -1;
	}
	for (lane = 0; lane < 2 && !bad; lane++) {
		for (fxt = 0; fxt < 256 && !bad; fxt++) {
			if ((g_fx_extreme_tf || (g_fx_far && !thorough)) && !is_flow_fx(fxt))
				continue;
			if (thorough || is_flow_fx(fxt)) {
				for (k = 0; k < 256 && !bad; k++)
					bad = fx_experiment(c, ctx, fxt, k, lane) < 0;
			} else {
				for (k = 0; k < (int)(sizeof(sparse) / sizeof(sparse[0])) && !bad; k++)
					bad = fx_experiment(c, ctx, fxt, sparse[k], lane) < 0;
				for (k = 0; k < 2 && !bad; k++)
					bad = fx_experiment(c, ctx, fxt, (int)vrng_below(256), lane) < 0;
			}
		}
	}
	if (bad)
		printf("A fxall experiment protocol failed (set_position / set_row / play_frame refused)\n");
	printf("Z\n");
	xmp_end_player(c);
	xmp_release_module(c);
	xmp_free_context(c);
	return 0;
}

/* the sequence labels of the orders: every one names a kept sequence or is 0xff */
static int seqctl_bad_order(struct context_data *ctx)
{
	int k, bad = -1;
	for (k = 0; k < ctx->m.mod.len && k < XMP_MAX_MOD_LENGTH; k++)
		if (ctx->p.sequence_control[k] != 0xff && ctx->p.sequence_control[k] >= ctx->m.num_sequences)
			bad = k;
	return bad;
}

/* xmp_set_player(XMP_PLAYER_MODE / XMP_PLAYER_CFLAGS) while playing: the module is rescanned (sequences, entry
 * points, labels, order info, quirks change; orders and patterns stay), p->sequence is fixed up.  The new tables
 * are dumped for the driver (Seq.rescanFix = ctl kind 8 is evaluated against them) and the sequence clause of
 * the property is evaluated at once.  Most of the time the player is first moved into the LAST sequence, the
 * index most likely to fall out of a shorter sequence table. */
static int do_mode_switch(xmp_context c, struct context_data *ctx, int *stopped)
{
	struct module_data *m = &ctx->m;
	int pre[NST], post[NST], r, val, nseq0 = m->num_sequences, is_mode;

	if (m->num_sequences > 1 && vrng_chance(65)) {
		int k = vrng_chance(65) ? m->num_sequences - 1 : (int)vrng_below(m->num_sequences);
		int ep = m->seq_data[k].entry_point;
		get_state(ctx, pre);
		xmp_set_position(c, ep);
		get_state(ctx, post);
		printf("D ctl 0 %d", ep);
		put_state(pre);
		printf("\nE c");
		put_state(post);
		printf("\n");
		g_ctl++;
		*stopped = (ctx->p.pos == -2);
		if (ctx->p.sequence == m->num_sequences - 1)
			g_modesw_lastseq++;
	}
	get_state(ctx, pre);
	is_mode = vrng_chance(80);
	if (is_mode) {
		val = vrng_chance(35) ? XMP_MODE_MOD : (int)vrng_range(XMP_MODE_AUTO, XMP_MODE_ITSMP);
		r = xmp_set_player(c, XMP_PLAYER_MODE, val);
	} else {
		val = ctx->p.flags ^ XMP_FLAGS_VBLANK;
		r = xmp_set_player(c, XMP_PLAYER_CFLAGS, val);
	}
	get_state(ctx, post);
	g_modesw++;
	if (r == 0)
		g_modesw_ok++;
	if (m->num_sequences < nseq0)
		g_modesw_seqdrop++;
	/* "the sequence index is valid", right after the call */
	if (ctx->p.sequence < 0 || ctx->p.sequence >= m->num_sequences) {
		if (first_time("sequence:range"))
			printf("O sequence:range after xmp_set_player(%s, %d) = %d: sequence %d not in [0,%d) (%d sequences before the call)\n",
			       is_mode ? "MODE" : "CFLAGS", val, r, ctx->p.sequence, m->num_sequences, nseq0);
		return -1;
	}
	if (seqctl_bad_order(ctx) >= 0) {
		int bad = seqctl_bad_order(ctx);
		printf("O sequence:control_table after xmp_set_player(%s, %d): order %d is labelled with sequence %d but the module has %d sequence(s)\n",
		       is_mode ? "MODE" : "CFLAGS", val, bad, ctx->p.sequence_control[bad], m->num_sequences);
		return -1;
	}
	dump_module(ctx);
	if (ctx->m.mod.len > 0)
		printf("D wf\nE w ? %d\n", c_ordwf(ctx));
	printf("D ctl 8 %d", val);
	put_state(pre);
	printf("\nE c");
	put_state(post);
	printf("\n");
	return 0;
}

/* modeprobe: a module started WITHOUT virtual channels is switched to Impulse Tracker mode (QUIRK_VIRTUAL on, no
 * background channels in the voice tables), then channel 0 gets a note, "NNA continue" (S74) and a new note while
 * another voice is free.  The spies evaluate the voice-table invariant after every virtual.c call. */
static int run_modeprobe(void)
{
	struct fx_cfg cf;
	xmp_context c;
	struct context_data *ctx;
	struct xmp_event e;
	int k;
	memset(&cf, 0, sizeof(cf));
	cf.rmode = READ_EVENT_MOD;
	cf.flow = FLOW_MODE_GENERIC;
	cf.gvolbase = 0x40;
	cf.tf = DEFAULT_TIME_FACTOR;
	cf.notes = 1;
	g_nseen = 0;
	g_virt_fail_reported = 0;
	c = xmp_create_context();
	ctx = (struct context_data *)c;
	if (create_fx_module(ctx, &cf) < 0 || xmp_start_player(c, 8000, XMP_FORMAT_MONO) < 0) {
		printf("N modeprobe_failed 1\n");
		xmp_release_module(c);
		xmp_free_context(c);
		return -1;
	}
	g_virt_sigtag = "modeswitch:";
	printf("B modeprobe non-virtual module -> XMP_MODE_IT -> note on the last channel; note, S74, note on channel 0\n");
	fprintf(stderr, "CASE modeprobe\n");
	xmp_play_frame(c);
	k = xmp_set_player(c, XMP_PLAYER_MODE, XMP_MODE_IT);
	printf("N modeprobe_mode_accepted %d\n", k == 0);
	for (k = 0; k < 4; k++) {
		/* note on the LAST track channel (the one the relocation falls back to), note on channel 0, S74, note on channel 0 */
		int chn = k == 0 ? FXCH - 1 : 0;
		memset(&e, 0, sizeof(e));
		if (k == 2) {
			e.fxt = FX_IT_INSTFUNC;
			e.fxp = 4;	/* S74: new note action "continue" */
		} else {
			e.note = (uint8)(60 + k);
			e.ins = 1;
		}
		xmp_inject_event(c, chn, &e);
		if (xmp_play_frame(c) != 0)
			break;
		if (check_vinv(ctx) && !g_virt_fail_reported) {
			g_virt_fail_reported = 1;
			printf("O virt:modeswitch:tables after step %d of the mode probe: %s\n", k, check_vinv(ctx));
		}
	}
	g_virt_sigtag = "";
	printf("Z\n");
	xmp_end_player(c);
	xmp_release_module(c);
	xmp_free_context(c);
	return 0;
}

/* everything that is reported right after a successful xmp_start_player (first start or a restart of the player at another
 * rate / format inside the case): module tables for the driver, sequence labels, OrdWF, header speed, start-up and
 * libxmp_virt_on correspondence.  Returns 1 when the case must end (stale sequence label). */
static int after_start(xmp_context c, struct context_data *ctx, int speed0, int *fails)
{
	int post[NST];
	(void)c;
	dump_module(ctx);
	{
		/* "the sequence index is valid": every order is labelled with a kept sequence or 0xff; xmp_set_position adopts the
		 * label as p->sequence and indexes p->scan[] / m->seq_data[] with it, so a stale label is reported here and the case
		 * ends before the library reads past those tables */
		int bad = seqctl_bad_order(ctx);
		if (bad >= 0) {
			printf("O sequence:control_table order %d is labelled with sequence %d but the module has %d sequence(s) (xxo[%d] = %d)\nZ\n",
			       bad, ctx->p.sequence_control[bad], ctx->m.num_sequences, bad, ctx->m.mod.xxo[bad]);
			return 1;
		}
	}
	if (ctx->m.mod.len > 0)
		printf("D wf\nE w ? %d\n", c_ordwf(ctx));
	else
		printf("N unplayable 1\n");	/* every order skipped: xmp_start_player set len = 0, no frame can succeed */
	/* the header speed the start-up takes over: C03's clause spdOK evaluated on the live module, and the scan recorded it
	 * for the first playable order (Seq.StartSpeedAgrees, XmpProps.C16Start) */
	if (ctx->m.mod.spd < 1 || ctx->m.mod.spd > 255)
		printf("A spd mod->spd = %d after load is outside 1..255\n", ctx->m.mod.spd);
	else if (ctx->m.mod.len > 0 && ctx->p.ord >= 0 && ctx->p.ord < XMP_MAX_MOD_LENGTH &&
		 ctx->m.xxo_info[ctx->p.ord].speed != ctx->m.mod.spd)
		printf("A startspeed xxo_info[%d].speed = %d but mod->spd = %d\n", ctx->p.ord, ctx->m.xxo_info[ctx->p.ord].speed,
		       ctx->m.mod.spd);
	/* start-up correspondence */
	get_state(ctx, post);
	printf("D start %d\n", speed0);
	if (ctx->m.mod.len == 0)
		printf("E s none\n");
	else {
		printf("E s");
		put_state(post);
		printf("\n");
	}
	{
		const char *bad = check_vinv(ctx);
		if (bad) {
			printf("O virt:start after xmp_start_player: %s\n", bad);
			(*fails)++;
		}
		printf("D von %d %d %d\nE von %d %d %d\n", ctx->p.virt.num_tracks, ctx->s.numvoc,
		       (ctx->m.quirk & QUIRK_VIRTUAL) ? 1 : 0, ctx->p.virt.virt_channels, ctx->p.virt.maxvoc,
		       ctx->p.virt.virt_used);
	}
	return 0;
}

static int run_case(uint64_t cs, int nframes, const char *modname)
{
	xmp_context c;
	struct context_data *ctx;
	static const int rates[] = { 4000, 4000, 8000, 11025, 22050, 44100, 48000, 49170, 49170 };
	static const double tfs[] = { 0.1, 0.25, 0.5, 1.0, 1.0, 2.0, 3.9, 4.0, 7.5, 10.0, 10.0, 25.0, 100.0 };
	int rate, format, voices, i, ret, fails = 0, prev_loop = -1, stopped = 0, ends = 0;
	int tf_mode, tf_called = 0, speed0, pending_delay = 0, inject_pending = 0;
	int pb_mode, pb_loop, pb_ended = 0, modesw_pct, marathon, restart_pm, max_loop = 0;
	int synth = !strcmp(modname, "@synth");
	char desc[256] = "";
	int pre[NST], post[NST];

	vrng_seed(cs);
	g_virt_fail_reported = 0;
	g_nseen = 0;
	/* "marathon": a short multi-order module (synthetic: 2..4 orders of 1..6 rows at speed 1..3) played on and on with plain
	 * xmp_play_frame and no position-control call after an optional player-mode switch at the start: many wraps, the loop
	 * counter clause over long runs in every flow mode */
	marathon = vrng_chance(25);
	g_marathon = marathon;
	c = xmp_create_context();
	ctx = (struct context_data *)c;
	if (synth) {
		if (create_synth(ctx, desc, sizeof(desc)) < 0) {
			printf("N synth_unloadable 1\n");
			xmp_release_module(c);
			xmp_free_context(c);
			return -1;
		}
	} else if (xmp_load_module(c, modname) < 0) {
		xmp_free_context(c);
		return -1;
	}
	rate = rates[vrng_below(9)];
	format = vrng_below(8);
	voices = vrng_chance(60) ? 128 : (vrng_chance(50) ? vrng_range(1, 8) : vrng_range(9, 64));
	if ((ctx->m.quirk & QUIRK_VIRTUAL) && vrng_chance(45))
		voices = vrng_range(1, 6);	/* few voices + NNA: voice stealing and failed allocations */
	tf_mode = vrng_below(10);	/* 0,1: set a tempo factor right after start; 2: also mid-play */
	pb_mode = vrng_below(3);	/* 0: xmp_play_frame only; 1: now and then a xmp_play_buffer call; 2: half of the steps */
	pb_loop = vrng_below(3);	/* loop limit of most buffer calls of this case */
	modesw_pct = vrng_chance(40) ? 3 : 0;	/* player-mode / timing switches between the frames */
	restart_pm = vrng_chance(35) ? 12 : 0;	/* per mille of the steps: xmp_end_player + xmp_start_player at another rate / format */
	if (marathon) {
		pb_mode = 0;
		restart_pm = 0;
		g_marathon_cases++;
	}
	if (voices != 128)
		xmp_set_player(c, XMP_PLAYER_VOICES, voices);
	speed0 = ctx->p.speed;
	printf("B case %llu %s rate=%d fmt=%d voices=%d tfmode=%d pb=%d/%d msw=%d rs=%d mar=%d %s\n", (unsigned long long)cs, modname, rate, format,
	       voices, tf_mode, pb_mode, pb_loop, modesw_pct, restart_pm, marathon, desc);
	/* if the library aborts inside this case the buffered stdout may be lost: name the case on stderr */
	fprintf(stderr, "CASE case %llu %s rate=%d fmt=%d voices=%d tfmode=%d %s\n", (unsigned long long)cs, modname, rate,
		format, voices, tf_mode, desc);
	fflush(stdout);
	ret = xmp_start_player(c, rate, format);
	if (ret < 0) {
		printf("N start_failed 1\nZ\n");
		xmp_release_module(c);
		xmp_free_context(c);
		return -1;
	}
	if (after_start(c, ctx, speed0, &fails)) {
		xmp_end_player(c);
		xmp_release_module(c);
		xmp_free_context(c);
		return 1;
	}
	if (tf_mode <= 2) {
		double tf = tfs[vrng_below(13)];
		if (do_tempo_factor(c, ctx, tf) == 0)
			tf_called = 1;
	}

	if (marathon) {
		/* the player mode of the whole run: the module's own, or one of the xmp_set_player(MODE) values */
		if (vrng_chance(60) && do_mode_switch(c, ctx, &stopped) < 0)
			fails++;
		modesw_pct = 0;
	}
	for (i = 0; i < nframes; i++) {
		int nctl = 0;
		if (restart_pm && (int)vrng_below(1000) < restart_pm) {
			/* the player is shut down and started again, mostly at a higher rate and in 16-bit stereo: the time factor (incl. an
			 * accepted tempo factor) survives, the tick size is recomputed for the new rate */
			xmp_end_player(c);
			rate = vrng_chance(60) ? (vrng_chance(50) ? XMP_MAX_SRATE : 48000) : rates[vrng_below(9)];
			format = vrng_chance(50) ? 0 : (int)vrng_below(8);
			speed0 = ctx->p.speed;
			printf("N player_restarts 1\n");
			if (xmp_start_player(c, rate, format) < 0) {
				printf("N restart_failed 1\nZ\n");
				xmp_release_module(c);
				xmp_free_context(c);
				return fails;
			}
			if (after_start(c, ctx, speed0, &fails))
				break;
			prev_loop = -1;
			stopped = 0;
			ends = 0;
			pb_ended = 0;
			inject_pending = 0;
		}
		/* control calls and injected events between frames */
		if (!marathon && vrng_chance(stopped ? 60 : 9)) {
			if (vrng_chance(22)) {
				/* reposition onto an arbitrary order, then set a row before the next frame */
				do_control(c, ctx, &stopped, 0);
				do_control(c, ctx, &stopped, 3);
			} else {
				nctl = vrng_range(1, 3);
				while (nctl-- > 0)
					do_control(c, ctx, &stopped, -1);
			}
			prev_loop = -1;	/* "between position-control calls" */
		}
		if (vrng_chance(modesw_pct)) {
			if (do_mode_switch(c, ctx, &stopped) < 0) {
				fails++;
				break;
			}
		}
		if (vrng_chance(6)) {
			do_inject(c, ctx);
			inject_pending = 1;
		}
		if (tf_mode == 2 && vrng_chance(2)) {
			if (do_tempo_factor(c, ctx, tfs[vrng_below(13)]) == 0)
				tf_called = 1;
		}

		/* a delayed event (EDx) pending on any channel may be read by play_channel after the ST2.6 step */
		{
			int k;
			pending_delay = 0;
			for (k = 0; k < ctx->p.virt.virt_channels; k++)
				if (ctx->p.xc_data[k].delay > 0)
					pending_delay = 1;
		}
		/* the xmp_play_buffer(NULL) reset entry: zeroes the loop counter (a reset, like xmp_restart_module) */
		if (pb_mode && vrng_chance(2)) {
			get_state(ctx, pre);
			xmp_play_buffer(c, NULL, 0, 0);
			get_state(ctx, post);
			printf("D ctl 7 0");
			put_state(pre);
			printf("\nE c");
			put_state(post);
			printf("\n");
			g_pb_reset++;
			prev_loop = -1;
		}
		/* this step through xmp_play_buffer instead of xmp_play_frame */
		if (pb_mode && vrng_chance(pb_mode == 1 ? 12 : 50)) {
			int played = 0;
			if (pb_ended)
				g_pb_after_end++;
			ret = do_buffer(c, ctx, i, rate, format, tf_called, &prev_loop, synth ? desc : modname, pb_loop, &fails, &played);
			if (played > 0) {
				inject_pending = 0;
				ends = 0;
			}
			if (ret == -XMP_END) {
				pb_ended = 1;
				if (played == 0) {
					g_ends++;
					if (++ends > 6 && !stopped)
						break;
					if (ends > 40)
						break;
				}
			} else if (ret != 0)
				break;
			continue;
		}
		get_state(ctx, pre);
		g_in_frame = 1;
		g_mid_taken = 0;
		g_wd_frame = i;
		signal(SIGALRM, on_alarm);
		alarm(20);
		ret = xmp_play_frame(c);
		alarm(0);
		g_in_frame = 0;
		get_state(ctx, post);

		if (ret == 0) {
			if (ctx->p.loop_count > max_loop)
				max_loop = ctx->p.loop_count;
			if (pb_ended)
				g_pb_after_end++;
			report_ok_frame(c, ctx, pre, post, i, rate, format, tf_called, &prev_loop, synth ? desc : modname, &fails);
			/* ST2.6 step: speed must be the byte selected by the toggled state */
			if (post[3] == 0 && post[7] != 0 && !inject_pending && !g_mid_taken && !pending_delay) {
				printf("D st26 %d\nE t %d %d\n", post[7] ^ 0x10000, post[4], post[7]);
				g_st26++;
			}
			inject_pending = 0;	/* inject_event consumed every pending event */
			ends = 0;
		} else if (ret == -XMP_END) {
			printf("D frame");
			put_state(pre);
			printf("\nE k fin\n");
			g_ends++;
			if (memcmp(pre, post, sizeof(pre)) != 0)
				printf("A endstate frame %d: xmp_play_frame returned -XMP_END but changed the player state\n", i);
			if (++ends > 6 && !stopped)
				break;	/* module without playable position */
			if (ends > 40)
				break;
		} else {
			printf("D frame");
			put_state(pre);
			printf("\nE k err %d\n", ret);
			printf("O frame:error frame %d: xmp_play_frame returned %d\n", i, ret);
			fails++;
			break;
		}
	}
	if (marathon && max_loop >= 3) {
		g_marathon_wraps3++;
		if (ctx->m.flow_mode & FLOW_LOOP_PATTERN_RESET)
			g_marathon_wraps3_reset++;
	}
	/* tick-size correspondence on the final configuration of this case */
	{
		int bpm = ctx->p.bpm;
		printf("D tick %d", rate);
		put_double(ctx->m.time_factor);
		put_double(ctx->m.rrate);
		printf(" %d %d %d\n", bpm, (format & XMP_FORMAT_MONO) ? 1 : 0, (format & XMP_FORMAT_8BIT) ? 1 : 0);
		{
			int t, pt, bs;
			real_tick(rate, ctx->m.time_factor, ctx->m.rrate, bpm, format, &t, &pt, &bs);
			printf("E q %d %d %d\n", t, pt, bs);
		}
	}
	printf("Z\n");
	xmp_end_player(c);
	xmp_release_module(c);
	xmp_free_context(c);
	return fails;
}

static void print_stats(void)
{
	printf("N frames %ld\nN ends %ld\nN ctl %ld\nN inject %ld\nN repos %ld\nN rowadv %ld\nN ordadv %ld\nN loopinc %ld\n"
	       "N tfcalls %ld\nN capped %ld\nN minclamp %ld\nN st26 %ld\nN assume %ld\nN vops %ld\nN vdump %ld\nN reloc %ld\nN vfail %ld\nN steal %ld\n"
	       "N ordwf_seq_rst %ld\nN ordwf_seq_entry %ld\nN ordwf_seq_reach %ld\nN ordwf_seq_fail %ld\nN tf_accepted %ld\nN tf_refused %ld\nN vfieldops %ld\nN vfielddump %ld\n"
	       "N fx_calls %ld\nN fx_dumped %ld\nN fx_dumped_flowfx %ld\nN loopcarry_modules %ld\nN loopjump_beyond_pattern %ld\nN hostile_header_speed %ld\nN marathon_cases %ld\nN marathon_cases_3_wraps %ld\nN marathon_cases_3_wraps_pattern_reset_mode %ld\nN mode_switches %ld\nN mode_switches_accepted %ld\nN mode_switches_fewer_sequences %ld\nN mode_switches_from_last_sequence %ld\n"
	       "N pbuf_calls %ld\nN pbuf_frames %ld\nN pbuf_end %ld\nN pbuf_end_looplimit %ld\nN pbuf_noframe %ld\nN pbuf_multiframe %ld\nN pbuf_steps_after_end %ld\nN pbuf_reset %ld\n",
	       g_frames, g_ends, g_ctl, g_inject, g_repos, g_rowadv, g_ordadv, g_loopinc, g_tfcalls, g_capped, g_minclamp,
	       g_st26, g_assume, g_stat_vops, g_stat_vdump, g_stat_reloc, g_stat_vfail, g_stat_steal, g_ow_rst, g_ow_entry,
	       g_ow_reach, g_ow_fail, g_tf_acc, g_tf_ref, g_stat_fops, g_stat_fdump,
	       g_fx_calls, g_fx_dumped, g_fx_flow_dumped, g_carry_modules, g_carry_jumps, g_hostile_spd, g_marathon_cases, g_marathon_wraps3, g_marathon_wraps3_reset, g_modesw, g_modesw_ok, g_modesw_seqdrop, g_modesw_lastseq,
	       g_pb_calls, g_pb_frames, g_pb_end, g_pb_end_limit, g_pb_zero, g_pb_multi, g_pb_after_end, g_pb_reset);
}

int main(int argc, char **argv)
{
	setvbuf(stdout, NULL, _IOFBF, 1 << 20);
	g_fx_dump_pm = getenv("C16_FXPM") ? atoi(getenv("C16_FXPM")) : 250;
	if (argc >= 2 && !strcmp(argv[1], "modeprobe")) {
		g_fx_dump_pm = 0;
		run_modeprobe();
		return 0;
	}
	if (argc >= 6 && !strcmp(argv[1], "fxall")) {
		/* fxall <seed> <first cfg> <ncfg> <thorough 0/1> */
		int i0 = atoi(argv[3]), n = atoi(argv[4]), i;
		g_fx_dump_pm = 0;
		for (i = i0; i < i0 + n; i++) {
			run_fxall(strtoull(argv[2], NULL, 10), i, atoi(argv[5]));
			fflush(stdout);
		}
		printf("N fxrow %ld\nN fxrow_flowfx %ld\nN fxrow_partner %ld\nN fx_calls %ld\nN tslide %ld\nN far_rows_negative_tempo %ld\nN far_rows_old_mode %ld\n",
		       g_fxrow_n, g_fxrow_flow, g_fxrow_partner, g_fx_calls, g_tslide_n, g_far_negative, g_far_oldmode);
		return 0;
	}
	if (argc >= 6 && !strcmp(argv[1], "case")) {
		int r;
		g_virt_dump_pct = atoi(argv[4]);
		r = run_case(strtoull(argv[2], NULL, 10), atoi(argv[3]), argv[5]);
		print_stats();
		return r > 0 ? 1 : 0;
	}
	if (argc >= 7 && !strcmp(argv[1], "play")) {
		uint64_t seed = strtoull(argv[2], NULL, 10);
		int ncases = atoi(argv[3]), nframes = atoi(argv[4]), i, nmods = argc - 6;
		g_virt_dump_pct = atoi(argv[5]);
		for (i = 0; i < ncases; i++) {
			uint64_t cs = seed * 1000003ULL + (uint64_t)i;
			const char *mn = argv[6 + (i % nmods)];
			if (run_case(cs, nframes, mn) < 0)
				printf("N skipped 1\n");
			fflush(stdout);
		}
		print_stats();
		return 0;
	}
	if (argc >= 4 && !strcmp(argv[1], "tick")) {
		static const double tfv[] = { 10.0, 10.0, 2.64, 4.01373, 40.0, 20.0, 13.333333333333334, 1.0, 100.0, 0.1, 5.0, 8.0 };
		static const double rrv[] = { 250.0, 250.0, 208.0, 250.0, 125.0 };
		int n = atoi(argv[3]), i;
		vrng_seed(strtoull(argv[2], NULL, 10));
		for (i = 0; i < n; i++) {
			int freq, bpm, mono, bit8, t, pt, bs;
			double tf, rr;
			switch (vrng_below(8)) {
			case 0: freq = XMP_MIN_SRATE; break;
			case 1: freq = XMP_MAX_SRATE; break;
			case 2: freq = 44100; break;
			case 3: freq = vrng_chance(50) ? 0 : -1; break;
			default: freq = vrng_range(XMP_MIN_SRATE, XMP_MAX_SRATE); break;
			}
			switch (vrng_below(8)) {
			case 0: bpm = XMP_MIN_BPM; break;
			case 1: bpm = 255; break;
			case 2: bpm = 125; break;
			case 3: bpm = vrng_range(-1, 5); break;
			case 4: bpm = vrng_range(1, 1000); break;
			default: bpm = vrng_range(20, 255); break;
			}
			tf = tfv[vrng_below(12)];
			if (vrng_chance(25))
				tf = (double)vrng_range(1, 4000) / 37.0;
			if (vrng_chance(4))
				tf = vrng_chance(50) ? 0.0 : -1.5;
			if (vrng_chance(3))
				tf = 1e15;
			rr = rrv[vrng_below(5)];
			if (vrng_chance(3))
				rr = 0.0;
			mono = vrng_below(2);
			bit8 = vrng_below(2);
			real_tick(freq, tf, rr, bpm, (mono ? XMP_FORMAT_MONO : 0) | (bit8 ? XMP_FORMAT_8BIT : 0), &t, &pt, &bs);
			printf("D tick %d", freq);
			put_double(tf);
			put_double(rr);
			printf(" %d %d %d\nE q %d %d %d\n", bpm, mono, bit8, t, pt, bs);
		}
		return 0;
	}
	fprintf(stderr, "usage: %s play <seed> <ncases> <nframes> <virtdump%%> <module|@synth>... | case <caseseed> <nframes> <virtdump%%> <module> | tick <seed> <n>\n", argv[0]);
	return 2;
}
