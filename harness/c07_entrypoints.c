/* C07 harness (direct oracle): the same byte string through the four load and
 * the four test entry points of the real library.
 *
 * usage: c07_entrypoints <seed> <tmpdir> <casefile> [nframes]
 *
 * casefile lines:
 *   case <id> <path> <trunc|-1> <nedits> [<off>:<hexbytes> | d<off>:<count>]...
 * The file <path> is read, the edits are applied in order (bytes overwritten from <off>,
 * the buffer grows if needed; d = <count> bytes removed at <off>), the result is cut to <trunc> bytes (-1: keep)
 * and written to <tmpdir>/<basename of path> for the path and FILE entry points.
 *
 * Output per case (flushed line by line so that an abort names the case):
 *   begin <id> size=<n> container=<0|1|2> pol=<seekpast>,<partial>,<chunk>
 *   L <entry> <rc> [<tables> <md5> <seq> <pcm> <type hex>] opens=<n> <first path hex>    entry: path file mem cb mem2 (mem2 = memory again over a differently filled stack)
 *   T <entry> <rc> <name hex> <type hex> opens=<n> <first path hex>
 *   further entries fck fmem ftmp ftmpr: the FILE entry points over other kinds of stdio stream (see open_kind);
 *   P L|T <0|1>: the cookie stream was asked for a position beyond the end during the load / test
 * opens = fopen/opendir calls made by the library during the call (companion files, temp files).
 *   end <id>
 * <tables> digest of every table of the loaded module (header fields, orders,
 * patterns, tracks, instruments incl. envelopes/maps/subinstruments, samples
 * incl. data, channels, comment, player-relevant module_data fields),
 * <seq> digest of the sequence table, <pcm> digest of the first nframes frames
 * (buffer bytes + position info).
 */
#ifndef _GNU_SOURCE
#define _GNU_SOURCE		/* fopencookie, fmemopen */
#endif
#include "vcommon.h"
#include <unistd.h>
#include <sys/types.h>
#include <xmp.h>
#include "common.h"
#include "hio.h"
#include "depackers/depacker.h"
#include "rng.h"

#include <dirent.h>

static int nframes = 4;

/* files the library opens by itself (-Wl,--wrap=fopen,--wrap=opendir): only a
 * path load may resolve companion files */
static int in_lib, lib_opens;
static char first_open[256];

FILE *__real_fopen(const char *path, const char *mode);
DIR *__real_opendir(const char *path);

static void note_open(const char *path)
{
	if (!in_lib)
		return;
	if (lib_opens++ == 0)
		snprintf(first_open, sizeof(first_open), "%s", path ? path : "(NULL)");
}

FILE *__wrap_fopen(const char *path, const char *mode)
{
	note_open(path);
	return __real_fopen(path, mode);
}

DIR *__wrap_opendir(const char *path)
{
	note_open(path);
	return __real_opendir(path);
}

/* Before every API call the stack below us is filled with a known byte, so that a loader
 * that uses an uninitialised local sees the same garbage through every entry point; the
 * extra "mem2" runs use another byte: a result that changes with it depends on
 * uninitialised stack memory (reported separately from back-end divergence). */
static int stack_pat = 0x11;

static void __attribute__((noinline)) scribble(int pat)
{
	volatile unsigned char b[1 << 18];
	memset((void *)b, pat, sizeof(b));
	__asm__ volatile("" ::: "memory");
}

#define LIB(call) do { scribble(stack_pat); in_lib = 1; lib_opens = 0; first_open[0] = 0; call; in_lib = 0; } while (0)

static void put_opens(void)
{
	printf(" opens=%d ", lib_opens);
	put_hex(stdout, first_open, strlen(first_open));
}

struct cbstate {
	const unsigned char *data;
	long size, pos;
	int seekpast, partial, chunk;
};

static unsigned long cb_read(void *dest, unsigned long len, unsigned long nmemb, void *priv)
{
	struct cbstate *c = (struct cbstate *)priv;
	unsigned long total = len * nmemb, avail, got, r, stored, done;
	unsigned char *d = (unsigned char *)dest;

	if (total == 0)
		return 0;
	avail = c->pos < c->size ? (unsigned long)(c->size - c->pos) : 0;
	got = total < avail ? total : avail;
	r = got / len;
	stored = (got == total || c->partial) ? got : r * len;
	for (done = 0; done < stored;) {
		unsigned long n = stored - done;
		if (c->chunk > 0) {
			unsigned long piece = 1 + vrng_below((uint32_t)c->chunk);
			if (piece < n)
				n = piece;
		}
		memcpy(d + done, c->data + c->pos + done, n);
		done += n;
	}
	c->pos += (long)got;
	return r;
}

static int cb_seek(void *priv, long offset, int whence)
{
	struct cbstate *c = (struct cbstate *)priv;
	long tg;
	switch (whence) {
	case SEEK_SET: tg = offset; break;
	case SEEK_CUR: tg = offset + c->pos; break;
	case SEEK_END: tg = offset + c->size; break;
	default: return -1;
	}
	if (tg < 0)
		return -1;
	if (tg > c->size) {
		if (c->seekpast == 1)
			tg = c->size;
		else if (c->seekpast == 2)
			return -1;
	}
	c->pos = tg;
	return 0;
}

static long cb_tell(void *priv)
{
	return ((struct cbstate *)priv)->pos;
}

static const struct xmp_callbacks cbs = { cb_read, cb_seek, cb_tell, NULL };

/* digests ------------------------------------------------------------- */

#define H(v) h = fnv1a(h, &(v), sizeof(v))

static uint64_t hash_env(uint64_t h, const struct xmp_envelope *e)
{
	H(e->flg); H(e->npt); H(e->scl); H(e->sus); H(e->sue); H(e->lps); H(e->lpe);
	return fnv1a(h, e->data, sizeof(e->data));
}

static uint64_t digest_tables(xmp_context opaque)
{
	struct context_data *ctx = (struct context_data *)opaque;
	struct module_data *m = &ctx->m;
	struct xmp_module *mod = &m->mod;
	uint64_t h = FNV_INIT;
	int i, j;

	h = fnv1a(h, mod->name, strnlen(mod->name, XMP_NAME_SIZE));
	h = fnv1a(h, "|", 1);
	h = fnv1a(h, mod->type, strnlen(mod->type, XMP_NAME_SIZE));
	H(mod->pat); H(mod->trk); H(mod->chn); H(mod->ins); H(mod->smp); H(mod->spd);
	H(mod->bpm); H(mod->len); H(mod->rst); H(mod->gvl);
	if (mod->len > 0 && mod->len <= XMP_MAX_MOD_LENGTH)
		h = fnv1a(h, mod->xxo, (size_t)mod->len);
	for (i = 0; i < mod->chn && i < XMP_MAX_CHANNELS; i++) {
		H(mod->xxc[i].pan); H(mod->xxc[i].vol); H(mod->xxc[i].flg);
	}
	for (i = 0; mod->xxp && i < mod->pat; i++) {
		if (!mod->xxp[i])
			continue;
		H(mod->xxp[i]->rows);
		for (j = 0; j < mod->chn; j++)
			H(mod->xxp[i]->index[j]);
	}
	for (i = 0; mod->xxt && i < mod->trk; i++) {
		if (!mod->xxt[i]) {
			h = fnv1a(h, "N", 1);
			continue;
		}
		H(mod->xxt[i]->rows);
		for (j = 0; j < mod->xxt[i]->rows; j++) {
			const struct xmp_event *e = &mod->xxt[i]->event[j];
			h = fnv1a(h, e, 7);	/* note ins vol fxt fxp f2t f2p; _flag is internal */
		}
	}
	for (i = 0; mod->xxi && i < mod->ins; i++) {
		const struct xmp_instrument *xi = &mod->xxi[i];
		h = fnv1a(h, xi->name, strnlen(xi->name, sizeof(xi->name)));
		H(xi->vol); H(xi->nsm); H(xi->rls);
		h = hash_env(h, &xi->aei);
		h = hash_env(h, &xi->pei);
		h = hash_env(h, &xi->fei);
		for (j = 0; j < XMP_MAX_KEYS; j++) {
			H(xi->map[j].ins); H(xi->map[j].xpo);
		}
		for (j = 0; xi->sub && j < xi->nsm; j++) {
			const struct xmp_subinstrument *s = &xi->sub[j];
			H(s->vol); H(s->gvl); H(s->pan); H(s->xpo); H(s->fin); H(s->vwf); H(s->vde); H(s->vra);
			H(s->vsw); H(s->rvv); H(s->sid); H(s->nna); H(s->dct); H(s->dca); H(s->ifc); H(s->ifr);
		}
	}
	for (i = 0; mod->xxs && i < mod->smp; i++) {
		const struct xmp_sample *xs = &mod->xxs[i];
		h = fnv1a(h, xs->name, strnlen(xs->name, sizeof(xs->name)));
		H(xs->len); H(xs->lps); H(xs->lpe); H(xs->flg);
		if (xs->data && xs->len > 0 && !(xs->flg & XMP_SAMPLE_SYNTH)) {
			size_t n = (size_t)xs->len;
			if (xs->flg & XMP_SAMPLE_16BIT)
				n *= 2;
			if (xs->flg & XMP_SAMPLE_STEREO)
				n *= 2;
			h = fnv1a(h, xs->data, n);
		}
		if (m->xtra)
			H(m->xtra[i].c5spd);
	}
	if (m->comment)
		h = fnv1a(h, m->comment, strlen(m->comment));
	H(m->c4rate); H(m->volbase); H(m->gvolbase); H(m->gvol); H(m->mvolbase); H(m->mvol);
	H(m->quirk); H(m->flow_mode); H(m->read_event_type); H(m->period_type); H(m->smpctl); H(m->defpan);
	H(m->rrate); H(m->time_factor);
	return h;
}

static uint64_t digest_seq(xmp_context ctx)
{
	struct xmp_module_info mi;
	uint64_t h = FNV_INIT;
	int i;
	xmp_get_module_info(ctx, &mi);
	H(mi.num_sequences); H(mi.vol_base);
	for (i = 0; i < mi.num_sequences; i++) {
		H(mi.seq_data[i].entry_point); H(mi.seq_data[i].duration);
	}
	return h;
}

static uint64_t digest_pcm(xmp_context ctx)
{
	struct xmp_frame_info fi;
	uint64_t h = FNV_INIT;
	int i, rc;

	/* the context's generator is seeded from time(): make rendering repeatable */
	libxmp_set_random(&((struct context_data *)ctx)->rng, 0x1234567);
	rc = xmp_start_player(ctx, 22050, 0);
	H(rc);
	if (rc != 0)
		return h;
	for (i = 0; i < nframes; i++) {
		rc = xmp_play_frame(ctx);
		H(rc);
		if (rc != 0)
			break;
		xmp_get_frame_info(ctx, &fi);
		H(fi.pos); H(fi.pattern); H(fi.row); H(fi.frame); H(fi.speed); H(fi.bpm); H(fi.time);
		H(fi.total_time); H(fi.buffer_size);
		h = fnv1a(h, fi.buffer, (size_t)fi.buffer_size);
	}
	xmp_end_player(ctx);
	return h;
}

static void report_load(const char *entry, xmp_context ctx, int rc)
{
	printf("L %s %d", entry, rc);
	if (rc == 0) {
		struct context_data *c = (struct context_data *)ctx;
		uint64_t t = digest_tables(ctx), s = digest_seq(ctx), p;
		printf(" %016llx ", (unsigned long long)t);
		put_hex(stdout, c->m.md5, 16);
		p = digest_pcm(ctx);
		printf(" %016llx %016llx ", (unsigned long long)s, (unsigned long long)p);
		put_hex(stdout, c->m.mod.type, strnlen(c->m.mod.type, XMP_NAME_SIZE));
		xmp_release_module(ctx);
	}
	put_opens();
	putchar('\n');
	fflush(stdout);
}

static void report_test(const char *entry, int rc, struct xmp_test_info *ti)
{
	printf("T %s %d ", entry, rc);
	put_hex(stdout, ti->name, strnlen(ti->name, XMP_NAME_SIZE));
	putchar(' ');
	put_hex(stdout, ti->type, strnlen(ti->type, XMP_NAME_SIZE));
	put_opens();
	putchar('\n');
	fflush(stdout);
}

static int is_container(const char *path, const unsigned char *buf, long size)
{
	HIO_HANDLE *h;
	char *temp = NULL;
	int ret, c;

	if (size >= 3 && (!memcmp(buf, "MO3", 3) || !memcmp(buf, "Rar", 3)))
		return 2;		/* external helper formats: need a file name (path only) */
	h = hio_open(path, "rb");
	if (!h)
		return 0;
	ret = libxmp_decrunch(h, NULL, &temp);
	c = ret < 0 || temp != NULL || HIO_HANDLE_TYPE(h) != HIO_HANDLE_TYPE_FILE || hio_size(h) != size;
	hio_close(h);
	if (temp) {
		unlink(temp);
		free(temp);
	}
	return c;
}

/* Other kinds of FILE the C library can produce for the same bytes (the FILE entry points take any stream):
 *   fck    fopencookie() stream with read/seek functions that behave like a regular file (seeking beyond the
 *          end is allowed, reads there return nothing); it has no file descriptor.  `past` records whether the
 *          library asked for a position beyond the end.
 *   fmem   fmemopen() over the buffer: no descriptor either; it REFUSES seeks beyond the end, so it is compared
 *          only when the fck run saw no such seek.
 *   ftmp   a "w+b" file just written by the harness with one fwrite into a buffer large enough to hold it all,
 *          handed over WITHOUT fflush or rewind (the library positions the stream itself);
 *   ftmpr  the same, rewound (which flushes).
 * Not included: non-seekable streams (pipes, FIFOs) — the size is found by seeking, the documentation promises
 * nothing for them; a stream positioned inside a larger file — the library loads from absolute offset 0 and sizes
 * the whole file, the documentation ("on return the stream position is undefined") does not offer embedded loads. */
struct ckstate {
	const unsigned char *data;
	long size, pos;
	int past;
};

static ssize_t ck_read(void *c, char *out, size_t n)
{
	struct ckstate *k = (struct ckstate *)c;
	size_t avail = k->pos < k->size ? (size_t)(k->size - k->pos) : 0;
	if (n > avail)
		n = avail;
	memcpy(out, k->data + k->pos, n);
	k->pos += (long)n;
	return (ssize_t)n;
}

static int ck_seek(void *c, off64_t *offset, int whence)
{
	struct ckstate *k = (struct ckstate *)c;
	long tg = whence == SEEK_SET ? (long)*offset : whence == SEEK_CUR ? k->pos + (long)*offset : k->size + (long)*offset;
	if (tg < 0)
		return -1;
	if (tg > k->size)
		k->past = 1;
	k->pos = tg;
	*offset = tg;
	return 0;
}

static const char *const kind_name[] = { "fck", "fmem", "ftmp", "ftmpr" };
#define NKINDS 4

static FILE *open_kind(int kind, struct ckstate *ck, const unsigned char *buf, long size, const char *path2)
{
	static const cookie_io_functions_t io = { ck_read, NULL, ck_seek, NULL };
	FILE *f;

	switch (kind) {
	case 0:
		ck->data = buf;
		ck->size = size;
		ck->pos = 0;
		ck->past = 0;
		return fopencookie(ck, "rb", io);
	case 1:
		return fmemopen((void *)buf, (size_t)size, "rb");
	default:
		f = __real_fopen(path2, "w+b");
		if (!f)
			return NULL;
		setvbuf(f, NULL, _IOFBF, (size_t)size + 8192);
		if (fwrite(buf, 1, (size_t)size, f) != (size_t)size) {
			fclose(f);
			return NULL;
		}
		if (kind == 3)
			rewind(f);
		return f;
	}
}

static int run_case(const char *id, const char *src, long trunc, int nedits, char **edits, const char *tmpdir,
		    uint64_t seed)
{
	unsigned char *buf, *e;
	long size = 0, cap, i;
	char tmppath[4096], tmppath2[4200];
	const char *base;
	struct cbstate cst;
	struct xmp_test_info ti;
	xmp_context ctx;
	FILE *f;
	int rc, k;

	buf = read_file(src, &size);
	if (!buf) {
		printf("skip %s unreadable\n", id);
		return 0;
	}
	cap = size;
	for (k = 0; k < nedits; k++) {
		long off, n;
		char *colon = strchr(edits[k], ':');
		if (!colon)
			continue;
		if (edits[k][0] == 'd') {	/* d<off>:<count>  remove bytes (chunk surgery) */
			off = atol(edits[k] + 1);
			n = atol(colon + 1);
			if (off >= 0 && n > 0 && off + n <= cap) {
				memmove(buf + off, buf + off + n, (size_t)(cap - off - n));
				cap -= n;
			}
			continue;
		}
		off = atol(edits[k]);
		n = get_hex(colon + 1, &e);
		if (n < 0 || off < 0)
			continue;
		if (off + n > cap) {
			buf = (unsigned char *)realloc(buf, (size_t)(off + n));
			memset(buf + cap, 0, (size_t)(off + n - cap));
			cap = off + n;
		}
		memcpy(buf + off, e, (size_t)n);
		free(e);
	}
	size = cap;
	if (trunc >= 0 && trunc < size)
		size = trunc;
	if (size <= 0) {
		printf("skip %s empty\n", id);
		free(buf);
		return 0;
	}
	base = strrchr(src, '/');
	base = base ? base + 1 : src;
	snprintf(tmppath, sizeof(tmppath), "%s/%s", tmpdir, base);
	f = fopen(tmppath, "wb");
	if (!f || fwrite(buf, 1, (size_t)size, f) != (size_t)size) {
		fprintf(stderr, "cannot write %s\n", tmppath);
		return -1;
	}
	fclose(f);

	vrng_seed(seed ^ fnv1a(FNV_INIT, id, strlen(id)));
	cst.data = buf;
	cst.size = size;
	/* seek_func has fseek semantics here (beyond the end allowed): what a callback that
	 * clamps or refuses such seeks changes is charted by the stream-op harness (D2) */
	cst.seekpast = 0;
	cst.partial = (int)vrng_below(2);
	cst.chunk = (int)vrng_below(3) * 7;

	printf("begin %s size=%ld container=%d pol=%d,%d,%d\n", id, size, is_container(tmppath, buf, size),
	       cst.seekpast, cst.partial, cst.chunk);
	fflush(stdout);

	/* a fresh context per entry point: nothing (md5, tables) can be inherited from the previous load */
	ctx = xmp_create_context();
	LIB(rc = xmp_load_module(ctx, tmppath));
	report_load("path", ctx, rc);
	xmp_free_context(ctx);

	ctx = xmp_create_context();
	f = fopen(tmppath, "rb");
	LIB(rc = xmp_load_module_from_file(ctx, f, size));
	report_load("file", ctx, rc);
	fclose(f);
	xmp_free_context(ctx);

	ctx = xmp_create_context();
	LIB(rc = xmp_load_module_from_memory(ctx, buf, size));
	report_load("mem", ctx, rc);
	xmp_free_context(ctx);

	ctx = xmp_create_context();
	cst.pos = 0;
	LIB(rc = xmp_load_module_from_callbacks(ctx, &cst, cbs));
	report_load("cb", ctx, rc);
	xmp_free_context(ctx);

	ctx = xmp_create_context();
	stack_pat = 0xEE;
	LIB(rc = xmp_load_module_from_memory(ctx, buf, size));
	report_load("mem2", ctx, rc);
	stack_pat = 0x11;
	xmp_free_context(ctx);

	for (k = 0; k < NKINDS; k++) {
		struct ckstate ck;
		snprintf(tmppath2, sizeof(tmppath2), "%s/w+%s", tmpdir, base);
		f = open_kind(k, &ck, buf, size, tmppath2);
		if (!f) {
			printf("L %s nostream opens=0 -\n", kind_name[k]);
			continue;
		}
		ctx = xmp_create_context();
		LIB(rc = xmp_load_module_from_file(ctx, f, size));
		report_load(kind_name[k], ctx, rc);
		xmp_free_context(ctx);
		if (k == 0)
			printf("P L %d\n", ck.past);
		fclose(f);
		if (k >= 2)
			unlink(tmppath2);
	}

	memset(&ti, 0, sizeof(ti));
	LIB(rc = xmp_test_module(tmppath, &ti));
	report_test("path", rc, &ti);

	memset(&ti, 0, sizeof(ti));
	f = fopen(tmppath, "rb");
	LIB(rc = xmp_test_module_from_file(f, &ti));
	report_test("file", rc, &ti);
	fclose(f);

	memset(&ti, 0, sizeof(ti));
	LIB(rc = xmp_test_module_from_memory(buf, size, &ti));
	report_test("mem", rc, &ti);

	memset(&ti, 0, sizeof(ti));
	cst.pos = 0;
	LIB(rc = xmp_test_module_from_callbacks(&cst, cbs, &ti));
	report_test("cb", rc, &ti);

	memset(&ti, 0, sizeof(ti));
	stack_pat = 0xEE;
	LIB(rc = xmp_test_module_from_memory(buf, size, &ti));
	report_test("mem2", rc, &ti);
	stack_pat = 0x11;

	for (k = 0; k < NKINDS; k++) {
		struct ckstate ck;
		snprintf(tmppath2, sizeof(tmppath2), "%s/w+%s", tmpdir, base);
		f = open_kind(k, &ck, buf, size, tmppath2);
		if (!f) {
			printf("T %s nostream opens=0 -\n", kind_name[k]);
			continue;
		}
		memset(&ti, 0, sizeof(ti));
		LIB(rc = xmp_test_module_from_file(f, &ti));
		report_test(kind_name[k], rc, &ti);
		if (k == 0)
			printf("P T %d\n", ck.past);
		fclose(f);
		if (k >= 2)
			unlink(tmppath2);
	}

	printf("end %s\n", id);
	fflush(stdout);
	unlink(tmppath);
	free(buf);
	return 0;
}

int main(int argc, char **argv)
{
	static char line[1 << 20];
	FILE *cf;
	uint64_t seed;

	if (argc < 4) {
		fprintf(stderr, "usage: %s <seed> <tmpdir> <casefile> [nframes]\n", argv[0]);
		return 2;
	}
	seed = (uint64_t)atoll(argv[1]);
	if (argc > 4)
		nframes = atoi(argv[4]);
	cf = fopen(argv[3], "r");
	if (!cf) {
		perror(argv[3]);
		return 2;
	}
	/* Read the whole case list first and close it: libxmp forks for external unpackers (Rar, MO3), and the
	 * child's exit() would move the shared file offset of an open input stream back (cases would run twice). */
	{
		char **lines = NULL;
		long nl = 0, cap = 0, k;
		while (fgets(line, sizeof(line), cf)) {
			if (nl == cap) {
				cap = cap ? cap * 2 : 1024;
				lines = (char **)realloc(lines, (size_t)cap * sizeof(char *));
			}
			lines[nl++] = strdup(line);
		}
		fclose(cf);
		for (k = 0; k < nl; k++) {
			char *tok[1024];
			int n = 0;
			char *p = strtok(lines[k], "\t\n");
			while (p && n < 1024) {
				tok[n++] = p;
				p = strtok(NULL, "\t\n");
			}
			if (n >= 5 && !strcmp(tok[0], "case") && atoi(tok[4]) <= n - 5) {
				fflush(stdout);
				if (run_case(tok[1], tok[2], atol(tok[3]), atoi(tok[4]), tok + 5, argv[2], seed) < 0)
					return 2;
			}
			free(lines[k]);
		}
		free(lines);
	}
	return 0;
}
