/* C01 (and C02) tie for the mixer window theorems of XmpProps.C01:
 * every call of a mixing kernel made by the real libxmp_mixer_softmixer is
 * observed (the call site `mix_fn(...)` is rerouted through a function-like
 * macro, no source change), the fixed-point walk of the kernel is recomputed
 * and (a) checked directly against the allocation bounds of the sample
 * (direct oracle), (b) printed for the Lean driver, which evaluates the
 * model's `windowOk` and the hypotheses of C01_window_forward/_reverse.
 *
 * usage: c01_window <seed> <ncases> <frames> <module>...
 * output: one line per observed kernel call (sampled) :
 *   w <q0> <stepfix> <count> <interp> <len> <rev> <pn> <sn> <bound> <D>
 *   bad <text>      direct oracle failure
 *   stat calls=<n> printed=<n> maxiter=<n> ticksize_violations=<n>
 */
#include "vcommon.h"
#include <xmp.h>
#include "common.h"
#include "mixer.h"
#include "virtual.h"

static void spy_mix(struct context_data *ctx, void (*fn)(struct mixer_voice *, int32 *, int, int, int, int, int, int, int),
		    struct mixer_voice *vi, int32 *buf, int count, int vl, int vr, int step, int ramp, int dl, int dr);

#define mix_fn(vi, buf, count, vl, vr, step, ramp, dl, dr) \
	spy_mix(ctx, (mix_fn), (vi), (buf), (count), (vl), (vr), (step), (ramp), (dl), (dr))

#include "mixer.c"

static long n_calls, n_printed, n_bad, max_count, tick_viol;
static int print_every = 1;

static void spy_mix(struct context_data *ctx, void (*fn)(struct mixer_voice *, int32 *, int, int, int, int, int, int, int),
		    struct mixer_voice *vi, int32 *buf, int count, int vl, int vr, int step, int ramp, int dl, int dr)
{
	struct mixer_data *s = &ctx->s;
	struct player_data *p = &ctx->p;
	struct module_data *m = &ctx->m;
	struct xmp_sample *xxs;
	int interp = s->interp > 2 ? 1 : s->interp;
	int paula = 0;
	long long q0, q;
	int ipos, frac, i, rev, len;

#ifdef LIBXMP_PAULA_SIMULATOR
	if ((p->flags & XMP_FLAGS_A500) && IS_AMIGA_MOD())
		paula = 1;
#endif
	if (vi->smp < m->mod.smp)
		xxs = &m->mod.xxs[vi->smp];
	else
		xxs = &ctx->smix.xxs[vi->smp - m->mod.smp];
	len = xxs->len;
	rev = (vi->flags & VOICE_REVERSE) ? 1 : 0;

	n_calls++;
	if (count > max_count)
		max_count = count;
	if (count > s->ticksize)
		tick_viol++;

	if (!paula) {
		/* VAR_NORM / NEAREST_ROUND / UPDATE_POS of mix_all.c */
		ipos = (int)vi->pos;
		frac = (int)((1 << SMIX_SHIFT) * (vi->pos - (int)vi->pos));
		q0 = (long long)ipos * 65536 + frac;
		if (interp == 0)
			q0 += 32768;
		q = q0;
		for (i = 0; i < count; i++) {
			long long idx = q >> 16;	/* arithmetic shift = floor */
			long long lo = idx + (interp == 2 ? -1 : 0);
			long long hi = idx + (interp == 2 ? 2 : interp == 1 ? 1 : 0);
			if (lo < -1 || hi > (long long)len + 3) {
				if (n_bad < 20)
					printf("bad kernel call touches frame %lld..%lld of a %d-frame sample (pos=%.6f step=%d count=%d iter=%d interp=%d rev=%d start=%d end=%d)\n",
					       lo, hi, len, vi->pos, step, count, i, interp, rev, vi->start, vi->end);
				n_bad++;
				break;
			}
			q += step;
		}
		if (n_calls % print_every == 0) {
			/* exact binary rationals over D = 2^30 for the theorem hypotheses:
			 * forward: pn = floor(pos*D), sn = ceil(|step_d|*D) ; reverse: pn = ceil, sn = ceil */
			double D = 1073741824.0;
			double stepd = (double)step / 65536.0;	/* the kernel's own step; >= the truncated double */
			long long pn = rev ? (long long)ceil(vi->pos * D) : (long long)floor(vi->pos * D);
			long long sn = (long long)ceil(fabs(stepd) * D);
			printf("w %lld %d %d %d %d %d %lld %lld %d 1073741824\n", q0, step, count, interp, len, rev, pn, sn,
			       rev ? vi->start : vi->end);
			n_printed++;
		}
	}
	fn(vi, buf, count, vl, vr, step, ramp, dl, dr);
}

int main(int argc, char **argv)
{
	uint64_t seed;
	int ncases, frames, i, j, nmods;

	if (argc < 5) {
		fprintf(stderr, "usage: %s <seed> <ncases> <frames> <module>...\n", argv[0]);
		return 2;
	}
	seed = strtoull(argv[1], NULL, 10);
	ncases = atoi(argv[2]);
	frames = atoi(argv[3]);
	nmods = argc - 4;
	print_every = 7;
	for (i = 0; i < ncases; i++) {
		static const int rates[] = { 4000, 8000, 11025, 22050, 44100, 48000, 49170 };
		xmp_context c;
		struct xmp_module_info mi;
		const char *path;
		vrng_seed(seed * 1000003ULL + i);
		path = argv[4 + vrng_below(nmods)];
		c = xmp_create_context();
		if (xmp_load_module(c, path) < 0) {
			xmp_free_context(c);
			continue;
		}
		if (xmp_start_player(c, rates[vrng_below(7)], vrng_below(8)) < 0) {
			xmp_release_module(c);
			xmp_free_context(c);
			continue;
		}
		xmp_get_module_info(c, &mi);
		xmp_set_player(c, XMP_PLAYER_INTERP, vrng_below(3));
		if (vrng_chance(20))
			xmp_set_player(c, XMP_PLAYER_MODE, vrng_below(12));
		printf("case %d %s\n", i, path);
		for (j = 0; j < frames; j++) {
			int r = vrng_below(100);
			if (r < 3)
				xmp_set_position(c, vrng_range(0, mi.mod->len));
			else if (r < 5)
				xmp_seek_time(c, vrng_range(0, 600000));
			else if (r < 6)
				xmp_set_tempo_factor(c, 0.25 + vrng_below(40) / 8.0);
			if (xmp_play_frame(c) < 0)
				break;
		}
		xmp_end_player(c);
		xmp_release_module(c);
		xmp_free_context(c);
	}
	printf("stat calls=%ld printed=%ld maxiter=%ld ticksize_violations=%ld bad=%ld\n", n_calls, n_printed, max_count,
	       tick_viol, n_bad);
	return 0;
}
