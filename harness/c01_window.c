/* C01 (and C02) tie for the mixer window theorems and the voice position
 * invariant of XmpProps.C01 (models XmpModel/MixWindow.lean, XmpModel/VoicePos.lean).
 *
 * Nothing in /repo is changed: mixer.c is included into this translation unit
 * and observed through function-like / object-like macros:
 *
 *   mix_fn(...)            the kernel call site          -> spy_mix   (every kernel call)
 *   .split                 read at the top of every iteration of the segment loop
 *                                                        -> c01_top   (state at the loop top, size, usmp)
 *   libxmp_mixer_softmixer / _voicepos / _setpatch / _reverse / _release
 *                          renamed; wrappers with the public names log the state
 *                          before and after the real function
 *
 * (a) direct oracle: the fixed-point walk of every kernel call is recomputed and
 *     compared with the allocation bounds of the sample;
 * (b) `w` lines: kernel calls for the driver (windowOk + hypotheses of
 *     C01_window_forward/_reverse);
 * (c) `T/L/K/E/P/A/R/Z` lines: exact voice states (positions as exact dyadic
 *     rationals over 2^62) before/after every tick prologue, segment-loop
 *     iteration, loop_reposition (inside the iteration), voicepos, setpatch,
 *     reverse and release; the driver recomputes each transition with the Lean
 *     model and evaluates the invariant `voiceInv` on every observed state.
 *
 * usage: c01_window <seed> <ncases> <frames> <module>...
 *        c01_window fixed <rate> <interp> <frames> <module>...   (regression witnesses)
 */
#include "vcommon.h"
#include <math.h>
#if defined(__has_feature)
#if __has_feature(address_sanitizer)
#include <sanitizer/allocator_interface.h>
#define C01_HAVE_ALLOC_SIZE 1
#endif
#endif
#include <limits.h>
#include <xmp.h>
#include "common.h"
#include "virtual.h"
#include "mixer.h"
#include "period.h"
#include "player.h"
#ifdef LIBXMP_PAULA_SIMULATOR
#include "paula.h"
#endif

static void spy_mix(struct context_data *ctx, void (*fn)(struct mixer_voice *, int32 *, int, int, int, int, int, int, int),
		    struct mixer_voice *vi, int32 *buf, int count, int vl, int vr, int step, int ramp, int dl, int dr);
static int c01_top(struct context_data *ctx, struct mixer_voice *vi, struct xmp_sample *xxs,
		   struct extra_sample_data *xtra, double step, int size, int usmp);

#define mix_fn(vi, buf, count, vl, vr, step, ramp, dl, dr) \
	spy_mix(ctx, (mix_fn), (vi), (buf), (count), (vl), (vr), (step), (ramp), (dl), (dr))
#define split split + c01_top(ctx, vi, xxs, xtra, step, size, usmp)
#define libxmp_mixer_softmixer real_mixer_softmixer
#define libxmp_mixer_voicepos real_mixer_voicepos
#define libxmp_mixer_setpatch real_mixer_setpatch
#define libxmp_mixer_reverse real_mixer_reverse
#define libxmp_mixer_release real_mixer_release

void real_mixer_softmixer(struct context_data *);
void real_mixer_voicepos(struct context_data *, int, double, int);
void real_mixer_setpatch(struct context_data *, int, int, int);
void real_mixer_reverse(struct context_data *, int, int);
void real_mixer_release(struct context_data *, int, int);

#include "mixer.c"

#undef split
#undef libxmp_mixer_softmixer
#undef libxmp_mixer_voicepos
#undef libxmp_mixer_setpatch
#undef libxmp_mixer_reverse
#undef libxmp_mixer_release

static long n_calls, n_printed, n_bad, max_count, tick_viol, n_alloc_checked, n_alloc_bad;
static long n_vticks, n_vticks_traced, n_api, n_api_traced;
static int print_every = 1;
static int trace_every = 1;		/* voice-ticks */
static int api_every = 1;

/* ---- exact state records ------------------------------------------------ */

/* a double as "hi lo": value = hi + lo / 2^62, 0 <= lo < 2^62 */
static void pnum(double x)
{
	double hi = floor(x);
	double fr = x - hi;			/* exact, in [0,1) */
	long long lo = (long long)(fr * 4611686018427387904.0);	/* exact unless x has bits below 2^-62 */
	printf(" %lld %lld", (long long)hi, lo);
}

static struct xmp_sample *sample_of(struct context_data *ctx, int smp, struct extra_sample_data **xtra)
{
	struct module_data *m = &ctx->m;
	*xtra = NULL;
	if (smp < 0)
		return NULL;
	if (smp < m->mod.smp) {
		*xtra = &m->xtra[smp];
		return &m->mod.xxs[smp];
	}
	if (smp - m->mod.smp < ctx->smix.smp)
		return &ctx->smix.xxs[smp - m->mod.smp];
	return NULL;
}

/* S valid len lps lpe sus sue loop lbidir lfull sloop sbidir ismod synth hasdata */
static void psmp(struct context_data *ctx, int smp)
{
	struct extra_sample_data *xtra;
	struct xmp_sample *xxs = sample_of(ctx, smp, &xtra);
	if (xxs == NULL) {
		printf(" S 0 0 0 0 0 0 0 0 0 0 0 0 0 0");
		return;
	}
	printf(" S 1 %d %d %d %d %d %d %d %d %d %d %d %d %d", xxs->len, xxs->lps, xxs->lpe, xtra ? xtra->sus : 0,
	       xtra ? xtra->sue : 0, !!(xxs->flg & XMP_SAMPLE_LOOP), !!(xxs->flg & XMP_SAMPLE_LOOP_BIDIR),
	       !!(xxs->flg & XMP_SAMPLE_LOOP_FULL), !!(xxs->flg & XMP_SAMPLE_SLOOP), !!(xxs->flg & XMP_SAMPLE_SLOOP_BIDIR),
	       xtra != NULL, !!(xxs->flg & XMP_SAMPLE_SYNTH), xxs->data != NULL);
}

/* V hi lo start end release sloopf rev bidir queued paused active chn  + S record of vi->smp */
static void pvoice(struct context_data *ctx, const struct mixer_voice *vi)
{
	printf(" V");
	pnum(vi->pos);
	printf(" %d %d %d %d %d %d %d %d %d %d", vi->start, vi->end, !!(vi->flags & VOICE_RELEASE), !!(vi->flags & SAMPLE_LOOP),
	       !!(vi->flags & VOICE_REVERSE), !!(vi->flags & VOICE_BIDIR), !!(vi->flags & SAMPLE_QUEUED),
	       !!(vi->flags & SAMPLE_PAUSED), !!(vi->fidx & FLAG_ACTIVE), vi->chn);
	psmp(ctx, vi->smp);
}

/* ---- tick tracing --------------------------------------------------------- */

static struct mixer_voice *pre_voices;	/* copy of the voice array before the tick */
static int pre_maxvoc;
static unsigned char *voc_seen;		/* 0 = not yet in the loop this tick, 1 = traced, 2 = not traced */

static int c01_top(struct context_data *ctx, struct mixer_voice *vi, struct xmp_sample *xxs,
		   struct extra_sample_data *xtra, double step, int size, int usmp)
{
	struct player_data *p = &ctx->p;
	int voc = (int)(vi - p->virt.voice_array);

	(void)xxs;
	(void)xtra;
	if (voc < 0 || voc >= pre_maxvoc || pre_voices == NULL)
		return 0;
	if (voc_seen[voc] == 0) {
		n_vticks++;
		if (n_vticks % trace_every == 0) {
			const struct mixer_voice *pv = &pre_voices[voc];
			voc_seen[voc] = 1;
			n_vticks_traced++;
			/* T voc <V pre> step ticksize adj split Q <queued sample> */
			printf("T %d", voc);
			pvoice(ctx, pv);
			pnum(step);
			printf(" %d %d %d Q", ctx->s.ticksize, ctx->s.bidir_adjust, p->xc_data[vi->chn].split ? 1 : 0);
			psmp(ctx, (pv->flags & SAMPLE_QUEUED) || (vi->flags & SAMPLE_QUEUED) ? vi->queued.smp : -1);
			printf("\n");
		} else {
			voc_seen[voc] = 2;
		}
	}
	if (voc_seen[voc] == 1) {
		printf("L %d", voc);
		pvoice(ctx, vi);
		printf(" %d %d\n", size, usmp);
	}
	return 0;
}

void libxmp_mixer_softmixer(struct context_data *ctx)
{
	struct player_data *p = &ctx->p;
	int n = p->virt.maxvoc, v;

	if (n > 0 && p->virt.voice_array != NULL) {
		pre_voices = (struct mixer_voice *)realloc(pre_voices, n * sizeof(struct mixer_voice));
		voc_seen = (unsigned char *)realloc(voc_seen, n);
		memcpy(pre_voices, p->virt.voice_array, n * sizeof(struct mixer_voice));
		memset(voc_seen, 0, n);
		pre_maxvoc = n;
	} else {
		pre_maxvoc = 0;
	}
	real_mixer_softmixer(ctx);
	for (v = 0; v < pre_maxvoc && v < p->virt.maxvoc; v++) {
		if (voc_seen[v] == 1) {
			/* E voc <V post> */
			printf("E %d", v);
			pvoice(ctx, &p->virt.voice_array[v]);
			printf("\n");
		}
	}
	pre_maxvoc = 0;
}

/* ---- API wrappers ----------------------------------------------------------- */

static int api_traced(void)
{
	n_api++;
	if (n_api % api_every)
		return 0;
	n_api_traced++;
	return 1;
}

void libxmp_mixer_voicepos(struct context_data *ctx, int voc, double pos, int ac)
{
	struct player_data *p = &ctx->p;
	struct mixer_voice *vi = &p->virt.voice_array[voc];
	int tr = api_traced();

	if (tr) {
		/* P <V pre> pos adj same Q <queued sample>  ... then  p <V post> */
		printf("P");
		pvoice(ctx, vi);
		pnum(pos);
		printf(" %d %d Q", ctx->s.bidir_adjust, vi->smp == vi->queued.smp);
		psmp(ctx, (vi->flags & SAMPLE_QUEUED) ? vi->queued.smp : -1);
		printf("\n");
	}
	real_mixer_voicepos(ctx, voc, pos, ac);
	if (tr) {
		printf("p");
		pvoice(ctx, vi);
		printf("\n");
	}
}

void libxmp_mixer_setpatch(struct context_data *ctx, int voc, int smp, int ac)
{
	struct player_data *p = &ctx->p;
	struct mixer_voice *vi = &p->virt.voice_array[voc];
	int tr = api_traced();

	if (tr) {
		/* A <V pre> adj N <new sample>  ... then  a <V post> */
		printf("A");
		pvoice(ctx, vi);
		printf(" %d N", ctx->s.bidir_adjust);
		psmp(ctx, smp);
		printf("\n");
	}
	real_mixer_setpatch(ctx, voc, smp, ac);
	if (tr) {
		printf("a");
		pvoice(ctx, vi);
		printf("\n");
	}
}

void libxmp_mixer_reverse(struct context_data *ctx, int voc, int rev)
{
	struct player_data *p = &ctx->p;
	struct mixer_voice *vi = &p->virt.voice_array[voc];
	int tr = api_traced();

	if (tr) {
		printf("R %d", !!rev);
		pvoice(ctx, vi);
		printf("\n");
	}
	real_mixer_reverse(ctx, voc, rev);
	if (tr) {
		printf("r");
		pvoice(ctx, vi);
		printf("\n");
	}
}

void libxmp_mixer_release(struct context_data *ctx, int voc, int rel)
{
	struct player_data *p = &ctx->p;
	struct mixer_voice *vi = &p->virt.voice_array[voc];
	int tr = api_traced();

	if (tr) {
		printf("Z %d", !!rel);
		pvoice(ctx, vi);
		printf("\n");
	}
	real_mixer_release(ctx, voc, rel);
	if (tr) {
		printf("z");
		pvoice(ctx, vi);
		printf("\n");
	}
}

/* ---- kernel calls ------------------------------------------------------------- */

static void spy_mix(struct context_data *ctx, void (*fn)(struct mixer_voice *, int32 *, int, int, int, int, int, int, int),
		    struct mixer_voice *vi, int32 *buf, int count, int vl, int vr, int step, int ramp, int dl, int dr)
{
	struct mixer_data *s = &ctx->s;
	struct player_data *p = &ctx->p;
	struct module_data *m = &ctx->m;
	struct xmp_sample *xxs;
	int interp = s->interp > 2 ? 1 : s->interp;
	int paula = 0;
	long long q0, q;
	int ipos, frac, i, rev, len;
	int voc = (int)(vi - p->virt.voice_array);

#ifdef LIBXMP_PAULA_SIMULATOR
	if ((p->flags & XMP_FLAGS_A500) && IS_AMIGA_MOD())
		paula = 1;
#endif
	if (vi->smp < m->mod.smp)
		xxs = &m->mod.xxs[vi->smp];
	else
		xxs = &ctx->smix.xxs[vi->smp - m->mod.smp];
	len = xxs->len;
	rev = (vi->flags & VOICE_REVERSE) ? 1 : 0;

	n_calls++;
#ifdef C01_HAVE_ALLOC_SIZE
	/* the block C20 proves: malloc(4 + len*framelen + 4*framelen), data = block + 4
	 * (C01_mixer_reads_in_allocation is stated over exactly this layout) */
	if (vi->sptr != NULL && vi->sptr == (void *)xxs->data) {
		int fl = ((xxs->flg & XMP_SAMPLE_16BIT) ? 2 : 1) * ((xxs->flg & XMP_SAMPLE_STEREO) ? 2 : 1);
		const unsigned char *base = xxs->data - 4;
		size_t need = 4 + ((size_t)len + 4) * fl;
		n_alloc_checked++;
		if (!__sanitizer_get_ownership(base) || __sanitizer_get_allocated_size(base) < need) {
			if (n_alloc_bad < 5)
				printf("badalloc sample of %d frames x %d bytes: block at data-4 has %zu bytes (owned=%d), the model needs %zu\n",
				       len, fl, __sanitizer_get_ownership(base) ? __sanitizer_get_allocated_size(base) : 0,
				       __sanitizer_get_ownership(base), need);
			n_alloc_bad++;
		}
	}
#endif
	if (count > max_count)
		max_count = count;
	if (count > s->ticksize)
		tick_viol++;

	if (!paula) {
		/* VAR_NORM / NEAREST_ROUND / UPDATE_POS of mix_all.c */
		ipos = (int)vi->pos;
		frac = (int)((1 << SMIX_SHIFT) * (vi->pos - (int)vi->pos));
		q0 = (long long)ipos * 65536 + frac;
		if (interp == 0)
			q0 += 32768;
		q = q0;
		for (i = 0; i < count; i++) {
			long long idx = q >> 16;	/* arithmetic shift = floor */
			long long lo = idx + (interp == 2 ? -1 : 0);
			long long hi = idx + (interp == 2 ? 2 : interp == 1 ? 1 : 0);
			if (lo < -1 || hi > (long long)len + 3) {
				if (n_bad < 20)
					printf("bad kernel call touches frame %lld..%lld of a %d-frame sample (pos=%.6f step=%d count=%d iter=%d interp=%d rev=%d start=%d end=%d)\n",
					       lo, hi, len, vi->pos, step, count, i, interp, rev, vi->start, vi->end);
				n_bad++;
				break;
			}
			q += step;
		}
		if (voc >= 0 && voc < pre_maxvoc && voc_seen[voc] == 1) {
			/* K voc q0 stepfix count interp : belongs to the preceding L line of this voice */
			printf("K %d %lld %d %d %d\n", voc, q0, step, count, interp);
		}
		if (n_calls % print_every == 0) {
			/* exact binary rationals over D = 2^30 for the theorem hypotheses:
			 * forward: pn = floor(pos*D), sn = ceil(|step_d|*D) ; reverse: pn = ceil, sn = ceil */
			double D = 1073741824.0;
			double stepd = (double)step / 65536.0;	/* the kernel's own step; >= the truncated double */
			long long pn = rev ? (long long)ceil(vi->pos * D) : (long long)floor(vi->pos * D);
			long long sn = (long long)ceil(fabs(stepd) * D);
			printf("w %lld %d %d %d %d %d %lld %lld %d 1073741824\n", q0, step, count, interp, len, rev, pn, sn,
			       rev ? vi->start : vi->end);
			n_printed++;
		}
	}
	fn(vi, buf, count, vl, vr, step, ramp, dl, dr);
}

static void play_case(int idx, const char *path, int rate, int format, int interp, int frames, int randomize)
{
	xmp_context c;
	struct xmp_module_info mi;
	int j;

	c = xmp_create_context();
	if (xmp_load_module(c, path) < 0) {
		xmp_free_context(c);
		return;
	}
	if (xmp_start_player(c, rate, format) < 0) {
		xmp_release_module(c);
		xmp_free_context(c);
		return;
	}
	/* IT random volume/pan variation is seeded from time(): pin it */
	libxmp_set_random(&((struct context_data *)c)->rng, 12345);
	xmp_get_module_info(c, &mi);
	xmp_set_player(c, XMP_PLAYER_INTERP, interp);
	if (randomize && vrng_chance(20))
		xmp_set_player(c, XMP_PLAYER_MODE, vrng_below(12));
	printf("case %d %s rate=%d interp=%d\n", idx, path, rate, interp);
	for (j = 0; j < frames; j++) {
		if (randomize) {
			int r = vrng_below(100);
			if (r < 3) {
				int a = vrng_range(0, mi.mod->len);
				if (getenv("C01_TRACE_CALLS")) { printf("call %d set_position %d\n", j, a); fflush(stdout); }
				xmp_set_position(c, a);
			} else if (r < 5) {
				int a = vrng_range(0, 600000);
				if (getenv("C01_TRACE_CALLS")) { printf("call %d seek_time %d\n", j, a); fflush(stdout); }
				xmp_seek_time(c, a);
			} else if (r < 6) {
				double a = 0.25 + vrng_below(40) / 8.0;
				if (getenv("C01_TRACE_CALLS")) { printf("call %d tempo_factor %g\n", j, a); fflush(stdout); }
				xmp_set_tempo_factor(c, a);
			}
		}
		if (xmp_play_frame(c) < 0)
			break;
	}
	xmp_end_player(c);
	xmp_release_module(c);
	xmp_free_context(c);
}

int main(int argc, char **argv)
{
	uint64_t seed;
	int ncases, frames, i, nmods;

	if (argc >= 6 && !strcmp(argv[1], "fixed")) {
		/* regression witnesses: every voice-tick and API call is traced */
		int rate = atoi(argv[2]), interp = atoi(argv[3]);
		frames = atoi(argv[4]);
		print_every = trace_every = api_every = 1;
		for (i = 5; i < argc; i++)
			play_case(i - 5, argv[i], rate, 0, interp, frames, 0);
		goto stat;
	}
	if (argc < 5) {
		fprintf(stderr, "usage: %s <seed> <ncases> <frames> <module>...\n       %s fixed <rate> <interp> <frames> <module>...\n",
			argv[0], argv[0]);
		return 2;
	}
	seed = strtoull(argv[1], NULL, 10);
	ncases = atoi(argv[2]);
	frames = atoi(argv[3]);
	nmods = argc - 4;
	print_every = 7;
	trace_every = 11;
	api_every = 3;
	for (i = 0; i < ncases; i++) {
		static const int rates[] = { 4000, 8000, 11025, 22050, 44100, 48000, 49170 };
		const char *path;
		int rate, format, interp;
		if (getenv("C01_ONLY") && atoi(getenv("C01_ONLY")) != i)
			continue;	/* replay of a single case: every case is a pure function of (seed, i, file list) */
		vrng_seed(seed * 1000003ULL + i);
		path = argv[4 + vrng_below(nmods)];
		rate = rates[vrng_below(7)];
		format = vrng_below(8);
		interp = vrng_below(3);
		play_case(i, path, rate, format, interp, frames, 1);
	}
stat:
	printf("stat calls=%ld printed=%ld maxiter=%ld ticksize_violations=%ld bad=%ld vticks=%ld traced=%ld api=%ld api_traced=%ld alloc_checked=%ld alloc_bad=%ld\n",
	       n_calls, n_printed, max_count, tick_viol, n_bad, n_vticks, n_vticks_traced, n_api, n_api_traced, n_alloc_checked,
	       n_alloc_bad);
	return 0;
}
