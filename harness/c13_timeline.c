/* C13 harness, part 2: the direct oracle on real renders.
 *
 * usage: c13_timeline <seed> <ncases> <maxframes> <nsite> <module>...
 *        c13_timeline --one <module> <case_seed> <maxframes> <nsite>      (replay of one case)
 * Every case runs in a forked child; an abnormal end is reported as `crash <module> cseed=<n>` (stdout)
 * and `@@crash <module> cseed=<n>` after the sanitizer report (stderr).
 *
 * One case = one module rendered in lockstep by NCTX contexts that differ only in the
 * output configuration, all driven by the same control script (xmp_set_position,
 * xmp_next/prev_position, xmp_seek_time, xmp_set_row, xmp_restart_module, xmp_set_tempo_factor,
 * xmp_inject_event with a tempo effect, xmp_set_player probes, at random frames).  xmp_set_tempo_factor may
 * refuse a value depending on the sampling rate (documented: the tick must fit the frame buffer) but never
 * depending on the sample format: contexts with the same rate must give the same answer (oracle
 * `tempo_factor`), and every case probes factors around the acceptance limit of one of its contexts
 * (limit x {0.25, 0.5, 0.9, 1, 1.1, 2, 4} and the two factors whose tick size is exactly the cap / cap + 1),
 * tiny, huge, zero, negative, infinite and NaN factors.  A value that is not accepted by all contexts is rolled
 * back in all of them, so the script stays common.  Each real call is also written as a model case
 *   tfc <fmt> <rate> <playing> <bpm> <rrate m e> <time_factor m e> <bad|inf|pos> <val m e>  /  tfe <ret> <time_factor m e>
 * (doubles exactly as m * 2^e) for the Lean driver (Xmp.C13Timeline.setTempoFactor).  One case in
 * five is a "slow" case: the largest commonly accepted tempo factor followed by an injected tempo of
 * 32 BPM, which drives the high-rate contexts into the tick-size clamp of libxmp_mixer_prepare.
 *
 *   ctx 0..3   "amp group":  rate R, 16-bit signed, mono flag M, amplification 0,1,2,3
 *   ctx 4..6   "encoding group": rate R, amp A, mono M: 16-bit unsigned, 8-bit signed, 8-bit unsigned
 *   ctx 7      rate R, amp A, 16-bit signed, mono flag flipped
 *   ctx 8..    free configurations: random rate 4000..49170, any of the 8 formats, interpolator,
 *              amp 0..3, mix -100..100, master volume 0..200, effects-mixer volume 0..200, dsp; changed again at random
 *              frames.  ctx 8 has master volume 0 for the whole case, ctx 9 has channels muted (xmp_channel_mute; one case
 *              in four: all of them) and per-channel volumes (xmp_channel_vol): the volume settings at their extremes
 *   (R, M, A, interpolator, mix, volume, dsp of the groups are random per case)
 *
 * Oracle, per frame:
 *   timeline   return code of xmp_play_frame and of every control call, and pos, pattern, row,
 *              num_rows, frame, speed, bpm, time, total_time, frame_time, loop_count, sequence of
 *              xmp_get_frame_info are identical in all contexts;
 *   layout     buffer_size = ticksize * (2 - mono) * (2 - 8bit) <= 2 * total_size, same ticksize
 *              for the same rate;
 *   unsigned   16u = 16s with the top bit flipped, 8u = 8s with the top bit flipped (sample by sample);
 *   highbyte   8s = high byte of 16s, 8u = high byte of 16u;
 *   amp        out(a) = floor(out(a+1) / 2) where out(a+1) is not clipped, |out(a)| >= half scale where it is;
 *   voice_state  every mixer voice of the context with the mono flag flipped is in the same state as in the group, the pan
 *              apart (channel, sample, volume, period, position, filter cutoff / resonance / coefficients): mono vs stereo
 *              does not change the music;
 *   acc        the 32-bit accumulator buffers (read through the private headers) of all group
 *              members are identical: format bits and amplification act on the encoding only.
 * Tie of the call site to the model (compared with the Lean driver by the check):
 *   site <fmt> <ticksize> <amp> <hex of the accumulators>   /  siteout <buffer_size> <fnv of the bytes in s->buffer>
 */
#include "vcommon.h"
#include <math.h>
#include <float.h>
#include <unistd.h>
#include <sys/wait.h>
#include <xmp.h>
#include "common.h"
#include "rng.h"
#include "mixer.h"

#define NGROUP 8
#define NFREE 3
#define NCTX (NGROUP + NFREE)
#define MAXOPS 96

struct cfg {
	int rate, fmt, interp, amp, mix, vol, dsp;
	int smix;			/* XMP_PLAYER_SMIX_VOLUME */
	unsigned long long mute;	/* channels muted through xmp_channel_mute */
	int chvol;			/* != 0: xmp_channel_vol(ch, (ch * chvol) % 101) on every channel */
};

struct op {
	int frame, kind, arg;
};

struct tl {
	int ret, pos, pattern, row, num_rows, frame, speed, bpm, time, total_time, frame_time, loop_count, sequence;
};

static long n_fail;
static int printed;

static void ofail(const char *kind, int frame, int a, int b, const char *field, long va, long vb)
{
	n_fail++;
	if (printed++ < 12)
		printf("oracle_fail %s frame=%d ctx=%d vs=%d field=%s got=%ld want=%ld\n", kind, frame, b, a, field, vb, va);
}

static int pick_rate(void)
{
	static const int common[] = { 4000, 49170, 8000, 11025, 16000, 22050, 32000, 44100, 48000, 4001, 49169 };
	if (vrng_chance(50))
		return common[vrng_below(sizeof(common) / sizeof(common[0]))];
	return vrng_range(XMP_MIN_SRATE, XMP_MAX_SRATE);
}

static void apply_cfg(xmp_context c, const struct cfg *k)
{
	xmp_set_player(c, XMP_PLAYER_INTERP, k->interp);
	xmp_set_player(c, XMP_PLAYER_AMP, k->amp);
	xmp_set_player(c, XMP_PLAYER_MIX, k->mix);
	xmp_set_player(c, XMP_PLAYER_VOLUME, k->vol);
	xmp_set_player(c, XMP_PLAYER_DSP, k->dsp);
	xmp_set_player(c, XMP_PLAYER_SMIX_VOLUME, k->smix);
}

/* per-channel volume settings: mutes and channel volumes */
static void apply_chan(xmp_context c, const struct cfg *k)
{
	int ch;
	for (ch = 0; ch < XMP_MAX_CHANNELS; ch++) {
		xmp_channel_mute(c, ch, (int)((k->mute >> ch) & 1));
		if (k->chvol)
			xmp_channel_vol(c, ch, (ch * k->chvol + 7) % 101);
	}
}

static const double tf_vals[] = { 0.25, 0.5, 0.8, 1.5, 2.0, 3.0, 4.0, 6.0, 8.0 };
#define NTF ((int)(sizeof(tf_vals) / sizeof(tf_vals[0])))

/* canonical m * 2^e of a positive double: m odd */
static void dbl_canon(double x, unsigned long long *m, int *e)
{
	int ex;
	double fr = frexp(x, &ex);
	unsigned long long mm = (unsigned long long)ldexp(fr, 53);
	ex -= 53;
	if (mm == 0) {
		*m = 0;
		*e = 0;
		return;
	}
	while ((mm & 1) == 0) {
		mm >>= 1;
		ex++;
	}
	*m = mm;
	*e = ex;
}

static int tfc_budget;
static long n_tf_calls, n_tf_accept, n_tf_refuse, n_tf_samerate_pairs, n_tf_probe_split;

/* xmp_set_tempo_factor in all contexts; keeps it only when all contexts answer the same.
 * Oracle: contexts with the same sampling rate answer the same (the sample format must not matter).
 * returns the common return code, or 1 when rolled back */
static int tempo_factor_all(xmp_context *c, const struct cfg *k, int n, double val, int frame)
{
	double old[32];
	int r[32], i, j, same = 1;

	for (i = 0; i < n; i++) {
		struct context_data *g = (struct context_data *)c[i];
		unsigned long long rm, tm, vm = 0;
		int re, te, ve = 0, emit;
		const char *kind = (val != val || val <= 0.0) ? "bad" : isinf(val) ? "inf" : "pos";
		old[i] = g->m.time_factor;
		emit = tfc_budget > 0 && fpclassify(g->m.rrate) == FP_NORMAL && g->m.rrate > 0 &&
		       fpclassify(old[i]) == FP_NORMAL && old[i] > 0 && (kind[0] != 'p' || fpclassify(val) == FP_NORMAL);
		if (emit) {
			dbl_canon(g->m.rrate, &rm, &re);
			dbl_canon(old[i], &tm, &te);
			if (kind[0] == 'p')
				dbl_canon(val, &vm, &ve);
			printf("tfc %d %d %d %d %llu %d %llu %d %s %llu %d\n", k[i].fmt, g->s.freq, g->state >= XMP_STATE_PLAYING,
			       g->p.bpm, rm, re, tm, te, kind, vm, ve);
		}
		r[i] = xmp_set_tempo_factor(c[i], val);
		n_tf_calls++;
		if (r[i] == 0)
			n_tf_accept++;
		else
			n_tf_refuse++;
		if (emit) {
			dbl_canon(g->m.time_factor, &tm, &te);
			printf("tfe %d %llu %d\n", r[i], tm, te);
			tfc_budget--;
		}
		if (r[i] != r[0])
			same = 0;
	}
	for (i = 0; i < n; i++) {
		for (j = i + 1; j < n; j++) {
			if (k[i].rate != k[j].rate)
				continue;
			n_tf_samerate_pairs++;
			if (r[i] != r[j])
				ofail("tempo_factor", frame, i, j, "ret", r[i], r[j]);
			else if (((struct context_data *)c[i])->m.time_factor != ((struct context_data *)c[j])->m.time_factor)
				ofail("tempo_factor", frame, i, j, "time_factor", (long)((struct context_data *)c[i])->m.time_factor,
				      (long)((struct context_data *)c[j])->m.time_factor);
		}
	}
	if (same)
		return r[0];
	n_tf_probe_split++;
	for (i = 0; i < n; i++)
		((struct context_data *)c[i])->m.time_factor = old[i];
	return 1;
}

/* the factor at which the tick of context g reaches `ticks` frames: ticks = freq * (10 val) * rrate / bpm / 1000 */
static double factor_for_ticks(const struct context_data *g, double ticks)
{
	return ticks * g->p.bpm * 1000.0 / ((double)g->s.freq * g->m.rrate * 10.0);
}

static const double tf_mult[] = { 0.25, 0.5, 0.9, 1.0, 1.1, 2.0, 4.0 };
#define NMULT ((int)(sizeof(tf_mult) / sizeof(tf_mult[0])))

/* other setters: the answer to a probe must not depend on the output configuration */
static const int sp_parm[] = { XMP_PLAYER_AMP, XMP_PLAYER_MIX, XMP_PLAYER_INTERP, XMP_PLAYER_DSP, XMP_PLAYER_FLAGS,
	XMP_PLAYER_CFLAGS, XMP_PLAYER_SMPCTL, XMP_PLAYER_VOLUME, XMP_PLAYER_STATE, XMP_PLAYER_SMIX_VOLUME, XMP_PLAYER_DEFPAN,
	XMP_PLAYER_MODE, XMP_PLAYER_MIXER_TYPE, XMP_PLAYER_VOICES, 12345 };
#define NSPARM ((int)(sizeof(sp_parm) / sizeof(sp_parm[0])))
static const int sp_bad[] = { -1, 4, 99, 101, -101, 201, 1000, 0x7fffffff, -0x7fffffff };
#define NSPBAD ((int)(sizeof(sp_bad) / sizeof(sp_bad[0])))

static int do_op(xmp_context c, const struct op *o)
{
	struct xmp_event ev;

	switch (o->kind) {
	case 7:
		memset(&ev, 0, sizeof(ev));
		ev.fxt = o->arg >> 8;	/* FX_SPEED (0x0f) or FX_IT_BPM (0x87): parameter >= 0x20 sets the tempo */
		ev.fxp = o->arg & 0xff;
		xmp_inject_event(c, 0, &ev);
		return 0;
	case 0:
		return xmp_set_position(c, o->arg);
	case 1:
		return xmp_next_position(c);
	case 2:
		return xmp_prev_position(c);
	case 3:
		return xmp_seek_time(c, o->arg);
	case 4:
		return xmp_set_row(c, o->arg);
	default:
		xmp_restart_module(c);
		return 0;
	}
}

static void get_tl(xmp_context c, int ret, struct tl *t, struct xmp_frame_info *fi)
{
	xmp_get_frame_info(c, fi);
	t->ret = ret;
	t->pos = fi->pos;
	t->pattern = fi->pattern;
	t->row = fi->row;
	t->num_rows = fi->num_rows;
	t->frame = fi->frame;
	t->speed = fi->speed;
	t->bpm = fi->bpm;
	t->time = fi->time;
	t->total_time = fi->total_time;
	t->frame_time = fi->frame_time;
	t->loop_count = fi->loop_count;
	t->sequence = fi->sequence;
}

#define CMP(f) do { if (a->f != b->f) ofail("timeline", frame, 0, i, #f, a->f, b->f); } while (0)

static void cmp_tl(int frame, int i, const struct tl *a, const struct tl *b)
{
	CMP(ret); CMP(pos); CMP(pattern); CMP(row); CMP(num_rows); CMP(frame); CMP(speed); CMP(bpm);
	CMP(time); CMP(total_time); CMP(frame_time); CMP(loop_count); CMP(sequence);
}

static long half_floor(long v)
{
	return v >= 0 ? v / 2 : -((-v + 1) / 2);
}

static int run_case(const char *path, const unsigned char *data, long size, uint64_t cseed, int maxframes, int nsite)
{
	xmp_context c[NCTX];
	struct cfg k[NCTX];
	struct op ops[MAXOPS];
	struct xmp_module_info mi;
	struct xmp_frame_info fi[NCTX];
	struct tl t[NCTX];
	int i, j, nops, frame, nctx = 0, sites = 0, played = 0;
	int R, M, A, len, total;
	long nonsilent = 0, clipped = 0, rowchg = 0, poschg = 0, samples_cmp = 0, opok = 0, reconf = 0;
	long novoice = 0, clampedf = 0, tfroll = 0, tfprobes = 0, setprobes = 0, restarts = 0;
	int bpmmin = 1 << 30;
	double tfmax = 0;
	int slow;
	int lastrow = -1, lastpos = -1, maxloop = 0, lastbpm = -1;
	long bpmchg = 0, voicecmp = 0, voicecmp_filter = 0;
	long fails_before = n_fail;

	vrng_seed(cseed);
	printed = 0;
	tfc_budget = 48;
	n_tf_calls = n_tf_accept = n_tf_refuse = n_tf_samerate_pairs = n_tf_probe_split = 0;

	for (i = 0; i < NCTX; i++) {
		c[i] = xmp_create_context();
		if (c[i] == NULL || xmp_load_module_from_memory(c[i], data, size) < 0) {
			if (c[i])
				xmp_free_context(c[i]);
			for (j = 0; j < i; j++) {
				xmp_release_module(c[j]);
				xmp_free_context(c[j]);
			}
			printf("skip %s\n", path);
			return 0;
		}
		/* the context's private RNG (IT random volume/pan variation, random LFO waveform) is seeded from
		 * time(NULL) in xmp_create_context: give all contexts of the case the same state, otherwise
		 * contexts created across a one-second boundary legitimately render different audio */
		libxmp_set_random(&((struct context_data *)c[i])->rng, 0x13572468u ^ (unsigned)cseed);
		nctx++;
	}
	xmp_get_module_info(c[0], &mi);
	len = mi.mod->len;
	if (len <= 0 || mi.mod->chn <= 0) {
		for (j = 0; j < nctx; j++) {
			xmp_release_module(c[j]);
			xmp_free_context(c[j]);
		}
		printf("skip %s\n", path);
		return 0;
	}
	total = mi.seq_data[0].duration;
	if (total < 0 || total > 36000000)
		total = 36000000;	/* endless modules report INT_MAX */

	/* configurations */
	R = pick_rate();
	M = vrng_chance(30) ? XMP_FORMAT_MONO : 0;
	A = vrng_range(0, 3);
	k[0].rate = R; k[0].fmt = M; k[0].interp = vrng_range(0, 2); k[0].amp = 0;
	k[0].mix = vrng_chance(30) ? 100 : vrng_range(-100, 100);
	k[0].vol = vrng_chance(40) ? 100 : vrng_range(0, 200);
	k[0].dsp = vrng_chance(70) ? XMP_DSP_LOWPASS : 0;
	k[0].smix = 100;
	k[0].mute = 0;
	k[0].chvol = 0;
	for (i = 1; i < NGROUP; i++)
		k[i] = k[0];
	for (i = 0; i < 4; i++)
		k[i].amp = i;
	k[4].amp = k[5].amp = k[6].amp = k[7].amp = A;
	k[4].fmt = M | XMP_FORMAT_UNSIGNED;
	k[5].fmt = M | XMP_FORMAT_8BIT;
	k[6].fmt = M | XMP_FORMAT_8BIT | XMP_FORMAT_UNSIGNED;
	k[7].fmt = M ^ XMP_FORMAT_MONO;
	for (i = NGROUP; i < NCTX; i++) {
		k[i].rate = pick_rate();
		k[i].fmt = vrng_range(0, 7);
		k[i].interp = vrng_range(0, 2);
		k[i].amp = vrng_range(0, 3);
		k[i].mix = vrng_range(-100, 100);
		k[i].vol = vrng_range(0, 200);
		k[i].dsp = vrng_range(0, 1);
		k[i].smix = vrng_chance(50) ? 100 : vrng_range(0, 200);
		k[i].mute = 0;
		k[i].chvol = 0;
	}
	/* volume settings at their extremes: the first free context is silent (master volume 0) for the whole case, the
	 * second has channels muted and per-channel volumes (sometimes all channels muted, sometimes volume 0 too) */
	k[NGROUP].vol = 0;
	k[NGROUP + 1].mute = vrng_chance(25) ? ~0ULL : (vrng_next() | (1ULL << vrng_below(4)));
	k[NGROUP + 1].chvol = vrng_chance(50) ? vrng_range(1, 100) : 0;

	/* control script */
	slow = vrng_chance(20);
	nops = vrng_chance(25) ? 0 : vrng_range(1, maxframes / 25 + 1);
	if (nops > MAXOPS - 8)
		nops = MAXOPS - 8;
	for (i = 0; i < nops; i++) {
		ops[i].frame = vrng_range(0, maxframes - 1);
		{
			static const int kinds[] = { 0, 1, 2, 3, 4, 5, 6, 7, 9, 9, 10, 11, 12 };
			ops[i].kind = kinds[vrng_below(sizeof(kinds) / sizeof(kinds[0]))];
		}
		ops[i].arg = 0;
		if (ops[i].kind == 9)		/* context whose limit is probed, multiplier / exact-boundary selector */
			ops[i].arg = (int)vrng_below(NCTX) * 16 + (int)vrng_below(NMULT + 2);
		else if (ops[i].kind == 10)
			ops[i].arg = (int)vrng_below(9);
		else if (ops[i].kind == 12)
			ops[i].arg = (int)vrng_below(2);
		else if (ops[i].kind == 11)
			ops[i].arg = (int)vrng_below(NSPARM) * 16 + (vrng_chance(50) ? 0 : 1 + (int)vrng_below(NSPBAD));
		if (ops[i].kind == 6)
			ops[i].arg = vrng_range(0, NTF - 1);
		else if (ops[i].kind == 7)
			ops[i].arg = ((vrng_chance(50) ? 0x0f : 0x87) << 8) | vrng_range(0x20, 0xff);
		if (ops[i].kind == 0)
			ops[i].arg = vrng_chance(90) ? vrng_range(0, len - 1) : vrng_range(-2, len + 2);
		else if (ops[i].kind == 3)
			ops[i].arg = vrng_range(0, total > 0 ? total + 500 : 1000);
		else if (ops[i].kind == 4)
			ops[i].arg = vrng_chance(90) ? vrng_range(0, 63) : vrng_range(-2, 300);
	}

	/* one case in two restarts the player in mid-play (xmp_start_player without xmp_end_player), after the position
	 * control calls of the first half: one half of the contexts with the configuration they already have, the other half
	 * with a new rate / format */
	if (vrng_chance(50) && nops < MAXOPS - 8) {
		ops[nops].frame = vrng_range(maxframes / 4, maxframes / 2 + 1);
		ops[nops].kind = 12;
		ops[nops].arg = (int)vrng_below(2);
		nops++;
		if (vrng_chance(50)) {
			/* … right after a jump into another part (sequence) of the module */
			ops[nops].frame = ops[nops - 1].frame - 1 - (int)vrng_below(3);
			if (ops[nops].frame < 0)
				ops[nops].frame = 0;
			ops[nops].kind = 0;
			ops[nops].arg = vrng_range(0, len - 1);
			nops++;
		}
	}
	/* every case probes the acceptance limit of xmp_set_tempo_factor a few times */
	for (i = 0; i < 4 && nops < MAXOPS - 3; i++) {
		ops[nops].frame = vrng_range(0, maxframes > 40 ? 40 : maxframes - 1);
		ops[nops].kind = 9;
		ops[nops].arg = (int)(i < 2 ? vrng_below(NGROUP) : vrng_below(NCTX)) * 16 + (int)vrng_below(NMULT + 2);
		nops++;
	}
	if (slow) {
		ops[nops].frame = 1;
		ops[nops].kind = 8;	/* largest commonly accepted tempo factor */
		ops[nops].arg = 0;
		nops++;
		ops[nops].frame = vrng_range(2, 24);
		ops[nops].kind = 7;
		ops[nops].arg = (0x87 << 8) | 0x20;	/* IT "set tempo" is not scaled by the tempo factor */
		nops++;
	}
	printf("begin %s cseed=%llu len=%d chn=%d ops=%d\n", path, (unsigned long long)cseed, len, mi.mod->chn, nops);
	for (i = 0; i < NCTX; i++) {
		int r = xmp_start_player(c[i], k[i].rate, k[i].fmt);
		if (r < 0) {
			/* all contexts share the module: a refusal must be common to all */
			printf("nostart %d %d\n", i, r);
			for (j = 0; j < i; j++)
				xmp_end_player(c[j]);
			goto out;
		}
		apply_cfg(c[i], &k[i]);
		apply_chan(c[i], &k[i]);
		printf("cfg %d rate=%d fmt=%d interp=%d amp=%d mix=%d vol=%d dsp=%d\n", i, k[i].rate, k[i].fmt,
		       k[i].interp, k[i].amp, k[i].mix, k[i].vol, k[i].dsp);
	}

	for (frame = 0; frame < maxframes; frame++) {
		struct context_data *g[NCTX];
		int n16, stop;

		/* control calls scheduled before this frame, same for all contexts */
		for (j = 0; j < nops; j++) {
			int r0 = 0;
			if (ops[j].frame != frame)
				continue;
			if (ops[j].kind == 9 || ops[j].kind == 10) {
				double val;
				int r;
				if (ops[j].kind == 9) {
					const struct context_data *gq = (const struct context_data *)c[ops[j].arg / 16];
					int sel = ops[j].arg % 16;
					double cap = XMP_MAX_FRAMESIZE / 4;
					val = sel < NMULT ? factor_for_ticks(gq, cap) * tf_mult[sel] :
					      sel == NMULT ? factor_for_ticks(gq, cap + 0.5) : factor_for_ticks(gq, cap + 1.000001);
				} else {
					static const double special[] = { 0.0, -1.0, 0.0 /* NaN */, 0.0 /* inf */, 1e-300, 1e-9, 1e-3, 1e300,
						DBL_MAX };
					val = ops[j].arg == 2 ? NAN : ops[j].arg == 3 ? INFINITY : special[ops[j].arg];
				}
				r = tempo_factor_all(c, k, NCTX, val, frame);
				if (r == 1)
					tfroll++;
				if (r == 0)
					opok++;
				tfprobes++;
				continue;
			}
			if (ops[j].kind == 12) {
				/* xmp_start_player while playing: the group keeps its configuration and the free contexts get a new
				 * one, or the other way round; afterwards every context must report the same timeline */
				int group_changes = ops[j].arg & 1;
				int newR = pick_rate();
				for (i = 0; i < NCTX; i++) {
					int changes = i < NGROUP ? group_changes : !group_changes, r;
					if (changes && i < NGROUP) {
						k[i].rate = newR;
						k[i].fmt ^= XMP_FORMAT_MONO;	/* the whole group flips: its relations are kept */
					} else if (changes) {
						k[i].rate = pick_rate();
						k[i].fmt = vrng_range(0, 7);
					}
					r = xmp_start_player(c[i], k[i].rate, k[i].fmt);
					if (i == 0)
						r0 = r;
					else if (r != r0)
						ofail("timeline", frame, 0, i, "restart_ret", r0, r);
					libxmp_set_random(&((struct context_data *)c[i])->rng, 0x13572468u ^ (unsigned)cseed);
					apply_cfg(c[i], &k[i]);
					apply_chan(c[i], &k[i]);
				}
				restarts++;
				if (r0 < 0)
					goto stop_case;
				continue;
			}
			if (ops[j].kind == 11) {
				int parm = sp_parm[ops[j].arg / 16], sel = ops[j].arg % 16;
				for (i = 0; i < NCTX; i++) {
					int v = sel == 0 ? xmp_get_player(c[i], parm) : sp_bad[sel - 1];
					int r = xmp_set_player(c[i], parm, v);
					if (i == 0)
						r0 = r;
					else if (r != r0)
						ofail("timeline", frame, 0, i, "setter_ret", r0, r);
				}
				if (sel != 0) {
					/* a refused or clamped probe must not leave the configurations changed */
					for (i = 0; i < NCTX; i++)
						apply_cfg(c[i], &k[i]);
				}
				setprobes++;
				continue;
			}
			if (ops[j].kind == 6 || ops[j].kind == 8) {
				int q = ops[j].kind == 6 ? ops[j].arg : NTF - 1, r;
				do {
					r = tempo_factor_all(c, k, NCTX, tf_vals[q], frame);
					if (r == 1)
						tfroll++;
				} while (ops[j].kind == 8 && r != 0 && --q >= 0);
				if (r == 0)
					opok++;
				continue;
			}
			for (i = 0; i < NCTX; i++) {
				int r = do_op(c[i], &ops[j]);
				if (i == 0)
					r0 = r;
				else if (r != r0)
					ofail("timeline", frame, 0, i, "control_ret", r0, r);
			}
			if (r0 >= 0)
				opok++;
		}
		/* reconfigure a free context now and then (the property ranges over xmp_set_player too) */
		if (vrng_chance(4)) {
			i = NGROUP + (int)vrng_below(NFREE);
			k[i].interp = vrng_range(0, 2);
			k[i].amp = vrng_range(0, 3);
			k[i].mix = vrng_range(-100, 100);
			k[i].vol = i == NGROUP ? 0 : vrng_range(0, 200);
			k[i].dsp = vrng_range(0, 1);
			k[i].smix = vrng_range(0, 200);
			apply_cfg(c[i], &k[i]);
			reconf++;
		}

		for (i = 0; i < NCTX; i++) {
			int r = xmp_play_frame(c[i]);
			get_tl(c[i], r, &t[i], &fi[i]);
			g[i] = (struct context_data *)c[i];
		}
		stop = t[0].ret != 0;
		for (i = 1; i < NCTX; i++)
			cmp_tl(frame, i, &t[0], &t[i]);
		if (stop)
			break;
		played++;
		if (t[0].row != lastrow)
			rowchg++;
		if (t[0].pos != lastpos)
			poschg++;
		if (lastbpm >= 0 && t[0].bpm != lastbpm)
			bpmchg++;
		lastbpm = t[0].bpm;
		lastrow = t[0].row;
		lastpos = t[0].pos;
		if (t[0].loop_count > maxloop)
			maxloop = t[0].loop_count;

		/* reach counters: ticks without any allocated voice (seen by an unsigned context), ticks in
		 * which some context's tick size was clamped by libxmp_mixer_prepare */
		if (g[4]->p.virt.virt_used == 0)
			novoice++;
		if (t[0].bpm < bpmmin)
			bpmmin = t[0].bpm;
		if (g[0]->m.time_factor > tfmax)
			tfmax = g[0]->m.time_factor;
		for (i = 0; i < NCTX; i++) {
			if (libxmp_mixer_get_ticksize(g[i]->s.freq, g[i]->m.time_factor, g[i]->m.rrate, g[i]->p.bpm) != g[i]->s.ticksize) {
				clampedf++;
				break;
			}
		}

		/* layout */
		for (i = 0; i < NCTX; i++) {
			int ch = (k[i].fmt & XMP_FORMAT_MONO) ? 1 : 2, by = (k[i].fmt & XMP_FORMAT_8BIT) ? 1 : 2;
			if (t[i].ret != 0)
				continue;
			if (fi[i].buffer_size != g[i]->s.ticksize * ch * by)
				ofail("layout", frame, i, i, "buffer_size", (long)g[i]->s.ticksize * ch * by, fi[i].buffer_size);
			if (fi[i].buffer_size <= 0 || fi[i].buffer_size > 2 * fi[i].total_size || fi[i].total_size != XMP_MAX_FRAMESIZE)
				ofail("layout", frame, i, i, "total_size", fi[i].total_size, fi[i].buffer_size);
			if (i < NGROUP && g[i]->s.ticksize != g[0]->s.ticksize)
				ofail("layout", frame, 0, i, "ticksize", g[0]->s.ticksize, g[i]->s.ticksize);
		}
		if (n_fail > fails_before + 50)
			break;
		if (fi[7].buffer_size * ((k[7].fmt & XMP_FORMAT_MONO) ? 2 : 1) != fi[A].buffer_size * ((k[A].fmt & XMP_FORMAT_MONO) ? 2 : 1))
			ofail("layout", frame, A, 7, "mono_stereo", fi[A].buffer_size, fi[7].buffer_size);

		/* the music does not depend on mono / stereo: apart from the pan, every voice of the context with the mono flag
		 * flipped (ctx 7: same rate, interpolator, volume settings) is in the same state as in the group - same channel,
		 * sample, volume, pitch, position, and the same resonant-filter setting (cutoff / resonance / coefficients can be
		 * driven by MIDI macros from player variables) */
		{
			int nv = g[A]->p.virt.maxvoc < g[7]->p.virt.maxvoc ? g[A]->p.virt.maxvoc : g[7]->p.virt.maxvoc, v;
			for (v = 0; v < nv; v++) {
				const struct mixer_voice *a = &g[A]->p.virt.voice_array[v], *b = &g[7]->p.virt.voice_array[v];
#define VCMP(f) if (a->f != b->f) { ofail("voice_state", frame, A, 7, #f, (long)a->f, (long)b->f); break; }
				VCMP(chn) VCMP(root) VCMP(ins) VCMP(smp) VCMP(note) VCMP(vol) VCMP(period) VCMP(pos)
				if ((a->fidx & 0x0b) != (b->fidx & 0x0b)) { ofail("voice_state", frame, A, 7, "fidx", a->fidx, b->fidx); break; }
				VCMP(filter.cutoff) VCMP(filter.resonance) VCMP(filter.a0) VCMP(filter.b0) VCMP(filter.b1)
#undef VCMP
				if (a->chn >= 0) {
					voicecmp++;
					if ((a->fidx & 0x08) && !(a->filter.cutoff >= 0xfe && a->filter.resonance == 0))
						voicecmp_filter++;
				}
			}
		}

		n16 = fi[0].buffer_size / 2;	/* samples per frame in the groups (same mono flag) */
		{
			/* acc: accumulators identical across amp/encoding group (ctx 0..6) */
			int nz = 0;
			for (i = 1; i < 7; i++) {
				if (memcmp(g[0]->s.buf32, g[i]->s.buf32, n16 * sizeof(int32)) != 0) {
					int q;
					for (q = 0; q < n16 && g[0]->s.buf32[q] == g[i]->s.buf32[q]; q++) ;
					ofail("acc", frame, 0, i, "buf32", g[0]->s.buf32[q], g[i]->s.buf32[q]);
				}
			}
			for (j = 0; j < n16; j++)
				if (g[0]->s.buf32[j] != 0) {
					nz = 1;
					break;
				}
			nonsilent += nz;
		}
		{
			const int16 *s16 = (const int16 *)fi[A].buffer;
			const uint16 *u16 = (const uint16 *)fi[4].buffer;
			const signed char *s8 = (const signed char *)fi[5].buffer;
			const uint8 *u8 = (const uint8 *)fi[6].buffer;
			if (fi[4].buffer_size != fi[A].buffer_size || fi[5].buffer_size * 2 != fi[A].buffer_size
			    || fi[6].buffer_size != fi[5].buffer_size) {
				ofail("layout", frame, A, 5, "size_16_vs_8", fi[A].buffer_size, fi[5].buffer_size);
			} else {
				for (j = 0; j < n16; j++) {
					if (u16[j] != (uint16)(((uint16)s16[j]) ^ 0x8000) || (long)u16[j] != (long)s16[j] + 32768) {
						ofail("unsigned16", frame, A, 4, "sample", ((uint16)s16[j]) ^ 0x8000, u16[j]);
						break;
					}
					if ((uint8)s8[j] != ((const uint8 *)s16)[2 * j + 1]) {
						ofail("highbyte_signed", frame, A, 5, "sample", ((const uint8 *)s16)[2 * j + 1], (uint8)s8[j]);
						break;
					}
					if (u8[j] != (u16[j] >> 8) || u8[j] != (((uint8)s8[j]) ^ 0x80)) {
						ofail("highbyte_unsigned", frame, 4, 6, "sample", u16[j] >> 8, u8[j]);
						break;
					}
				}
				samples_cmp += n16;
			}
			/* amp: ctx a vs a+1 */
			for (i = 0; i < 3; i++) {
				const int16 *q = (const int16 *)fi[i].buffer, *l = (const int16 *)fi[i + 1].buffer;
				if (fi[i].buffer_size != fi[i + 1].buffer_size) {
					ofail("layout", frame, i, i + 1, "size_amp", fi[i].buffer_size, fi[i + 1].buffer_size);
					continue;
				}
				for (j = 0; j < n16; j++) {
					if (l[j] > -32768 && l[j] < 32767) {
						if (q[j] != half_floor(l[j])) {
							ofail("amp", frame, i + 1, i, "sample", half_floor(l[j]), q[j]);
							break;
						}
					} else {
						clipped++;
						if (l[j] == 32767 ? q[j] < 16383 : q[j] > -16384) {
							ofail("amp_clipped", frame, i + 1, i, "sample", l[j], q[j]);
							break;
						}
					}
				}
			}
		}
		/* call-site correspondence samples: any context, preferably non-silent frames */
		if (sites < nsite && (vrng_chance(6) || frame == 1)) {
			int nacc;
			i = (int)vrng_below(NCTX);
			nacc = g[i]->s.ticksize * ((g[i]->s.format & XMP_FORMAT_MONO) ? 1 : 2);
			for (j = 0; j < nacc && g[i]->s.buf32[j] == 0; j++) ;
			if (j < nacc || vrng_chance(10)) {
				printf("site %d %d %d ", g[i]->s.format, g[i]->s.ticksize, g[i]->s.amplify);
				put_hex(stdout, g[i]->s.buf32, nacc * sizeof(int32));
				printf("\nsiteout %d %016llx\n", fi[i].buffer_size,
				       (unsigned long long)fnv1a(FNV_INIT, fi[i].buffer, fi[i].buffer_size));
				sites++;
			}
		}
	}
    stop_case:
	for (i = 0; i < NCTX; i++)
		xmp_end_player(c[i]);
	printf("stat frames=%d rowchg=%ld poschg=%ld loops=%d nonsilent=%ld clipped=%ld samples=%ld opok=%ld reconf=%ld novoice=%ld clampticks=%ld tfroll=%ld slow=%d bpmmin=%d tfmax=%d tfprobes=%ld tfcalls=%ld tfaccept=%ld tfrefuse=%ld tfpairs=%ld setprobes=%ld bpmchg=%ld voicecmp=%ld voicecmp_filter=%ld restarts=%ld fails=%ld\n",
	       played, rowchg, poschg, maxloop, nonsilent, clipped, samples_cmp, opok, reconf, novoice, clampedf, tfroll, slow, bpmmin, (int)tfmax,
	       tfprobes, n_tf_calls, n_tf_accept, n_tf_refuse, n_tf_samerate_pairs, setprobes, bpmchg, voicecmp, voicecmp_filter, restarts, n_fail - fails_before);
    out:
	printf("end\n");
	for (i = 0; i < NCTX; i++) {
		xmp_release_module(c[i]);
		xmp_free_context(c[i]);
	}
	return 1;
}

int main(int argc, char **argv)
{
	uint64_t seed;
	int ncases, maxframes, nsite, nmods, i;
	unsigned char *data;
	long size;

	if (argc >= 6 && !strcmp(argv[1], "--one")) {
		data = read_file(argv[2], &size);
		if (!data) {
			printf("skip %s\n", argv[2]);
			return 0;
		}
		run_case(argv[2], data, size, strtoull(argv[3], NULL, 10), atoi(argv[4]), atoi(argv[5]));
		free(data);
		return n_fail ? 3 : 0;
	}
	if (argc < 6) {
		fprintf(stderr, "usage: %s <seed> <ncases> <maxframes> <nsite> <module>...\n", argv[0]);
		return 2;
	}
	seed = strtoull(argv[1], NULL, 10);
	ncases = atoi(argv[2]);
	maxframes = atoi(argv[3]);
	nsite = atoi(argv[4]);
	nmods = argc - 5;
	for (i = 0; i < ncases; i++) {
		const char *path = argv[5 + i % nmods];
		uint64_t cseed = (seed * 1000003ULL + (uint64_t)i * 7919ULL) & 0xffffffffffffULL;
		pid_t pid;
		int status = 0;

		data = read_file(path, &size);
		if (!data) {
			printf("skip %s\n", path);
			continue;
		}
		/* one child per case: a sanitizer abort in one case must not hide the others */
		fflush(stdout);
		fflush(stderr);
		pid = fork();
		if (pid == 0) {
			run_case(path, data, size, cseed, maxframes, nsite);
			fflush(stdout);
			_exit(n_fail ? 3 : 0);
		}
		free(data);
		if (pid < 0 || waitpid(pid, &status, 0) < 0) {
			fprintf(stderr, "fork/wait failed\n");
			return 2;
		}
		if (WIFEXITED(status) && (WEXITSTATUS(status) == 0 || WEXITSTATUS(status) == 3)) {
			if (WEXITSTATUS(status) == 3)
				n_fail++;
		} else {
			printf("crash %s cseed=%llu status=%d\n", path, (unsigned long long)cseed, status);
			fprintf(stderr, "\n@@crash %s cseed=%llu\n", path, (unsigned long long)cseed);
		}
		fflush(stdout);
	}
	printf("done %ld\n", n_fail);
	return 0;
}
