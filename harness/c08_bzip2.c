/* C08/C09 sub-check: the bzip2 decoder of libxmp (src/depackers/bunzip2.c) on memory streams.
 *
 * The depacker source is included in this translation unit, so its static functions are
 * reachable (the archive member is then not pulled from libxmp.a; depacker.c's reference to
 * libxmp_depacker_bzip2 resolves to the definition compiled here, same source, same flags).
 *
 *   c08_bzip2 run <casefile>
 *
 * casefile lines:  <id> <hex of the whole .bz2 stream>
 * per case two lines are printed:
 *   R <id> rc=<decrunch_bzip2 rc> len=<outlen> fnv=<fnv1a-64 of the output>
 *        -- the depacker entry point libxmp uses (libxmp_depacker_bzip2.depack), unchanged
 *   T <id> code=<start_bunzip / write_bunzip_data return> hcrc=<bw.headerCRC> dcrc=<bw.dataCRC>
 *        tcrc=<bd.totalCRC> n=<bytes produced so far> fnv=<fnv1a-64 of them> wc=<bw.writeCount>
 *        -- the same calls as decrunch_bzip2 makes, made from here so that the internal status
 *           code and the CRC registers at the moment of return are visible
 */
#include "vcommon.h"
#include "depackers/bunzip2.c"

#define FNV0 FNV_INIT

static void one_case(const char *id, const unsigned char *data, long len)
{
	HIO_HANDLE *h;
	void *out = NULL;
	long outlen = 0;
	int rc;

	/* (1) the real entry point */
	h = hio_open_const_mem(data, len);
	if (!h) {
		printf("R %s rc=open-failed\n", id);
		return;
	}
	rc = libxmp_depacker_bzip2.depack(h, &out, &outlen);
	hio_close(h);
	if (rc == 0) {
		printf("R %s rc=0 len=%ld fnv=%016llx\n", id, outlen,
		       (unsigned long long)fnv1a(FNV0, out, outlen));
		free(out);
	} else {
		printf("R %s rc=%d len=0 fnv=-\n", id, rc);
	}

	/* (2) the same sequence of calls, status visible */
	{
		struct bunzip_data *bd = NULL;
		struct bunzip_output output;
		int i;
		uint64_t f = FNV0;
		size_t n = 0;

		output.buf = NULL;
		output.buf_size = 0;
		output.buf_alloc = 0;
		h = hio_open_const_mem(data, len);
		i = start_bunzip(&bd, h, 0, 0);
		if (!i)
			i = write_bunzip_data(bd, bd->bwdata, &output, 0, 0);
		if (bd) {
			f = fnv1a(f, output.buf, output.buf_size);
			f = fnv1a(f, bd->outbuf, bd->outbufPos);
			n = output.buf_size + bd->outbufPos;
			printf("T %s code=%d hcrc=%08x dcrc=%08x tcrc=%08x n=%zu fnv=%016llx wc=%d\n", id, i,
			       bd->bwdata[0].headerCRC, bd->bwdata[0].dataCRC, bd->totalCRC, n,
			       (unsigned long long)f, bd->bwdata[0].writeCount);
			{
				int j;
				for (j = 0; j < THREADS; j++)
					free(bd->bwdata[j].dbuf);
			}
			free(bd);
		} else {
			printf("T %s code=%d nobd\n", id, i);
		}
		free(output.buf);
		hio_close(h);
	}
	fflush(stdout);
}

int main(int argc, char **argv)
{
	FILE *f;
	char *line = NULL;
	size_t cap = 0;
	ssize_t got;

	if (argc < 3 || strcmp(argv[1], "run"))
		return 2;
	f = fopen(argv[2], "r");
	if (!f)
		return 2;
	while ((got = getline(&line, &cap, f)) > 0) {
		char *sp, *hex;
		unsigned char *data;
		long len;
		while (got > 0 && (line[got - 1] == '\n' || line[got - 1] == '\r'))
			line[--got] = 0;
		if (!got)
			continue;
		sp = strchr(line, ' ');
		if (!sp)
			continue;
		*sp = 0;
		hex = sp + 1;
		len = get_hex(hex, &data);
		if (len < 0) {
			printf("R %s rc=bad-hex\n", line);
			continue;
		}
		fprintf(stderr, "CASE %s\n", line);
		one_case(line, data, len);
		free(data);
	}
	free(line);
	fclose(f);
	return 0;
}
