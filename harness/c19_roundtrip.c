/* C19 harness: load module bytes from memory with the real library and dump the
 * loaded module canonically (the fields property C19 lists).
 *
 * stdin protocol, one request per line:
 *   hex <id> <hexbytes>      load the bytes (xmp_load_module_from_memory)
 *   all <id> <sizes> <hexbytes>   the same, then load the same bytes through the three other entry points:
 *                            xmp_load_module (a temporary file), xmp_load_module_from_callbacks, and
 *                            xmp_load_module_from_file once per value of the comma-separated <sizes>
 *                            (its `size` argument is documented as ignored); after the memory dump one line
 *                            per entry point: `entry <name> same` | `entry <name> rc <rc>` (a different return
 *                            code) | `entry <name> differs` followed by that dump, every line prefixed "| "
 *   file <id> <path>         load the file's bytes (still through xmp_load_module_from_memory)
 *   p2n                      dump libxmp_period_to_note(p) for p = 0..4095
 * output per request:
 *   begin <id>
 *   loadfail <rc>            | the dump lines below
 *   type <hex>
 *   name <hex>
 *   counts <chn> <pat> <len> <ins> <smp> <spd> <bpm>
 *   ord <hex>
 *   pat <i> <rows> <hex: note,ins,vol per cell, row-major>
 *   ins <i> <nsm> <namehex> <keymap hex | ->
 *   sub <i> <j> <sid> <vol> <pan> <xpo> <fin>
 *   smp <i> <len> <lps> <lpe> <flg> <sus> <sue> <namehex> <pcmhex | - | null>
 *   end
 * Observation rules (shared with the Lean dump): loop points are printed as 0 when
 * the loop flag is clear, sustain points likewise; XMP_SAMPLE_LOOP_FULL (a player
 * hint derived from tracker heuristics) is masked out of flg.
 */
#define _GNU_SOURCE
#include <unistd.h>
#include "vcommon.h"
#include "xmp.h"
#include "common.h"
#include "period.h"

static char *line;
static size_t cap;

static int hexv(int c)
{
	if (c >= '0' && c <= '9') return c - '0';
	if (c >= 'a' && c <= 'f') return c - 'a' + 10;
	if (c >= 'A' && c <= 'F') return c - 'A' + 10;
	return -1;
}

/* linear-time hex parser ("-" = empty) */
static long fast_hex(const char *s, unsigned char **out)
{
	size_t n = strlen(s), i;
	unsigned char *b = (unsigned char *)malloc(n / 2 + 1);
	*out = b;
	if (n == 1 && s[0] == '-')
		return 0;
	if (n & 1)
		return -1;
	for (i = 0; i < n / 2; i++) {
		int a = hexv(s[2 * i]), c = hexv(s[2 * i + 1]);
		if (a < 0 || c < 0)
			return -1;
		b[i] = (unsigned char)(a * 16 + c);
	}
	return (long)(n / 2);
}

static FILE *O;

static void put_str_hex(const char *s)
{
	put_hex(O, s, strlen(s));
}

static void dump(FILE *o, xmp_context c)
{
	struct context_data *ctx = (struct context_data *)c;
	struct module_data *m = &ctx->m;
	struct xmp_module *mod = &m->mod;
	int i, j, r, k;

	O = o;

	fprintf(o, "type ");
	put_str_hex(mod->type);
	fprintf(o, "\nname ");
	put_str_hex(mod->name);
	fprintf(o, "\ncounts %d %d %d %d %d %d %d\n", mod->chn, mod->pat, mod->len, mod->ins, mod->smp, mod->spd, mod->bpm);
	fprintf(o, "ord ");
	put_hex(o, mod->xxo, mod->len > 0 ? mod->len : 0);
	fprintf(o, "\n");
	for (i = 0; i < mod->pat; i++) {
		struct xmp_pattern *p = mod->xxp[i];
		fprintf(o, "pat %d %d ", i, p->rows);
		if (p->rows == 0 || mod->chn == 0)
			fprintf(o, "-");
		for (r = 0; r < p->rows; r++) {
			for (k = 0; k < mod->chn; k++) {
				struct xmp_track *t = mod->xxt[p->index[k]];
				unsigned char e[3] = { 0, 0, 0 };
				if (r < t->rows) {
					e[0] = t->event[r].note;
					e[1] = t->event[r].ins;
					e[2] = t->event[r].vol;
				}
				put_hex(o, e, 3);
			}
		}
		fprintf(o, "\n");
	}
	for (i = 0; i < mod->ins; i++) {
		struct xmp_instrument *xi = &mod->xxi[i];
		unsigned char km[XMP_MAX_KEYS];
		int any = 0;
		fprintf(o, "ins %d %d ", i, xi->nsm);
		put_str_hex(xi->name);
		for (k = 0; k < XMP_MAX_KEYS; k++) {
			km[k] = xi->map[k].ins;
			any |= km[k];
		}
		fprintf(o, " ");
		if (any)
			put_hex(o, km, XMP_MAX_KEYS);
		else
			fprintf(o, "-");
		fprintf(o, "\n");
		for (j = 0; j < xi->nsm; j++) {
			struct xmp_subinstrument *s = &xi->sub[j];
			fprintf(o, "sub %d %d %d %d %d %d %d\n", i, j, s->sid, s->vol, s->pan, s->xpo, s->fin);
		}
	}
	for (i = 0; i < mod->smp; i++) {
		struct xmp_sample *s = &mod->xxs[i];
		int flg = s->flg & 0xff & ~XMP_SAMPLE_LOOP_FULL;
		int lps = (flg & XMP_SAMPLE_LOOP) ? s->lps : 0;
		int lpe = (flg & XMP_SAMPLE_LOOP) ? s->lpe : 0;
		int sus = 0, sue = 0;
		long bytes = s->len;
		if (m->xtra != NULL && (flg & XMP_SAMPLE_SLOOP)) {
			sus = m->xtra[i].sus;
			sue = m->xtra[i].sue;
		}
		if (flg & XMP_SAMPLE_16BIT)
			bytes *= 2;
		if (flg & XMP_SAMPLE_STEREO)
			bytes *= 2;
		fprintf(o, "smp %d %d %d %d %d %d %d ", i, s->len, lps, lpe, flg, sus, sue);
		put_str_hex(s->name);
		fprintf(o, " ");
		if (s->len <= 0)
			fprintf(o, "-");
		else if (s->data == NULL)
			fprintf(o, "null");
		else
			put_hex(o, s->data, bytes);
		fprintf(o, "\n");
	}
}

static void load_and_dump(const char *id, const unsigned char *buf, long n)
{
	xmp_context c = xmp_create_context();
	int rc;
	printf("begin %s\n", id);
	rc = xmp_load_module_from_memory(c, buf, n);
	if (rc != 0) {
		printf("loadfail %d\n", rc);
	} else {
		dump(stdout, c);
		xmp_release_module(c);
	}
	xmp_free_context(c);
	printf("end\n");
	fflush(stdout);
}

/* ---- the other entry points ------------------------------------------------------------------- */

struct cbuf { const unsigned char *p; long n, pos; };

static unsigned long cb_read(void *dest, unsigned long len, unsigned long nmemb, void *priv)
{
	struct cbuf *b = (struct cbuf *)priv;
	unsigned long want, can;
	if (len == 0 || nmemb == 0)
		return 0;
	can = b->pos >= b->n ? 0 : (unsigned long)(b->n - b->pos) / len;
	want = nmemb < can ? nmemb : can;
	memcpy(dest, b->p + b->pos, want * len);
	b->pos += (long)(want * len);
	return want;
}

static int cb_seek(void *priv, long offset, int whence)
{
	struct cbuf *b = (struct cbuf *)priv;
	long t = whence == SEEK_SET ? offset : whence == SEEK_CUR ? b->pos + offset : whence == SEEK_END ? b->n + offset : -1;
	if (t < 0)		/* like fseek: positions past the end are allowed, reads there return nothing */
		return -1;
	b->pos = t;
	return 0;
}

static long cb_tell(void *priv) { return ((struct cbuf *)priv)->pos; }
static int cb_close(void *priv) { (void)priv; return 0; }

/* dump of a loaded context as a malloc'd string */
static char *dump_str(xmp_context c)
{
	char *s = NULL;
	size_t n = 0;
	FILE *o = open_memstream(&s, &n);
	if (o == NULL)
		return NULL;
	dump(o, c);
	fclose(o);
	return s;
}

static void report_entry(const char *name, int rc0, const char *d0, int rc, xmp_context c)
{
	if (rc != rc0) {
		printf("entry %s rc %d\n", name, rc);
	} else if (rc == 0) {
		char *d = dump_str(c);
		/* the `type` line (tracker identification) is not part of the property: compare from the `name` line on */
		const char *a = d && !strncmp(d, "type ", 5) && strchr(d, '\n') ? strchr(d, '\n') + 1 : d;
		const char *b = d0 && !strncmp(d0, "type ", 5) && strchr(d0, '\n') ? strchr(d0, '\n') + 1 : d0;
		if (a != NULL && b != NULL && strcmp(a, b) == 0) {
			printf("entry %s same\n", name);
		} else {
			char *l, *save = NULL;
			printf("entry %s differs\n", name);
			for (l = d ? strtok_r(d, "\n", &save) : NULL; l != NULL; l = strtok_r(NULL, "\n", &save))
				printf("| %s\n", l);
		}
		free(d);
	} else {
		printf("entry %s same\n", name);
	}
	if (rc == 0)
		xmp_release_module(c);
}

static void load_all(const char *id, const char *sizes, const unsigned char *buf, long n)
{
	xmp_context c = xmp_create_context();
	char *d0 = NULL, path[512], *sz, *tok, *save = NULL;
	const char *dir = getenv("C19_TMPDIR");
	int rc0, rc, fd;
	FILE *f;

	printf("begin %s\n", id);
	rc0 = xmp_load_module_from_memory(c, buf, n);
	if (rc0 != 0) {
		printf("loadfail %d\n", rc0);
	} else {
		d0 = dump_str(c);
		fputs(d0 ? d0 : "", stdout);
		xmp_release_module(c);
	}
	xmp_free_context(c);

	snprintf(path, sizeof path, "%s/c19rt-XXXXXX", dir && *dir ? dir : "/tmp");
	fd = mkstemp(path);
	if (fd < 0 || (f = fdopen(fd, "wb")) == NULL) {
		printf("entry tmpfile rc -999\nend\n");
		fflush(stdout);
		free(d0);
		return;
	}
	fwrite(buf, 1, (size_t)n, f);
	fclose(f);

	/* path */
	c = xmp_create_context();
	rc = xmp_load_module(c, path);
	report_entry("path", rc0, d0, rc, c);
	xmp_free_context(c);

	/* callbacks */
	{
		struct cbuf b = { buf, n, 0 };
		struct xmp_callbacks cb = { cb_read, cb_seek, cb_tell, cb_close };
		c = xmp_create_context();
		rc = xmp_load_module_from_callbacks(c, &b, cb);
		report_entry("callbacks", rc0, d0, rc, c);
		xmp_free_context(c);
	}

	/* FILE with every advisory size */
	sz = strdup(sizes);
	for (tok = strtok_r(sz, ",", &save); tok != NULL; tok = strtok_r(NULL, ",", &save)) {
		char name[64];
		long v = strtol(tok, NULL, 10);
		snprintf(name, sizeof name, "file:%ld", v);
		f = fopen(path, "rb");
		if (f == NULL) {
			printf("entry %s rc -998\n", name);
			continue;
		}
		c = xmp_create_context();
		rc = xmp_load_module_from_file(c, f, v);
		report_entry(name, rc0, d0, rc, c);
		xmp_free_context(c);
		fclose(f);
	}
	free(sz);
	unlink(path);
	free(d0);
	printf("end\n");
	fflush(stdout);
}

int main(void)
{
	ssize_t len;
	while ((len = getline(&line, &cap, stdin)) > 0) {
		char *kind, *id, *arg;
		while (len > 0 && (line[len - 1] == '\n' || line[len - 1] == '\r'))
			line[--len] = 0;
		kind = strtok(line, " ");
		if (kind == NULL)
			continue;
		if (!strcmp(kind, "p2n")) {
			int p;
			printf("p2n");
			for (p = 0; p < 4096; p++)
				printf(" %d", libxmp_period_to_note(p));
			printf("\n");
			continue;
		}
		id = strtok(NULL, " ");
		arg = strtok(NULL, " ");
		if (id == NULL || arg == NULL)
			continue;
		if (!strcmp(kind, "all")) {
			char *hx = strtok(NULL, " ");
			unsigned char *b = NULL;
			long n = hx ? fast_hex(hx, &b) : -1;
			if (n <= 0) {
				printf("begin %s\nbadhex\nend\n", id);
				free(b);
				continue;
			}
			load_all(id, arg, b, n);
			free(b);
		} else if (!strcmp(kind, "hex")) {
			unsigned char *b = NULL;
			long n = fast_hex(arg, &b);
			if (n < 0) {
				printf("begin %s\nbadhex\nend\n", id);
				free(b);
				continue;
			}
			load_and_dump(id, b, n);
			free(b);
		} else if (!strcmp(kind, "file")) {
			long n = 0;
			unsigned char *b = read_file(arg, &n);
			if (b == NULL) {
				printf("begin %s\nnofile\nend\n", id);
				continue;
			}
			load_and_dump(id, b, n);
			free(b);
		}
	}
	return 0;
}
