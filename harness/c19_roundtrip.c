/* C19 harness: load module bytes from memory with the real library and dump the
 * loaded module canonically (the fields property C19 lists).
 *
 * stdin protocol, one request per line:
 *   hex <id> <hexbytes>      load the bytes
 *   file <id> <path>         load the file's bytes (still through xmp_load_module_from_memory)
 *   p2n                      dump libxmp_period_to_note(p) for p = 0..4095
 * output per request:
 *   begin <id>
 *   loadfail <rc>            | the dump lines below
 *   type <hex>
 *   name <hex>
 *   counts <chn> <pat> <len> <ins> <smp> <spd> <bpm>
 *   ord <hex>
 *   pat <i> <rows> <hex: note,ins,vol per cell, row-major>
 *   ins <i> <nsm> <namehex> <keymap hex | ->
 *   sub <i> <j> <sid> <vol> <pan> <xpo> <fin>
 *   smp <i> <len> <lps> <lpe> <flg> <sus> <sue> <namehex> <pcmhex | - | null>
 *   end
 * Observation rules (shared with the Lean dump): loop points are printed as 0 when
 * the loop flag is clear, sustain points likewise; XMP_SAMPLE_LOOP_FULL (a player
 * hint derived from tracker heuristics) is masked out of flg.
 */
#include "vcommon.h"
#include "xmp.h"
#include "common.h"
#include "period.h"

static char *line;
static size_t cap;

static int hexv(int c)
{
	if (c >= '0' && c <= '9') return c - '0';
	if (c >= 'a' && c <= 'f') return c - 'a' + 10;
	if (c >= 'A' && c <= 'F') return c - 'A' + 10;
	return -1;
}

/* linear-time hex parser ("-" = empty) */
static long fast_hex(const char *s, unsigned char **out)
{
	size_t n = strlen(s), i;
	unsigned char *b = (unsigned char *)malloc(n / 2 + 1);
	*out = b;
	if (n == 1 && s[0] == '-')
		return 0;
	if (n & 1)
		return -1;
	for (i = 0; i < n / 2; i++) {
		int a = hexv(s[2 * i]), c = hexv(s[2 * i + 1]);
		if (a < 0 || c < 0)
			return -1;
		b[i] = (unsigned char)(a * 16 + c);
	}
	return (long)(n / 2);
}

static void put_str_hex(const char *s)
{
	put_hex(stdout, s, strlen(s));
}

static void dump(xmp_context c)
{
	struct context_data *ctx = (struct context_data *)c;
	struct module_data *m = &ctx->m;
	struct xmp_module *mod = &m->mod;
	int i, j, r, k;

	printf("type ");
	put_str_hex(mod->type);
	printf("\nname ");
	put_str_hex(mod->name);
	printf("\ncounts %d %d %d %d %d %d %d\n", mod->chn, mod->pat, mod->len, mod->ins, mod->smp, mod->spd, mod->bpm);
	printf("ord ");
	put_hex(stdout, mod->xxo, mod->len > 0 ? mod->len : 0);
	printf("\n");
	for (i = 0; i < mod->pat; i++) {
		struct xmp_pattern *p = mod->xxp[i];
		printf("pat %d %d ", i, p->rows);
		if (p->rows == 0 || mod->chn == 0)
			printf("-");
		for (r = 0; r < p->rows; r++) {
			for (k = 0; k < mod->chn; k++) {
				struct xmp_track *t = mod->xxt[p->index[k]];
				unsigned char e[3] = { 0, 0, 0 };
				if (r < t->rows) {
					e[0] = t->event[r].note;
					e[1] = t->event[r].ins;
					e[2] = t->event[r].vol;
				}
				put_hex(stdout, e, 3);
			}
		}
		printf("\n");
	}
	for (i = 0; i < mod->ins; i++) {
		struct xmp_instrument *xi = &mod->xxi[i];
		unsigned char km[XMP_MAX_KEYS];
		int any = 0;
		printf("ins %d %d ", i, xi->nsm);
		put_str_hex(xi->name);
		for (k = 0; k < XMP_MAX_KEYS; k++) {
			km[k] = xi->map[k].ins;
			any |= km[k];
		}
		printf(" ");
		if (any)
			put_hex(stdout, km, XMP_MAX_KEYS);
		else
			printf("-");
		printf("\n");
		for (j = 0; j < xi->nsm; j++) {
			struct xmp_subinstrument *s = &xi->sub[j];
			printf("sub %d %d %d %d %d %d %d\n", i, j, s->sid, s->vol, s->pan, s->xpo, s->fin);
		}
	}
	for (i = 0; i < mod->smp; i++) {
		struct xmp_sample *s = &mod->xxs[i];
		int flg = s->flg & 0xff & ~XMP_SAMPLE_LOOP_FULL;
		int lps = (flg & XMP_SAMPLE_LOOP) ? s->lps : 0;
		int lpe = (flg & XMP_SAMPLE_LOOP) ? s->lpe : 0;
		int sus = 0, sue = 0;
		long bytes = s->len;
		if (m->xtra != NULL && (flg & XMP_SAMPLE_SLOOP)) {
			sus = m->xtra[i].sus;
			sue = m->xtra[i].sue;
		}
		if (flg & XMP_SAMPLE_16BIT)
			bytes *= 2;
		if (flg & XMP_SAMPLE_STEREO)
			bytes *= 2;
		printf("smp %d %d %d %d %d %d %d ", i, s->len, lps, lpe, flg, sus, sue);
		put_str_hex(s->name);
		printf(" ");
		if (s->len <= 0)
			printf("-");
		else if (s->data == NULL)
			printf("null");
		else
			put_hex(stdout, s->data, bytes);
		printf("\n");
	}
}

static void load_and_dump(const char *id, const unsigned char *buf, long n)
{
	xmp_context c = xmp_create_context();
	int rc;
	printf("begin %s\n", id);
	rc = xmp_load_module_from_memory(c, buf, n);
	if (rc != 0) {
		printf("loadfail %d\n", rc);
	} else {
		dump(c);
		xmp_release_module(c);
	}
	xmp_free_context(c);
	printf("end\n");
	fflush(stdout);
}

int main(void)
{
	ssize_t len;
	while ((len = getline(&line, &cap, stdin)) > 0) {
		char *kind, *id, *arg;
		while (len > 0 && (line[len - 1] == '\n' || line[len - 1] == '\r'))
			line[--len] = 0;
		kind = strtok(line, " ");
		if (kind == NULL)
			continue;
		if (!strcmp(kind, "p2n")) {
			int p;
			printf("p2n");
			for (p = 0; p < 4096; p++)
				printf(" %d", libxmp_period_to_note(p));
			printf("\n");
			continue;
		}
		id = strtok(NULL, " ");
		arg = strtok(NULL, " ");
		if (id == NULL || arg == NULL)
			continue;
		if (!strcmp(kind, "hex")) {
			unsigned char *b = NULL;
			long n = fast_hex(arg, &b);
			if (n < 0) {
				printf("begin %s\nbadhex\nend\n", id);
				free(b);
				continue;
			}
			load_and_dump(id, b, n);
			free(b);
		} else if (!strcmp(kind, "file")) {
			long n = 0;
			unsigned char *b = read_file(arg, &n);
			if (b == NULL) {
				printf("begin %s\nnofile\nend\n", id);
				continue;
			}
			load_and_dump(id, b, n);
			free(b);
		}
	}
	return 0;
}
