/* C12 harness: xmp_play_buffer vs the frame stream of xmp_play_frame.
 *
 * usage: c12_playbuffer <seed> <ncases> <maxhexbytes> <module>...
 *        c12_playbuffer --replay <file>       (a recorded case script, see below)
 *
 * For each case two identical contexts are used: A is rendered frame by frame
 * with xmp_play_frame (the reference frame stream), B through a random script
 * of xmp_play_buffer calls (sizes 1 byte .. several frames, unaligned, 0,
 * negative), optional NULL resets and an optional xmp_stop_module.
 *
 * Output (one case):
 *   begin <loop> <module> rate=<r> fmt=<f> seed=<s>
 *   frame <loop_count> <hex>          A's frame stream (model input)
 *   endframe                          A's xmp_play_frame returned < 0 here
 *   call <size>                       script (model input)
 *   expect <ret> <consumed> <in_size> <hex>    what the real B did (compared with the model)
 *   reset / stop                      script
 *   oracle_fail <text>                direct property oracle (B's bytes vs A's stream)
 *   end
 */
#include "vcommon.h"
#include <xmp.h>
#include "common.h"   /* /repo/src/common.h (private) via -I */
#include "rng.h"

#define MAXFRAMES 4096

struct frame {
	unsigned char *data;
	int size;
	int lc;
};

static struct frame frames[MAXFRAMES];
static int nframes, a_ended;

static void free_frames(void)
{
	int i;
	for (i = 0; i < nframes; i++)
		free(frames[i].data);
	nframes = 0;
	a_ended = 0;
}

struct op {
	int kind;		/* 0 call, 1 reset, 2 stop */
	int size;
};

static int gen_size(int framesz)
{
	switch (vrng_below(10)) {
	case 0:
		return vrng_range(1, 7);
	case 1:
		return vrng_range(-3, 0);
	case 2:
		return framesz;
	case 3:
		return framesz + vrng_range(-2, 2);
	case 4:
		return 2 * framesz + vrng_range(-3, 3);
	case 5:
		return vrng_range(1, 5 * framesz);
	default:
		return vrng_range(1, framesz + framesz / 2 + 3);
	}
}

static int run_session(xmp_context a, xmp_context b, const char *path, int rate, int fmt, int loop, int near_end,
		       struct op *ops, int nops, long maxhex, uint64_t seed, int session)
{
	struct xmp_frame_info fi;
	long need_bytes = 0, have = 0, hexbytes = 0;
	int i, resets = 0, framesz, ret, fails = 0;
	int idx_bound;
	unsigned char *out;

	if (near_end) {
		/* start both contexts a few rows before the end of the last order so
		 * that the loop counter increments / the module ends within the case */
		struct xmp_module_info mi;
		int r;
		xmp_get_module_info(a, &mi);
		if (mi.mod->len > 0) {
			xmp_set_position(a, mi.mod->len - 1);
			xmp_set_position(b, mi.mod->len - 1);
			xmp_play_frame(a);
			xmp_play_frame(b);
			xmp_get_frame_info(a, &fi);
			r = fi.num_rows - near_end;
			if (r > 0) {
				xmp_set_row(a, r);
				xmp_set_row(b, r);
			}
		}
	}

	/* The reference stream is rendered lazily: A has always rendered exactly the frames B
	 * has fetched so far (one more while the oracle looks at the frame B is about to fetch),
	 * so that a position-control call in the script can be applied to both contexts at the
	 * same frame boundary. */
	free_frames();
	xmp_get_frame_info(a, &fi);
	framesz = fi.frame_time > 0 ? (int)((double)rate * fi.frame_time / 1000000.0) : 0;
	framesz *= ((fmt & XMP_FORMAT_MONO) ? 1 : 2) * ((fmt & XMP_FORMAT_8BIT) ? 1 : 2);
	if (framesz < 16 || framesz > XMP_MAX_FRAMESIZE * 4)
		framesz = 64;

	/* build the script if not given */
	if (nops < 0) {
		int n = vrng_range(3, 24), stop_at = -1;
		long budget = maxhex;
		nops = 0;
		if (loop == 0 && vrng_chance(50))
			stop_at = vrng_range(1, n - 1);
		for (i = 0; i < n; i++) {
			if (i == stop_at) {
				ops[nops].kind = 2;
				ops[nops++].size = 0;
				continue;
			}
			if (loop == 0 && vrng_chance(8)) {
				ops[nops].kind = 1;
				ops[nops++].size = 0;
				continue;
			}
			if (loop > 0 && vrng_chance(10)) {
				/* rewind: xmp_set_position(0) followed by the documented NULL reset, also
				 * after a loop-limited run has reported the end; playback must start over
				 * with the loop counter at zero */
				ops[nops].kind = 9;
				ops[nops++].size = 0;
				continue;
			}
			if (vrng_chance(12)) {
				/* position control between buffer calls: 3 restart, 4 set_position,
				 * 5 next, 6 prev, 7 seek_time, 8 set_row; 10 is a refused call
				 * (xmp_start_player with an invalid rate, xmp_set_player with an invalid
				 * value), which must leave the stream untouched */
				ops[nops].kind = vrng_chance(25) ? 10 : vrng_range(3, 8);
				ops[nops++].size = (int)vrng_below(1 << 20);
				continue;
			}
			ops[nops].kind = 0;
			ops[nops].size = gen_size(framesz);
			if (ops[nops].size > 0) {
				if (ops[nops].size > budget)
					ops[nops].size = budget > 0 ? (int)budget : 1;
				budget -= ops[nops].size;
			}
			nops++;
		}
	}
	(void)need_bytes; (void)have; (void)resets; (void)idx_bound;

	printf("begin %d %s rate=%d fmt=%d near_end=%d seed=%llu session=%d\n", loop, path, rate, fmt, near_end,
	       (unsigned long long)seed, session);

	/* run the script on B.  The direct oracle tracks nextf (index of the next
	 * frame B has to fetch), the current frame and the offset in it.  The op lines are
	 * buffered and printed after the frame stream. */
	{
		struct context_data *ctx = (struct context_data *)b;
		int nextf = 0, cur = -1, off = 0, cursize = 0;
		int stopped_at = -1;	/* frames >= this index are END */
		int ended = 0;
		char *obuf = NULL;
		size_t olen = 0;
		FILE *o = open_memstream(&obuf, &olen);

#define ENSURE(k) do { \
	while (!a_ended && nframes <= (k) && nframes < MAXFRAMES - 1) { \
		if (xmp_play_frame(a) < 0) { a_ended = 1; break; } \
		xmp_get_frame_info(a, &fi); \
		frames[nframes].data = (unsigned char *)malloc(fi.buffer_size + 1); \
		memcpy(frames[nframes].data, fi.buffer, fi.buffer_size); \
		frames[nframes].size = fi.buffer_size; \
		frames[nframes].lc = fi.loop_count; \
		nframes++; \
	} } while (0)

		for (i = 0; i < nops; i++) {
			if (ops[i].kind == 1) {
				xmp_play_buffer(b, NULL, 0, 0);
				if (ctx->p.loop_count != 0 || ctx->p.buffer_data.consumed != 0 || ctx->p.buffer_data.in_size != 0) {
					fprintf(o, "oracle_fail op %d: the NULL reset left loop_count=%d consumed=%d in_size=%d\n", i,
						ctx->p.loop_count, ctx->p.buffer_data.consumed, ctx->p.buffer_data.in_size);
					fails++;
				}
				fprintf(o, "reset\n");
				cursize = off = 0;	/* carry-over dropped */
				continue;
			}
			if (ops[i].kind == 2) {
				xmp_stop_module(b);
				fprintf(o, "stop\n");
				stopped_at = nextf;
				continue;
			}
			if (ops[i].kind >= 3) {
				/* position control: applied to both contexts at the same frame boundary (A has
				 * rendered exactly the nextf frames B fetched); the frame in flight in B must
				 * still be delivered completely */
				struct xmp_module_info mi;
				int arg = ops[i].size, ra = 0, rb = 0;
				if (ops[i].kind == 10) {
					/* refused calls: no frame-boundary alignment needed, nothing may change */
					int lc0 = ctx->p.loop_count, c0 = ctx->p.buffer_data.consumed, s0 = ctx->p.buffer_data.in_size;
					switch (arg % 4) {
					case 0: rb = xmp_start_player(b, 1, 0); ra = xmp_start_player(a, 1, 0); break;
					case 1: rb = xmp_start_player(b, XMP_MAX_SRATE + 1, 0); ra = xmp_start_player(a, XMP_MAX_SRATE + 1, 0); break;
					case 2: rb = xmp_set_player(b, XMP_PLAYER_INTERP, 9999); ra = xmp_set_player(a, XMP_PLAYER_INTERP, 9999); break;
					default: rb = xmp_set_player(b, XMP_PLAYER_MIX, 101); ra = xmp_set_player(a, XMP_PLAYER_MIX, 101); break;
					}
					fprintf(o, "refused %d\n", arg % 4);
					if (ra >= 0 || rb >= 0 || ra != rb) {
						fprintf(o, "oracle_fail op %d: invalid call %d returned %d / %d, expected a refusal\n", i, arg % 4, ra, rb);
						fails++;
					}
					if (ctx->p.loop_count != lc0 || ctx->p.buffer_data.consumed != c0 || ctx->p.buffer_data.in_size != s0) {
						fprintf(o, "oracle_fail op %d: refused call %d changed the buffer state: loop_count %d->%d consumed %d->%d in_size %d->%d\n",
							i, arg % 4, lc0, ctx->p.loop_count, c0, ctx->p.buffer_data.consumed, s0, ctx->p.buffer_data.in_size);
						fails++;
					}
					continue;
				}
				if (stopped_at >= 0 || a_ended || (ended && ops[i].kind != 9) || nframes != nextf || nextf == 0) {
					fprintf(o, "ctl skipped\n");
					continue;
				}
				xmp_get_module_info(a, &mi);
				switch (ops[i].kind) {
				case 9:
					arg = 0;
					ra = xmp_set_position(a, 0);
					rb = xmp_set_position(b, 0);
					xmp_play_buffer(a, NULL, 0, 0);
					xmp_play_buffer(b, NULL, 0, 0);
					if (ctx->p.loop_count != 0 || ctx->p.buffer_data.consumed != 0 || ctx->p.buffer_data.in_size != 0) {
						fprintf(o, "oracle_fail op %d: the NULL reset left loop_count=%d consumed=%d in_size=%d\n", i,
							ctx->p.loop_count, ctx->p.buffer_data.consumed, ctx->p.buffer_data.in_size);
						fails++;
					}
					cursize = off = 0;
					ended = 0;
					fprintf(o, "reset\n");
					break;
				case 3:
					xmp_restart_module(a);
					xmp_restart_module(b);
					break;
				case 4:
					arg = mi.mod->len > 0 ? arg % mi.mod->len : 0;
					ra = xmp_set_position(a, arg);
					rb = xmp_set_position(b, arg);
					break;
				case 5:
					ra = xmp_next_position(a);
					rb = xmp_next_position(b);
					break;
				case 6:
					ra = xmp_prev_position(a);
					rb = xmp_prev_position(b);
					break;
				case 7:
					arg = arg % (mi.seq_data[0].duration > 0 ? mi.seq_data[0].duration + 1000 : 1000);
					ra = xmp_seek_time(a, arg);
					rb = xmp_seek_time(b, arg);
					break;
				default:
					arg = arg % 64;
					ra = xmp_set_row(a, arg);
					rb = xmp_set_row(b, arg);
					break;
				}
				fprintf(o, "ctl %d %d at=%d\n", ops[i].kind, arg, nextf);
				if (ra != rb) {
					fprintf(o, "oracle_fail op %d: control call %d(%d) returned %d on the frame context, %d on the buffer context\n",
						i, ops[i].kind, arg, ra, rb);
					fails++;
				}
				continue;
			}
			{
				int size = ops[i].size;
				int asz = size > 0 ? size : 0;
				int k = 0, want_ret = 0, skip = 0;
				out = (unsigned char *)malloc(asz + 16);
				memset(out, 0xAA, asz + 16);
				ret = xmp_play_buffer(b, out, size, loop);
				fprintf(o, "call %d\n", size);
				fprintf(o, "expect %d %d %d ", ret, ctx->p.buffer_data.consumed,
				       ctx->p.buffer_data.in_size);
				put_hex(o, out, ret < 0 ? 0 : asz);
				fprintf(o, "\n");

				/* ---- direct oracle: bytes must equal A's stream ---- */
				while (k < asz) {
					if (off == cursize) {	/* B must fetch frame nextf */
						int term;
						if (!(stopped_at >= 0 && nextf >= stopped_at))
							ENSURE(nextf);
						if (nextf >= nframes && !a_ended && !(stopped_at >= 0 && nextf >= stopped_at)) {
							fprintf(o, "oracle_skip reference stream exhausted\n");
							skip = 1;
							break;
						}
						term = (stopped_at >= 0 && nextf >= stopped_at) ||
						       (nextf >= nframes) ||
						       (loop > 0 && frames[nextf].lc >= loop);
						nextf++;
						if (term) {
							ended = 1;
							if (k == 0)
								want_ret = -1;
							break;
						}
						cur = nextf - 1;
						cursize = frames[cur].size;
						off = 0;
						continue;
					}
					if (out[k] != frames[cur].data[off]) {
						fprintf(o, "oracle_fail call %d: byte %d differs from frame %d offset %d (got %02x want %02x)\n",
						       i, k, cur, off, out[k], frames[cur].data[off]);
						fails++;
						skip = 1;
						break;
					}
					k++;
					off++;
				}
				if (!skip && want_ret == 0) {
					for (; k < asz; k++) {
						if (out[k] != 0) {
							fprintf(o, "oracle_fail call %d: byte %d after the end is %02x, expected zero fill\n",
							       i, k, out[k]);
							fails++;
							break;
						}
					}
				}
				if (!skip && ret != want_ret) {
					fprintf(o, "oracle_fail call %d: size %d returned %d, expected %d\n", i, size, ret, want_ret);
					fails++;
				}
				if (out[asz] != 0xAA || out[asz + 1] != 0xAA) {
					fprintf(o, "oracle_fail call %d: wrote past the requested size\n", i);
					fails++;
				}
				if (ret < 0 && asz > 0 && out[0] != 0xAA) {
					fprintf(o, "oracle_fail call %d: returned %d but wrote to the buffer\n", i, ret);
					fails++;
				}
				free(out);
			}
		}
		fclose(o);
		for (i = 0; i < nframes; i++) {
			printf("frame %d ", frames[i].lc);
			put_hex(stdout, frames[i].data, frames[i].size);
			printf("\n");
			hexbytes += frames[i].size;
		}
		if (a_ended)
			printf("endframe\n");
		fputs(obuf ? obuf : "", stdout);
		free(obuf);
	}
	printf("end\n");
	free_frames();
	(void)hexbytes;
	return fails;
}

/* digest of all sample PCM of a loaded module */
static uint64_t sample_digest(xmp_context c)
{
	struct xmp_module_info mi;
	uint64_t h = 1469598103934665603ULL;
	int i;

	xmp_get_module_info(c, &mi);
	for (i = 0; i < mi.mod->smp; i++) {
		struct xmp_sample *xs = &mi.mod->xxs[i];
		if (xs->data != NULL && xs->len > 0)
			h = fnv1a(h, xs->data, (size_t)xs->len * ((xs->flg & XMP_SAMPLE_16BIT) ? 2 : 1));
	}
	return h;
}

/* One case = one module in two twin contexts, 1..3 player sessions.  Between
 * sessions both players are restarted (xmp_start_player on a playing context,
 * or xmp_end_player + xmp_start_player): xmp_start_player must drop any
 * carry-over of xmp_play_buffer, so every session starts a fresh stream. */
static int run_case(const char *path, uint64_t seed, long maxhex)
{
	static struct op ops[512];
	static const int rates[] = { 4000, 4000, 8000, 8000, 11025, 22050, 44100, 48000, 49170 };
	xmp_context a, b;
	int nsess, sidx, fails = 0;

	a = xmp_create_context();
	b = xmp_create_context();
	/* C06: determinism is claimed with the context's random state fixed */
	libxmp_set_random(&((struct context_data *)a)->rng, 0x1234567u);
	libxmp_set_random(&((struct context_data *)b)->rng, 0x1234567u);
	if (xmp_load_module(a, path) < 0 || xmp_load_module(b, path) < 0) {
		xmp_free_context(a);
		xmp_free_context(b);
		return -1;
	}
	nsess = vrng_chance(35) ? vrng_range(2, 3) : 1;
	for (sidx = 0; sidx < nsess; sidx++) {
		int rate = rates[vrng_below(9)], fmt = vrng_below(8);
		int loop = vrng_chance(50) ? 0 : vrng_range(1, 3);
		int near_end = vrng_chance(45) ? vrng_range(1, 3) : 0;
		if (sidx > 0 && vrng_chance(50)) {
			xmp_end_player(a);
			xmp_end_player(b);
		}
		/* The Protracker invert-loop effect rewrites sample bytes by design (C15's
		 * stated exception), and the twins rendered different numbers of frames in
		 * the previous session: when their sample data differ they are no longer
		 * "the same module", so both are reloaded before the next session. */
		if (sidx > 0 && sample_digest(a) != sample_digest(b)) {
			xmp_end_player(a);
			xmp_end_player(b);
			xmp_release_module(a);
			xmp_release_module(b);
			if (xmp_load_module(a, path) < 0 || xmp_load_module(b, path) < 0)
				break;
			printf("reload invloop\n");
		}
		/* the two contexts rendered different numbers of frames in the previous
		 * session: re-pin the random state (C06 fixes it) before each session */
		libxmp_set_random(&((struct context_data *)a)->rng, 0x1234567u + sidx);
		libxmp_set_random(&((struct context_data *)b)->rng, 0x1234567u + sidx);
		if (xmp_start_player(a, rate, fmt) < 0 || xmp_start_player(b, rate, fmt) < 0)
			break;
		fails += run_session(a, b, path, rate, fmt, loop, near_end, ops, -1, maxhex, seed, sidx);
	}
	xmp_end_player(a);
	xmp_end_player(b);
	xmp_release_module(a);
	xmp_release_module(b);
	xmp_free_context(a);
	xmp_free_context(b);
	return fails;
}

int main(int argc, char **argv)
{
	uint64_t seed;
	int ncases, i, nmods, only;
	long maxhex;

	if (argc < 6) {
		fprintf(stderr, "usage: %s <seed> <ncases> <maxhexbytes> <only|-1> <module>...\n", argv[0]);
		return 2;
	}
	seed = strtoull(argv[1], NULL, 10);
	ncases = atoi(argv[2]);
	maxhex = atol(argv[3]);
	only = atoi(argv[4]);
	nmods = argc - 5;
	for (i = 0; i < ncases; i++) {
		const char *path;
		uint64_t cs = seed * 1000003ULL + i;
		if (only >= 0 && i != only)
			continue;
		vrng_seed(cs);
		path = argv[5 + vrng_below(nmods)];
		printf("caseidx %d\n", i);
		if (run_case(path, cs, maxhex) < 0)
			printf("skip %s\n", path);
		fflush(stdout);
	}
	return 0;
}
