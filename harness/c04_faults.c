/* C04 harness: failed or faulted operations are atomic.
 *
 * Built with -Wl,--wrap=malloc,calloc,realloc,free,libxmp_release_module_extras
 * (+ mkstemp, fdopen for the temp-file fault points).  Every allocator call made
 * by libxmp inside a *window* is numbered; the k-th can be made to fail.  Every
 * block allocated inside a window is tracked until it is freed, so that after a
 * failed call we know exactly which blocks it left behind (residue) and, after
 * the context has been reused and freed, which blocks leaked - with the call
 * site of the allocation.
 *
 * usage:
 *   c04_faults faults <op> <entry> <file> <kfrom> <kto> <stride> [nframes]
 *        op    = load | test | start | restart | startsmix (2 smix channels reserved) | smixload | smixstart
 *        entry = path | mem | file | cb        (start/restart: how the module is loaded)
 *        k runs over kfrom, kfrom+stride, ... <= min(kto, N-1); kto=-1: all; kfrom=-1: baseline only;
 *        stride=-T: choose the stride so that about T indices are tried
 *   c04_faults trunc <entry> <file> <len> [<len>...]      load/test the prefix of that length
 *   c04_faults readfault <file> <jfrom> <jto> <stride> <mode>   callbacks: the j-th read call and all later ones
 *                                                            return short (mode 0) / nothing (mode 1)
 *   c04_faults own <file> <garbagefile>                   stream-ownership scenarios
 *   c04_faults tempfault <file> <which>                   inside make_temp_file: 1 mkstemp refused, 2 fdopen fails,
 *                                                         3 libc mkstemp at the descriptor limit; +10: xmp_test_module
 *   c04_faults mutate <entry> <file> <off:val[,off:val...]>...     bytes replaced (corrupt archives), load + test
 *   c04_faults companion <module> <companion> <len>...             companion file missing (-1) / a directory (-2) / cut
 *   c04_faults rescan <mode|cflags|scan> <playing> <file> <kfrom> <kto> <stride>   every allocator call of a rescan fails
 *   c04_faults closefault <load|test> <path|file|cb> <file>   the j-th fclose of the call reports failure (for every j);
 *                                                            cb: the close callback returns -1
 *   c04_faults smixfaults <scenario> mem <module> <kfrom> <kto> <stride> <good.wav> <trunc.wav> <garbage>
 *        scenario = start | restart | load | reload | loadhdr | loadshort | loadrange | startinval | end |
 *                   startplaying | endplaying: xmp_start_smix / xmp_smix_load_sample / xmp_end_smix after a
 *                   prelude, every allocation index; `trace smix` ledger lines for the Lean model
 *
 * Output, one line per case (stdout), all fields key=value:
 *   base ...   the unfaulted run (allocator calls N, return codes, digests)
 *   k ...      one faulted run: fired, rc, state, residue, fd, tmp, file, closes, reuse, leaks
 *   leak ...   one line per leaked/residual block: site=<file>:<function>
 *   trace ...  context-level ledger lines compared with the Lean model (drv_c04)
 *   fcase/pre/ext/post/fend   member-level image of the context before and after a failed xmp_start_player
 *              (post: only the members that changed), compared with XmpModel.StartFail
 *   viol <signature> <text>    the property oracle failed
 */
#include "vcommon.h"
#include <xmp.h>
#include "common.h"
#include "player.h"
#include "mixer.h"
#include "hio.h"
#include "extras.h"
#include "rng.h"
#include "med_extras.h"
#include "hmn_extras.h"
#include "far_extras.h"
#include "depackers/depacker.h"
#include "tempfile.h"
#include <dirent.h>
#include <unistd.h>
#include <fcntl.h>
#include <sys/stat.h>
#include <sys/resource.h>
#include <execinfo.h>
#include <sanitizer/lsan_interface.h>
#include <sanitizer/common_interface_defs.h>
#include <sanitizer/allocator_interface.h>
#include "c06_image.h"	/* complete image of struct context_data (leaf list generated from the headers) */

/* ------------------------------------------------------------------ */
/* allocation tracker                                                  */
/* ------------------------------------------------------------------ */

void *__real_malloc(size_t);
void *__real_calloc(size_t, size_t);
void *__real_realloc(void *, size_t);
void __real_free(void *);

#define MAXREC (1 << 18)
#define HSIZE (1 << 19)

struct arec {
	void *p;
	void *pc;
	size_t size;
	int gen;		/* window generation */
	int idx;		/* allocator call index inside its window */
	int live;
};

static struct arec recs[MAXREC];
static int nrecs;
static int htab[HSIZE];		/* 0 empty, -1 tombstone, else rec index + 1 */

static int win_on, win_gen, win_count, win_fail_at = -1, win_fired;
static int overflow;

/* free trace for the release correspondence */
#define MAXFREED (1 << 18)
static void *freed_ptrs[MAXFREED];
static int nfreed, freed_on;

static unsigned hptr(void *p)
{
	uint64_t x = (uint64_t)(uintptr_t)p;
	x ^= x >> 33;
	x *= 0xff51afd7ed558ccdULL;
	x ^= x >> 29;
	return (unsigned)x & (HSIZE - 1);
}

static void track_reset(void)
{
	int i;
	for (i = 0; i < nrecs; i++) {
		unsigned h = hptr(recs[i].p);
		/* clear the probe chain lazily: simply wipe the slots we may have used */
		(void)h;
	}
	memset(htab, 0, sizeof(htab));
	nrecs = 0;
	win_gen = 0;
	win_on = 0;
	win_fail_at = -1;
	win_fired = 0;
	nfreed = 0;
	freed_on = 0;
}

static void track_add(void *p, size_t size, void *pc, int idx)
{
	unsigned h;
	if (p == NULL)
		return;
	if (nrecs >= MAXREC) {
		overflow = 1;
		return;
	}
	recs[nrecs].p = p;
	recs[nrecs].pc = pc;
	recs[nrecs].size = size;
	recs[nrecs].gen = win_gen;
	recs[nrecs].idx = idx;
	recs[nrecs].live = 1;
	h = hptr(p);
	while (htab[h] > 0)
		h = (h + 1) & (HSIZE - 1);
	htab[h] = nrecs + 1;
	nrecs++;
}

static struct arec *track_find(void *p)
{
	unsigned h = hptr(p);
	while (htab[h] != 0) {
		if (htab[h] > 0 && recs[htab[h] - 1].p == p && recs[htab[h] - 1].live)
			return &recs[htab[h] - 1];
		h = (h + 1) & (HSIZE - 1);
	}
	return NULL;
}

static void track_del(void *p)
{
	unsigned h = hptr(p);
	while (htab[h] != 0) {
		if (htab[h] > 0 && recs[htab[h] - 1].p == p && recs[htab[h] - 1].live) {
			recs[htab[h] - 1].live = 0;
			htab[h] = -1;
			return;
		}
		h = (h + 1) & (HSIZE - 1);
	}
}

/* call stack of the allocator call that was made to fail (symbolised only when reporting) */
static void *fault_stack[24];
static int fault_depth;

static int win_should_fail(void)
{
	int i = win_count++;
	if (i == win_fail_at) {
		win_fired = 1;
		win_on = 0;
		fault_depth = backtrace(fault_stack, 24);
		win_on = 1;
		errno = ENOMEM;
		return 1;
	}
	return 0;
}

void *__wrap_malloc(size_t n)
{
	void *p;
	if (!win_on)
		return __real_malloc(n);
	if (win_should_fail())
		return NULL;
	p = __real_malloc(n);
	track_add(p, n, __builtin_return_address(0), win_count - 1);
	return p;
}

void *__wrap_calloc(size_t a, size_t b)
{
	void *p;
	if (!win_on)
		return __real_calloc(a, b);
	if (win_should_fail())
		return NULL;
	p = __real_calloc(a, b);
	track_add(p, a * b, __builtin_return_address(0), win_count - 1);
	return p;
}

void *__wrap_realloc(void *q, size_t n)
{
	void *p;
	if (!win_on) {
		p = __real_realloc(q, n);
		if (q != NULL && (p != NULL || n == 0)) {
			struct arec *r = track_find(q);
			if (r != NULL) {
				/* a tracked block moved outside a window: keep tracking it */
				void *pc = r->pc;
				int gen = r->gen, idx = r->idx, g = win_gen;
				track_del(q);
				if (p != NULL) {
					win_gen = gen;
					track_add(p, n, pc, idx);
					win_gen = g;
				}
			}
		}
		return p;
	}
	if (win_should_fail())
		return NULL;	/* the old block stays valid */
	p = __real_realloc(q, n);
	if (p != NULL || n == 0) {
		if (q != NULL)
			track_del(q);
		track_add(p, n, __builtin_return_address(0), win_count - 1);
	}
	return p;
}

void __wrap_free(void *p)
{
	if (p != NULL) {
		track_del(p);
		if (freed_on && nfreed < MAXFREED)
			freed_ptrs[nfreed++] = p;
	}
	__real_free(p);
}

static int fc_count, fc_fired, fc_double, nclosed, fo_count;

static void win_begin(int fail_at)
{
	win_gen++;
	win_count = 0;
	fc_count = 0;
	fo_count = 0;
	fc_fired = 0;
	fc_double = 0;
	nclosed = 0;
	win_fail_at = fail_at;
	win_fired = 0;
	win_on = 1;
}

static void win_end(void)
{
	win_on = 0;
	win_fail_at = -1;
}

/* ---- fclose fault injection: the j-th fclose inside a window closes the stream and reports failure.
 * Every FILE closed inside the window is remembered; a second fclose of the same FILE (before an fopen /
 * fdopen hands the address out again) is a double close: it is counted and NOT passed on to libc. ---- */
int __real_fclose(FILE *);
FILE *__real_fopen(const char *, const char *);
#define MAXCLOSED 64
static FILE *closed_files[MAXCLOSED];
static int fc_fail_at = -1;

static void closed_forget(FILE *f)
{
	int i;
	for (i = 0; i < nclosed; i++)
		if (closed_files[i] == f)
			closed_files[i] = closed_files[--nclosed];
}

int __wrap_fclose(FILE *f)
{
	int i, idx, rc;
	if (!win_on)
		return __real_fclose(f);
	for (i = 0; i < nclosed; i++) {
		if (closed_files[i] == f) {
			fc_double++;
			errno = EBADF;
			return EOF;
		}
	}
	idx = fc_count++;
	win_on = 0;
	rc = __real_fclose(f);
	win_on = 1;
	if (nclosed < MAXCLOSED)
		closed_files[nclosed++] = f;
	if (idx == fc_fail_at) {
		fc_fired = 1;
		errno = EIO;
		return EOF;
	}
	return rc;
}

static int fo_count;		/* fopen calls inside the current window */
FILE *__wrap_fopen(const char *path, const char *mode)
{
	FILE *f = __real_fopen(path, mode);
	if (win_on)
		fo_count++;
	if (f != NULL)
		closed_forget(f);
	return f;
}

static int live_in_gen(int gen)
{
	int i, n = 0;
	for (i = 0; i < nrecs; i++)
		if (recs[i].live && (gen < 0 || recs[i].gen == gen))
			n++;
	return n;
}

static void site_of(void *pc, char *buf, size_t n)
{
	char tmp[512], *f, *s, *l, *b;
	tmp[0] = 0;
	__sanitizer_symbolize_pc((char *)pc - 1, "%f|%s|%l", tmp, sizeof(tmp));
	f = tmp;
	s = strchr(tmp, '|');
	if (s == NULL) {
		snprintf(buf, n, "?:%s:0", tmp);
		return;
	}
	*s++ = 0;
	l = strchr(s, '|');
	if (l != NULL)
		*l++ = 0;
	b = strrchr(s, '/');
	b = b ? b + 1 : s;
	snprintf(buf, n, "%s:%s:%s", b, f, l ? l : "0");
}

/* "fault site=<file:func:line of the failed allocator call> loader=<first *_load.c / depacker / prowizard file on the stack>" */
static void print_fault(void)
{
	char site[600], first[600];
	const char *loader = "-";
	static char lbuf[600];
	int i;
	if (!win_fired || fault_depth < 3)
		return;
	first[0] = 0;
	for (i = 2; i < fault_depth; i++) {
		char *c;
		site_of(fault_stack[i], site, sizeof(site));
		if (strstr(site, "__wrap_") != NULL || strstr(site, "c04_faults.c") != NULL)
			continue;
		if (first[0] == 0)
			snprintf(first, sizeof(first), "%s", site);
		c = strchr(site, ':');
		if (c != NULL) {
			size_t n = (size_t)(c - site);
			char tmp[600], full[900];
			tmp[0] = 0;
			__sanitizer_symbolize_pc((char *)fault_stack[i] - 1, "%s", full, sizeof(full));
			if ((n > 7 && !strncmp(c - 7, "_load.c", 7)) || strstr(full, "/depackers/") != NULL ||
			    strstr(full, "/prowizard/") != NULL) {
				snprintf(lbuf, sizeof(lbuf), "%.*s", (int)n, site);
				loader = lbuf;
				break;
			}
		}
	}
	printf("fault site=%s loader=%s\n", first[0] ? first : "?", loader);
}

/* print one `leak` line per live block of generation gen (-1: all); returns count */
static int report_live(const char *what, int gen, const char *tag)
{
	int i, n = 0;
	char site[600];
	for (i = 0; i < nrecs; i++) {
		if (!recs[i].live || (gen >= 0 && recs[i].gen != gen))
			continue;
		n++;
		if (n <= 12) {
			site_of(recs[i].pc, site, sizeof(site));
			printf("leak kind=%s %s gen=%d idx=%d size=%lu site=%s\n", what, tag, recs[i].gen,
			       recs[i].idx, (unsigned long)recs[i].size, site);
		}
	}
	return n;
}

/* ------------------------------------------------------------------ */
/* environment observations                                            */
/* ------------------------------------------------------------------ */

static int count_fds(void)
{
	DIR *d = opendir("/proc/self/fd");
	struct dirent *e;
	int n = 0;
	if (d == NULL)
		return -1;
	while ((e = readdir(d)) != NULL)
		if (e->d_name[0] != '.')
			n++;
	closedir(d);
	return n - 1;		/* the directory stream itself */
}

static int count_tmp(void)
{
	const char *t = getenv("TMPDIR");
	DIR *d;
	struct dirent *e;
	int n = 0;
	if (t == NULL)
		return 0;
	d = opendir(t);
	if (d == NULL)
		return 0;
	while ((e = readdir(d)) != NULL)
		if (strcmp(e->d_name, ".") && strcmp(e->d_name, ".."))
			n++;
	closedir(d);
	return n;
}

/* ------------------------------------------------------------------ */
/* digests                                                             */
/* ------------------------------------------------------------------ */

static uint64_t module_digest(xmp_context ctx)
{
	struct xmp_module_info mi;
	struct xmp_module *mod;
	uint64_t h = FNV_INIT;
	int i, j;

	xmp_get_module_info(ctx, &mi);
	mod = mi.mod;
	h = fnv1a(h, mod->name, strlen(mod->name));
	h = fnv1a(h, mod->type, strlen(mod->type));
	h = fnv1a(h, &mod->pat, sizeof(int) * 10);	/* pat trk chn ins smp spd bpm len rst gvl */
	h = fnv1a(h, mod->xxo, mod->len > 0 ? mod->len : 0);
	for (i = 0; i < mod->pat; i++) {
		if (mod->xxp[i] == NULL)
			continue;
		h = fnv1a(h, &mod->xxp[i]->rows, sizeof(int));
		h = fnv1a(h, mod->xxp[i]->index, sizeof(int) * mod->chn);
	}
	for (i = 0; i < mod->trk; i++) {
		if (mod->xxt[i] == NULL)
			continue;
		h = fnv1a(h, &mod->xxt[i]->rows, sizeof(int));
		h = fnv1a(h, mod->xxt[i]->event, sizeof(struct xmp_event) * mod->xxt[i]->rows);
	}
	for (i = 0; i < mod->ins; i++) {
		h = fnv1a(h, mod->xxi[i].name, strlen(mod->xxi[i].name));
		h = fnv1a(h, &mod->xxi[i].vol, sizeof(int));
		h = fnv1a(h, &mod->xxi[i].nsm, sizeof(int));
		for (j = 0; j < mod->xxi[i].nsm && mod->xxi[i].sub; j++) {
			h = fnv1a(h, &mod->xxi[i].sub[j].vol, sizeof(int));
			h = fnv1a(h, &mod->xxi[i].sub[j].sid, sizeof(int));
			h = fnv1a(h, &mod->xxi[i].sub[j].xpo, sizeof(int));
			h = fnv1a(h, &mod->xxi[i].sub[j].fin, sizeof(int));
		}
	}
	for (i = 0; i < mod->smp; i++) {
		struct xmp_sample *s = &mod->xxs[i];
		int bytes = s->len;
		h = fnv1a(h, &s->len, sizeof(int) * 4);	/* len lps lpe flg */
		if (s->flg & XMP_SAMPLE_16BIT)
			bytes *= 2;
		if (s->flg & XMP_SAMPLE_STEREO)
			bytes *= 2;
		if (s->data != NULL && bytes > 0)
			h = fnv1a(h, s->data, bytes);
	}
	return h;
}

static int g_nframes = 6;

/* start at 22050 Hz, play g_nframes frames, digest the PCM; leaves the player ended */
static int play_digest(xmp_context ctx, uint64_t *out)
{
	struct xmp_frame_info fi;
	uint64_t h = FNV_INIT;
	int i, rc;

	/* xmp_create_context seeds the generator from time(NULL): pin it, the comparison is
	 * about what a failed call leaves behind, not about the clock */
	libxmp_set_random(&((struct context_data *)ctx)->rng, 20260930u);
	rc = xmp_start_player(ctx, 22050, 0);
	if (rc < 0)
		return rc;
	for (i = 0; i < g_nframes; i++) {
		rc = xmp_play_frame(ctx);
		if (rc < 0)
			break;
		xmp_get_frame_info(ctx, &fi);
		h = fnv1a(h, &fi.buffer_size, sizeof(int));
		h = fnv1a(h, fi.buffer, fi.buffer_size);
	}
	xmp_end_player(ctx);
	*out = h;
	return 0;
}

/* ------------------------------------------------------------------ */
/* entry points                                                        */
/* ------------------------------------------------------------------ */

enum { E_PATH, E_MEM, E_FILE, E_CB };

struct cbsrc {
	const unsigned char *data;
	long size, pos;
	int closes;
	long reads;		/* read calls so far */
	long fail_from;		/* read call index from which reads fail (-1 never) */
	int fail_mode;		/* 0: short read (partial), 1: nothing */
	int tell_fails;
	int seek_fails;
	int close_rc;		/* what the close callback returns */
};

static unsigned long cb_read(void *dest, unsigned long len, unsigned long nmemb, void *priv)
{
	struct cbsrc *c = (struct cbsrc *)priv;
	unsigned long want = len * nmemb, have, items;
	long idx = c->reads++;
	if (len == 0 || nmemb == 0)
		return 0;
	if (c->fail_from >= 0 && idx >= c->fail_from) {
		if (c->fail_mode == 1 || idx > c->fail_from)
			return 0;
		/* a short read: at most one byte less than one item */
		want = len - 1;
	}
	have = (unsigned long)(c->size - c->pos);
	if (want > have)
		want = have;
	memcpy(dest, c->data + c->pos, want);
	c->pos += want;
	items = want / len;
	return items;
}

static int cb_seek(void *priv, long off, int whence)
{
	struct cbsrc *c = (struct cbsrc *)priv;
	long np;
	if (c->seek_fails)
		return -1;
	switch (whence) {
	case SEEK_SET:
		np = off;
		break;
	case SEEK_CUR:
		np = c->pos + off;
		break;
	case SEEK_END:
		np = c->size + off;
		break;
	default:
		return -1;
	}
	if (np < 0 || np > c->size)
		return -1;
	c->pos = np;
	return 0;
}

static long cb_tell(void *priv)
{
	struct cbsrc *c = (struct cbsrc *)priv;
	if (c->tell_fails)
		return -1;
	return c->pos;
}

static int cb_close(void *priv)
{
	struct cbsrc *c = (struct cbsrc *)priv;
	c->closes++;
	return c->close_rc;
}

struct source {
	int entry;
	const char *path;
	unsigned char *data;
	long size;
	FILE *f;
	struct cbsrc cb;
	long cb_fail_from;
	int cb_fail_mode;
	int cb_close_rc;
};

static int parse_entry(const char *s)
{
	if (!strcmp(s, "path"))
		return E_PATH;
	if (!strcmp(s, "mem"))
		return E_MEM;
	if (!strcmp(s, "file"))
		return E_FILE;
	if (!strcmp(s, "cb"))
		return E_CB;
	fprintf(stderr, "bad entry %s\n", s);
	exit(2);
}

/* things that have to be prepared outside the fault window */
static int src_prepare(struct source *s)
{
	if (s->entry == E_FILE) {
		s->f = fopen(s->path, "rb");
		if (s->f == NULL)
			return -1;
	}
	if (s->entry == E_CB) {
		memset(&s->cb, 0, sizeof(s->cb));
		s->cb.data = s->data;
		s->cb.size = s->size;
		s->cb.fail_from = s->cb_fail_from;
		s->cb.fail_mode = s->cb_fail_mode;
		s->cb.close_rc = s->cb_close_rc;
	}
	return 0;
}

static int src_load(struct source *s, xmp_context ctx)
{
	struct xmp_callbacks cbs = { cb_read, cb_seek, cb_tell, cb_close };
	switch (s->entry) {
	case E_PATH:
		return xmp_load_module(ctx, s->path);
	case E_MEM:
		return xmp_load_module_from_memory(ctx, s->data, s->size);
	case E_FILE:
		return xmp_load_module_from_file(ctx, s->f, s->size);
	default:
		return xmp_load_module_from_callbacks(ctx, &s->cb, cbs);
	}
}

static int src_test(struct source *s, struct xmp_test_info *ti)
{
	struct xmp_callbacks cbs = { cb_read, cb_seek, cb_tell, cb_close };
	switch (s->entry) {
	case E_PATH:
		return xmp_test_module(s->path, ti);
	case E_MEM:
		return xmp_test_module_from_memory(s->data, s->size, ti);
	case E_FILE:
		return xmp_test_module_from_file(s->f, ti);
	default:
		return xmp_test_module_from_callbacks(&s->cb, cbs, ti);
	}
}

/* after the call: is the caller's FILE still open and usable; was the close
 * callback called exactly once.  Returns a bit mask of problems. */
static int src_check(struct source *s, char *buf, size_t n)
{
	int bad = 0;
	buf[0] = 0;
	if (s->entry == E_FILE) {
		int fd = fileno(s->f);
		int ok = fd >= 0 && fcntl(fd, F_GETFD) != -1 && !ferror(s->f) && ftell(s->f) >= 0 &&
			 fseek(s->f, 0, SEEK_SET) == 0;
		if (ok && s->size > 0) {
			int c = fgetc(s->f);
			ok = c == s->data[0];
		}
		snprintf(buf, n, "file=%s", ok ? "ok" : "BAD");
		if (!ok)
			bad |= 1;
	} else if (s->entry == E_CB) {
		snprintf(buf, n, "closes=%d", s->cb.closes);
		if (s->cb.closes != 1)
			bad |= 2;
	} else {
		snprintf(buf, n, "own=na");
	}
	return bad;
}

static void src_finish(struct source *s)
{
	if (s->entry == E_FILE && s->f != NULL) {
		fclose(s->f);
		s->f = NULL;
	}
}

/* ------------------------------------------------------------------ */
/* context-level ledger traces (correspondence with XmpModel.Resource) */
/* ------------------------------------------------------------------ */

#define CTX(c) ((struct context_data *)(c))

enum {
	K_MIXBUF, K_MIXBUF32, K_VOICE, K_PAULA, K_VIRTCH, K_FLOWLOOP, K_XCDATA, K_CHEXTRA,
	K_XXT, K_TRACK, K_XXP, K_PATTERN, K_XXI, K_SUB, K_INSEXTRA, K_XXS, K_SMPDATA, K_XTRA, K_MIDI,
	K_SCANCNT, K_SCANROW, K_SCAN, K_COMMENT, K_DIRNAME, K_BASENAME, K_MODEXTRA, K_MODEXTRA_TAB,
	K_MODEXTRA_ENT, K_SMIXXXI, K_SMIXXXS, K_SMIXSUB, K_SMIXDATA, K_OTHER, K_NKINDS
};
static const char *const kind_name[K_NKINDS] = {
	"mixBuffer", "mixBuf32", "voiceArray", "paula", "virtChannel", "flowLoop", "xcData", "chanExtra",
	"xxt", "track", "xxp", "pattern", "xxi", "sub", "insExtra", "xxs", "smpData", "xtra", "midi",
	"scanCnt", "scanRow", "scan", "comment", "dirname", "basename", "modExtra", "modExtraTab",
	"modExtraEnt", "smixXxi", "smixXxs", "smixSub", "smixData", "other"
};

/* snapshot: pointer -> kind (open-addressed map) */
#define SNAPMAX (1 << 17)
#define SNAPH (1 << 18)
static void *snap_p[SNAPMAX];
static unsigned char snap_k[SNAPMAX];
static unsigned char snap_seen[SNAPMAX];
static int snap_h[SNAPH];
static int snap_n;
static int snap_dup;

static void snap_clear(void)
{
	memset(snap_h, 0, sizeof(snap_h));
	snap_n = 0;
	snap_dup = 0;
}

static int snap_lookup(void *p)
{
	unsigned h = hptr(p) & (SNAPH - 1);
	while (snap_h[h] != 0) {
		if (snap_p[snap_h[h] - 1] == p)
			return snap_h[h] - 1;
		h = (h + 1) & (SNAPH - 1);
	}
	return -1;
}

static void snap_add(void *p, int kind)
{
	unsigned h;
	if (p == NULL || snap_n >= SNAPMAX)
		return;
	if (snap_lookup(p) >= 0) {
		snap_dup++;	/* the same block owned twice: release would free it twice */
		return;
	}
	snap_p[snap_n] = p;
	snap_k[snap_n] = (unsigned char)kind;
	snap_seen[snap_n] = 0;
	h = hptr(p) & (SNAPH - 1);
	while (snap_h[h] != 0)
		h = (h + 1) & (SNAPH - 1);
	snap_h[h] = ++snap_n;
}

static void snap_player(struct context_data *ctx)
{
	struct player_data *p = &ctx->p;
	int i;
	snap_add(ctx->s.buffer, K_MIXBUF);
	snap_add(ctx->s.buf32, K_MIXBUF32);
	snap_add(p->virt.voice_array, K_VOICE);
#ifdef LIBXMP_PAULA_SIMULATOR
	if (p->virt.voice_array != NULL)
		for (i = 0; i < p->virt.maxvoc; i++)
			snap_add(p->virt.voice_array[i].paula, K_PAULA);
#endif
	snap_add(p->virt.virt_channel, K_VIRTCH);
	snap_add(p->flow.loop, K_FLOWLOOP);
	snap_add(p->xc_data, K_XCDATA);
	if (p->xc_data != NULL)
		for (i = 0; i < p->virt.virt_channels; i++)
			snap_add(p->xc_data[i].extra, K_CHEXTRA);
}

/* number of elements the block really holds; a count field larger than that
 * means xmp_release_module will read past the block */
static int snap_overread;
static int cap(const void *p, size_t elem, int count, const char *what)
{
	size_t have = __sanitizer_get_allocated_size(p) / elem;
	if (count > 0 && (size_t)count > have) {
		printf("viol overread:%s count field %d exceeds the %lu elements of the table that xmp_release_module will walk\n",
		       what, count, (unsigned long)have);
		fflush(stdout);
		snap_overread++;
		return (int)have;
	}
	return count;
}

static void snap_module(struct context_data *ctx)
{
	struct module_data *m = &ctx->m;
	struct xmp_module *mod = &m->mod;
	int i, n;
	if (mod->xxt != NULL) {
		snap_add(mod->xxt, K_XXT);
		n = cap(mod->xxt, sizeof(mod->xxt[0]), mod->trk, "xxt");
		for (i = 0; i < n; i++)
			snap_add(mod->xxt[i], K_TRACK);
	}
	if (mod->xxp != NULL) {
		snap_add(mod->xxp, K_XXP);
		n = cap(mod->xxp, sizeof(mod->xxp[0]), mod->pat, "xxp");
		for (i = 0; i < n; i++)
			snap_add(mod->xxp[i], K_PATTERN);
	}
	if (mod->xxi != NULL) {
		snap_add(mod->xxi, K_XXI);
		n = cap(mod->xxi, sizeof(mod->xxi[0]), mod->ins, "xxi");
		for (i = 0; i < n; i++) {
			snap_add(mod->xxi[i].sub, K_SUB);
			snap_add(mod->xxi[i].extra, K_INSEXTRA);
		}
	}
	if (mod->xxs != NULL) {
		snap_add(mod->xxs, K_XXS);
		n = cap(mod->xxs, sizeof(mod->xxs[0]), mod->smp, "xxs");
		for (i = 0; i < n; i++)
			if (mod->xxs[i].data != NULL)
				snap_add(mod->xxs[i].data - 4, K_SMPDATA);
	}
	snap_add(m->xtra, K_XTRA);
	snap_add(m->midi, K_MIDI);
	if (m->scan_cnt != NULL) {
		snap_add(m->scan_cnt, K_SCANCNT);
		n = cap(m->scan_cnt, sizeof(m->scan_cnt[0]), mod->len, "scan_cnt");
		for (i = 0; i < n; i++)
			snap_add(m->scan_cnt[i], K_SCANROW);
	}
	snap_add(ctx->p.scan, K_SCAN);
	snap_add(m->comment, K_COMMENT);
	snap_add(m->dirname, K_DIRNAME);
	snap_add(m->basename, K_BASENAME);
	if (m->extra != NULL) {
		snap_add(m->extra, K_MODEXTRA);
		if (HAS_MED_MODULE_EXTRAS(*m)) {
			struct med_module_extras *me = (struct med_module_extras *)m->extra;
			if (me->vol_table != NULL) {
				snap_add(me->vol_table, K_MODEXTRA_TAB);
				n = cap(me->vol_table, sizeof(me->vol_table[0]), mod->ins, "med_vol_table");
				for (i = 0; i < n; i++)
					snap_add(me->vol_table[i], K_MODEXTRA_ENT);
			}
			if (me->wav_table != NULL) {
				snap_add(me->wav_table, K_MODEXTRA_TAB);
				n = cap(me->wav_table, sizeof(me->wav_table[0]), mod->ins, "med_wav_table");
				for (i = 0; i < n; i++)
					snap_add(me->wav_table[i], K_MODEXTRA_ENT);
			}
		}
	}
}

static void print_counts(const char *key, const int *cnt)
{
	int i, first = 1;
	printf(" %s=", key);
	for (i = 0; i < K_NKINDS; i++) {
		if (cnt[i] == 0)
			continue;
		printf("%s%s:%d", first ? "" : ",", kind_name[i], cnt[i]);
		first = 0;
	}
	if (first)
		printf("-");
}

/* classify the live blocks of one window generation against the snapshot */
static void classify_live(int gen, int *cnt)
{
	int i;
	memset(cnt, 0, sizeof(int) * K_NKINDS);
	for (i = 0; i < nrecs; i++) {
		int s;
		if (!recs[i].live || recs[i].gen != gen)
			continue;
		s = snap_lookup(recs[i].p);
		cnt[s < 0 ? K_OTHER : snap_k[s]]++;
	}
}

/* --- xmp_release_module spy: libxmp_release_module_extras is the first thing
 * xmp_release_module does after ending the player and setting the state. --- */

static struct context_data *rel_ctx;
static int rel_pending, rel_seq, rel_trace = 1;
static int rel_owned[K_NKINDS];
static int rel_state_at_entry;
static int rel_problems;

void __real_libxmp_release_module_extras(struct context_data *);
static void rel_evaluate(const char *tag, int ctx_alive);

void __wrap_libxmp_release_module_extras(struct context_data *ctx)
{
	int i;
	if (rel_pending)
		rel_evaluate("nested", 1);
	if (rel_trace) {
		rel_ctx = ctx;
		snap_clear();
		snap_module(ctx);
		memset(rel_owned, 0, sizeof(rel_owned));
		for (i = 0; i < snap_n; i++)
			rel_owned[snap_k[i]]++;
		rel_state_at_entry = ctx->state;
		nfreed = 0;
		freed_on = 1;
		rel_pending = 1;
	}
	__real_libxmp_release_module_extras(ctx);
}

/* called when the API call that contained the release has returned */
static void rel_evaluate(const char *tag, int ctx_alive)
{
	int freed[K_NKINDS], i, twice = 0, missed = 0, nonnull = 0, st = XMP_STATE_UNLOADED;
	struct module_data *m;
	struct xmp_module *mod;
	if (!rel_pending)
		return;
	rel_pending = 0;
	freed_on = 0;
	memset(freed, 0, sizeof(freed));
	for (i = 0; i < nfreed; i++) {
		int s = snap_lookup(freed_ptrs[i]);
		if (s < 0)
			continue;	/* not a module token (stream handles etc.) */
		if (snap_seen[s])
			twice++;
		snap_seen[s] = 1;
		freed[snap_k[s]]++;
	}
	for (i = 0; i < snap_n; i++)
		if (!snap_seen[i])
			missed++;
	if (ctx_alive) {
	m = &rel_ctx->m;
	mod = &m->mod;
	st = rel_ctx->state;
	nonnull = (mod->xxt != NULL) + (mod->xxp != NULL) + (mod->xxi != NULL) + (mod->xxs != NULL) +
		  (m->xtra != NULL) + (m->midi != NULL) + (m->scan_cnt != NULL) + (rel_ctx->p.scan != NULL) +
		  (m->comment != NULL) + (m->dirname != NULL) + (m->basename != NULL) + (m->extra != NULL);
	}
	printf("trace release seq=%d tag=%s", rel_seq++, tag);
	print_counts("owned", rel_owned);
	print_counts("freed", freed);
	printf(" twice=%d missed=%d dup=%d nonnull_after=%d state=%d\n", twice, missed, snap_dup, nonnull, st);
	if (twice || missed || snap_dup || nonnull || st != XMP_STATE_UNLOADED) {
		rel_problems++;
		printf("viol release:incomplete xmp_release_module: twice=%d missed=%d dup=%d nonnull_after=%d state=%d\n",
		       twice, missed, snap_dup, nonnull, st);
	}
}


/* ------------------------------------------------------------------ */
/* reference modules: what a refused load must not disturb             */
/* ------------------------------------------------------------------ */

/* After a refused (or faulted) load the same context loads a REFERENCE module of another format (C04_REF, C04_REF2:
 * paths from the environment) and must then hold and render exactly what a fresh context holds and renders: module
 * digest, the per-module playback parameters a loader may install (volume table, c4rate, quirks, flow / event / period
 * modes, volume bases, timing, MIDI macros, format extras, comment), return codes and the PCM of the first frames. */
#define NREF 2
static unsigned char *ref_data[NREF];
static long ref_size[NREF];
static uint64_t ref_dig[NREF];
static int ref_have[NREF], ref_ready;
static long ref_checks;

static uint64_t ref_state_digest(xmp_context ctx)
{
	struct context_data *c = CTX(ctx);
	struct module_data *m = &c->m;
	struct xmp_frame_info fi;
	uint64_t h = module_digest(ctx), pd = 0;
	int v[16], i, rc;
	const void *vt = m->vol_table;
	v[0] = m->c4rate; v[1] = m->quirk; v[2] = m->flow_mode; v[3] = m->read_event_type; v[4] = m->period_type;
	v[5] = m->volbase; v[6] = m->gvol; v[7] = m->gvolbase; v[8] = m->mvol; v[9] = m->mvolbase;
	v[10] = m->compare_vblank; v[11] = m->midi != NULL; v[12] = m->extra != NULL; v[13] = m->comment != NULL;
	v[14] = c->p.flags; v[15] = c->p.mode;
	h = fnv1a(h, v, sizeof(v));
	h = fnv1a(h, &vt, sizeof(vt));		/* points into the library's constant tables or is NULL */
	h = fnv1a(h, &m->rrate, sizeof(m->rrate));
	h = fnv1a(h, &m->time_factor, sizeof(m->time_factor));
	libxmp_set_random(&c->rng, 20260930u);
	rc = xmp_start_player(ctx, 22050, 0);
	h = fnv1a(h, &rc, sizeof(rc));
	if (rc == 0) {
		for (i = 0; i < 5; i++) {
			if (xmp_play_frame(ctx) < 0)
				break;
			xmp_get_frame_info(ctx, &fi);
			pd = fnv1a(pd ? pd : FNV_INIT, fi.buffer, fi.buffer_size);
			h = fnv1a(h, &fi.pos, sizeof(int) * 8);	/* pos pattern row num_rows frame speed bpm time */
		}
		xmp_end_player(ctx);
	}
	return fnv1a(h, &pd, sizeof(pd));
}

static void ref_setup(void)
{
	static const char *const names[NREF] = { "C04_REF", "C04_REF2" };
	int i;
	ref_ready = 1;
	for (i = 0; i < NREF; i++) {
		const char *p = getenv(names[i]);
		xmp_context ctx;
		if (p == NULL || (ref_data[i] = read_file(p, &ref_size[i])) == NULL)
			continue;
		ctx = xmp_create_context();
		if (xmp_load_module_from_memory(ctx, ref_data[i], ref_size[i]) == 0) {
			rel_evaluate("ref", 1);
			ref_dig[i] = ref_state_digest(ctx);
			ref_have[i] = 1;
		}
		xmp_free_context(ctx);
		rel_evaluate("free", 0);
	}
}

/* returns the number of violations */
static int ref_check(xmp_context ctx, const struct source *src, int rc_first)
{
	int i, viol = 0;
	if (!ref_ready)
		ref_setup();
	for (i = 0; i < NREF; i++) {
		int rc;
		uint64_t d;
		if (!ref_have[i])
			continue;
		if (src->size == ref_size[i] && memcmp(src->data, ref_data[i], ref_size[i]) == 0)
			continue;	/* the reference itself is under test */
		xmp_release_module(ctx);		/* (the reload of the same source may have succeeded) */
		rel_evaluate("prerelease", 1);
		rc = xmp_load_module_from_memory(ctx, ref_data[i], ref_size[i]);
		rel_evaluate("refload", 1);
		ref_checks++;
		d = rc == 0 ? ref_state_digest(ctx) : 0;
		if (rc != 0 || d != ref_dig[i]) {
			printf("viol reuse:other_module after the refused load (rc=%d) reference module %d loaded into the same context "
			       "%s (rc=%d digest %016llx, fresh context %016llx): residue of the refused module\n", rc_first, i,
			       rc != 0 ? "does not load" : "holds or renders something else than in a fresh context", rc,
			       (unsigned long long)d, (unsigned long long)ref_dig[i]);
			viol++;
		}
	}
	return viol;
}

/* ------------------------------------------------------------------ */
/* the faulted operations                                              */
/* ------------------------------------------------------------------ */

enum { OP_LOAD, OP_TEST, OP_START, OP_RESTART, OP_SMIXLOAD, OP_SMIXSTART, OP_STARTSMIX };

struct base {
	int rc, n;		/* return code and allocator calls of the unfaulted operation */
	uint64_t mdig, pdig;	/* module digest, PCM digest of the normal load+play */
	int play_rc;
	int amiga, extras, maxvoc, virtch;
};

static struct base base;
static const char *g_wav;
static int g_fcloses;		/* fclose calls inside the window of the last run_case */
static int g_doubles, g_caller_closed;

static void print_start_trace(struct context_data *ctx, int k, int rc, int gen, int prev_playing)
{
	int cnt[K_NKINDS];
	snap_clear();
	snap_player(ctx);
	classify_live(gen, cnt);
	printf("trace start amiga=%d extras=%d maxvoc=%d virtch=%d playing=%d k=%d rc=%s state=%d nalloc=%d", base.amiga,
	       base.extras, base.maxvoc, base.virtch, prev_playing, k, rc < 0 ? "neg" : "0", ctx->state, win_count);
	print_counts("live", cnt);
	printf("\n");
}

/* member-level trace of a failed start: complete image before, changed members after */
static void print_fail_image(struct context_data *c, const struct c06_image *pre, const char *opname, int k, int rate, int fmt)
{
	struct c06_image post;
	struct xmp_module *mod = &c->m.mod;
	int i, kk;
	c06_image_take(c, &post);
	printf("fcase %s-k%d %d %d %d %d %d %d %d\n", opname, k, base.amiga, base.extras, base.maxvoc, base.virtch, k, rate, fmt);
	c06_print_image(stdout, "pre", pre);
	printf("ext patrows");
	for (i = 0; i < mod->pat && i < 257; i++)
		printf(" %d", (mod->xxp && mod->xxp[i]) ? mod->xxp[i]->rows : 0);
	printf("\n");
	printf("ext scan0num %d\n", c->p.scan ? c->p.scan[0].num : 0);
	for (i = 0; i < pre->n && i < post.n; i++) {
		const struct c06_ent *x = &pre->e[i], *y = &post.e[i];
		int diff = 0;
		for (kk = 0; kk < x->n && kk < y->n; kk++)
			if (x->v[kk] != y->v[kk] && !(x->leaf->kind == K_PTR && kk > 0))
				diff = 1;
		if (diff)
			c06_print_ent(stdout, "post", y);
	}
	printf("fend\n");
	c06_image_free(&post);
}

/* one run of <op> with allocation k failing (k < 0: no fault).  Returns the
 * number of property violations seen.  If isbase, fills `base`. */
static int run_case(int op, struct source *src, int k, int isbase)
{
	xmp_context ctx;
	struct context_data *c;
	struct xmp_test_info ti;
	char own[64], tag[64];
	int rc = 0, fired, state, fd0, fd1, tmp0, tmp1, residue = 0, leaks, viol = 0, ownbad = 0;
	int gen, expect_state, reuse_ok = 1, n, prc = 0, rc2 = 0;
	uint64_t md = 0, pd = 0;
	struct c06_image pre_img;
	int have_pre = 0;
	const char *opname = op == OP_LOAD ? "load" : op == OP_TEST ? "test" : op == OP_SMIXLOAD ? "smixload" :
			     op == OP_SMIXSTART ? "smixstart" : "start";

	track_reset();
	snprintf(tag, sizeof(tag), "k=%d", k);
	fd0 = count_fds();
	tmp0 = count_tmp();
	ctx = xmp_create_context();
	c = CTX(ctx);
	if (src_prepare(src) < 0) {
		printf("skip cannot open %s\n", src->path);
		xmp_free_context(ctx);
		return 0;
	}
	own[0] = 0;
	memset(&ti, 0, sizeof(ti));

	switch (op) {
	case OP_LOAD:
		win_begin(k);
		rc = src_load(src, ctx);
		win_end();
		expect_state = XMP_STATE_UNLOADED;
		break;
	case OP_TEST:
		win_begin(k);
		rc = src_test(src, &ti);
		win_end();
		expect_state = XMP_STATE_UNLOADED;
		break;
	case OP_START:
	case OP_RESTART:
	case OP_STARTSMIX:
		rc = src_load(src, ctx);
		rel_evaluate("preload", 1);
		if (rc < 0) {
			printf("skip module does not load rc=%d\n", rc);
			src_finish(src);
			xmp_free_context(ctx);
			rel_evaluate("free", 0);
			return 0;
		}
		if (op == OP_RESTART) {
			xmp_start_player(ctx, 22050, 0);
			xmp_play_frame(ctx);
		}
		if (op == OP_STARTSMIX && xmp_start_smix(ctx, 2, 1) < 0) {
			printf("skip smix setup failed\n");
			src_finish(src);
			xmp_free_context(ctx);
			rel_evaluate("free", 0);
			return 0;
		}
		if (!isbase) {
			c06_image_take(c, &pre_img);
			have_pre = 1;
		}
		win_begin(k);
		rc = xmp_start_player(ctx, 22050, 0);
		win_end();
		expect_state = XMP_STATE_LOADED;
		break;
	case OP_SMIXSTART:
		win_begin(k);
		rc = xmp_start_smix(ctx, 2, 3);
		win_end();
		expect_state = XMP_STATE_UNLOADED;
		break;
	default: /* OP_SMIXLOAD */
		rc = src_load(src, ctx);
		rel_evaluate("preload", 1);
		if (rc < 0 || xmp_start_smix(ctx, 1, 2) < 0) {
			printf("skip smix setup failed\n");
			src_finish(src);
			xmp_free_context(ctx);
			rel_evaluate("free", 0);
			return 0;
		}
		win_begin(k);
		rc = xmp_smix_load_sample(ctx, 0, g_wav);
		win_end();
		expect_state = XMP_STATE_LOADED;
		break;
	}
	gen = win_gen;
	n = win_count;
	fired = win_fired;
	g_fcloses = fc_count;
	g_doubles = fc_double;
	g_caller_closed = 0;
	if (src->entry == E_FILE && src->f != NULL) {
		int q;
		for (q = 0; q < nclosed; q++)
			g_caller_closed += closed_files[q] == src->f;
	}
	if (fc_fail_at >= 0)
		fired = fc_fired;
	rel_evaluate(rc < 0 ? "fail" : "ok", 1);
	viol += rel_problems;
	rel_problems = 0;
	state = xmp_get_player(ctx, XMP_PLAYER_STATE);

	if (op == OP_START || op == OP_RESTART || op == OP_STARTSMIX) {
		if (isbase && rc == 0) {
			base.amiga = 0;
#ifdef LIBXMP_PAULA_SIMULATOR
			base.amiga = c->p.virt.maxvoc > 0 && c->p.virt.voice_array[0].paula != NULL;
#endif
			base.extras = c->p.virt.virt_channels > 0 && c->p.xc_data[0].extra != NULL;
			base.maxvoc = c->p.virt.maxvoc;
			base.virtch = c->p.virt.virt_channels;
		}
		print_start_trace(c, k, rc, gen, op == OP_RESTART);
		if (have_pre && rc < 0 && fired)
			print_fail_image(c, &pre_img, op == OP_RESTART ? "restart" : op == OP_STARTSMIX ? "startsmix" : "start", k,
					 22050, 0);
		if (rc < 0) {
			/* the members that are NULL / 0 whenever a context is not playing (C06's idle invariant) */
			struct xmp_frame_info fi;
			struct player_data *p = &c->p;
			xmp_get_frame_info(ctx, &fi);
			if (p->virt.virt_channels || p->virt.virt_used || p->virt.maxvoc || p->virt.num_tracks) {
				printf("viol residue:virt_counts after the failed xmp_start_player (rc=%d, state %d) virt_channels=%d "
				       "maxvoc=%d num_tracks=%d virt_used=%d with voice_array=%s; xmp_get_frame_info reports virt_channels=%d\n",
				       rc, c->state, p->virt.virt_channels, p->virt.maxvoc, p->virt.num_tracks, p->virt.virt_used,
				       p->virt.voice_array ? "set" : "NULL", fi.virt_channels);
				viol++;
			}
			if (p->xc_data || c->s.buffer || c->s.buf32 || p->virt.voice_array || p->virt.virt_channel || p->flow.loop) {
				printf("viol residue:player_pointers after the failed xmp_start_player (rc=%d) a player pointer is not NULL "
				       "(xc_data=%d buffer=%d buf32=%d voice_array=%d virt_channel=%d flow.loop=%d)\n", rc, p->xc_data != NULL,
				       c->s.buffer != NULL, c->s.buf32 != NULL, p->virt.voice_array != NULL, p->virt.virt_channel != NULL,
				       p->flow.loop != NULL);
				viol++;
			}
		}
	}
	if (have_pre)
		c06_image_free(&pre_img);
	if (op == OP_START && !isbase && rc < 0 && fired && base.n > 0) {
		/* a second faulted start on the residue of the first (reuse theorem C04_reusable_start) */
		int k2 = (k * 5 + 1) % base.n, rcs, cnt[K_NKINDS], g2;
		win_begin(k2);
		rcs = xmp_start_player(ctx, 22050, 0);
		win_end();
		g2 = win_gen;
		snap_clear();
		snap_player(c);
		classify_live(g2, cnt);
		printf("trace start2 amiga=%d extras=%d maxvoc=%d virtch=%d k=%d k2=%d rc=%s state=%d nalloc=%d", base.amiga,
		       base.extras, base.maxvoc, base.virtch, k, k2, rcs < 0 ? "neg" : "0", c->state, win_count);
		print_counts("live", cnt);
		printf("\n");
		if (rcs < 0 && live_in_gen(g2) > 0) {
			report_live("residue", g2, tag);
			viol++;
		}
		if (rcs < 0 && c->state != XMP_STATE_LOADED) {
			printf("viol state:start after a second failed start (rc=%d) the state is %d\n", rcs, c->state);
			viol++;
		}
		if (rcs == 0)
			xmp_end_player(ctx);
	}

	/* ---- the property, evaluated on what the real code just did ---- */
	if (rc < 0) {
		if (state != expect_state) {
			printf("viol state:%s after a failed call (rc=%d) the state is %d, expected %d\n", opname, rc, state,
			       expect_state);
			viol++;
		}
		residue = live_in_gen(gen);
		if (residue > 0) {
			report_live("residue", gen, tag);
			viol++;
		}
	} else if (rc > 0) {
		printf("viol rc:positive:%s the call returned %d\n", opname, rc);
		viol++;
	}
	if (op == OP_TEST && rc >= 0 && live_in_gen(gen) > 0) {
		residue = live_in_gen(gen);
		report_live("residue", gen, tag);
		viol++;
	}
	if (op == OP_LOAD || op == OP_TEST) {
		ownbad = src_check(src, own, sizeof(own));
		if (ownbad & 1) {
			printf("viol own:file the caller's FILE is not usable after the call (rc=%d)\n", rc);
			viol++;
		}
		if (ownbad & 2) {
			printf("viol own:close_callback close callback called %d times (rc=%d)\n", src->cb.closes, rc);
			viol++;
		}
	}
	if (fc_double > 0) {
		printf("viol own:double_fclose the library called fclose %d more time(s) on a FILE it had already closed "
		       "(fclose #%d reported failure, rc=%d)\n", fc_double, fc_fail_at, rc);
		viol++;
	}
	if (op == OP_TEST && rc == 0)
		md = fnv1a(fnv1a(FNV_INIT, ti.name, strlen(ti.name)), ti.type, strlen(ti.type));

	/* ---- the same context must now work normally ---- */
	if (op == OP_LOAD) {
		rc2 = rc;
		if (rc < 0) {
			/* load the same source again, unfaulted, on the same context */
			long reads = src->cb.reads;
			src_finish(src);
			src->cb_fail_from = -1;
			src_prepare(src);
			rc2 = src_load(src, ctx);
			rel_evaluate("reload", 1);
			src->cb.reads = reads;
		}
		if (rc2 == 0) {
			md = module_digest(ctx);
			prc = play_digest(ctx, &pd);
		}
		if (isbase) {
			base.mdig = md;
			base.pdig = pd;
			base.play_rc = prc;
		} else if (rc < 0 && base.rc == 0) {
			if (rc2 != 0 || prc != base.play_rc || md != base.mdig || pd != base.pdig)
				reuse_ok = 0;
		} else if (rc < 0 && base.rc < 0) {
			if (rc2 >= 0)
				reuse_ok = 0;
		}
		if (!reuse_ok) {
			printf("viol reuse:load after a failed load (rc=%d) the same context loads/plays differently "
			       "(rc2=%d prc=%d mdig=%016llx base=%016llx)\n", rc, rc2, prc, (unsigned long long)md,
			       (unsigned long long)base.mdig);
			viol++;
		}
		if (rc < 0 || fired)
			viol += ref_check(ctx, src, rc);
	} else if (op == OP_START || op == OP_RESTART || op == OP_STARTSMIX || op == OP_SMIXLOAD) {
		if (rc == 0 && op != OP_SMIXLOAD)
			xmp_end_player(ctx);
		md = module_digest(ctx);
		prc = play_digest(ctx, &pd);
		if (isbase) {
			base.mdig = md;
			base.pdig = pd;
			base.play_rc = prc;
		} else if (prc != base.play_rc || md != base.mdig || (rc < 0 && pd != base.pdig)) {
			printf("viol reuse:%s after a failed call (rc=%d) the same context plays differently (prc=%d)\n", opname,
			       rc, prc);
			viol++;
			reuse_ok = 0;
		}
	}

	if (op == OP_SMIXLOAD || op == OP_SMIXSTART || op == OP_STARTSMIX)
		xmp_end_smix(ctx);
	xmp_free_context(ctx);
	rel_evaluate("free", 0);
	viol += rel_problems;
	rel_problems = 0;
	src_finish(src);

	leaks = live_in_gen(-1);
	if (leaks > 0) {
		report_live("leak", -1, tag);
		viol++;
	}
	fd1 = count_fds();
	tmp1 = count_tmp();
	if (fd1 != fd0) {
		printf("viol fd:%s:%s descriptors before=%d after=%d\n", opname, rc < 0 ? "fail" : "ok", fd0, fd1);
		viol++;
	}
	if (tmp1 != tmp0) {
		printf("viol tmp:%s:%s temp dir entries before=%d after=%d\n", opname, rc < 0 ? "fail" : "ok", tmp0, tmp1);
		viol++;
	}
	if (overflow) {
		printf("skip tracker overflow\n");
		overflow = 0;
	}
	if (isbase) {
		base.rc = rc;
		base.n = n;
	}
	if (viol > 0)
		print_fault();
	printf("%s op=%s k=%d n=%d fired=%d rc=%d state=%d residue=%d leaks=%d fd=%d/%d tmp=%d/%d %s reuse=%d mdig=%016llx pdig=%016llx viol=%d\n",
	       isbase ? "base" : "k", opname, k, n, fired, rc, state, residue, leaks, fd0, fd1, tmp0, tmp1,
	       own[0] ? own : "own=na", reuse_ok, (unsigned long long)md, (unsigned long long)pd, viol);
	fflush(stdout);
	return viol;
}

/* ------------------------------------------------------------------ */
/* sound-effect mixer calls (smix.c): fault enumeration + ledger trace */
/* ------------------------------------------------------------------ */

enum { SC_START, SC_RESTART, SC_LOAD, SC_RELOAD, SC_LOADHDR, SC_LOADSHORT, SC_LOADRANGE, SC_STARTINVAL, SC_END,
       SC_STARTPLAYING, SC_ENDPLAYING, SC_N };
static const char *const sc_name[SC_N] = { "start", "restart", "load", "reload", "loadhdr", "loadshort", "loadrange",
					    "startinval", "end", "startplaying", "endplaying" };
static const char *sm_good, *sm_trunc, *sm_garbage;
static void src_init(struct source *s, int entry, const char *path);

static void snap_smix(struct context_data *ctx)
{
	struct smix_data *sx = &ctx->smix;
	int i;
	snap_add(sx->xxi, K_SMIXXXI);
	snap_add(sx->xxs, K_SMIXXXS);
	if (sx->xxi != NULL)
		for (i = 0; i < sx->ins; i++)
			snap_add(sx->xxi[i].sub, K_SMIXSUB);
	if (sx->xxs != NULL)
		for (i = 0; i < sx->smp; i++)
			if (sx->xxs[i].data != NULL)
				snap_add(sx->xxs[i].data - 4, K_SMIXDATA);
}

/* what has to be there before the faulted call; returns < 0 if it cannot be set up */
static int smix_prelude(xmp_context ctx, int scn)
{
	switch (scn) {
	case SC_START:
	case SC_STARTINVAL:
		return 0;
	case SC_RESTART:
	case SC_RELOAD:
	case SC_END:
		if (xmp_start_smix(ctx, 1, 2) < 0)
			return -1;
		return xmp_smix_load_sample(ctx, 0, sm_good);
	case SC_STARTPLAYING:
	case SC_ENDPLAYING:
		if (xmp_start_smix(ctx, 1, 2) < 0 || xmp_smix_load_sample(ctx, 0, sm_good) < 0)
			return -1;
		return xmp_start_player(ctx, 22050, 0);
	default:
		return xmp_start_smix(ctx, 1, 2);
	}
}

static int smix_op(xmp_context ctx, int scn)
{
	switch (scn) {
	case SC_START:
	case SC_RESTART:
	case SC_STARTPLAYING:
		return xmp_start_smix(ctx, 2, 3);
	case SC_STARTINVAL:
		return xmp_start_smix(ctx, XMP_MAX_CHANNELS + 1, 3);
	case SC_LOAD:
	case SC_RELOAD:
		return xmp_smix_load_sample(ctx, 0, sm_good);
	case SC_LOADHDR:
		return xmp_smix_load_sample(ctx, 0, sm_garbage);
	case SC_LOADSHORT:
		return xmp_smix_load_sample(ctx, 0, sm_trunc);
	case SC_LOADRANGE:
		return xmp_smix_load_sample(ctx, 5, sm_good);
	default:
		xmp_end_smix(ctx);
		return 0;
	}
}

/* start, trigger the external sample of slot 0 if there is one, play, digest */
static int smix_play_digest(xmp_context ctx, uint64_t *out)
{
	struct context_data *c = CTX(ctx);
	struct xmp_frame_info fi;
	uint64_t h = FNV_INIT;
	int i, rc, was_playing = c->state == XMP_STATE_PLAYING;
	libxmp_set_random(&c->rng, 20260930u);
	if (!was_playing) {
		rc = xmp_start_player(ctx, 22050, 0);
		if (rc < 0)
			return rc;
	}
	if (c->smix.ins > 0 && c->smix.chn > 0 && c->smix.xxi != NULL && c->smix.xxi[0].sub != NULL)
		xmp_smix_play_sample(ctx, 0, 60, 64, 0);
	for (i = 0; i < 4; i++) {
		rc = xmp_play_frame(ctx);
		if (rc < 0)
			break;
		xmp_get_frame_info(ctx, &fi);
		h = fnv1a(h, &fi.buffer_size, sizeof(int));
		h = fnv1a(h, fi.buffer, fi.buffer_size);
	}
	h = fnv1a(h, &c->smix.chn, sizeof(int) * 3);	/* chn ins smp */
	xmp_end_player(ctx);
	*out = h;
	return 0;
}

/* digest of a fresh context brought to the state the scenario should be in: after the prelude only (the
 * call failed; for `restart` the old tables are gone: no smix at all), or after prelude + unfaulted call */
static int smix_reference(struct source *src, int scn, int after_ok, uint64_t *out)
{
	xmp_context ctx = xmp_create_context();
	int rc = src_load(src, ctx);
	rel_evaluate("ref", 1);
	if (rc == 0 && !(scn == SC_RESTART && !after_ok))
		rc = smix_prelude(ctx, scn);
	if (rc == 0 && after_ok)
		rc = smix_op(ctx, scn) < 0 ? -1 : 0;
	if (rc == 0)
		rc = smix_play_digest(ctx, out);
	xmp_end_player(ctx);
	xmp_end_smix(ctx);
	xmp_free_context(ctx);
	rel_evaluate("free", 0);
	return rc;
}

struct smix_base {
	int rc, n;
	uint64_t dig_fail, dig_ok;
	int have_fail, have_ok;
};
static struct smix_base sbase;

static int run_smix_case(int scn, struct source *src, int k, int isbase)
{
	xmp_context ctx;
	struct context_data *c;
	struct smix_data before, after;
	struct xmp_instrument *xxi_copy = NULL;
	struct xmp_sample *xxs_copy = NULL;
	int rc, fired, n, g0, g1, viol = 0, residue = 0, leaks, fd0, fd1, fdb, fda, lost = 0, i, subs = 0, datas = 0;
	int cnt[K_NKINDS], reuse_ok = 1, prc, tmp0, tmp1, atomic_expected;
	uint64_t pd = 0;
	char tag[64];

	track_reset();
	snprintf(tag, sizeof(tag), "k=%d", k);
	fd0 = count_fds();
	tmp0 = count_tmp();
	ctx = xmp_create_context();
	c = CTX(ctx);
	src_prepare(src);
	if (src_load(src, ctx) < 0) {
		printf("skip module does not load\n");
		xmp_free_context(ctx);
		rel_evaluate("free", 0);
		return 0;
	}
	rel_evaluate("preload", 1);
	win_begin(-1);
	rc = smix_prelude(ctx, scn);
	win_end();
	g0 = win_gen;
	if (rc < 0) {
		printf("skip smix setup failed\n");
		xmp_end_player(ctx);
		xmp_end_smix(ctx);
		xmp_free_context(ctx);
		rel_evaluate("free", 0);
		return 0;
	}
	before = c->smix;
	if (before.xxi != NULL && before.ins > 0) {
		xxi_copy = (struct xmp_instrument *)__real_malloc(sizeof(*xxi_copy) * before.ins);
		memcpy(xxi_copy, before.xxi, sizeof(*xxi_copy) * before.ins);
	}
	if (before.xxs != NULL && before.smp > 0) {
		xxs_copy = (struct xmp_sample *)__real_malloc(sizeof(*xxs_copy) * before.smp);
		memcpy(xxs_copy, before.xxs, sizeof(*xxs_copy) * before.smp);
	}
	fdb = count_fds();

	win_begin(k);
	rc = smix_op(ctx, scn);
	win_end();
	g1 = win_gen;
	n = win_count;
	fired = win_fired;
	fda = count_fds();
	after = c->smix;

	/* ---- ledger trace (compared with Xmp.Resource.startSmix / smixLoadSample / endSmix) ---- */
	snap_clear();
	snap_smix(c);
	snap_player(c);
	memset(cnt, 0, sizeof(cnt));
	for (i = 0; i < nrecs; i++) {
		int sidx;
		if (!recs[i].live || (recs[i].gen != g0 && recs[i].gen != g1))
			continue;
		sidx = snap_lookup(recs[i].p);
		if (sidx < 0)
			lost++;
		else if (snap_k[sidx] > K_CHEXTRA)	/* the player blocks of the `…playing` preludes are not smix's */
			cnt[snap_k[sidx]]++;
	}
	if (after.xxi != NULL)
		for (i = 0; i < after.ins; i++)
			subs += after.xxi[i].sub != NULL;
	if (after.xxs != NULL)
		for (i = 0; i < after.smp; i++)
			datas += after.xxs[i].data != NULL;
	printf("trace smix scn=%s k=%d rc=%s nalloc=%d xxi=%d xxs=%d chn=%d ins=%d subs=%d datas=%d", sc_name[scn], k,
	       rc < 0 ? "neg" : "0", n, after.xxi != NULL, after.xxs != NULL, after.chn, after.ins, subs, datas);
	print_counts("live", cnt);
	printf(" lost=%d fds=%d\n", lost, fda - fdb);

	/* ---- the property on what the real code just did ---- */
	atomic_expected = rc < 0;
	if (atomic_expected) {
		int same;
		if (scn == SC_RESTART && !(after.xxi == before.xxi && after.xxs == before.xxs)) {
			/* the old tables were released first: the valid earlier state is "smix not started" */
			same = after.xxi == NULL && after.xxs == NULL && after.chn == 0 && after.ins == 0 && after.smp == 0;
		} else {
			same = memcmp(&before, &after, sizeof(before)) == 0;
			if (same && xxi_copy != NULL)
				same = memcmp(xxi_copy, after.xxi, sizeof(*xxi_copy) * before.ins) == 0;
			if (same && xxs_copy != NULL)
				same = memcmp(xxs_copy, after.xxs, sizeof(*xxs_copy) * before.smp) == 0;
		}
		if (!same) {
			printf("viol residue:smix:%s after the failed call (rc=%d) struct smix_data or a slot differs from what it "
			       "was (xxi %d->%d xxs %d->%d chn %d->%d ins %d->%d)\n", sc_name[scn], rc, before.xxi != NULL,
			       after.xxi != NULL, before.xxs != NULL, after.xxs != NULL, before.chn, after.chn, before.ins, after.ins);
			viol++;
		}
		residue = live_in_gen(g1);
		if (residue > 0) {
			report_live("residue", g1, tag);
			viol++;
		}
	} else if (rc > 0) {
		printf("viol rc:positive:smix the call returned %d\n", rc);
		viol++;
	}
	if (lost > 0) {
		if (scn == SC_RELOAD && rc == 0)
			printf("viol leak:smix:occupied_slot xmp_smix_load_sample into a loaded slot leaves %d blocks unreferenced\n", lost);
		else
			printf("viol leak:smix:%s %d blocks allocated by the smix calls are live but referenced by nothing\n",
			       sc_name[scn], lost);
		viol++;
	}
	if (fda != fdb) {
		printf("viol fd:smix:%s descriptors before=%d after=%d\n", sc_name[scn], fdb, fda);
		viol++;
	}
	if (c->state != (scn == SC_STARTPLAYING || scn == SC_ENDPLAYING ? XMP_STATE_PLAYING : XMP_STATE_LOADED)) {
		printf("viol state:smix the state changed to %d\n", c->state);
		viol++;
	}
	__real_free(xxi_copy);
	__real_free(xxs_copy);

	/* ---- the same context must behave like a fresh one brought to the same smix state ---- */
	prc = smix_play_digest(ctx, &pd);
	if (isbase) {
		sbase.have_ok = rc >= 0 && smix_reference(src, scn, 1, &sbase.dig_ok) == 0;
		sbase.have_fail = smix_reference(src, scn, 0, &sbase.dig_fail) == 0;
	}
	if (prc < 0) {
		printf("viol reuse:smix:%s the player does not start after the call (rc=%d prc=%d)\n", sc_name[scn], rc, prc);
		viol++;
		reuse_ok = 0;
	} else if (scn != SC_STARTPLAYING && scn != SC_ENDPLAYING) {
		int have = rc < 0 ? sbase.have_fail : sbase.have_ok;
		uint64_t want = rc < 0 ? sbase.dig_fail : sbase.dig_ok;
		if (have && pd != want) {
			printf("viol reuse:smix:%s after the %s call (rc=%d) the context plays differently from a fresh one in the "
			       "same smix state\n", sc_name[scn], rc < 0 ? "failed" : "successful", rc);
			viol++;
			reuse_ok = 0;
		}
	}

	xmp_end_player(ctx);
	xmp_end_smix(ctx);
	xmp_free_context(ctx);
	rel_evaluate("free", 0);
	viol += rel_problems;
	rel_problems = 0;
	src_finish(src);
	leaks = live_in_gen(-1);
	if (leaks > 0) {
		report_live("leak", -1, tag);
		viol++;
	}
	fd1 = count_fds();
	tmp1 = count_tmp();
	if (fd1 != fd0) {
		printf("viol fd:smix:%s descriptors before=%d after=%d\n", sc_name[scn], fd0, fd1);
		viol++;
	}
	if (isbase) {
		sbase.rc = rc;
		sbase.n = n;
	}
	if (viol > 0)
		print_fault();
	printf("%s op=smix-%s k=%d n=%d fired=%d rc=%d state=%d residue=%d leaks=%d fd=%d/%d tmp=%d/%d own=na reuse=%d mdig=%016llx pdig=%016llx viol=%d\n",
	       isbase ? "base" : "k", sc_name[scn], k, n, fired, rc, c != NULL ? XMP_STATE_LOADED : 0, residue, leaks, fd0, fd1,
	       tmp0, tmp1, reuse_ok, 0ULL, (unsigned long long)pd, viol);
	fflush(stdout);
	return viol;
}

/* c04_faults smixfaults <scenario> mem <module> <kfrom> <kto> <stride> <good.wav> <trunc.wav> <garbage> */
static int cmd_smixfaults(int argc, char **argv)
{
	struct source src;
	int scn, kfrom, kto, stride, k;
	if (argc < 11)
		return 2;
	for (scn = 0; scn < SC_N; scn++)
		if (!strcmp(argv[2], sc_name[scn]))
			break;
	if (scn == SC_N)
		return 2;
	src_init(&src, E_MEM, argv[4]);
	kfrom = atoi(argv[5]);
	kto = atoi(argv[6]);
	stride = atoi(argv[7]);
	if (stride < 1)
		stride = 1;
	sm_good = argv[8];
	sm_trunc = argv[9];
	sm_garbage = argv[10];
	printf("begin op=smix-%s entry=mem file=%s\n", argv[2], argv[4]);
	run_smix_case(scn, &src, -1, 1);
	printf("stride s=%d n=%d\n", stride, sbase.n);
	if (kfrom >= 0) {
		if (kto < 0 || kto > sbase.n - 1)
			kto = sbase.n - 1;
		for (k = kfrom; k <= kto; k += stride)
			run_smix_case(scn, &src, k, 0);
	}
	printf("end\n");
	free(src.data);
	return 0;
}

static int parse_op(const char *s)
{
	if (!strcmp(s, "load"))
		return OP_LOAD;
	if (!strcmp(s, "test"))
		return OP_TEST;
	if (!strcmp(s, "start"))
		return OP_START;
	if (!strcmp(s, "restart"))
		return OP_RESTART;
	if (!strcmp(s, "startsmix"))
		return OP_STARTSMIX;
	if (!strcmp(s, "smixload"))
		return OP_SMIXLOAD;
	if (!strcmp(s, "smixstart"))
		return OP_SMIXSTART;
	fprintf(stderr, "bad op %s\n", s);
	exit(2);
}

static void src_init(struct source *s, int entry, const char *path)
{
	memset(s, 0, sizeof(*s));
	s->entry = entry;
	s->path = path;
	s->cb_fail_from = -1;
	s->data = read_file(path, &s->size);
	if (s->data == NULL) {
		printf("skip cannot read %s\n", path);
		exit(0);
	}
}

static int cmd_faults(int argc, char **argv)
{
	struct source src;
	int op, kfrom, kto, stride, k;
	if (argc < 8)
		return 2;
	op = parse_op(argv[2]);
	src_init(&src, parse_entry(argv[3]), argv[4]);
	kfrom = atoi(argv[5]);
	kto = atoi(argv[6]);
	stride = atoi(argv[7]);
	if (argc > 8)
		g_nframes = atoi(argv[8]);
	if (argc > 9)
		g_wav = argv[9];
	printf("begin op=%s entry=%s file=%s\n", argv[2], argv[3], argv[4]);
	run_case(op, &src, -1, 1);
	if (stride < 1) {
		/* -T: about T fault indices spread over the N allocator calls of the operation */
		int target = stride < 0 ? -stride : 1;
		stride = (base.n + target - 1) / target;
		if (stride < 1)
			stride = 1;
	}
	printf("stride s=%d n=%d\n", stride, base.n);
	if (kfrom < 0) {
		free(src.data);
		return 0;
	}
	if (kto < 0 || kto > base.n - 1)
		kto = base.n - 1;
	for (k = kfrom; k <= kto; k += stride)
		run_case(op, &src, k, 0);
	printf("end\n");
	free(src.data);
	return 0;
}

/* prefixes of the file through one entry point, load and test */
static int cmd_trunc(int argc, char **argv)
{
	struct source src, full;
	int i, entry;
	char tpath[4096];
	const char *scratch = getenv("C04_SCRATCH");
	if (argc < 5)
		return 2;
	if (!strcmp(argv[2], "umem")) {
		/* the UNPACKED stream of the file (what the format loader reads when the file is loaded by path), from memory */
		HIO_HANDLE *h;
		char *temp = NULL;
		entry = E_MEM;
		src_init(&full, entry, argv[3]);
		h = hio_open(argv[3], "rb");
		if (h != NULL) {
			if (libxmp_decrunch(h, argv[3], &temp) == 0 && hio_size(h) > 0) {
				long n = hio_size(h);
				unsigned char *u = (unsigned char *)malloc(n);
				hio_seek(h, 0, SEEK_SET);
				if (u != NULL && (long)hio_read(u, 1, n, h) == n) {
					free(full.data);
					full.data = u;
					full.size = n;
				} else {
					free(u);
				}
			}
			hio_close(h);
			unlink_temp_file(temp);
		}
	} else {
		entry = parse_entry(argv[2]);
		src_init(&full, entry, argv[3]);
	}
	printf("begin op=trunc entry=%s file=%s size=%ld\n", argv[2], argv[3], full.size);
	for (i = 4; i < argc; i++) {
		/* <n> bytes, or p<k> = k/1000 of the (unpacked) size */
		long len = argv[i][0] == 'p' ? (long)((double)full.size * atol(argv[i] + 1) / 1000.0) : atol(argv[i]);
		if (len > full.size)
			len = full.size;
		src = full;
		src.size = len;
		if (entry == E_PATH || entry == E_FILE) {
			FILE *o;
			snprintf(tpath, sizeof(tpath), "%s/trunc-%d.bin", scratch ? scratch : "/tmp", (int)getpid());
			o = fopen(tpath, "wb");
			if (o == NULL)
				continue;
			fwrite(full.data, 1, len, o);
			fclose(o);
			src.path = tpath;
		}
		printf("case len=%ld\n", len);
		if (len > 0 || entry == E_PATH || entry == E_FILE) {
			run_case(OP_LOAD, &src, -1, 1);
			run_case(OP_TEST, &src, -1, 1);
		}
		if (entry == E_PATH || entry == E_FILE)
			unlink(tpath);
	}
	printf("end\n");
	free(full.data);
	return 0;
}

static int cmd_readfault(int argc, char **argv)
{
	struct source src;
	long j, jfrom, jto, stride, nreads;
	int mode;
	if (argc < 7)
		return 2;
	src_init(&src, E_CB, argv[2]);
	jfrom = atol(argv[3]);
	jto = atol(argv[4]);
	stride = atol(argv[5]);
	mode = atoi(argv[6]);
	if (stride < 1)
		stride = 1;
	printf("begin op=readfault entry=cb file=%s\n", argv[2]);
	run_case(OP_LOAD, &src, -1, 1);
	nreads = src.cb.reads;
	printf("reads n=%ld\n", nreads);
	if (jto < 0 || jto > nreads - 1)
		jto = nreads - 1;
	for (j = jfrom; j <= jto; j += stride) {
		src.cb_fail_from = j;
		src.cb_fail_mode = mode;
		printf("case j=%ld\n", j);
		run_case(OP_LOAD, &src, -1, 0);
	}
	printf("end\n");
	free(src.data);
	return 0;
}

/* stream ownership scenarios that are not allocation faults */
static int cmd_own(int argc, char **argv)
{
	struct source good, bad;
	struct xmp_callbacks cbs = { cb_read, cb_seek, cb_tell, cb_close };
	struct xmp_callbacks nocb;
	struct xmp_test_info ti;
	xmp_context ctx;
	int rc, i, fd0;
	if (argc < 4)
		return 2;
	printf("begin op=own file=%s\n", argv[2]);
	/* FILE and callbacks, good and unrecognised data, load and test */
	for (i = 0; i < 2; i++) {
		int e;
		for (e = E_FILE; e <= E_CB; e++) {
			src_init(&good, e, argv[2 + i]);
			printf("case own entry=%s data=%s\n", e == E_FILE ? "file" : "cb", i ? "garbage" : "good");
			run_case(OP_LOAD, &good, -1, 1);
			run_case(OP_TEST, &good, -1, 1);
			free(good.data);
		}
	}
	/* cbopen refusing the callbacks: close must still be called exactly once */
	src_init(&bad, E_CB, argv[2]);
	for (i = 0; i < 5; i++) {
		track_reset();
		src_prepare(&bad);
		nocb = cbs;
		if (i == 0)
			nocb.read_func = NULL;
		if (i == 1)
			nocb.seek_func = NULL;
		if (i == 2)
			nocb.tell_func = NULL;
		if (i == 3)
			bad.cb.tell_fails = 1;	/* hio_open_callbacks: size < 0 */
		if (i == 4)
			bad.cb.seek_fails = 1;	/* hio_open_callbacks: seek to the end fails */
		fd0 = count_fds();
		ctx = xmp_create_context();
		win_begin(-1);
		rc = xmp_load_module_from_callbacks(ctx, &bad.cb, nocb);
		win_end();
		printf("own scenario=cbopen_refuse%d op=load rc=%d closes=%d residue=%d\n", i, rc, bad.cb.closes,
		       live_in_gen(win_gen));
		if (rc >= 0 || bad.cb.closes != 1 || live_in_gen(win_gen) != 0) {
			printf("viol own:close_callback refused callbacks (scenario %d, load): rc=%d closes=%d residue=%d\n", i,
			       rc, bad.cb.closes, live_in_gen(win_gen));
			report_live("residue", win_gen, "own");
		}
		xmp_free_context(ctx);
		src_prepare(&bad);
		if (i == 3)
			bad.cb.tell_fails = 1;
		if (i == 4)
			bad.cb.seek_fails = 1;
		win_begin(-1);
		rc = xmp_test_module_from_callbacks(&bad.cb, nocb, &ti);
		win_end();
		printf("own scenario=cbopen_refuse%d op=test rc=%d closes=%d residue=%d\n", i, rc, bad.cb.closes,
		       live_in_gen(win_gen));
		if (rc >= 0 || bad.cb.closes != 1 || live_in_gen(win_gen) != 0)
			printf("viol own:close_callback refused callbacks (scenario %d, test): rc=%d closes=%d residue=%d\n", i,
			       rc, bad.cb.closes, live_in_gen(win_gen));
		if (count_fds() != fd0)
			printf("viol fd:own descriptors changed\n");
	}
	/* no close callback at all: nothing to call, nothing leaked */
	track_reset();
	src_prepare(&bad);
	nocb = cbs;
	nocb.close_func = NULL;
	ctx = xmp_create_context();
	win_begin(-1);
	rc = xmp_load_module_from_callbacks(ctx, &bad.cb, nocb);
	win_end();
	xmp_free_context(ctx);
	printf("own scenario=no_close_func rc=%d closes=%d leaks=%d\n", rc, bad.cb.closes, live_in_gen(-1));
	if (bad.cb.closes != 0 || live_in_gen(-1) != 0)
		printf("viol own:close_callback no close_func: closes=%d leaks=%d\n", bad.cb.closes, live_in_gen(-1));
	free(bad.data);
	printf("end\n");
	return 0;
}

/* mkstemp / fdopen failing in make_temp_file (external helper path) */
static int tf_fail_mkstemp, tf_fail_fdopen;
int __real_mkstemp(char *);
FILE *__real_fdopen(int, const char *);
int __wrap_mkstemp(char *t)
{
	if (tf_fail_mkstemp == 1) {
		errno = EACCES;
		return -1;
	}
	if (tf_fail_mkstemp == 2) {
		/* no descriptor left: libc's own mkstemp fails (EMFILE) and does to the template whatever it does */
		struct rlimit rl, zero;
		int fd, e;
		getrlimit(RLIMIT_NOFILE, &rl);
		zero = rl;
		zero.rlim_cur = 0;
		setrlimit(RLIMIT_NOFILE, &zero);
		fd = __real_mkstemp(t);
		e = errno;
		setrlimit(RLIMIT_NOFILE, &rl);
		errno = e;
		return fd;
	}
	return __real_mkstemp(t);
}
FILE *__wrap_fdopen(int fd, const char *m)
{
	if (tf_fail_fdopen) {
		errno = ENOMEM;
		return NULL;
	}
	{
		FILE *f = __real_fdopen(fd, m);
		if (f != NULL)
			closed_forget(f);
		return f;
	}
}

static int cmd_tempfault(int argc, char **argv)
{
	struct source src;
	int which;
	if (argc < 4)
		return 2;
	which = atoi(argv[3]);
	src_init(&src, E_PATH, argv[2]);
	printf("begin op=tempfault file=%s which=%d\n", argv[2], which);
	tf_fail_mkstemp = which % 10 == 1 ? 1 : which % 10 == 3 ? 2 : 0;	/* 2: the real mkstemp at the descriptor limit */
	tf_fail_fdopen = which % 10 == 2;
	run_case(which >= 10 ? OP_TEST : OP_LOAD, &src, -1, 1);
	tf_fail_mkstemp = tf_fail_fdopen = 0;
	free(src.data);
	printf("end\n");
	return 0;
}

/* fclose() of a stream the library owns reports failure (the stream is closed all the same), for the j-th
 * fclose of a load / test by path or FILE; and a close callback that returns an error */
static int cmd_closefault(int argc, char **argv)
{
	struct source src;
	int op, j, nf;
	if (argc < 5)
		return 2;
	op = parse_op(argv[2]);
	src_init(&src, parse_entry(argv[3]), argv[4]);
	printf("begin op=closefault-%s entry=%s file=%s\n", argv[2], argv[3], argv[4]);
	if (src.entry == E_CB) {
		src.cb_close_rc = -1;
		printf("case close_rc=-1\n");
		run_case(op, &src, -1, 1);
	} else {
		const char *steps = argc > 5 ? argv[5] : "-";
		fc_fail_at = -1;
		run_case(op, &src, -1, 1);
		nf = g_fcloses;
		printf("fcloses n=%d\n", nf);
		printf("trace closefail entry=%s j=-1 steps=%s fcloses=%d caller=%d\n", argv[3], steps, g_fcloses + g_doubles,
		       g_caller_closed);
		for (j = 0; j < nf; j++) {
			fc_fail_at = j;
			printf("case fclose=%d\n", j);
			run_case(op, &src, -1, 0);
			printf("trace closefail entry=%s j=%d steps=%s fcloses=%d caller=%d\n", argv[3], j, steps,
			       g_fcloses + g_doubles, g_caller_closed);
		}
		fc_fail_at = -1;
	}
	printf("end\n");
	free(src.data);
	return 0;
}

/* rescans on a loaded / playing context: xmp_set_player(XMP_PLAYER_MODE | XMP_PLAYER_CFLAGS) and
 * xmp_scan_module call libxmp_scan_sequences, which realloc()s p->scan (grow to mod->len entries, scan,
 * shrink to the number of sequences) and may malloc a backup in compare_vblank_scan.  Every allocator
 * call of the rescan is made to fail in turn.
 *   c04_faults mutate <entry> <file> <off:val[,off:val...]>...     bytes replaced (corrupt archives), load + test
 *   c04_faults companion <module> <companion> <len>...             companion file missing (-1) / a directory (-2) / cut
 *   c04_faults rescan <mode|cflags|scan> <playing 0|1> <file> <kfrom> <kto> <stride> */
/* position control after the (faulted) call: where do set_position / next / prev / seek_time land and what do they
 * return.  `with_time` includes the times (they depend on the timing flags, the landing orders do not). */
static uint64_t rescan_ctl_script(xmp_context ctx, int with_time, int *landed)
{
	struct context_data *c = CTX(ctx);
	struct xmp_frame_info fi;
	uint64_t h = FNV_INIT;
	int len = c->m.mod.len, r[4], v[4], step;
	int target = len > 2 ? len / 2 : len > 1 ? 1 : 0;
	*landed = 0;
	for (step = 0; step < 4; step++) {
		memset(v, 0, sizeof(v));
		switch (step) {
		case 0:
			r[step] = xmp_set_position(ctx, target);
			break;
		case 1:
			r[step] = xmp_next_position(ctx);
			break;
		case 2:
			r[step] = xmp_prev_position(ctx);
			break;
		default:
			if (!with_time)
				continue;
			xmp_get_frame_info(ctx, &fi);
			r[step] = xmp_seek_time(ctx, fi.total_time / 2);
			break;
		}
		if (xmp_play_frame(ctx) < 0)
			break;
		xmp_get_frame_info(ctx, &fi);
		v[0] = r[step];
		v[1] = fi.pos;
		v[2] = fi.row;
		v[3] = fi.sequence;
		h = fnv1a(h, v, sizeof(v));
		if (with_time) {
			h = fnv1a(h, &fi.time, sizeof(int));
			h = fnv1a(h, &fi.total_time, sizeof(int));
		}
		if (step == 0)
			*landed = fi.pos;
	}
	return h;
}

/* digest of what an untouched context (old mode) renders at the point where run_rescan_case plays on */
static uint64_t ref_ctl_old;	/* control script of the untouched twin (set by rescan_reference) */
static uint64_t rescan_reference(struct source *src, int playing)
{
	xmp_context ctx = xmp_create_context();
	struct xmp_frame_info fi;
	uint64_t pd = FNV_INIT;
	int i;
	src_prepare(src);
	if (src_load(src, ctx) == 0) {
		rel_evaluate("ref", 1);
		libxmp_set_random(&CTX(ctx)->rng, 20260930u);
		xmp_start_player(ctx, 22050, 0);
		if (playing)
			xmp_play_frame(ctx);
		for (i = 0; i < 6; i++) {
			if (xmp_play_frame(ctx) < 0)
				break;
			xmp_get_frame_info(ctx, &fi);
			pd = fnv1a(pd, fi.buffer, fi.buffer_size);
		}
		{
			int landed;
			ref_ctl_old = rescan_ctl_script(ctx, 1, &landed);
		}
		xmp_end_player(ctx);
	}
	xmp_free_context(ctx);
	rel_evaluate("free", 0);
	src_finish(src);
	return pd;
}

static int run_rescan_case(int which, int playing, struct source *src, int k, int isbase)
{
	static int base_n;
	static uint64_t base_pd, base_old_pd;
	int nold = 0, shrinkold = 0, mode0, keep[6], want_old_ctl = 0;
	uint64_t got_ctl = 0;
	char fileid[128];
	xmp_context ctx;
	struct context_data *c;
	struct xmp_frame_info fi;
	int rc, rcl, n, fired, gen, viol = 0, leaks, i, fd0, fd1, scan_blocks, nseq0, nseq1;
	uint64_t pd = FNV_INIT;
	void *scan0;
	char tag[64];

	track_reset();
	snprintf(tag, sizeof(tag), "k=%d", k);
	fd0 = count_fds();
	ctx = xmp_create_context();
	c = CTX(ctx);
	src_prepare(src);
	win_begin(-1);		/* the module's blocks are tracked too: the scan block is one of them */
	rcl = src_load(src, ctx);
	win_end();
	rel_evaluate("preload", 1);
	if (rcl < 0) {
		printf("skip module does not load rc=%d\n", rcl);
		xmp_free_context(ctx);
		rel_evaluate("free", 0);
		return 0;
	}
	libxmp_set_random(&c->rng, 20260930u);
	if (playing) {
		xmp_start_player(ctx, 22050, 0);
		xmp_play_frame(ctx);
	}
	if (which == 0) {
		/* what one unfaulted rescan under the current (old) mode allocates: xmp_set_player(MODE) rescans a second
		 * time under the restored mode when the first rescan fails */
		win_begin(-1);
		xmp_scan_module(ctx);
		win_end();
		nold = win_count;
		shrinkold = c->m.num_sequences < c->m.mod.len;
	}
	mode0 = c->p.mode;
	keep[0] = c->m.c4rate;
	keep[1] = c->m.quirk;
	keep[2] = c->m.flow_mode;
	keep[3] = c->m.read_event_type;
	keep[4] = c->m.period_type;
	keep[5] = c->m.compare_vblank;
	scan0 = c->p.scan;
	nseq0 = c->m.num_sequences;

	win_begin(k);
	switch (which) {
	case 0:
		rc = xmp_set_player(ctx, XMP_PLAYER_MODE, XMP_MODE_PROTRACKER);
		break;
	case 1:
		rc = xmp_set_player(ctx, XMP_PLAYER_CFLAGS, xmp_get_player(ctx, XMP_PLAYER_CFLAGS) ^ XMP_FLAGS_VBLANK);
		break;
	default:
		xmp_scan_module(ctx);
		rc = 0;
		break;
	}
	win_end();
	gen = win_gen;
	n = win_count;
	fired = win_fired;
	nseq1 = c->m.num_sequences;

	/* ledger: exactly one live scan block, owned by p->scan; nothing else of the call is live */
	scan_blocks = 0;
	for (i = 0; i < nrecs; i++)
		if (recs[i].live && recs[i].p == (void *)c->p.scan)
			scan_blocks++;
	{
		/* identifies the input in the trace: two corpus files may share a base name (test/test.xm and
		 * test-dev/data/test.xm differ), and names may contain blanks */
		const char *b = strrchr(src->path, '/') ? strrchr(src->path, '/') + 1 : src->path;
		size_t q;
		snprintf(fileid, sizeof(fileid), "%08x-%.80s", (unsigned)(fnv1a(FNV_INIT, src->path, strlen(src->path)) & 0xffffffffu), b);
		for (q = 0; fileid[q]; q++)
			if (fileid[q] == ' ' || fileid[q] == '=')
				fileid[q] = '_';
	}
	printf("trace rescan which=%d playing=%d file=%s k=%d n=%d fired=%d rc=%s scan=%s owned=%d other=%d shrink=%d nold=%d shrinkold=%d mode=%s\n",
	       which, playing, fileid, k, n, fired,
	       rc < 0 ? "neg" : "0", c->p.scan == scan0 ? "same" : "moved", scan_blocks,
	       live_in_gen(gen) - (c->p.scan != scan0 ? scan_blocks : 0), nseq1 < c->m.mod.len, nold, shrinkold,
	       mode0 == XMP_MODE_PROTRACKER ? "any" : c->p.mode == mode0 ? "old" : "new");
	if (which == 0) {
		/* xmp_set_player(XMP_PLAYER_MODE): accepted = new mode, refused = negative code and the old mode with the
		 * six mode members as they were */
		int restored = c->p.mode == mode0 && keep[0] == c->m.c4rate && keep[1] == c->m.quirk && keep[2] == c->m.flow_mode &&
			       keep[3] == c->m.read_event_type && keep[4] == c->m.period_type && keep[5] == c->m.compare_vblank;
		if (rc < 0 && !restored) {
			printf("viol residue:set_player_mode the refused xmp_set_player(XMP_PLAYER_MODE) (rc=%d) left mode %d (was %d) "
			       "or changed mode members\n", rc, c->p.mode, mode0);
			viol++;
		}
		if (rc == 0 && c->p.mode != XMP_MODE_PROTRACKER) {
			printf("viol rescan:mode xmp_set_player(XMP_PLAYER_MODE) returned 0 but the mode is %d\n", c->p.mode);
			viol++;
		}
		if (rc > 0) {
			printf("viol rc:positive:set_player the call returned %d\n", rc);
			viol++;
		}
	}
	if (scan_blocks != 1 || c->p.scan == NULL) {
		printf("viol rescan:scan_block after the rescan p->scan is not one live block (%d)\n", scan_blocks);
		viol++;
	}
	if (live_in_gen(gen) - (c->p.scan != scan0 ? scan_blocks : 0) > 0) {
		report_live("residue", gen, tag);
		viol++;
	}
	if (nseq1 < 1 || c->p.sequence < 0 || c->p.sequence >= nseq1) {
		printf("viol rescan:sequence after the rescan sequence=%d num_sequences=%d (was %d)\n", c->p.sequence, nseq1, nseq0);
		viol++;
	}
	/* the context keeps working: play on (or start), frame info, then everything is freed */
	if (!playing)
		xmp_start_player(ctx, 22050, 0);
	for (i = 0; i < 6; i++) {
		if (xmp_play_frame(ctx) < 0)
			break;
		xmp_get_frame_info(ctx, &fi);
		pd = fnv1a(pd, fi.buffer, fi.buffer_size);
		if (fi.sequence < 0 || fi.sequence >= nseq1) {
			printf("viol rescan:sequence frame info reports sequence %d of %d\n", fi.sequence, nseq1);
			viol++;
			break;
		}
	}
	/* (the PCM digest above is taken first: after a jump the speed / tempo of the target order come from the scan data,
	 * which a tolerated failed rescan under new timing flags legitimately leaves as it was) */
	{
		/* position control must land where the twin lands: the unfaulted call (same orders whatever the timing
		 * flags), or - xmp_set_player(MODE) refused - the context that never made the call */
		static uint64_t base_ctl, base_ctl_nt;
		int landed, with_time = which != 1;
		uint64_t ctl = rescan_ctl_script(ctx, with_time, &landed);
		if (isbase) {
			if (with_time)
				base_ctl = ctl;
			else
				base_ctl_nt = ctl;
		} else if (which == 0 && rc < 0) {
			want_old_ctl = 1;
			got_ctl = ctl;
		} else if (ctl != (with_time ? base_ctl : base_ctl_nt)) {
			printf("viol rescan:position_control after the faulted call (rc=%d) xmp_set_position / next / prev%s do not do "
			       "what they do after the unfaulted call (set_position landed on order %d)\n", rc,
			       with_time ? " / seek_time" : "", landed);
			viol++;
		}
	}
	if (isbase) {
		base_n = n;
		base_pd = pd;
		if (which == 0)
			base_old_pd = rescan_reference(src, playing);
	} else if (which == 0 && rc < 0) {
		/* the refused mode change: the context renders what an untouched context renders */
		if (want_old_ctl && got_ctl != ref_ctl_old) {
			printf("viol rescan:position_control after the refused xmp_set_player(XMP_PLAYER_MODE) position control does not "
			       "do what it does in a context whose mode was never touched\n");
			viol++;
		}
		if (pd != base_old_pd) {
			printf("viol reuse:rescan after the refused xmp_set_player(XMP_PLAYER_MODE) the context renders differently "
			       "from one whose mode was never touched\n");
			viol++;
		}
	} else if (pd != base_pd) {
		/* the rescan does not change what is rendered: a failed one must not either */
		printf("viol reuse:rescan after the faulted rescan the context renders differently\n");
		viol++;
	}
	xmp_end_player(ctx);
	xmp_release_module(ctx);
	rel_evaluate("release", 1);
	xmp_free_context(ctx);
	viol += rel_problems;
	rel_problems = 0;
	src_finish(src);
	leaks = live_in_gen(-1);
	if (leaks > 0) {
		report_live("leak", -1, tag);
		viol++;
	}
	fd1 = count_fds();
	if (viol > 0)
		print_fault();
	printf("%s op=rescan%d%s k=%d n=%d fired=%d rc=%d state=1 residue=0 leaks=%d fd=%d/%d tmp=0/0 own=na reuse=1 mdig=%016llx pdig=%016llx viol=%d\n",
	       isbase ? "base" : "k", which, playing ? "p" : "", k, n, fired, rc < 0 ? rc : (fired && k >= 0 ? -1 : rc), leaks, fd0, fd1, 0ULL,
	       (unsigned long long)pd, viol);
	fflush(stdout);
	(void)base_n;
	return n;
}

static int cmd_rescan(int argc, char **argv)
{
	struct source src;
	int which, playing, kfrom, kto, stride, k, n;
	if (argc < 8)
		return 2;
	which = !strcmp(argv[2], "mode") ? 0 : !strcmp(argv[2], "cflags") ? 1 : 2;
	playing = atoi(argv[3]);
	src_init(&src, E_MEM, argv[4]);
	kfrom = atoi(argv[5]);
	kto = atoi(argv[6]);
	stride = atoi(argv[7]);
	if (stride < 1)
		stride = 1;
	printf("begin op=rescan-%s entry=mem file=%s\n", argv[2], argv[4]);
	n = run_rescan_case(which, playing, &src, -1, 1);
	printf("stride s=%d n=%d\n", stride, n);
	if (kfrom >= 0) {
		if (kto < 0 || kto > n - 1)
			kto = n - 1;
		for (k = kfrom; k <= kto; k += stride)
			run_rescan_case(which, playing, &src, k, 0);
	}
	printf("end\n");
	free(src.data);
	return 0;
}

/* structure-aware corruption: the file with a few bytes replaced (not shortened), load and test through one entry
 * point, full accounting (blocks, descriptors, temp files) per call.
 *   c04_faults mutate <entry> <file> <spec> [<spec>...]     spec = off:val[,off:val...]  (decimal) */
static int cmd_mutate(int argc, char **argv)
{
	struct source src, full;
	int i, entry;
	char tpath[4096];
	const char *scratch = getenv("C04_SCRATCH");
	if (argc < 5)
		return 2;
	entry = parse_entry(argv[2]);
	src_init(&full, entry, argv[3]);
	printf("begin op=mutate entry=%s file=%s\n", argv[2], argv[3]);
	for (i = 4; i < argc; i++) {
		unsigned char *copy = (unsigned char *)__real_malloc(full.size > 0 ? full.size : 1);
		const char *q = argv[i];
		int ok = 1;
		memcpy(copy, full.data, full.size);
		while (*q) {
			long off, val;
			char *e;
			off = strtol(q, &e, 10);
			if (*e != ':') { ok = 0; break; }
			val = strtol(e + 1, &e, 10);
			if (off >= 0 && off < full.size)
				copy[off] = (unsigned char)val;
			q = *e == ',' ? e + 1 : e;
			if (*e != ',' && *e != 0) { ok = 0; break; }
		}
		if (!ok) {
			__real_free(copy);
			continue;
		}
		src = full;
		src.data = copy;
		if (entry == E_PATH || entry == E_FILE) {
			FILE *o;
			snprintf(tpath, sizeof(tpath), "%s/mut-%d.bin", scratch ? scratch : "/tmp", (int)getpid());
			o = fopen(tpath, "wb");
			if (o == NULL) {
				__real_free(copy);
				continue;
			}
			fwrite(copy, 1, full.size, o);
			fclose(o);
			src.path = tpath;
		}
		printf("case mut=%s\n", argv[i]);
		if (entry != E_FILE)	/* xmp_load_module_from_file does not unpack: only the test does */
			run_case(OP_LOAD, &src, -1, 1);
		run_case(OP_TEST, &src, -1, 1);
		if (entry == E_PATH || entry == E_FILE)
			unlink(tpath);
		__real_free(copy);
	}
	printf("end\n");
	free(full.data);
	return 0;
}

/* multi-file formats: the module is intact, its COMPANION file (Startrekker .nt, MFP smp.*, external MED / MOD /
 * STM instruments) is missing (-1), a directory (-2), or cut to <len> bytes; load by path, descriptors counted.
 *   c04_faults companion <module> <companion> <len> [<len>...] */
static int fo_count;
static int cmd_companion(int argc, char **argv)
{
	struct source src;
	unsigned char *cdata;
	long csize = 0, len;
	int i;
	if (argc < 5)
		return 2;
	src_init(&src, E_PATH, argv[2]);
	cdata = read_file(argv[3], &csize);
	if (cdata == NULL) {
		printf("skip cannot read companion %s\n", argv[3]);
		return 0;
	}
	printf("begin op=companion entry=path file=%s companion=%s\n", argv[2], argv[3]);
	for (i = 4; i < argc; i++) {
		FILE *o;
		len = atol(argv[i]);
		unlink(argv[3]);
		rmdir(argv[3]);
		if (len == -2) {
			mkdir(argv[3], 0755);
		} else if (len >= 0) {
			if (len > csize)
				len = csize;
			o = fopen(argv[3], "wb");
			if (o == NULL)
				continue;
			fwrite(cdata, 1, len, o);
			fclose(o);
		}
		printf("case clen=%ld\n", len);
		run_case(OP_LOAD, &src, -1, 1);
		printf("companion clen=%ld fopens=%d\n", len, fo_count);
	}
	/* put the companion back */
	unlink(argv[3]);
	rmdir(argv[3]);
	{
		FILE *o = fopen(argv[3], "wb");
		if (o != NULL) {
			fwrite(cdata, 1, csize, o);
			fclose(o);
		}
	}
	printf("end\n");
	free(cdata);
	free(src.data);
	return 0;
}

/* F8: xmp_start_smix twice / end_smix leaves counts */
static int cmd_smix(int argc, char **argv)
{
	xmp_context ctx;
	int rc1, rc2, n;
	(void)argc;
	(void)argv;
	track_reset();
	ctx = xmp_create_context();
	win_begin(-1);
	rc1 = xmp_start_smix(ctx, 1, 2);
	rc2 = xmp_start_smix(ctx, 1, 2);
	xmp_end_smix(ctx);
	win_end();
	xmp_free_context(ctx);
	n = live_in_gen(-1);
	printf("smix scenario=restart rc1=%d rc2=%d leaks=%d\n", rc1, rc2, n);
	if (n > 0) {
		report_live("leak", -1, "smix-restart");
		printf("viol leak:smix:restart xmp_start_smix called twice leaks the first tables (%d blocks)\n", n);
	}
	return 0;
}

int main(int argc, char **argv)
{
	int rc = 2;
	char warm[600];
	setvbuf(stdout, NULL, _IOFBF, 1 << 16);
	site_of((void *)((char *)&main + 8), warm, sizeof(warm));
	fault_depth = backtrace(fault_stack, 24);	/* loads the unwinder now */	/* starts the symbolizer before fds are counted */
	if (argc < 2) {
		fprintf(stderr, "usage: see the head of c04_faults.c\n");
		return 2;
	}
	if (!strcmp(argv[1], "faults"))
		rc = cmd_faults(argc, argv);
	else if (!strcmp(argv[1], "trunc"))
		rc = cmd_trunc(argc, argv);
	else if (!strcmp(argv[1], "readfault"))
		rc = cmd_readfault(argc, argv);
	else if (!strcmp(argv[1], "own"))
		rc = cmd_own(argc, argv);
	else if (!strcmp(argv[1], "tempfault"))
		rc = cmd_tempfault(argc, argv);
	else if (!strcmp(argv[1], "smix"))
		rc = cmd_smix(argc, argv);
	else if (!strcmp(argv[1], "rescan"))
		rc = cmd_rescan(argc, argv);
	else if (!strcmp(argv[1], "mutate"))
		rc = cmd_mutate(argc, argv);
	else if (!strcmp(argv[1], "companion"))
		rc = cmd_companion(argc, argv);
	else if (!strcmp(argv[1], "closefault"))
		rc = cmd_closefault(argc, argv);
	else if (!strcmp(argv[1], "smixfaults"))
		rc = cmd_smixfaults(argc, argv);
	fflush(stdout);
	/* backstop: anything the tracker cannot see (FILE objects, libc blocks) */
	if (__lsan_do_recoverable_leak_check())
		printf("viol leak:lsan LeakSanitizer reports leaks at the end of the run (see stderr)\n");
	fflush(stdout);
	return rc;
}
