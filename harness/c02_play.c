/* C02 — "loading and rendering always return" on unmodified and truncated inputs, uninstrumented build.
 *
 *   c02_play play <maxframes> <file>...
 *       each file: load from memory, start the player (8000 Hz mono), play frames until the module has been played
 *       through twice (loop_count >= 2), the player reports an end, or <maxframes> frames; prints
 *         played <file> load=<ret> frames=<n> loops=<k> end=<last ret> entryok=<0|1> cpu=<seconds>
 *       entryok: for every sequence xmp_get_module_info reports, the entry point or an order behind it (before the end
 *       of the list / a 0xff marker) holds a pattern — the part of the OrdWF hypothesis of next_order's termination
 *       theorem that can be evaluated through the public API (the restart-position disjunct needs private state)
 *   c02_play trunc <every> <stride_to> <stride> <spread> <file>...
 *       each file: memory test + load of the prefixes of length 0..every (each), every..stride_to (step <stride>) and
 *       <spread> further lengths spread evenly up to the file size; prints
 *         swept <file> points=<n> maxcpu=<seconds of the slowest prefix> at=<its length>
 * A SIGALRM (12 s per prefix, 20 s per played file) prints `HANG <file> <length or frame>` and exits 14.
 */
#include "vcommon.h"
#include <xmp.h>
#include <unistd.h>
#include <signal.h>
#include <time.h>

static const char *cur_file = "?";
static volatile long cur_pos;

static void on_alarm(int sig)
{
	char buf[4400];
	int n;
	(void)sig;
	n = snprintf(buf, sizeof(buf), "HANG %s %ld\n", cur_file, (long)cur_pos);
	if (n > 0 && write(1, buf, (size_t)n) < 0) {
	}
	_exit(14);
}

static double cpu_now(void)
{
	struct timespec ts;
	clock_gettime(CLOCK_PROCESS_CPUTIME_ID, &ts);
	return ts.tv_sec + ts.tv_nsec * 1e-9;
}

static unsigned char *read_all(const char *path, long *n)
{
	FILE *f = fopen(path, "rb");
	unsigned char *b;
	long sz;
	if (!f)
		return NULL;
	fseek(f, 0, SEEK_END);
	sz = ftell(f);
	fseek(f, 0, SEEK_SET);
	b = (unsigned char *)malloc(sz > 0 ? sz : 1);
	if (sz > 0 && fread(b, 1, (size_t)sz, f) != (size_t)sz) {
		free(b);
		b = NULL;
	}
	fclose(f);
	*n = sz;
	return b;
}

static void one_prefix(const unsigned char *in, long L, double *maxcpu, long *at)
{
	unsigned char *exact = (unsigned char *)malloc(L > 0 ? L : 1);
	struct xmp_test_info ti;
	xmp_context c;
	double t0;
	memcpy(exact, in, L);
	cur_pos = L;
	t0 = cpu_now();
	alarm(12);
	xmp_test_module_from_memory(exact, L, &ti);
	c = xmp_create_context();
	if (xmp_load_module_from_memory(c, exact, L) == 0)
		xmp_release_module(c);
	xmp_free_context(c);
	alarm(0);
	t0 = cpu_now() - t0;
	if (t0 > *maxcpu) {
		*maxcpu = t0;
		*at = L;
	}
	free(exact);
}

int main(int argc, char **argv)
{
	int i;
	signal(SIGALRM, on_alarm);
	if (argc >= 4 && !strcmp(argv[1], "play")) {
		long maxframes = atol(argv[2]);
		for (i = 3; i < argc; i++) {
			long n = 0, frames = 0;
			unsigned char *in = read_all(argv[i], &n);
			xmp_context c;
			int ret, last = 0, loops = 0, entryok = 1;
			double t0;
			if (!in)
				continue;
			cur_file = argv[i];
			cur_pos = -1;
			t0 = cpu_now();
			alarm(20);
			c = xmp_create_context();
			ret = xmp_load_module_from_memory(c, in, n);
			if (ret == 0) {
				struct xmp_module_info mi;
				struct xmp_frame_info fi;
				int s;
				xmp_get_module_info(c, &mi);
				for (s = 0; s < mi.num_sequences; s++) {
					/* sufficient part of OrdWF: the entry point holds a pattern, or an order behind it
					 * (before the end of the list / a 0xff marker) does */
					int e = mi.seq_data[s].entry_point, o, ok = 0;
					if (e >= 0 && e < mi.mod->len && mi.mod->xxo[e] < mi.mod->pat)
						ok = 1;
					for (o = e + 1; !ok && o >= 0 && o < mi.mod->len && mi.mod->xxo[o] != 0xff; o++)
						if (mi.mod->xxo[o] < mi.mod->pat)
							ok = 1;
					if (!ok)
						entryok = 0;
				}
				if (xmp_start_player(c, 8000, XMP_FORMAT_MONO) == 0) {
					while (frames < maxframes) {
						cur_pos = frames;
						last = xmp_play_frame(c);
						if (last != 0)
							break;
						frames++;
						xmp_get_frame_info(c, &fi);
						loops = fi.loop_count;
						if (loops >= 2)
							break;
					}
					xmp_end_player(c);
				}
				xmp_release_module(c);
			}
			xmp_free_context(c);
			alarm(0);
			printf("played %s load=%d frames=%ld loops=%d end=%d entryok=%d cpu=%.3f\n", argv[i], ret, frames, loops, last,
			       entryok, cpu_now() - t0);
			fflush(stdout);
			free(in);
		}
		return 0;
	}
	if (argc >= 7 && !strcmp(argv[1], "trunc")) {
		long every = atol(argv[2]), stride_to = atol(argv[3]), stride = atol(argv[4]), spread = atol(argv[5]);
		if (stride < 1)
			stride = 1;
		for (i = 6; i < argc; i++) {
			long n = 0, L, points = 0, at = 0, k;
			unsigned char *in = read_all(argv[i], &n);
			double maxcpu = 0;
			if (!in)
				continue;
			cur_file = argv[i];
			for (L = 0; L <= every && L <= n; L++, points++)
				one_prefix(in, L, &maxcpu, &at);
			for (; L <= stride_to && L <= n; L += stride, points++)
				one_prefix(in, L, &maxcpu, &at);
			if (n > L && spread > 0) {
				for (k = 1; k <= spread; k++, points++)
					one_prefix(in, L + (long)((double)(n - L) * k / spread), &maxcpu, &at);
			}
			printf("swept %s points=%ld maxcpu=%.3f at=%ld\n", argv[i], points, maxcpu, at);
			fflush(stdout);
			free(in);
		}
		return 0;
	}
	fprintf(stderr, "usage: %s play <maxframes> <file>... | trunc <every> <stride_to> <stride> <spread> <file>...\n", argv[0]);
	return 2;
}
