/* C02 — "loading and rendering always return" on unmodified and truncated inputs, uninstrumented build.
 *
 *   c02_play play <maxframes> <file>...
 *       each file: load from memory, start the player (8000 Hz mono), play frames until the module has been played
 *       through twice (loop_count >= 2), the player reports an end, or <maxframes> frames; prints
 *         played <file> load=<ret> frames=<n> loops=<k> end=<last ret> entryok=<0|1> cpu=<seconds>
 *       entryok: for every sequence xmp_get_module_info reports, the entry point or an order behind it (before the end
 *       of the list / a 0xff marker) holds a pattern — the part of the OrdWF hypothesis of next_order's termination
 *       theorem that can be evaluated through the public API (the restart-position disjunct needs private state)
 *   c02_play trunc <every> <stride_to> <stride> <spread> <file>...
 *       each file: memory test + load of the prefixes of length 0..every (each), every..stride_to (step <stride>) and
 *       <spread> further lengths spread evenly up to the file size; prints
 *         swept <file> points=<n> maxcpu=<seconds of the slowest prefix> at=<its length>
 *   c02_play meter <file>...                       (build with -DWRAP_METERS and the --wrap options below)
 *       each file, unmodified: test + load + release from memory, through a FILE handle, and by path (the entry
 *       point that unpacks); prints
 *         metered <file> load=<ret> cpu=<s> peak=<bytes> held=<bytes> reads=<n> eofreads=<n>
 *       peak = highest live heap during the call, held = heap still live after xmp_release_module + xmp_free_context,
 *       reads = calls of the hio read functions made by loaders / depackers, eofreads = those made with the stream
 *       already at its end ("reads after EOF": work that no byte of the input pays for)
 *   c02_play fields <full> <file>...
 *       each file: a 32-bit field of value 0x7fffffff / 0xffffffff (big and little endian) written at every offset
 *       (files up to <full> bytes: every offset; larger: the first and the last <full>/2 bytes and the 64 bytes behind every
 *       position a 32-bit value of the first 256 bytes points to), each variant metered:
 *         fieldswept <file> variants=<n> maxcpu=<s> maxeof=<n> maxpeak=<bytes> at=<offset of the slowest>
 *   c02_play reloc <file>...
 *       each file: every plausible header offset moved by the same large constant (4 variants), metered; same output line
 * A SIGALRM (12 s per prefix / variant, 20 s per played file) prints `HANG <file> <length or frame>` and exits 14;
 * more than EOF_READ_CAP reads after EOF in one call print `WORK <file> <position> eofreads` and exit 15.
 */
#include "vcommon.h"
#include <xmp.h>
#include <unistd.h>
#include <signal.h>
#include <time.h>

static const char *cur_file = "?";
static volatile long cur_pos;

#ifdef WRAP_METERS
/* ---- heap meter (-Wl,--wrap=malloc,--wrap=calloc,--wrap=realloc,--wrap=free) ---- */
#include <malloc.h>
void *__real_malloc(size_t);
void *__real_calloc(size_t, size_t);
void *__real_realloc(void *, size_t);
void __real_free(void *);
static size_t live_bytes, peak_bytes;
static void heap_acct(size_t n)
{
	live_bytes += n;
	if (live_bytes > peak_bytes)
		peak_bytes = live_bytes;
}
void *__wrap_malloc(size_t n)
{
	void *p = __real_malloc(n);
	if (p) heap_acct(malloc_usable_size(p));
	return p;
}
void *__wrap_calloc(size_t a, size_t b)
{
	void *p = __real_calloc(a, b);
	if (p) heap_acct(malloc_usable_size(p));
	return p;
}
void *__wrap_realloc(void *q, size_t n)
{
	size_t old = q ? malloc_usable_size(q) : 0;
	void *p = __real_realloc(q, n);
	if (p) {
		live_bytes -= old < live_bytes ? old : live_bytes;
		heap_acct(malloc_usable_size(p));
	}
	return p;
}
void __wrap_free(void *q)
{
	if (q) {
		size_t old = malloc_usable_size(q);
		live_bytes -= old < live_bytes ? old : live_bytes;
	}
	__real_free(q);
}

/* ---- work meter: the hio read functions as called by loaders and depackers (cross-module calls inside libxmp.a;
 * -Wl,--wrap=hio_read8,... ) ---- */
#include "common.h"
#include "hio.h"
#define EOF_READ_CAP (48L << 20)
static long n_reads, n_eof_reads;
static void work_acct(HIO_HANDLE *h)
{
	n_reads++;
	if (hio_eof(h)) {
		if (++n_eof_reads > EOF_READ_CAP) {
			char buf[4400];
			int n = snprintf(buf, sizeof(buf), "WORK %s %ld eofreads\n", cur_file, (long)cur_pos);
			if (n > 0 && write(1, buf, (size_t)n) < 0) {
			}
			_exit(15);
		}
	}
}
#define WRAP_RD(ret, name) ret __real_##name(HIO_HANDLE *); ret __wrap_##name(HIO_HANDLE *h) { work_acct(h); return __real_##name(h); }
WRAP_RD(int8, hio_read8s)
WRAP_RD(uint8, hio_read8)
WRAP_RD(uint16, hio_read16l)
WRAP_RD(uint16, hio_read16b)
WRAP_RD(uint32, hio_read24l)
WRAP_RD(uint32, hio_read24b)
WRAP_RD(uint32, hio_read32l)
WRAP_RD(uint32, hio_read32b)
size_t __real_hio_read(void *, size_t, size_t, HIO_HANDLE *);
size_t __wrap_hio_read(void *b, size_t s, size_t n, HIO_HANDLE *h)
{
	work_acct(h);
	return __real_hio_read(b, s, n, h);
}

struct meter { int ret, fret, pret; double cpu; size_t peak, held; long reads, eofreads; };

static struct meter metered_load(const unsigned char *in, long n, const char *path)
{
	struct meter m;
	struct xmp_test_info ti;
	unsigned char *exact = (unsigned char *)__real_malloc(n > 0 ? n : 1);
	size_t base = live_bytes;
	xmp_context c;
	double t0;
	memcpy(exact, in, n);
	peak_bytes = live_bytes;
	n_reads = n_eof_reads = 0;
	t0 = 0;
	{
		struct timespec ts;
		clock_gettime(CLOCK_PROCESS_CPUTIME_ID, &ts);
		t0 = ts.tv_sec + ts.tv_nsec * 1e-9;
	}
	/* each entry point (test + load) has its own 60 s wall budget (hang guard only; CPU time is what is judged), and the CPU figure judged against the
	 * limit is the largest of the three: the limit is stated per test/load of one input */
	m.cpu = 0;
#define GROUP_BEGIN() do { struct timespec ts_; clock_gettime(CLOCK_PROCESS_CPUTIME_ID, &ts_); \
		t0 = ts_.tv_sec + ts_.tv_nsec * 1e-9; alarm(60); } while (0)
#define GROUP_END() do { struct timespec ts_; double d_; alarm(0); clock_gettime(CLOCK_PROCESS_CPUTIME_ID, &ts_); \
		d_ = ts_.tv_sec + ts_.tv_nsec * 1e-9 - t0; if (d_ > m.cpu) m.cpu = d_; } while (0)
	GROUP_BEGIN();
	xmp_test_module_from_memory(exact, n, &ti);
	c = xmp_create_context();
	m.ret = xmp_load_module_from_memory(c, exact, n);
	if (m.ret == 0)
		xmp_release_module(c);
	xmp_free_context(c);
	GROUP_END();
	m.fret = -99;
	if (n > 0) {
		/* the same through a FILE handle: loaders and format tests that fetch data on request (no underlying memory) */
		FILE *fp = fmemopen(exact, (size_t)n, "rb");
		if (fp) {
			int r2;
			GROUP_BEGIN();
			xmp_test_module_from_file(fp, &ti);
			rewind(fp);
			c = xmp_create_context();
			r2 = xmp_load_module_from_file(c, fp, n);
			m.fret = r2;
			if (r2 == 0)
				xmp_release_module(c);
			xmp_free_context(c);
			GROUP_END();
			fclose(fp);
		}
	}
	m.pret = -99;
	if (path) {
		/* and by path: the only load entry point that runs the depackers */
		GROUP_BEGIN();
		xmp_test_module(path, &ti);
		c = xmp_create_context();
		m.pret = xmp_load_module(c, path);
		if (m.pret == 0)
			xmp_release_module(c);
		xmp_free_context(c);
		GROUP_END();
	}
	m.peak = peak_bytes - base;
	m.held = live_bytes > base ? live_bytes - base : 0;
	m.reads = n_reads;
	m.eofreads = n_eof_reads;
	__real_free(exact);
	return m;
}
#endif

static void on_alarm(int sig)
{
	char buf[4400];
	int n;
	(void)sig;
	n = snprintf(buf, sizeof(buf), "HANG %s %ld\n", cur_file, (long)cur_pos);
	if (n > 0 && write(1, buf, (size_t)n) < 0) {
	}
	_exit(14);
}

static double cpu_now(void)
{
	struct timespec ts;
	clock_gettime(CLOCK_PROCESS_CPUTIME_ID, &ts);
	return ts.tv_sec + ts.tv_nsec * 1e-9;
}

static unsigned char *read_all(const char *path, long *n)
{
	FILE *f = fopen(path, "rb");
	unsigned char *b;
	long sz;
	if (!f)
		return NULL;
	fseek(f, 0, SEEK_END);
	sz = ftell(f);
	fseek(f, 0, SEEK_SET);
	b = (unsigned char *)malloc(sz > 0 ? sz : 1);
	if (sz > 0 && fread(b, 1, (size_t)sz, f) != (size_t)sz) {
		free(b);
		b = NULL;
	}
	fclose(f);
	*n = sz;
	return b;
}

static void one_prefix(const unsigned char *in, long L, double *maxcpu, long *at)
{
	unsigned char *exact = (unsigned char *)malloc(L > 0 ? L : 1);
	struct xmp_test_info ti;
	xmp_context c;
	double t0;
	memcpy(exact, in, L);
	cur_pos = L;
	t0 = cpu_now();
	alarm(12);
	xmp_test_module_from_memory(exact, L, &ti);
	c = xmp_create_context();
	if (xmp_load_module_from_memory(c, exact, L) == 0)
		xmp_release_module(c);
	xmp_free_context(c);
	alarm(0);
	t0 = cpu_now() - t0;
	if (t0 > *maxcpu) {
		*maxcpu = t0;
		*at = L;
	}
	free(exact);
}

int main(int argc, char **argv)
{
	int i;
	signal(SIGALRM, on_alarm);
	if (argc >= 4 && !strcmp(argv[1], "play")) {
		long maxframes = atol(argv[2]);
		for (i = 3; i < argc; i++) {
			long n = 0, frames = 0;
			unsigned char *in = read_all(argv[i], &n);
			xmp_context c;
			int ret, last = 0, loops = 0, entryok = 1;
			double t0;
			if (!in)
				continue;
			cur_file = argv[i];
			cur_pos = -1;
			t0 = cpu_now();
			alarm(20);
			c = xmp_create_context();
			ret = xmp_load_module_from_memory(c, in, n);
			if (ret == 0) {
				struct xmp_module_info mi;
				struct xmp_frame_info fi;
				int s;
				xmp_get_module_info(c, &mi);
				for (s = 0; s < mi.num_sequences; s++) {
					/* sufficient part of OrdWF: the entry point holds a pattern, or an order behind it
					 * (before the end of the list / a 0xff marker) does */
					int e = mi.seq_data[s].entry_point, o, ok = 0;
					if (e >= 0 && e < mi.mod->len && mi.mod->xxo[e] < mi.mod->pat)
						ok = 1;
					for (o = e + 1; !ok && o >= 0 && o < mi.mod->len && mi.mod->xxo[o] != 0xff; o++)
						if (mi.mod->xxo[o] < mi.mod->pat)
							ok = 1;
					if (!ok)
						entryok = 0;
				}
				if (xmp_start_player(c, 8000, XMP_FORMAT_MONO) == 0) {
					while (frames < maxframes) {
						cur_pos = frames;
						last = xmp_play_frame(c);
						if (last != 0)
							break;
						frames++;
						xmp_get_frame_info(c, &fi);
						loops = fi.loop_count;
						if (loops >= 2)
							break;
					}
					xmp_end_player(c);
				}
				xmp_release_module(c);
			}
			xmp_free_context(c);
			alarm(0);
			printf("played %s load=%d frames=%ld loops=%d end=%d entryok=%d cpu=%.3f\n", argv[i], ret, frames, loops, last,
			       entryok, cpu_now() - t0);
			fflush(stdout);
			free(in);
		}
		return 0;
	}
	if (argc >= 7 && !strcmp(argv[1], "trunc")) {
		long every = atol(argv[2]), stride_to = atol(argv[3]), stride = atol(argv[4]), spread = atol(argv[5]);
		if (stride < 1)
			stride = 1;
		for (i = 6; i < argc; i++) {
			long n = 0, L, points = 0, at = 0, k;
			unsigned char *in = read_all(argv[i], &n);
			double maxcpu = 0;
			if (!in)
				continue;
			cur_file = argv[i];
			for (L = 0; L <= every && L <= n; L++, points++)
				one_prefix(in, L, &maxcpu, &at);
			for (; L <= stride_to && L <= n; L += stride, points++)
				one_prefix(in, L, &maxcpu, &at);
			if (n > L && spread > 0) {
				for (k = 1; k <= spread; k++, points++)
					one_prefix(in, L + (long)((double)(n - L) * k / spread), &maxcpu, &at);
			}
			printf("swept %s points=%ld maxcpu=%.3f at=%ld\n", argv[i], points, maxcpu, at);
			fflush(stdout);
			free(in);
		}
		return 0;
	}
#ifdef WRAP_METERS
	if (argc >= 3 && !strcmp(argv[1], "meter")) {
		for (i = 2; i < argc; i++) {
			long n = 0;
			unsigned char *in = read_all(argv[i], &n);
			struct meter m;
			if (!in)
				continue;
			cur_file = argv[i];
			cur_pos = -1;
			m = metered_load(in, n, argv[i]);
			printf("metered %s load=%d fload=%d pload=%d cpu=%.3f peak=%zu held=%zu reads=%ld eofreads=%ld\n", argv[i], m.ret, m.fret, m.pret, m.cpu,
			       m.peak, m.held, m.reads, m.eofreads);
			fflush(stdout);
			free(in);
		}
		return 0;
	}
	if (argc >= 3 && !strcmp(argv[1], "reloc")) {
		/* plausible offsets of the header (32-bit values of the first 256 bytes, 2-aligned, 0 < v < size) moved by the same
		 * large constant, per byte order: (a) all of them, (b) each run of consecutive plausible values (an offset table):
		 * the table keeps its order and distances, only its base lies */
		static const unsigned long ks[2] = { 0x40000000ul, 0x7fe00000ul };
		for (i = 2; i < argc; i++) {
			long n = 0, off, variants = 0, maxeof = 0, at = -1, start;
			unsigned char *in = read_all(argv[i], &n), *w;
			double maxcpu = 0;
			size_t maxpeak = 0;
			int be, k;
			if (!in)
				continue;
			cur_file = argv[i];
			w = (unsigned char *)malloc(n > 0 ? n : 1);
#define RD32(o) (be ? (((unsigned long)in[o] << 24) | (in[(o) + 1] << 16) | (in[(o) + 2] << 8) | in[(o) + 3]) \
		    : (((unsigned long)in[(o) + 3] << 24) | (in[(o) + 2] << 16) | (in[(o) + 1] << 8) | in[o]))
#define WR32(o, t) do { if (be) { w[o] = (t) >> 24; w[(o) + 1] = (t) >> 16; w[(o) + 2] = (t) >> 8; w[(o) + 3] = (t); } \
			else { w[(o) + 3] = (t) >> 24; w[(o) + 2] = (t) >> 16; w[(o) + 1] = (t) >> 8; w[o] = (t); } } while (0)
#define METER_VARIANT(tag) do { struct meter m; cur_pos = (tag); m = metered_load(w, n, NULL); variants++; \
			if (m.cpu > maxcpu) { maxcpu = m.cpu; at = (tag); } if (m.eofreads > maxeof) maxeof = m.eofreads; \
			if (m.peak > maxpeak) maxpeak = m.peak; } while (0)
			for (be = 0; be < 2; be++) {
				for (k = 0; k < 2; k++) {
					long moved = 0;
					memcpy(w, in, n);
					for (off = 0; off + 4 <= n && off < 256; off += 2) {
						unsigned long v = RD32(off);
						if (v > 0 && v < (unsigned long)n) {
							unsigned long t = v + ks[k] - (k ? (unsigned long)n : 0);
							WR32(off, t);
							moved++;
							off += 2;
						}
					}
					if (moved)
						METER_VARIANT(-(be * 2 + k) - 1);
				}
				for (start = 0; start + 8 <= n && start < 128; start += 2) {
					long run = 0;
					if (start >= 4) {
						unsigned long pv = RD32(start - 4);
						if (pv > 0 && pv < (unsigned long)n)
							continue;	/* not the start of a run */
					}
					memcpy(w, in, n);
					for (off = start; off + 4 <= n && off < 256; off += 4) {
						unsigned long v = RD32(off);
						if (!(v > 0 && v < (unsigned long)n))
							break;
						WR32(off, v + ks[0]);
						run++;
					}
					if (run >= 2)
						METER_VARIANT(start);
				}
			}
			printf("fieldswept %s variants=%ld maxcpu=%.3f maxeof=%ld maxpeak=%zu at=%ld\n", argv[i], variants, maxcpu, maxeof, maxpeak, at);
			fflush(stdout);
			free(w);
			free(in);
		}
		return 0;
	}
	if (argc >= 4 && !strcmp(argv[1], "fields")) {
		long full = atol(argv[2]);
		static const unsigned char vals[4][4] = { { 0x7f, 0xff, 0xff, 0xff }, { 0xff, 0xff, 0xff, 0x7f },
			{ 0xff, 0xff, 0xff, 0xff }, { 0x7f, 0xff, 0xff, 0xfe } };
		for (i = 3; i < argc; i++) {
			long n = 0, off, variants = 0, at = -1, maxeof = 0;
			unsigned char *in = read_all(argv[i], &n);
			double maxcpu = 0;
			size_t maxpeak = 0;
			if (!in)
				continue;
			cur_file = argv[i];
			/* offsets to try: everything for small files; else the first and last full/2 bytes and the 64 bytes behind
			 * every position a 32-bit value (either byte order) in the first 256 bytes points to (offset-linked formats:
			 * expansion / extension structures hang off header pointers) */
			unsigned char *mark = (unsigned char *)calloc(1, n > 0 ? n : 1);
			for (off = 0; off < n; off++)
				mark[off] = (n <= full || off < full / 2 || off >= n - full / 2);
			if (n > full) {
				for (off = 0; off + 4 <= n && off < 256; off += 2) {
					unsigned long be = ((unsigned long)in[off] << 24) | (in[off + 1] << 16) | (in[off + 2] << 8) | in[off + 3];
					unsigned long le = ((unsigned long)in[off + 3] << 24) | (in[off + 2] << 16) | (in[off + 1] << 8) | in[off];
					unsigned long t[2];
					int k;
					long j;
					t[0] = be;
					t[1] = le;
					for (k = 0; k < 2; k++)
						if (t[k] > 0 && t[k] < (unsigned long)n)
							for (j = 0; j < 64 && (long)t[k] + j < n; j++)
								mark[t[k] + j] = 1;
				}
			}
			for (off = 0; off + 4 <= n; off++) {
				unsigned char save[4];
				int v;
				if (!mark[off])
					continue;
				memcpy(save, in + off, 4);
				for (v = 0; v < 4; v++) {
					struct meter m;
					memcpy(in + off, vals[v], 4);
					cur_pos = off;
					m = metered_load(in, n, NULL);
					variants++;
					if (m.cpu > maxcpu) {
						maxcpu = m.cpu;
						at = off;
					}
					if (m.eofreads > maxeof)
						maxeof = m.eofreads;
					if (m.peak > maxpeak)
						maxpeak = m.peak;
				}
				memcpy(in + off, save, 4);
			}
			free(mark);
			printf("fieldswept %s variants=%ld maxcpu=%.3f maxeof=%ld maxpeak=%zu at=%ld\n", argv[i], variants, maxcpu, maxeof,
			       maxpeak, at);
			fflush(stdout);
			free(in);
		}
		return 0;
	}
#endif
	fprintf(stderr, "usage: %s play <maxframes> <file>... | trunc <every> <stride_to> <stride> <spread> <file>...\n", argv[0]);
	return 2;
}
