/* C03 raw-module injector.
 *
 * This translation unit supplies its own `format_loaders[]` / `format_list()`
 * (so src/format.c is not pulled from libxmp.a) with ONE synthetic loader that
 * builds `struct module_data` from an arbitrary, possibly inconsistent module
 * description.  The *real* `load_module` (src/load.c) then runs its sanity
 * gate, `libxmp_adjust_string`, `libxmp_load_epilogue`, `libxmp_prepare_scan`
 * and `libxmp_scan_sequences` on it.  src/scan.c is compiled into this unit so
 * that every call of the static `scan_module` can be observed (which orders it
 * marked in `sequence_control`, what it returned); the bookkeeping around those
 * calls is the real `libxmp_scan_sequences`.
 *
 *   c03_inject <cases> <model-input>
 *
 * <cases>: blocks `begin raw id=<n>` … `end` in the format of c03_dump.h.
 * stdout: per case `begin out id=<n>`, `rc <rc>`, `trace <ep chain>*`, the dump of the loaded
 * module when rc = 0, `end`.  <model-input>: the same blocks with the observed `scan` lines added
 * (`scan <ep> <chain> <time> <n> <orders marked>*n`), input of the Lean driver drv_c03.
 */
#include <limits.h>
#include "xmp.h"
#include "common.h"
#include "format.h"
#include "loaders/loader.h"

/* ---- spy on the static scan_module ------------------------------------ */
/* `scan_module(struct context_data *ctx, …)` (the definition) is renamed to
 * c03_real_scan_module, `scan_module(ctx, …)` (the calls) to c03_spy_scan_module. */
static int c03_spy_scan_module(struct context_data *ctx, int ep, int chain);
#define scan_module(a, b, c) C03_SM_##a, b, c)
#define C03_SM_ctx c03_spy_scan_module(ctx
#define C03_SM_struct c03_real_scan_module(struct
#include "scan.c"
#undef scan_module

#include "c03_dump.h"

static FILE *model_in;
static int n_scan_calls;
static char trace_buf[16384];
static int trace_len;

static int c03_spy_scan_module(struct context_data *ctx, int ep, int chain)
{
	unsigned char before[XMP_MAX_MOD_LENGTH];
	int t, i, n = 0;

	memcpy(before, ctx->p.sequence_control, XMP_MAX_MOD_LENGTH);
	t = c03_real_scan_module(ctx, ep, chain);
	for (i = 0; i < XMP_MAX_MOD_LENGTH; i++)
		n += before[i] != ctx->p.sequence_control[i];
	fprintf(model_in, "scan %d %d %d %d", ep, chain, t, n);
	for (i = 0; i < XMP_MAX_MOD_LENGTH; i++) {
		if (before[i] != ctx->p.sequence_control[i])
			fprintf(model_in, " %d", i);
	}
	fputc('\n', model_in);
	if (trace_len < (int)sizeof(trace_buf) - 32)
		trace_len += sprintf(trace_buf + trace_len, " %d %d", ep, chain);
	n_scan_calls++;
	return t;
}

/* ---- raw description --------------------------------------------------- */

struct raw_env { unsigned flg; int npt, sus, sue, lps, lpe, n; int data[XMP_MAX_ENV_POINTS * 2]; };
struct raw_pat { int present, rows, n; int *idx; };
struct raw_ins { unsigned char name[32]; int vol, nsm, nsub; int *gvl; int *sid; struct raw_env e[3]; int ne; };
struct raw_smp { unsigned char name[32]; int len, lps, lpe; unsigned flg; int hasdata, xsus, xsue; };

struct raw_case {
	int pat, trk, chn, ins, smp, spd, bpm, len, rst, gvl, volbase, gvol;
	unsigned quirk;
	unsigned char name[XMP_NAME_SIZE], type[XMP_NAME_SIZE], xxo[XMP_MAX_MOD_LENGTH];
	int xxc[XMP_MAX_CHANNELS][3];
	int xxp_present, xxt_present;
	int np, cp; struct raw_pat *p;
	int nt; int *trows;
	int ni, ci; struct raw_ins *i;
	int ns, cs; struct raw_smp *s;
	int nev, cev; int (*ev)[4];	/* track, row, fxt, fxp: flow events for the real scan_module */
};

static struct raw_case cur;
static int *sub_alloc;

static void free_case(void)
{
	int k;
	for (k = 0; k < cur.np; k++) free(cur.p[k].idx);
	free(cur.p);
	free(cur.trows);
	for (k = 0; k < cur.ni; k++) { free(cur.i[k].gvl); free(cur.i[k].sid); }
	free(cur.i);
	free(cur.s);
	free(cur.ev);
	memset(&cur, 0, sizeof(cur));
}

static long next_int(char **s)
{
	char *e;
	long v;
	while (**s == ' ') (*s)++;
	if (**s == 'N') {
		(*s)++;
		return LONG_MIN;
	}
	v = strtol(*s, &e, 10);
	*s = e;
	return v;
}

static char *next_tok(char **s)
{
	char *b;
	while (**s == ' ') (*s)++;
	b = *s;
	while (**s && **s != ' ') (*s)++;
	if (**s) {
		**s = 0;
		(*s)++;
	}
	return b;
}

static void hex_into(const char *h, unsigned char *dst, size_t cap)
{
	unsigned char *b = NULL;
	long n = get_hex(h, &b);
	memset(dst, 0, cap);
	if (n > 0)
		memcpy(dst, b, (size_t)n < cap ? (size_t)n : cap);
	free(b);
}

static void parse_line(char *line)
{
	char *s = line;
	char *kw = next_tok(&s);
	int k;

	if (!strcmp(kw, "mod")) {
		cur.pat = next_int(&s); cur.trk = next_int(&s); cur.chn = next_int(&s); cur.ins = next_int(&s);
		cur.smp = next_int(&s); cur.spd = next_int(&s); cur.bpm = next_int(&s); cur.len = next_int(&s);
		cur.rst = next_int(&s); cur.gvl = next_int(&s); cur.volbase = next_int(&s); cur.gvol = next_int(&s);
		cur.quirk = (unsigned)strtoul(s, NULL, 10);
	} else if (!strcmp(kw, "name")) {
		hex_into(next_tok(&s), cur.name, sizeof(cur.name));
	} else if (!strcmp(kw, "type")) {
		hex_into(next_tok(&s), cur.type, sizeof(cur.type));
	} else if (!strcmp(kw, "xxo")) {
		hex_into(next_tok(&s), cur.xxo, sizeof(cur.xxo));
	} else if (!strcmp(kw, "xxc")) {
		for (k = 0; k < XMP_MAX_CHANNELS; k++) {
			cur.xxc[k][0] = next_int(&s); cur.xxc[k][1] = next_int(&s); cur.xxc[k][2] = next_int(&s);
		}
	} else if (!strcmp(kw, "tab")) {
		cur.xxp_present = next_int(&s); cur.xxt_present = next_int(&s);
	} else if (!strcmp(kw, "p")) {
		struct raw_pat *p;
		if (cur.np == cur.cp) {
			cur.cp = cur.cp ? cur.cp * 2 : 64;
			cur.p = (struct raw_pat *)realloc(cur.p, cur.cp * sizeof(*cur.p));
		}
		p = &cur.p[cur.np++];
		next_int(&s);
		p->present = next_int(&s); p->rows = next_int(&s); p->n = next_int(&s);
		p->idx = (int *)calloc(p->n > 0 ? p->n : 1, sizeof(int));
		for (k = 0; k < p->n; k++) p->idx[k] = next_int(&s);
	} else if (!strcmp(kw, "xxt")) {
		cur.nt = next_int(&s);
		cur.trows = (int *)calloc(cur.nt > 0 ? cur.nt : 1, sizeof(int));
		for (k = 0; k < cur.nt; k++) {
			long v = next_int(&s);
			cur.trows[k] = v == LONG_MIN ? INT_MIN : (int)v;
		}
	} else if (!strcmp(kw, "i")) {
		struct raw_ins *x;
		if (cur.ni == cur.ci) {
			cur.ci = cur.ci ? cur.ci * 2 : 64;
			cur.i = (struct raw_ins *)realloc(cur.i, cur.ci * sizeof(*cur.i));
		}
		x = &cur.i[cur.ni++];
		memset(x, 0, sizeof(*x));
		next_int(&s);
		hex_into(next_tok(&s), x->name, sizeof(x->name));
		x->vol = next_int(&s); x->nsm = next_int(&s); x->nsub = next_int(&s);
		x->gvl = (int *)calloc(x->nsub > 0 ? x->nsub : 1, sizeof(int));
		for (k = 0; k < x->nsub; k++) x->gvl[k] = next_int(&s);
	} else if (!strcmp(kw, "u")) {
		if (cur.ni > 0) {
			struct raw_ins *x = &cur.i[cur.ni - 1];
			int n;
			next_int(&s);
			n = next_int(&s);
			free(x->sid);
			x->sid = (int *)calloc(x->nsub > 0 ? x->nsub : 1, sizeof(int));
			for (k = 0; k < n && k < x->nsub; k++) x->sid[k] = next_int(&s);
		}
	} else if (!strcmp(kw, "e")) {
		if (cur.ni > 0 && cur.i[cur.ni - 1].ne < 3) {
			struct raw_ins *x = &cur.i[cur.ni - 1];
			struct raw_env *e = &x->e[x->ne++];
			e->flg = (unsigned)next_int(&s); e->npt = next_int(&s); e->sus = next_int(&s); e->sue = next_int(&s);
			e->lps = next_int(&s); e->lpe = next_int(&s); e->n = next_int(&s);
			for (k = 0; k < e->n && k < XMP_MAX_ENV_POINTS * 2; k++) e->data[k] = next_int(&s);
		}
	} else if (!strcmp(kw, "tev")) {
		if (cur.nev == cur.cev) {
			cur.cev = cur.cev ? cur.cev * 2 : 16;
			cur.ev = (int (*)[4])realloc(cur.ev, cur.cev * sizeof(*cur.ev));
		}
		for (k = 0; k < 4; k++) cur.ev[cur.nev][k] = next_int(&s);
		cur.nev++;
	} else if (!strcmp(kw, "s")) {
		struct raw_smp *x;
		if (cur.ns == cur.cs) {
			cur.cs = cur.cs ? cur.cs * 2 : 64;
			cur.s = (struct raw_smp *)realloc(cur.s, cur.cs * sizeof(*cur.s));
		}
		x = &cur.s[cur.ns++];
		memset(x, 0, sizeof(*x));
		next_int(&s);
		hex_into(next_tok(&s), x->name, sizeof(x->name));
		x->len = next_int(&s); x->lps = next_int(&s); x->lpe = next_int(&s); x->flg = (unsigned)next_int(&s);
		x->hasdata = next_int(&s); next_int(&s); x->xsus = next_int(&s); x->xsue = next_int(&s);
	}
}

/* ---- the synthetic format loader -------------------------------------- */

#define CAP (1 << 20)
static int slots(int have, int count)
{
	int n = have;
	if (count > n) n = count;
	if (n > CAP) n = CAP;
	if (n < 1) n = 1;
	return n;
}

static int raw_test(HIO_HANDLE *f, char *t, const int start)
{
	(void)f; (void)t; (void)start;
	return 0;
}

static void put_env(struct xmp_envelope *d, const struct raw_env *e)
{
	int k;
	d->flg = (int)e->flg; d->npt = e->npt; d->sus = e->sus; d->sue = e->sue; d->lps = e->lps; d->lpe = e->lpe;
	for (k = 0; k < XMP_MAX_ENV_POINTS * 2; k++) d->data[k] = (short)e->data[k];
}

static int raw_load(struct module_data *m, HIO_HANDLE *f, const int start)
{
	struct xmp_module *mod = &m->mod;
	int k, j, n;
	(void)f; (void)start;

	memcpy(mod->name, cur.name, XMP_NAME_SIZE);
	memcpy(mod->type, cur.type, XMP_NAME_SIZE);
	memcpy(mod->xxo, cur.xxo, XMP_MAX_MOD_LENGTH);
	mod->pat = cur.pat; mod->trk = cur.trk; mod->chn = cur.chn; mod->ins = cur.ins; mod->smp = cur.smp;
	mod->spd = cur.spd; mod->bpm = cur.bpm; mod->len = cur.len; mod->rst = cur.rst; mod->gvl = cur.gvl;
	m->volbase = cur.volbase; m->gvol = cur.gvol; m->quirk = (int)cur.quirk;
	for (k = 0; k < XMP_MAX_CHANNELS; k++) {
		mod->xxc[k].pan = cur.xxc[k][0]; mod->xxc[k].vol = cur.xxc[k][1]; mod->xxc[k].flg = cur.xxc[k][2];
	}
	/* tables are always at least as long as the counts (the loaders' contract) */
	if (cur.xxp_present) {
		n = slots(cur.np, cur.pat);
		mod->xxp = (struct xmp_pattern **)calloc(n, sizeof(struct xmp_pattern *));
		for (k = 0; k < cur.np; k++) {
			const struct raw_pat *p = &cur.p[k];
			int ni = p->n > XMP_MAX_CHANNELS ? p->n : XMP_MAX_CHANNELS;
			if (!p->present)
				continue;
			mod->xxp[k] = (struct xmp_pattern *)calloc(1, sizeof(struct xmp_pattern) + sizeof(int) * ni);
			mod->xxp[k]->rows = p->rows;
			for (j = 0; j < p->n; j++)
				mod->xxp[k]->index[j] = p->idx[j];
		}
	}
	if (cur.xxt_present) {
		n = slots(cur.nt, cur.trk);
		mod->xxt = (struct xmp_track **)calloc(n, sizeof(struct xmp_track *));
		for (k = 0; k < cur.nt; k++) {
			int rows = cur.trows[k];
			int alloc_rows;
			if (rows == INT_MIN)
				continue;
			alloc_rows = rows < 1 ? 1 : rows > 4096 ? 4096 : rows;
			mod->xxt[k] = (struct xmp_track *)calloc(1, sizeof(struct xmp_track) +
								 sizeof(struct xmp_event) * alloc_rows);
			mod->xxt[k]->rows = rows > 4096 ? 4096 : rows;
		}
		for (k = 0; k < cur.nev; k++) {
			int t = cur.ev[k][0], row = cur.ev[k][1];
			if (t >= 0 && t < cur.nt && mod->xxt[t] != NULL && row >= 0 && row < mod->xxt[t]->rows) {
				mod->xxt[t]->event[row].fxt = (unsigned char)cur.ev[k][2];
				mod->xxt[t]->event[row].fxp = (unsigned char)cur.ev[k][3];
			}
		}
	}
	n = slots(cur.ni, cur.ins);
	mod->xxi = (struct xmp_instrument *)calloc(n, sizeof(struct xmp_instrument));
	sub_alloc = (int *)calloc(n, sizeof(int));
	for (k = 0; k < n; k++)
		sub_alloc[k] = -1;
	for (k = 0; k < cur.ni; k++) {
		const struct raw_ins *x = &cur.i[k];
		struct xmp_instrument *d = &mod->xxi[k];
		memcpy(d->name, x->name, 32);
		d->vol = x->vol;
		d->nsm = x->nsm;
		if (x->nsub >= 0) {
			d->sub = (struct xmp_subinstrument *)calloc(x->nsub > 0 ? x->nsub : 1,
								    sizeof(struct xmp_subinstrument));
			for (j = 0; j < x->nsub; j++) {
				d->sub[j].gvl = x->gvl[j];
				d->sub[j].sid = x->sid ? x->sid[j] : 0;
			}
			sub_alloc[k] = x->nsub;
		}
		put_env(&d->aei, &x->e[0]);
		put_env(&d->pei, &x->e[1]);
		put_env(&d->fei, &x->e[2]);
	}
	n = slots(cur.ns, cur.smp);
	mod->xxs = (struct xmp_sample *)calloc(n, sizeof(struct xmp_sample));
	m->xtra = (struct extra_sample_data *)calloc(n, sizeof(struct extra_sample_data));
	for (k = 0; k < cur.ns; k++) {
		const struct raw_smp *x = &cur.s[k];
		struct xmp_sample *d = &mod->xxs[k];
		memcpy(d->name, x->name, 32);
		d->len = x->len; d->lps = x->lps; d->lpe = x->lpe; d->flg = (int)x->flg;
		if (x->hasdata) {
			d->data = (unsigned char *)calloc(1, 64);
			d->data += 4;
		}
		m->xtra[k].sus = x->xsus;
		m->xtra[k].sue = x->xsue;
		m->xtra[k].c5spd = m->c4rate;
	}
	return 0;
}

static const struct format_loader c03_raw_loader = { "C03 raw module", raw_test, raw_load };

const struct format_loader *const format_loaders[NUM_FORMATS + 2] = { &c03_raw_loader, NULL };

const char *const *format_list(void)
{
	static const char *const l[] = { "C03 raw module", NULL };
	return l;
}

/* the injector's samples carry a 64-byte block whatever `len` says: the guard frames are not probed */
static void dump_loaded(struct context_data *ctx)
{
	c03_no_guard_probe = 1;
	c03_dump(stdout, ctx, sub_alloc);
}

int main(int argc, char **argv)
{
	FILE *in;
	char *line = NULL;
	size_t cap = 0;
	ssize_t n;
	int in_case = 0;
	char id[128] = "";

	if (argc < 3) {
		fprintf(stderr, "usage: c03_inject <cases> <model-input>\n");
		return 2;
	}
	in = fopen(argv[1], "r");
	model_in = fopen(argv[2], "w");
	if (!in || !model_in) {
		perror("open");
		return 2;
	}
	while ((n = getline(&line, &cap, in)) > 0) {
		while (n > 0 && (line[n - 1] == '\n' || line[n - 1] == '\r'))
			line[--n] = 0;
		if (!strncmp(line, "begin raw", 9)) {
			const char *p = strstr(line, "id=");
			snprintf(id, sizeof(id), "%s", p ? p : "id=?");
			free_case();
			in_case = 1;
			fprintf(model_in, "%s\n", line);
			continue;
		}
		if (!in_case)
			continue;
		if (strcmp(line, "end")) {
			fprintf(model_in, "%s\n", line);
			parse_line(line);
			continue;
		}
		/* run the real load_module on it */
		{
			xmp_context opaque = xmp_create_context();
			struct context_data *ctx = (struct context_data *)opaque;
			int rc;
			n_scan_calls = 0;
			trace_len = 0;
			trace_buf[0] = 0;
			sub_alloc = NULL;
			rc = xmp_load_module_from_memory(opaque, "C03", 3);
			printf("begin out %s\nrc %d\n", id, rc);
			if (rc == 0) {
				printf("trace%s\n", trace_buf);
				dump_loaded(ctx);
				xmp_release_module(opaque);
			}
			puts("end");
			fputs("end\n", model_in);
			xmp_free_context(opaque);
			free(sub_alloc);
			sub_alloc = NULL;
		}
		in_case = 0;
	}
	fclose(model_in);
	return 0;
}
