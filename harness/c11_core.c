/* C11 correspondence harness for the four core test functions (real code side).
 *
 * usage: c11_core hdr   <seed> <ncases>
 *        c11_core files <seed> <nvariants> <file...>
 *
 * Output: lines `Q <request for lean/Drv/C11.lean>` / `A <what the real code answered>`, compared by
 * tools/checks/c11.py with the answers of the native Lean driver (model: XmpModel/TestLoadCore.lean).
 *
 *   Q ct <fmt> <hex data>    A ct <rc t!=NULL> <hex of the 64-byte title buffer> <hio_tell> <rc t==NULL> <hio_tell>
 *       the REAL libxmp_loader_{xm,mod,it,s3m}.test on a memory handle at offset 0; the buffer is prefilled
 *       the way test_module does (0xDD everywhere, buf[0] = 0).  The same call on a FILE handle and on a
 *       callback handle must give the same return value and buffer: a difference is printed as an extra
 *       `A backend ...` line (the model has no such line: reported as a correspondence failure).
 *   Q cw <hex data>          A cw <rc> <hex type string> <hex of info.name[64]>
 *       xmp_test_module_from_memory with the real format_loaders[]: the four core loaders are its head, so the
 *       model of the four-entry table predicts the result whenever one of them accepts.
 *   Q cn <fmt> <hex of the first 64 bytes>    A cn <hex of mod->name[64]>
 *       xmp_load_module_from_memory succeeded with that loader: the title it left in the module.
 *
 * hdr  : generated headers of the four formats (magic tables, near misses, boundary finetune / volume values,
 *        UNIC-sized files, bad pattern cells, truncations at and around every offset the tests look at), every
 *        input probed by all four test functions.
 * files: real modules of the four formats with the title field overwritten (unprintable bytes, NULs, blanks).
 */
#include "vcommon.h"
#include <unistd.h>
#include <xmp.h>
#include "common.h"
#include "hio.h"
#include "format.h"

static const struct format_loader *core[4];
static const char *const core_tag[4] = { "xm", "mod", "it", "s3m" };
static const int title_off[4] = { 17, 0, 4, 0 };
static const int title_len[4] = { 20, 20, 26, 28 };

/* ------------------------------------------------------------------ callbacks (seeks past the end allowed, like fseek) */

struct cbdata {
	const unsigned char *p;
	long size, pos;
};

static unsigned long cb_read(void *dest, unsigned long len, unsigned long nmemb, void *priv)
{
	struct cbdata *c = (struct cbdata *)priv;
	unsigned long want = len * nmemb, avail = c->pos < c->size ? (unsigned long)(c->size - c->pos) : 0, n;
	if (len == 0)
		return 0;
	n = want < avail ? want : avail;
	memcpy(dest, c->p + c->pos, n);
	c->pos += n;
	return n / len;
}

static int cb_seek(void *priv, long offset, int whence)
{
	struct cbdata *c = (struct cbdata *)priv;
	long np = whence == SEEK_SET ? offset : whence == SEEK_CUR ? c->pos + offset : c->size + offset;
	if (np < 0)
		return -1;
	c->pos = np;
	return 0;
}

static long cb_tell(void *priv)
{
	return ((struct cbdata *)priv)->pos;
}

/* ------------------------------------------------------------------ one probe */

static void fill_buf(char *buf)
{
	memset(buf, 0xDD, XMP_NAME_SIZE);
	buf[0] = 0;
}

static void case_ct(int k, const unsigned char *data, long size)
{
	char buf[XMP_NAME_SIZE], buf2[XMP_NAME_SIZE];
	HIO_HANDLE *h;
	int rc, rcn, rc2;
	long pos, posn;
	static const unsigned char nothing[1] = { 0 };
	const unsigned char *d = size > 0 ? data : nothing;

	printf("Q ct %s ", core_tag[k]);
	put_hex(stdout, data, size);
	printf("\n");

	/* hio_open_const_mem refuses size <= 0; xmp_test_module_from_memory never opens such a buffer either */
	if (size <= 0) {
		printf("A ct skip\n");
		return;
	}
	h = hio_open_const_mem(d, size);
	fill_buf(buf);
	rc = core[k]->test(h, buf, 0);
	pos = hio_tell(h);
	hio_close(h);
	h = hio_open_const_mem(d, size);
	rcn = core[k]->test(h, NULL, 0);
	posn = hio_tell(h);
	hio_close(h);
	printf("A ct %d ", rc);
	put_hex(stdout, buf, XMP_NAME_SIZE);
	printf(" %ld %d %ld\n", pos, rcn, posn);

	/* FILE back-end */
	{
		FILE *fp = tmpfile();
		if (fp != NULL) {
			fwrite(d, 1, size, fp);
			fflush(fp);
			rewind(fp);
			h = hio_open_file(fp);
			if (h != NULL) {
				fill_buf(buf2);
				rc2 = core[k]->test(h, buf2, 0);
				hio_close(h);
				if (rc2 != rc || memcmp(buf, buf2, XMP_NAME_SIZE) != 0) {
					printf("A backend file rc %d vs %d buf ", rc2, rc);
					put_hex(stdout, buf2, XMP_NAME_SIZE);
					printf("\n");
				}
			}
			fclose(fp);
		}
	}
	/* callback back-end */
	{
		struct cbdata c;
		struct xmp_callbacks cbs;
		c.p = d;
		c.size = size;
		c.pos = 0;
		cbs.read_func = cb_read;
		cbs.seek_func = cb_seek;
		cbs.tell_func = cb_tell;
		cbs.close_func = NULL;
		h = hio_open_callbacks(&c, cbs);
		if (h != NULL) {
			fill_buf(buf2);
			rc2 = core[k]->test(h, buf2, 0);
			hio_close(h);
			if (rc2 != rc || memcmp(buf, buf2, XMP_NAME_SIZE) != 0) {
				printf("A backend callbacks rc %d vs %d buf ", rc2, rc);
				put_hex(stdout, buf2, XMP_NAME_SIZE);
				printf("\n");
			}
		}
	}
}

/* returns the index of the core loader that took it, -1 otherwise */
static int case_cw(const unsigned char *data, long size)
{
	struct xmp_test_info ti;
	int rc, k;

	if (size <= 0)
		return -1;
	memset(&ti, 0x55, sizeof(ti));
	printf("Q cw ");
	put_hex(stdout, data, size);
	printf("\n");
	rc = xmp_test_module_from_memory(data, size, &ti);
	printf("A cw %d ", rc);
	put_hex(stdout, ti.type, strnlen(ti.type, XMP_NAME_SIZE));
	printf(" ");
	put_hex(stdout, ti.name, XMP_NAME_SIZE);
	printf("\n");
	if (rc != 0)
		return -1;
	for (k = 0; k < 4; k++) {
		if (strcmp(ti.type, core[k]->name) == 0)
			return k;
	}
	return -1;
}

static void case_cn(int k, const unsigned char *data, long size)
{
	xmp_context ctx = xmp_create_context();
	int rc = xmp_load_module_from_memory(ctx, data, size);
	if (rc == 0) {
		struct context_data *c = (struct context_data *)ctx;
		printf("Q cn %s ", core_tag[k]);
		put_hex(stdout, data, size < 64 ? size : 64);
		printf("\nA cn ");
		put_hex(stdout, c->m.mod.name, XMP_NAME_SIZE);
		printf("\n");
		xmp_release_module(ctx);
	}
	xmp_free_context(ctx);
}

/* ------------------------------------------------------------------ generators */

static unsigned char rnd_title_byte(void)
{
	unsigned char c;
	do {
		switch (vrng_below(12)) {
		case 0:
			c = 0;
			break;
		case 1:
		case 2:
			c = ' ';
			break;
		case 3:
			c = (unsigned char)vrng_range(1, 31);
			break;
		case 4:
			c = (unsigned char)vrng_range(127, 255);
			break;
		case 5:
			c = '.';
			break;
		default:
			c = (unsigned char)vrng_range(33, 126);
		}
	} while (c == 0xDD);
	return c;
}

static void rnd_title(unsigned char *p, int n)
{
	int i, style = vrng_below(6);
	for (i = 0; i < n; i++) {
		p[i] = rnd_title_byte();
		if (style == 0 && i >= n - 4)
			p[i] = ' ';		/* trailing blanks up to the end of the field */
		if (style == 1 && p[i] == 0)
			p[i] = 'x';		/* no terminator inside the field */
		if (style == 2 && i > n / 2)
			p[i] = 0;
	}
	if (style == 3)
		memset(p, ' ', n);
	if (style == 4)
		memset(p, 0, n);
}

static const char *const mod_magics[] = {
	"M.K.", "M!K!", "M&K!", "N.T.", "6CHN", "8CHN", "CD61", "CD81", "TDZ1", "TDZ2", "TDZ3", "TDZ4",
	"FA04", "FA06", "FA08", "LARD", "NSMS",
	/* near misses and the digit rules */
	"0CHN", "1CHN", "9CHN", ":CHN", "/CHN", "4CHn", "00CH", "01CH", "10CH", "32CH", "33CH", "99CH", "1:CH", "/1CH",
	"M.K,", "m.k.", "FLT4", "FLT8", "EXO4", "OCTA", "CD60", "TDZ5", "FA05", "M\0K.", "\0\0\0\0", "2CH\0", "CHN1"
};

static void put16b(unsigned char *p, int v)
{
	p[0] = (unsigned char)(v >> 8);
	p[1] = (unsigned char)v;
}

/* a MOD-shaped buffer; returns its size (<= cap) */
static long gen_mod(unsigned char *b, long cap)
{
	int npat_tbl = vrng_range(0, 5), nfile_pat, i, j, mode = vrng_below(10);
	long smp = 0, size;
	/* "M.K." is the only magic that reaches the UNIC / pattern validation stage (6CHN and 8CHN match the digit rule first) */
	const char *mg = vrng_chance(45) ? "M.K." : mod_magics[vrng_below(sizeof(mod_magics) / sizeof(mod_magics[0]))];

	memset(b, 0, cap);
	rnd_title(b, 20);
	for (i = 0; i < 31; i++) {
		unsigned char *h = b + 20 + 30 * i;
		int len = vrng_chance(30) ? vrng_range(0, 40) : 0;
		rnd_title(h, 22);
		put16b(h + 22, len);
		smp += 2 * len;
		h[24] = (unsigned char)vrng_below(16);
		h[25] = (unsigned char)vrng_range(0, 0x40);
		put16b(h + 26, vrng_range(0, 20));
		put16b(h + 28, vrng_range(0, 20));
	}
	/* boundary finetune / volume values in a few headers */
	if (mode < 4) {
		static const unsigned char fines[] = { 0x0f, 0x10, 0x20, 0x21, 0x1f, 0x80, 0xf0, 0xff, 0x2f };
		static const unsigned char vols[] = { 0x40, 0x41, 0x7f, 0x80, 0xff, 0x3f };
		int n = vrng_range(1, 2);
		for (j = 0; j < n; j++) {
			unsigned char *h = b + 20 + 30 * vrng_below(31);
			if (vrng_chance(50))
				h[24] = fines[vrng_below(sizeof(fines))];
			else
				h[25] = vols[vrng_below(sizeof(vols))];
		}
	}
	b[950] = (unsigned char)vrng_range(0, 128);
	b[951] = (unsigned char)vrng_below(256);
	for (i = 0; i < 128; i++)
		b[952 + i] = (unsigned char)vrng_range(0, npat_tbl);
	if (vrng_chance(25))
		b[952 + vrng_below(128)] = (unsigned char)vrng_range(0x80, 0xff);	/* stops the scan */
	if (vrng_chance(10))
		b[952] = 0x80;
	memcpy(b + 1080, mg, 4);
	if (vrng_chance(5)) {
		for (i = 0; i < 4; i++)
			b[1080 + i] = (unsigned char)vrng_below(256);
	}
	/* number of patterns the scan will find */
	{
		int mx = 0;
		for (i = 0; i < 128; i++) {
			if (b[952 + i] > 0x7f)
				break;
			if (b[952 + i] > mx)
				mx = b[952 + i];
		}
		nfile_pat = mx + 1;
	}
	/* pattern data: mostly valid cells, a chosen number of bad patterns */
	{
		int nbad = vrng_below(5), total = nfile_pat + (int)vrng_below(2);
		for (i = 0; i < total && 1084 + 1024L * (i + 1) <= cap; i++) {
			unsigned char *p = b + 1084 + 1024 * i;
			for (j = 0; j < 1024; j++)
				p[j] = (unsigned char)((j & 3) == 0 ? vrng_below(0x20) : vrng_below(256));
			if (i < nbad) {
				int cell = vrng_chance(30) ? 255 : (int)vrng_below(256);
				p[4 * cell] = (unsigned char)vrng_range(0x20, 0xff);
			}
		}
		size = 1084 + 1024L * total + smp;
	}
	switch (mode) {
	case 4:		/* exactly the UNIC size */
		size = 1084 + 0x300L * nfile_pat + smp;
		break;
	case 5:		/* one byte off the UNIC size */
		size = 1084 + 0x300L * nfile_pat + smp + (vrng_chance(50) ? 1 : -1);
		break;
	case 6:		/* cut inside the pattern data */
		size = 1084 + vrng_range(0, 1024 * nfile_pat);
		break;
	case 7:		/* cut around the magic */
		size = vrng_range(1076, 1090);
		break;
	case 8:		/* cut anywhere in the header */
		size = vrng_range(1, 1084);
		break;
	default:
		break;
	}
	if (size > cap)
		size = cap;
	if (size < 1)
		size = 1;
	return size;
}

static long gen_s3m(unsigned char *b, long cap)
{
	long size = vrng_range(96, 160);
	int i, mode = vrng_below(10);
	for (i = 0; i < size; i++)
		b[i] = (unsigned char)vrng_below(256);
	rnd_title(b, 28);
	b[28] = 0x1a;
	b[29] = 0x10;
	memcpy(b + 44, "SCRM", 4);
	if (mode == 0)
		b[29] = (unsigned char)(vrng_chance(50) ? 0x11 : vrng_below(256));
	if (mode == 1)
		b[44 + vrng_below(4)] ^= (unsigned char)(1 << vrng_below(8));
	if (mode == 2)
		size = vrng_range(1, 50);
	if (mode == 3)
		size = vrng_range(44, 49);
	if (mode == 4)
		size = vrng_range(26, 31);
	(void)cap;
	return size;
}

static long gen_xm(unsigned char *b, long cap)
{
	long size = vrng_range(60, 120);
	int i, mode = vrng_below(10);
	for (i = 0; i < size; i++)
		b[i] = (unsigned char)vrng_below(256);
	memcpy(b, "Extended Module: ", 17);
	rnd_title(b + 17, 20);
	b[37] = 0x1a;
	if (mode == 0)
		b[vrng_below(17)] ^= (unsigned char)(1 << vrng_below(8));
	if (mode == 1)
		size = vrng_range(1, 18);
	if (mode == 2)
		size = vrng_range(17, 38);
	if (mode == 3)
		b[16] = 0;
	(void)cap;
	return size;
}

static long gen_it(unsigned char *b, long cap)
{
	long size = vrng_range(40, 200);
	int i, mode = vrng_below(10);
	for (i = 0; i < size; i++)
		b[i] = (unsigned char)vrng_below(256);
	memcpy(b, "IMPM", 4);
	rnd_title(b + 4, 26);
	if (mode == 0)
		b[vrng_below(4)] ^= (unsigned char)(1 << vrng_below(8));
	if (mode == 1)
		size = vrng_range(1, 5);
	if (mode == 2)
		size = vrng_range(4, 31);
	if (mode == 3)
		memcpy(b, "IMPS", 4);
	(void)cap;
	return size;
}

/* something that satisfies two tests at once: an XM / IT id in front of a MOD or S3M header */
static long gen_mixed(unsigned char *b, long cap)
{
	long size;
	if (vrng_chance(50)) {
		size = gen_mod(b, cap);
		if (vrng_chance(50))
			memcpy(b, "Extended Module: ", 17);
		else
			memcpy(b, "IMPM", 4);
		if (vrng_chance(30) && size > 48) {
			memcpy(b + 44, "SCRM", 4);
			b[29] = 0x10;
		}
	} else {
		size = gen_s3m(b, cap);
		if (vrng_chance(50))
			memcpy(b, "Extended Module: ", 17);
		else
			memcpy(b, "IMPM", 4);
	}
	return size;
}

#define CAP (1084 + 1024 * 8 + 31 * 2 * 40 + 64)

static void mode_hdr(int n)
{
	unsigned char *b = (unsigned char *)malloc(CAP);
	int i, k;
	for (i = 0; i < n; i++) {
		long size;
		int which = vrng_below(10);
		if (which < 5)
			size = gen_mod(b, CAP);
		else if (which < 6)
			size = gen_s3m(b, CAP);
		else if (which < 7)
			size = gen_xm(b, CAP);
		else if (which < 8)
			size = gen_it(b, CAP);
		else
			size = gen_mixed(b, CAP);
		for (k = 0; k < 4; k++)
			case_ct(k, b, size);
		case_cw(b, size);
	}
	free(b);
}

static void mode_files(int nvar, int nfiles, char **files)
{
	int i, v;
	for (i = 0; i < nfiles; i++) {
		long size;
		unsigned char *d = read_file(files[i], &size);
		if (d == NULL || size <= 0 || size > 49152) {
			free(d);
			continue;
		}
		for (v = 0; v <= nvar; v++) {
			int k;
			/* which core loader takes the untouched file? */
			struct xmp_test_info ti;
			k = -1;
			if (xmp_test_module_from_memory(d, size, &ti) == 0) {
				int j;
				for (j = 0; j < 4; j++) {
					if (strcmp(ti.type, core[j]->name) == 0)
						k = j;
				}
			}
			if (k < 0)
				break;
			if (v > 0 && title_off[k] + title_len[k] <= size)
				rnd_title(d + title_off[k], title_len[k]);
			case_ct(k, d, size);
			if (case_cw(d, size) == k)
				case_cn(k, d, size);
		}
		free(d);
	}
}

int main(int argc, char **argv)
{
	if (argc < 4) {
		fprintf(stderr, "usage: c11_core hdr|files <seed> <n> [file...]\n");
		return 2;
	}
	core[0] = &libxmp_loader_xm;
	core[1] = &libxmp_loader_mod;
	core[2] = &libxmp_loader_it;
	core[3] = &libxmp_loader_s3m;
	vrng_seed(strtoull(argv[2], NULL, 10));
	if (strcmp(argv[1], "hdr") == 0)
		mode_hdr(atoi(argv[3]));
	else if (strcmp(argv[1], "files") == 0)
		mode_files(atoi(argv[3]), argc - 4, argv + 4);
	else
		return 2;
	return 0;
}
