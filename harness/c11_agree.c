/* C11 direct oracle: the property as stated, evaluated on the real library.
 *
 * usage: c11_agree run <seed> <nmut> <maxsize> <scratchdir> <bystander-module> <file>...
 *        c11_agree cases <scratchdir> <bystander-module> <listfile>     (lines: <variant> TAB <path>)
 *        c11_agree replay <scratchdir> <bystander-module> <file> <variant>
 *
 * For every file: the original bytes and <nmut> mutated variants (truncations, bit flips, both)
 * are pushed through the four entry-point pairs
 *      path      xmp_test_module                / xmp_load_module
 *      file      xmp_test_module_from_file      / xmp_load_module_from_file
 *      memory    xmp_test_module_from_memory    / xmp_load_module_from_memory
 *      callbacks xmp_test_module_from_callbacks / xmp_load_module_from_callbacks
 * and checked:
 *   vocab   both return values are 0 or a documented error code (-FORMAT, -LOAD, -DEPACK, -SYSTEM, -INVALID)
 *   rc      test = 0 <-> load in {0, -LOAD, -SYSTEM}; test = -FORMAT <-> load = -FORMAT; otherwise equal
 *           (file pair: only when libxmp_decrunch leaves the stream alone, i.e. a non-container input)
 *   strings test failed: name and type empty; test ok: both NUL-terminated inside their 64 bytes
 *           (xmp_test_info is pre-filled with non-zero junk)
 *   title   printed for the check, which evaluates the Lean relation `titleMatch` through the driver
 *   uninit  (MemorySanitizer build only) the bytes of the reported title up to its NUL are initialised
 *   context digest of a loaded + playing bystander context before/after every test call
 *   file    the caller's FILE is usable after xmp_test_module_from_file (fseek/ftell/ferror/fread)
 *   premise on the memory pair the real format_loaders[] are walked the way load.c does: every test()
 *           returns the same value with and without a title buffer, never a positive value, and the first
 *           loader answering 0 is the one xmp_test_module reports
 *
 * Every file is handled in a forked child so that a crash inside the library is attributed to the
 * variant/pair/stage announced by the last `B` line and the run continues.
 *
 * Output lines:
 *   F <path>                                  file begins
 *   B <variant> <pair> <stage>                about to run (crash attribution)
 *   R <variant> <pair> <test rc> <load rc> <container 0|1> <hex type>
 *   T <variant> <pair> <hex test title> <hex loaded title> <hex type>
 *   V <kind> <variant> <pair> <detail>        property violated (kind: rc strings uninit context file)
 *   P <kind> <variant> <loader> <detail>      a premise of the agreement theorem fails on the real loaders
 *   X <what> <status>                         child crashed / timed out (after the last B line)
 *   E <path>                                  file done
 */
#ifndef _GNU_SOURCE
#define _GNU_SOURCE	/* memmem */
#endif
#include "vcommon.h"
#include <unistd.h>
#include <signal.h>
#include <sys/wait.h>
#include <xmp.h>
#include "common.h"
#include "hio.h"
#include "format.h"
#include "loader.h"
#include "depackers/depacker.h"
#include "player.h"
#include "mixer.h"
#include "virtual.h"

#if defined(__has_feature)
#if __has_feature(memory_sanitizer)
#include <sanitizer/msan_interface.h>
#define C11_MSAN 1
#endif
#endif

static const char *scratch;
static xmp_context bystander;

/* ----------------------------------------------------------------- digest */

static uint64_t ctx_digest(xmp_context opaque)
{
#ifdef C11_MSAN
	return 0;
#else
	struct context_data *ctx = (struct context_data *)opaque;
	struct player_data *p = &ctx->p;
	struct module_data *m = &ctx->m;
	struct xmp_module *mod = &m->mod;
	uint64_t h = FNV_INIT;
	int i;

	if (opaque == NULL)
		return 0;
	h = fnv1a(h, ctx, sizeof(*ctx));
	for (i = 0; i < mod->pat; i++)
		h = fnv1a(h, mod->xxp[i], sizeof(struct xmp_pattern) + sizeof(int) * (mod->chn - 1));
	for (i = 0; i < mod->trk; i++)
		h = fnv1a(h, mod->xxt[i], sizeof(struct xmp_track) + sizeof(struct xmp_event) * (mod->xxt[i]->rows - 1));
	for (i = 0; i < mod->ins; i++) {
		h = fnv1a(h, &mod->xxi[i], sizeof(struct xmp_instrument));
		if (mod->xxi[i].sub)
			h = fnv1a(h, mod->xxi[i].sub, sizeof(struct xmp_subinstrument) * mod->xxi[i].nsm);
	}
	for (i = 0; i < mod->smp; i++) {
		struct xmp_sample *s = &mod->xxs[i];
		h = fnv1a(h, s, sizeof(*s));
		if (s->data && s->len > 0)
			h = fnv1a(h, s->data, (size_t)s->len * ((s->flg & XMP_SAMPLE_16BIT) ? 2 : 1));
	}
	if (p->xc_data)
		h = fnv1a(h, p->xc_data, sizeof(struct channel_data) * p->virt.virt_channels);
	if (p->virt.virt_channel)
		h = fnv1a(h, p->virt.virt_channel, sizeof(struct virt_channel) * p->virt.virt_channels);
	if (p->virt.voice_array)
		h = fnv1a(h, p->virt.voice_array, sizeof(struct mixer_voice) * p->virt.maxvoc);
	return h;
#endif
}

/* -------------------------------------------------------------- callbacks */

struct cbdata {
	const unsigned char *p;
	long size, pos;
};

static unsigned long cb_read(void *dest, unsigned long len, unsigned long nmemb, void *priv)
{
	struct cbdata *c = (struct cbdata *)priv;
	unsigned long want = len * nmemb, avail = (unsigned long)(c->size - c->pos), n;
	if (len == 0)
		return 0;
	n = want < avail ? want : avail;
	n -= n % len;
	memcpy(dest, c->p + c->pos, n);
	c->pos += n;
	return n / len;
}

static int cb_seek(void *priv, long offset, int whence)
{
	struct cbdata *c = (struct cbdata *)priv;
	long np = whence == SEEK_SET ? offset : whence == SEEK_CUR ? c->pos + offset : c->size + offset;
	if (np < 0)
		return -1;
	c->pos = np > c->size ? c->size : np;
	return 0;
}

static long cb_tell(void *priv)
{
	return ((struct cbdata *)priv)->pos;
}

/* ---------------------------------------------------------------- variants */

/* where the reported title sits in the file: a '.' of the title stands for itself or for any unprintable byte
 * (libxmp_copy_adjust's replacement) */
static unsigned char *find_title(unsigned char *d, long n, const char *title, size_t tl)
{
	long i;
	size_t k;
	for (i = 0; i + (long)tl <= n; i++) {
		for (k = 0; k < tl; k++) {
			unsigned char c = d[i + k], t = (unsigned char)title[k];
			if (c == t)
				continue;
			if (t == '.' && (c < 32 || c > 126))
				continue;
			break;
		}
		if (k == tl)
			return d + i;
	}
	return NULL;
}

/* ------------------------------------------------------------ chunked files */

static void put_size(unsigned char *p, unsigned long v, int le)
{
	int i;
	for (i = 0; i < 4; i++)
		p[le ? i : 3 - i] = (unsigned char)(v >> (8 * i));
}

static unsigned long get_size(const unsigned char *p, int le)
{
	unsigned long v = 0;
	int i;
	for (i = 0; i < 4; i++)
		v |= (unsigned long)p[le ? i : 3 - i] << (8 * i);
	return v;
}

static long put_chunk(unsigned char *out, const char *id, const unsigned char *data, long len, int le, int even)
{
	memcpy(out, id, 4);
	put_size(out + 4, (unsigned long)len, le);
	if (len > 0)
		memcpy(out + 8, data, len);
	if (even && (len & 1)) {
		out[8 + len] = 0;
		return 8 + len + 1;
	}
	return 8 + len;
}

/* Unknown chunks to put in front of the chunk `at` (the one that holds the title), valid under the file's own layout:
 *   kind 0      an empty chunk
 *   kind 1      a chunk of 1 byte
 *   kind 2      a chunk of 4097 bytes
 *   kind 3+d    (d = 1..3, layouts with exact little-endian sizes only) a chunk of 1 byte, then a chunk of 43 bytes whose
 *               payload holds, d bytes in, a DECOY chunk with the id of the title chunk and another title: a walker that
 *               steps d bytes too far after the 1-byte chunk reads an empty pseudo-chunk out of the second header and then
 *               lands exactly on the decoy; a walker that steps by the stored length never sees it */
static long chunk_insertion(unsigned char *out, const unsigned char *at, int kind, int le, int even)
{
	unsigned char buf[4200];
	long n = 0;
	memset(buf, 'z', sizeof(buf));
	if (kind == 0)
		return put_chunk(out, "JNK0", buf, 0, le, even);
	if (kind == 1)
		return put_chunk(out, "JNKA", buf, 1, le, even);
	if (kind == 2)
		return put_chunk(out, "JNKL", buf, 4097, le, even);
	{
		int d = kind - 3;
		unsigned char pay[43];
		memset(pay, 'y', sizeof(pay));
		memset(pay, 0, d);
		memcpy(pay + d, at, 4);
		put_size(pay + d + 4, 24, le);
		memcpy(pay + d + 8, "DECOY TITLE NOT THE REAL", 24);
		n += put_chunk(out + n, "JNKA", buf, 1, le, even);
		n += put_chunk(out + n, "JNKB", pay, 43, le, even);
		return n;
	}
}

static int chunk_id_ok(const unsigned char *p)
{
	int i;
	for (i = 0; i < 4; i++) {
		if (p[i] < 32 || p[i] > 126)
			return 0;
	}
	return 1;
}

/* Does the file tile into chunks (4-byte printable id, 32-bit size) from offset `hdr` to its end?  Returns the offset of
 * the chunk that contains `target`, or -1. */
static long chunk_layout(const unsigned char *d, long size, long hdr, int le, int even, long target)
{
	long p = hdr, found = -1;
	int n = 0;
	while (p + 8 <= size) {
		unsigned long len = get_size(d + p + 4, le);
		long step;
		if (!chunk_id_ok(d + p) || len > (unsigned long)size)
			return -1;
		step = 8 + (long)len + (even ? (long)(len & 1) : 0);
		if (target >= p + 8 && target < p + step)
			found = p;
		p += step;
		n++;
	}
	if (n < 3 || p < size - 1 || p > size + 1)
		return -1;
	return found;
}

/* set by the variant op `N`: the generator certifies that these bytes are NOT a container of any kind the library
 * documents (a near miss of a signature was planted): the FILE pair is then held to the agreement clause whatever
 * libxmp_decrunch thinks of the bytes */
static int force_noncontainer;
/* set by the variant op `M`: only the memory pair is run (the title relation does not depend on the entry point) */
static int only_memory;

/* variant spec: ';'-separated ops: o | t:<len> | f:<off>.<bit> | z:<off>.<byte> | h:<off>.<hex bytes> (overwrite) |
 * w:<off>.<len>.<first byte> (fill with a run of letters: no NUL, no blank) | N (certified non-container) |
 * M (memory pair only) | c:<off>.<kind>.<layout> (junk / decoy chunks inserted in front of the chunk at <off>) */
static unsigned char *apply_variant(const unsigned char *orig, long osize, const char *spec, long *vsize)
{
	unsigned char *d = (unsigned char *)malloc(osize > 0 ? osize : 1);
	long size = osize;
	const char *s = spec;
	memcpy(d, orig, osize);
	force_noncontainer = 0;
	only_memory = 0;
	while (*s) {
		long a = 0, b = 0, c = 0;
		char hx[160];
		if (s[0] == 'N') {
			force_noncontainer = 1;
		} else if (s[0] == 'M') {
			only_memory = 1;
		} else if (s[0] == 'h' && sscanf(s, "h:%ld.%159[0-9a-f]", &a, hx) == 2) {
			size_t i, n = strlen(hx) / 2;
			for (i = 0; i < n; i++) {
				unsigned v = 0;
				sscanf(hx + 2 * i, "%2x", &v);
				if (a >= 0 && a + (long)i < size)
					d[a + i] = (unsigned char)v;
			}
		} else if (s[0] == 'c' && sscanf(s, "c:%ld.%ld.%ld", &a, &b, &c) == 3) {
			/* insert junk chunk(s) in front of the chunk at offset a (layout c: bit 0 = little-endian sizes, bit 1 = chunks
			 * padded to even length); kind b — see chunk_insertion() */
			if (a >= 8 && a + 8 <= size) {
				unsigned char ins[8192];
				long n = chunk_insertion(ins, d + a, (int)b, (int)(c & 1), (int)((c >> 1) & 1));
				d = (unsigned char *)realloc(d, size + n + 1);
				memmove(d + a + n, d + a, size - a);
				memcpy(d + a, ins, n);
				size += n;
			}
		} else if (s[0] == 'w' && sscanf(s, "w:%ld.%ld.%ld", &a, &b, &c) == 3) {
			long i;
			for (i = 0; i < b; i++) {
				if (a >= 0 && a + i < size)
					d[a + i] = (unsigned char)('A' + (c + i) % 26);
			}
		} else if (s[0] == 't' && sscanf(s, "t:%ld", &a) == 1) {
			if (a >= 1 && a < size)
				size = a;
		} else if (s[0] == 'f' && sscanf(s, "f:%ld.%ld", &a, &b) == 2) {
			if (a >= 0 && a < size)
				d[a] ^= (unsigned char)(1u << (b & 7));
		} else if (s[0] == 'z' && sscanf(s, "z:%ld.%ld", &a, &b) == 2) {
			if (a >= 0 && a < size)
				d[a] = (unsigned char)b;
		}
		s = strchr(s, ';');
		if (s == NULL)
			break;
		s++;
	}
	*vsize = size;
	return d;
}

static void gen_variant(char *spec, size_t cap, long size)
{
	static const long lens[] = { 1, 2, 3, 4, 8, 16, 20, 32, 48, 64, 99, 100, 101, 128, 256, 440, 600, 950, 1080, 1084, 1088, 2048, 4096 };
	int kind = vrng_below(10), n, i;
	size_t l = 0;
	spec[0] = 0;
	if (kind <= 2 || kind == 9) {		/* truncation */
		long t;
		switch (vrng_below(4)) {
		case 0:
			t = lens[vrng_below(sizeof(lens) / sizeof(lens[0]))];
			break;
		case 1:
			t = size - vrng_range(1, 16);
			break;
		case 2:
			t = size > 3000 ? vrng_range(1, 3000) : vrng_range(1, (int)(size > 1 ? size - 1 : 1));
			break;
		default:
			t = 1 + (long)(vrng_next() % (uint64_t)(size > 1 ? size - 1 : 1));
			break;
		}
		if (t < 1)
			t = 1;
		l += snprintf(spec + l, cap - l, "t:%ld", t);
		if (kind != 9)
			return;
		l += snprintf(spec + l, cap - l, ";");
		if (t < size)
			size = t;
	}
	if (vrng_chance(15) && size >= 8) {
		/* an offset/length word of the header made unreachable: top byte of an aligned 32-bit word */
		long win = size < 128 ? size : 128;
		long off = (long)(vrng_below((uint32_t)(win / 4))) * 4;
		l += snprintf(spec + l, cap - l, "z:%ld.%d", off + (vrng_chance(50) ? 0 : 3), vrng_chance(50) ? 127 : 255);
		return;
	}
	n = vrng_chance(60) ? 1 : vrng_range(2, 5);
	for (i = 0; i < n; i++) {
		long off;
		long win = size < 1500 ? size : 1500;
		if (vrng_chance(50))
			off = vrng_below((uint32_t)(win < 64 ? win : 64));
		else if (vrng_chance(70))
			off = vrng_below((uint32_t)win);
		else
			off = (long)(vrng_next() % (uint64_t)size);
		if (vrng_chance(80))
			l += snprintf(spec + l, cap - l, "%sf:%ld.%d", i ? ";" : "", off, (int)vrng_below(8));
		else
			l += snprintf(spec + l, cap - l, "%sz:%ld.%d", i ? ";" : "", off, vrng_chance(50) ? 0 : vrng_chance(50) ? 255 : (int)vrng_below(256));
	}
}

/* --------------------------------------------------------------- one case */

static const char *pair_name[4] = { "path", "file", "memory", "callbacks" };

static void hexs(const char *s)
{
	put_hex(stdout, s, strnlen(s, XMP_NAME_SIZE));
}

/* does libxmp_decrunch treat these bytes as a container? (1: yes or it fails; 0: leaves the stream alone) */
static int is_container(const char *path)
{
	FILE *fp = fopen(path, "rb");
	HIO_HANDLE *h = fp ? hio_open_file2(fp) : NULL;
	char *temp = NULL;
	int r;
	if (h == NULL)
		return 0;
	r = libxmp_decrunch(h, NULL, &temp);
	if (r == 0)
		r = !(HIO_HANDLE_TYPE(h) == HIO_HANDLE_TYPE_FILE && h->handle.file == fp);
	else
		r = 1;
	hio_close(h);
	if (temp) {
		unlink(temp);
		free(temp);
	}
	return r;
}

static void check_premises(const char *vname, const unsigned char *data, long size, int test_rc,
			   const struct xmp_test_info *ti)
{
	HIO_HANDLE *h = hio_open_const_mem(data, size);
	char buf[XMP_NAME_SIZE];
	int i, r1, r2, hit = -1;

	if (h == NULL)
		return;
	for (i = 0; format_loaders[i] != NULL; i++) {
		hio_seek(h, 0, SEEK_SET);
		r1 = format_loaders[i]->test(h, buf, 0);
		hio_seek(h, 0, SEEK_SET);
		r2 = format_loaders[i]->test(h, NULL, 0);
		if ((r1 == 0) != (r2 == 0)) {
			printf("P title-dependent %s ", vname);
			put_hex(stdout, format_loaders[i]->name, strlen(format_loaders[i]->name));
			printf(" with-buffer=%d without=%d\n", r1, r2);
		}
		if (r1 > 0 || r2 > 0) {
			printf("P positive-rc %s ", vname);
			put_hex(stdout, format_loaders[i]->name, strlen(format_loaders[i]->name));
			printf(" with-buffer=%d without=%d\n", r1, r2);
		}
		if (r1 == 0) {
			hit = i;
			break;
		}
	}
	hio_close(h);
	if ((hit >= 0) != (test_rc == 0)) {
		printf("P walk %s - table walk finds %s but xmp_test_module_from_memory returned %d\n", vname,
		       hit >= 0 ? format_loaders[hit]->name : "nothing", test_rc);
	} else if (hit >= 0 && strcmp(format_loaders[hit]->name, "prowizard") != 0 &&
		   strncmp(format_loaders[hit]->name, ti->type, XMP_NAME_SIZE - 1) != 0) {
		printf("P walk %s - first matching loader is '%s' but the reported type is '%.63s'\n", vname,
		       format_loaders[hit]->name, ti->type);
	}
}

static void run_variant(const char *vname, const unsigned char *data, long size, int verbose)
{
	char path[1024];
	FILE *fp;
	int pair, container;
	char last_t[2 * XMP_NAME_SIZE + 8] = "\1";

	snprintf(path, sizeof(path), "%s/c11a-%d.bin", scratch, (int)getpid());
	fp = fopen(path, "wb");
	if (fp == NULL || fwrite(data, 1, size, fp) != (size_t)size) {
		fprintf(stderr, "cannot write %s\n", path);
		exit(4);
	}
	fclose(fp);
	container = force_noncontainer ? 0 : is_container(path);

	for (pair = 0; pair < 4; pair++) {
		struct xmp_test_info ti;
		if (only_memory && pair != 2)
			continue;
		struct xmp_callbacks cbs;
		struct cbdata cd;
		struct xmp_module_info mi;
		xmp_context ctx;
		uint64_t d0, d1;
		int trc = 0, lrc = 0, expect_ok;
		char tkey[2 * XMP_NAME_SIZE + 8];

		memset(&ti, 0xA5, sizeof(ti));
		memset(&cbs, 0, sizeof(cbs));
		cbs.read_func = cb_read;
		cbs.seek_func = cb_seek;
		cbs.tell_func = cb_tell;
		cd.p = data;
		cd.size = size;
		cd.pos = 0;
		fp = NULL;

		printf("B %s %s test\n", vname, pair_name[pair]);
		fflush(stdout);
		d0 = ctx_digest(bystander);
		switch (pair) {
		case 0:
			trc = xmp_test_module(path, &ti);
			break;
		case 1:
			fp = fopen(path, "rb");
			trc = xmp_test_module_from_file(fp, &ti);
			break;
		case 2:
			trc = xmp_test_module_from_memory(data, size, &ti);
			break;
		case 3:
			trc = xmp_test_module_from_callbacks(&cd, cbs, &ti);
			break;
		}
		d1 = ctx_digest(bystander);
		if (d0 != d1)
			printf("V context %s %s digest of the bystander context changed across the test call\n", vname, pair_name[pair]);

		if (pair == 1) {
			unsigned char c = 0;
			int ok = fseek(fp, 0, SEEK_SET) == 0 && ftell(fp) == 0 && !ferror(fp) &&
				 fread(&c, 1, 1, fp) == 1 && c == data[0] && fseek(fp, 0, SEEK_END) == 0 && ftell(fp) == size;
			if (!ok)
				printf("V file %s file caller's FILE not usable after xmp_test_module_from_file (rc=%d)\n", vname, trc);
			rewind(fp);
		}

		/* strings */
#ifdef C11_MSAN
		if (trc != 0)
			__msan_unpoison(&ti, sizeof(ti));
#endif
		if (trc != 0) {
			if (ti.name[0] != 0 || ti.type[0] != 0)
				printf("V strings %s %s rc=%d not-empty name[0]=%02x type[0]=%02x\n", vname, pair_name[pair], trc,
				       (unsigned char)ti.name[0], (unsigned char)ti.type[0]);
		} else {
#ifdef C11_MSAN
			/* first poisoned byte of each array, then whether it lies inside the string (incl. its NUL) */
			intptr_t pn = __msan_test_shadow(ti.name, XMP_NAME_SIZE);
			intptr_t pt = __msan_test_shadow(ti.type, XMP_NAME_SIZE);
			size_t nl, tl;
			__msan_unpoison(&ti, sizeof(ti));
			nl = strnlen(ti.name, XMP_NAME_SIZE);
			tl = strnlen(ti.type, XMP_NAME_SIZE);
			if (pn > (intptr_t)nl)
				pn = -1;
			if (pt > (intptr_t)tl)
				pt = -1;
			if (pn >= 0 || pt >= 0) {
				printf("V uninit %s %s name@%ld type@%ld ", vname, pair_name[pair], (long)pn, (long)pt);
				hexs(ti.type);
				printf("\n");
			}
#endif
			if (memchr(ti.name, 0, XMP_NAME_SIZE) == NULL || memchr(ti.type, 0, XMP_NAME_SIZE) == NULL) {
				printf("V strings %s %s rc=0 unterminated ", vname, pair_name[pair]);
				put_hex(stdout, ti.type, XMP_NAME_SIZE);
				printf("\n");
				ti.name[XMP_NAME_SIZE - 1] = 0;
				ti.type[XMP_NAME_SIZE - 1] = 0;
			}
		}
#ifdef C11_MSAN
		__msan_unpoison(&ti, sizeof(ti));
#endif

		if (pair == 2)
			check_premises(vname, data, size, trc, &ti);

		printf("B %s %s load\n", vname, pair_name[pair]);
		fflush(stdout);
		ctx = xmp_create_context();
		cd.pos = 0;
		switch (pair) {
		case 0:
			lrc = xmp_load_module(ctx, path);
			break;
		case 1:
			lrc = xmp_load_module_from_file(ctx, fp, 0);
			break;
		case 2:
			lrc = xmp_load_module_from_memory(ctx, data, size);
			break;
		case 3:
			lrc = xmp_load_module_from_callbacks(ctx, &cd, cbs);
			break;
		}

		printf("R %s %s %d %d %d ", vname, pair_name[pair], trc, lrc, container);
		if (trc == 0)
			hexs(ti.type);
		else
			printf("-");
		printf("\n");

		/* return-code table */
		if (!(pair == 1 && container)) {
			if (trc == 0)
				expect_ok = (lrc == 0 || lrc == -XMP_ERROR_LOAD || lrc == -XMP_ERROR_SYSTEM);
			else
				expect_ok = (lrc == trc);
			if (!expect_ok) {
				printf("V rc %s %s test=%d load=%d ", vname, pair_name[pair], trc, lrc);
				if (trc == 0)
					hexs(ti.type);
				else
					printf("-");
				printf("\n");
			}
		}

		/* vocabulary: every entry point answers 0 or one of the documented error codes, never any other value */
		{
			static const int vocab[] = { 0, -XMP_ERROR_FORMAT, -XMP_ERROR_LOAD, -XMP_ERROR_DEPACK, -XMP_ERROR_SYSTEM,
						     -XMP_ERROR_INVALID };
			int k, tin = 0, lin = 0;
			for (k = 0; k < (int)(sizeof(vocab) / sizeof(vocab[0])); k++) {
				tin |= trc == vocab[k];
				lin |= lrc == vocab[k];
			}
			if (!tin || !lin)
				printf("V vocab %s %s test=%d load=%d\n", vname, pair_name[pair], trc, lrc);
		}

		/* title */
		if (trc == 0 && lrc == 0) {
			xmp_get_module_info(ctx, &mi);
			snprintf(tkey, sizeof(tkey), "%.63s\2%.63s", ti.name, mi.mod->name);
			if (verbose || strcmp(tkey, last_t) != 0) {
				printf("T %s %s ", vname, pair_name[pair]);
				hexs(ti.name);
				printf(" ");
				hexs(mi.mod->name);
				printf(" ");
				hexs(ti.type);
				printf("\n");
				strcpy(last_t, tkey);
			}
		}
		if (lrc == 0)
			xmp_release_module(ctx);
		xmp_free_context(ctx);
		if (fp)
			fclose(fp);
	}
	unlink(path);
}

static void setup_bystander(const char *module)
{
	int i;
	bystander = xmp_create_context();
	if (xmp_load_module(bystander, module) < 0 || xmp_start_player(bystander, 22050, 0) < 0) {
		/* a library that cannot even load the reference module: go on without the digest, the
		 * return-code oracle will say what is wrong */
		printf("N no-bystander %s\n", module);
		xmp_free_context(bystander);
		bystander = NULL;
		return;
	}
	for (i = 0; i < 9; i++)
		xmp_play_frame(bystander);
}

static void on_alarm(int sig)
{
	(void)sig;
	_exit(97);
}

/* one file in a forked child: the original and nmut mutants, or exactly the variant `fixed` */
static void run_file(const char *path, uint64_t seed, int nmut, long maxsize, const char *fixed)
{
	pid_t pid;
	int status, v;

	printf("F %s\n", path);
	fflush(stdout);
	fprintf(stderr, "@@F %s\n", path);
	fflush(stderr);
	pid = fork();
	if (pid < 0)
		exit(4);
	if (pid == 0) {
		long osize, vsize;
		unsigned char *orig = read_file(path, &osize), *d;
		char spec[256];
		int n = nmut;
		setpgid(0, 0);		/* own process group: the parent kills stragglers (the library may fork) */
		signal(SIGALRM, on_alarm);
		alarm(240);
		if (orig == NULL || osize <= 0)
			_exit(0);
		if (fixed != NULL) {
			d = apply_variant(orig, osize, fixed, &vsize);
			run_variant(fixed, d, vsize, 0);
			fflush(stdout);
			_exit(0);
		}
		if (osize > maxsize)
			n = nmut / 4;
		vrng_seed(seed ^ fnv1a(FNV_INIT, path, strlen(path)));
		run_variant("o", orig, osize, 0);
		/* title-fill variants: where the reported title can be found in the file, the field is overwritten with a
		 * run of letters (no NUL, no blank) of a width some format uses: a test function and a loader that read the
		 * title with different widths then report different titles */
		{
			static const int widths[] = { 20, 22, 24, 26, 28, 30, 32, 36, 40, 44, 48, 59, 60, 63, 64 };
			struct xmp_test_info ti;
			size_t tl;
			if (nmut > 0 && osize <= 4 * maxsize && xmp_test_module_from_memory(orig, osize, &ti) == 0 && (tl = strlen(ti.name)) >= 3) {
				long lim = osize < 65536 ? osize : 65536;
				unsigned char *at = find_title(orig, lim, ti.name, tl);
				if (at != NULL) {
					int nw = (int)(sizeof(widths) / sizeof(widths[0])), k;
					for (k = 0; k < nw; k++) {
						if (widths[k] < (int)tl)
							continue;
						/* memory pair only: the title relation does not depend on the entry point */
						snprintf(spec, sizeof(spec), "M;w:%ld.%d.%d", (long)(at - orig), widths[k], (int)vrng_below(26));
						d = apply_variant(orig, osize, spec, &vsize);
						run_variant(spec, d, vsize, 0);
						free(d);
					}
					/* chunk-walking test functions (C11_CHUNK_WALKERS: format names, '|'-separated, from the translator):
					 * unknown chunks of zero / odd / large length and decoy title chunks in front of the title chunk */
					{
						const char *walkers = getenv("C11_CHUNK_WALKERS");
						char pat[XMP_NAME_SIZE + 4];
						snprintf(pat, sizeof(pat), "|%s|", ti.type);
						if (walkers != NULL && strstr(walkers, pat) != NULL) {
							static const long hdrs[] = { 8, 12 };
							int hi, le, even, done = 0;
							for (hi = 0; hi < 2 && !done; hi++) {
								for (le = 1; le >= 0 && !done; le--) {
									for (even = 0; even < 2 && !done; even++) {
										long tc = chunk_layout(orig, osize, hdrs[hi], le, even, (long)(at - orig));
										int kind;
										if (tc < 0)
											continue;
										done = 1;
										for (kind = 0; kind < (le && !even ? 7 : 3); kind++) {
											snprintf(spec, sizeof(spec), "c:%ld.%d.%d", tc, kind, le | (even << 1));
											d = apply_variant(orig, osize, spec, &vsize);
											run_variant(spec, d, vsize, 0);
											free(d);
										}
									}
								}
							}
						}
					}
				}
			}
		}
		for (v = 0; v < n; v++) {
			gen_variant(spec, sizeof(spec), osize);
			d = apply_variant(orig, osize, spec, &vsize);
			run_variant(spec, d, vsize, 0);
			free(d);
		}
		fflush(stdout);
		_exit(0);
	}
	{
		/* watchdog: a hung child (or a process it forked) must not stall the run */
		int waited = 0, r;
		while ((r = waitpid(pid, &status, WNOHANG)) == 0) {
			usleep(20000);
			if (++waited > 50 * 300) {
				kill(-pid, SIGKILL);
				kill(pid, SIGKILL);
				waitpid(pid, &status, 0);
				status = 97 << 8;
				break;
			}
		}
		if (r < 0)
			exit(4);
		kill(-pid, SIGKILL);	/* anything the child left behind */
	}
	if (WIFSIGNALED(status))
		printf("X signal %d\n", WTERMSIG(status));
	else if (WIFEXITED(status) && WEXITSTATUS(status) == 97)
		printf("X timeout 0\n");
	else if (WIFEXITED(status) && WEXITSTATUS(status) != 0)
		printf("X exit %d\n", WEXITSTATUS(status));
	printf("E %s\n", path);
	fflush(stdout);
}

int main(int argc, char **argv)
{
	int i;

	if (argc >= 6 && strcmp(argv[1], "replay") == 0) {
		long osize, vsize;
		unsigned char *orig, *d;
		scratch = argv[2];
		setup_bystander(argv[3]);
		orig = read_file(argv[4], &osize);
		if (orig == NULL)
			return 4;
		d = apply_variant(orig, osize, argv[5], &vsize);
		printf("F %s\n", argv[4]);
		run_variant(argv[5], d, vsize, 1);
		printf("E %s\n", argv[4]);
		return 0;
	}
	if (argc >= 5 && strcmp(argv[1], "cases") == 0) {
		/* c11_agree cases <scratch> <bystander> <listfile> ; list lines: <variant> TAB <path> */
		/* the list is read completely and closed before any child is forked: a grandchild of the library's own
		 * (a failed exec of an external unpacker ends in exit(), which re-synchronises inherited input streams) must not
		 * be able to move the read position of the list */
		long lsize = 0;
		char *list = (char *)read_file(argv[4], &lsize), *line, *end;
		if (list == NULL)
			return 4;
		list = (char *)realloc(list, lsize + 1);
		list[lsize] = 0;
		scratch = argv[2];
		setup_bystander(argv[3]);
		for (line = list; line < list + lsize; line = end + 1) {
			char *tab;
			end = strchr(line, '\n');
			if (end == NULL)
				end = list + lsize;
			*end = 0;
			tab = strchr(line, '\t');
			if (tab == NULL)
				continue;
			*tab = 0;
			run_file(tab + 1, 0, 0, 0, line);
		}
		free(list);
		return 0;
	}
	if (argc < 8 || strcmp(argv[1], "run") != 0) {
		fprintf(stderr, "usage: c11_agree run <seed> <nmut> <maxsize> <scratch> <bystander> <file>...\n");
		return 2;
	}
	{
		uint64_t seed = strtoull(argv[2], NULL, 10);
		int nmut = atoi(argv[3]);
		long maxsize = atol(argv[4]);
		scratch = argv[5];
		setup_bystander(argv[6]);
		for (i = 7; i < argc; i++)
			run_file(argv[i], seed, nmut, maxsize, NULL);
	}
	return 0;
}
