/* C08 harness: built-in unpacking is transparent and byte-exact.
 *
 * usage:
 *   c08_unpack load <listfile>
 *       each line: <id> <archive-path> <payload-path> <nframes>
 *       For the payload (loaded FROM MEMORY, cached while the payload path repeats) and for the
 *       archive (loaded BY PATH with the real xmp_load_module) prints return codes, a canonical
 *       module digest, a PCM digest of the first <nframes> frames, xmp_module_info.md5, and the
 *       results of xmp_test_module (path), xmp_test_module_from_file (FILE) and
 *       xmp_test_module_from_memory (payload).  While the archive is loaded by path the
 *       link-time spies (-Wl,--wrap) log what the real depackers did:
 *         X <hexname> <verdict>     every libxmp_exclude_match call (member names examined, in order)
 *         I <len> <fnv>             the byte string handed to tinfl_decompress_mem_to_heap (gzip)
 *         A <method> <srclen> <fnv> <dstlen>   arc_unpack calls
 *         O <len> <fnv>             the depacker output re-opened as memory stream (hio_reopen_mem)
 *         U <n>x<size>,...          MD5Update chunk sizes used by set_md5sum (run-length coded)
 *       then one line
 *         R <id> k=v ...
 *   c08_unpack md5 <casefile>
 *       each line: <hexdata> <c1,c2,...>   chunk sizes; the real MD5Init/MD5Update/MD5Final are run
 *       with those chunkings; prints after every update  `s <a> <b> <c> <d> <count> <hexbuffered>`
 *       and finally `d <hexdigest>`.
 *   c08_unpack magic <casefile>
 *       each line: <hex buffer (>= 100 bytes, padded with zeros to 1024)>
 *       prints `m <bits>` : result of every real depacker's test() in depacker.h declaration
 *       order zip,lha,gzip,bzip2,xz,compress,pp,sqsh,arc,arcfs,mmcmp,lzx,s404 (names printed once
 *       in a header line), and `e` lines for exclude: input line `e <hexname>` -> `e <0|1>`.
 *   c08_unpack rle <casefile>
 *       each line: <hex packed> <dest_len> [method] ; runs the real arc_unpack(method, default 3) -> `r <ok> <hex>`
 *   c08_unpack dp <casefile>
 *       each line: <depacker name> <hex file> ; runs that depacker's real depack() on a memory stream
 *       (decrunch_compress, decrunch_pp, arc_read, decrunch_zip, decrunch_lha, ...) ->
 *       `D ok <len> <fnv>` or `D fail`
 */
#include "vcommon.h"
#include <xmp.h>
#include "common.h"
#include "hio.h"
#include "md5.h"
#include "rng.h"
#include "depackers/depacker.h"
#include "depackers/arc_unpack.h"

/* ------------------------------------------------------------------ spies */
static int spy_on;
static long upd_sizes[64];
static long upd_counts[64];
static int upd_n;
static long upd_total;

int __real_libxmp_exclude_match(const char *name);
int __wrap_libxmp_exclude_match(const char *name)
{
	int r = __real_libxmp_exclude_match(name);
	if (spy_on) {
		printf("X ");
		put_hex(stdout, name, strlen(name));
		printf(" %d\n", r ? 1 : 0);
	}
	return r;
}

void *__real_libxmp_tinfl_decompress_mem_to_heap(const void *src, size_t len, size_t *outlen, int flags);
void *__wrap_libxmp_tinfl_decompress_mem_to_heap(const void *src, size_t len, size_t *outlen, int flags)
{
	if (spy_on)
		printf("I %lu %016llx\n", (unsigned long)len, (unsigned long long)fnv1a(FNV_INIT, src, len));
	return __real_libxmp_tinfl_decompress_mem_to_heap(src, len, outlen, flags);
}

const char *__real_libxmp_arc_unpack(unsigned char *dest, size_t dest_len, const unsigned char *src,
				     size_t src_len, int method, int max_width);
const char *__wrap_libxmp_arc_unpack(unsigned char *dest, size_t dest_len, const unsigned char *src,
				     size_t src_len, int method, int max_width)
{
	if (spy_on)
		printf("A %d %lu %016llx %lu\n", method, (unsigned long)src_len,
		       (unsigned long long)fnv1a(FNV_INIT, src, src_len), (unsigned long)dest_len);
	return __real_libxmp_arc_unpack(dest, dest_len, src, src_len, method, max_width);
}

int __real_hio_reopen_mem(void *ptr, long size, int free_after_use, HIO_HANDLE *h);
int __wrap_hio_reopen_mem(void *ptr, long size, int free_after_use, HIO_HANDLE *h)
{
	if (spy_on)
		printf("O %ld %016llx\n", size, size > 0 ? (unsigned long long)fnv1a(FNV_INIT, ptr, size) : 0ULL);
	return __real_hio_reopen_mem(ptr, size, free_after_use, h);
}

void __real_MD5Update(MD5_CTX *ctx, const unsigned char *input, size_t len);
void __wrap_MD5Update(MD5_CTX *ctx, const unsigned char *input, size_t len)
{
	if (spy_on) {
		upd_total += (long)len;
		if (upd_n > 0 && upd_sizes[upd_n - 1] == (long)len) {
			upd_counts[upd_n - 1]++;
		} else if (upd_n < 64) {
			upd_sizes[upd_n] = (long)len;
			upd_counts[upd_n] = 1;
			upd_n++;
		}
	}
	__real_MD5Update(ctx, input, len);
}

static void flush_updates(void)
{
	int i;
	/* MD5Final itself calls MD5Update twice (padding, count): they are part of the log */
	printf("U");
	for (i = 0; i < upd_n; i++)
		printf("%s%ldx%ld", i ? "," : " ", upd_counts[i], upd_sizes[i]);
	if (upd_n == 0)
		printf(" -");
	printf(" total=%ld\n", upd_total);
	upd_n = 0;
	upd_total = 0;
}

/* ------------------------------------------------------- module digests */
static uint64_t h_int(uint64_t h, long v)
{
	int64_t x = v;
	return fnv1a(h, &x, sizeof(x));
}

static uint64_t h_str(uint64_t h, const char *s, size_t max)
{
	size_t n = 0;
	while (n < max && s[n])
		n++;
	h = fnv1a(h, s, n);
	return h_int(h, (long)n);
}

static uint64_t h_env(uint64_t h, const struct xmp_envelope *e)
{
	h = h_int(h, e->flg);
	h = h_int(h, e->npt);
	h = h_int(h, e->scl);
	h = h_int(h, e->sus);
	h = h_int(h, e->sue);
	h = h_int(h, e->lps);
	h = h_int(h, e->lpe);
	return fnv1a(h, e->data, sizeof(e->data));
}

static uint64_t module_digest(xmp_context ctx)
{
	struct xmp_module_info mi;
	struct xmp_module *m;
	uint64_t h = FNV_INIT;
	int i, j;

	xmp_get_module_info(ctx, &mi);
	m = mi.mod;
	h = h_str(h, m->name, XMP_NAME_SIZE);
	h = h_str(h, m->type, XMP_NAME_SIZE);
	h = h_int(h, m->pat);
	h = h_int(h, m->trk);
	h = h_int(h, m->chn);
	h = h_int(h, m->ins);
	h = h_int(h, m->smp);
	h = h_int(h, m->spd);
	h = h_int(h, m->bpm);
	h = h_int(h, m->len);
	h = h_int(h, m->rst);
	h = h_int(h, m->gvl);
	h = h_int(h, mi.vol_base);
	h = h_int(h, mi.num_sequences);
	if (mi.comment)
		h = h_str(h, mi.comment, 1 << 20);
	for (i = 0; i < mi.num_sequences; i++) {
		h = h_int(h, mi.seq_data[i].entry_point);
		h = h_int(h, mi.seq_data[i].duration);
	}
	h = fnv1a(h, m->xxo, m->len > 0 ? (size_t)m->len : 0);
	for (i = 0; i < m->chn; i++) {
		h = h_int(h, m->xxc[i].pan);
		h = h_int(h, m->xxc[i].vol);
		h = h_int(h, m->xxc[i].flg);
	}
	for (i = 0; i < m->pat; i++) {
		h = h_int(h, m->xxp[i]->rows);
		for (j = 0; j < m->chn; j++)
			h = h_int(h, m->xxp[i]->index[j]);
	}
	for (i = 0; i < m->trk; i++) {
		h = h_int(h, m->xxt[i]->rows);
		h = fnv1a(h, m->xxt[i]->event, sizeof(struct xmp_event) * (size_t)m->xxt[i]->rows);
	}
	for (i = 0; i < m->ins; i++) {
		struct xmp_instrument *xi = &m->xxi[i];
		h = h_str(h, xi->name, 32);
		h = h_int(h, xi->vol);
		h = h_int(h, xi->nsm);
		h = h_int(h, xi->rls);
		h = h_env(h, &xi->aei);
		h = h_env(h, &xi->pei);
		h = h_env(h, &xi->fei);
		h = fnv1a(h, xi->map, sizeof(xi->map));
		for (j = 0; j < xi->nsm; j++) {
			struct xmp_subinstrument *s = &xi->sub[j];
			h = h_int(h, s->vol);
			h = h_int(h, s->gvl);
			h = h_int(h, s->pan);
			h = h_int(h, s->xpo);
			h = h_int(h, s->fin);
			h = h_int(h, s->vwf);
			h = h_int(h, s->vde);
			h = h_int(h, s->vra);
			h = h_int(h, s->vsw);
			h = h_int(h, s->rvv);
			h = h_int(h, s->sid);
			h = h_int(h, s->nna);
			h = h_int(h, s->dct);
			h = h_int(h, s->dca);
			h = h_int(h, s->ifc);
			h = h_int(h, s->ifr);
		}
	}
	for (i = 0; i < m->smp; i++) {
		struct xmp_sample *s = &m->xxs[i];
		size_t n;
		h = h_str(h, s->name, 32);
		h = h_int(h, s->len);
		h = h_int(h, s->lps);
		h = h_int(h, s->lpe);
		h = h_int(h, s->flg);
		n = s->len > 0 ? (size_t)s->len : 0;
		if (s->flg & XMP_SAMPLE_16BIT)
			n *= 2;
		if (s->data && n)
			h = fnv1a(h, s->data, n);
	}
	return h;
}

static uint64_t pcm_digest(xmp_context ctx, int nframes, int *rc_start, int *played)
{
	uint64_t h = FNV_INIT;
	int i;
	*played = 0;
	/* the per-context random generator is seeded from the clock in xmp_create_context; property C06
	 * fixes the random state, so pin it: IT random volume/pan variation then renders identically */
	libxmp_set_random(&((struct context_data *)ctx)->rng, 0x12345678u);
	*rc_start = xmp_start_player(ctx, 44100, 0);
	if (*rc_start != 0)
		return 0;
	for (i = 0; i < nframes; i++) {
		struct xmp_frame_info fi;
		if (xmp_play_frame(ctx) != 0)
			break;
		xmp_get_frame_info(ctx, &fi);
		h = fnv1a(h, fi.buffer, (size_t)fi.buffer_size);
		h = h_int(h, fi.buffer_size);
		h = h_int(h, fi.pos);
		h = h_int(h, fi.row);
		(*played)++;
	}
	xmp_end_player(ctx);
	return h;
}

struct result {
	int rc;
	uint64_t dig, pcm;
	int rc_start, played;
	unsigned char md5[16];
};

static void after_load(xmp_context ctx, struct result *r, int nframes)
{
	memset(r->md5, 0, 16);
	r->dig = r->pcm = 0;
	r->rc_start = 0;
	r->played = 0;
	if (r->rc == 0) {
		struct xmp_module_info mi;
		xmp_get_module_info(ctx, &mi);
		memcpy(r->md5, mi.md5, 16);
		r->dig = module_digest(ctx);
		r->pcm = pcm_digest(ctx, nframes, &r->rc_start, &r->played);
		xmp_release_module(ctx);
	}
}

static void put_result(const char *tag, const struct result *r)
{
	printf(" %src=%d %sdig=%016llx %spcm=%016llx %sstart=%d %splayed=%d %smd5=", tag, r->rc, tag,
	       (unsigned long long)r->dig, tag, (unsigned long long)r->pcm, tag, r->rc_start, tag, r->played, tag);
	put_hex(stdout, r->md5, 16);
}

static void put_test(const char *tag, int rc, const struct xmp_test_info *ti)
{
	printf(" %src=%d %sname=", tag, rc, tag);
	put_hex(stdout, ti->name, strnlen(ti->name, XMP_NAME_SIZE));
	printf(" %stype=", tag);
	put_hex(stdout, ti->type, strnlen(ti->type, XMP_NAME_SIZE));
}

static int mode_load(const char *list)
{
	FILE *lf = fopen(list, "r");
	char id[256], apath[2048], ppath[2048], last[2048] = "";
	int nframes;
	unsigned char *pay = NULL;
	long paylen = 0;
	struct result rm;
	struct xmp_test_info tm;
	int tmrc = 0;
	int last_nframes = -1;
	xmp_context ctx;

	if (!lf) {
		fprintf(stderr, "cannot open %s\n", list);
		return 2;
	}
	memset(&rm, 0, sizeof(rm));
	memset(&tm, 0, sizeof(tm));
	while (fscanf(lf, "%255s %2047s %2047s %d", id, apath, ppath, &nframes) == 4) {
		struct result rp;
		struct xmp_test_info tp, tf;
		int tprc, tfrc;
		FILE *f;

		if (strcmp(ppath, last) != 0 || nframes != last_nframes) {
			free(pay);
			pay = read_file(ppath, &paylen);
			if (!pay) {
				fprintf(stderr, "cannot read payload %s\n", ppath);
				return 2;
			}
			strcpy(last, ppath);
			last_nframes = nframes;
			ctx = xmp_create_context();
			rm.rc = xmp_load_module_from_memory(ctx, pay, paylen);
			after_load(ctx, &rm, nframes);
			xmp_free_context(ctx);
			memset(&tm, 0, sizeof(tm));
			tmrc = xmp_test_module_from_memory(pay, paylen, &tm);
		}
		printf("B %s\n", id);
		ctx = xmp_create_context();
		spy_on = 1;
		rp.rc = xmp_load_module(ctx, apath);
		spy_on = 0;
		flush_updates();
		after_load(ctx, &rp, nframes);
		xmp_free_context(ctx);

		memset(&tp, 0, sizeof(tp));
		memset(&tf, 0, sizeof(tf));
		tprc = xmp_test_module(apath, &tp);
		f = fopen(apath, "rb");
		if (!f) {
			fprintf(stderr, "cannot open %s\n", apath);
			return 2;
		}
		tfrc = xmp_test_module_from_file(f, &tf);
		fclose(f);	/* hio_open_file handles are noclose: the caller owns the FILE */
		printf("R %s paylen=%ld", id, paylen);
		put_result("m", &rm);
		put_result("p", &rp);
		put_test("tm", tmrc, &tm);
		put_test("tp", tprc, &tp);
		put_test("tf", tfrc, &tf);
		printf("\n");
		fflush(stdout);
	}
	free(pay);
	fclose(lf);
	return 0;
}

/* ---------------------------------------------------------------- md5 */
static char *linebuf;
static size_t linecap;

static int mode_md5(const char *path)
{
	FILE *f = fopen(path, "r");
	ssize_t n;
	if (!f)
		return 2;
	while ((n = getline(&linebuf, &linecap, f)) > 0) {
		char *hex = strtok(linebuf, " \n");
		char *chunks = strtok(NULL, " \n");
		unsigned char *data, dig[16];
		long len, pos = 0;
		MD5_CTX c;
		char *tok;
		if (!hex)
			continue;
		len = get_hex(hex, &data);
		if (len < 0)
			return 2;
		MD5Init(&c);
		for (tok = chunks ? strtok(chunks, ",") : NULL; tok; tok = strtok(NULL, ",")) {
			long k = atol(tok);
			unsigned have;
			if (k > len - pos)
				k = len - pos;
			MD5Update(&c, data + pos, (size_t)k);
			pos += k;
			have = (unsigned)((c.count >> 3) & 63);
			printf("s %u %u %u %u %llu ", c.state[0], c.state[1], c.state[2], c.state[3],
			       (unsigned long long)c.count);
			put_hex(stdout, c.buffer, have);
			printf("\n");
		}
		if (pos < len) {
			MD5Update(&c, data + pos, (size_t)(len - pos));
		}
		MD5Final(dig, &c);
		printf("d ");
		put_hex(stdout, dig, 16);
		printf("\n");
		free(data);
	}
	fclose(f);
	return 0;
}

/* -------------------------------------------------------------- magic */
static const struct depacker *const all[] = {
	&libxmp_depacker_zip, &libxmp_depacker_lha, &libxmp_depacker_gzip, &libxmp_depacker_bzip2,
	&libxmp_depacker_xz, &libxmp_depacker_compress, &libxmp_depacker_pp, &libxmp_depacker_sqsh,
	&libxmp_depacker_arc, &libxmp_depacker_arcfs, &libxmp_depacker_mmcmp, &libxmp_depacker_lzx,
	&libxmp_depacker_s404, NULL
};

static int mode_magic(const char *path)
{
	FILE *f = fopen(path, "r");
	ssize_t n;
	if (!f)
		return 2;
	printf("names zip lha gzip bzip2 xz compress pp sqsh arc arcfs mmcmp lzx s404\n");
	while ((n = getline(&linebuf, &linecap, f)) > 0) {
		char *a = strtok(linebuf, " \n");
		char *b = strtok(NULL, " \n");
		if (!a)
			continue;
		if (strcmp(a, "e") == 0) {
			unsigned char *nm;
			long len = b ? get_hex(b, &nm) : -1;
			if (len < 0)
				return 2;
			nm[len] = 0;
			printf("e %d\n", libxmp_exclude_match((char *)nm) ? 1 : 0);
			free(nm);
		} else {
			unsigned char buf[1024], *d;
			long len = get_hex(a, &d);
			int i;
			if (len < 0)
				return 2;
			memset(buf, 0, sizeof(buf));
			memcpy(buf, d, len > 1024 ? 1024 : (size_t)len);
			free(d);
			printf("m ");
			for (i = 0; all[i]; i++)
				putchar((all[i]->test && all[i]->test(buf)) ? '1' : '0');
			printf(" %d\n", all[0]->test_hio || all[1]->test_hio ? 1 : 0);
		}
	}
	fclose(f);
	return 0;
}

/* ---------------------------------------------------------------- rle */
static int mode_rle(const char *path)
{
	FILE *f = fopen(path, "r");
	ssize_t n;
	if (!f)
		return 2;
	while ((n = getline(&linebuf, &linecap, f)) > 0) {
		char *a = strtok(linebuf, " \n");
		char *b = strtok(NULL, " \n");
		char *c = strtok(NULL, " \n");      /* optional: method (default ARC_M_PACKED), e.g. 4 = squeezed */
		unsigned char *src, *dst;
		long slen, dlen;
		const char *err;
		if (!a || !b)
			continue;
		slen = get_hex(a, &src);
		dlen = atol(b);
		if (slen < 0 || dlen < 0)
			return 2;
		dst = (unsigned char *)calloc(1, (size_t)dlen + 1);
		err = libxmp_arc_unpack(dst, (size_t)dlen, src, (size_t)slen, c ? atoi(c) : ARC_M_PACKED, 0);
		printf("r %d ", err == NULL ? 1 : 0);
		put_hex(stdout, dst, err == NULL ? (size_t)dlen : 0);
		printf("\n");
		free(src);
		free(dst);
	}
	fclose(f);
	return 0;
}

/* ----------------------------------------------------------------- dp */
static const char *const all_names[] = { "zip", "lha", "gzip", "bzip2", "xz", "compress", "pp", "sqsh", "arc",
	"arcfs", "mmcmp", "lzx", "s404", NULL };

static int mode_dp(const char *path)
{
	FILE *f = fopen(path, "r");
	ssize_t n;
	if (!f)
		return 2;
	while ((n = getline(&linebuf, &linecap, f)) > 0) {
		char *a = strtok(linebuf, " \n");
		char *b = strtok(NULL, " \n");
		unsigned char *src;
		long slen, outlen = 0;
		void *out = NULL;
		HIO_HANDLE *h;
		int i, rc;
		if (!a || !b)
			continue;
		for (i = 0; all_names[i] && strcmp(all_names[i], a); i++)
			;
		if (!all_names[i])
			return 2;
		slen = get_hex(b, &src);
		if (slen < 0)
			return 2;
		h = hio_open_const_mem(src, slen);
		if (!h)
			return 2;
		rc = all[i]->depack(h, &out, &outlen);
		if (rc == 0 && out != NULL && outlen >= 0) {
			printf("D ok %ld %016llx\n", outlen,
			       (unsigned long long)(outlen > 0 ? fnv1a(FNV_INIT, out, (size_t)outlen) : FNV_INIT));
			free(out);
		} else {
			printf("D fail\n");
		}
		hio_close(h);
		free(src);
		fflush(stdout);
	}
	fclose(f);
	return 0;
}

int main(int argc, char **argv)
{
	if (argc < 3) {
		fprintf(stderr, "usage: c08_unpack load|md5|magic|rle|dp <file>\n");
		return 2;
	}
	if (!strcmp(argv[1], "load"))
		return mode_load(argv[2]);
	if (!strcmp(argv[1], "md5"))
		return mode_md5(argv[2]);
	if (!strcmp(argv[1], "magic"))
		return mode_magic(argv[2]);
	if (!strcmp(argv[1], "rle"))
		return mode_rle(argv[2]);
	if (!strcmp(argv[1], "dp"))
		return mode_dp(argv[2]);
	return 2;
}
