/* C15 direct oracle: playback never alters the loaded module.
 *
 * usage: c15_digest run <seed> <ncases> <nops> <module>...
 *        c15_digest one <case_seed> <nops> <module> [-v] [-g1] (replay of one case; -g1: first-generation generators only)
 *        c15_digest long <case_seed> <nticks>                    (synthetic long-loop module rendered tick by tick)
 *        c15_digest probe <module>...                          (prints: probe <path> <invert-loop capable> <8-bit looped samples>
 *                                                                <non-default instrument volumes> <sub-instruments whose sample number differs from the instrument number>)
 *
 * A case = (module, sample rate, output format, interpolator, player flags, optional injection of
 * Protracker invert-loop effects into the patterns before the snapshot, random history of API
 * calls).  Right after loading (and injecting) a deep snapshot of every module table is taken:
 *   patterns (rows, track indices), tracks (rows, every event), instruments (header incl. the
 *   three envelopes and the key map), sub-instruments, sample headers, per-sample extras
 *   (c5spd/sustain loop), and every sample's PCM allocation INCLUDING the guard frames in front
 *   and behind (extent asked from ASan, so no guard size is hard-coded here).
 * After EVERY API call the live tables are compared with the snapshot.  The only tolerated
 * difference: bytes x -> x^0xff inside the loop [lps,lpe) (or sustain loop if the sample has no
 * loop) of an 8-bit sample that the invert-loop effect is being applied to (a channel with
 * invloop.speed > 0 plays it; for multi-frame calls: the module contains/was given such an effect),
 * in a module with QUIRK_PROTRACK|QUIRK_INVLOOP.  Tolerated changes are folded into the snapshot.
 *
 * Output:
 *   case <case_seed> <nops> <path> rate=.. fmt=.. interp=.. inject=.. smp=.. pat=..
 *   o_fail <signature> op=<index>:<name> <details>          a violation of the property
 *   inv <call> <chn> <speed> <count0> <pos0> <count1> <pos1> <smp> <voice mapped> <voice smp> <voice queued?> <queued smp> <voice paused? | 2*(xc->smp is a sample of instrument xc->ins)> <present> <loop> <sloop> <16bit> <datanull>
 *       <lps> <lpe> <sus> <sue> <nflipped> <first flipped offset>
 *                       correspondence for the model of update_invloop (one line per xmp_play_frame and channel
 *                       with invert-loop speed > 0): state before/after, what it reads, what was flipped
 *   end calls=<n> frames=<n> invloop_bytes=<n> hdr_changed=<n> patched_possible=<n>
 * The module header (xmp_module scalars and order list) is compared too but only counted
 * (`hdr_changed`): the property speaks of pattern, instrument, envelope and sample data.
 */
#include "vcommon.h"
#include <sanitizer/asan_interface.h>
#include <xmp.h>
#include "common.h"
#include "effects.h"
#include "player.h"
#include "mixer.h"
#include "virtual.h"

struct ssnap {
	unsigned char *begin;		/* allocation start (NULL: no data) */
	size_t size;
	long pre;			/* data - begin */
	unsigned char *copy;
};

struct snapshot {
	struct xmp_module hdr;
	int pat, trk, ins, smp, chn;
	struct xmp_pattern **xxp_ptr;	/* pointer identity */
	unsigned char **xxp;		/* copies */
	size_t *xxp_size;
	struct xmp_track **xxt_ptr;
	unsigned char **xxt;
	size_t *xxt_size;
	struct xmp_instrument *xxi;
	struct xmp_subinstrument **sub;
	struct xmp_sample *xxs;
	struct extra_sample_data *xtra;
	struct ssnap *sd;
};

static int verbose;
static long n_calls, n_frames, n_invloop_bytes, n_hdr_changed, n_fail, n_patchable;
#define MAXSMP 1024
#define MAXCH 256
static int flip_n[MAXSMP];		/* bytes flipped x -> x^0xff in sample i during the last compared call */
static long flip_off[MAXSMP];		/* data-relative offset of the first of them */
static int inv_count0[MAXCH], inv_pos0[MAXCH];
static int has_invloop_fx;	/* module contains (or was given) an invert-loop effect with speed > 0 */

static int alloc_extent(void *inside, unsigned char **begin, size_t *size)
{
	char name[64];
	void *ra = NULL;
	size_t rs = 0;
	const char *kind = __asan_locate_address(inside, name, sizeof(name), &ra, &rs);
	if (kind == NULL || strcmp(kind, "heap") != 0 || ra == NULL)
		return -1;
	*begin = (unsigned char *)ra;
	*size = rs;
	return 0;
}

/* bytes from p to the end of the heap allocation p points into (0 if unknown) */
static size_t extent_from(void *p)
{
	unsigned char *begin;
	size_t size;
	if (p == NULL || alloc_extent(p, &begin, &size) < 0)
		return 0;
	return (size_t)(begin + size - (unsigned char *)p);
}

static void *dup_mem(const void *p, size_t n)
{
	void *q = malloc(n ? n : 1);
	if (n > 0 && p != NULL)
		memcpy(q, p, n);
	return q;
}

static void take_snapshot(struct context_data *ctx, struct snapshot *s)
{
	struct module_data *m = &ctx->m;
	struct xmp_module *mod = &m->mod;
	int i;

	memset(s, 0, sizeof(*s));
	s->hdr = *mod;
	s->pat = mod->pat; s->trk = mod->trk; s->ins = mod->ins; s->smp = mod->smp; s->chn = mod->chn;
	s->xxp_ptr = (struct xmp_pattern **)dup_mem(mod->xxp, sizeof(void *) * (mod->pat > 0 ? mod->pat : 0));
	s->xxp = (unsigned char **)calloc(mod->pat + 1, sizeof(void *));
	s->xxp_size = (size_t *)calloc(mod->pat + 1, sizeof(size_t));
	for (i = 0; i < mod->pat; i++) {
		if (mod->xxp[i] == NULL)
			continue;
		s->xxp_size[i] = extent_from(mod->xxp[i]);	/* whatever libxmp_alloc_pattern allocated */
		s->xxp[i] = (unsigned char *)dup_mem(mod->xxp[i], s->xxp_size[i]);
	}
	s->xxt_ptr = (struct xmp_track **)dup_mem(mod->xxt, sizeof(void *) * (mod->trk > 0 ? mod->trk : 0));
	s->xxt = (unsigned char **)calloc(mod->trk + 1, sizeof(void *));
	s->xxt_size = (size_t *)calloc(mod->trk + 1, sizeof(size_t));
	for (i = 0; i < mod->trk; i++) {
		if (mod->xxt[i] == NULL)
			continue;
		s->xxt_size[i] = extent_from(mod->xxt[i]);	/* header + all events of the track */
		s->xxt[i] = (unsigned char *)dup_mem(mod->xxt[i], s->xxt_size[i]);
	}
	s->xxi = (struct xmp_instrument *)dup_mem(mod->xxi, sizeof(struct xmp_instrument) * (mod->ins > 0 ? mod->ins : 0));
	s->sub = (struct xmp_subinstrument **)calloc(mod->ins + 1, sizeof(void *));
	for (i = 0; i < mod->ins; i++) {
		if (mod->xxi[i].sub != NULL && mod->xxi[i].nsm > 0)
			s->sub[i] = (struct xmp_subinstrument *)dup_mem(mod->xxi[i].sub,
									sizeof(struct xmp_subinstrument) * mod->xxi[i].nsm);
	}
	s->xxs = (struct xmp_sample *)dup_mem(mod->xxs, sizeof(struct xmp_sample) * (mod->smp > 0 ? mod->smp : 0));
	s->xtra = m->xtra ? (struct extra_sample_data *)dup_mem(m->xtra, sizeof(struct extra_sample_data) * (mod->smp > 0 ? mod->smp : 0)) : NULL;
	s->sd = (struct ssnap *)calloc(mod->smp + 1, sizeof(struct ssnap));
	for (i = 0; i < mod->smp; i++) {
		struct xmp_sample *x = &mod->xxs[i];
		struct ssnap *d = &s->sd[i];
		if (x->data == NULL)
			continue;
		if (alloc_extent(x->data, &d->begin, &d->size) < 0) {
			d->begin = NULL;
			continue;
		}
		d->pre = (long)(x->data - d->begin);
		d->copy = (unsigned char *)dup_mem(d->begin, d->size);
		if ((x->flg & XMP_SAMPLE_LOOP) && x->len > 0)
			n_patchable++;
	}
}

static void free_snapshot(struct snapshot *s)
{
	int i;
	for (i = 0; i < s->pat; i++) free(s->xxp[i]);
	for (i = 0; i < s->trk; i++) free(s->xxt[i]);
	for (i = 0; i < s->ins; i++) free(s->sub[i]);
	for (i = 0; i < s->smp; i++) free(s->sd[i].copy);
	free(s->xxp_ptr); free(s->xxp); free(s->xxp_size);
	free(s->xxt_ptr); free(s->xxt); free(s->xxt_size);
	free(s->xxi); free(s->sub); free(s->xxs); free(s->xtra); free(s->sd);
}

static long first_diff(const unsigned char *a, const unsigned char *b, size_t n)
{
	size_t i;
	for (i = 0; i < n; i++)
		if (a[i] != b[i])
			return (long)i;
	return -1;
}

static void fail(const char *sig, int opidx, const char *opname, const char *fmt, long a, long b, long c)
{
	n_fail++;
	if (n_fail > 12)
		return;
	printf("o_fail %s op=%d:%s ", sig, opidx, opname);
	printf(fmt, a, b, c);
	printf("\n");
}

/* is the invert-loop effect currently applied to sample i by some channel? */
/* the voice mapped to channel c: 1 and its (smp, queued?, queued smp), or 0 if the channel has no voice */
static int chan_voice(struct context_data *ctx, int c, int *vsmp, int *vq, int *vqsmp, int *vpaused)
{
	struct player_data *p = &ctx->p;
	int voc = (p->virt.virt_channel && c < p->virt.virt_channels) ? p->virt.virt_channel[c].map : -1;
	*vsmp = *vqsmp = -1;
	*vq = *vpaused = 0;
	if (voc < 0 || voc >= p->virt.maxvoc || p->virt.voice_array == NULL)
		return 0;
	*vsmp = p->virt.voice_array[voc].smp;
	*vq = (p->virt.voice_array[voc].flags & SAMPLE_QUEUED) ? 1 : 0;
	*vqsmp = p->virt.voice_array[voc].queued.smp;
	*vpaused = (p->virt.voice_array[voc].flags & SAMPLE_PAUSED) ? 1 : 0;
	return 1;
}

/* xc->smp is one of the samples of the channel's current instrument */
static int chan_smp_of_ins(struct context_data *ctx, int c)
{
	struct xmp_module *mod = &ctx->m.mod;
	struct channel_data *xc = &ctx->p.xc_data[c];
	int k;
	if (xc->ins < 0 || xc->ins >= mod->ins || mod->xxi[xc->ins].sub == NULL)
		return 0;
	for (k = 0; k < mod->xxi[xc->ins].nsm; k++)
		if (mod->xxi[xc->ins].sub[k].sid == xc->smp)
			return 1;
	return 0;
}

/* "the sample the effect is applied to" is the one the channel's voice plays (or has queued by a Protracker
 * sample swap): channel and voice must agree on it.  A channel without a voice cannot be judged. */
static int chan_coherent(struct context_data *ctx, int c)
{
	int vsmp, vq, vqsmp, vpaused;
	struct channel_data *xc = &ctx->p.xc_data[c];
	if (!chan_voice(ctx, c, &vsmp, &vq, &vqsmp, &vpaused))
		return 1;
	/* a queued swap: the queued sample is the channel's (or "none": the voice is about to stop);
	 * otherwise the voice plays the channel's sample, or is paused (silent) */
	if (vq ? (vqsmp < 0 || vqsmp == xc->smp || vsmp == xc->smp) : (vpaused || vsmp == xc->smp))
		return 1;
	/* libxmp_mixer_queuepatch ignores a swap back to the sample that is playing without cancelling an older
	 * pending swap, so the voice may later move to a sample the channel no longer selects (an audio matter).
	 * The effect then still acts on the channel's own choice: a sample of the channel's current instrument. */
	return chan_smp_of_ins(ctx, c);
}

static int invloop_active_on(struct context_data *ctx, int smp)
{
	struct player_data *p = &ctx->p;
	int c;
	if (p->xc_data == NULL)
		return 0;
	for (c = 0; c < p->virt.virt_channels; c++) {
		struct channel_data *xc = &p->xc_data[c];
		if (xc->invloop.speed > 0 && xc->smp == smp && chan_coherent(ctx, c))
			return 1;
	}
	return 0;
}

/* a channel applies invert-loop to this sample while its voice plays another one */
static int invloop_incoherent_on(struct context_data *ctx, int smp)
{
	struct player_data *p = &ctx->p;
	int c;
	if (p->xc_data == NULL)
		return 0;
	for (c = 0; c < p->virt.virt_channels; c++) {
		struct channel_data *xc = &p->xc_data[c];
		if (xc->invloop.speed > 0 && xc->smp == smp && !chan_coherent(ctx, c))
			return 1;
	}
	return 0;
}

/* compare everything; `multi` = the call may have rendered several frames */
static void compare(struct context_data *ctx, struct snapshot *s, int opidx, const char *opname, int multi)
{
	struct module_data *m = &ctx->m;
	struct xmp_module *mod = &m->mod;
	long d;
	int i;

	n_calls++;
	memset(flip_n, 0, sizeof(flip_n));
	if (memcmp(&s->hdr, mod, sizeof(*mod)) != 0) {
		n_hdr_changed++;
		if (verbose)
			printf("note header changed at byte %ld after op %d:%s\n",
			       first_diff((unsigned char *)&s->hdr, (unsigned char *)mod, sizeof(*mod)), opidx, opname);
		if (mod->pat != s->pat || mod->trk != s->trk || mod->ins != s->ins || mod->smp != s->smp ||
		    mod->chn != s->chn || mod->xxp != s->hdr.xxp || mod->xxt != s->hdr.xxt || mod->xxi != s->hdr.xxi ||
		    mod->xxs != s->hdr.xxs) {
			fail("table-shape", opidx, opname, "table counts or table pointers of xmp_module changed%.0ld%.0ld%.0ld", 0, 0, 0);
			s->hdr = *mod;
			return;		/* the snapshot no longer describes the tables */
		}
		s->hdr = *mod;
	}
	for (i = 0; i < s->pat; i++) {
		if (mod->xxp[i] != s->xxp_ptr[i]) {
			fail("pattern-pointer", opidx, opname, "xxp[%ld] replaced%.0ld%.0ld", i, 0, 0);
			continue;
		}
		if (s->xxp[i] && (d = first_diff(s->xxp[i], (unsigned char *)mod->xxp[i], s->xxp_size[i])) >= 0) {
			fail("pattern", opidx, opname, "xxp[%ld] differs at byte %ld%.0ld", i, d, 0);
			memcpy(s->xxp[i], mod->xxp[i], s->xxp_size[i]);
		}
	}
	for (i = 0; i < s->trk; i++) {
		if (mod->xxt[i] != s->xxt_ptr[i]) {
			fail("track-pointer", opidx, opname, "xxt[%ld] replaced%.0ld%.0ld", i, 0, 0);
			continue;
		}
		if (s->xxt[i] && (d = first_diff(s->xxt[i], (unsigned char *)mod->xxt[i], s->xxt_size[i])) >= 0) {
			long off = d - (long)offsetof(struct xmp_track, event);
			fail("event", opidx, opname, "track %ld differs at byte %ld (row %ld)", i, d,
			     off >= 0 ? off / (long)sizeof(struct xmp_event) : -1);
			memcpy(s->xxt[i], mod->xxt[i], s->xxt_size[i]);
		}
	}
	for (i = 0; i < s->ins; i++) {
		struct xmp_instrument *a = &s->xxi[i], *b = &mod->xxi[i];
		if ((d = first_diff((unsigned char *)a, (unsigned char *)b, sizeof(*a))) >= 0) {
			size_t o = (size_t)d;
			const char *sig = "instrument";
			if (o >= offsetof(struct xmp_instrument, aei) && o < offsetof(struct xmp_instrument, map))
				sig = "envelope";
			fail(sig, opidx, opname, "instrument %ld differs at byte %ld%.0ld", i, d, 0);
			*a = *b;
		}
		if (s->sub[i] && b->sub && b->nsm == a->nsm &&
		    (d = first_diff((unsigned char *)s->sub[i], (unsigned char *)b->sub, sizeof(struct xmp_subinstrument) * a->nsm)) >= 0) {
			fail("subinstrument", opidx, opname, "instrument %ld sub-instrument data differs at byte %ld%.0ld", i, d, 0);
			memcpy(s->sub[i], b->sub, sizeof(struct xmp_subinstrument) * a->nsm);
		}
	}
	if (s->xtra && m->xtra && (d = first_diff((unsigned char *)s->xtra, (unsigned char *)m->xtra,
						   sizeof(struct extra_sample_data) * s->smp)) >= 0) {
		fail("sample-extra", opidx, opname, "extra_sample_data differs at byte %ld (sample %ld)%.0ld", d,
		     d / (long)sizeof(struct extra_sample_data), 0);
		memcpy(s->xtra, m->xtra, sizeof(struct extra_sample_data) * s->smp);
	}
	for (i = 0; i < s->smp; i++) {
		struct xmp_sample *a = &s->xxs[i], *b = &mod->xxs[i];
		struct ssnap *sd = &s->sd[i];
		if ((d = first_diff((unsigned char *)a, (unsigned char *)b, sizeof(*a))) >= 0) {
			fail("sample-header", opidx, opname, "sample %ld header differs at byte %ld%.0ld", i, d, 0);
			*a = *b;
		}
		if (sd->begin == NULL || b->data == NULL || b->data != sd->begin + sd->pre)
			continue;
		if (memcmp(sd->begin, sd->copy, sd->size) != 0) {
			size_t k;
			int lo = 0, hi = -1;	/* invert-loop range [lo,hi) in data-relative bytes */
			int legal = 0, inrange = 0;
			if (HAS_QUIRK(QUIRK_PROTRACK | QUIRK_INVLOOP) && (~b->flg & XMP_SAMPLE_16BIT)) {
				if (b->flg & XMP_SAMPLE_LOOP) {
					lo = b->lps; hi = b->lpe; inrange = 1;
				} else if ((b->flg & XMP_SAMPLE_SLOOP) && m->xtra) {
					lo = m->xtra[i].sus; hi = m->xtra[i].sue; inrange = 1;
				}
				/* tolerated only while the effect is applied to this sample */
				legal = inrange && (multi ? has_invloop_fx : invloop_active_on(ctx, i));
			}
			for (k = 0; k < sd->size; k++) {
				long o = (long)k - sd->pre;
				if (sd->begin[k] == sd->copy[k])
					continue;
				if (i < MAXSMP && sd->begin[k] == (unsigned char)(sd->copy[k] ^ 0xff)) {
					if (flip_n[i]++ == 0)
						flip_off[i] = o;
				}
				if (legal && o >= lo && o < hi && sd->begin[k] == (unsigned char)(sd->copy[k] ^ 0xff)) {
					n_invloop_bytes++;
					continue;
				}
				if (legal && o == hi && sd->begin[k] == (unsigned char)(sd->copy[k] ^ 0xff)) {
					fail("invloop-past-loop-end", opidx, opname,
					     "sample %ld: invert-loop flipped the byte AT the loop end (offset %ld, loop end %ld), outside the loop", i, o, hi);
					continue;
				}
				if (inrange && !legal && o >= lo && o < hi && sd->begin[k] == (unsigned char)(sd->copy[k] ^ 0xff)) {
					if (!multi && invloop_incoherent_on(ctx, i)) {
						fail("invloop-unrelated-sample", opidx, opname,
						     "sample %ld: byte at offset %ld inverted by a channel whose voice plays (and has queued) a different sample%.0ld", i, o, 0);
						continue;
					}
					fail("invloop-while-off", opidx, opname,
					     "sample %ld: byte at offset %ld inside its loop was inverted although no channel applies invert-loop (speed > 0) to it%.0ld", i, o, 0);
					continue;
				}
				{
					int bytelen = b->len * ((b->flg & XMP_SAMPLE_16BIT) ? 2 : 1) * ((b->flg & XMP_SAMPLE_STEREO) ? 2 : 1);
					const char *sig = o < 0 ? "sample-guard-front" : (o >= bytelen ? "sample-guard-rear" : "sample-data");
					fail(sig, opidx, opname, "sample %ld byte at data%+ld changed (sample data is %ld bytes)", i, o, bytelen);
					if (verbose) {
						int c;
						printf("note sample %d flg=%#x len=%d lps=%d lpe=%d old=%02x new=%02x\n", i, b->flg, b->len, b->lps, b->lpe,
						       sd->copy[k], sd->begin[k]);
						for (c = 0; ctx->p.xc_data && c < ctx->p.virt.virt_channels; c++) {
							struct channel_data *xc = &ctx->p.xc_data[c];
							printf("note chn %d ins=%d smp=%d invloop speed=%d count=%d pos=%d\n", c, xc->ins, xc->smp,
							       xc->invloop.speed, xc->invloop.count, xc->invloop.pos);
						}
					}
				}
				break;
			}
			memcpy(sd->copy, sd->begin, sd->size);
		}
	}
}

/* give a Protracker-type module some invert-loop effects (E Fx) */
static int inject_invloop(struct context_data *ctx)
{
	struct module_data *m = &ctx->m;
	struct xmp_module *mod = &m->mod;
	int t, n = 0, tries;
	if (!HAS_QUIRK(QUIRK_PROTRACK | QUIRK_INVLOOP) || mod->trk <= 0)
		return 0;
	for (tries = 0; tries < 40; tries++) {
		struct xmp_track *tr;
		struct xmp_event *e;
		t = vrng_below(mod->trk);
		tr = mod->xxt[t];
		if (tr == NULL || tr->rows <= 0)
			continue;
		e = &tr->event[vrng_below(tr->rows)];
		if (e->fxt != 0 || e->fxp != 0)
			continue;
		e->fxt = FX_EXTENDED;
		e->fxp = (EX_INVLOOP << 4) | vrng_range(8, 15);
		n++;
	}
	return n;
}

/* structure-aware variation of a loaded module (states a loader may legitimately produce): looped samples
 * become bidirectional; samples that satisfy the FULLREP condition (lps == 0, len > lpe) get XMP_SAMPLE_LOOP_FULL */
static int vary_loops(struct xmp_module *mod)
{
	int i, n = 0;
	for (i = 0; i < mod->smp; i++) {
		struct xmp_sample *x = &mod->xxs[i];
		if (!(x->flg & XMP_SAMPLE_LOOP) || x->data == NULL)
			continue;
		if (vrng_chance(30)) {
			x->flg ^= XMP_SAMPLE_LOOP_BIDIR;
			n++;
		}
		if (x->lps == 0 && x->len > x->lpe && vrng_chance(50)) {
			x->flg |= XMP_SAMPLE_LOOP_FULL;
			n++;
		}
	}
	return n;
}

/* --- second-generation generators; all their decisions come from a separate RNG stream so that the
 * histories of older recorded cases (generator level 1) do not change --- */
static int gen_level = 2;

/* structure-aware event mutation: rewrite some events of the patterns that get played with combinations of
 * special notes (key off / cut / fade), instruments, volumes and effects (all extended effects, slides,
 * portamento, speed, offset, retrigger, key-off, envelope position) that the corpus lacks */
static int mutate_events(struct context_data *ctx)
{
	struct module_data *m = &ctx->m;
	struct xmp_module *mod = &m->mod;
	static const int fx[] = { FX_EXTENDED, FX_EXTENDED, FX_EXTENDED, FX_PORTA_UP, FX_PORTA_DN, FX_PORTA_DN, FX_TONEPORTA,
				  FX_VIBRATO, FX_TREMOLO, FX_OFFSET, FX_VOLSLIDE, FX_VOLSET, FX_SPEED, FX_SETPAN, FX_KEYOFF,
				  FX_ENVPOS, FX_MULTI_RETRIG, FX_ARPEGGIO };
	int n = vrng_range(8, 80), done = 0, t;
	if (mod->pat <= 0 || mod->chn <= 0 || mod->len <= 0)
		return 0;
	for (t = 0; t < n; t++) {
		int ord = vrng_chance(70) ? (int)vrng_below(mod->len < 4 ? mod->len : 4) : (int)vrng_below(mod->len);
		int pat = mod->xxo[ord], trk, row, k;
		struct xmp_track *tr;
		struct xmp_event *e;
		if (pat >= mod->pat || mod->xxp[pat] == NULL)
			continue;
		trk = mod->xxp[pat]->index[vrng_below(mod->chn)];
		if (trk < 0 || trk >= mod->trk || (tr = mod->xxt[trk]) == NULL || tr->rows <= 0)
			continue;
		row = vrng_chance(70) ? (int)vrng_below(tr->rows < 12 ? tr->rows : 12) : (int)vrng_below(tr->rows);
		e = &tr->event[row];
		k = vrng_below(100);
		e->note = k < 35 ? 0 : k < 65 ? vrng_range(1, 96) : k < 85 ? XMP_KEY_OFF : k < 92 ? XMP_KEY_CUT : XMP_KEY_FADE;
		e->ins = vrng_chance(45) ? 0 : vrng_range(1, mod->ins > 0 ? mod->ins : 1);
		e->vol = vrng_chance(60) ? 0 : vrng_range(1, 65);
		if (vrng_chance(80)) {
			e->fxt = fx[vrng_below(sizeof(fx) / sizeof(fx[0]))];
			e->fxp = e->fxt == FX_SPEED ? vrng_range(1, 12) : vrng_chance(25) ? 0xff : vrng_below(256);
			if (e->fxt == FX_EXTENDED && vrng_chance(75)) {
				/* extended effects: the note-timing ones (delay, cut, retrigger, pattern delay) interact
				 * with special notes and instruments, weight them up */
				static const int ex[] = { EX_DELAY, EX_DELAY, EX_DELAY, EX_DELAY, EX_CUT, EX_CUT, EX_CUT, EX_RETRIG,
							  EX_RETRIG, EX_RETRIG, EX_PATT_DELAY, EX_PATT_DELAY, EX_INVLOOP, EX_INVLOOP,
							  EX_PATTERN_LOOP, EX_F_PORTA_DN, EX_F_PORTA_UP, EX_FINETUNE, EX_SETPAN,
							  EX_F_VSLIDE_UP, EX_F_VSLIDE_DN, EX_GLISS, EX_VIBRATO_WF, EX_TREMOLO_WF };
				e->fxp = (ex[vrng_below(sizeof(ex) / sizeof(ex[0]))] << 4) | vrng_below(16);
			}
		}
		if (vrng_chance(25)) {
			e->f2t = fx[vrng_below(sizeof(fx) / sizeof(fx[0]))];
			e->f2p = e->f2t == FX_SPEED ? vrng_range(1, 12) : vrng_below(256);
		}
		done++;
	}
	return done;
}

/* samples with an extreme C5 speed (a loader may produce any value, e.g. S3M c2spd): the mixer's step then
 * leaves its supported range and the voice is skipped */
static int vary_c5spd(struct context_data *ctx)
{
	struct module_data *m = &ctx->m;
	static const double v[] = { 1.0, 3.0, 12.0, 60.0, 400.0, 250000.0 };
	int i, n = 0;
	if (m->xtra == NULL)
		return 0;
	for (i = 0; i < m->mod.smp; i++) {
		if (vrng_chance(35)) {
			m->xtra[i].c5spd = v[vrng_below(6)];
			n++;
		}
	}
	return n;
}

/* modules whose format carries instrument / sub-instrument global volumes (QUIRK_INSVOL): any value up to the
 * volume base is a legitimate loader result */
static int vary_insvol(struct context_data *ctx)
{
	struct module_data *m = &ctx->m;
	struct xmp_module *mod = &m->mod;
	int i, j, n = 0;
	if (!HAS_QUIRK(QUIRK_INSVOL) || m->volbase <= 0)
		return 0;
	for (i = 0; i < mod->ins; i++) {
		if (vrng_chance(50)) {
			mod->xxi[i].vol = vrng_range(0, m->volbase);
			n++;
		}
		for (j = 0; j < mod->xxi[i].nsm; j++)
			if (vrng_chance(50))
				mod->xxi[i].sub[j].gvl = vrng_range(0, m->volbase);
	}
	return n;
}

/* formats that keep their loops as sustain loops (Digital Symphony, IT): some looped 8-bit samples get their loop
 * as a sustain loop instead (XMP_SAMPLE_SLOOP without XMP_SAMPLE_LOOP, xtra->sus/sue) */
static int vary_sustain(struct context_data *ctx)
{
	struct module_data *m = &ctx->m;
	struct xmp_module *mod = &m->mod;
	int i, n = 0;
	if (m->xtra == NULL)
		return 0;
	for (i = 0; i < mod->smp; i++) {
		struct xmp_sample *x = &mod->xxs[i];
		if (!(x->flg & XMP_SAMPLE_LOOP) || (x->flg & XMP_SAMPLE_SLOOP) || x->data == NULL || !vrng_chance(50))
			continue;
		m->xtra[i].sus = x->lps;
		m->xtra[i].sue = x->lpe;
		if (x->flg & XMP_SAMPLE_LOOP_BIDIR)
			x->flg |= XMP_SAMPLE_SLOOP_BIDIR;
		x->flg &= ~(XMP_SAMPLE_LOOP | XMP_SAMPLE_LOOP_BIDIR | XMP_SAMPLE_LOOP_FULL);
		x->flg |= XMP_SAMPLE_SLOOP;
		if (vrng_chance(50))
			x->lps = x->lpe = 0;
		n++;
	}
	return n;
}

/* invert-loop effects whatever the module's own quirks are */
static int inject_invloop_any(struct context_data *ctx)
{
	struct xmp_module *mod = &ctx->m.mod;
	int t, n = 0, tries;
	if (mod->trk <= 0)
		return 0;
	for (tries = 0; tries < 40; tries++) {
		struct xmp_track *tr;
		struct xmp_event *e;
		t = vrng_below(mod->trk);
		tr = mod->xxt[t];
		if (tr == NULL || tr->rows <= 0)
			continue;
		e = &tr->event[vrng_below(tr->rows)];
		if (e->fxt != 0 || e->fxp != 0)
			continue;
		e->fxt = FX_EXTENDED;
		e->fxp = (EX_INVLOOP << 4) | vrng_range(8, 15);
		n++;
	}
	return n;
}

static int scan_invloop(struct xmp_module *mod)
{
	int t, r;
	for (t = 0; t < mod->trk; t++) {
		struct xmp_track *tr = mod->xxt[t];
		if (tr == NULL)
			continue;
		for (r = 0; r < tr->rows; r++) {
			struct xmp_event *e = &tr->event[r];
			if ((e->fxt == FX_EXTENDED && (e->fxp >> 4) == EX_INVLOOP && (e->fxp & 15)) ||
			    (e->f2t == FX_EXTENDED && (e->f2p >> 4) == EX_INVLOOP && (e->f2p & 15)))
				return 1;
		}
	}
	return 0;
}

static void inv_before(struct context_data *ctx)
{
	struct player_data *p = &ctx->p;
	int c;
	for (c = 0; c < p->virt.virt_channels && c < MAXCH; c++) {
		inv_count0[c] = p->xc_data[c].invloop.count;
		inv_pos0[c] = p->xc_data[c].invloop.pos;
	}
}

/* one line per channel the invert-loop effect is active on: state before/after this tick, the
 * sample parameters update_invloop reads, and what was flipped in that sample (model input + real result) */
static void inv_after(struct context_data *ctx)
{
	struct player_data *p = &ctx->p;
	struct module_data *m = &ctx->m;
	struct xmp_module *mod = &m->mod;
	int c;
	if (!HAS_QUIRK(QUIRK_PROTRACK | QUIRK_INVLOOP))
		return;
	for (c = 0; c < p->virt.virt_channels && c < MAXCH; c++) {
		struct channel_data *xc = &p->xc_data[c];
		int present = xc->smp >= 0 && xc->smp < mod->smp && xc->smp < MAXSMP;
		struct xmp_sample *x = present ? &mod->xxs[xc->smp] : NULL;
		if (xc->invloop.speed < 0 || xc->invloop.speed > 15 || xc->ins >= mod->ins)	/* the player's own condition: a negative instrument passes */
			continue;
		if (xc->invloop.speed == 0 && inv_count0[c] < 128)
			continue;	/* effect off and nothing pending: update_invloop cannot do anything */
		printf("inv %ld %d %d %d %d %d %d %d ", n_calls, c, xc->invloop.speed, inv_count0[c], inv_pos0[c],
		       xc->invloop.count, xc->invloop.pos, xc->smp);
		{
			int vsmp, vq, vqsmp, vpaused, mapped = chan_voice(ctx, c, &vsmp, &vq, &vqsmp, &vpaused);
			printf("%d %d %d %d %d ", mapped, vsmp, vq, vqsmp, vpaused | (chan_smp_of_ins(ctx, c) ? 2 : 0));
		}
		if (present)
			printf("1 %d %d %d %d %d %d %d %d %d %ld\n", (x->flg & XMP_SAMPLE_LOOP) ? 1 : 0,
			       (x->flg & XMP_SAMPLE_SLOOP) ? 1 : 0, (x->flg & XMP_SAMPLE_16BIT) ? 1 : 0, x->data == NULL,
			       x->lps, x->lpe, m->xtra ? m->xtra[xc->smp].sus : 0, m->xtra ? m->xtra[xc->smp].sue : 0,
			       flip_n[xc->smp], flip_n[xc->smp] ? flip_off[xc->smp] : -1L);
		else
			printf("0 0 0 0 0 0 0 0 0 0 -1\n");
	}
}

/* second RNG stream (generator level >= 2): decisions added after cases were recorded do not disturb the first */
static uint64_t rng2_state;
static uint32_t r2_below(uint32_t n)
{
	uint64_t s = vrng_state;
	uint32_t r;
	vrng_state = rng2_state;
	r = vrng_below(n);
	rng2_state = vrng_state;
	vrng_state = s;
	return r;
}
static int r2_range(int lo, int hi) { return lo + (int)r2_below((uint32_t)(hi - lo + 1)); }

/* xmp_set_player with every parameter (read-only and wrong-state ones included) and boundary values */
static const char *random_set_player(xmp_context opaque)
{
	static const int bound[] = { -2147483647 - 1, -2, -1, 0, 1, 2, 3, 4, 7, 8, 15, 16, 63, 64, 100, 101, 200, 201, 255, 256,
				     0x10000, 0x10001, 2147483647 };
	static char name[64];
	int parm = r2_range(-1, 14), val;
	switch (parm) {
	case XMP_PLAYER_MODE:
		val = r2_below(10) < 8 ? r2_range(XMP_MODE_AUTO, XMP_MODE_ITSMP) : r2_range(-1, 12);
		break;
	case XMP_PLAYER_FLAGS:
	case XMP_PLAYER_CFLAGS:
		val = r2_below(10) < 8 ? (int)r2_below(16) : bound[r2_below(sizeof(bound) / sizeof(bound[0]))];
		break;
	case XMP_PLAYER_INTERP:
		val = r2_range(-1, 3);
		break;
	case XMP_PLAYER_VOICES:
		val = r2_below(2) ? r2_range(1, 64) : bound[r2_below(sizeof(bound) / sizeof(bound[0]))];
		break;
	default:
		val = r2_below(2) ? r2_range(-1, 201) : bound[r2_below(sizeof(bound) / sizeof(bound[0]))];
	}
	xmp_set_player(opaque, parm, val);
	if (r2_below(4) == 0)
		xmp_get_player(opaque, r2_range(-1, 14));
	snprintf(name, sizeof(name), "xmp_set_player(%d,%d)", parm, val);
	return name;
}

static const int rates[] = { 4000, 8000, 11025, 16000, 22050, 44100, 48000, 49170 };

static int pick_fmt(void)
{
	return (vrng_chance(35) ? XMP_FORMAT_MONO : 0) | (vrng_chance(20) ? XMP_FORMAT_8BIT : 0) |
	       (vrng_chance(15) ? XMP_FORMAT_UNSIGNED : 0);
}

static int run_case(uint64_t case_seed, int nops, const char *path)
{
	xmp_context opaque;
	struct context_data *ctx;
	struct xmp_module *mod;
	struct snapshot snap;
	struct xmp_frame_info fi;
	struct xmp_module_info mi;
	static unsigned char outbuf[200000];
	int rate, fmt, interp, inject = 0, op, started = 0, total_time, nmut = 0, nspd = 0;
	long frames0 = n_frames;

	vrng_seed(case_seed);
	opaque = xmp_create_context();
	ctx = (struct context_data *)opaque;
	if (xmp_load_module(opaque, path) < 0) {
		printf("skip %s\n", path);
		xmp_free_context(opaque);
		return 0;
	}
	mod = &ctx->m.mod;
	rate = rates[vrng_below(8)];
	fmt = pick_fmt();
	interp = vrng_below(3);	/* XMP_INTERP_NEAREST, LINEAR, SPLINE */
	if (vrng_chance(60))
		inject = inject_invloop(ctx);
	if (vrng_chance(35))
		inject += 1000 * vary_loops(mod);
	if (gen_level >= 2) {
		uint64_t saved = vrng_state;
		vrng_seed(case_seed ^ 0x9e3779b97f4a7c15ULL);
		if (vrng_chance(65))
			nmut = mutate_events(ctx);
		if (vrng_chance(35))
			nspd = vary_c5spd(ctx);
		if (vrng_chance(40))
			vary_insvol(ctx);
		if (vrng_chance(30))
			vary_sustain(ctx);
		if (vrng_chance(40))
			inject += inject_invloop_any(ctx);	/* the player mode may be switched to one that honours it */
		rng2_state = vrng_state;
		vrng_state = saved;
	}
	has_invloop_fx = scan_invloop(mod);
	take_snapshot(ctx, &snap);
	printf("case %llu %d %s rate=%d fmt=%d interp=%d inject=%d invloopfx=%d smp=%d pat=%d gen=%d mut=%d c5spd=%d\n",
	       (unsigned long long)case_seed, nops, path, rate, fmt, interp, inject, has_invloop_fx, mod->smp, mod->pat,
	       gen_level, nmut, nspd);
	fflush(stdout);	/* a sanitizer abort must be attributable to this case */

#define AFTER(name, multi) do { if (verbose) printf("op %d %s\n", op, name); compare(ctx, &snap, op, name, multi); } while (0)

	op = -1;
	if (gen_level >= 2 && r2_below(100) < 20)
		xmp_set_player(opaque, XMP_PLAYER_VOICES, r2_range(1, 6));	/* few voices: notes evict each other */
	if (xmp_start_player(opaque, rate, fmt) == 0) {
		started = 1;
		xmp_set_player(opaque, XMP_PLAYER_INTERP, interp);
		if (vrng_chance(25))
			xmp_set_player(opaque, XMP_PLAYER_FLAGS, xmp_get_player(opaque, XMP_PLAYER_FLAGS) | XMP_FLAGS_A500);
		if (vrng_chance(20))
			xmp_set_player(opaque, XMP_PLAYER_DSP, vrng_chance(50) ? XMP_DSP_LOWPASS : 0);
	}
	AFTER("xmp_start_player", 0);
	if (started && gen_level >= 2 && r2_below(100) < 45) {
		/* play the whole history in another player personality */
		int mode = r2_range(XMP_MODE_MOD, XMP_MODE_ITSMP);
		xmp_set_player(opaque, XMP_PLAYER_MODE, r2_below(3) == 0 ? XMP_MODE_PROTRACKER : mode);
		AFTER("xmp_set_player(MODE)", 0);
	}
	xmp_get_frame_info(opaque, &fi);
	total_time = fi.total_time > 0 ? (fi.total_time < 100000000 ? fi.total_time : 100000000) : 1000;

	for (op = 0; op < nops; op++) {
		int k = vrng_below(100);
		if (!started) {
			if (gen_level >= 2 && r2_below(100) < 30) {
				const char *nm = random_set_player(opaque);	/* loaded, not playing: VOICES is legal here */
				AFTER(nm, 0);
			}
			if (xmp_start_player(opaque, rates[vrng_below(8)], pick_fmt()) == 0) {
				started = 1;
				xmp_set_player(opaque, XMP_PLAYER_INTERP, vrng_below(3));
			}
			AFTER("xmp_start_player", 0);
			continue;
		}
		if (gen_level >= 2 && r2_below(100) < 10) {
			const char *nm = random_set_player(opaque);
			AFTER(nm, 0);
			continue;
		}
		if (k < 45) {
			int n = vrng_chance(70) ? vrng_range(1, 6) : vrng_range(6, 40), j, r = 0;
			for (j = 0; j < n && r == 0; j++) {
				if (started && ctx->p.xc_data)
					inv_before(ctx);
				r = xmp_play_frame(opaque);
				n_frames++;
				AFTER("xmp_play_frame", 0);
				if (r == 0 && ctx->p.xc_data)
					inv_after(ctx);
			}
		} else if (k < 52) {
			int size = vrng_range(1, (int)sizeof(outbuf));
			xmp_play_buffer(opaque, outbuf, size, vrng_below(3));
			n_frames++;
			AFTER("xmp_play_buffer", 1);
		} else if (k < 60) {
			xmp_seek_time(opaque, vrng_range(0, total_time + 1000));
			AFTER("xmp_seek_time", 0);
		} else if (k < 68) {
			xmp_set_position(opaque, vrng_range(0, mod->len + 1));
			AFTER("xmp_set_position", 0);
		} else if (k < 72) {
			xmp_next_position(opaque);
			AFTER("xmp_next_position", 0);
		} else if (k < 76) {
			xmp_prev_position(opaque);
			AFTER("xmp_prev_position", 0);
		} else if (k < 79) {
			xmp_set_row(opaque, vrng_range(0, 70));
			AFTER("xmp_set_row", 0);
		} else if (k < 83) {
			xmp_restart_module(opaque);
			AFTER("xmp_restart_module", 0);
		} else if (k < 86) {
			xmp_stop_module(opaque);
			AFTER("xmp_stop_module", 0);
		} else if (k < 89) {
			xmp_channel_mute(opaque, vrng_below(mod->chn > 0 ? mod->chn : 1), vrng_range(-1, 1));
			xmp_channel_vol(opaque, vrng_below(mod->chn > 0 ? mod->chn : 1), vrng_range(-1, 100));
			AFTER("xmp_channel_mute/vol", 0);
		} else if (k < 92) {
			xmp_set_player(opaque, XMP_PLAYER_INTERP, vrng_below(3));
			xmp_set_player(opaque, XMP_PLAYER_MIX, vrng_range(-100, 100));
			xmp_set_player(opaque, XMP_PLAYER_AMP, vrng_below(4));
			AFTER("xmp_set_player", 0);
		} else if (k < 94) {
			xmp_get_frame_info(opaque, &fi);
			xmp_get_module_info(opaque, &mi);
			AFTER("xmp_get_*_info", 0);
		} else if (k < 96) {
			struct xmp_event ev;
			memset(&ev, 0, sizeof(ev));
			ev.note = vrng_range(0, 96);
			ev.ins = vrng_range(0, mod->ins);
			ev.vol = vrng_range(0, 64);
			if (vrng_chance(50)) {
				ev.fxt = FX_EXTENDED;
				ev.fxp = (EX_INVLOOP << 4) | vrng_range(0, 15);
				if (ev.fxp & 15)
					has_invloop_fx = 1;
			}
			xmp_inject_event(opaque, vrng_below(mod->chn > 0 ? mod->chn : 1), &ev);
			AFTER("xmp_inject_event", 0);
		} else if (k < 98) {
			xmp_set_tempo_factor(opaque, 0.25 + vrng_below(300) / 100.0);
			AFTER("xmp_set_tempo_factor", 0);
		} else {
			xmp_end_player(opaque);
			started = 0;
			AFTER("xmp_end_player", 0);
		}
	}
	if (started) {
		xmp_end_player(opaque);
		AFTER("xmp_end_player", 0);
	}
	printf("end frames=%ld\n", n_frames - frames0);
	free_snapshot(&snap);
	xmp_release_module(opaque);
	xmp_free_context(opaque);
	return 0;
}

/* ------------------------------------------------------------------ long runs on synthetic modules
 * Long histories x large geometry: an M.K. module is generated in memory with a few samples of random size up to the
 * format's maximum (131070 bytes) and random loops (short, around 32768/65536 bytes, up to the whole sample), notes with
 * invert-loop effects of random speed on three channels, a slow song speed / fast tempo so that one tick is a few dozen
 * output frames, and an order list that mostly replays empty patterns (some carry further notes, instrument-only rows and
 * effects).  It is rendered tick by tick for tens of thousands of ticks with the full comparison after every tick. */
static unsigned char *build_synth_mod(long *size, int *nsmp_out)
{
	static const int periods[] = { 856, 428, 214, 320, 170, 113 };
	int nsmp = vrng_range(2, 4), i, c, r, npat = 3;
	long slen[4], lps[4], llen[4], total = 1084 + npat * 1024, off;
	unsigned char *b;

	for (i = 0; i < nsmp; i++) {
		switch (vrng_below(5)) {
		case 0: slen[i] = vrng_range(2, 1000) * 2; break;
		case 1: slen[i] = vrng_range(15000, 18000) * 2; break;	/* around 32768 */
		case 2: slen[i] = vrng_range(32000, 34000) * 2; break;	/* around 65536 */
		default: slen[i] = vrng_range(20000, 65535) * 2;
		}
		switch (vrng_below(4)) {
		case 0: lps[i] = 0; llen[i] = slen[i]; break;			/* whole sample */
		case 1: lps[i] = 0; llen[i] = vrng_range(1, (int)(slen[i] / 2)) * 2; break;
		default:
			lps[i] = vrng_range(0, (int)(slen[i] / 2) - 1) * 2;
			llen[i] = vrng_range(1, (int)((slen[i] - lps[i]) / 2)) * 2;
		}
		if (vrng_chance(60) && slen[i] > 70000) {	/* favour long loops on long samples */
			lps[i] = vrng_range(0, 15000) * 2;
			llen[i] = slen[i] - lps[i] - vrng_range(0, 2000) * 2;
		}
		total += slen[i];
	}
	b = (unsigned char *)calloc(1, total);
	memcpy(b, "c15 synthetic", 13);
	for (i = 0; i < 31; i++) {
		unsigned char *h = b + 20 + 30 * i;
		if (i < nsmp) {
			h[22] = (slen[i] / 2) >> 8; h[23] = (slen[i] / 2) & 0xff;
			h[24] = vrng_below(16); h[25] = vrng_range(20, 64);
			h[26] = (lps[i] / 2) >> 8; h[27] = (lps[i] / 2) & 0xff;
			h[28] = (llen[i] / 2) >> 8; h[29] = (llen[i] / 2) & 0xff;
		} else {
			h[29] = 1;
		}
	}
	b[950] = 128;
	b[951] = 0x7f;
	for (i = 1; i < 128; i++)
		b[952 + i] = vrng_chance(8) ? 2 : 1;	/* mostly the empty pattern 1 */
	memcpy(b + 1080, "M.K.", 4);
	/* pattern 0, row 0: notes with invert loop on channels 0-2; channel 3 sets speed and tempo */
	for (c = 0; c < 3; c++) {
		unsigned char *ev = b + 1084 + c * 4;
		int per = periods[vrng_below(6)], ins = vrng_range(1, nsmp);
		int spd = vrng_chance(60) ? 15 : vrng_range(0, 15);
		if (vrng_chance(15))
			continue;
		ev[0] = (ins & 0xf0) | (per >> 8); ev[1] = per & 0xff;
		ev[2] = ((ins & 0x0f) << 4) | 0x0e; ev[3] = 0xf0 | spd;
	}
	b[1084 + 3 * 4 + 2] = 0x0f; b[1084 + 3 * 4 + 3] = vrng_range(8, 31);		/* row 0: F xx speed */
	b[1084 + 16 + 3 * 4 + 2] = 0x0f; b[1084 + 16 + 3 * 4 + 3] = vrng_range(200, 255);	/* row 1: tempo */
	/* pattern 2: a few random events (notes, instrument-only rows, effects) */
	for (i = 0; i < 6; i++) {
		unsigned char *ev;
		int per, ins;
		r = vrng_below(64); c = vrng_below(4);
		ev = b + 1084 + 2 * 1024 + r * 16 + c * 4;
		per = vrng_chance(50) ? periods[vrng_below(6)] : 0;
		ins = vrng_chance(50) ? vrng_range(1, nsmp) : 0;
		ev[0] = (ins & 0xf0) | (per >> 8); ev[1] = per & 0xff;
		ev[2] = ((ins & 0x0f) << 4) | (vrng_chance(50) ? 0x0e : vrng_below(11));
		ev[3] = ev[2] == 0x0e || (ev[2] & 0x0f) == 0x0e ? (0xf0 | vrng_below(16)) : vrng_below(256);
	}
	off = 1084 + npat * 1024;
	for (i = 0; i < nsmp; i++) {
		long k;
		for (k = 0; k < slen[i]; k++)
			b[off + k] = (unsigned char)vrng_next();
		off += slen[i];
	}
	*size = total;
	*nsmp_out = nsmp;
	return b;
}

static int run_long(uint64_t case_seed, long nticks)
{
	xmp_context opaque;
	struct context_data *ctx;
	struct snapshot snap;
	unsigned char *mod;
	long size, t;
	int nsmp, op = 0, interp, i;

	vrng_seed(case_seed);
	mod = build_synth_mod(&size, &nsmp);
	opaque = xmp_create_context();
	ctx = (struct context_data *)opaque;
	if (xmp_load_module_from_memory(opaque, mod, size) < 0) {
		printf("skip synthetic %llu\n", (unsigned long long)case_seed);
		xmp_free_context(opaque);
		free(mod);
		return 0;
	}
	has_invloop_fx = 1;
	if (vrng_chance(35))
		vary_sustain(ctx);
	take_snapshot(ctx, &snap);
	interp = vrng_below(3);
	printf("case %llu %ld @synthetic rate=4000 fmt=4 interp=%d inject=0 invloopfx=1 smp=%d pat=%d gen=3 mut=0 c5spd=0",
	       (unsigned long long)case_seed, nticks, interp, ctx->m.mod.smp, ctx->m.mod.pat);
	for (i = 0; i < nsmp; i++)
		printf(" s%d=%d[%d,%d)", i, ctx->m.mod.xxs[i].len, ctx->m.mod.xxs[i].lps, ctx->m.mod.xxs[i].lpe);
	printf("\n");
	fflush(stdout);
	if (xmp_start_player(opaque, 4000, XMP_FORMAT_MONO) < 0) {
		printf("end frames=0\n");
		goto out;
	}
	xmp_set_player(opaque, XMP_PLAYER_INTERP, interp);
	if (vrng_chance(50))
		xmp_set_player(opaque, XMP_PLAYER_MODE, XMP_MODE_PROTRACKER);
	compare(ctx, &snap, -1, "xmp_start_player", 0);
	for (t = 0; t < nticks; t++) {
		int c, boundary = 0;
		inv_before(ctx);
		if (xmp_play_frame(opaque) != 0)
			break;
		n_frames++;
		op = (int)t;
		compare(ctx, &snap, op, "xmp_play_frame", 0);
		/* model correspondence lines: sparse, but always where a position crosses a power of two */
		for (c = 0; c < ctx->p.virt.virt_channels && c < MAXCH; c++)
			if (inv_pos0[c] >= 127 && ((inv_pos0[c] + 1) & inv_pos0[c]) == 0)
				boundary = 1;
		if (boundary || t % 211 == 0)
			inv_after(ctx);
		if (n_fail > 12)
			break;
	}
	xmp_end_player(opaque);
	compare(ctx, &snap, op, "xmp_end_player", 0);
	printf("end frames=%ld\n", t);
out:
	free_snapshot(&snap);
	xmp_release_module(opaque);
	xmp_free_context(opaque);
	free(mod);
	return 0;
}

int main(int argc, char **argv)
{
	int i;
	if (argc >= 6 && !strcmp(argv[1], "run")) {
		uint64_t seed = strtoull(argv[2], NULL, 10);
		int ncases = atoi(argv[3]), nops = atoi(argv[4]);
		int npaths = argc - 5;
		for (i = 0; i < ncases; i++)
			run_case(seed * 1000003ULL + (uint64_t)i, nops, argv[5 + (i % npaths)]);
	} else if (argc >= 4 && !strcmp(argv[1], "long")) {
		run_long(strtoull(argv[2], NULL, 10), atol(argv[3]));
	} else if (argc >= 3 && !strcmp(argv[1], "probe")) {
		/* which modules can carry the invert-loop effect (QUIRK_PROTRACK|QUIRK_INVLOOP, 8-bit looped samples) */
		for (i = 2; i < argc; i++) {
			xmp_context o = xmp_create_context();
			struct context_data *ctx = (struct context_data *)o;
			if (xmp_load_module(o, argv[i]) == 0) {
				struct module_data *m = &ctx->m;
				int j, k, loops = 0, insvol = 0, mism = 0;
				for (j = 0; j < m->mod.smp; j++)
					loops += (m->mod.xxs[j].flg & XMP_SAMPLE_LOOP) && !(m->mod.xxs[j].flg & XMP_SAMPLE_16BIT) && m->mod.xxs[j].data;
				for (j = 0; j < m->mod.ins; j++) {
					struct xmp_instrument *xi = &m->mod.xxi[j];
					if (xi->vol != m->volbase)
						insvol++;
					for (k = 0; k < xi->nsm; k++) {
						if (xi->sub[k].gvl != m->volbase)
							insvol++;
						if (xi->sub[k].sid != j)
							mism++;	/* instrument and sample numbers differ */
					}
				}
				printf("probe %s %d %d %d %d\n", argv[i], HAS_QUIRK(QUIRK_PROTRACK | QUIRK_INVLOOP) ? 1 : 0, loops,
				       HAS_QUIRK(QUIRK_INSVOL) ? insvol : 0, mism);
				xmp_release_module(o);
			}
			xmp_free_context(o);
		}
		return 0;
	} else if (argc >= 5 && !strcmp(argv[1], "one")) {
		for (i = 5; i < argc; i++) {
			if (!strcmp(argv[i], "-v"))
				verbose = 1;
			if (!strcmp(argv[i], "-g1"))
				gen_level = 1;
		}
		run_case(strtoull(argv[2], NULL, 10), atoi(argv[3]), argv[4]);
	} else {
		fprintf(stderr, "usage: c15_digest run <seed> <ncases> <nops> <module>... | one <case_seed> <nops> <module> [-v]\n");
		return 2;
	}
	printf("total calls=%ld frames=%ld invloop_bytes=%ld hdr_changed=%ld patchable_samples=%ld fails=%ld\n",
	       n_calls, n_frames, n_invloop_bytes, n_hdr_changed, n_patchable, n_fail);
	return 0;
}
