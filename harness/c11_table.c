/* C11 harness support: a replacement for src/format.c so that the real
 * test_module()/load_module() of src/load.c walk a loader table chosen by the
 * harness (harness/c11_strings.c).  Deliberately does not include format.h: the
 * table must be writable here while load.c sees the usual
 * `extern const struct format_loader *const format_loaders[]`. */
#include <stddef.h>

struct format_loader;

const struct format_loader *format_loaders[64];

static const char *no_names[1] = { NULL };

const char *const *format_list(void)
{
	return no_names;
}

void vt_set(int i, const struct format_loader *p)
{
	format_loaders[i] = p;
}
