/* C01 / C02 search harness: structure-blind mutational exploration of every
 * load/test entry point followed by random play / seek / position / row /
 * restart histories under random output configurations.  Built against the
 * ASan+UBSan (and, thorough, MSan) libxmp of the working tree: a sanitizer
 * report aborts the process; the driver script reads the last "case" line to
 * know which case died and replays it with --only.
 *
 * usage: c01_fuzz <seed> <first> <count> <scratchdir> <mode> <file>...
 *   mode: "san"  sanitizer search (C01)
 *         "res"  resource search (C02): prints per-case CPU time and peak heap
 * Every case is a pure function of (seed, index, file list): the context's rng
 * (seeded from time() by xmp_create_context; IT random volume/pan) is pinned at
 * the start of every case.  "done <idx> ret=<r> dig=<hex>" carries a digest of
 * everything the case let a client read (module info, sample data, every output
 * buffer, frame info, test info).  The check runs a slice of the cases under two
 * different ASan allocator fill bytes and compares the digests: a difference
 * means a result depends on uninitialised heap memory.
 */
#include "vcommon.h"
#include <xmp.h>
#include "common.h"	/* private: struct context_data, for pinning the context's rng */
#include "rng.h"
#include <unistd.h>
#include <signal.h>
#include <time.h>
#include <sys/time.h>
#include <sys/resource.h>

/* ---- optional allocator accounting (linked with --wrap in "res" builds) ---- */
#ifdef WRAP_ALLOC
#include <malloc.h>
void *__real_malloc(size_t);
void *__real_calloc(size_t, size_t);
void *__real_realloc(void *, size_t);
void __real_free(void *);
static size_t live_bytes, peak_bytes, biggest_req;
static void heap_acct(size_t n)
{
	live_bytes += n;
	if (live_bytes > peak_bytes)
		peak_bytes = live_bytes;
}
void *__wrap_malloc(size_t n)
{
	void *p = __real_malloc(n);
	if (n > biggest_req) biggest_req = n;
	if (p) heap_acct(malloc_usable_size(p));
	return p;
}
void *__wrap_calloc(size_t a, size_t b)
{
	void *p = __real_calloc(a, b);
	if (a * b > biggest_req) biggest_req = a * b;
	if (p) heap_acct(malloc_usable_size(p));
	return p;
}
void *__wrap_realloc(void *q, size_t n)
{
	size_t old = q ? malloc_usable_size(q) : 0;
	void *p = __real_realloc(q, n);
	if (n > biggest_req) biggest_req = n;
	if (p) {
		live_bytes -= old < live_bytes ? old : live_bytes;
		heap_acct(malloc_usable_size(p));
	}
	return p;
}
void __wrap_free(void *q)
{
	if (q) {
		size_t old = malloc_usable_size(q);
		live_bytes -= old < live_bytes ? old : live_bytes;
	}
	__real_free(q);
}
#endif

static const uint32_t boundary32[] = { 0, 1, 0x7f, 0x80, 0xff, 0x100, 0x7fff, 0x8000, 0xffff, 0x10000,
	0x7fffffff, 0x80000000u, 0xffffffffu, 0xfffffffeu, 0x10000000, 0x0fffffff, 0x00ffffff, 0x01000000 };

static unsigned char *mutate(const unsigned char *in, long n, long *outn, const unsigned char *other, long othern, char *desc)
{
	long cap = n + 4096 + 64, i, k;
	unsigned char *b = (unsigned char *)malloc(cap > 0 ? cap : 1);
	int kind = vrng_below(12);
	memcpy(b, in, n);
	*outn = n;
	switch (kind) {
	case 0:
		sprintf(desc, "intact");
		break;
	case 1: case 2:
		k = vrng_range(1, 8);
		sprintf(desc, "bitflip x%ld", k);
		for (i = 0; i < k && n > 0; i++) {
			long p = vrng_chance(60) ? vrng_below(n < 2048 ? n : 2048) : vrng_below(n);
			b[p] ^= 1 << vrng_below(8);
		}
		break;
	case 3:
		k = vrng_range(1, 6);
		sprintf(desc, "byteset x%ld", k);
		for (i = 0; i < k && n > 0; i++) {
			static const unsigned char v[] = { 0, 0xff, 0x7f, 0x80, 1, 0x40, 0xfe };
			long p = vrng_chance(60) ? vrng_below(n < 2048 ? n : 2048) : vrng_below(n);
			b[p] = v[vrng_below(7)];
		}
		break;
	case 4: case 5: case 6: {
		/* inflate a 16/32-bit field, either endianness */
		int w = vrng_chance(50) ? 2 : 4, be = vrng_chance(50);
		long p;
		uint32_t v = boundary32[vrng_below(sizeof(boundary32) / sizeof(boundary32[0]))];
		k = vrng_range(1, 3);
		sprintf(desc, "field%d%s x%ld", w * 8, be ? "be" : "le", k);
		for (i = 0; i < k && n > w; i++) {
			int j;
			p = vrng_chance(70) ? vrng_below((n - w) < 4096 ? (n - w) : 4096) : vrng_below(n - w);
			if (vrng_chance(30))
				v = (uint32_t)vrng_next();
			for (j = 0; j < w; j++) {
				int sh = be ? 8 * (w - 1 - j) : 8 * j;
				b[p + j] = (unsigned char)(v >> sh);
			}
		}
		break; }
	case 7: case 8: {
		long cut = n > 0 ? (vrng_chance(50) ? vrng_below(n < 4096 ? n : 4096) : vrng_below(n)) : 0;
		if (vrng_chance(20) && n > 8)
			cut = n - vrng_range(1, 8);
		else if (vrng_chance(30) && n > 0)
			cut = vrng_below(n < 160 ? n : 160);	/* inside the signature / fixed header */
		sprintf(desc, "truncate %ld/%ld", cut, n);
		*outn = cut;
		break; }
	case 9: {
		/* splice a chunk from another file (or from elsewhere in this one) */
		const unsigned char *src = othern > 16 ? other : in;
		long sn = othern > 16 ? othern : n, len, sp, dp;
		if (sn < 2 || n < 2) {
			sprintf(desc, "intact");
			break;
		}
		len = vrng_range(1, sn < 512 ? (int)sn : 512);
		sp = vrng_below(sn - len + 1);
		dp = vrng_below(n);
		if (dp + len > n)
			len = n - dp;
		memcpy(b + dp, src + sp, len);
		sprintf(desc, "splice %ld@%ld", len, dp);
		break; }
	case 10: {
		long extra = vrng_range(1, 4096);
		for (i = 0; i < extra; i++)
			b[n + i] = (unsigned char)vrng_next();
		*outn = n + extra;
		sprintf(desc, "append %ld", extra);
		break; }
	default: {
		/* zero or 0xff fill a range */
		long len, p;
		if (n < 2) {
			sprintf(desc, "intact");
			break;
		}
		len = vrng_range(1, n < 256 ? (int)n : 256);
		p = vrng_below(n - len + 1);
		memset(b + p, vrng_chance(50) ? 0 : 0xff, len);
		sprintf(desc, "fill %ld@%ld", len, p);
		break; }
	}
	return b;
}

/* ---- callback stream ---- */
struct cbs {
	const unsigned char *b;
	long n, pos;
	int closed;
	int shorty;
};
static unsigned long cb_read(void *dest, unsigned long len, unsigned long nmemb, void *priv)
{
	struct cbs *c = (struct cbs *)priv;
	unsigned long want = nmemb, can;
	if (len == 0 || nmemb == 0)
		return 0;
	can = (unsigned long)(c->n - c->pos) / len;
	if (want > can)
		want = can;
	memcpy(dest, c->b + c->pos, want * len);
	c->pos += want * len;
	return want;
}
static int cb_seek(void *priv, long off, int whence)
{
	struct cbs *c = (struct cbs *)priv;
	long p;
	switch (whence) {
	case SEEK_SET: p = off; break;
	case SEEK_CUR: p = c->pos + off; break;
	case SEEK_END: p = c->n + off; break;
	default: return -1;
	}
	if (p < 0 || p > c->n)
		return -1;
	c->pos = p;
	return 0;
}
static long cb_tell(void *priv)
{
	return ((struct cbs *)priv)->pos;
}
static int cb_close(void *priv)
{
	((struct cbs *)priv)->closed++;
	return 0;
}

static volatile uint64_t sink;

#if defined(__has_feature)
#if __has_feature(memory_sanitizer)
#include <sanitizer/msan_interface.h>
#define MSAN_CHECK(p, n) __msan_check_mem_is_initialized((p), (n))
#endif
#endif
#ifndef MSAN_CHECK
#define MSAN_CHECK(p, n) do { } while (0)
#endif

/* everything a client can read must be addressable (ASan) and initialised (MSan) */
static void touch(const void *p, size_t n)
{
	MSAN_CHECK(p, n);
	sink = fnv1a(sink, p, n);
}

static void walk_module(xmp_context c)
{
	/* read everything a client can reach through xmp_get_module_info */
	struct xmp_module_info mi;
	struct xmp_module *m;
	int i, j;
	memset(&mi, 0, sizeof(mi));
	xmp_get_module_info(c, &mi);
	m = mi.mod;
	if (!m)
		return;
	touch(m->name, strlen(m->name));
	touch(m->type, strlen(m->type));
	for (i = 0; i < m->len && i < XMP_MAX_MOD_LENGTH; i++)
		sink += m->xxo[i];
	for (i = 0; i < m->pat; i++) {
		struct xmp_pattern *p = m->xxp[i];
		if (!p)
			continue;
		for (j = 0; j < m->chn; j++) {
			int t = p->index[j];
			if (t >= 0 && t < m->trk && m->xxt[t])
				touch(m->xxt[t]->event, sizeof(struct xmp_event) * m->xxt[t]->rows);
		}
	}
	for (i = 0; i < m->ins; i++) {
		struct xmp_instrument *xi = &m->xxi[i];
		touch(xi->name, strlen(xi->name));
		if (xi->nsm > 0 && xi->sub)
			touch(xi->sub, sizeof(struct xmp_subinstrument) * xi->nsm);
	}
	for (i = 0; i < m->smp; i++) {
		struct xmp_sample *s = &m->xxs[i];
		touch(s->name, strlen(s->name));
		if (s->data && s->len > 0) {
			long bytes = s->len;
			if (s->flg & XMP_SAMPLE_16BIT) bytes *= 2;
			if (s->flg & XMP_SAMPLE_STEREO) bytes *= 2;
			touch(s->data - 4, bytes + 4 + 4);
		}
	}
	for (i = 0; i < mi.num_sequences; i++)
		sink += mi.seq_data[i].entry_point + mi.seq_data[i].duration;
	if (mi.comment)
		touch(mi.comment, strlen(mi.comment));
}

static void play_history(xmp_context c, int budget_frames)
{
	static const int rates[] = { 4000, 8000, 11025, 22050, 44100, 48000, 49170 };
	struct xmp_module_info mi;
	struct xmp_frame_info fi;
	int rate = rates[vrng_below(7)], fmt = vrng_below(8), i, len;
	char *pb = NULL;

	if (vrng_chance(25))
		xmp_set_player(c, XMP_PLAYER_VOICES, vrng_range(1, 256));
	/* event fuzz: a file can store any byte in any event field, in every format's
	 * player mode: rewrite a few events of the loaded module (both effect lanes,
	 * boundary parameters) before playing -- the player must survive any of them */
	if (vrng_chance(35)) {
		static const unsigned char bv[] = { 0, 1, 2, 0x0f, 0x10, 0x1f, 0x20, 0x3f, 0x40, 0x7f, 0x80, 0xf0, 0xfe, 0xff };
		int k, n = vrng_range(1, 32);
		xmp_get_module_info(c, &mi);
		for (k = 0; k < n && mi.mod->trk > 0; k++) {
			struct xmp_track *t = mi.mod->xxt[vrng_below(mi.mod->trk)];
			struct xmp_event *ev;
			if (t == NULL || t->rows <= 0)
				continue;
			ev = &t->event[vrng_chance(50) ? 0 : vrng_below(t->rows)];
			if (vrng_chance(70)) {
				ev->fxt = vrng_chance(60) ? (unsigned char)vrng_below(0x30) : (unsigned char)vrng_next();
				ev->fxp = bv[vrng_below(sizeof(bv))];
			}
			if (vrng_chance(70)) {
				ev->f2t = vrng_chance(60) ? (unsigned char)vrng_below(0x30) : (unsigned char)vrng_next();
				ev->f2p = bv[vrng_below(sizeof(bv))];
			}
			if (vrng_chance(30)) {
				ev->note = (unsigned char)vrng_next();
				ev->ins = (unsigned char)vrng_next();
				ev->vol = (unsigned char)vrng_next();
			}
		}
		sink += 0x9e3779b97f4a7c15ULL;
	}
	/* track geometry: several loaders (AMF, MDL, Megatracker...) share tracks between patterns of
	 * different lengths, so a track may hold fewer rows than the pattern that uses it.  Put a few
	 * tracks into exactly sized shorter blocks: a read beyond a track's rows hits the redzone. */
	if (vrng_chance(20)) {
		int k, n = vrng_range(1, 6);
		xmp_get_module_info(c, &mi);
		for (k = 0; k < n && mi.mod->trk > 0; k++) {
			int ti = vrng_below(mi.mod->trk);
			struct xmp_track *t = mi.mod->xxt[ti], *nt;
			int nr;
			if (t == NULL || t->rows <= 1)
				continue;
			nr = vrng_range(1, t->rows - 1);
			nt = (struct xmp_track *)malloc(sizeof(struct xmp_track) + sizeof(struct xmp_event) * (nr - 1));
			if (nt == NULL)
				continue;
			memcpy(nt, t, sizeof(struct xmp_track) + sizeof(struct xmp_event) * (nr - 1));
			nt->rows = nr;
			free(t);
			mi.mod->xxt[ti] = nt;
		}
	}
	if (xmp_start_player(c, rate, fmt) < 0)
		return;
	xmp_get_module_info(c, &mi);
	len = mi.mod->len;
	xmp_set_player(c, XMP_PLAYER_INTERP, vrng_below(3));
	xmp_set_player(c, XMP_PLAYER_DSP, vrng_below(2));
	xmp_set_player(c, XMP_PLAYER_AMP, vrng_below(4));
	xmp_set_player(c, XMP_PLAYER_MIX, vrng_range(-100, 100));
	if (vrng_chance(30))
		xmp_set_player(c, XMP_PLAYER_FLAGS, vrng_below(16));
	if (vrng_chance(20))
		xmp_set_player(c, XMP_PLAYER_CFLAGS, vrng_below(16));
	if (vrng_chance(20))
		xmp_set_player(c, XMP_PLAYER_VOLUME, vrng_range(0, 200));

	for (i = 0; i < budget_frames; i++) {
		int r = vrng_below(100), ret;
		if (r < 4)
			xmp_set_position(c, vrng_range(-1, len + 1));
		else if (r < 7)
			xmp_next_position(c);
		else if (r < 10)
			xmp_prev_position(c);
		else if (r < 13) {
			xmp_get_frame_info(c, &fi);
			xmp_set_row(c, vrng_range(-1, fi.num_rows + 1));
		} else if (r < 16) {
			xmp_get_frame_info(c, &fi);
			xmp_seek_time(c, vrng_chance(80) ? vrng_range(0, fi.total_time > 0 ? fi.total_time : 1)
						     : vrng_range(-1000, 2000000000));
		} else if (r < 17)
			xmp_restart_module(c);
		else if (r < 18 && i > budget_frames / 2)
			xmp_stop_module(c);
		else if (r < 20)
			xmp_channel_mute(c, vrng_below(64), vrng_below(3));
		else if (r < 22 && mi.num_sequences > 1)
			xmp_set_position(c, mi.seq_data[vrng_below(mi.num_sequences)].entry_point);

		if (vrng_chance(10)) {
			int sz = vrng_range(1, 9000);
			if (!pb)
				pb = (char *)malloc(9001);
			ret = xmp_play_buffer(c, pb, sz, vrng_below(3));
			if (ret == 0)
				touch(pb, sz);
			else
				break;
		} else {
			ret = xmp_play_frame(c);
			if (ret < 0)
				break;
			xmp_get_frame_info(c, &fi);
			if (fi.buffer && fi.buffer_size > 0)
				touch(fi.buffer, fi.buffer_size);
			sink += fi.pos + fi.row + fi.pattern + fi.virt_used;
		}
	}
	free(pb);
	xmp_end_player(c);
}

static double cpu_now(void)
{
	struct timespec ts;
	clock_gettime(CLOCK_PROCESS_CPUTIME_ID, &ts);
	return ts.tv_sec + ts.tv_nsec * 1e-9;
}

int main(int argc, char **argv)
{
	uint64_t seed;
	long first, count, idx;
	const char *scratch, *mode;
	int nfiles, res_mode;
	xmp_context reuse = NULL;
	char path[4096];

	if (argc < 7) {
		fprintf(stderr, "usage: %s <seed> <first> <count> <scratchdir> <san|res> <file>...\n", argv[0]);
		return 2;
	}
	seed = strtoull(argv[1], NULL, 10);
	first = atol(argv[2]);
	count = atol(argv[3]);
	scratch = argv[4];
	mode = argv[5];
	res_mode = !strcmp(mode, "res");
	nfiles = argc - 6;
	/* deterministic name: some loaders derive what they report from the file name */
	snprintf(path, sizeof(path), "%s/in-%llu-%ld-%s.bin", scratch, (unsigned long long)seed, first, mode);

	if (!strcmp(mode, "types")) {
		/* one line per file: the format the library recognises it as (for picking one
		 * representative per format) */
		int i;
		for (i = 0; i < nfiles; i++) {
			struct xmp_test_info ti;
			memset(&ti, 0, sizeof(ti));
			if (xmp_test_module(argv[6 + i], &ti) == 0)
				printf("type %s\t%s\n", argv[6 + i], ti.type);
		}
		return 0;
	}
	if (!strcmp(mode, "fields")) {
		/* systematic field inflation of small inputs: every offset first..count, width 2 and 4,
		 * both byte orders, boundary values; loaded and tested by path (depackers run) */
		static const uint32_t vals[] = { 0, 1, 0x7f, 0x80, 0xff, 0x100, 0x7fff, 0x8000, 0xffff, 0x10000,
						 0x7fffffff, 0x80000000u, 0xfffffff0u, 0xffffffffu };
		int i;
		long off, checked = 0;
		for (i = 0; i < nfiles; i++) {
			long n = 0;
			unsigned char *in = read_file(argv[6 + i], &n);
			const char *ext = strrchr(argv[6 + i], '.');
			char fpath[4096];
			if (!in)
				continue;
			snprintf(fpath, sizeof(fpath), "%s/fld-%d%s", scratch, (int)getpid(), ext ? ext : "");
			printf("fieldfile %s\n", argv[6 + i]);
			fflush(stdout);
			if (first == 0) {
				/* the unmodified file first (degenerate but well-formed archives are inputs too) */
				struct xmp_test_info ti;
				xmp_context c = xmp_create_context();
				FILE *f = fopen(fpath, "wb");
				if (f) {
					fwrite(in, 1, n, f);
					fclose(f);
				}
				alarm(60);
				xmp_test_module(fpath, &ti);
				if (xmp_load_module(c, fpath) == 0)
					xmp_release_module(c);
				alarm(0);
				xmp_free_context(c);
			}
			for (off = first; off <= count && off + 2 <= n; off++) {
				int w, be, vi;
				for (w = 2; w <= 4; w += 2) {
					if (off + w > n)
						continue;
					for (be = 0; be < 2; be++) {
						for (vi = 0; vi < (int)(sizeof(vals) / sizeof(vals[0])); vi++) {
							unsigned char save[4];
							struct xmp_test_info ti;
							xmp_context c;
							FILE *f;
							int j;
							if (w == 2 && vals[vi] > 0xffff)
								continue;
							memcpy(save, in + off, w);
							for (j = 0; j < w; j++) {
								int sh = be ? 8 * (w - 1 - j) : 8 * j;
								in[off + j] = (unsigned char)(vals[vi] >> sh);
							}
							printf("field %ld %d %d %d\n", off, w, be, vi);
							fflush(stdout);
							f = fopen(fpath, "wb");
							if (f) {
								fwrite(in, 1, n, f);
								fclose(f);
							}
							alarm(60);
							c = xmp_create_context();
							xmp_test_module(fpath, &ti);
							if (xmp_load_module(c, fpath) == 0) {
								if (xmp_start_player(c, 8000, 0) == 0) {
									xmp_play_frame(c);
									xmp_end_player(c);
								}
								xmp_release_module(c);
							}
							xmp_free_context(c);
							alarm(0);
							memcpy(in + off, save, w);
							checked++;
						}
					}
				}
			}
			unlink(fpath);
			free(in);
		}
		printf("fieldsdone %ld\n", checked);
		return 0;
	}
	if (!strcmp(mode, "fields32")) {
		/* every 32-bit field of the first `count` bytes (from offset `first`) set to the values that
		 * turn a count, size or address into a negative or huge number, both byte orders; loaded from
		 * an exactly sized memory image (module loaders and in-memory depackers) */
		static const uint32_t vals[] = { 0x7fffffff, 0x80000000u, 0xfffffffdu, 0xffffffffu };
		int i;
		long off, checked = 0;
		for (i = 0; i < nfiles; i++) {
			long n = 0;
			unsigned char *in = read_file(argv[6 + i], &n), *exact;
			if (!in)
				continue;
			exact = (unsigned char *)malloc(n > 0 ? n : 1);
			printf("fieldfile %s\n", argv[6 + i]);
			for (off = first; off <= count && off + 4 <= n; off++) {
				int be, vi, j;
				for (be = 0; be < 2; be++) {
					for (vi = 0; vi < 4; vi++) {
						xmp_context c;
						memcpy(exact, in, n);
						for (j = 0; j < 4; j++) {
							int sh = be ? 8 * (3 - j) : 8 * j;
							exact[off + j] = (unsigned char)(vals[vi] >> sh);
						}
						printf("field %ld 4 %d %d\n", off, be, vi);
						fflush(stdout);
						alarm(60);
						c = xmp_create_context();
						if (xmp_load_module_from_memory(c, exact, n) == 0) {
							if (xmp_start_player(c, 8000, 0) == 0) {
								xmp_play_frame(c);
								xmp_end_player(c);
							}
							xmp_release_module(c);
						}
						xmp_free_context(c);
						alarm(0);
						checked++;
					}
				}
			}
			free(exact);
			free(in);
		}
		printf("fieldsdone %ld\n", checked);
		return 0;
	}
	if (!strcmp(mode, "tails")) {
		/* the file with its last 1..count bytes missing (every length down to `first`), as an exactly
		 * sized heap image: optional trailing parts (texts, last sample, trailers) that cannot be
		 * read completely while everything before them is intact; what a client reads afterwards
		 * (comment, names, sample data) is touched before the release */
		int i;
		long L, checked = 0;
		for (i = 0; i < nfiles; i++) {
			long n = 0;
			unsigned char *in = read_file(argv[6 + i], &n);
			if (!in)
				continue;
			printf("tailsfile %s\n", argv[6 + i]);
			fflush(stdout);
			for (L = first; L <= count && L < n; L++) {
				long keep = n - L;
				unsigned char *exact = (unsigned char *)malloc(keep > 0 ? keep : 1);
				struct xmp_test_info ti;
				xmp_context c = xmp_create_context();
				memcpy(exact, in, keep);
				printf("tail %ld\n", L);
				fflush(stdout);
				alarm(60);
				xmp_test_module_from_memory(exact, keep, &ti);
				if (xmp_load_module_from_memory(c, exact, keep) == 0) {
					struct xmp_module_info mi;
					volatile unsigned long sink = 0;
					int k;
					xmp_get_module_info(c, &mi);
					if (mi.comment)
						sink += strlen(mi.comment);
					sink += strlen(mi.mod->name) + strlen(mi.mod->type);
					for (k = 0; k < mi.mod->smp; k++) {
						struct xmp_sample *xs = &mi.mod->xxs[k];
						if (xs->data && xs->len > 0) {
							long bytes = (long)xs->len * ((xs->flg & XMP_SAMPLE_16BIT) ? 2 : 1);
							sink += xs->data[0] + xs->data[bytes - 1];
						}
					}
					if (xmp_start_player(c, 8000, 0) == 0) {
						xmp_play_frame(c);
						xmp_play_frame(c);
						xmp_end_player(c);
					}
					xmp_release_module(c);
					(void)sink;
				}
				alarm(0);
				xmp_free_context(c);
				free(exact);
				checked++;
			}
			free(in);
		}
		printf("tailsdone %ld\n", checked);
		return 0;
	}
	if (!strcmp(mode, "prefix")) {
		/* every prefix length 0..count of every file, as an exactly sized heap image through
		 * the memory and callback entry points of test and load: a read one byte past the
		 * image hits the redzone; `first` = first prefix length */
		int i;
		long L, checked = 0;
		for (i = 0; i < nfiles; i++) {
			long n = 0;
			unsigned char *in = read_file(argv[6 + i], &n);
			if (!in)
				continue;
			printf("prefixfile %s\n", argv[6 + i]);
			fflush(stdout);
			for (L = first; L <= count && L <= n; L++) {
				unsigned char *exact = (unsigned char *)malloc(L > 0 ? L : 1);
				struct xmp_test_info ti;
				xmp_context c = xmp_create_context();
				struct cbs s;
				struct xmp_callbacks cb;
				memcpy(exact, in, L);
				printf("prefix %ld\n", L);
				fflush(stdout);
				alarm(60);
				xmp_test_module_from_memory(exact, L, &ti);
				if (xmp_load_module_from_memory(c, exact, L) == 0) {
					if (xmp_start_player(c, 8000, 0) == 0) {
						xmp_play_frame(c);
						xmp_end_player(c);
					}
					xmp_release_module(c);
				}
				s.b = exact; s.n = L; s.pos = 0; s.closed = 0; s.shorty = 0;
				cb.read_func = cb_read;
				cb.seek_func = cb_seek;
				cb.tell_func = cb_tell;
				cb.close_func = NULL;
				xmp_test_module_from_callbacks(&s, cb, &ti);
				s.pos = 0;
				if (xmp_load_module_from_callbacks(c, &s, cb) == 0)
					xmp_release_module(c);
				alarm(0);
				xmp_free_context(c);
				free(exact);
				checked++;
			}
			free(in);
		}
		printf("prefixdone %ld\n", checked);
		return 0;
	}

	for (idx = first; idx < first + count; idx++) {
		const char *src, *osrc;
		unsigned char *in, *oin, *mut;
		long n = 0, on = 0, mn;
		char desc[128];
		int entry, is_test, ret = 0, frames;
		unsigned char *exact_buf = NULL;
		xmp_context c;
		double t0;
		struct xmp_test_info ti;

		vrng_seed(seed * 2654435761ULL + (uint64_t)idx);
		sink = 0xcbf29ce484222325ULL;
		src = argv[6 + vrng_below(nfiles)];
		osrc = argv[6 + vrng_below(nfiles)];
		in = read_file(src, &n);
		oin = read_file(osrc, &on);
		if (!in) {
			free(oin);
			continue;
		}
		mut = mutate(in, n, &mn, oin ? oin : in, oin ? on : n, desc);
		entry = vrng_below(4);
		is_test = vrng_chance(20);
		frames = vrng_range(5, res_mode ? 40 : 160);
		printf("case %ld %s entry=%d test=%d mut=[%s] size=%ld\n", idx, src, entry, is_test, desc, mn);
		fflush(stdout);
#ifdef WRAP_ALLOC
		peak_bytes = live_bytes;
		biggest_req = 0;
#endif
		t0 = cpu_now();
		alarm(res_mode ? 60 : 120);

		if (reuse && vrng_chance(50)) {
			c = reuse;
		} else {
			if (reuse)
				xmp_free_context(reuse);
			reuse = NULL;
			c = xmp_create_context();
		}
		libxmp_set_random(&((struct context_data *)c)->rng, 0x5eed1234u);
		if (vrng_chance(15))
			xmp_set_player(c, XMP_PLAYER_SMPCTL, XMP_SMPCTL_SKIP);
		else
			xmp_set_player(c, XMP_PLAYER_SMPCTL, 0);
		if (vrng_chance(25))
			xmp_set_player(c, XMP_PLAYER_MODE, vrng_below(12));
		else
			xmp_set_player(c, XMP_PLAYER_MODE, XMP_MODE_AUTO);
		if (vrng_chance(15))
			xmp_set_player(c, XMP_PLAYER_DEFPAN, vrng_range(0, 100));

		if (entry == 0 || entry == 1) {
			FILE *f = fopen(path, "wb");
			if (f) {
				fwrite(mut, 1, mn, f);
				fclose(f);
			}
		}
		memset(&ti, 0, sizeof(ti));
		switch (entry) {
		case 0:
			ret = is_test ? xmp_test_module(path, &ti) : xmp_load_module(c, path);
			break;
		case 1: {
			FILE *f = fopen(path, "rb");
			if (!f) {
				ret = -1;
				break;
			}
			ret = is_test ? xmp_test_module_from_file(f, &ti) : xmp_load_module_from_file(c, f, mn);
			sink += ftell(f);
			fclose(f);
			break; }
		case 2: {
			/* exactly mn bytes: a read one byte past the image must hit the redzone */
			unsigned char *exact = (unsigned char *)malloc(mn > 0 ? mn : 1);
			memcpy(exact, mut, mn > 0 ? mn : 0);
			ret = is_test ? xmp_test_module_from_memory(exact, mn, &ti) : xmp_load_module_from_memory(c, exact, mn);
			exact_buf = exact;
			break; }
		default: {
			struct cbs s;
			struct xmp_callbacks cb;
			s.b = mut; s.n = mn; s.pos = 0; s.closed = 0; s.shorty = 0;
			cb.read_func = cb_read;
			cb.seek_func = cb_seek;
			cb.tell_func = cb_tell;
			cb.close_func = vrng_chance(50) ? cb_close : NULL;
			ret = is_test ? xmp_test_module_from_callbacks(&s, cb, &ti) : xmp_load_module_from_callbacks(c, &s, cb);
			break; }
		}
		if (is_test) {
			touch(ti.name, strnlen(ti.name, sizeof(ti.name)));
			touch(ti.type, strnlen(ti.type, sizeof(ti.type)));
		}
		if (!is_test && ret == 0) {
			walk_module(c);
			if (vrng_chance(85))
				play_history(c, frames);
			if (vrng_chance(30))
				play_history(c, frames / 4);	/* second player run on the same module */
			if (vrng_chance(10))
				xmp_scan_module(c);
			xmp_release_module(c);
		}
		alarm(0);
		if (res_mode) {
#ifdef WRAP_ALLOC
			printf("res %ld cpu=%.4f peak=%zu big=%zu ret=%d size=%ld\n", idx, cpu_now() - t0,
			       peak_bytes, biggest_req, ret, mn);
#else
			printf("res %ld cpu=%.4f peak=0 big=0 ret=%d size=%ld\n", idx, cpu_now() - t0, ret, mn);
#endif
		} else {
			sink += (uint64_t)(int64_t)ret;
			printf("done %ld ret=%d dig=%016llx\n", idx, ret, (unsigned long long)sink);
		}
		if (vrng_chance(50)) {
			reuse = c;
		} else {
			xmp_free_context(c);
			reuse = NULL;
		}
		free(mut);
		free(exact_buf);
		exact_buf = NULL;
		free(in);
		free(oin);
	}
	if (reuse)
		xmp_free_context(reuse);
	unlink(path);
	return 0;
}
