/* C08 sub-harness: the real DEFLATE decoder of libxmp (src/miniz_tinfl.c) on memory streams,
 * called the way libxmp's gzip and zip depackers call it.
 *
 * usage: c08_inflate <casefile>      one case per line, one answer line per case
 *   h <hex>               libxmp_tinfl_decompress_mem_to_heap(stream, len, &n, 0)          (= decrunch_gzip's call)
 *                         -> `H ok <outlen> <fnv>` | `H null`
 *   l <hex>               the same with TINFL_FLAG_PARSE_ZLIB_HEADER                        (= muse_load.c's call)
 *                         -> `L ok <outlen> <fnv>` | `L null`
 *   d <hex>               libxmp_tinfl_decompress driven like mem_to_heap drives it (whole input, non-wrapping
 *                         output buffer doubled on HAS_MORE_OUTPUT), but keeping status and input consumption
 *                         -> `D ok <consumed> <outlen> <fnv>` | `D fail` | `D trunc` | `D st<status>`
 *   z <chunk> <cap> <hex> libxmp_tinfl_decompress driven like mz_zip_reader_extract_to_mem_no_alloc1 drives it:
 *                         input in pieces of <chunk> bytes, TINFL_FLAG_HAS_MORE_INPUT on all but the last, output
 *                         buffer of exactly <cap> bytes
 *                         -> `Z ok <outlen> <fnv>` | `Z fail` | `Z trunc` | `Z more` | `Z st<status>`
 *   g <hex file>          the real decrunch_gzip on a memory stream   -> `G ok <outlen> <fnv>` | `G fail`
 *   k <hex file>          the real decrunch_zip on a memory stream    -> `K ok <outlen> <fnv>` | `K fail`
 */
#include "vcommon.h"
#include <xmp.h>
#include "common.h"
#include "hio.h"
#include "miniz.h"
#include "depackers/depacker.h"

static char *linebuf;
static size_t linecap;

static void show(const char *tag, const void *out, size_t n)
{
	printf("%s ok %lu %016llx\n", tag, (unsigned long)n, (unsigned long long)(n ? fnv1a(FNV_INIT, out, n) : FNV_INIT));
}

static void status_line(const char *tag, int st)
{
	if (st == TINFL_STATUS_FAILED)
		printf("%s fail\n", tag);
	else if (st == TINFL_STATUS_FAILED_CANNOT_MAKE_PROGRESS)
		printf("%s trunc\n", tag);
	else if (st == TINFL_STATUS_HAS_MORE_OUTPUT)
		printf("%s more\n", tag);
	else
		printf("%s st%d\n", tag, st);
}

static void mode_heap(const char *tag, const unsigned char *src, size_t len, int flags)
{
	size_t n = 0;
	/* own copy of exactly len bytes so that an over-read is an ASan report */
	unsigned char *in = (unsigned char *)malloc(len ? len : 1);
	void *out;
	memcpy(in, src, len);
	out = tinfl_decompress_mem_to_heap(in, len, &n, flags);
	if (out) {
		show(tag, out, n);
		free(out);
	} else if (n != 0) {
		printf("%s null-with-length %lu\n", tag, (unsigned long)n);
	} else {
		printf("%s null\n", tag);
	}
	free(in);
}

static void mode_direct(const unsigned char *src, size_t len)
{
	tinfl_decompressor *r = (tinfl_decompressor *)malloc(sizeof(*r));
	unsigned char *in = (unsigned char *)malloc(len ? len : 1);
	unsigned char *buf = NULL, *nb;
	size_t ofs = 0, cap = 0, outlen = 0;
	int st;
	memcpy(in, src, len);
	tinfl_init(r);
	for (;;) {
		size_t isz = len - ofs, osz = cap - outlen, ncap;
		st = tinfl_decompress(r, in + ofs, &isz, buf, buf ? buf + outlen : NULL, &osz,
				      TINFL_FLAG_USING_NON_WRAPPING_OUTPUT_BUF);
		ofs += isz;
		outlen += osz;
		if (st != TINFL_STATUS_HAS_MORE_OUTPUT)
			break;
		ncap = cap * 2;
		if (ncap < 128)
			ncap = 128;
		nb = (unsigned char *)realloc(buf, ncap);
		if (!nb)
			exit(3);
		buf = nb;
		cap = ncap;
	}
	if (st == TINFL_STATUS_DONE)
		printf("D ok %lu %lu %016llx\n", (unsigned long)ofs, (unsigned long)outlen,
		       (unsigned long long)(outlen ? fnv1a(FNV_INIT, buf, outlen) : FNV_INIT));
	else
		status_line("D", st);
	free(buf);
	free(in);
	free(r);
}

static void mode_zip(size_t chunk, size_t cap, const unsigned char *src, size_t len)
{
	tinfl_decompressor *r = (tinfl_decompressor *)malloc(sizeof(*r));
	unsigned char *rd = (unsigned char *)malloc(chunk ? chunk : 1);
	unsigned char *buf = (unsigned char *)malloc(cap ? cap : 1);
	size_t remaining = len, file_ofs = 0, avail = 0, rd_ofs = 0, out_ofs = 0;
	int st;
	tinfl_init(r);
	do {
		size_t isz, osz = cap - out_ofs;
		if (!avail) {
			avail = remaining < chunk ? remaining : chunk;
			memcpy(rd, src + file_ofs, avail);
			file_ofs += avail;
			remaining -= avail;
			rd_ofs = 0;
		}
		isz = avail;
		st = tinfl_decompress(r, rd + rd_ofs, &isz, buf, buf + out_ofs, &osz,
				      TINFL_FLAG_USING_NON_WRAPPING_OUTPUT_BUF | (remaining ? TINFL_FLAG_HAS_MORE_INPUT : 0));
		avail -= isz;
		rd_ofs += isz;
		out_ofs += osz;
	} while (st == TINFL_STATUS_NEEDS_MORE_INPUT);
	if (st == TINFL_STATUS_DONE)
		show("Z", buf, out_ofs);
	else
		status_line("Z", st);
	free(buf);
	free(rd);
	free(r);
}

static void mode_depack(const char *tag, const struct depacker *d, unsigned char *src, long slen)
{
	void *out = NULL;
	long outlen = 0;
	HIO_HANDLE *h = hio_open_const_mem(src, slen);
	int rc;
	if (!h)
		exit(3);
	rc = d->depack(h, &out, &outlen);
	if (rc == 0 && out != NULL && outlen >= 0) {
		show(tag, out, (size_t)outlen);
		free(out);
	} else {
		printf("%s fail\n", tag);
	}
	hio_close(h);
}

int main(int argc, char **argv)
{
	FILE *f;
	ssize_t n;
	if (argc < 2) {
		fprintf(stderr, "usage: c08_inflate <casefile>\n");
		return 2;
	}
	f = fopen(argv[1], "r");
	if (!f)
		return 2;
	while ((n = getline(&linebuf, &linecap, f)) > 0) {
		char *a = strtok(linebuf, " \n");
		char *b = strtok(NULL, " \n");
		unsigned char *src;
		long slen;
		if (!a || !b)
			continue;
		if (a[0] == 'z') {
			char *c = strtok(NULL, " \n");
			char *d = strtok(NULL, " \n");
			if (!c || !d)
				return 2;
			slen = get_hex(d, &src);
			if (slen < 0)
				return 2;
			mode_zip((size_t)strtoul(b, NULL, 10), (size_t)strtoul(c, NULL, 10), src, (size_t)slen);
			free(src);
			fflush(stdout);
			continue;
		}
		slen = get_hex(b, &src);
		if (slen < 0)
			return 2;
		switch (a[0]) {
		case 'h':
			mode_heap("H", src, (size_t)slen, 0);
			break;
		case 'l':
			mode_heap("L", src, (size_t)slen, TINFL_FLAG_PARSE_ZLIB_HEADER);
			break;
		case 'd':
			mode_direct(src, (size_t)slen);
			break;
		case 'g':
			mode_depack("G", &libxmp_depacker_gzip, src, slen);
			break;
		case 'k':
			mode_depack("K", &libxmp_depacker_zip, src, slen);
			break;
		default:
			return 2;
		}
		free(src);
		fflush(stdout);
	}
	fclose(f);
	return 0;
}
