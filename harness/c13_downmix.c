/* C13 harness, part 1: the static downmix functions of src/mixer.c on all
 * configurations (amp 0..3 x 8/16 bit x signed/unsigned = 16 combos).
 *
 * usage: c13_downmix < script
 *
 * script lines (the same file is fed to the Lean driver drv_c13):
 *   rnd <seed> <count> <k>      count accumulators x = (int32)(next() >> 32) >> k  (arithmetic),
 *                               next() = xorshift64* of vcommon.h seeded with <seed>
 *   vals <n> <x1> ... <xn>      explicit accumulators (decimal int32)
 *   one <x>                     verbose: print the 16 stored values for x
 *   prep <fmt> <f> <amp>        libxmp_mixer_softmixer on a voiceless context whose tick size computes to exactly f
 *                               (freq = f, time_factor = 1, rrate = 1000, bpm = 1): exercises libxmp_mixer_get_ticksize's
 *                               lower clamp / refusal, the guard of libxmp_mixer_prepare, the size cap and the format
 *                               dispatch of the final stage; prints `prep <ticksize> <bytes> <fnv of the bytes>`
 *
 * output per rnd/vals block (compared textually with the driver):
 *   blk <n> <h0> ... <h15>      FNV-1a-64 of the bytes each combo wrote; combo index = amp*4 + bits8*2 + unsigned
 *   one <x> <v0> ... <v15>      values as signed numbers
 * plus, from the direct oracle (relations between the real outputs only, never compared with the driver):
 *   oracle_fail <kind> x=<x> amp=<a> <detail>       kinds: unsigned*, highbyte*, amp* (doubling), saturate16/8
 *                                                   (= clamp of the floor-shifted value), sign, monotone, amp_monotone
 *   oracle <checked> <fails> clipped16=<n> clipped8=<n>
 *
 * The downmix functions are static: this translation unit includes mixer.c
 * (the archive member mixer.o is then not linked).
 */
#include "vcommon.h"
#include "mixer.c"

#define BLK 4096

static int32 acc[BLK];
static int16 o16[4][2][BLK];	/* [amp][unsigned] */
static signed char o8[4][2][BLK];
static uint64_t hs[16];
static long n_checked, n_fail, n_clip16, n_clip8, printed_fail;

static void ofail(const char *kind, int32 x, int amp, long a, long b)
{
	n_fail++;
	if (printed_fail++ < 20)
		printf("oracle_fail %s x=%d amp=%d got=%ld want=%ld\n", kind, (int)x, amp, a, b);
}

/* floor(v / 2) without relying on >> of negative values */
static long half_floor(long v)
{
	return v >= 0 ? v / 2 : -((-v + 1) / 2);
}

static long hi_byte_floor(long v)
{
	/* floor(v / 256) */
	return v >= 0 ? v / 256 : -((-v + 255) / 256);
}

static void run_chunk(int n, int verbose)
{
	int amp, u, i;

	for (amp = 0; amp < 4; amp++) {
		for (u = 0; u < 2; u++) {
			/* guard cells around the destination: the functions must write exactly n samples */
			static int16 g16[BLK + 2];
			static signed char g8[BLK + 2];
			g16[0] = g16[n + 1] = 0x5a5a;
			g8[0] = g8[n + 1] = 0x5a;
			downmix_int_16bit(g16 + 1, acc, n, amp, u ? 0x8000 : 0);
			downmix_int_8bit((char *)g8 + 1, acc, n, amp, u ? 0x80 : 0);
			if (g16[0] != 0x5a5a || g16[n + 1] != 0x5a5a || g8[0] != 0x5a || g8[n + 1] != 0x5a)
				ofail("overrun", 0, amp, n, n);
			memcpy(o16[amp][u], g16 + 1, n * sizeof(int16));
			memcpy(o8[amp][u], g8 + 1, n);
			if (!verbose) {
				hs[amp * 4 + 0 + u] = fnv1a(hs[amp * 4 + 0 + u], o16[amp][u], n * sizeof(int16));
				hs[amp * 4 + 2 + u] = fnv1a(hs[amp * 4 + 2 + u], o8[amp][u], n);
			}
		}
	}

	/* direct oracle: the three encoding relations of C13 on the real outputs */
	for (i = 0; i < n; i++) {
		int32 x = acc[i];
		for (amp = 0; amp < 4; amp++) {
			long s16 = o16[amp][0][i], u16 = (uint16)o16[amp][1][i];
			long s8 = o8[amp][0][i], u8 = (uint8)o8[amp][1][i];
			n_checked++;
			if (s16 == 32767 || s16 == -32768)
				n_clip16++;
			if (s8 == 127 || s8 == -128)
				n_clip8++;
			/* unsigned = signed + mid-scale offset (mod 2^w) = signed with the top bit flipped */
			if (u16 != ((s16 + 32768) & 0xffff) || u16 != (((uint16)s16) ^ 0x8000))
				ofail("unsigned16", x, amp, u16, (s16 + 32768) & 0xffff);
			if (u8 != ((s8 + 128) & 0xff) || u8 != (((uint8)s8) ^ 0x80))
				ofail("unsigned8", x, amp, u8, (s8 + 128) & 0xff);
			/* 8-bit = high byte of 16-bit */
			if (s8 != hi_byte_floor(s16))
				ofail("highbyte_signed", x, amp, s8, hi_byte_floor(s16));
			if (u8 != (u16 >> 8))
				ofail("highbyte_unsigned", x, amp, u8, u16 >> 8);
			/* saturating: the shifted accumulator clamped to the sample range (computed in 64 bits
			 * with floor division, independent of the code's >>), and sign-preserving */
			{
				int sh16 = DOWNMIX_SHIFT - amp, sh8 = DOWNMIX_SHIFT + 8 - amp;
				long long X = x, d16v = 1LL << sh16, d8v = 1LL << sh8;
				long long f16 = X >= 0 ? X / d16v : -((-X + d16v - 1) / d16v);
				long long f8 = X >= 0 ? X / d8v : -((-X + d8v - 1) / d8v);
				long long w16 = f16 > LIM16_HI ? LIM16_HI : f16 < LIM16_LO ? LIM16_LO : f16;
				long long w8 = f8 > LIM8_HI ? LIM8_HI : f8 < LIM8_LO ? LIM8_LO : f8;
				if (s16 != w16)
					ofail("saturate16", x, amp, s16, (long)w16);
				if (s8 != w8)
					ofail("saturate8", x, amp, s8, (long)w8);
				if ((s16 < 0) != (x < 0) || (s8 < 0) != (x < 0) || (x == 0 && (s16 != 0 || s8 != 0)))
					ofail("sign", x, amp, s16, s8);
			}
			/* monotone: a larger accumulator never gives a smaller sample, in any of the four encodings
			 * (unsigned samples compared as unsigned words); neighbours of the block are compared */
			if (i + 1 < n) {
				int32 y = acc[i + 1];
				long t16 = o16[amp][0][i + 1], tu16 = (uint16)o16[amp][1][i + 1];
				long t8 = o8[amp][0][i + 1], tu8 = (uint8)o8[amp][1][i + 1];
				int le = x <= y, ge = x >= y;
				if ((le && (s16 > t16 || u16 > tu16 || s8 > t8 || u8 > tu8)) ||
				    (ge && (s16 < t16 || u16 < tu16 || s8 < t8 || u8 < tu8)))
					ofail("monotone", x, amp, (long)y, s16);
			}
			/* a louder amplification never moves a sample towards zero */
			if (amp < 3) {
				long l16 = o16[amp + 1][0][i], l8 = o8[amp + 1][0][i];
				if ((x >= 0 && (l16 < s16 || l8 < s8)) || (x <= 0 && (l16 > s16 || l8 > s8)))
					ofail("amp_monotone", x, amp, s16, l16);
			}
			/* one amplification step = exact doubling of the pre-clip value: where the louder
			 * output is not clipped the quieter one is exactly its half (floor); where it is
			 * clipped the quieter one is at least half of full scale */
			if (amp < 3) {
				long l16 = o16[amp + 1][0][i], l8 = o8[amp + 1][0][i];
				if (l16 > -32768 && l16 < 32767) {
					if (s16 != half_floor(l16))
						ofail("amp16", x, amp, s16, half_floor(l16));
				} else if (l16 == 32767 ? s16 < 16383 : s16 > -16384) {
					ofail("amp16_clipped", x, amp, s16, l16);
				}
				if (l8 > -128 && l8 < 127) {
					if (s8 != half_floor(l8))
						ofail("amp8", x, amp, s8, half_floor(l8));
				} else if (l8 == 127 ? s8 < 63 : s8 > -64) {
					ofail("amp8_clipped", x, amp, s8, l8);
				}
			}
		}
	}
}

static void flush_block(long n)
{
	int c;
	printf("blk %ld", n);
	for (c = 0; c < 16; c++)
		printf(" %016llx", (unsigned long long)hs[c]);
	printf("\n");
}

/* one voiceless frame; returns the byte count (or -1) and copies the bytes to out */
static int voiceless_frame(int fmt, int f, int amp, unsigned char *out, int *ticksize)
{
	static struct context_data *pc;
	struct mixer_data *s;
	int size;

	if (pc == NULL)
		pc = (struct context_data *)xmp_create_context();
	if (pc == NULL || libxmp_mixer_on(pc, 44100, fmt, 8363) < 0)
		return -1;
	s = &pc->s;
	s->freq = f;
	s->amplify = amp;
	pc->m.time_factor = 1.0;
	pc->m.rrate = 1000.0;
	pc->p.bpm = 1;
	pc->p.virt.maxvoc = 0;
	memset(s->buffer, 0x5a, XMP_MAX_FRAMESIZE * sizeof(int16));
	libxmp_mixer_softmixer(pc);
	*ticksize = s->ticksize;
	size = s->ticksize * ((fmt & XMP_FORMAT_MONO) ? 1 : 2) * ((fmt & XMP_FORMAT_8BIT) ? 1 : 2);
	if (size < 0 || size > XMP_MAX_FRAMESIZE * (int)sizeof(int16)) {
		libxmp_mixer_off(pc);
		return -2;
	}
	memcpy(out, s->buffer, size);
	/* nothing may be written behind the reported size */
	if (size < XMP_MAX_FRAMESIZE * (int)sizeof(int16) && (unsigned char)s->buffer[size] != 0x5a)
		ofail("overrun_frame", f, amp, size, fmt);
	libxmp_mixer_off(pc);
	return size;
}

static void prep_cmd(int fmt, int f, int amp)
{
	static unsigned char a[XMP_MAX_FRAMESIZE * 2], b[XMP_MAX_FRAMESIZE * 2];
	int ts = 0, ts2 = 0, size, size2, i, w = (fmt & XMP_FORMAT_8BIT) ? 1 : 2;

	size = voiceless_frame(fmt, f, amp, a, &ts);
	if (size == -1) {
		printf("prep error\n");
		return;
	}
	if (size == -2) {
		printf("prep %d -1 outside-buffer\n", ts);
		return;
	}
	printf("prep %d %d %016llx\n", ts, size, (unsigned long long)fnv1a(FNV_INIT, a, size));
	/* direct oracle on frames without voices: the rendering with the other signedness is the same
	 * samples with the top bit flipped, and the frame has the same size */
	size2 = voiceless_frame(fmt ^ XMP_FORMAT_UNSIGNED, f, amp, b, &ts2);
	n_checked++;
	if (size2 != size || ts2 != ts) {
		ofail("unsigned_frame_size", f, amp, size2, size);
		return;
	}
	for (i = 0; i < size; i++) {
		unsigned char want = (w == 1 || (i & 1)) ? (a[i] ^ 0x80) : a[i];
		if (b[i] != want) {
			ofail(w == 1 ? "unsigned8_frame" : "unsigned16_frame", f, amp, b[i], want);
			break;
		}
	}
}

int main(int argc, char **argv)
{
	static char line[1 << 20];
	int c;

	(void)argc; (void)argv;
	while (fgets(line, sizeof(line), stdin)) {
		if (!strncmp(line, "rnd ", 4)) {
			unsigned long long seed;
			long count, done = 0;
			int k;
			if (sscanf(line + 4, "%llu %ld %d", &seed, &count, &k) != 3 || k < 0 || k > 31)
				continue;
			vrng_seed(seed);
			for (c = 0; c < 16; c++)
				hs[c] = FNV_INIT;
			while (done < count) {
				int n = count - done > BLK ? BLK : (int)(count - done), i;
				for (i = 0; i < n; i++) {
					int32 v = (int32)(uint32)(vrng_next() >> 32);
					/* arithmetic shift written without >> on a negative value */
					acc[i] = v >= 0 ? v >> k : -(int32)(((uint32)(-(v + 1))) >> k) - 1;
				}
				run_chunk(n, 0);
				done += n;
			}
			flush_block(count);
		} else if (!strncmp(line, "vals ", 5)) {
			char *p = line + 5;
			long n = strtol(p, &p, 10), done = 0;
			for (c = 0; c < 16; c++)
				hs[c] = FNV_INIT;
			while (done < n) {
				int m = 0;
				while (m < BLK && done + m < n) {
					acc[m++] = (int32)strtol(p, &p, 10);
				}
				run_chunk(m, 0);
				done += m;
			}
			flush_block(n);
		} else if (!strncmp(line, "prep ", 5)) {
			int fmt, f, amp;
			if (sscanf(line + 5, "%d %d %d", &fmt, &f, &amp) == 3 && amp >= 0 && amp <= 3)
				prep_cmd(fmt & 7, f, amp);
		} else if (!strncmp(line, "one ", 4)) {
			int amp;
			acc[0] = (int32)strtol(line + 4, NULL, 10);
			run_chunk(1, 1);
			printf("one %d", (int)acc[0]);
			for (amp = 0; amp < 4; amp++)
				printf(" %d %d %d %d", o16[amp][0][0], o16[amp][1][0], o8[amp][0][0], o8[amp][1][0]);
			printf("\n");
		}
	}
	printf("oracle %ld %ld clipped16=%ld clipped8=%ld\n", n_checked, n_fail, n_clip16, n_clip8);
	return 0;
}
