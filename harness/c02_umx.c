/* C02 — the name-table walk of the Unreal package reader (read_typname, src/loaders/umx_load.c) on generated name
 * tables: umx_load.c is compiled into this translation unit with hio_seek counted (one seek per loop iteration).
 * Case lines on stdin (same protocol as lean/Drv/C02.lean):
 *   umx <file_version> <name_count> <name_offset> <idx> <filehex>
 *   -> ret <0|-1> iters <number of loop iterations> name <hex of the string copied out | ->
 * Memory handle and FILE handle are both run; the line is printed once if they agree, else both with a `|`.
 * usage: c02_umx <scratchdir>
 */
#include "vcommon.h"
#include "common.h"
#include "hio.h"
#include "loader.h"
#include <unistd.h>

static long seeks;

static int spy_seek(HIO_HANDLE *f, long ofs, int whence)
{
	seeks++;
	return hio_seek(f, ofs, whence);
}

#define hio_seek spy_seek
#include "umx_load.c"
#undef hio_seek

static char line[1 << 20];

static void one(HIO_HANDLE *f, int ver, int nc, int nofs, int idx, char *dst)
{
	struct upkg_hdr hdr;
	char out[128];
	int ret;
	size_t i, n;
	memset(&hdr, 0, sizeof(hdr));
	memset(out, 0, sizeof(out));
	hdr.file_version = ver;
	hdr.name_count = nc;
	hdr.name_offset = nofs;
	seeks = 0;
	ret = read_typname(f, &hdr, idx, out);
	dst += sprintf(dst, "ret %d iters %ld name ", ret, seeks);
	n = ret == 0 ? strlen(out) : 0;
	if (n == 0)
		*dst++ = '-';
	for (i = 0; i < n; i++)
		dst += sprintf(dst, "%02x", (unsigned char)out[i]);
	*dst = 0;
}

int main(int argc, char **argv)
{
	const char *scratch = argc > 1 ? argv[1] : "/tmp";
	char path[4096];
	snprintf(path, sizeof(path), "%s/c02_umx_%ld.bin", scratch, (long)getpid());
	while (fgets(line, sizeof(line), stdin)) {
		char *tok[8], a[512], b[512];
		int nt = 0;
		long n;
		unsigned char *data = NULL;
		char *p = strtok(line, " \r\n");
		HIO_HANDLE *f;
		FILE *w;
		while (p && nt < 8) {
			tok[nt++] = p;
			p = strtok(NULL, " \r\n");
		}
		if (nt != 6 || strcmp(tok[0], "umx")) {
			printf("?\n");
			continue;
		}
		n = get_hex(tok[5], &data);
		if (n <= 0) {
			printf("noopen\n");
			free(data);
			continue;
		}
		f = hio_open_const_mem(data, n);
		if (!f)
			return 3;
		one(f, atoi(tok[1]), atoi(tok[2]), atoi(tok[3]), atoi(tok[4]), a);
		hio_close(f);
		w = fopen(path, "wb");
		if (!w || fwrite(data, 1, (size_t)n, w) != (size_t)n)
			return 5;
		fclose(w);
		f = hio_open(path, "rb");
		if (!f)
			return 5;
		one(f, atoi(tok[1]), atoi(tok[2]), atoi(tok[3]), atoi(tok[4]), b);
		hio_close(f);
		if (strcmp(a, b))
			printf("%s | %s\n", a, b);
		else
			printf("%s\n", a);
		fflush(stdout);
		free(data);
	}
	unlink(path);
	return 0;
}
