import XmpModel.UmxWalk
import XmpProofs.WorkBound
/-!
# The UMX name-table walk ends after `(|file| − name_offset)/5 + 2` iterations whatever index is declared (C02)
-/
namespace Xmp.Umx
open Xmp Xmp.Work

/-- **progress**: an iteration that continues has read at least one byte at `name_offset + l` and moved `l` at
least 5 bytes forward (6 for packages of version ≥ 64: the counted length is at least 1) -/
theorem nameStep_progress (f : Bytes) (nameOfs : Nat) (v64 : Bool) (s s' : St)
    (h : (nameStep f nameOfs v64 s).succ? = some s') :
    nameOfs + s.l < f.length ∧ s.l + 5 ≤ s'.l ∧ s'.left + 1 = s.left := by
  unfold nameStep at h
  split at h
  · simp [Out.succ?] at h
  rename_i k hk
  simp only [] at h
  have hread : ∀ (buf : Bytes), (readBuf f (nameOfs + s.l) buf).1 ≠ 0 → nameOfs + s.l < f.length := by
    intro buf hne
    simp only [readBuf] at hne
    omega
  repeat' split at h
  all_goals (simp only [Out.succ?, Option.some.injEq, reduceCtorEq] at h)
  all_goals (subst h; rename_i h0 _; first | skip)
  all_goals (refine ⟨hread _ (by assumption), ?_, by simp only; omega⟩; simp only; omega)

/-- **the name-table walk terminates**: at most `(|file| − name_offset)/5 + 2` iterations, independent of the
declared type-name index and name count (each up to 2^31 − 1); the model's fuel never stops it -/
theorem readTypname_terminates (f : Bytes) (nameOfs : Nat) (v64 : Bool) (s : St) (hl : s.l = 0) :
    EndsWithin (nameStep f nameOfs v64) (nameFuel f) s ((f.length - nameOfs) / 5 + 2) := by
  have hb := run_bounded (nameStep f nameOfs v64) (fun _ => True) (fun x => f.length + 5 - (nameOfs + x.l)) 5 (by decide)
    (fun x x' _ h => ⟨trivial, by have := nameStep_progress f nameOfs v64 x x' h; omega⟩) (nameFuel f) s trivial
    (by unfold nameFuel; rw [hl]; omega)
  refine hb.mono (Nat.le_refl _) ?_
  rw [hl]
  omega

theorem readTypname_isSome (f : Bytes) (nameCount nameOfs : Nat) (v64 : Bool) (idx : Nat) :
    (readTypname f nameCount nameOfs v64 idx).res.isSome = true ∧
    (readTypname f nameCount nameOfs v64 idx).iters ≤ (f.length - nameOfs) / 5 + 2 := by
  unfold readTypname
  split
  · simp
  · exact readTypname_terminates f nameOfs v64 _ rfl

end Xmp.Umx
