import XmpProofs.LinFlowSim
/-! C18: `libxmp_scan_sequences` — what each `scan_module` call leaves in `sequence_control` /
`xxo_info`, and that the player environment of every accepted sequence satisfies `SeqHyp`. -/
set_option linter.unusedSimpArgs false
set_option linter.unusedVariables false
namespace Xmp.LinFlow

theorem scanRows_info (ord : Nat) : ∀ (fxs : List Fx) (row : Nat) (st : ScanSt),
    (∀ st' o2, scanRows ord fxs row st = .done st' o2 → st'.info = st.info) ∧
    (∀ st' r', scanRows ord fxs row st = .endMod st' r' → st'.info = st.info) := by
  intro fxs
  induction fxs with
  | nil =>
    intro row st
    constructor
    · intro st' o2 h
      simp [scanRows] at h
      rw [← h.1]
    · intro st' r' h
      simp [scanRows] at h
  | cons fx tl ih =>
    intro row st
    by_cases hv : st.rowCountTotal > rowLimit ∨ cntAt st.cnt ord row ≠ 0
    · obtain ⟨s', r0, he, _, _, hs3⟩ := scanRows_cons_stop ord fx tl row st hv
      constructor
      · intro st' o2 h; rw [he] at h; cases h
      · intro st' r' h
        rw [he] at h
        cases h
        exact hs3
    · have hv0 : cntAt st.cnt ord row = 0 := by
        by_cases h0 : cntAt st.cnt ord row = 0
        · exact h0
        · exact absurd (Or.inr h0) hv
      have hg0 : st.rowCountTotal ≤ rowLimit := by
        by_cases h0 : st.rowCountTotal > rowLimit
        · exact absurd (Or.inl h0) hv
        · omega
      have hinfo : (visitStep ord row fx (clampBpm st)).info = st.info := by rw [visitStep_info]; rfl
      have hf := scanRows_cons_fresh' ord fx tl row st hv0 hg0
      cases fx with
      | jump j =>
        simp only at hf
        constructor
        · intro st' o2 h; rw [hf] at h; cases h; exact hinfo
        · intro st' r' h; rw [hf] at h; cases h
      | none | speed _ | tempo _ | delay _ | rowdelay _ =>
        simp only at hf
        obtain ⟨i1, i2⟩ := ih (row + 1) (visitStep ord row _ (clampBpm st))
        constructor
        · intro st' o2 h
          rw [hf] at h
          rw [i1 st' o2 h, hinfo]
        · intro st' r' h
          rw [hf] at h
          rw [i2 st' r' h, hinfo]

/-- what one `scan_module` order loop does to `sequence_control` and `xxo_info`, whatever happens -/
structure Frame (chain : Nat) (st stF : ScanSt) : Prop where
  ctlLen : stF.ctl.length = st.ctl.length
  infoLen : stF.info.length = st.info.length
  /-- entries change only to `chain` -/
  chg : ∀ o, stF.ctl.getD o 0xff = st.ctl.getD o 0xff ∨ stF.ctl.getD o 0xff = chain
  /-- recorded `xxo_info` entries are never overwritten -/
  infoKeep : ∀ o, 0 ≤ (st.info.getD o {}).time → stF.info.getD o {} = st.info.getD o {}
  /-- an order with recorded `xxo_info` is in some sequence -/
  infoCtl : (∀ o, 0 ≤ (st.info.getD o {}).time → st.ctl.getD o 0xff ≠ 0xff) →
    (∀ o, 0 ≤ (stF.info.getD o {}).time → stF.ctl.getD o 0xff ≠ 0xff)

theorem Frame.refl (chain : Nat) (st : ScanSt) : Frame chain st st :=
  ⟨rfl, rfl, fun _ => Or.inl rfl, fun _ _ => rfl, fun h => h⟩

theorem Frame.trans {chain : Nat} {a b c : ScanSt} (h1 : Frame chain a b) (h2 : Frame chain b c) : Frame chain a c := by
  refine ⟨by rw [h2.ctlLen, h1.ctlLen], by rw [h2.infoLen, h1.infoLen], ?_, ?_, fun h => h2.infoCtl (h1.infoCtl h)⟩
  · intro o
    rcases h2.chg o with h | h
    · rw [h]; exact h1.chg o
    · exact Or.inr h
  · intro o ho
    have := h1.infoKeep o ho
    rw [h2.infoKeep o (by rw [this]; exact ho), this]

/-- a state that differs only in fields other than `ctl` / `info` -/
theorem Frame.of_eq (chain : Nat) (st st' : ScanSt) (h1 : st'.ctl = st.ctl) (h2 : st'.info = st.info) : Frame chain st st' := by
  refine ⟨by rw [h1], by rw [h2], fun _ => by rw [h1]; exact Or.inl rfl, fun _ _ => by rw [h2], ?_⟩
  intro h o ho
  rw [h1]; rw [h2] at ho; exact h o ho

theorem Frame.claim (chain ord : Nat) (st st' : ScanSt) (hc : chain ≠ 0xff) (h1 : st'.ctl = st.ctl.set ord chain)
    (h2 : st'.info = st.info) : Frame chain st st' := by
  refine ⟨by rw [h1]; simp, by rw [h2], ?_, fun _ _ => by rw [h2], ?_⟩
  · intro o
    rw [h1]
    by_cases hoo : ord = o
    · subst hoo
      by_cases hl : ord < st.ctl.length
      · right; rw [getD_set_eq _ _ _ _ hl]
      · left; rw [List.set_eq_of_length_le (by omega)]
    · left; rw [getD_set_ne _ _ _ _ _ hoo]
  · intro h o ho
    rw [h2] at ho
    have := h o ho
    rw [h1]
    by_cases hoo : ord = o
    · subst hoo
      by_cases hl : ord < st.ctl.length
      · rw [getD_set_eq _ _ _ _ hl]; exact hc
      · rw [List.set_eq_of_length_le (by omega)]; exact this
    · rw [getD_set_ne _ _ _ _ _ hoo]; exact this

/-- `recordInfo` right after the claim of `ord` -/
theorem Frame.record (chain ep ord : Nat) (st : ScanSt) (hc : chain ≠ 0xff) (hl : ord < st.ctl.length) :
    Frame chain st (recordInfo ep ord { st with ctl := st.ctl.set ord chain }) := by
  have hctl : (recordInfo ep ord { st with ctl := st.ctl.set ord chain }).ctl = st.ctl.set ord chain := by
    rw [recordInfo_ctl]
  have hinfo := recordInfo_info ep ord { st with ctl := st.ctl.set ord chain }
  refine ⟨by rw [hctl]; simp, by rw [hinfo]; simp, ?_, ?_, ?_⟩
  · intro o
    rw [hctl]
    by_cases hoo : ord = o
    · right; rw [← hoo, getD_set_eq _ _ _ _ hl]
    · left; rw [getD_set_ne _ _ _ _ _ hoo]
  · intro o ho
    rw [hinfo]
    by_cases hoo : ord = o
    · subst hoo
      have hn : ¬ (st.info.getD ord {}).time < 0 := by omega
      show (st.info.set ord (if (st.info.getD ord {}).time < 0 then _ else st.info.getD ord {})).getD ord {} = _
      rw [if_neg hn]
      by_cases hli : ord < st.info.length
      · rw [getD_set_eq _ _ _ _ hli]
      · rw [List.set_eq_of_length_le (by omega)]
    · rw [getD_set_ne _ _ _ _ _ hoo]
  · intro h o ho
    rw [hctl]
    by_cases hoo : ord = o
    · rw [← hoo, getD_set_eq _ _ _ _ hl]; exact hc
    · rw [getD_set_ne _ _ _ _ _ hoo]
      rw [hinfo, getD_set_ne _ _ _ _ _ hoo] at ho
      exact h o ho

theorem scanOrders_frame (m : LinMod) (ep chain : Nat) (hc : chain ≠ 0xff) (hrst : m.rst < m.len) (hep : ep < m.len) :
    ∀ (fuel nord : Nat) (st stF : ScanSt) (oF rF : Nat), m.len ≤ st.ctl.length →
    scanOrders m ep chain fuel nord st = .finished stF oF rF → Frame chain st stF := by
  intro fuel
  induction fuel with
  | zero => intro nord st stF oF rF _ h; simp [scanOrders] at h
  | succ fuel ih =>
    intro nord st stF oF rF hl h
    rw [scanOrders] at h
    split at h
    · simp only [Outcome.finished.injEq] at h
      obtain ⟨e1, _, _⟩ := h
      subst e1
      exact Frame.refl chain st
    · extract_lets st1 wrapped ord pat isEnd skipTo st2 st3 at h
      have hF1 : Frame chain st st1 := Frame.of_eq chain st st1 rfl rfl
      have hl1 : m.len ≤ st1.ctl.length := hl
      have hord : ord < m.len := by
        simp only [ord, wrapped]
        by_cases hw : nord ≥ m.len
        · simp only [hw, decide_true, if_true]; exact restartOrd_lt m ep chain _ _ hrst hep
        · simp [hw]; omega
      split at h
      · simp only [Outcome.finished.injEq] at h
        obtain ⟨e1, _, _⟩ := h
        subst e1
        exact hF1
      · split at h
        · split at h
          · have h' : scanOrders m ep chain fuel skipTo
                { st1 with endMark := if isEnd = true then some ord else st1.endMark } = .finished stF oF rF := h
            have hFe : Frame chain st1 { st1 with endMark := if isEnd = true then some ord else st1.endMark } :=
              Frame.of_eq chain st1 _ rfl rfl
            exact (hF1.trans hFe).trans (ih _ _ _ _ _ (by exact hl1) h')
          · simp only [Outcome.finished.injEq] at h
            obtain ⟨e1, _, _⟩ := h
            subst e1
            exact hF1
        · have hF2 : Frame chain st st2 := hF1.trans (Frame.claim chain ord st1 st2 hc rfl rfl)
          have hl2 : m.len ≤ st2.ctl.length := by
            show m.len ≤ (st1.ctl.set ord chain).length
            rw [List.length_set]; exact hl1
          split at h
          · have h' : scanOrders m ep chain fuel skipTo
                { st2 with endMark := if isEnd = true then some ord else st2.endMark } = .finished stF oF rF := h
            have hFe : Frame chain st2 { st2 with endMark := if isEnd = true then some ord else st2.endMark } :=
              Frame.of_eq chain st2 _ rfl rfl
            exact (hF2.trans hFe).trans (ih _ _ _ _ _ (by exact hl2) h')
          · split at h
            · simp only [Outcome.finished.injEq] at h
              obtain ⟨e1, _, _⟩ := h
              subst e1
              exact hF2
            · have hF3 : Frame chain st st3 :=
                hF1.trans (Frame.record chain ep ord st1 hc (by omega))
              split at h
              · rename_i st' row hrows
                simp only [Outcome.finished.injEq] at h
                obtain ⟨e1, _, _⟩ := h
                subst e1
                exact hF3.trans (Frame.of_eq chain st3 _ ((scanRows_mono ord _ 0 st3).2 _ _ hrows).2
                  ((scanRows_info ord _ 0 st3).2 _ _ hrows))
              · rename_i st' ord2 hrows
                have hc' := ((scanRows_mono ord _ 0 st3).1 _ _ hrows).2
                have hi' := (scanRows_info ord _ 0 st3).1 _ _ hrows
                have hF4 : Frame chain st st' := hF3.trans (Frame.of_eq chain st3 st' hc' hi')
                have hl4 : m.len ≤ st'.ctl.length := by rw [hF4.ctlLen]; exact hl
                have h' : scanOrders m ep chain fuel (ord2.getD (ord + 1))
                    { st' with frameCount := st'.frameCount + st'.rowCount * st'.speed, rowCount := 0, rowCountTotal := 0 } =
                    .finished stF oF rF := h
                have hF5 := ih _ _ _ _ _ (by exact hl4) h'
                have hF45 : Frame chain st' { st' with frameCount := st'.frameCount + st'.rowCount * st'.speed, rowCount := 0, rowCountTotal := 0 } :=
                  Frame.of_eq chain st' _ rfl rfl
                exact (hF4.trans hF45).trans hF5

/-- `scan_module` as a whole -/
structure ModFrame (chain ep : Nat) (ctl : List Nat) (info : List OrdInfo) (r : ScanResult) : Prop where
  ctlLen : r.ctl.length = ctl.length
  infoLen : r.info.length = info.length
  chg : ∀ o, r.ctl.getD o 0xff = ctl.getD o 0xff ∨ r.ctl.getD o 0xff = chain
  keepChain : ∀ o, ctl.getD o 0xff = chain → r.ctl.getD o 0xff = chain
  used : ep ≠ 0 → ∀ o, ctl.getD o 0xff ≠ 0xff → r.ctl.getD o 0xff = ctl.getD o 0xff
  infoKeep : ∀ o, 0 ≤ (info.getD o {}).time → r.info.getD o {} = info.getD o {}
  infoCtl : (∀ o, 0 ≤ (info.getD o {}).time → ctl.getD o 0xff ≠ 0xff) →
    (∀ o, 0 ≤ (r.info.getD o {}).time → r.ctl.getD o 0xff ≠ 0xff)

theorem scanModule_frame (m : LinMod) (ep chain : Nat) (ctl : List Nat) (info : List OrdInfo)
    (hc : chain ≠ 0xff) (hrst : m.rst < m.len) (hep : ep < m.len) (hl : m.len ≤ ctl.length) :
    ModFrame chain ep ctl info (scanModule m ep chain ctl info) := by
  unfold scanModule
  simp only []
  have hinit : ({ speed := m.spd, bpm := m.bpm, cnt := initCnt m, ctl := ctl, info := info } : ScanSt) =
      scanInit m ctl info := rfl
  rw [hinit]
  cases hso : scanOrders m ep chain (scanFuel m) ep (scanInit m ctl info) with
  | noFuel =>
    exact ⟨rfl, rfl, fun _ => Or.inl rfl, fun _ h => h, fun _ _ _ => rfl, fun _ _ => rfl, fun h => h⟩
  | finished st ord row0 =>
    have hF := scanOrders_frame m ep chain hc hrst hep _ _ _ _ _ _ (by exact hl) hso
    obtain ⟨_, m2, m3⟩ := scanOrders_mono m ep chain _ _ _ _ _ _ hso
    have key : ModFrame chain ep ctl info { ret := 0, durX := 0, endOrd := 0, endRow := 0, num := 0, ctl := st.ctl, info := st.info, trace := [] } :=
      ⟨hF.ctlLen, hF.infoLen, hF.chg, m2, m3, hF.infoKeep, hF.infoCtl⟩
    simp only
    split
    · exact ⟨key.ctlLen, key.infoLen, key.chg, key.keepChain, key.used, key.infoKeep, key.infoCtl⟩
    · exact ⟨key.ctlLen, key.infoLen, key.chg, key.keepChain, key.used, key.infoKeep, key.infoCtl⟩

/-! ## an accepted scan starts at a playable order -/

theorem scanOrders_sanity (m : LinMod) (ep chain fuel nord : Nat) (st : ScanSt) (h : st.osv > 512) :
    scanOrders m ep chain (fuel + 1) nord st = .finished st (nord - 1) 0 := by
  rw [scanOrders]; simp only [h, if_true]

theorem scanOrders_wrap_end (m : LinMod) (ep chain fuel nord : Nat) (st : ScanSt) (hw : nord ≥ m.len)
    (hs : isEndMark m (restartOrd m ep chain st.ctl st.endMark)) (hosv : st.osv ≤ 512) :
    scanOrders m ep chain (fuel + 1) nord st =
      .finished { st with osv := st.osv + 1, endMark := none } (restartOrd m ep chain st.ctl st.endMark) 0 := by
  obtain ⟨h1, h2, h3⟩ := hs
  have hosv' : ¬ st.osv > 512 := by omega
  have hend : (m.marker && m.patOf (restartOrd m ep chain st.ctl st.endMark) == 0xff) = true := by simp [h2, h3]
  rw [scanOrders]
  simp only [hosv', if_false, hw, decide_true, Bool.true_and, if_true, hend]

/-- If the orders from the entry point on are skipped up to an end marker or the end of the order
list, the scan never finds a row: `any_valid` stays 0. -/
theorem no_start_rejected (m : LinMod) (ep chain : Nat) (hw : ModWF m) (hep : ep < m.len) (hc : chain ≠ 0xff)
    (x : Nat) (hx1 : ep ≤ x) (hr : SkipRange m ep x) (hx : isEndMark m x ∨ x = m.len) :
    ∀ (fuel nord : Nat) (st stF : ScanSt) (oF rF : Nat), st.anyValid = false →
      ((ep ≤ nord ∧ nord ≤ x) ∨ m.len ≤ nord) →
      (isPlay m m.rst → st.ctl.getD m.rst 0xff = chain → ep ≠ 0) →
      scanOrders m ep chain fuel nord st = .finished stF oF rF → stF.anyValid = false := by
  intro fuel
  induction fuel with
  | zero => intro nord st stF oF rF _ _ _ h; simp [scanOrders] at h
  | succ fuel ih =>
    intro nord st stF oF rF hav hn hP h
    by_cases hosv : st.osv > 512
    · rw [scanOrders_sanity m ep chain fuel nord st hosv] at h
      simp only [Outcome.finished.injEq] at h
      rw [← h.1]; exact hav
    · have hosv' : st.osv ≤ 512 := by omega
      have hxl : x ≤ m.len := by
        rcases hx with h | h
        · have := h.1; omega
        · omega
      by_cases hwrap : m.len ≤ nord
      · -- the wrapped iteration
        have hR := restartOrd_eq m ep chain st.ctl st.endMark hw.rst
        by_cases hU : isPlay m m.rst ∧ belowEp ep st.endMark = false ∧ st.ctl.getD m.rst 0xff = chain
        · rw [if_pos hU] at hR
          have he := hP hU.1 hU.2.2
          rw [scanOrders_wrap_play m ep chain fuel nord st hwrap hw.mkNpat (by rw [hR]; exact hU.1) hosv', hR] at h
          obtain ⟨_, _, hst⟩ := procValid_done m ep chain fuel m.rst _ stF oF rF h
            (Or.inl ⟨he, by show st.ctl.getD m.rst 0xff ≠ 0xff; rw [hU.2.2]; exact hc⟩)
          rcases hst with hst | hst <;> (rw [hst]; exact hav)
        · rw [if_neg hU] at hR
          by_cases hepx : ep = x
          · have hmark : isEndMark m ep := by
              rcases hx with h' | h'
              · rw [hepx]; exact h'
              · omega
            rw [scanOrders_wrap_end m ep chain fuel nord st hwrap (by rw [hR]; exact hmark) hosv'] at h
            simp only [Outcome.finished.injEq] at h
            rw [← h.1]; exact hav
          · have hsk : isSkip m ep := hr ep (Nat.le_refl _) (by omega)
            rw [scanOrders_wrap_skip m ep chain fuel nord st hwrap (by rw [hR]; exact hsk) hosv', hR] at h
            refine ih _ _ _ _ _ ?_ ?_ ?_ h
            · exact hav
            · exact Or.inl ⟨by omega, by omega⟩
            intro hp hcc
            have := (claimCtl_keep m ep chain ep st.ctl (skip_not_play m ep hsk)).play m.rst hp
            exact hP hp (by rw [← this]; exact hcc)
      · have hn' : ep ≤ nord ∧ nord ≤ x := by
          rcases hn with h' | h'
          · exact h'
          · omega
        by_cases hnx : nord = x
        · have hmark : isEndMark m nord := by
            rcases hx with h' | h'
            · rw [hnx]; exact h'
            · omega
          rw [scanOrders_endMark m ep chain fuel nord st hmark (hw.mkNpat hmark.2.1) hosv'] at h
          refine ih _ _ _ _ _ ?_ ?_ ?_ h
          · exact hav
          · exact Or.inr (by omega)
          intro hp hcc
          have := (claimCtl_keep m ep chain nord st.ctl (endMark_not_play m hw nord hmark)).play m.rst hp
          exact hP hp (by rw [← this]; exact hcc)
        · have hsk : isSkip m nord := hr nord hn'.1 (by omega)
          rw [scanOrders_skip m ep chain fuel nord st hsk hosv'] at h
          refine ih _ _ _ _ _ ?_ ?_ ?_ h
          · exact hav
          · exact Or.inl ⟨by omega, by omega⟩
          intro hp hcc
          have := (claimCtl_keep m ep chain nord st.ctl (skip_not_play m nord hsk)).play m.rst hp
          exact hP hp (by rw [← this]; exact hcc)

/-- an accepted scan: the entry point leads through skipped orders to a playable order -/
theorem accepted_start (m : LinMod) (ep chain : Nat) (ctl0 : List Nat) (info0 : List OrdInfo) (hw : ModWF m)
    (hep : ep < m.len) (hc : chain ≠ 0xff)
    (h0 : ep = 0 → isPlay m m.rst → ctl0.getD m.rst 0xff ≠ chain)
    (hacc : 0 ≤ (scanModule m ep chain ctl0 info0).ret) :
    ∃ o1, SkipRange m ep o1 ∧ isPlay m o1 ∧ ep ≤ o1 := by
  obtain ⟨x, h1, h2, h3, h4⟩ := walk_cases m hw (m.len - ep) ep (by omega)
  rcases h4 with h | h
  · exact ⟨x, h3, h, h1⟩
  · exfalso
    obtain ⟨stF, oF, rS, hscan, hav, _⟩ := scanModule_accepted m ep chain ctl0 info0 hacc
    have := no_start_rejected m ep chain hw hep hc x h1 h3 h (scanFuel m) ep (scanInit m ctl0 info0) stF oF rS rfl
      (Or.inl ⟨Nat.le_refl _, h1⟩) (by
        intro hp hcc he
        exact h0 he hp hcc) hscan
    rw [this] at hav; cases hav

/-! ## the entry point is claimed -/

theorem claimCtl_self (ep chain : Nat) (ctl : List Nat) (h : ep = 0 ∨ ctl.getD ep 0xff = 0xff) (hl : ep < ctl.length) :
    (claimCtl ep chain ep ctl).getD ep 0xff = chain := by
  unfold claimCtl
  rw [if_neg (by intro hc; rcases h with h | h; exact hc.1 h; exact hc.2 h)]
  exact getD_set_eq _ _ _ _ hl

theorem scan_claims_ep (m : LinMod) (ep chain : Nat) (hw : ModWF m) (hep : ep < m.len) (fuel : Nat) (st stF : ScanSt)
    (oF rF : Nat) (hosv : st.osv = 0) (h0 : ep = 0 ∨ st.ctl.getD ep 0xff = 0xff) (hl : ep < st.ctl.length)
    (h : scanOrders m ep chain fuel ep st = .finished stF oF rF) : stF.ctl.getD ep 0xff = chain := by
  cases fuel with
  | zero => simp [scanOrders] at h
  | succ f =>
    rcases order_cases m hw ep hep with hp | hs | he
    · rw [scanOrders_play m ep chain f ep st hp (by omega)] at h
      unfold procValid at h
      have hnc : ¬ (ep ≠ 0 ∧ st.ctl.getD ep 0xff ≠ 0xff) := by
        intro hc; rcases h0 with h' | h'; exact hc.1 h'; exact hc.2 h'
      have hnc' : ¬ (ep ≠ 0 ∧ ({ st with osv := st.osv + 1 } : ScanSt).ctl.getD ep 0xff ≠ 0xff) := hnc
      rw [if_neg hnc'] at h
      have hset : (st.ctl.set ep chain).getD ep 0xff = chain := getD_set_eq _ _ _ _ hl
      split at h
      · simp only [Outcome.finished.injEq] at h
        rw [← h.1]; exact hset
      · split at h
        · rename_i st' row hrows
          simp only [Outcome.finished.injEq] at h
          rw [← h.1, ((scanRows_mono ep _ 0 _).2 _ _ hrows).2, recordInfo_ctl]
          exact hset
        · rename_i st' ord2 hrows
          have hc' : st'.ctl.getD ep 0xff = chain := by
            rw [((scanRows_mono ep _ 0 _).1 _ _ hrows).2, recordInfo_ctl]; exact hset
          exact (scanOrders_mono m ep chain _ _ _ _ _ _ h).2.1 ep hc'
    · rw [scanOrders_skip m ep chain f ep st hs (by omega)] at h
      exact (scanOrders_mono m ep chain _ _ _ _ _ _ h).2.1 ep (claimCtl_self ep chain st.ctl h0 hl)
    · rw [scanOrders_endMark m ep chain f ep st he (hw.mkNpat he.2.1) (by omega)] at h
      exact (scanOrders_mono m ep chain _ _ _ _ _ _ h).2.1 ep (claimCtl_self ep chain st.ctl h0 hl)

/-! ## scan-only facts of an accepted scan, obtained through the simulation with a canonical player -/

theorem getD_replicate_lt {α} (n i : Nat) (a d : α) (h : i < n) : (List.replicate n a).getD i d = a := by
  rw [List.getD_eq_getElem?_getD, List.getElem?_replicate, if_pos h]; rfl

theorem accepted_facts (m : LinMod) (ep chain : Nat) (ctl0 : List Nat) (info0 : List OrdInfo) (o1 : Nat)
    (hw : ModWF m) (hep : ep < m.len) (hstart : SkipRange m ep o1) (ho1 : isPlay m o1) (hle : ep ≤ o1)
    (hlow : ep ≠ 0 → ∀ o, o < ep → ctl0.getD o 0xff ≠ 0xff)
    (hc : chain < 255) (hl : m.len ≤ ctl0.length)
    (hacc : 0 ≤ (scanModule m ep chain ctl0 info0).ret) :
    (ep ≠ 0 → ctl0.getD o1 0xff = 0xff) ∧
    ((info0.getD o1 {}).time < 0 → o1 < info0.length →
      ((scanModule m ep chain ctl0 info0).info.getD o1 {}).speed = m.spd ∧
      ((scanModule m ep chain ctl0 info0).info.getD o1 {}).bpm = m.bpm ∧
      0 ≤ ((scanModule m ep chain ctl0 info0).info.getD o1 {}).time) ∧
    (∀ rec ∈ (scanModule m ep chain ctl0 info0).trace,
      (isPlay m rec.ord ∧ (ep ≠ 0 → ctl0.getD rec.ord 0xff = 0xff)) ∧
      (rec.row = 0 → (info0.getD rec.ord {}).time < 0 → rec.ord < info0.length →
        ((scanModule m ep chain ctl0 info0).info.getD rec.ord {}).timeX = rec.t0 ∧
        ((scanModule m ep chain ctl0 info0).info.getD rec.ord {}).time = (toMs rec.t0 : Int))) := by
  obtain ⟨stF, oF, rS, hscan, hav, r1, r2, r3, r4, r5, r6, r7⟩ := scanModule_accepted m ep chain ctl0 info0 hacc
  obtain ⟨rE, hrEdef⟩ : ∃ rE, rE = (if m.patOf oF ≥ m.npat ∨ rS ≥ (m.rowsOf (m.patOf oF)).length then 0 else rS) := ⟨_, rfl⟩
  have hrE : rS = 0 → rE = 0 := by
    intro h; rw [hrEdef, h]; split <;> rfl
  obtain ⟨e, he⟩ : ∃ e : PlayEnv, e = { m := m, si := { seq := chain, ep := ep, endOrd := oF, endRow := rE, num := cntAt stF.cnt oF rE }, ctl := stF.ctl, info := List.replicate (o1 + 1) { speed := m.spd, bpm := m.bpm } } := ⟨_, rfl⟩
  have HS : SimHyp m ep chain ctl0 e o1 stF oF rE := by
    refine ⟨hw, hep, hstart, ho1, hle, hlow, hc, ?_, ?_, ?_, ?_, ?_, ?_, ?_⟩
    all_goals (rw [he])
    intro _; exact Iff.rfl
  have hinfo : (e.info.getD o1 {}).speed = m.spd ∧ (e.info.getD o1 {}).bpm = m.bpm := by
    rw [he]
    show ((List.replicate (o1 + 1) ({ speed := m.spd, bpm := m.bpm } : OrdInfo)).getD o1 {}).speed = m.spd ∧ _
    rw [getD_replicate_lt _ _ _ _ (by omega)]
    exact ⟨rfl, rfl⟩
  obtain ⟨g1, s0, _, F, pF, _, _, _, _, _, _, _, _, _, _, _, g4, g2, g3, _⟩ :=
    sim_scanOrders m ep chain ctl0 info0 e o1 stF oF rE HS hl hinfo hav rS hrE hscan
  refine ⟨g1, ?_, ?_⟩
  · rw [r5]; exact g2
  · intro rec hrec
    rw [r6, List.mem_reverse] at hrec
    rw [r5]
    exact ⟨g3 rec hrec, g4 rec hrec⟩

/-! ## `libxmp_scan_sequences` -/

theorem firstFree_spec (ctl : List Nat) : ∀ (len ep : Nat), firstFree ctl len = some ep →
    ep < len ∧ ctl.getD ep 0xff = 0xff ∧ ∀ o, o < ep → ctl.getD o 0xff ≠ 0xff := by
  intro len
  induction len with
  | zero => intro ep h; simp [firstFree] at h
  | succ n ih =>
    intro ep h
    unfold firstFree at h ih
    rw [List.range_succ, List.find?_append] at h
    cases hf : (List.range n).find? (fun i => decide (ctl.getD i 0xff = 0xff)) with
    | some e =>
      rw [hf] at h
      simp only [Option.some_or, Option.some.injEq] at h
      subst h
      obtain ⟨i1, i2, i3⟩ := ih e hf
      exact ⟨by omega, i2, i3⟩
    | none =>
      rw [hf] at h
      simp only [Option.none_or] at h
      have hnone := List.find?_eq_none.mp hf
      by_cases hp : ctl.getD n 0xff = 0xff
      · simp [hp] at h
        obtain ⟨_, rfl⟩ := h
        refine ⟨by omega, hp, ?_⟩
        intro o ho hc
        have := hnone o (by simp; exact ho)
        rw [List.getD_eq_getElem?_getD] at hc
        simp [hc] at this
      · simp at h
        rw [List.getD_eq_getElem?_getD] at hp
        exact absurd h.1 hp

/-- what is established for the accepted sequence number `k` with record `rec`, relative to the current
`sequence_control` / `xxo_info` -/
def SeqOK (m : LinMod) (k : Nat) (rec : SeqRec) (ctl : List Nat) (info : List OrdInfo) : Prop :=
  ∃ ctlk infok o1,
    rec.res = scanModule m rec.ep k ctlk infok ∧ rec.ep < m.len ∧ SkipRange m rec.ep o1 ∧ isPlay m o1 ∧ rec.ep ≤ o1 ∧
    (rec.ep ≠ 0 → ∀ o, o < rec.ep → ctlk.getD o 0xff ≠ 0xff) ∧
    (rec.ep ≠ 0 → isPlay m 0 → ctlk.getD 0 0xff ≠ k) ∧ k < 255 ∧ m.len ≤ ctlk.length ∧ 0 ≤ rec.res.ret ∧
    (isPlay m m.rst → (ctl.getD m.rst 0xff = k ↔ rec.res.ctl.getD m.rst 0xff = k)) ∧
    (info.getD o1 {}).speed = m.spd ∧ (info.getD o1 {}).bpm = m.bpm ∧ 0 ≤ (info.getD o1 {}).time ∧
    (∀ r ∈ rec.res.trace, r.row = 0 →
      (info.getD r.ord {}).timeX = r.t0 ∧ (info.getD r.ord {}).time = (toMs r.t0 : Int))

/-- a later scan (another chain number, secondary entry point) leaves an accepted sequence alone -/
theorem SeqOK.step {m : LinMod} {k : Nat} {rec : SeqRec} {ctl : List Nat} {info : List OrdInfo}
    (h : SeqOK m k rec ctl info) (n ep : Nat) (r : ScanResult) (hf : ModFrame n ep ctl info r) (hkn : k < n)
    (hep : ep ≠ 0) : SeqOK m k rec r.ctl r.info := by
  obtain ⟨ctlk, infok, o1, a1, a2, a3, a4, a5, a6, a7, a8, a9, a10, a11, a12, a13, a14, a15⟩ := h
  refine ⟨ctlk, infok, o1, a1, a2, a3, a4, a5, a6, a7, a8, a9, a10, ?_, ?_, ?_, ?_, ?_⟩
  · intro hp
    rw [← a11 hp]
    constructor
    · intro hr
      rcases hf.chg m.rst with h' | h'
      · rw [← h']; exact hr
      · rw [h'] at hr; omega
    · intro hc
      rw [hf.used hep m.rst (by rw [hc]; omega)]; exact hc
  · rw [hf.infoKeep o1 a14]; exact a12
  · rw [hf.infoKeep o1 a14]; exact a13
  · rw [hf.infoKeep o1 a14]; exact a14
  · intro r' hr' hrow
    obtain ⟨b1, b2⟩ := a15 r' hr' hrow
    have hnn : 0 ≤ (info.getD r'.ord {}).time := by rw [b2]; exact Int.natCast_nonneg _
    rw [hf.infoKeep r'.ord hnn]
    exact ⟨b1, b2⟩

/-- invariant of the `while (1)` of `libxmp_scan_sequences` (`n` sequences accepted so far) -/
structure SeqInv (n : Nat) (ctl : List Nat) (info : List OrdInfo) : Prop where
  ctlLen : ctl.length = 256
  infoLen : info.length = 256
  ctl0 : ctl.getD 0 0xff = 0
  infoCtl : ∀ o, 0 ≤ (info.getD o {}).time → ctl.getD o 0xff ≠ 0xff
  pos : 1 ≤ n
  le : n ≤ 255

theorem seqLoop_ok (m : LinMod) (hw : ModWF m) : ∀ (fuel : Nat) (acc : List SeqRec) (ctl : List Nat) (info : List OrdInfo),
    SeqInv acc.length ctl info → (∀ k, k < acc.length → SeqOK m k (acc.getD k default) ctl info) →
    (∀ k, k < (seqLoop m fuel acc ctl info).1.length →
      SeqOK m k ((seqLoop m fuel acc ctl info).1.getD k default) (seqLoop m fuel acc ctl info).2.1
        (seqLoop m fuel acc ctl info).2.2) ∧
    SeqInv (seqLoop m fuel acc ctl info).1.length (seqLoop m fuel acc ctl info).2.1 (seqLoop m fuel acc ctl info).2.2 := by
  intro fuel
  induction fuel with
  | zero => intro acc ctl info hI hA; exact ⟨hA, hI⟩
  | succ fuel ih =>
    intro acc ctl info hI hA
    rw [seqLoop]
    cases hff : firstFree ctl m.len with
    | none => exact ⟨hA, hI⟩
    | some ep =>
      simp only
      by_cases hmax : acc.length ≥ 255
      · rw [if_pos hmax]; exact ⟨hA, hI⟩
      · rw [if_neg hmax]
        obtain ⟨p1, p2, p3⟩ := firstFree_spec ctl m.len ep hff
        have hep0 : ep ≠ 0 := by
          intro h; rw [h, hI.ctl0] at p2; cases p2
        have hlen := hw.len
        have hn255 : acc.length ≠ 0xff := by omega
        have hF := scanModule_frame m ep acc.length ctl info hn255 hw.rst p1 (by rw [hI.ctlLen]; exact hlen)
        obtain ⟨r, hr⟩ : ∃ r, r = scanModule m ep acc.length ctl info := ⟨_, rfl⟩
        rw [← hr] at hF ⊢
        have hI' : ∀ n', 1 ≤ n' → n' ≤ 255 → SeqInv n' r.ctl r.info := by
          intro n' h1 h2
          refine ⟨by rw [hF.ctlLen]; exact hI.ctlLen, by rw [hF.infoLen]; exact hI.infoLen, ?_, hF.infoCtl hI.infoCtl, h1, h2⟩
          rw [hF.used hep0 0 (by rw [hI.ctl0]; omega)]; exact hI.ctl0
        have hA' : ∀ k, k < acc.length → SeqOK m k (acc.getD k default) r.ctl r.info :=
          fun k hk => (hA k hk).step acc.length ep r hF hk hep0
        by_cases hacc : r.ret > 0
        · rw [if_pos hacc]
          apply ih
          · rw [List.length_append]; exact hI' _ (by simp) (by simp; omega)
          · intro k hk
            rw [List.length_append] at hk
            simp only [List.length_cons, List.length_nil] at hk
            by_cases hkn : k < acc.length
            · have : (acc ++ [({ ep := ep, res := r } : SeqRec)]).getD k default = acc.getD k default := by
                rw [List.getD_eq_getElem?_getD, List.getD_eq_getElem?_getD, List.getElem?_append_left hkn]
              rw [this]; exact hA' k hkn
            · have hk' : k = acc.length := by omega
              subst hk'
              have hget : (acc ++ [({ ep := ep, res := r } : SeqRec)]).getD acc.length default = { ep := ep, res := r } := by
                rw [List.getD_eq_getElem?_getD, List.getElem?_append_right (Nat.le_refl _)]; simp
              rw [hget]
              have hacc0 : 0 ≤ (scanModule m ep acc.length ctl info).ret := by rw [← hr]; omega
              obtain ⟨o1, s1, s2, s3⟩ := accepted_start m ep acc.length ctl info hw p1 hn255
                (fun h => absurd h hep0) hacc0
              have hown : ep ≠ 0 → isPlay m 0 → ctl.getD 0 0xff ≠ acc.length := by
                intro _ _; rw [hI.ctl0]; have := hI.pos; omega
              obtain ⟨t1, t2, t3⟩ := accepted_facts m ep acc.length ctl info o1 hw p1 s1 s2 s3 (fun _ => p3)
                (by omega) (by rw [hI.ctlLen]; exact hlen) hacc0
              have hneg : (info.getD o1 {}).time < 0 := by
                by_cases h : 0 ≤ (info.getD o1 {}).time
                · exact absurd (t1 hep0) (hI.infoCtl o1 h)
                · omega
              have ho1l : o1 < info.length := by rw [hI.infoLen]; have := s2.1; omega
              obtain ⟨u1, u2, u3⟩ := t2 hneg ho1l
              rw [← hr] at u1 u2 u3 t3
              refine ⟨ctl, info, o1, hr, p1, s1, s2, s3, fun _ => p3, hown, by omega,
                by rw [hI.ctlLen]; exact hlen, by show 0 ≤ r.ret; omega, fun _ => Iff.rfl, u1, u2, u3, ?_⟩
              intro r' hr' hrow
              obtain ⟨⟨v1, v2⟩, v3⟩ := t3 r' hr'
              have hneg' : (info.getD r'.ord {}).time < 0 := by
                by_cases h : 0 ≤ (info.getD r'.ord {}).time
                · exact absurd (v2 hep0) (hI.infoCtl r'.ord h)
                · omega
              exact v3 hrow hneg' (by rw [hI.infoLen]; have := v1.1; omega)
        · rw [if_neg hacc]
          exact ih acc r.ctl r.info (hI' _ hI.pos hI.le) hA'

/-- `scanSequences` unfolded -/
theorem scanSequences_eq (m : LinMod) :
    scanSequences m =
      if (scanModule m 0 0 (List.replicate 256 0xff) (List.replicate 256 {})).ret < 0 then
        { ok := false, seqs := [], ctl := (scanModule m 0 0 (List.replicate 256 0xff) (List.replicate 256 {})).ctl,
          info := (scanModule m 0 0 (List.replicate 256 0xff) (List.replicate 256 {})).info }
      else
        { ok := true,
          seqs := (seqLoop m (m.len + 1) [{ ep := 0, res := scanModule m 0 0 (List.replicate 256 0xff) (List.replicate 256 {}) }]
            (scanModule m 0 0 (List.replicate 256 0xff) (List.replicate 256 {})).ctl
            (scanModule m 0 0 (List.replicate 256 0xff) (List.replicate 256 {})).info).1,
          ctl := (seqLoop m (m.len + 1) [{ ep := 0, res := scanModule m 0 0 (List.replicate 256 0xff) (List.replicate 256 {}) }]
            (scanModule m 0 0 (List.replicate 256 0xff) (List.replicate 256 {})).ctl
            (scanModule m 0 0 (List.replicate 256 0xff) (List.replicate 256 {})).info).2.1.map
              (fun c => if c ≥ (seqLoop m (m.len + 1) [{ ep := 0, res := scanModule m 0 0 (List.replicate 256 0xff) (List.replicate 256 {}) }]
                (scanModule m 0 0 (List.replicate 256 0xff) (List.replicate 256 {})).ctl
                (scanModule m 0 0 (List.replicate 256 0xff) (List.replicate 256 {})).info).1.length then 0xff else c),
          info := (seqLoop m (m.len + 1) [{ ep := 0, res := scanModule m 0 0 (List.replicate 256 0xff) (List.replicate 256 {}) }]
            (scanModule m 0 0 (List.replicate 256 0xff) (List.replicate 256 {})).ctl
            (scanModule m 0 0 (List.replicate 256 0xff) (List.replicate 256 {})).info).2.2 } := by
  unfold scanSequences
  simp only []

theorem getD_map_lt (l : List Nat) (f : Nat → Nat) (i d : Nat) (h : i < l.length) :
    (l.map f).getD i d = f (l.getD i d) := by
  simp [List.getD_eq_getElem?_getD, List.getElem?_map, List.getElem?_eq_getElem h]

/-- **Every sequence of `libxmp_scan_sequences` satisfies the hypotheses of the simulation theorem**
with the player environment built from the final `sequence_control` / `xxo_info`. -/
theorem scanSequences_seqHyp (m : LinMod) (hw : ModWF m) (hok : (scanSequences m).ok = true) (k : Nat)
    (hk : k < (scanSequences m).seqs.length) :
    ∃ ctlk infok o1,
      ((scanSequences m).seqs.getD k default).res = scanModule m ((scanSequences m).seqs.getD k default).ep k ctlk infok ∧
      SeqHyp m ((scanSequences m).seqs.getD k default).ep k ctlk infok ((scanSequences m).env m k) o1 ∧
      (∀ r ∈ ((scanSequences m).seqs.getD k default).res.trace, r.row = 0 →
        ((scanSequences m).info.getD r.ord {}).timeX = r.t0 ∧
        ((scanSequences m).info.getD r.ord {}).time = (toMs r.t0 : Int)) := by
  obtain ⟨ctl0, hctl0⟩ : ∃ c : List Nat, c = List.replicate 256 0xff := ⟨_, rfl⟩
  obtain ⟨info0, hinfo0⟩ : ∃ c : List OrdInfo, c = List.replicate 256 {} := ⟨_, rfl⟩
  obtain ⟨r0, hr0⟩ : ∃ r, r = scanModule m 0 0 ctl0 info0 := ⟨_, rfl⟩
  have heq := scanSequences_eq m
  rw [← hctl0, ← hinfo0, ← hr0] at heq
  have hlen := hw.len
  have hlen0 : 0 < m.len := by have := hw.rst; omega
  by_cases hneg : r0.ret < 0
  · rw [if_pos hneg] at heq
    rw [heq] at hok; cases hok
  · rw [if_neg hneg] at heq
    obtain ⟨L3, hL3⟩ : ∃ t, t = seqLoop m (m.len + 1) [{ ep := 0, res := r0 }] r0.ctl r0.info := ⟨_, rfl⟩
    rw [← hL3] at heq
    have hacc0 : 0 ≤ (scanModule m 0 0 ctl0 info0).ret := by rw [← hr0]; omega
    have hc0len : ctl0.length = 256 := by rw [hctl0, List.length_replicate]
    have hi0len : info0.length = 256 := by rw [hinfo0, List.length_replicate]
    have hc0get : ∀ o, ctl0.getD o 0xff = 0xff := by
      intro o; rw [hctl0, List.getD_eq_getElem?_getD, List.getElem?_replicate]; split <;> rfl
    have hi0get : ∀ o, (info0.getD o {}).time = -1 := by
      intro o; rw [hinfo0, List.getD_eq_getElem?_getD, List.getElem?_replicate]; split <;> rfl
    have hF0 := scanModule_frame m 0 0 ctl0 info0 (by decide) hw.rst hlen0 (by rw [hc0len]; exact hlen)
    rw [← hr0] at hF0
    -- the main sequence
    obtain ⟨o1, s1, s2, s3⟩ := accepted_start m 0 0 ctl0 info0 hw hlen0 (by decide)
      (fun _ _ => by rw [hc0get]; decide) hacc0
    obtain ⟨_, t2, t3⟩ := accepted_facts m 0 0 ctl0 info0 o1 hw hlen0 s1 s2 s3 (fun h => absurd rfl h)
      (by decide) (by rw [hc0len]; exact hlen) hacc0
    obtain ⟨u1, u2, u3⟩ := t2 (by rw [hi0get]; decide) (by rw [hi0len]; have := s2.1; omega)
    rw [← hr0] at u1 u2 u3 t3
    have hclaim : r0.ctl.getD 0 0xff = 0 := by
      obtain ⟨stF, oF, rS, hscan, _, _, _, _, r4, _⟩ := scanModule_accepted m 0 0 ctl0 info0 hacc0
      rw [hr0, r4]
      exact scan_claims_ep m 0 0 hw hlen0 _ _ _ _ _ rfl (Or.inl rfl) (by show 0 < ctl0.length; rw [hc0len]; decide) hscan
    have hI0 : SeqInv ([({ ep := 0, res := r0 } : SeqRec)]).length r0.ctl r0.info := by
      refine ⟨by rw [hF0.ctlLen]; exact hc0len, by rw [hF0.infoLen]; exact hi0len, hclaim, ?_, by simp, by simp⟩
      apply hF0.infoCtl
      intro o ho; rw [hi0get] at ho; omega
    have hA0 : ∀ k, k < ([({ ep := 0, res := r0 } : SeqRec)]).length →
        SeqOK m k (([({ ep := 0, res := r0 } : SeqRec)]).getD k default) r0.ctl r0.info := by
      intro k hk
      simp only [List.length_cons, List.length_nil] at hk
      have : k = 0 := by omega
      subst this
      exact ⟨ctl0, info0, o1, hr0, hlen0, s1, s2, s3, fun h => absurd rfl h, fun h => absurd rfl h, by decide,
        by rw [hc0len]; exact hlen, by show 0 ≤ r0.ret; omega, fun _ => Iff.rfl, u1, u2, u3,
        fun r' hr' hrow => ((t3 r' hr').2 hrow (by rw [hi0get]; decide)
          (by rw [hi0len]; have := (t3 r' hr').1.1.1; omega))⟩
    obtain ⟨hAll, hIF⟩ := seqLoop_ok m hw (m.len + 1) _ r0.ctl r0.info hI0 hA0
    rw [← hL3] at hAll hIF
    rw [heq] at hk ⊢
    simp only at hk
    obtain ⟨ctlk, infok, o1k, a1, a2, a3, a4, a5, a6, a7, a8, a9, a10, a11, a12, a13, a14, a15⟩ := hAll k hk
    refine ⟨ctlk, infok, o1k, a1, ⟨hw, a2, a3, a4, a5, a6, a8, a9, by rw [← a1]; exact a10, rfl, ?_, ?_, ⟨a12, a13⟩⟩, a15⟩
    · show (SeqScan.env _ m k).si = _
      simp only [SeqScan.env]
      rw [← a1]
    · intro hp
      rw [← a1, ← a11 hp]
      show (L3.2.1.map _).getD m.rst 0xff = k ↔ _
      have hrl : m.rst < L3.2.1.length := by rw [hIF.ctlLen]; have := hw.rst; omega
      rw [getD_map_lt _ _ _ _ hrl]
      constructor
      · intro h
        split at h
        · omega
        · exact h
      · intro h
        rw [h, if_neg (by omega)]

end Xmp.LinFlow
