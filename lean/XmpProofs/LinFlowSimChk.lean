import XmpProofs.LinFlowSim
/-! C18: soundness of the decidable hypothesis checker `seqHypB` (evaluated by the driver on every
sequence of every generated module) for `SeqHyp`. -/
set_option linter.unusedSimpArgs false
set_option linter.unusedVariables false
namespace Xmp.LinFlow

theorem Fx.wfb_sound (fx : Fx) (h : fx.wfb = true) : fx.WF := by
  cases fx <;> simp [Fx.wfb, Fx.WF] at h ⊢ <;> exact h

theorem modWFb_sound (m : LinMod) (h : modWFb m = true) : ModWF m := by
  simp only [modWFb, Bool.and_eq_true, decide_eq_true_eq, List.all_eq_true, Bool.or_eq_true, Bool.not_eq_true',
    bne_iff_ne, ne_eq, List.mem_range] at h
  obtain ⟨⟨⟨⟨⟨h1, h2⟩, h3⟩, h4⟩, h5⟩, h6⟩ := h
  refine ⟨?_, ?_, ?_, h2, h3, h4, h5, ?_⟩
  · intro p hp fx hfx
    exact Fx.wfb_sound fx ((h1 p hp).2 fx hfx)
  · intro p hp hnil
    have := (h1 p hp).1.1
    rw [hnil] at this
    simp at this
  · intro p hp
    exact (h1 p hp).1.2
  · intro hm
    rcases h6 with h | h
    · rw [hm] at h; cases h
    · exact h

theorem firstPlay_sound (m : LinMod) : ∀ (f o o1 : Nat), firstPlay m f o = some o1 →
    SkipRange m o o1 ∧ isPlay m o1 ∧ o ≤ o1 := by
  intro f
  induction f with
  | zero => intro o o1 h; simp [firstPlay] at h
  | succ f ih =>
    intro o o1 h
    rw [firstPlay] at h
    split at h
    · cases h
    · rename_i hlt
      split at h
      · rename_i hp
        simp only [Option.some.injEq] at h
        subst h
        exact ⟨fun x h1 h2 => by omega, ⟨by omega, hp⟩, Nat.le_refl _⟩
      · rename_i hp
        split at h
        · cases h
        · rename_i hend
          obtain ⟨i1, i2, i3⟩ := ih (o + 1) o1 h
          refine ⟨?_, i2, by omega⟩
          intro x h1 h2
          by_cases hx : x = o
          · subst hx
            refine ⟨by omega, by omega, ?_⟩
            intro hc
            apply hend
            simp [hc.1, hc.2]
          · exact i1 x (by omega) h2

theorem seqHypB_sound (e : PlayEnv) (ep chain : Nat) (ctl0 : List Nat) (info0 : List OrdInfo)
    (h : seqHypB e ep chain ctl0 info0 = true) : ∃ o1, SeqHyp e.m ep chain ctl0 info0 e o1 := by
  unfold seqHypB at h
  simp only [] at h
  cases hfp : firstPlay e.m (e.m.len + 1) ep with
  | none => rw [hfp] at h; cases h
  | some o1 =>
    rw [hfp] at h
    simp only [Bool.and_eq_true, decide_eq_true_eq, List.all_eq_true, Bool.or_eq_true, Bool.not_eq_true',
      bne_iff_ne, ne_eq, List.mem_range, beq_iff_eq, Bool.and_eq_false_imp, decide_eq_false_iff_not] at h
    obtain ⟨⟨⟨⟨⟨⟨⟨⟨⟨⟨⟨⟨⟨g1, g2⟩, g3⟩, g4b⟩, g5⟩, g6⟩, g7⟩, g8⟩, g9⟩, g10⟩, g11⟩, g12⟩, g13⟩, g14⟩ := h
    obtain ⟨f1, f2, f3⟩ := firstPlay_sound e.m _ ep o1 hfp
    refine ⟨o1, modWFb_sound e.m g1, g2, f1, f2, f3, ?_, g4b, g5, g6, rfl, ?_, ?_, ⟨g13, g14⟩⟩
    · intro he o ho
      rcases g3 with h | h
      · exact absurd h he
      · exact h o ho
    · cases hsi : e.si
      rw [hsi] at g7 g8 g9 g10 g11
      simp only at g7 g8 g9 g10 g11
      rw [g7, g8, g9, g10, g11]
    · intro hp
      rcases g12 with h | h
      · exact absurd hp.2 h
      · simpa using h

end Xmp.LinFlow
