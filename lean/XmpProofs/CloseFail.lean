import XmpProofs.Resource
/-! `hio_reopen_*` when closing the old stream reports an error (`Xmp.Resource.hioReopenMemR` …). -/
namespace Xmp.Resource

theorem closeInternalR_world (fails : Bool) (cb : Callbacks) (x : Hio) (w : World) :
    (hioCloseInternalR fails cb x w).2 = hioCloseInternal cb x w := by
  unfold hioCloseInternalR
  cases x.type <;> rfl

theorem closeInternalR_ok (cb : Callbacks) (x : Hio) (w : World) : ¬ (hioCloseInternalR false cb x w).1 < 0 := by
  unfold hioCloseInternalR
  cases x.type <;> simp

/-- the variant that switches in any case does not depend on what the close function reports -/
theorem reopenMemR_true (fails : Bool) (cb : Callbacks) (buf : Tok) (x : Hio) (w : World) :
    hioReopenMemR true fails cb buf x w = hioReopenMem cb buf x w := by
  unfold hioReopenMemR hioReopenMem
  rcases alloc_cases w ⟨.mfile, 1⟩ with ha | ha <;> rw [ha]
  simp [closeInternalR_world]

theorem reopenFileR_true (fails : Bool) (cb : Callbacks) (sizeOk : Bool) (x : Hio) (w : World) :
    hioReopenFileR true fails cb sizeOk x w = hioReopenFile cb sizeOk x w := by
  unfold hioReopenFileR hioReopenFile
  cases sizeOk <;> simp [closeInternalR_world]

/-- without a close failure both variants are the plain functions -/
theorem reopenMemR_nofail (sw : Bool) (cb : Callbacks) (buf : Tok) (x : Hio) (w : World) :
    hioReopenMemR sw false cb buf x w = hioReopenMem cb buf x w := by
  unfold hioReopenMemR hioReopenMem
  rcases alloc_cases w ⟨.mfile, 1⟩ with ha | ha <;> rw [ha]
  have := closeInternalR_ok cb x { w with oracle := w.oracle.tail, nalloc := w.nalloc + 1, live := ⟨.mfile, 1⟩ :: w.live }
  simp only [Bool.and_eq_true, decide_eq_true_eq, this, false_and, if_false, closeInternalR_world]

theorem reopenFileR_nofail (sw : Bool) (cb : Callbacks) (sizeOk : Bool) (x : Hio) (w : World) :
    hioReopenFileR sw false cb sizeOk x w = hioReopenFile cb sizeOk x w := by
  unfold hioReopenFileR hioReopenFile
  cases sizeOk
  · simp
  · have := closeInternalR_ok cb x w
    simp [this, closeInternalR_world]

def dropFails (rs : List (Bool × Bool × Bool)) : List (Bool × Bool) := rs.map fun r => (r.1, r.2.1)

theorem reopenSeqR_true (cb : Callbacks) : ∀ (rs : List (Bool × Bool × Bool)) (x : Hio) (w : World),
    reopenSeqR true cb rs x w = reopenSeq cb (dropFails rs) x w := by
  intro rs
  induction rs with
  | nil => intro x w; rfl
  | cons r rs ih =>
    intro x w
    obtain ⟨toMem, ok, fails⟩ := r
    simp only [reopenSeqR, dropFails, List.map_cons, reopenSeq, List.length_map, reopenMemR_true, reopenFileR_true]
    cases toMem
    · simp only [Bool.false_eq_true, if_false]
      split
      · rfl
      · exact ih _ _
    · simp only [if_true]
      split
      · rfl
      · split
        · rfl
        · split
          · rfl
          · exact ih _ _

theorem reopenSeqR_nofail (sw : Bool) (cb : Callbacks) : ∀ (rs : List (Bool × Bool × Bool)) (x : Hio) (w : World),
    (∀ r ∈ rs, r.2.2 = false) → reopenSeqR sw cb rs x w = reopenSeq cb (dropFails rs) x w := by
  intro rs
  induction rs with
  | nil => intro x w _; rfl
  | cons r rs ih =>
    intro x w h
    obtain ⟨toMem, ok, fails⟩ := r
    have hf : fails = false := h (toMem, ok, fails) (by simp)
    subst hf
    have ih' := fun x w => ih x w (fun r hr => h r (by simp [hr]))
    simp only [reopenSeqR, dropFails, List.map_cons, reopenSeq, List.length_map, reopenMemR_nofail, reopenFileR_nofail]
    cases toMem
    · simp only [Bool.false_eq_true, if_false]
      split
      · rfl
      · exact ih' _ _
    · simp only [if_true]
      split
      · rfl
      · split
        · rfl
        · split
          · rfl
          · exact ih' _ _

theorem streamLifeR_true (e : Entry) (cb : Callbacks) (sizeOk : Bool) (rs : List (Bool × Bool × Bool)) (w : World) :
    streamLifeR true e cb sizeOk rs w = streamLife e cb sizeOk (dropFails rs) w := by
  unfold streamLifeR streamLife
  split <;> simp_all [reopenSeqR_true]

end Xmp.Resource

/-! ## rescans -/
namespace Xmp.Resource

local macro "triv" : tactic => `(tactic| first | rfl | trivial | decide)

/-- exactly the block `s` on top of the frame `B` -/
def OwnsScan (s : Tok) (w : World) (B : List Tok) : Prop := ∀ u, w.live.count u = B.count u + [s].count u

theorem realloc_spec (w : World) (s t : Tok) (B : List Tok) (hO : OwnsScan s w B) :
    let r := w.realloc (some s) t
    r.2.bad = w.bad ∧ r.2.nalloc = w.nalloc + 1 ∧
    ((w.oracle.headD true = false ∧ r.1 = none ∧ OwnsScan s r.2 B ∧ r.2.live = w.live) ∨
     (w.oracle.headD true = true ∧ r.1 = some t ∧ OwnsScan t r.2 B)) := by
  unfold World.realloc
  cases hh : w.oracle.headD true
  · simp only [Bool.false_eq_true, if_false]
    exact ⟨by triv, by triv, Or.inl ⟨by triv, by triv, hO, by triv⟩⟩
  · simp only [if_true]
    refine ⟨by triv, by triv, Or.inr ⟨by triv, by triv, ?_⟩⟩
    intro u
    have h1 := hO u
    have hm : s ∈ w.live := by
      have := hO s
      simp only [List.count_cons, List.count_nil, beq_self_eq_true, if_true] at this
      exact List.count_pos_iff.mp (by omega)
    have hp : 0 < w.live.count s := List.count_pos_iff.mpr hm
    simp only [List.count_cons, List.count_erase, List.count_nil] at h1 ⊢
    by_cases hsu : s = u
    · subst hsu; simp at h1 ⊢; omega
    · have : (s == u) = false := by simpa using hsu
      simp [this] at h1 ⊢
      omega

theorem compareVblank_spec (on : Bool) (w : World) (s : Tok) (B : List Tok) (hO : OwnsScan s w B) :
    (compareVblank on w).bad = w.bad ∧ OwnsScan s (compareVblank on w) B := by
  unfold compareVblank
  cases on
  · exact ⟨rfl, hO⟩
  · simp only [if_true]
    rcases alloc_cases w ⟨.loaderTmp, 0⟩ with ha | ha <;> rw [ha]
    · exact ⟨rfl, hO⟩
    · refine ⟨by simp [World.free], ?_⟩
      intro u; have := hO u; simp [World.free]; exact this

/-- **libxmp_scan_sequences on a live context** for every allocation oracle: nothing is freed twice, and
afterwards `p->scan` is one live block on top of the same frame - the old block when the first realloc
failed (then the code is negative and nothing at all changed), otherwise the block the last successful
realloc returned; the backup of compare_vblank_scan never outlives the call -/
theorem scanSequences_spec (vblankCmp valid shrink : Bool) (s : Tok) (w : World) (B : List Tok) (hO : OwnsScan s w B) :
    let r := scanSequences vblankCmp valid shrink (some s) w
    r.2.2.bad = w.bad ∧ (∃ s', r.2.1 = some s' ∧ OwnsScan s' r.2.2 B) ∧
    (w.oracle.headD true = false → r.1 < 0 ∧ r.2.1 = some s ∧ r.2.2.live = w.live) ∧
    (r.1 < 0 → w.oracle.headD true = false ∨ valid = false) := by
  unfold scanSequences
  obtain ⟨b1, _, h1⟩ := realloc_spec w s ⟨.scan, w.nalloc + 1⟩ B hO
  generalize w.realloc (some s) ⟨.scan, w.nalloc + 1⟩ = r1 at b1 h1
  obtain ⟨o1, w1⟩ := r1
  simp only at b1 h1
  rcases h1 with ⟨hh, rfl, hO1, hl1⟩ | ⟨hh, rfl, hO1⟩
  · exact ⟨b1, ⟨s, rfl, hO1⟩, fun _ => ⟨by simp, rfl, hl1⟩, fun _ => Or.inl hh⟩
  · simp only
    obtain ⟨b2, hO2⟩ := compareVblank_spec vblankCmp w1 ⟨.scan, w.nalloc + 1⟩ B hO1
    generalize compareVblank vblankCmp w1 = w2 at b2 hO2
    rw [b1] at b2
    have hno : w.oracle.headD true = false → False := by rw [hh]; intro h; exact absurd h (by decide)
    cases valid
    · simp only [Bool.not_false, if_true]
      exact ⟨b2, ⟨_, rfl, hO2⟩, fun h => (hno h).elim, fun _ => Or.inr (by triv)⟩
    · simp only [Bool.not_true, Bool.false_eq_true, if_false]
      cases shrink
      · simp only [Bool.false_eq_true, if_false]
        exact ⟨b2, ⟨_, rfl, hO2⟩, fun h => (hno h).elim, fun h => by simp at h⟩
      · simp only [if_true]
        obtain ⟨b3, _, h3⟩ := realloc_spec w2 ⟨.scan, w.nalloc + 1⟩ ⟨.scan, w2.nalloc + 1⟩ B hO2
        generalize w2.realloc (some ⟨.scan, w.nalloc + 1⟩) ⟨.scan, w2.nalloc + 1⟩ = r3 at b3 h3
        obtain ⟨o3, w3⟩ := r3
        simp only at b3 h3
        rcases h3 with ⟨_, rfl, hO3, _⟩ | ⟨_, rfl, hO3⟩
        · exact ⟨by rw [b3, b2], ⟨_, rfl, hO3⟩, fun h => (hno h).elim, fun h => by simp at h⟩
        · exact ⟨by rw [b3, b2], ⟨_, rfl, hO3⟩, fun h => (hno h).elim, fun h => by simp at h⟩

/-- xmp_set_player(XMP_PLAYER_MODE) for every allocation oracle and every outcome of the two scans.
`w1` is the world after the first rescan (the allocator's future when the second one starts). -/
theorem setPlayerMode_spec (new old : ScanP) (oldMode newMode : Nat) (s : Tok) (w : World) (B : List Tok)
    (hO : OwnsScan s w B) :
    let r := setPlayerMode new old oldMode newMode (some s) w
    let w1 := (scanSequences new.vblankCmp new.valid new.shrink (some s) w).2.2
    r.2.2.2.2.bad = w.bad ∧ (∃ s', r.2.2.2.1 = some s' ∧ OwnsScan s' r.2.2.2.2 B) ∧
    (r.1 < 0 → r.1 = errInvalid ∧ r.2.1 = oldMode ∧ (w.oracle.headD true = false ∨ new.valid = false) ∧
       (old.valid = true → w1.oracle.headD true = true → r.2.2.1 = true)) ∧
    (¬ r.1 < 0 → r.1 = 0 ∧ r.2.1 = newMode ∧ r.2.2.1 = true ∧ new.valid = true) := by
  unfold setPlayerMode
  obtain ⟨b1, ⟨s1, e1, hO1⟩, _, g1⟩ := scanSequences_spec new.vblankCmp new.valid new.shrink s w B hO
  generalize hr : scanSequences new.vblankCmp new.valid new.shrink (some s) w = r1 at b1 e1 hO1 g1
  by_cases h : r1.1 < 0
  · simp only [h, if_true]
    rw [e1]
    obtain ⟨b2, ⟨s2, e2, hO2⟩, _, g2⟩ := scanSequences_spec old.vblankCmp old.valid old.shrink s1 r1.2.2 B hO1
    refine ⟨by rw [b2, b1], ⟨s2, e2, hO2⟩, fun _ => ⟨by triv, by triv, g1 h, fun hv hh => ?_⟩,
      fun hn => absurd (by decide : errInvalid < 0) hn⟩
    by_cases hneg : (scanSequences old.vblankCmp old.valid old.shrink (some s1) r1.2.2).1 < 0
    · rcases g2 hneg with x | x
      · rw [hh] at x; exact absurd x (by decide)
      · rw [hv] at x; exact absurd x (by decide)
    · simp [hneg]
  · simp only [h, if_false]
    refine ⟨b1, ⟨s1, e1, hO1⟩, fun hn => by simp at hn, fun _ => ⟨by triv, by triv, by triv, ?_⟩⟩
    cases hv : new.valid
    · exfalso
      apply h
      rw [← hr]
      unfold scanSequences
      split
      · simp
      · simp [hv]
    · rfl

end Xmp.Resource
