import XmpModel.IffWalk
import XmpProofs.WorkBound
/-!
# The IFF chunk walker always moves forward (C02)

Every iteration of `libxmp_iff_load` that continues has consumed a whole chunk header (`id_size + 4` bytes,
8 for the standard configuration) and leaves the position at or after the end of that header: no declared
chunk length (0, 2^31, 2^32 − 1, lengths that the alignment or full-size corrections would wrap) makes the
walk stay in place or go backwards.  Hence at most `|file| / (id_size + 4) + 1` iterations.
-/
namespace Xmp.Iff
open Xmp Xmp.Work

theorem readId_bounds (c : Cfg) (f : Bytes) (p : Nat) (id : Bytes) (p1 : Nat) (hp : p ≤ f.length)
    (h : readId c f p = some (id, p1)) :
    p + c.idSize ≤ p1 ∧ p1 ≤ f.length := by
  unfold readId at h
  simp only [] at h
  repeat' split at h
  all_goals (simp only [Option.some.injEq, Prod.mk.injEq, reduceCtorEq] at h)
  all_goals (obtain ⟨_, h2⟩ := h; subst h2; omega)

theorem process_succ (c : Cfg) (hs : List Handler) (f : Bytes) (id : Bytes) (p2 size p' : Nat) (hp : p2 ≤ f.length)
    (h : (process c hs f id p2 size).succ? = some p') : p2 ≤ p' := by
  unfold process at h
  simp only [] at h
  repeat' split at h
  all_goals (simp only [Out.succ?, Option.some.injEq, reduceCtorEq] at h)
  all_goals (subst h; omega)

/-- **progress**: a continuing iteration started inside the data, read a whole header, and continues at or
after the end of that header (the target is only ever clamped down to the end of the data) -/
theorem chunkStep_progress (c : Cfg) (hs : List Handler) (f : Bytes) (p p' : Nat)
    (h : (chunkStep c hs f p).succ? = some p') :
    p + c.idSize + 4 ≤ f.length ∧ p + c.idSize + 4 ≤ p' := by
  unfold chunkStep at h
  split at h
  · simp [Out.succ?] at h
  split at h
  · simp [Out.succ?] at h
  rename_i id p1 hid
  have hb := readId_bounds c f p id p1 (by omega) hid
  split at h
  · simp [Out.succ?] at h
  split at h
  · simp [Out.succ?] at h
  rename_i size _
  have := process_succ c hs f id (p1 + 4) size p' (by omega) h
  omega

/-- the remaining bytes decrease by at least one header per iteration -/
theorem chunkStep_measure (c : Cfg) (hs : List Handler) (f : Bytes) (p p' : Nat)
    (h : (chunkStep c hs f p).succ? = some p') : (f.length - p') + (c.idSize + 4) ≤ f.length - p := by
  have := chunkStep_progress c hs f p p' h
  omega

/-- **the chunk walk terminates**: from any start position, `libxmp_iff_load` ends by itself within
`(|file| − start) / (id_size + 4) + 1` loop tests (`|file|/8 + 1` for the standard 4-byte ids), for every flag
combination, every set of registered loaders whatever they do, and every file content -/
theorem iffLoad_terminates (c : Cfg) (hs : List Handler) (f : Bytes) (start : Nat) :
    EndsWithin (chunkStep c hs f) (iffFuel c f) start ((f.length - start) / (c.idSize + 4) + 1) := by
  have hb := run_bounded (chunkStep c hs f) (fun _ => True) (fun p => f.length - p) (c.idSize + 4) (by omega)
    (fun s s' _ h => ⟨trivial, chunkStep_measure c hs f s s' h⟩)
  apply hb (iffFuel c f) start trivial
  unfold iffFuel
  have : (f.length - start) / (c.idSize + 4) ≤ f.length / (c.idSize + 4) := Nat.div_le_div_right (Nat.sub_le _ _)
  omega

end Xmp.Iff
